import PhononModel.Model.CxPair
/-!
Model of the analytic q-derivative of the dynamical matrix (property C12).

Source anchors (tied by the correspondence run of `./check C12`, not by proof):
* `c/derivative_dynmat.c: get_derivative_dynmat_at_q`      ↦ `rawC` (per block `(i,j)`, real/imaginary parts as in the C)
* `c/derivative_dynmat.c: get_derivative_nac/get_A/get_C/get_dA/get_dC` ↦ `getA`, `getC`, `getdA`, `getdC`, `dnacC`, `ddnacC`
* `c/derivative_dynmat.c: ddm_get_derivative_dynmat_at_q`, the loop
  `for (i<3) for (j = i; j < 3·np) for (k = 0; k < 3·np)`    ↦ `hermLoop` (in-place, literal order, bounds are
  parameters read from the source text by the harness), `ddmC`; its closed form `hermClosed`
* `harmonic/derivative_dynmat.py: _run_py`, `_nac`, `_d_nac`, `_A/_B/_dA/_dB` ↦ `rawPy`, `fcNacPy`, `dNacPy`, `ddmPy`
* `c/dynmat.c: get_dynmat_ij/get_dm/dym_get_charge_sum/make_Hermitian` (Wang NAC) ↦ `rawD`, `chargeSum`, `dynmat`
* `phonon/group_velocity.py: _get_dD_analytical`           ↦ `ddmDir`

Non-algebraic inputs are parameters: `c l, s l` are `cos/sin(2π q·svec_l)`, `ms i j = sqrt(m_i m_j)`,
`tp = 2π`; the harness hands over the floats the code used as exact rationals.
Matrices are flat `(3·np)×(3·np)` as in the code: row `r = 3·atom + component`.
-/
namespace PhononModel.C12
open PhononModel PhononModel.CP

variable {α : Type} [Add α] [Sub α] [Neg α] [Mul α] [Div α] [OfNat α 0] [OfNat α 2] [NatCast α]

def atomOf {np : Nat} (r : Fin (np * 3)) : Fin np := ⟨r.1 / 3, by have := r.2; omega⟩
def compOf {np : Nat} (r : Fin (np * 3)) : Fin 3 := ⟨r.1 % 3, by omega⟩

abbrev Mat (d : Nat) (α : Type) := Fin d → Fin d → Cx α

/-- index tables handed over by the Python layer: `p2s_map`, `s2p_map`, and for every pair
(supercell atom `k`, primitive atom `i`) the list of rows of `svecs` selected by `multi[k,i]`. -/
structure Tabs (np ns nv : Nat) where
  p2s : Fin np → Fin ns
  s2p : Fin ns → Fin ns
  img : Fin ns → Fin np → List (Fin nv)

/-- continuous inputs -/
structure Geo (np ns nv : Nat) (α : Type) where
  fc : FC ns α
  ms : Fin np → Fin np → α
  c : Fin nv → α
  s : Fin nv → α

/-- Wang-NAC inputs: Born charges, dielectric tensor, `qc = reclat·q` (or `reclat·q_direction`),
`factor = nac_factor·np/ns`. -/
structure Nac (np : Nat) (α : Type) where
  born : Fin np → Fin 3 → Fin 3 → α
  eps : Fin 3 → Fin 3 → α
  qc : Fin 3 → α
  factor : α

/-- C: `coef[m] = Σ_n 2·PI·lattice[m][n]·svecs[l][n]` (`lattice` = column vectors). -/
def coefC {nv : Nat} (tp : α) (lat : Fin 3 → Fin 3 → α) (sv : Fin nv → Fin 3 → α) (l : Fin nv) (m : Fin 3) : α :=
  sumFin 3 fun n => tp * lat m n * sv l n

/-- Python: `2π·dot(vecs, cell)` (`cell` = row vectors = `latticeᵀ`). -/
def coefPy {nv : Nat} (tp : α) (lat : Fin 3 → Fin 3 → α) (sv : Fin nv → Fin 3 → α) (l : Fin nv) (m : Fin 3) : α :=
  tp * sumFin 3 fun n => sv l n * lat m n

/-! ### NAC pieces (C) -/
def getA {np : Nat} (N : Nac np α) (i : Fin np) (a : Fin 3) : α := sumFin 3 fun x => N.qc x * N.born i x a
def getC {np : Nat} (N : Nac np α) : α := sumFin 3 fun x => sumFin 3 fun y => N.qc x * N.eps x y * N.qc y
def getdA {np : Nat} (N : Nac np α) (i : Fin np) (a k : Fin 3) : α := N.born i k a
def getdC {np : Nat} (N : Nac np α) (k : Fin 3) : α :=
  if k = 0 then 2 * N.qc 0 * N.eps 0 0 + N.qc 1 * (N.eps 0 1 + N.eps 1 0) + N.qc 2 * (N.eps 0 2 + N.eps 2 0)
  else if k = 1 then 2 * N.qc 1 * N.eps 1 1 + N.qc 2 * (N.eps 1 2 + N.eps 2 1) + N.qc 0 * (N.eps 0 1 + N.eps 1 0)
  else 2 * N.qc 2 * N.eps 2 2 + N.qc 0 * (N.eps 0 2 + N.eps 2 0) + N.qc 1 * (N.eps 1 2 + N.eps 2 1)

/-- `dnac[i][j][l][m] = a·b/(c·mass_sqrt)·factor` -/
def dnacC {np : Nat} (N : Nac np α) (ms : Fin np → Fin np → α) (i j : Fin np) (l m : Fin 3) : α :=
  getA N i l * getA N j m / (getC N * ms i j) * N.factor

/-- `ddnac[k][i][j][l][m] = (da·b + db·a − a·b·dc/c)/(c·mass_sqrt)·factor` -/
def ddnacC {np : Nat} (N : Nac np α) (ms : Fin np → Fin np → α) (k : Fin 3) (i j : Fin np) (l m : Fin 3) : α :=
  (getdA N i l k * getA N j m + getdA N j m k * getA N i l
    - getA N i l * getA N j m * getdC N k / getC N) / (getC N * ms i j) * N.factor

/-! ### the C kernel, one block -/
section kernel
variable {np ns nv : Nat}

def mpair (T : Tabs np ns nv) (k : Fin ns) (i : Fin np) : α := ((T.img k i).length : α)

/-- `real_coef[n]` after the division by `m_pair` -/
def realCoef (T : Tabs np ns nv) (G : Geo np ns nv α) (coef : Fin nv → Fin 3 → α) (k : Fin ns) (i : Fin np) (n : Fin 3) : α :=
  (sumList (T.img k i) fun l => -(coef l n * G.s l)) / mpair T k i
def imagCoef (T : Tabs np ns nv) (G : Geo np ns nv α) (coef : Fin nv → Fin 3 → α) (k : Fin ns) (i : Fin np) (n : Fin 3) : α :=
  (sumList (T.img k i) fun l => coef l n * G.c l) / mpair T k i
/-- `real_phase`, `imag_phase` after the division by `m_pair` -/
def realPhase (T : Tabs np ns nv) (G : Geo np ns nv α) (k : Fin ns) (i : Fin np) : α :=
  (sumList (T.img k i) fun l => G.c l) / mpair T k i
def imagPhase (T : Tabs np ns nv) (G : Geo np ns nv α) (k : Fin ns) (i : Fin np) : α :=
  (sumList (T.img k i) fun l => G.s l) / mpair T k i

/-- `get_derivative_dynmat_at_q`: the array before the Hermitisation loop. -/
def rawC (T : Tabs np ns nv) (G : Geo np ns nv α) (coef : Fin nv → Fin 3 → α) (nac : Option (Nac np α))
    (n : Fin 3) : Mat (np * 3) α := fun r c =>
  let i := atomOf r; let l := compOf r; let j := atomOf c; let m := compOf c
  match nac with
  | none =>
    ⟨sumFin ns fun k => if T.s2p k = T.p2s j then
        G.fc (T.p2s i) k l m / G.ms i j * realCoef T G coef k i n else 0,
     sumFin ns fun k => if T.s2p k = T.p2s j then
        G.fc (T.p2s i) k l m / G.ms i j * imagCoef T G coef k i n else 0⟩
  | some N =>
    ⟨sumFin ns fun k => if T.s2p k = T.p2s j then
        (G.fc (T.p2s i) k l m / G.ms i j + dnacC N G.ms i j l m) * realCoef T G coef k i n
          + ddnacC N G.ms n i j l m * realPhase T G k i else 0,
     sumFin ns fun k => if T.s2p k = T.p2s j then
        (G.fc (T.p2s i) k l m / G.ms i j + dnacC N G.ms i j l m) * imagCoef T G coef k i n
          + ddnacC N G.ms n i j l m * imagPhase T G k i else 0⟩
end kernel

/-! ### the Hermitisation loop, in place, in the order of the C source -/

def setM {d : Nat} (M : Mat d α) (r c : Fin d) (v : Cx α) : Mat d α :=
  fun r' c' => if r' = r ∧ c' = c then v else M r' c'

/-- body of the loop for `(j,k)`:
`A[j][k].re += A[k][j].re; /= 2; A[j][k].im -= A[k][j].im; /= 2; A[k][j] = conj(A[j][k])`. -/
def hermStep {d : Nat} (M : Mat d α) (j k : Fin d) : Mat d α :=
  let v : Cx α := ⟨((M j k).re + (M k j).re) / 2, ((M j k).im - (M k j).im) / 2⟩
  setM (setM M j k v) k j (Cx.conj v)

def loopRows (d js : Nat) : List (Fin d) := (List.finRange d).filter fun j => decide (js ≤ j.1)
def loopCols (d : Nat) (kFromJ : Bool) (j : Fin d) : List (Fin d) :=
  (List.finRange d).filter fun k => if kFromJ then decide (j.1 ≤ k.1) else true

/-- `for (j = js; j < d; j++) for (k = (kFromJ ? j : 0); k < d; k++) body(j,k)` -/
def hermLoop {d : Nat} (js : Nat) (kFromJ : Bool) (M : Mat d α) : Mat d α :=
  (loopRows d js).foldl (fun M j => (loopCols d kFromJ j).foldl (fun M k => hermStep M j k) M) M

/-- `(r,c)` or `(c,r)` is visited by the loop -/
def touched {d : Nat} (js : Nat) (kFromJ : Bool) (r c : Fin d) : Bool :=
  if kFromJ then (decide (js ≤ r.1) && decide (r.1 ≤ c.1)) || (decide (js ≤ c.1) && decide (c.1 ≤ r.1))
  else decide (js ≤ r.1) || decide (js ≤ c.1)

/-- what the loop computes: every visited pair is Hermitised, the rest (as written in `/repo`: the
leading `js × js` block) is left as it was. -/
def hermClosed {d : Nat} (js : Nat) (kFromJ : Bool) (M : Mat d α) : Mat d α := fun r c =>
  if touched js kFromJ r c = true then ⟨((M r c).re + (M c r).re) / 2, ((M r c).im - (M c r).im) / 2⟩
  else M r c

/-- `(M + M†)/2` -/
def herm {d : Nat} (M : Mat d α) : Mat d α := fun r c =>
  ⟨((M r c).re + (M c r).re) / 2, ((M r c).im - (M c r).im) / 2⟩

/-- loop bounds of the Hermitisation loop as they stand in the source: for direction `n` the outer
loop starts at `jsOf n`; the inner loop starts at `j` iff `kFromJ`.
As written in `/repo` at the time of modelling: `jsOf n = n`, `kFromJ = false`. -/
structure LoopSpec where
  jsIsDir : Bool
  kFromJ : Bool

def LoopSpec.js (L : LoopSpec) (n : Fin 3) : Nat := if L.jsIsDir then n.1 else 0

def asWritten : LoopSpec := ⟨true, false⟩
def asFixed : LoopSpec := ⟨false, true⟩

/-- `ddm_get_derivative_dynmat_at_q`. -/
def ddmC {np ns nv : Nat} (L : LoopSpec) (T : Tabs np ns nv) (G : Geo np ns nv α) (coef : Fin nv → Fin 3 → α)
    (nac : Option (Nac np α)) (n : Fin 3) : Mat (np * 3) α :=
  hermLoop (L.js n) L.kFromJ (rawC T G coef nac n)

def ddmCclosed {np ns nv : Nat} (L : LoopSpec) (T : Tabs np ns nv) (G : Geo np ns nv α) (coef : Fin nv → Fin 3 → α)
    (nac : Option (Nac np α)) (n : Fin 3) : Mat (np * 3) α :=
  hermClosed (L.js n) L.kFromJ (rawC T G coef nac n)

/-! ### the Python path -/
section py
variable {np ns nv : Nat}

/-- `_nac`: `outer(A_i, A_j)/B · nac_factor/N` -/
def fcNacPy (N : Nac np α) (i j : Fin np) (l m : Fin 3) : α :=
  getA N i l * getA N j m / getC N * N.factor

/-- `_dB`: `2·dot(e[xyz], q)` -/
def dBPy (N : Nac np α) (k : Fin 3) : α := (sumFin 3 fun y => N.eps k y * N.qc y) * 2

/-- `_d_nac`: `((dA_i⊗A_j + A_i⊗dA_j)/B − A_i⊗A_j·dB/B²)·nac_factor/N` -/
def dNacPy (N : Nac np α) (k : Fin 3) (i j : Fin np) (l m : Fin 3) : α :=
  ((getdA N i l k * getA N j m + getA N i l * getdA N j m k) / getC N
    - getA N i l * getA N j m * dBPy N k / (getC N * getC N)) * N.factor

/-- `(coef[:, n] * phase_multi).sum()` with `coef = 2πi·vecs_cart`, `phase = exp(2πi q·vec)` -/
def coefPhaseSum (T : Tabs np ns nv) (G : Geo np ns nv α) (coef : Fin nv → Fin 3 → α) (k : Fin ns) (i : Fin np) (n : Fin 3) : Cx α :=
  sumList (T.img k i) fun l => (⟨0, coef l n⟩ : Cx α) * ⟨G.c l, G.s l⟩
/-- `phase_multi.sum()` -/
def phaseSum (T : Tabs np ns nv) (G : Geo np ns nv α) (k : Fin ns) (i : Fin np) : Cx α :=
  sumList (T.img k i) fun l => (⟨G.c l, G.s l⟩ : Cx α)

/-- `ddm_local` of `_run_py`, all blocks. -/
def rawPy (T : Tabs np ns nv) (G : Geo np ns nv α) (coef : Fin nv → Fin 3 → α) (nac : Option (Nac np α))
    (n : Fin 3) : Mat (np * 3) α := fun r c =>
  let i := atomOf r; let l := compOf r; let j := atomOf c; let m := compOf c
  sumFin ns fun k => if T.p2s j = T.s2p k then
      match nac with
      | none => Cx.sdiv (Cx.sdiv (Cx.smul (G.fc (T.p2s i) k l m) (coefPhaseSum T G coef k i n)) (G.ms i j)) (mpair T k i)
      | some N => Cx.sdiv (Cx.sdiv (Cx.smul (G.fc (T.p2s i) k l m + fcNacPy N i j l m) (coefPhaseSum T G coef k i n)
                    + Cx.smul (dNacPy N n i j l m) (phaseSum T G k i)) (G.ms i j)) (mpair T k i)
    else 0

/-- `_run_py`: `(ddm + ddm†)/2`. -/
def ddmPy (T : Tabs np ns nv) (G : Geo np ns nv α) (coef : Fin nv → Fin 3 → α) (nac : Option (Nac np α))
    (n : Fin 3) : Mat (np * 3) α := herm (rawPy T G coef nac n)

/-! ### the dynamical matrix itself (`c/dynmat.c`, no NAC or Wang NAC) -/

/-- `dym_get_charge_sum` with `factor/(q·ε·q)` -/
def chargeSum (N : Nac np α) (i j : Fin np) (a b : Fin 3) : α :=
  getA N i a * getA N j b * (N.factor / getC N)

def cosPhase (T : Tabs np ns nv) (G : Geo np ns nv α) (k : Fin ns) (i : Fin np) : α :=
  sumList (T.img k i) fun l => G.c l / mpair T k i
def sinPhase (T : Tabs np ns nv) (G : Geo np ns nv α) (k : Fin ns) (i : Fin np) : α :=
  sumList (T.img k i) fun l => G.s l / mpair T k i

def rawD (T : Tabs np ns nv) (G : Geo np ns nv α) (nac : Option (Nac np α)) : Mat (np * 3) α := fun r c =>
  let i := atomOf r; let l := compOf r; let j := atomOf c; let m := compOf c
  let fcE : Fin ns → α := fun k => match nac with
    | none => G.fc (T.p2s i) k l m
    | some N => G.fc (T.p2s i) k l m + chargeSum N i j l m
  ⟨(sumFin ns fun k => if T.s2p k = T.p2s j then fcE k * cosPhase T G k i else 0) / G.ms i j,
   (sumFin ns fun k => if T.s2p k = T.p2s j then fcE k * sinPhase T G k i else 0) / G.ms i j⟩

/-- `dym_get_dynamical_matrix_at_q` -/
def dynmat (T : Tabs np ns nv) (G : Geo np ns nv α) (nac : Option (Nac np α)) : Mat (np * 3) α :=
  herm (rawD T G nac)

end py

/-- `GroupVelocity._get_dD_analytical`: `Σ_n dq[n]·ddm[n]`. -/
def ddmDir {d : Nat} (dq : Fin 3 → α) (ddm : Fin 3 → Mat d α) : Mat d α := fun r c =>
  ⟨sumFin 3 fun n => dq n * (ddm n r c).re, sumFin 3 fun n => dq n * (ddm n r c).im⟩

/-! ### staged evaluation for the driver -/

abbrev FMat (α : Type) := Array (Array (Cx α))

def stageM {d : Nat} (f : Mat d α → Mat d α) (A : FMat α) : FMat α := freeze2 (f (thaw2 A 0))

/-- the loop with the matrix materialised after every body execution -/
def hermLoopF (d : Nat) (js : Nat) (kFromJ : Bool) (A : FMat α) : FMat α :=
  (loopRows d js).foldl (fun A j => (loopCols d kFromJ j).foldl (fun A k => stageM (d := d) (fun M => hermStep M j k) A) A) A

end PhononModel.C12
