import PhononModel.Model.DerivDynMat
import PhononModel.Model.Gruneisen
/-!
Model of the group-velocity pipeline at one q-point (property C12).

Source anchors (tied by the correspondence run of `./check C12`):
* `phonon/group_velocity.py: _get_dD_analytical` (`Σ_j dq[j]·ddm[j]` for the four directions)     ↦ `ddmDir` (Model/DerivDynMat)
* `… _get_dD_FD`, `_delta_dynamical_matrix` (`(D(q+Δ) − D(q−Δ))/q_length/2`)                       ↦ `fdD`
* `phonon/degeneracy.py: degenerate_sets(freqs, cutoff=1e-4)`, called by `_calculate_group_velocity_at_q` on the
  **frequencies** (THz)                                                                                  ↦ `degSetFrom`, `degenerateSets`
* `… _perturb_D` (restriction of `ddms[0]` to a degenerate set, `eigh`, rotation, `diag(rot†·ddm·rot).real`) ↦ `restrict`, `rotated`, `gvDeg`
* `… _calculate_group_velocity_at_q` (`gv *= factor²/f/2` above the cutoff, else 0)                ↦ `gvScale`
* `utils.similarity_transformation` (`R·M·R⁻¹`)                                                    ↦ `simTrans`
* `… _symmetrize_group_velocity` (operations with `|q_BZ − r·q_BZ| < tol`, average of `r_cart·gv`) ↦ `inLittleGroup`, `littleGroup`, `gvSym`

`eigh` of the restricted matrix (`U`), `inv(reclat)` (`Binv`) and the point whose site symmetry is used (`qbz`: `q − rint(q)`, or `q` itself for NAC matrices, which are not periodic in G) are parameters.
-/
namespace PhononModel.C12
open PhononModel PhononModel.CP

variable {α : Type} [Add α] [Sub α] [Neg α] [Mul α] [Div α] [OfNat α 0] [OfNat α 2] [NatCast α] [IntCast α]

/-- `(D(q+Δ) − D(q−Δ))/q_length/2` -/
def fdD {d : Nat} (Dp Dm : Mat d α) (h : α) : Mat d α := fun r c =>
  ⟨((Dp r c).re - (Dm r c).re) / h / 2, ((Dp r c).im - (Dm r c).im) / h / 2⟩

/-! ### grouping of (nearly) degenerate bands — on the frequency array -/

def absd [LT α] [DecidableLT α] (x : α) : α := if x < 0 then -x else x

/-- the inner loop of `degenerate_sets` started at band `i`: band `j > i` joins if it is closer than `cutoff` to
*any* member collected so far -/
def degSetFrom [LT α] [DecidableLT α] (freqs : Array α) (cutoff : α) (i : Nat) : List Nat :=
  (List.range' (i + 1) (freqs.size - (i + 1))).foldl
    (fun set j => if set.any (fun k => decide (absd (freqs.getD k 0 - freqs.getD j 0) < cutoff)) then set ++ [j] else set) [i]

/-- `degenerate_sets(freqs, cutoff)`: `freqs` is the array of band **frequencies**; the result lists the sets in the
order they are opened (the group velocities are written back in this order, position by position) -/
def degenerateSets [LT α] [DecidableLT α] (freqs : Array α) (cutoff : α) : List (List Nat) :=
  ((List.range freqs.size).foldl
    (fun (st : List Nat × List (List Nat)) i =>
      if st.1.contains i then st
      else
        let s := degSetFrom freqs cutoff i
        (st.1 ++ s, st.2 ++ [s]))
    ([], [])).2

/-! ### degenerate subspaces -/

/-- `eigsets†·M·eigsets` -/
def restrict {d m : Nat} (E : Fin d → Fin m → Cx α) (M : Mat d α) : Fin m → Fin m → Cx α := fun a b =>
  sumFin d fun r => Cx.conj (E r a) * sumFin d fun c => M r c * E c b

/-- `eigsets·eigvecs` -/
def rotated {d m : Nat} (E : Fin d → Fin m → Cx α) (U : Fin m → Fin m → Cx α) : Fin d → Fin m → Cx α := fun r ν =>
  sumFin m fun a => E r a * U a ν

/-- `diag(rot†·ddm·rot).real` -/
def gvDeg {d m : Nat} (E : Fin d → Fin m → Cx α) (U : Fin m → Fin m → Cx α) (ddm : Mat d α) (ν : Fin m) : α :=
  expect (fun r => rotated E U r ν) ddm

/-- `gv *= factor²/f/2` above the cutoff, `0` otherwise -/
def gvScale [LT α] [DecidableLT α] (factor cutoff f x : α) : α :=
  if cutoff < f then x * (factor * factor / f / 2) else 0

/-! ### symmetrisation over the little group of q -/

abbrev M3 (α : Type) := Fin 3 → Fin 3 → α

def mul3 (A B : M3 α) : M3 α := fun i j => sumFin 3 fun k => A i k * B k j
def mulVec3 (A : M3 α) (v : Fin 3 → α) : Fin 3 → α := fun i => sumFin 3 fun k => A i k * v k
def castM3 (r : Fin 3 → Fin 3 → Int) : M3 α := fun i j => ((r i j : Int) : α)

/-- `similarity_transformation(B, r) = B·r·B⁻¹` (`Binv` is numpy's `inv(B)`) -/
def simTrans (B Binv : M3 α) (r : Fin 3 → Fin 3 → Int) : M3 α := mul3 B (mul3 (castM3 r) Binv)

def absv3 [LT α] [DecidableLT α] (x : α) : α := if x < 0 then -x else x

/-- `(abs(q_BZ − r·q_BZ) < tolerance).all()` -/
def inLittleGroup [LT α] [DecidableLT α] (qbz : Fin 3 → α) (tol : α) (r : Fin 3 → Fin 3 → Int) : Bool :=
  (List.finRange 3).all fun x => decide (absv3 (qbz x - mulVec3 (castM3 r) qbz x) < tol)

def littleGroup [LT α] [DecidableLT α] (ops : List (Fin 3 → Fin 3 → Int)) (qbz : Fin 3 → α) (tol : α) :
    List (Fin 3 → Fin 3 → Int) := ops.filter (inLittleGroup qbz tol)

/-- `gv_sym = Σ_r r_cart·gv / len(rotations)` for one band -/
def gvSym (rots : List (M3 α)) (v : Fin 3 → α) : Fin 3 → α := fun x =>
  (sumList rots fun R => mulVec3 R v x) / ((rots.length : Nat) : α)

/-- `_symmetrize_group_velocity` -/
def symmetrizeGv [LT α] [DecidableLT α] (ops : List (Fin 3 → Fin 3 → Int)) (B Binv : M3 α) (qbz : Fin 3 → α) (tol : α)
    (v : Fin 3 → α) : Fin 3 → α :=
  gvSym ((littleGroup ops qbz tol).map (simTrans B Binv)) v

/-- exact certificate on an operation list: `tab` is its multiplication table and every row of `tab` has no repetition -/
def groupTableOk (ops : Array (Fin 3 → Fin 3 → Int)) (tab : Array (Array Nat)) : Bool :=
  let n := ops.size
  let get := fun k => ops.getD k (fun _ _ => 0)
  let imul := fun (A B : Fin 3 → Fin 3 → Int) (i j : Fin 3) => (List.finRange 3).foldl (fun acc k => acc + A i k * B k j) 0
  tab.size == n && (List.range n).all fun s =>
    let rowS := tab.getD s #[]
    rowS.size == n && rowS.toList.Nodup && (List.range n).all fun t =>
      let u := rowS.getD t n
      u < n && (List.finRange 3).all fun i => (List.finRange 3).all fun j => imul (get s) (get t) i j == get u i j

end PhononModel.C12
