import PhononModel.Model.Basic
/-!
# Pairing of calculator forces with the atoms of phonopy_disp.yaml (C17)

Source anchors (`phonopy/cui/create_force_sets.py`)
* `create_FORCE_SETS` (type-1 dataset branch)                         ↦ `collect`
* `check_number_of_force_files`                                        ↦ guard `Err.countMismatch`
* `check_forces` (`interface/vasp.py`, used by every `parse_set_of_forces`) ↦ guard `Err.natomMismatch`
* `check_agreements_of_displacements` (lines 243-257; only outputs whose parser returns `"points"`,
  i.e. VASP's vasprun.xml)                                             ↦ `agreeFile`, guard `Err.positionMismatch`
* `diff -= np.rint(diff)`                                              ↦ `rint` (round half to even), `wrap`
* `for forces, disp in zip(force_sets, dataset["first_atoms"]): disp["forces"] = forces` ↦ `some (outs.map forces)`:
  **row k of the output is given to supercell atom k** — the order assumption.

An `Output` is what a program printed: force rows and, next to them, the positions of the atoms the
rows belong to (`printed`).  `usesPoints` says whether the interface's parser hands the printed
positions to `create_FORCE_SETS` (VASP) or drops them (all other parsers).  Everything over `Rat`;
the tolerance `1e-5` Å enters as its square `tol2`.
-/
namespace PhononModel.ForcePairing

abbrev V3 := Rat × Rat × Rat
abbrev Mat3 := Fin 3 → Fin 3 → Rat

structure Output where
  forces : List V3
  printed : List V3          -- fractional positions printed with the force rows (same order)
  deriving Repr, DecidableEq

inductive Err where
  | countMismatch            -- number of files ≠ number of displacements: nothing is written
  | natomMismatch (file : Nat) -- a file has not `natom` force rows: nothing is written
  | positionMismatch (file : Nat) -- RuntimeError "Displacements don't match with atomic positions"
  deriving Repr, DecidableEq

/-- `np.rint`: nearest integer, ties to even -/
def rint (x : Rat) : Int :=
  let f := x.floor
  let r := x - (f : Rat)
  if r < 1 / 2 then f else if 1 / 2 < r then f + 1 else if f % 2 = 0 then f else f + 1

def vsub (a b : V3) : V3 := (a.1 - b.1, a.2.1 - b.2.1, a.2.2 - b.2.2)
def vadd (a b : V3) : V3 := (a.1 + b.1, a.2.1 + b.2.1, a.2.2 + b.2.2)
def ofInt (z : Int × Int × Int) : V3 := ((z.1 : Rat), (z.2.1 : Rat), (z.2.2 : Rat))
def rint3 (d : V3) : Int × Int × Int := (rint d.1, rint d.2.1, rint d.2.2)

/-- `|d · L|²` for a fractional vector `d` and lattice rows `L` -/
def cartNormSq (L : Mat3) (d : V3) : Rat :=
  let c (j : Fin 3) : Rat := d.1 * L 0 j + d.2.1 * L 1 j + d.2.2 * L 2 j
  c 0 * c 0 + c 1 * c 1 + c 2 * c 2

/-- one atom: `diff = pos + disp − point; diff −= rint(diff); |diff·L| ≤ tol` -/
def agreeRow (L : Mat3) (tol2 : Rat) (p d q : V3) : Bool :=
  let diff := vsub (vadd p d) q
  cartNormSq L (vsub diff (ofInt (rint3 diff))) ≤ tol2

def agreeFile (L : Mat3) (tol2 : Rat) (pos disp pts : List V3) : Bool :=
  pos.length == disp.length && pos.length == pts.length &&
    (pos.zip (disp.zip pts)).all (fun t => agreeRow L tol2 t.1 t.2.1 t.2.2)

/-- index of the first element violating `p` -/
def firstBad {α : Type} (p : α → Bool) : List α → Nat → Option Nat
  | [], _ => none
  | a :: t, i => if p a then firstBad p t (i + 1) else some i

/-- `create_FORCE_SETS`, type-1 dataset.  `disps`: per displacement the fractional displacement of
every supercell atom; `outs`: one output per file. -/
def collect (usesPoints : Bool) (natom : Nat) (L : Mat3) (tol2 : Rat) (scpos : List V3)
    (disps : List (List V3)) (outs : List Output) : Except Err (List (List V3)) :=
  if disps.length ≠ outs.length then .error .countMismatch else
  match firstBad (fun o => o.forces.length == natom) outs 0 with
  | some i => .error (.natomMismatch i)
  | none =>
    if usesPoints then
      match firstBad (fun t => agreeFile L tol2 scpos t.1 t.2.printed) (disps.zip outs) 0 with
      | some i => .error (.positionMismatch i)
      | none => .ok (outs.map (·.forces))
    else .ok (outs.map (·.forces))

/-- what "the rows belong to the atoms in supercell order" means for one output: its k-th printed
position is the displaced position of supercell atom k modulo lattice vectors, within the tolerance -/
def RowsMatchAtoms (L : Mat3) (tol2 : Rat) (scpos disp : List V3) (o : Output) : Prop :=
  scpos.length = disp.length ∧ scpos.length = o.printed.length ∧
  ∀ t ∈ scpos.zip (disp.zip o.printed), ∃ z : Int × Int × Int,
    cartNormSq L (vsub (vsub (vadd t.1 t.2.1) t.2.2) (ofInt z)) ≤ tol2

end PhononModel.ForcePairing
