import PhononModel.Model.Basic
/-!
# C18 — the most used per-key value parsers of `cui/settings.py`, on character lists

Source anchors (`/repo/phonopy/cui/settings.py`, `ConfParser.parse_conf` / `PhonopyConfParser._parse_conf`):

* `fracval`                                   ↦ `fracval`      (`"a/b"` ↦ `float(a)/float(b)`, otherwise `float`)
* Python `str.split()`, `split(",")`, `strip`, `lower`, `int`, `float` ↦ `splitWs`, `splitOn`, `strip`, `lower`, `pyInt`, `pyFloat`
* branch `dim`                                ↦ `parseDim`     (3 ints ↦ diagonal, 9 ints ↦ row-major, `det < 1` rejected)
* branch `mesh_numbers` / `mp` / `mesh`       ↦ `parseMesh`    (1 float | 3 ints | 9 ints)
* branch `band`                               ↦ `parseBand`    (`auto` | comma separated sections of 3k ≥ 6 fractions)
* branch `primitive_axis` / `primitive_axes`  ↦ `parsePA`      (`auto` | P F I A C R | 9 fractions with `det ≥ 1e-8`)
* branch `pdos`                               ↦ `parsePdos`    (`auto` | comma separated groups of 1-based indices)
* branches `tmin` / `tmax` / `tstep` …        ↦ `pyFloat`
* the `.true.` / `.false.` branches           ↦ `parseBool`    (anything else leaves the parameter unset)
* `structure/cells.py: get_primitive_matrix_by_centring` ↦ `centring`

Errors are errors: `Err.exit` is `setting_error` (message + `sys.exit(1)`), `Err.exc` an uncaught Python exception
(`ValueError` of `int()` / `float()`, `ZeroDivisionError` of `fracval`).  The grammars of `int` and `float` are the
plain ones (sign, digits, `.`, exponent); underscores, `inf`, `nan`, non-ASCII digits are outside the modelled domain.
-/
namespace PhononModel.SettingsKeys

inductive Err where
  | exit
  | exc
  deriving DecidableEq, Repr

abbrev R := Except Err

/-! ### Python string primitives -/

def isSpace (c : Char) : Bool := c == ' ' || c == '\t' || c == '\n' || c == '\r' || c == '\x0b' || c == '\x0c'

/-- `s.split(sep)` for a one-character separator -/
def splitOn (sep : Char) : List Char → List (List Char)
  | [] => [[]]
  | c :: cs =>
    match splitOn sep cs with
    | [] => [[]]
    | h :: t => if c == sep then [] :: h :: t else (c :: h) :: t

/-- pieces between characters satisfying `p` (empty pieces kept) -/
def splitBy (p : Char → Bool) : List Char → List (List Char)
  | [] => [[]]
  | c :: cs =>
    match splitBy p cs with
    | [] => [[]]
    | h :: t => if p c then [] :: h :: t else (c :: h) :: t

/-- `s.split()` -/
def splitWs (s : List Char) : List (List Char) := (splitBy isSpace s).filter (fun t => !t.isEmpty)

def strip (s : List Char) : List Char := ((s.dropWhile isSpace).reverse.dropWhile isSpace).reverse

def lower (s : List Char) : List Char := s.map Char.toLower
def upper (s : List Char) : List Char := s.map Char.toUpper

def digit? (c : Char) : Option Nat := if '0' ≤ c ∧ c ≤ '9' then some (c.toNat - 48) else none

def natAcc : Nat → List Char → Option Nat
  | acc, [] => some acc
  | acc, c :: cs =>
    match digit? c with
    | some d => natAcc (10 * acc + d) cs
    | none => none

/-- a non-empty string of decimal digits -/
def natVal (cs : List Char) : Option Nat := if cs.isEmpty then none else natAcc 0 cs

def signed : List Char → Bool × List Char
  | '-' :: r => (true, r)
  | '+' :: r => (false, r)
  | cs => (false, cs)

/-- `int(s)`: optional sign, digits -/
def pyInt (cs : List Char) : R Int :=
  match natVal (signed cs).2 with
  | some n => .ok (if (signed cs).1 then -(n : Int) else (n : Int))
  | none => .error .exc

/-- split at the first character satisfying `p` -/
def breakAt (p : Char → Bool) : List Char → List Char × Option (List Char)
  | [] => ([], none)
  | c :: cs => if p c then ([], some cs) else ((breakAt p cs).1.cons c, (breakAt p cs).2)

def pow10 (n : Nat) : Rat := ((10 ^ n : Nat) : Rat)

/-- mantissa `digits [. digits]` or `. digits` -/
def mantissa (cs : List Char) : Option Rat :=
  match breakAt (fun c => c == '.') cs with
  | (ip, none) => (natVal ip).map (fun n => (n : Rat))
  | (ip, some fp) =>
    if ip.isEmpty && fp.isEmpty then none
    else (natAcc 0 (ip ++ fp)).map (fun n => (n : Rat) / pow10 fp.length)

/-- `float(s)`: `[sign] mantissa [e [sign] digits]`, exact value -/
def pyFloat (cs : List Char) : R Rat :=
  let body := (signed cs).2
  let neg := (signed cs).1
  match breakAt (fun c => c == 'e' || c == 'E') body with
  | (m, none) =>
    match mantissa m with
    | some v => .ok (if neg then -v else v)
    | none => .error .exc
  | (m, some ex) =>
    match mantissa m, natVal (signed ex).2 with
    | some v, some k =>
      let w := if (signed ex).1 then v / pow10 k else v * pow10 k
      .ok (if neg then -w else w)
    | _, _ => .error .exc

/-- `fracval` of settings.py -/
def fracval (cs : List Char) : R Rat :=
  if cs.contains '/' then
    match splitOn '/' cs with
    | a :: b :: _ => do
      let x ← pyFloat a
      let y ← pyFloat b
      if y = 0 then .error .exc else .ok (x / y)
    | _ => .error .exc
  else pyFloat cs

/-- the comparison `value.lower() == ".true."` / `".false."` of the boolean branches; `none` = parameter left unset -/
def parseBool (cs : List Char) : Option Bool :=
  if lower cs = ".true.".toList then some true
  else if lower cs = ".false.".toList then some false
  else none

/-! ### matrices as row-major lists of nine -/

def det9 {α : Type} [Add α] [Sub α] [Mul α] [OfNat α 0] : List α → α
  | [a, b, c, d, e, f, g, h, i] => a * (e * i - f * h) - b * (d * i - f * g) + c * (d * h - e * g)
  | _ => 0

def diag9 {α : Type} [OfNat α 0] : List α → List α
  | [a, b, c] => [a, 0, 0, 0, b, 0, 0, 0, c]
  | _ => []

/-- branch `dim` -/
def dimShape (v : List Int) : R (List Int) :=
  if v.length = 9 then .ok v else if v.length = 3 then .ok (diag9 v) else .error .exit

def dimOfInts (v : List Int) : R (List Int) :=
  (dimShape v).bind fun m => if det9 m < 1 then .error .exit else .ok m

def parseDim (s : List Char) : R (List Int) := ((splitWs s).mapM pyInt).bind dimOfInts

inductive MeshVal where
  | length (r : Rat)
  | three (v : List Int)
  | nine (v : List Int)
  deriving DecidableEq, Repr

/-- branch `mesh_numbers` / `mp` / `mesh` -/
def meshOfToks (t : List (List Char)) : R MeshVal :=
  if t.length = 1 then (t.mapM pyFloat).bind (fun v => match v with | [r] => .ok (.length r) | _ => .error .exc)
  else if t.length < 3 then .error .exit
  else if t.length = 3 then (t.mapM pyInt).map MeshVal.three
  else if t.length = 9 then (t.mapM pyInt).map MeshVal.nine
  else .error .exit

def parseMesh (s : List Char) : R MeshVal := meshOfToks (splitWs s)

def chunk3 {α : Type} : List α → List (List α)
  | a :: b :: c :: r => [a, b, c] :: chunk3 r
  | _ => []

inductive BandVal where
  | auto
  | paths (p : List (List (List Rat)))   -- sections → points → 3 coordinates
  deriving DecidableEq, Repr

/-- one comma separated section of `BAND` -/
def bandSection (sec : List Char) : R (List (List Rat)) :=
  ((splitWs sec).mapM fracval).bind fun pts =>
  if pts.length % 3 ≠ 0 ∨ pts.length < 6 then .error .exit else .ok (chunk3 pts)

def bandSections (secs : List (List Char)) : R (List (List (List Rat))) := secs.mapM bandSection

/-- branch `band` -/
def parseBand (s : List Char) : R BandVal :=
  if lower (strip s) = "auto".toList then .ok .auto
  else (bandSections (splitOn ',' s)).map BandVal.paths

inductive PAVal where
  | auto
  | letter (c : Char)
  | matrix (m : List Rat)
  deriving DecidableEq, Repr

def centringLetters : List Char := ['P', 'F', 'I', 'A', 'C', 'R']

/-- the nine-fractions form of `PRIMITIVE_AXES` with its determinant guard -/
def paNine (s : List Char) : R (List Rat) :=
  if (splitWs s).length = 9 then (splitWs s).mapM fracval else .error .exit

def paMatrix (s : List Char) : R PAVal :=
  (paNine s).bind fun m => if det9 m < 1 / 100000000 then .error .exit else .ok (.matrix m)

def isCentringLetter (s : List Char) : Option Char :=
  match s with
  | [c] => if centringLetters.contains c then some c else none
  | _ => none

/-- branch `primitive_axis` / `primitive_axes` -/
def parsePA (s : List Char) : R PAVal :=
  if lower (strip s) = "auto".toList then .ok .auto
  else match isCentringLetter (upper (strip s)) with
    | some c => .ok (.letter c)
    | none => paMatrix s

inductive PdosVal where
  | auto
  | groups (g : List (List Int))
  deriving DecidableEq, Repr

def pdosGroup (g : List Char) : R (List Int) := ((splitWs g).mapM pyInt).map (fun v => v.map (fun i => i - 1))

/-- branch `pdos` -/
def parsePdos (s : List Char) : R PdosVal :=
  if lower (strip s) = "auto".toList then .ok .auto
  else ((splitOn ',' s).mapM pdosGroup).map PdosVal.groups

/-- `get_primitive_matrix_by_centring` (structure/cells.py), row-major -/
def centring : Char → Option (List Rat)
  | 'P' => some [1, 0, 0, 0, 1, 0, 0, 0, 1]
  | 'F' => some [0, 1/2, 1/2, 1/2, 0, 1/2, 1/2, 1/2, 0]
  | 'I' => some [-1/2, 1/2, 1/2, 1/2, -1/2, 1/2, 1/2, 1/2, -1/2]
  | 'A' => some [1, 0, 0, 0, 1/2, -1/2, 0, 1/2, 1/2]
  | 'C' => some [1/2, 1/2, 0, -1/2, 1/2, 0, 0, 0, 1]
  | 'R' => some [2/3, -1/3, -1/3, 1/3, 1/3, -2/3, 1/3, 1/3, 1/3]
  | _ => none

/-- number of lattice points of the conventional cell per primitive cell -/
def latticePoints : Char → Nat
  | 'P' => 1 | 'F' => 4 | 'I' => 2 | 'A' => 2 | 'C' => 2 | 'R' => 3 | _ => 0

end PhononModel.SettingsKeys
