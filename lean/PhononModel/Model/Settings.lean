import PhononModel.Model.Basic
/-!
# C18 — command-line settings: merge semantics of `ConfParser`, run-mode decision of `main`

Source anchors (`/repo/phonopy/cui/settings.py`, `/repo/phonopy/cui/phonopy_script.py`):

* `ConfParser.read_file`                    ↦ `readFile` (`dictInsert`: a repeated tag keeps its first position, last value)
* `ConfParser.read_options` / `PhonopyConfParser._read_options`
                                            ↦ `OptRule.fire`, `Table.readOptions` (one generated `OptRule` per `if "<dest>" in arg_list` block)
* `ConfParser.parse_conf` / `PhonopyConfParser._parse_conf`
                                            ↦ `ParseRule.outcome`, `Table.parseConf` (base-class loop = phase 0, subclass loop = phase 1)
* `ConfParser.set_settings` / `PhonopyConfParser._set_settings`
                                            ↦ `Stmt.exec` over the generated program `Table.prog`
* `PhonopyConfParser.__init__`              ↦ `Table.confParser` (file pass, flush, option pass on the *same* settings object)
* `PhonopySettings.__init__`                ↦ `Table.defaultSettings`
* `phonopy_script.main` / `_run_calculation` ↦ `earlyExit`, `calcActions`, `mainActions`
* `phonopy_script._get_fc_calculator_params` ↦ `fcCalculator`

The table (`Gen/SettingsTable.lean`) is regenerated from the sources on every run of the check.
The per-tag string parsers are *not* modelled: a conf value is `.t`/`.f` (`.true.`/`.false.`) or
`.other o` where `o` is the list of (parameter key, value) the real branch of `parse_conf` produced
for that string (supplied by the harness); values are opaque tokens that carry what the guards of
`_set_settings` can observe (truthiness, length, identity with a known string constant).
-/
namespace PhononModel.Settings

/-- values of parameters and settings attributes, as far as `_set_settings` can observe them -/
inductive Val where
  | none
  | bool (b : Bool)
  | num (n : Int)
  | str (s : Nat)                              -- a string constant known to the source (table `strNames`)
  | nil                                        -- `[]`
  | tok (id : Nat) (truthy : Bool) (len : Nat) -- any other parsed value
  | app (f : Nat) (v : Val)                    -- `int(v)`, `v[:3]`, `[fracval(x) for x in v]`, …
  deriving DecidableEq, Repr, Inhabited

def Val.truthy : Val → Bool
  | .none => false
  | .bool b => b
  | .num n => n != 0
  | .str _ => true
  | .nil => false
  | .tok _ t _ => t
  | .app _ _ => true

/-- `len(v)`; `none` is Python's `TypeError` -/
def Val.len : Val → Option Nat
  | .nil => some 0
  | .tok _ _ l => some l
  | _ => Option.none

abbrev PMap := Nat → Option Val
abbrev SMap := Nat → Val

def upd {β : Type} (f : Nat → β) (a : Nat) (v : β) : Nat → β := fun x => if x = a then v else f x

structure State where
  params : PMap
  settings : SMap

inductive Expr where
  | param (k : Nat)
  | attr (a : Nat)
  | const (v : Val)
  | app (f : Nat) (e : Expr)
  deriving Repr

inductive Cond where
  | hasParam (k : Nat)
  | truthy (e : Expr)
  | eqStr (e : Expr) (s : Nat)
  | isNone (e : Expr)
  | lenEq (e : Expr) (n : Nat)
  | lenGt (e : Expr) (n : Nat)
  | not (c : Cond)
  | and (c d : Cond)
  | or (c d : Cond)
  deriving Repr

inductive Stmt where
  | skip
  | set (a : Nat) (e : Expr)
  | setParam (k : Nat) (e : Expr)
  | ite (c : Cond) (t e : Stmt)
  | seq (s t : Stmt)
  deriving Repr

/-- `none` = `KeyError` (a parameter read that is not guarded by `k in params`) -/
def Expr.eval : Expr → State → Option Val
  | .param k, σ => σ.params k
  | .attr a, σ => some (σ.settings a)
  | .const v, _ => some v
  | .app f e, σ => (e.eval σ).map (Val.app f)

/-- Python short-circuit semantics; `none` = an exception -/
def Cond.eval : Cond → State → Option Bool
  | .hasParam k, σ => some (σ.params k).isSome
  | .truthy e, σ => (e.eval σ).map Val.truthy
  | .eqStr e s, σ => (e.eval σ).map (fun v => v == Val.str s)
  | .isNone e, σ => (e.eval σ).map (fun v => v == Val.none)
  | .lenEq e n, σ => (e.eval σ).bind (fun v => v.len.map (fun l => l == n))
  | .lenGt e n, σ => (e.eval σ).bind (fun v => v.len.map (fun l => decide (n < l)))
  | .not c, σ => (c.eval σ).map (fun b => !b)
  | .and c d, σ => (c.eval σ).bind (fun b => if b then d.eval σ else some false)
  | .or c d, σ => (c.eval σ).bind (fun b => if b then some true else d.eval σ)

def Stmt.exec : Stmt → State → Option State
  | .skip, σ => some σ
  | .set a e, σ => (e.eval σ).map (fun v => { σ with settings := upd σ.settings a v })
  | .setParam k e, σ => (e.eval σ).map (fun v => { σ with params := upd σ.params k (some v) })
  | .ite c t e, σ => (c.eval σ).bind (fun b => if b then t.exec σ else e.exec σ)
  | .seq s t, σ => (s.exec σ).bind t.exec

def execList : List Stmt → State → Option State
  | [], σ => some σ
  | s :: r, σ => (s.exec σ).bind (execList r)

/-! ### static analysis used by the theorems (all decidable, evaluated on the generated table) -/

def Stmt.writesAttr : Stmt → Nat → Bool
  | .skip, _ => false
  | .set a _, x => a == x
  | .setParam _ _, _ => false
  | .ite _ t e, x => t.writesAttr x || e.writesAttr x
  | .seq s t, x => s.writesAttr x || t.writesAttr x

def Stmt.writesParam : Stmt → Nat → Bool
  | .skip, _ => false
  | .set _ _, _ => false
  | .setParam k _, x => k == x
  | .ite _ t e, x => t.writesParam x || e.writesParam x
  | .seq s t, x => s.writesParam x || t.writesParam x

def Expr.attrOnly : Expr → Bool
  | .param _ => false
  | .attr _ => true
  | .const _ => true
  | .app _ e => e.attrOnly

/-- the guard reads settings attributes and constants only and cannot raise -/
def Cond.attrOnly : Cond → Bool
  | .hasParam _ => false
  | .truthy e => e.attrOnly
  | .eqStr e _ => e.attrOnly
  | .isNone e => e.attrOnly
  | .lenEq _ _ => false
  | .lenGt _ _ => false
  | .not c => c.attrOnly
  | .and c d => c.attrOnly && d.attrOnly
  | .or c d => c.attrOnly && d.attrOnly

/-- the guard is `False` (without raising) whenever `params` is empty -/
def Cond.needsParam : Cond → Bool
  | .hasParam _ => true
  | .and c _ => c.needsParam
  | .or c d => c.needsParam && d.needsParam
  | _ => false

/-- every assignment sits below a guard that needs a parameter -/
def Stmt.guarded : Stmt → Bool
  | .skip => true
  | .set _ _ => false
  | .setParam _ _ => false
  | .ite c t e => (c.needsParam && e.guarded) || (c.attrOnly && t.guarded && e.guarded)
  | .seq s t => s.guarded && t.guarded

def Expr.mentions : Expr → Nat → Bool
  | .param k, x => k == x
  | .attr _, _ => false
  | .const _, _ => false
  | .app _ e, x => e.mentions x

def Cond.mentions : Cond → Nat → Bool
  | .hasParam k, x => k == x
  | .truthy e, x => e.mentions x
  | .eqStr e _, x => e.mentions x
  | .isNone e, x => e.mentions x
  | .lenEq e _, x => e.mentions x
  | .lenGt e _, x => e.mentions x
  | .not c, x => c.mentions x
  | .and c d, x => c.mentions x || d.mentions x
  | .or c d, x => c.mentions x || d.mentions x

/-- the statement reads, tests or writes parameter key `x` -/
def Stmt.mentions : Stmt → Nat → Bool
  | .skip, _ => false
  | .set _ e, x => e.mentions x
  | .setParam k e, x => k == x || e.mentions x
  | .ite c t e, x => c.mentions x || t.mentions x || e.mentions x
  | .seq s t, x => s.mentions x || t.mentions x

def Expr.readsAttr : Expr → Nat → Bool
  | .param _, _ => false
  | .attr a, x => a == x
  | .const _, _ => false
  | .app _ e, x => e.readsAttr x

def Cond.readsAttr : Cond → Nat → Bool
  | .hasParam _, _ => false
  | .truthy e, x => e.readsAttr x
  | .eqStr e _, x => e.readsAttr x
  | .isNone e, x => e.readsAttr x
  | .lenEq e _, x => e.readsAttr x
  | .lenGt e _, x => e.readsAttr x
  | .not c, x => c.readsAttr x
  | .and c d, x => c.readsAttr x || d.readsAttr x
  | .or c d, x => c.readsAttr x || d.readsAttr x

/-- the statement reads settings attribute `x` (in a guard or in an assigned value) -/
def Stmt.readsAttr : Stmt → Nat → Bool
  | .skip, _ => false
  | .set _ e, x => e.readsAttr x
  | .setParam _ e, x => e.readsAttr x
  | .ite c t e, x => c.readsAttr x || t.readsAttr x || e.readsAttr x
  | .seq s t, x => s.readsAttr x || t.readsAttr x

/-- `if "k" in params: self._settings.set_a(params["k"])` ↦ `(a, k)` -/
def Stmt.simpleBinding? : Stmt → Option (Nat × Nat)
  | .ite (.hasParam k) (.set a (.param k')) .skip => if k = k' then some (a, k) else Option.none
  | _ => Option.none

/-- the list has exactly one statement that can write attribute `a`, it is the simple binding of
`a` to parameter `k`, and no statement before it writes parameter `k` -/
def simpleIn (a k : Nat) : List Stmt → Bool
  | [] => false
  | s :: r =>
    if s.simpleBinding? = some (a, k) then r.all (fun s' => !s'.writesAttr a)
    else !s.writesAttr a && !s.writesParam k && simpleIn a k r

/-! ### conf values, `parse_conf` -/

inductive Raw where
  | t
  | f
  | other (o : List (Nat × Val))
  deriving DecidableEq, Repr, Inhabited

structure ParseRule where
  phase : Nat
  keys : List Nat
  onTrue : List (Nat × Val)
  onFalse : List (Nat × Val)
  valued : Bool
  targets : List Nat
  deriving Repr

def ParseRule.rawOutcome (ρ : ParseRule) : Raw → List (Nat × Val)
  | .t => ρ.onTrue
  | .f => ρ.onFalse
  | .other o => if ρ.valued then o else []

/-- the `set_parameter` calls of the branch for this value (restricted to the keys the branch can write) -/
def ParseRule.outcome (ρ : ParseRule) (r : Raw) : List (Nat × Val) :=
  (ρ.rawOutcome r).filter (fun kv => ρ.targets.contains kv.1)

def applyOutcome (P : PMap) (o : List (Nat × Val)) : PMap :=
  o.foldl (fun P kv => upd P kv.1 (some kv.2)) P

abbrev Confs := List (Nat × Raw)

/-- Python `d[t] = r` on an insertion-ordered dict -/
def dictInsert : Confs → Nat → Raw → Confs
  | [], t, r => [(t, r)]
  | (t', r') :: rest, t, r => if t' = t then (t, r) :: rest else (t', r') :: dictInsert rest t r

def dictLookup : Confs → Nat → Option Raw
  | [], _ => none
  | (t', r') :: rest, t => if t' = t then some r' else dictLookup rest t

/-- `read_file`: the lines `TAG = value` in file order -/
def readFile (L : List (Nat × Raw)) : Confs := L.foldl (fun c e => dictInsert c e.1 e.2) []

/-! ### `read_options` -/

inductive ArgVal where
  | absent                                        -- the parser has no such dest (`"dest" in arg_list` is false)
  | none
  | flag (b : Bool)
  | val (truthy inRange : Bool) (r : Raw)         -- a given value: Python truthiness, range check of `--random-seed`, conf value
  deriving DecidableEq, Repr, Inhabited

def ArgVal.isTruthy : ArgVal → Bool
  | .flag b => b
  | .val t _ _ => t
  | _ => false

def ArgVal.isNotNone : ArgVal → Bool
  | .absent => false
  | .none => false
  | _ => true

def ArgVal.isFalse : ArgVal → Bool
  | .flag false => true
  | _ => false

def ArgVal.inRange : ArgVal → Bool
  | .val _ r _ => r
  | _ => true

def ArgVal.raw : ArgVal → Raw
  | .val _ _ r => r
  | .flag true => .t
  | .flag false => .f
  | _ => .other []

inductive Act where
  | truthy
  | notNone
  | isFalse
  | dflt (attr : Nat)      -- `if default[attr]: (arg is False ↦ ".false.") else: (arg ↦ ".true.")`
  | always                 -- `if arg: ".true." else: ".false."`
  | ifTagAbsent            -- `if arg: if tag not in confs: …`
  deriving DecidableEq, Repr

inductive OptVal where
  | arg
  | const (r : Raw)
  | constStr (c : Nat)
  deriving DecidableEq, Repr

structure OptRule where
  dest : Nat
  act : Act
  tag : Nat
  val : OptVal
  rangeCheck : Bool
  numeric : Bool
  deriving Repr

def OptRule.value (r : OptRule) (κ : Nat → Raw) (a : ArgVal) : Raw :=
  match r.val with
  | .arg => a.raw
  | .const c => c
  | .constStr c => κ c

/-- the conf assignment made by one block of `read_options`, if any -/
def OptRule.fire (r : OptRule) (D : SMap) (κ : Nat → Raw) (a : ArgVal) (c : Confs) : Option (Nat × Raw) :=
  match a with
  | .absent => none
  | _ =>
    match r.act with
    | .truthy => if a.isTruthy && (!r.rangeCheck || a.inRange) then some (r.tag, r.value κ a) else none
    | .notNone => if a.isNotNone && (!r.rangeCheck || a.inRange) then some (r.tag, r.value κ a) else none
    | .isFalse => if a.isFalse then some (r.tag, r.value κ a) else none
    | .dflt attr =>
      if (D attr).truthy then (if a.isFalse then some (r.tag, .f) else none)
      else (if a.isTruthy then some (r.tag, .t) else none)
    | .always => some (r.tag, if a.isTruthy then .t else .f)
    | .ifTagAbsent => if a.isTruthy && (dictLookup c r.tag).isNone then some (r.tag, r.value κ a) else none

structure Table where
  parseRules : List ParseRule
  optRules : List OptRule
  prog : List Stmt
  defaults : List (Nat × Val)

def optStep (D : SMap) (κ : Nat → Raw) (args : Nat → ArgVal) (c : Confs) (r : OptRule) : Confs :=
  match r.fire D κ (args r.dest) c with
  | some (t, raw) => dictInsert c t raw
  | none => c

def Table.readOptions (T : Table) (D : SMap) (κ : Nat → Raw) (args : Nat → ArgVal) : Confs :=
  T.optRules.foldl (optStep D κ args) []

/-- all branches of one loop (`phase`) that match the conf key, in source order -/
def Table.outcome (T : Table) (phase tag : Nat) (r : Raw) : List (Nat × Val) :=
  (T.parseRules.filter (fun ρ => ρ.phase == phase && ρ.keys.contains tag)).flatMap (fun ρ => ρ.outcome r)

def Table.parsePhase (T : Table) (phase : Nat) (c : Confs) (P : PMap) : PMap :=
  c.foldl (fun P e => applyOutcome P (T.outcome phase e.1 e.2)) P

/-- `_parse_conf`: the base-class loop over all conf keys, then the subclass loop -/
def Table.parseConf (T : Table) (c : Confs) : PMap :=
  T.parsePhase 1 c (T.parsePhase 0 c (fun _ => none))

/-- `_parse_conf(); _set_settings()` on the current settings object -/
def Table.pass (T : Table) (c : Confs) (S : SMap) : Option SMap :=
  (execList T.prog ⟨T.parseConf c, S⟩).map (fun σ => σ.settings)

def lookupD (l : List (Nat × Val)) (a : Nat) : Option Val :=
  match l with
  | [] => none
  | (a', v) :: r => if a' = a then some v else lookupD r a

/-- `PhonopySettings(default=ov)`: class defaults updated by `ov` -/
def Table.defaultSettings (T : Table) (ov : List (Nat × Val)) : SMap :=
  fun a => match lookupD ov a with
    | some v => v
    | none => (lookupD T.defaults a).getD Val.none

/-- `PhonopyConfParser(filename, args, default_settings)`: the final settings, `none` = exception -/
def Table.confParser (T : Table) (D : SMap) (κ : Nat → Raw) (file : Option (List (Nat × Raw)))
    (args : Option (Nat → ArgVal)) : Option SMap :=
  (match file with
    | some L => T.pass (readFile L) D
    | none => some D).bind fun S1 =>
  match args with
  | some a => T.pass (T.readOptions D κ a) S1
  | none => some S1

/-- keys of the final `_confs` (`confs.update` of the file confs by the option confs) -/
def Table.finalConfs (T : Table) (D : SMap) (κ : Nat → Raw) (file : Option (List (Nat × Raw)))
    (args : Option (Nat → ArgVal)) : Confs :=
  let cf := match file with | some L => readFile L | none => []
  let co := match args with | some a => T.readOptions D κ a | none => []
  co.foldl (fun c e => dictInsert c e.1 e.2) cf

/-! ### well-formedness of a table (what the generic theorems need) -/

/-- the option rule is the only one that writes its conf key -/
def Table.uniqueOptTag (T : Table) (r : OptRule) : Bool :=
  (T.optRules.filter (fun r' => r'.tag == r.tag)).length == 1

/-- parameter key `k` can only be written by branches that handle conf key `t` and nothing else -/
def Table.keyOwnedBy (T : Table) (k t : Nat) : Bool :=
  T.parseRules.all (fun ρ => !ρ.targets.contains k || ρ.keys == [t])

/-- attribute `a` is bound to conf key `t` through parameter `k` and nothing else touches it -/
def Table.isSimple (T : Table) (a k t : Nat) : Bool :=
  simpleIn a k T.prog && T.keyOwnedBy k t

/-- the parameter keys the branches of conf key `t` can write -/
def Table.targetsOf (T : Table) (t : Nat) : List Nat :=
  (T.parseRules.filter (fun ρ => ρ.keys.contains t)).flatMap (fun ρ => ρ.targets)

def Table.progGuarded (T : Table) : Bool := T.prog.all Stmt.guarded

/-- the statement neither mentions a parameter key of `K` nor reads or writes an attribute of `A` -/
def Stmt.clean (s : Stmt) (K A : List Nat) : Bool :=
  K.all (fun k => !s.mentions k) && A.all (fun a => !s.readsAttr a && !s.writesAttr a)

/-- the statement is the simple binding of an attribute of `A` to a parameter key of `K` -/
def Stmt.bindingIn (s : Stmt) (K A : List Nat) : Bool :=
  match s.simpleBinding? with
  | some (a, k) => K.contains k && A.contains a
  | none => false

/-- apart from simple bindings `A ← K`, the program does not touch the parameter keys `K` and the attributes `A` -/
def cleanOrBinding (prog : List Stmt) (K A : List Nat) : Bool :=
  prog.all (fun s => s.clean K A || s.bindingIn K A)

/-- the attributes simply bound to a parameter key of conf key `t` -/
def Table.boundAttrs (T : Table) (t : Nat) : List Nat :=
  T.prog.filterMap (fun s => match s.simpleBinding? with
    | some (a, k) => if (T.targetsOf t).contains k then some a else none
    | none => none)

/-- conf key `t` is *isolated*: each parameter key its branch can write is mentioned by exactly one
statement of `_set_settings`, that statement is a simple binding, no other branch writes the key, and
no other statement reads or writes the bound attributes.
The whole effect of an isolated tag is "its attributes receive its parsed values" (`isolated_tag_frame`). -/
def Table.tagIsolated (T : Table) (t : Nat) : Bool :=
  !(T.targetsOf t).isEmpty &&
  (T.targetsOf t).all (fun k =>
    (T.prog.filter (fun s => s.mentions k)).length == 1 &&
    T.prog.any (fun s => match s.simpleBinding? with
      | some (a, k') => k' == k && T.isSimple a k t
      | none => false)) &&
  cleanOrBinding T.prog (T.targetsOf t) (T.boundAttrs t)

/-- all (attribute, parameter key, conf key) bindings of the table that are simple -/
def Table.simpleBindings (T : Table) : List (Nat × Nat × Nat) :=
  T.prog.flatMap fun s =>
    match s.simpleBinding? with
    | some (a, k) =>
      (T.parseRules.flatMap fun ρ =>
        match ρ.keys with
        | [t] => if ρ.targets.contains k && T.isSimple a k t then [(a, k, t)] else []
        | _ => [])
    | none => []

/-- numeric (`type=int/float`) options are tested with `is not None`, not by truthiness (finding F14) -/
def Table.numericNotTruthy (T : Table) : Bool :=
  T.optRules.all (fun r => !r.numeric || r.act == Act.notNone)

/-- two conf keys whose branches can write a common parameter key -/
def Table.conflict (T : Table) (t t' : Nat) : Bool :=
  (T.targetsOf t).any (fun k => (T.targetsOf t').contains k)

structure FlagRow where
  flag : Nat
  dest : Nat
  variants : Nat
  numeric : Bool
  deriving Repr

/-! ### run-mode decision of `phonopy_script.main` as a function of the settings -/

inductive Mode where
  | none | band | mesh | bandMesh | anime | modulation | irreps | qpoints
  deriving DecidableEq, Repr, Inhabited

inductive Action where
  | createForceSets | createForceConstants | symmetryInfo | displacements | randomDisplacementsAtT
  | forceConstants
  | qpoints | band | mesh | meshIter
  | thermalProperties | thermalDisplacements | thermalDisplacementMatrices | pdos | dos | moment
  | anime | modulation | irreps
  | finalize
  deriving DecidableEq, Repr, Inhabited

/-- what `main` reads before it reaches the force constants -/
structure EarlyIn where
  forceSets : Bool          -- `settings.create_force_sets or settings.create_force_sets_zero`
  forceConstants : Bool     -- `settings.create_force_constants`
  checkSymmetry : Bool      -- `args.is_check_symmetry`
  createDisp : Bool         -- `settings.create_displacements`
  randomDisp : Bool         -- `settings.random_displacements` (truthy)
  rdTemperature : Bool      -- `settings.random_displacement_temperature is not None`
  pypolymlp : Bool          -- `settings.use_pypolymlp`
  sscha : Bool              -- `settings.sscha_iterations` (truthy)
  deriving DecidableEq, Repr

/-- the branch of `main` that ends the run before any phonon calculation, if there is one -/
def earlyExit (s : EarlyIn) : Option Action :=
  if s.forceSets then some .createForceSets
  else if s.forceConstants then some .createForceConstants
  else if s.checkSymmetry then some .symmetryInfo
  else if (s.createDisp || s.randomDisp) && !s.rdTemperature && !s.pypolymlp then some .displacements
  else none

/-- after the force constants: finite-temperature random displacements end the run -/
def lateExit (s : EarlyIn) : Option Action :=
  if !s.sscha && s.randomDisp && s.rdTemperature then some .randomDisplacementsAtT else none

/-- what `_run_calculation` reads inside the mesh branch -/
structure MeshIn where
  tprop : Bool      -- `is_thermal_properties`
  tdisp : Bool      -- `is_thermal_displacements`
  tdm : Bool        -- `is_thermal_displacement_matrices`
  pdosSet : Bool    -- `pdos_indices is not None`
  dosFlag : Bool    -- `plot_graph or is_dos_mode`
  pdosAuto : Bool   -- `pdos_indices == "auto"`
  moment : Bool     -- `is_moment`
  deriving DecidableEq, Repr

def meshActions (m : MeshIn) : List Action :=
  (if m.tdisp || m.tdm then [Action.meshIter] else [Action.mesh]) ++
  (if m.tprop then [Action.thermalProperties]
   else if m.tdisp then [Action.thermalDisplacements]
   else if m.tdm then [Action.thermalDisplacementMatrices]
   else if m.pdosSet then [Action.pdos]
   else if m.dosFlag && !m.pdosAuto then [Action.dos]
   else if m.moment then [Action.moment]
   else [])

/-- `_run_calculation` -/
def calcActions (mode : Mode) (m : MeshIn) : List Action :=
  match mode with
  | .qpoints => [.qpoints]
  | .band => [.band]
  | .mesh => meshActions m
  | .bandMesh => .band :: meshActions m
  | .anime => [.anime]
  | .modulation => [.modulation]
  | .irreps => [.irreps]
  | .none => []

/-- everything `main` does, in order (pypolymlp branches excluded: `pypolymlp = false`) -/
def mainActions (s : EarlyIn) (mode : Mode) (m : MeshIn) : List Action :=
  match earlyExit s with
  | some a => [a]
  | none =>
    match lateExit s with
    | some a => [.forceConstants, a]
    | none => .forceConstants :: (calcActions mode m ++ [.finalize])

/-- `_get_fc_calculator_params`: `fc` = `none` (setting absent), `some none` (a name that is not a
known calculator), `some (some i)` (known calculator `i`); result `none` = Python `None`.
Calculator ids: 0 = traditional, 1 = symfc, 2 = alm. -/
def fcCalculator (fc : Option (Option Nat)) (fcSymmetry load : Bool) : Option Nat :=
  match fc with
  | some known => known
  | none => if fcSymmetry then (if load then some 1 else some 0) else some 0

end PhononModel.Settings
