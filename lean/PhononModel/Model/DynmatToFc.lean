import PhononModel.Model.Basic
import PhononModel.Model.Symmetrize
/-!
Model of the commensurate points and of the force-constant ↔ dynamical-matrix
transforms (property C06).

Source anchors (tied by the correspondence run of `./check C06`, not by proof):
* `harmonic/dynmat_to_fc.py: get_commensurate_points`   ↦ `commPointsK` / `commPoints`
    (`get_supercell(identity lattice, Sᵀ)` with the old-style algorithm:
     `Supercell._get_surrounding_frame` ↦ `frame`, `_get_simple_supercell` lattice
     points ↦ `box`, `TrimmedCell` "first occurrence modulo 1" ↦ `dedup`; a point is the
     row vector `lp · S⁻¹ mod 1`, stored as the integer numerators over `det S`)
* `harmonic/dynmat_to_fc.py: get_commensurate_points_in_integers` ↦ `commPointsInt`
    (`SNF3x3` supplies `D, P, Q`; they are inputs certified by `snfWf`)
* `harmonic/dynmat_to_fc.py: categorize_commensurate_points` ↦ `categorize`
* `c/dynmat.c: get_dynmat_ij / get_dm`, `DynamicalMatrix._run_py_dynamical_matrix` ↦ `dynmatRaw`
* `c/dynmat.c: make_Hermitian`, Python `(dm + dm.conj().T)/2`         ↦ `hermitize`
* `c/dynmat.c: transform_dynmat_to_fc_ij / dym_transform_dynmat_to_fc` ↦ `dynmatToFc`
* `harmonic/dynmat_to_fc.py: _py_inverse_transformation / _sum_q`      ↦ `dynmatToFcPy`
* `_inverse_transformation` (full layout: `distribute_force_constants_by_translations`)
                                                                        ↦ `dynmatToFcFull` (= `expand`)

Phase factors `exp(±2πi q·r)` are *parameters*: the model receives, per q-point,
supercell atom `k`, primitive atom `i`, the list of the phase factors of the `m`
equivalent shortest vectors (the cos/sin values the code computed).
-/
namespace PhononModel.C06

/-! ### integer vectors and 3×3 integer matrices (rows of triples) -/

abbrev P3 := Int × Int × Int
abbrev Mat3 := P3 × P3 × P3

def P3.add (a b : P3) : P3 := (a.1 + b.1, a.2.1 + b.2.1, a.2.2 + b.2.2)
def P3.sub (a b : P3) : P3 := (a.1 - b.1, a.2.1 - b.2.1, a.2.2 - b.2.2)
def P3.dot (a b : P3) : Int := a.1 * b.1 + a.2.1 * b.2.1 + a.2.2 * b.2.2
def P3.mod (a : P3) (n : Int) : P3 := (a.1 % n, a.2.1 % n, a.2.2 % n)

def Mat3.T (S : Mat3) : Mat3 :=
  ((S.1.1, S.2.1.1, S.2.2.1), (S.1.2.1, S.2.1.2.1, S.2.2.2.1), (S.1.2.2, S.2.1.2.2, S.2.2.2.2))

def det3 (S : Mat3) : Int :=
  S.1.1 * (S.2.1.2.1 * S.2.2.2.2 - S.2.1.2.2 * S.2.2.2.1)
  - S.1.2.1 * (S.2.1.1 * S.2.2.2.2 - S.2.1.2.2 * S.2.2.1)
  + S.1.2.2 * (S.2.1.1 * S.2.2.2.1 - S.2.1.2.1 * S.2.2.1)

/-- adjugate: `S * adj3 S = adj3 S * S = det3 S • 1`. -/
def adj3 (S : Mat3) : Mat3 :=
  let a := S.1.1; let b := S.1.2.1; let c := S.1.2.2
  let d := S.2.1.1; let e := S.2.1.2.1; let f := S.2.1.2.2
  let g := S.2.2.1; let h := S.2.2.2.1; let i := S.2.2.2.2
  ((e*i - f*h, c*h - b*i, b*f - c*e),
   (f*g - d*i, a*i - c*g, c*d - a*f),
   (d*h - e*g, b*g - a*h, a*e - b*d))

/-- row vector times matrix -/
def vecMul (v : P3) (A : Mat3) : P3 :=
  (v.1 * A.1.1 + v.2.1 * A.2.1.1 + v.2.2 * A.2.2.1,
   v.1 * A.1.2.1 + v.2.1 * A.2.1.2.1 + v.2.2 * A.2.2.2.1,
   v.1 * A.1.2.2 + v.2.1 * A.2.1.2.2 + v.2.2 * A.2.2.2.2)

/-- matrix times column vector -/
def mulVec (A : Mat3) (v : P3) : P3 := (A.1.dot v, A.2.1.dot v, A.2.2.dot v)

def matMul (A B : Mat3) : Mat3 := (vecMul A.1 B, vecMul A.2.1 B, vecMul A.2.2 B)

def diag3 (d : P3) : Mat3 := ((d.1, 0, 0), (0, d.2.1, 0), (0, 0, d.2.2))

/-! ### commensurate points, classic route -/

/-- `Supercell._get_surrounding_frame(Sᵀ)`: extent of the subset sums of the rows of `Sᵀ`,
i.e. `Σ_j |Sᵀ[i][j]| = Σ_j |S[j][i]|`. -/
def frame (S : Mat3) : Nat × Nat × Nat :=
  (S.1.1.natAbs + S.2.1.1.natAbs + S.2.2.1.natAbs,
   S.1.2.1.natAbs + S.2.1.2.1.natAbs + S.2.2.2.1.natAbs,
   S.1.2.2.natAbs + S.2.1.2.2.natAbs + S.2.2.2.2.natAbs)

/-- lattice points `(a, b, c)`, `a < m₀` running fastest, `c < m₂` slowest
(`b, c, a = np.meshgrid(range(m₁), range(m₂), range(m₀))`, then `ravel`). -/
def box (m : Nat × Nat × Nat) : List P3 :=
  (List.range m.2.2).flatMap fun (c : Nat) => (List.range m.2.1).flatMap fun (b : Nat) =>
    (List.range m.1).map fun (a : Nat) => (Int.ofNat a, Int.ofNat b, Int.ofNat c)

/-- keep the first occurrence of every value (`TrimmedCell._extract` with overlap check). -/
def dedup : List P3 → List P3
  | [] => []
  | x :: xs => x :: (dedup xs).filter (fun y => y != x)

/-- numerators over `det S` of the reduced point `lp · S⁻¹ mod 1` -/
def pointOf (S : Mat3) (lp : P3) : P3 := (vecMul lp (adj3 S)).mod (det3 S)

/-- `get_commensurate_points(S)` as integer numerators `k`, the points are `k / det S`. -/
def commPointsK (S : Mat3) : List P3 := dedup ((box (frame S)).map (pointOf S))

/-- the rational points; the classic supercell builder needs `det S > 0`
(otherwise "Supercell creation failed"). -/
def commPoints (S : Mat3) : Option (List (Rat × Rat × Rat)) :=
  if 0 < det3 S then
    some ((commPointsK S).map fun k =>
      ((k.1 : Rat) / (det3 S : Rat), (k.2.1 : Rat) / (det3 S : Rat), (k.2.2 : Rat) / (det3 S : Rat)))
  else none

/-! ### commensurate points, Smith-normal-form route -/

/-- certificate for the matrices produced by `SNF3x3(Sᵀ)`: `P Sᵀ Q = diag d`, unimodular
`P`, `Q`, positive diagonal. -/
def snfWf (S : Mat3) (d : P3) (P Q : Mat3) : Bool :=
  matMul P (matMul S.T Q) == diag3 d &&
  (det3 P == 1 || det3 P == -1) && (det3 Q == 1 || det3 Q == -1) &&
  decide (0 < d.1) && decide (0 < d.2.1) && decide (0 < d.2.2)

/-- `get_commensurate_points_in_integers`: `(a D₁D₂, b D₀D₂, c D₀D₁) · Qᵀ mod D₀D₁D₂`. -/
def commPointsInt (d : P3) (Q : Mat3) : List P3 :=
  (box (d.1.toNat, d.2.1.toNat, d.2.2.toNat)).map fun p =>
    (mulVec Q (p.1 * d.2.1 * d.2.2, p.2.1 * d.1 * d.2.2, p.2.2 * d.1 * d.2.1)).mod (d.1 * d.2.1 * d.2.2)

/-! ### categorisation q = −q (ii) / q ≠ −q (ij) -/

/-- index of the first point `p'` with `(p + p') % N == 0` -/
def partner (pts : List P3) (p : P3) : Option Nat :=
  let N : Int := pts.length
  let j := pts.findIdx (fun p' => (p.add p').mod N == (0, 0, 0))
  if j < pts.length then some j else none

/-- index of the partner of point `i` -/
def partnerIdx (pts : List P3) (i : Nat) : Option Nat := partner pts (pts.getD i (0, 0, 0))

/-- the list `ii`: points with `q = −q + G` -/
def catII (pts : List P3) : List Nat :=
  (List.range pts.length).filterMap fun i => if partnerIdx pts i == some i then some i else none

/-- the list `ij`: first members of the pairs `q ≠ −q + G` -/
def catIJ (pts : List P3) : List Nat :=
  (List.range pts.length).filterMap fun i => match partnerIdx pts i with
    | some j => if i < j then some i else none
    | none => none

/-- `categorize_commensurate_points`; the final `assert` is the error branch. -/
def categorize (pts : List P3) : Option (List Nat × List Nat) :=
  if (catII pts).length + (catIJ pts).length * 2 == pts.length then some (catII pts, catIJ pts) else none

/-! ### complex numbers as pairs -/

structure Cx (α : Type) where
  re : α
  im : α
deriving Repr, BEq

variable {α : Type} [Add α] [Sub α] [Neg α] [Mul α] [Div α] [OfNat α 0] [OfNat α 2] [NatCast α]

def Cx.conj (z : Cx α) : Cx α := ⟨z.re, -z.im⟩

def sumList (zs : List α) : α := zs.foldr (· + ·) 0

/-- forward transform: `cos_phase += cos(..) / m_pair` (each term divided) -/
def avgDivEach (zs : List (Cx α)) : Cx α :=
  ⟨sumList (zs.map fun z => z.re / (zs.length : α)), sumList (zs.map fun z => z.im / (zs.length : α))⟩

/-- inverse transform: `cos_phase /= m_pair` after the sum -/
def avgDivSum (zs : List (Cx α)) : Cx α :=
  ⟨sumList (zs.map (·.re)) / (zs.length : α), sumList (zs.map (·.im)) / (zs.length : α)⟩

/-- dynamical matrix `[i][a][j][b]` (address `(i*3+a)*3n + j*3+b`) -/
abbrev DM (np : Nat) (α : Type) := Fin np → Fin 3 → Fin np → Fin 3 → Cx α

/-- phase factors of the images: supercell atom `k`, primitive atom `i` ↦ list over the
`multi[k][i][0]` shortest vectors starting at `multi[k][i][1]` -/
abbrev Phases (np ns : Nat) (α : Type) := Fin ns → Fin np → List (Cx α)

/-- the index maps the kernel receives: `p2s_map` (also the row of `fc` that is read) and
`s2p_map`. Full layout: `p2s, s2p`; compact layout: `arange, s2pp`. -/
structure FTables (np ns nr : Nat) where
  p2s : Fin np → Fin nr
  s2p : Fin ns → Nat

/-- `get_dynmat_ij` + `get_dm` without the final `make_Hermitian`;
`ms i j` is the value `sqrt(mass[i] * mass[j])` the code computed. -/
def dynmatRaw {np ns nr : Nat} (T : FTables np ns nr) (fc : Fin nr → Fin ns → Fin 3 → Fin 3 → α)
    (ms : Fin np → Fin np → α) (ph : Phases np ns α) : DM np α :=
  fun i a j b =>
    ⟨(sumFin ns fun k => if T.s2p k = (T.p2s j).1 then fc (T.p2s i) k a b * (avgDivEach (ph k i)).re else 0) / ms i j,
     (sumFin ns fun k => if T.s2p k = (T.p2s j).1 then fc (T.p2s i) k a b * (avgDivEach (ph k i)).im else 0) / ms i j⟩

/-- `make_Hermitian`: every entry becomes `(D[r][c] + conj D[c][r]) / 2`. -/
def hermitize {np : Nat} (D : DM np α) : DM np α :=
  fun i a j b => ⟨((D i a j b).re + (D j b i a).re) / 2, ((D i a j b).im - (D j b i a).im) / 2⟩

/-- `dym_get_dynamical_matrix_at_q` -/
def dynmat {np ns nr : Nat} (T : FTables np ns nr) (fc : Fin nr → Fin ns → Fin 3 → Fin 3 → α)
    (ms : Fin np → Fin np → α) (ph : Phases np ns α) : DM np α :=
  hermitize (dynmatRaw T fc ms ph)

/-- `transform_dynmat_to_fc_ij` for all `(i, j)`: compact rows.
`ph q` are the factors `exp(−2πi q·r)`; `N = num_satom / num_patom`. -/
def dynmatToFc {np ns N : Nat} (s2pp : Fin ns → Fin np) (dm : Fin N → DM np α)
    (ms : Fin np → Fin np → α) (ph : Fin N → Phases np ns α) : CFC np ns α :=
  fun i j a b => sumFin N fun q =>
    ((dm q i a (s2pp j) b).re * (avgDivSum (ph q j i)).re
      - (dm q i a (s2pp j) b).im * (avgDivSum (ph q j i)).im) * (ms i (s2pp j) / (N : α))

/-- the Python path `_py_inverse_transformation`: complex sum over q first, then the real
part times `sqrt(m m') / N`. -/
def dynmatToFcPy {np ns N : Nat} (s2pp : Fin ns → Fin np) (dm : Fin N → DM np α)
    (ms : Fin np → Fin np → α) (ph : Fin N → Phases np ns α) : CFC np ns α :=
  fun i j a b => (sumFin N fun q =>
    ((dm q i a (s2pp j) b).re * (avgDivSum (ph q j i)).re
      - (dm q i a (s2pp j) b).im * (avgDivSum (ph q j i)).im)) * (ms i (s2pp j) / (N : α))

/-- full layout: the compact rows are written to the rows `p2s` and distributed by the pure
translations. -/
def dynmatToFcFull {np ns nt N : Nat} (T : CTables np ns nt) (dm : Fin N → DM np α)
    (ms : Fin np → Fin np → α) (ph : Fin N → Phases np ns α) : FC ns α :=
  expand T (dynmatToFc T.s2pp dm ms ph)

/-! ### the structural description of the phases used by the theorems

At a commensurate point `q = κ/Nd` the phase of every image of the pair (supercell atom `k`,
primitive atom `i`) is `ψ q (s2pp k) i · ζ^(κ_q · R_k)` where `R_k` is the (integer) lattice
vector of atom `k`, `ζ` a primitive `Nd`-th root of unity and `ψ` a unit factor that depends on
the two sublattices only.  The harness checks this numerically on the code's own phases for
every case and evaluates the integer certificate below in Lean. -/

structure Lat (np ns N : Nat) where
  s2pp : Fin ns → Fin np
  /-- the primitive representative of every sublattice (`p2s_map`) -/
  base : Fin np → Fin ns
  /-- integer numerators of the commensurate points -/
  kq : Fin N → P3
  /-- lattice vector (primitive coordinates) of every supercell atom -/
  R : Fin ns → P3
  /-- common denominator (`det S`) -/
  Nd : Int

/-- exponent of `ζ` for q-point `q` and atom `k` -/
def Lat.ex {np ns N : Nat} (L : Lat np ns N) (q : Fin N) (k : Fin ns) : Int := (L.kq q).dot (L.R k)

/-- exponent relative to the representative of the sublattice -/
def Lat.rel {np ns N : Nat} (L : Lat np ns N) (q : Fin N) (k : Fin ns) : Int :=
  L.ex q k - L.ex q (L.base (L.s2pp k))

/-- executable certificate (evaluated by the check on the implementation's tables):
* `Nd > 0`; the representatives lie in their sublattices; every sublattice has `N` atoms;
* (Q1) the q-points are pairwise different modulo `Nd`, (Q2) closed under addition modulo `Nd`
  ("shifting the list by any member permutes it"), (Q3) closed under negation;
* (K1) two different atoms of one sublattice are separated by some q-point;
* (K2) the atoms of a sublattice are closed under the lattice translations of that sublattice
  (as far as the q-phases can see);
* (K3) two different q-points are separated by some atom of every sublattice. -/
def Lat.wf {np ns N : Nat} (L : Lat np ns N) : Bool :=
  decide (0 < L.Nd) &&
  (List.finRange np).all (fun j => L.s2pp (L.base j) == j) &&
  (List.finRange np).all (fun j => ((List.finRange ns).filter fun k => L.s2pp k == j).length == N) &&
  (List.finRange N).all (fun q => (List.finRange N).all fun q' =>
    (q == q') || ((L.kq q).mod L.Nd != (L.kq q').mod L.Nd)) &&
  (List.finRange N).all (fun q => (List.finRange N).all fun q' => (List.finRange N).any fun q'' =>
    (L.kq q'').mod L.Nd == ((L.kq q).add (L.kq q')).mod L.Nd) &&
  (List.finRange N).all (fun q => (List.finRange N).any fun q' =>
    ((L.kq q).add (L.kq q')).mod L.Nd == (0, 0, 0)) &&
  (List.finRange ns).all (fun k => (List.finRange ns).all fun k' =>
    (k == k') || (L.s2pp k != L.s2pp k') ||
      (List.finRange N).any fun q => (L.ex q k - L.ex q k') % L.Nd != 0) &&
  (List.finRange ns).all (fun k => (List.finRange ns).all fun t =>
    (L.s2pp k != L.s2pp t) ||
      (List.finRange ns).any fun k' => L.s2pp k' == L.s2pp k &&
        (List.finRange N).all fun q => (L.rel q k' - L.rel q k - L.rel q t) % L.Nd == 0) &&
  (List.finRange N).all (fun q => (List.finRange N).all fun q' =>
    (q == q') || (List.finRange np).all fun j => (List.finRange ns).any fun t =>
      L.s2pp t == j && (L.rel q t - L.rel q' t) % L.Nd != 0)

end PhononModel.C06
