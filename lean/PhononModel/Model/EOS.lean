/-!
# Equations of state — model of `phonopy/qha/eos.py: get_eos`

Source anchors: `birch_murnaghan(v, *p)` ↦ `birchMurnaghan`, `murnaghan(v, *p)` ↦ `murnaghan`,
`vinet(v, *p)` ↦ `vinet`; parameters `p = [E_0, B_0, B'_0, V_0]` ↦ `EosParams`.
`residuals(p, eos, v, e) = eos(v, *p) - e` and the sum of squares minimised by `scipy.optimize.leastsq`
↦ `residual`, `sumSq`.

The real power `**` with a non-integer exponent and `np.exp` are fields of `EosEnv`, instantiated with
`Real.rpow`, `Real.exp` in the proofs (Props/C20.lean) and with `Float.pow`, `Float.exp` in the driver.
-/
namespace PhononModel.EOS

structure EosEnv (α : Type) where
  rpow : α → α → α
  exp : α → α

/-- `p[0] = E_0, p[1] = B_0, p[2] = B'_0, p[3] = V_0` -/
structure EosParams (α : Type) where
  E0 : α
  B0 : α
  Bp : α
  V0 : α

def floatEnv : EosEnv Float := { rpow := Float.pow, exp := Float.exp }

section
variable {α : Type} [Add α] [Sub α] [Mul α] [Div α] [Neg α]
  [OfNat α 1] [OfNat α 2] [OfNat α 3] [OfNat α 4] [OfNat α 6] [OfNat α 9] [OfNat α 16]

/-- `p[0] + 9.0/16 * p[3] * p[1] * (((p[3]/v)**(2.0/3) - 1)**3 * p[2]
      + ((p[3]/v)**(2.0/3) - 1)**2 * (6 - 4*(p[3]/v)**(2.0/3)))` -/
def birchMurnaghan (E : EosEnv α) (p : EosParams α) (v : α) : α :=
  let y := E.rpow (p.V0 / v) (2 / 3)
  p.E0 + 9 / 16 * p.V0 * p.B0 *
    ((y - 1) * (y - 1) * (y - 1) * p.Bp + (y - 1) * (y - 1) * (6 - 4 * y))

/-- `p[0] + p[1]*v/p[2] * ((p[3]/v)**p[2] / (p[2]-1) + 1) - p[1]*p[3]/(p[2]-1)` -/
def murnaghan (E : EosEnv α) (p : EosParams α) (v : α) : α :=
  p.E0 + p.B0 * v / p.Bp * (E.rpow (p.V0 / v) p.Bp / (p.Bp - 1) + 1) - p.B0 * p.V0 / (p.Bp - 1)

/-- `x = (v/p[3])**(1.0/3); xi = 3.0/2*(p[2]-1);
    p[0] + 9*p[1]*p[3]/(xi**2) * (1 + (xi*(1-x) - 1)*exp(xi*(1-x)))` -/
def vinet (E : EosEnv α) (p : EosParams α) (v : α) : α :=
  let x := E.rpow (v / p.V0) (1 / 3)
  let xi := 3 / 2 * (p.Bp - 1)
  p.E0 + 9 * p.B0 * p.V0 / (xi * xi) * (1 + (xi * (1 - x) - 1) * E.exp (xi * (1 - x)))

inductive Kind where
  | vinet | birchMurnaghan | murnaghan
  deriving DecidableEq, Repr

/-- `get_eos(name)`: any name other than the two Murnaghan ones selects Vinet -/
def getEos (name : String) : Kind :=
  if name = "murnaghan" then .murnaghan else if name = "birch_murnaghan" then .birchMurnaghan else .vinet

def eval (E : EosEnv α) (k : Kind) (p : EosParams α) (v : α) : α :=
  match k with
  | .vinet => vinet E p v
  | .birchMurnaghan => birchMurnaghan E p v
  | .murnaghan => murnaghan E p v

end

section fit
variable {α : Type} [Add α] [Sub α] [Mul α] [OfNat α 0]

/-- `residuals(p, eos, v, e) = eos(v, *p) - e` for one data point -/
def residual (eos : α → α) (v e : α) : α := eos v - e

/-- the objective of `leastsq`: `Σ_i residual_i²` over the data `(v_i, e_i)` -/
def sumSq (eos : α → α) (data : List (α × α)) : α :=
  data.foldr (fun d acc => residual eos d.1 d.2 * residual eos d.1 d.2 + acc) 0

end fit

end PhononModel.EOS
