import PhononModel.Model.Basic
/-!
Line protocol helpers for the drivers (`lake env lean --run Drivers/Cxx.lean`).
One request per line, tokens separated by blanks; numbers are exact: integers or `n/d`.
-/
namespace PhononModel.Wire

def parseInt? (s : String) : Option Int := s.toInt?

def parseRat? (s : String) : Option Rat :=
  match s.splitOn "/" with
  | [a] => a.toInt?.map (fun (n : Int) => (n : Rat))
  | [a, b] => do
      let n ← a.toInt?
      let d ← b.toNat?
      if d = 0 then none else some (mkRat n d)
  | _ => none

def showRat (r : Rat) : String :=
  if r.den = 1 then toString r.num else toString r.num ++ "/" ++ toString r.den

def tokens (line : String) : List String :=
  (line.splitOn " ").filter (fun t => t ≠ "" && t ≠ "\r")

/-- a cursor over tokens with typed readers; every reader fails with `none` on malformed input -/
structure Cur where
  toks : Array String
  pos : Nat := 0

def Cur.nat? (c : Cur) : Option (Nat × Cur) := do
  let t ← c.toks[c.pos]?
  let n ← t.toNat?
  pure (n, { c with pos := c.pos + 1 })

def Cur.int? (c : Cur) : Option (Int × Cur) := do
  let t ← c.toks[c.pos]?
  let n ← t.toInt?
  pure (n, { c with pos := c.pos + 1 })

def Cur.rat? (c : Cur) : Option (Rat × Cur) := do
  let t ← c.toks[c.pos]?
  let r ← parseRat? t
  pure (r, { c with pos := c.pos + 1 })

def Cur.str? (c : Cur) : Option (String × Cur) := do
  let t ← c.toks[c.pos]?
  pure (t, { c with pos := c.pos + 1 })

def Cur.nats? (c : Cur) (n : Nat) : Option (Array Nat × Cur) := do
  let mut c := c
  let mut out := Array.mkEmpty n
  for _ in [0:n] do
    let (v, c') ← c.nat?
    out := out.push v
    c := c'
  pure (out, c)

def Cur.ints? (c : Cur) (n : Nat) : Option (Array Int × Cur) := do
  let mut c := c
  let mut out := Array.mkEmpty n
  for _ in [0:n] do
    let (v, c') ← c.int?
    out := out.push v
    c := c'
  pure (out, c)

def Cur.rats? (c : Cur) (n : Nat) : Option (Array Rat × Cur) := do
  let mut c := c
  let mut out := Array.mkEmpty n
  for _ in [0:n] do
    let (v, c') ← c.rat?
    out := out.push v
    c := c'
  pure (out, c)

def Cur.atEnd (c : Cur) : Bool := c.pos == c.toks.size

def showRats (a : Array Rat) : String := " ".intercalate (a.toList.map showRat)
def showInts (a : Array Int) : String := " ".intercalate (a.toList.map toString)
def showNats (a : Array Nat) : String := " ".intercalate (a.toList.map toString)

/-- read stdin line by line, answer each non-empty line with exactly one output line -/
partial def serve (handle : String → String) : IO Unit := do
  let stdin ← IO.getStdin
  let stdout ← IO.getStdout
  let rec loop : IO Unit := do
    let line ← stdin.getLine
    if line.isEmpty then return ()
    let l := line.trimAscii.toString
    if l.isEmpty then loop else
      stdout.putStrLn (handle l)
      loop
  loop
  stdout.flush

/-- total lookup of a natural-number table into `Fin n` (out-of-range ⇒ `none`) -/
def finOf? (n : Nat) (v : Nat) : Option (Fin n) := if h : v < n then some ⟨v, h⟩ else none

def allFin? (n : Nat) (a : Array Nat) : Option (Array (Fin n)) := a.mapM (finOf? n)

end PhononModel.Wire
