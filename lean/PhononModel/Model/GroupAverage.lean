import PhononModel.Model.Basic
/-!
Group average of force constants (`harmonic/force_constants.py: set_tensor_symmetry_PJ`,
used by `Phonopy.symmetrize_force_constants_by_space_group`):

    out(i,j) = (1/N) Σ_g C_g · Φ(π_g i, π_g j) · C_g⁻¹,     C_g = (L r_g L⁻¹)ᵀ

`π_g` is the code's `mapa[g]` (from `_get_atom_indices_by_symmetry`), `C_g` its `cart_rot[g]`,
`Ci g` its `cart_rot_inv[g]`.
-/
namespace PhononModel
variable {α : Type} [Add α] [Mul α] [Div α] [OfNat α 0] [NatCast α]

def pjAverage {N n : Nat} (perm : Fin N → Fin n → Fin n) (C Ci : Fin N → Fin 3 → Fin 3 → α)
    (Φ : FC n α) : FC n α :=
  fun i j k l =>
    (sumFin N fun g => sumFin 3 fun a => sumFin 3 fun b =>
      C g k a * Φ (perm g i) (perm g j) a b * Ci g b l) / (N : α)

/-- 3×3 product -/
def mul33 (A B : Fin 3 → Fin 3 → α) : Fin 3 → Fin 3 → α :=
  fun k l => sumFin 3 fun a => A k a * B a l

/-- Executable certificate that the operation list is closed (a group table exists):
`mul g h` names an operation whose permutation is `π_h ∘ π_g` and whose matrices are
`C_g·C_h`, `Ci_h·Ci_g`, with `h ↦ mul g h` injective for every `g`, and `C·Ci = 1`. -/
def pjWf [DecidableEq α] [OfNat α 1] {N n : Nat} (perm : Fin N → Fin n → Fin n) (C Ci : Fin N → Fin 3 → Fin 3 → α)
    (mul : Fin N → Fin N → Fin N) : Bool :=
  (List.finRange N).all fun g => (List.finRange N).all fun h =>
    ((List.finRange n).all fun x => perm (mul g h) x == perm h (perm g x)) &&
    ((List.finRange 3).all fun k => (List.finRange 3).all fun l =>
      decide (C (mul g h) k l = mul33 (C g) (C h) k l) && decide (Ci (mul g h) k l = mul33 (Ci h) (Ci g) k l)) &&
    ((List.finRange N).all fun h' => (mul g h != mul g h') || h == h')

end PhononModel
