import PhononModel.Model.Basic
/-!
Checked rationals for the C11 driver: `Rat` with an absorbing error value produced by division by zero.
Instantiating the (scalar-polymorphic) tetrahedron models with this type reports "the code divides by zero on
this input" instead of computing with a totalised division.
-/
namespace PhononModel

structure CRat where
  val : Option Rat
deriving Repr

namespace CRat
def ok (r : Rat) : CRat := ⟨some r⟩
def bin (op : Rat → Rat → Rat) (a b : CRat) : CRat :=
  match a.val, b.val with
  | some x, some y => ⟨some (op x y)⟩
  | _, _ => ⟨none⟩
instance : Add CRat := ⟨bin (· + ·)⟩
instance : Sub CRat := ⟨bin (· - ·)⟩
instance : Mul CRat := ⟨bin (· * ·)⟩
instance : Neg CRat := ⟨fun a => ⟨a.val.map (fun x => -x)⟩⟩
instance : Div CRat := ⟨fun a b =>
  match a.val, b.val with
  | some x, some y => if y = 0 then ⟨none⟩ else ⟨some (x / y)⟩
  | _, _ => ⟨none⟩⟩
instance : NatCast CRat := ⟨fun n => ok (n : Rat)⟩
/-- comparisons are only ever made on input values; an error value compares false -/
instance : LT CRat := ⟨fun a b =>
  match a.val, b.val with
  | some x, some y => x < y
  | _, _ => False⟩
instance : DecidableRel (fun a b : CRat => a < b) := fun a b => by
  show Decidable (match a.val, b.val with
    | some x, some y => x < y
    | _, _ => False)
  cases a.val <;> cases b.val <;> infer_instance
end CRat

end PhononModel
