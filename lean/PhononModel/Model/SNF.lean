import PhononModel.Model.Mat3
/-!
# Model of `phonopy/structure/snf.py`  (C04)

Source anchors ↦ model definitions
* `Xgcd._step`                      ↦ `xgcdStep`   (numpy floor `divmod`, the two sign fix-ups)
* `Xgcd.run` (`for _ in range(1000)`) ↦ `xgcdLoop 1000`, `xgcd`
* `SNF3x3._swap_rows/_flip_sign_row/_set_zero/_disturb_rows` ↦ `swapL/flipL/setZeroL/disturbL`
  (the elementary matrix `L` is built by the same sequence of assignments into `eye(3)`)
* `self._L.append(L); self._A[:] = L·A; self._Ps += self._L`      ↦ `rowOp`
* `self._A[:] = self._A.T … self._Qs += self._L … self._A[:] = self._A.T` ↦ `tr … tr`
  (`Q = Q·Lᵀ` in `_set_PQ` is `(L·Qᵀ)ᵀ`, i.e. a row operation on the transposed state)
* `_first_column/_zero_first_column/_search_first_pivot` ↦ `firstColumn/zeroFirstColumn/searchFirstPivot`
* `_first_one_loop/_first/_first_finalize`   ↦ `firstOneLoop/first/firstFinalize`
* `_second_column/_second_one_loop/_second/_second_finalize` ↦ `secondColumn/…/second/secondFinalize`
* `_finalize/_finalize_sort/_finalize_disturb/_swap_diag_elems/_set_PQ` ↦ same names
* `__next__`, `run` (`for _ in self` — unbounded in the code) ↦ `next`, `run fuel`
  (`finished = false` when the fuel is exhausted; the harness checks `finished` on every case)

Integers are `Int` (the code uses numpy `intc`/`int64`: the model is the code as long as no
intermediate value leaves the 32-bit range — stated as an assumption in the evidence).
Ghost fields (`xok`, `finOk`) record facts the code does not look at: that every `Xgcd.run`
ended with `r1 == 0`, and that the two `_first()/_second()` calls inside `_finalize`, whose
return values the code ignores, returned `True`. They do not influence `D, P, Q`.
-/
namespace PhononModel.SNF
open PhononModel

/-! ### numpy integer division -/

/-- numpy `a // b` on integers: floor division, `0` for `b = 0` (with a warning) -/
def pyDiv (a b : Int) : Int := if b = 0 then 0 else Int.fdiv a b
/-- numpy `a % b` on integers: floor remainder (sign of `b`), `0` for `b = 0` -/
def pyMod (a b : Int) : Int := if b = 0 then 0 else Int.fmod a b

/-! ### `Xgcd` -/

structure XS where
  r0 : Int
  r1 : Int
  s0 : Int
  s1 : Int
  t0 : Int
  t1 : Int
deriving Repr, DecidableEq

/-- `Xgcd._step` -/
def xgcdStep (x : XS) : XS :=
  let q := pyDiv x.r0 x.r1
  let m := pyMod x.r0 x.r1
  let m1 := if m < 0 then (if x.r1 > 0 then m + x.r1 else m) else m
  let q1 := if m < 0 then (if x.r1 > 0 then q - 1 else q) else q
  let m2 := if m < 0 then (if x.r1 < 0 then m1 - x.r1 else m1) else m1
  let q2 := if m < 0 then (if x.r1 < 0 then q1 + 1 else q1) else q1
  { r0 := x.r1, r1 := m2, s0 := x.s1, s1 := x.s0 - q2 * x.s1, t0 := x.t1, t1 := x.t0 - q2 * x.t1 }

/-- `for _ in range(n): step; if r1 == 0: break` -/
def xgcdLoop : Nat → XS → XS
  | 0, x => x
  | n+1, x =>
    let x' := xgcdStep x
    if x'.r1 = 0 then x' else xgcdLoop n x'

structure XR where
  r : Int
  s : Int
  t : Int
  /-- ghost: the loop left with `r1 == 0` (not by exhausting its 1000 iterations) -/
  done : Bool
deriving Repr, DecidableEq

def xgcdInit (a b : Int) : XS := { r0 := a, r1 := b, s0 := 1, s1 := 0, t0 := 0, t1 := 1 }

def xgcdFuel (fuel : Nat) (a b : Int) : XR :=
  let x := xgcdLoop fuel (xgcdInit a b)
  { r := x.r0, s := x.s0, t := x.t0, done := x.r1 = 0 }

/-- `xgcd([a, b])` -/
def xgcd (a b : Int) : XR := xgcdFuel 1000 a b

/-! ### elementary matrices, built as the code builds them -/

def set (m : M3 Int) (i j : Fin 3) (v : Int) : M3 Int :=
  M3.ofFn fun r c => if r = i ∧ c = j then v else m.get r c

def eye : M3 Int := M3.one

/-- `_swap_rows(i, j)` -/
def swapL (i j : Fin 3) : M3 Int := set (set (set (set eye i i 0) j j 0) i j 1) j i 1
/-- `_flip_sign_row(i)` -/
def flipL (i : Fin 3) : M3 Int := set eye i i (-1)
/-- `_disturb_rows(i, j)` -/
def disturbL (i j : Fin 3) : M3 Int := set (set (set (set eye i i 1) i j 1) j i 0) j j 1
/-- `_set_zero(i, j, a, b, r, s, t)` -/
def setZeroL (i j : Fin 3) (a b r s t : Int) : M3 Int :=
  set (set (set (set eye i i s) i j t) j i (pyDiv (-b) r)) j j (pyDiv a r)

/-! ### state -/

inductive Err where
  | detZero   -- RuntimeError("Determinant is 0.")
deriving Repr, DecidableEq

structure St where
  A : M3 Int
  /-- product of `self._Ps` (latest on the left) -/
  P : M3 Int
  /-- `∏ Q·Lᵀ` over `self._Qs` -/
  Q : M3 Int
  /-- ghost -/
  xok : Bool := true
deriving Repr, DecidableEq

def St.init (A : M3 Int) : St := { A := A, P := eye, Q := eye }

/-- append `L` to `_L`, `A := L·A`, later `_Ps += _L` -/
def rowOp (L : M3 Int) (s : St) : St := { s with A := L * s.A, P := L * s.P }

/-- `self._A[:] = self._A.T`, exchanging the roles of `_Ps` and `_Qs` -/
def tr (s : St) : St := { s with A := s.A.transpose, P := s.Q.transpose, Q := s.P.transpose }

def searchFirstPivot (A : M3 Int) : Option (Fin 3) :=
  if A.a00 ≠ 0 then some 0 else if A.a10 ≠ 0 then some 1 else if A.a20 ≠ 0 then some 2 else none

def zeroFirstColumn (j : Fin 3) (s : St) : St :=
  let a := s.A.a00
  let b := s.A.get j 0
  let x := xgcd a b
  rowOp (setZeroL 0 j a b x.r x.s x.t) { s with xok := s.xok && x.done }

def firstColumn (s : St) : Except Err St :=
  match searchFirstPivot s.A with
  | none => .error .detZero
  | some i =>
    let s := if i ≠ 0 then rowOp (swapL 0 i) s else s
    let s := if s.A.a10 ≠ 0 then zeroFirstColumn 1 s else s
    let s := if s.A.a20 ≠ 0 then zeroFirstColumn 2 s else s
    .ok s

def firstOneLoop (s : St) : Except Err St := do
  let s ← firstColumn s
  let s ← firstColumn (tr s)
  pure (tr s)

def firstFinalize (s : St) : St :=
  let L := set (set eye 1 0 (pyDiv (-s.A.a10) s.A.a00)) 2 0 (pyDiv (-s.A.a20) s.A.a00)
  rowOp L s

def first (s : St) : Except Err (St × Bool) := do
  let s ← firstOneLoop s
  if s.A.a10 = 0 ∧ s.A.a20 = 0 then pure (s, true)
  else if pyMod s.A.a10 s.A.a00 = 0 ∧ pyMod s.A.a20 s.A.a00 = 0 then pure (firstFinalize s, true)
  else pure (s, false)

def zeroSecondColumn (s : St) : St :=
  let a := s.A.a11
  let b := s.A.a21
  let x := xgcd a b
  rowOp (setZeroL 1 2 a b x.r x.s x.t) { s with xok := s.xok && x.done }

def secondColumn (s : St) : St :=
  let s := if s.A.a11 = 0 ∧ s.A.a21 ≠ 0 then rowOp (swapL 1 2) s else s
  if s.A.a21 ≠ 0 then zeroSecondColumn s else s

def secondOneLoop (s : St) : St := tr (secondColumn (tr (secondColumn s)))

def secondFinalize (s : St) : St :=
  rowOp (set eye 2 1 (pyDiv (-s.A.a21) s.A.a11)) s

def second (s : St) : St × Bool :=
  let s := secondOneLoop s
  if s.A.a21 = 0 then (s, true)
  else if pyMod s.A.a21 s.A.a11 = 0 then (secondFinalize s, true)
  else (s, false)

def swapDiagElems (i j : Fin 3) (s : St) : St := tr (rowOp (swapL i j) (tr (rowOp (swapL i j) s)))

def finalizeSort (s : St) : St :=
  let s := if s.A.a00 > s.A.a11 then swapDiagElems 0 1 s else s
  let s := if s.A.a11 > s.A.a22 then swapDiagElems 1 2 s else s
  if s.A.a00 > s.A.a11 then swapDiagElems 0 1 s else s

def finalizeDisturb (i j : Fin 3) (s : St) : St :=
  if pyMod (s.A.get j j) (s.A.get i i) ≠ 0 then tr (rowOp (disturbL i j) (tr s)) else s

def flipNeg (i : Fin 3) (s : St) : St := if s.A.get i i < 0 then rowOp (flipL i) s else s

structure Out where
  D : M3 Int
  P : M3 Int
  Q : M3 Int
  /-- `false`: the fuel ran out before `StopIteration` (the code would still be looping) -/
  finished : Bool
  /-- ghost: all `Xgcd` loops ended with `r1 == 0` -/
  xok : Bool
  /-- ghost: `_first()` and `_second()` inside `_finalize` returned `True` -/
  finOk : Bool
  /-- `self._attempt` -/
  attempts : Nat
deriving Repr, DecidableEq

/-- `_set_PQ` -/
def setPQ (s : St) : St :=
  if s.P.det < 0 then { s with P := s.P.neg, Q := s.Q.neg } else s

/-- `_finalize`; the Boolean is the ghost `finOk` -/
def finalize (s : St) : Except Err (St × Bool) := do
  let s := flipNeg 2 (flipNeg 1 (flipNeg 0 s))
  let s := finalizeSort s
  let s := finalizeDisturb 0 1 s
  let (s, b1) ← first s
  let s := finalizeSort s
  let s := finalizeDisturb 1 2 s
  let (s, b2) := second s
  pure (setPQ s, b1 && b2)

/-- one `__next__`: `some` = `StopIteration` was raised (after `_finalize`) -/
def next (s : St) : Except Err (St × Option Bool) := do
  let (s, b) ← first s
  if b then
    let (s, b2) := second s
    if b2 then
      let (s, ok) ← finalize s
      pure (s, some ok)
    else pure (s, none)
  else pure (s, none)

def runLoop : Nat → Nat → St → Except Err Out
  | 0, k, s => .ok { D := s.A, P := s.P, Q := s.Q, finished := false, xok := s.xok, finOk := false, attempts := k }
  | fuel+1, k, s =>
    match next s with
    | .error e => .error e
    | .ok (s, some ok) =>
      .ok { D := s.A, P := s.P, Q := s.Q, finished := true, xok := s.xok, finOk := ok, attempts := k + 1 }
    | .ok (s, none) => runLoop fuel (k + 1) s

/-- `SNF3x3(A).run()` with at most `fuel` iterations of `for _ in self` -/
def run (fuel : Nat) (A : M3 Int) : Except Err Out := runLoop fuel 0 (St.init A)

/-- executable description of what `SNF3x3` promises (docstring: `D = PAQ`, `abs(det A) = det D`,
`det P = 1`, `det Q = sgn det A`; "the diagonal elements don't follow the rule" of the textbook form) -/
def isSNF (A : M3 Int) (o : Out) : Bool :=
  o.D = o.P * A * o.Q && o.D.isDiag && decide (0 < o.D.a00) && decide (0 < o.D.a11) && decide (0 < o.D.a22)
    && decide (o.P.det = 1) && decide (o.Q.det = 1 ∨ o.Q.det = -1)

/-- the textbook divisibility chain `d₀ ∣ d₁ ∣ d₂` (not guaranteed by the algorithm) -/
def hasChain (o : Out) : Bool := decide (o.D.a11 % o.D.a00 = 0) && decide (o.D.a22 % o.D.a11 = 0)

end PhononModel.SNF
