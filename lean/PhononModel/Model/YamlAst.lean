import PhononModel.Model.Dataset
/-!
Abstract syntax of the dataset and cell blocks of `phonopy_params.yaml` (property C16), with the
writer (`toYaml…`) and the reader (`ofYaml…`) on that abstract syntax.

Source anchors (tied by the correspondence run of `./check C16`, not by proof):
* `interface/phonopy_yaml.py: _displacements_yaml_lines_type1` (l.1015-1039)            ↦ `toYaml1`
* `interface/phonopy_yaml.py: PhonopyYamlLoaderBase._parse_force_sets_type1` (l.218-244) ↦ `ofYaml1`
* `interface/phonopy_yaml.py: _displacements_yaml_lines_type2` (l.651-681)               ↦ `toYaml2`
* `interface/phonopy_yaml.py: _parse_force_sets_type2` (l.246-274)                       ↦ `ofYaml2`
* `structure/atoms.py: PhonopyAtoms.get_yaml_lines` (points: symbol / extended_symbol /
  coordinates / mass / magnetic_moment, l.666-683)                                       ↦ `toYamlPoint`
* `structure/atoms.py: parse_cell_dict` (extended symbol wins over symbol)               ↦ `ofYamlPoint`

Numbers are abstract scalars here (the decimal text is the business of `Model/Precision.lean`);
what is modelled is the *structure*: which keys exist, 1-based atom numbers, flow sequences of
three numbers, optional forces / energies / masses / moments.
-/
namespace PhononModel.YA
open PhononModel.DS

variable {α : Type}

/-- type-1 entry with its optional energy (`supercell_energy`) -/
structure Entry1 (n : Nat) (α : Type) where
  e : Entry n α
  energy : Option α

/-- type-2 dataset with optional energies (`supercell_energies`) -/
structure Data2 (n : Nat) (α : Type) where
  d : Type2 n α
  energies : Option (List α)

/-- one item of the `displacements:` sequence (type 1) -/
structure YEntry (α : Type) where
  atom : Nat                        -- `atom:` (1-based)
  displacement : List α             -- `[ x, y, z ]`
  forces : Option (List (List α))   -- `forces:` sequence of `[ x, y, z ]`
  supercell_energy : Option α

/-- the `dataset:` mapping (type 2) -/
structure YData2 (α : Type) where
  displacements : List (List (List α))
  forces : Option (List (List (List α)))
  supercell_energies : Option (List α)

def vecToList (v : Vec3 α) : List α := List.ofFn v

def listToVec (l : List α) : Option (Vec3 α) :=
  if h : l.length = 3 then some fun i => l[i.1]'(by have := i.2; omega) else none

def fieldToList {n : Nat} (f : Field3 n α) : List (List α) := List.ofFn fun i => vecToList (f i)

def rowsToVecs : List (List α) → Option (List (Vec3 α))
  | [] => some []
  | r :: rs =>
    match listToVec r, rowsToVecs rs with
    | some v, some vs => some (v :: vs)
    | _, _ => none

def listToField (n : Nat) (ls : List (List α)) : Option (Field3 n α) :=
  match rowsToVecs ls with
  | none => none
  | some vs => if h : vs.length = n then some fun i => vs[i.1]'(by have := i.2; omega) else none

/-! ### type 1 -/

def toYamlEntry {n : Nat} (x : Entry1 n α) : YEntry α :=
  { atom := x.e.number.1 + 1
    displacement := vecToList x.e.displacement
    forces := x.e.forces.map fieldToList
    supercell_energy := x.energy }

def toYaml1 {n : Nat} (d : List (Entry1 n α)) : List (YEntry α) := d.map toYamlEntry

/-- `_parse_force_sets_type1` for one item: `number = atom - 1` -/
def ofYamlEntry (n : Nat) (y : YEntry α) : Option (Entry1 n α) :=
  if h : 1 ≤ y.atom ∧ y.atom - 1 < n then
    match listToVec y.displacement with
    | none => none
    | some disp =>
      match y.forces with
      | none => some { e := { number := ⟨y.atom - 1, h.2⟩, displacement := disp, forces := none }, energy := y.supercell_energy }
      | some fs =>
        match listToField n fs with
        | none => none
        | some f => some { e := { number := ⟨y.atom - 1, h.2⟩, displacement := disp, forces := some f }, energy := y.supercell_energy }
  else none

def ofYaml1 (n : Nat) : List (YEntry α) → Option (List (Entry1 n α))
  | [] => some []
  | y :: ys =>
    match ofYamlEntry n y, ofYaml1 n ys with
    | some e, some es => some (e :: es)
    | _, _ => none

/-! ### type 2 -/

def toYaml2 {n : Nat} (x : Data2 n α) : YData2 α :=
  { displacements := x.d.displacements.map fieldToList
    forces := x.d.forces.map fun fs => fs.map fieldToList
    supercell_energies := x.energies }

def fieldsOf (n : Nat) : List (List (List α)) → Option (List (Field3 n α))
  | [] => some []
  | s :: ss =>
    match listToField n s, fieldsOf n ss with
    | some f, some fs => some (f :: fs)
    | _, _ => none

def ofYaml2 (n : Nat) (y : YData2 α) : Option (Data2 n α) :=
  match fieldsOf n y.displacements with
  | none => none
  | some ds =>
    match y.forces with
    | none => some { d := { displacements := ds, forces := none }, energies := y.supercell_energies }
    | some fy =>
      match fieldsOf n fy with
      | none => none
      | some fs => some { d := { displacements := ds, forces := some fs }, energies := y.supercell_energies }

/-! ### atoms of a cell -/

inductive Moment (α : Type)
  | collinear (m : α)
  | vector (m : Vec3 α)

/-- an atom: `symbol` may be extended (`"Cl1"`), `formal` is the element symbol of its number -/
structure Atom (α : Type) where
  symbol : String
  formal : String
  coordinates : Vec3 α
  mass : Option α
  moment : Option (Moment α)

inductive YMoment (α : Type)
  | scalar (m : α)
  | seq (m : List α)

structure YPoint (α : Type) where
  symbol : String
  extended_symbol : Option String
  coordinates : List α
  mass : Option α
  magnetic_moment : Option (YMoment α)

def toYamlPoint (a : Atom α) : YPoint α :=
  { symbol := a.formal
    extended_symbol := if a.symbol = a.formal then none else some a.symbol
    coordinates := vecToList a.coordinates
    mass := a.mass
    magnetic_moment := a.moment.map fun
      | .collinear m => .scalar m
      | .vector v => .seq (vecToList v) }

def ofYamlPoint (y : YPoint α) : Option (Atom α) :=
  match listToVec y.coordinates with
  | none => none
  | some c =>
    let sym := match y.extended_symbol with | some s => s | none => y.symbol
    match y.magnetic_moment with
    | none => some { symbol := sym, formal := y.symbol, coordinates := c, mass := y.mass, moment := none }
    | some (.scalar m) => some { symbol := sym, formal := y.symbol, coordinates := c, mass := y.mass, moment := some (.collinear m) }
    | some (.seq l) =>
      match listToVec l with
      | none => none
      | some v => some { symbol := sym, formal := y.symbol, coordinates := c, mass := y.mass, moment := some (.vector v) }

end PhononModel.YA
