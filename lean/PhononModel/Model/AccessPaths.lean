import PhononModel.Model.Basic
/-!
# C14 — access paths as functions of the options to the buffer each returned field holds

Values are symbolic (`Val`): which quantity of which q-point an array row holds.  Arrays that the
code re-uses are modelled by an explicit per-row buffer store, so that `eigenvectors = dynmat`
(one numpy object under two names) is representable: a write through one name is seen through the
other.  Every row `i` of the buffers is touched only by loop iteration `i`, so a path is the map of
a per-q row program over the q-points.

Source anchors (file: function ↦ model definition)
* phonopy/phonon/qpoints.py: QpointsPhonon._run ↦ `qpointsRow`
* phonopy/phonon/mesh.py: Mesh._set_phonon ↦ `meshRow`; IterMesh.__next__ ↦ `iterMeshRow`
* phonopy/phonon/band_structure.py: BandStructure._solve_dm_on_path ↦ `bandRow`;
  estimate_band_connection ↦ `connOrder?`, `bandOrder`
* phonopy/api_phonopy.py: get_dynamical_matrix_at_q / get_frequencies_with_eigenvectors /
  get_group_velocity_at_q ↦ `directRow`; init_mesh (which Γ-centring flag reaches Mesh / IterMesh) ↦ `initMeshGamma`
* yaml writers (`%15.10f`, `%17.14f`, `%13.7f`) ↦ `writeK` (round to k decimals, ties to even)

`Rev` records, for the three defects of DESIGN §7 that live in these functions, whether the source
has the pinned or the repaired text; `./check C14` determines it from the behaviour of the code and
then compares every option combination with the model at that revision.
-/
namespace PhononModel.Access

/-- the four user options -/
structure Opts where
  eigvecs : Bool   -- with_eigenvectors
  gv : Bool        -- with_group_velocities
  dm : Bool        -- with_dynamical_matrices
  conn : Bool      -- is_band_connection
deriving DecidableEq, Repr

/-- which text the three defect sites have -/
structure Rev where
  f1 : Bool      -- QpointsPhonon._run keeps a copy of the dynamical matrix (true) or a view (false)
  f12 : Bool     -- init_mesh hands the forced Γ-centring flag to IterMesh (true) or the raw argument (false)
  iter : Bool    -- IterMesh.__next__ binds `eigenvectors = None` when not requested (true) or leaves it unbound (false)
deriving DecidableEq, Repr

def Rev.pinned : Rev := ⟨false, false, false⟩
def Rev.fixed : Rev := ⟨true, true, true⟩

/-- what an array row holds -/
inductive Val
  | D (q : Nat)                         -- dynamical matrix at q-point number q
  | vecs (of : Val)                     -- eigenvector matrix returned by `eigh(of)`
  | freqs (of : Val)                    -- frequencies from the eigenvalues of `of`
  | gv (q : Nat)                        -- group velocities at q (GroupVelocity object)
  | perm (order : List Nat) (of : Val)  -- band axis re-ordered by `order`
  | zero                                -- freshly allocated, never written
deriving DecidableEq, Repr

inductive Err | unbound   -- UnboundLocalError
deriving DecidableEq, Repr

/-- one q-point of a result -/
structure RowOut where
  freqs : Val
  eigvecs : Option Val
  dm : Option Val
  gv : Option Val
deriving DecidableEq, Repr

/-- buffer store: buffer id ↦ content of the row under consideration -/
abbrev Store := Nat → Val
def Store.empty : Store := fun _ => Val.zero
def Store.write (s : Store) (b : Nat) (v : Val) : Store := fun b' => if b' = b then v else s b'

/-- QpointsPhonon._run, row `q`.  Buffers: 0 = `dynmat[i]` (solver output, OpenMP build) or the array
returned by `DynamicalMatrix.run` (serial build); 1 = separately allocated `eigenvectors[i]`
(serial build only); 2 = a private copy of the dynamical matrix (repaired text only). -/
def qpointsRow (rev : Rev) (omp : Bool) (o : Opts) (q : Nat) : RowOut :=
  let s0 : Store := Store.empty.write 0 (Val.D q)
  let evRef : Nat := if omp then 0 else 1         -- `eigenvectors = dynmat` in the OpenMP branch
  let dmRef : Nat := 0                             -- `dm = dynmat[i]` is a view / the fresh result array
  -- `dynamical_matrices.append(dm)`: a reference in the pinned text, a copy in the repaired one
  let kept : Nat := if rev.f1 then 2 else dmRef
  let s1 : Store := if o.dm && rev.f1 then s0.write 2 (s0 dmRef) else s0
  let solved : Val := s1 dmRef                      -- what `eigh` / `eigvalsh` is applied to
  let s2 : Store := if o.eigvecs then s1.write evRef (Val.vecs solved) else s1   -- `eigenvectors[i] = eigvecs`
  -- after the loop: `np.array(dynamical_matrices)` reads the kept rows now
  { freqs := Val.freqs solved
    eigvecs := if o.eigvecs then some (s2 evRef) else none
    dm := if o.dm then some (s2 kept) else none
    gv := if o.gv then some (Val.gv q) else none }

/-- Mesh._set_phonon, row `q` (same aliasing in the OpenMP branch; no dynamical-matrix output) -/
def meshRow (omp : Bool) (o : Opts) (q : Nat) : RowOut :=
  let s0 : Store := Store.empty.write 0 (Val.D q)
  let evRef : Nat := if omp then 0 else 1
  let solved : Val := s0 0
  let s1 : Store := if o.eigvecs then s0.write evRef (Val.vecs solved) else s0
  { freqs := Val.freqs solved
    eigvecs := if o.eigvecs then some (s1 evRef) else none
    dm := none
    gv := if o.gv then some (Val.gv q) else none }

/-- IterMesh.__next__: `return frequencies, eigenvectors` -/
def iterMeshRow (rev : Rev) (o : Opts) (q : Nat) : Except Err RowOut :=
  let solved := Val.D q
  if o.eigvecs then
    .ok { freqs := Val.freqs solved, eigvecs := some (Val.vecs solved), dm := none, gv := none }
  else if rev.iter then
    .ok { freqs := Val.freqs solved, eigvecs := none, dm := none, gv := none }
  else .error Err.unbound

/-- BandStructure._solve_dm_on_path, point `q` with band order `ord` (only used under band connection) -/
def bandRow (o : Opts) (ord : List Nat) (q : Nat) : RowOut :=
  let withVecs := o.eigvecs || o.conn          -- `if is_band_connection: self._with_eigenvectors = True`
  let solved := Val.D q
  if o.conn then
    { freqs := Val.perm ord (Val.freqs solved)
      eigvecs := some (Val.perm ord (Val.vecs solved))
      dm := none
      gv := if o.gv then some (Val.perm ord (Val.gv q)) else none }
  else
    { freqs := Val.freqs solved
      eigvecs := if withVecs then some (Val.vecs solved) else none
      dm := none
      gv := if o.gv then some (Val.gv q) else none }

/-- the dynamical-matrix object used directly -/
def directRow (o : Opts) (q : Nat) : RowOut :=
  { freqs := Val.freqs (Val.D q)
    eigvecs := if o.eigvecs then some (Val.vecs (Val.D q)) else none
    dm := if o.dm then some (Val.D q) else none
    gv := if o.gv then some (Val.gv q) else none }

inductive Path | qpoints | band | mesh | iterMesh | direct
deriving DecidableEq, Repr

/-- the spectrum each path has to report (`spec`): field present iff the path offers it and it was
requested; band connection re-orders the band axis by `ord` -/
def specRow (p : Path) (o : Opts) (ord : List Nat) (q : Nat) : RowOut :=
  let re : Val → Val := fun v => if p = Path.band && o.conn then Val.perm ord v else v
  let wantVecs := o.eigvecs || (p = Path.band && o.conn)
  { freqs := re (Val.freqs (Val.D q))
    eigvecs := if wantVecs then some (re (Val.vecs (Val.D q))) else none
    dm := if o.dm && (p = Path.qpoints || p = Path.direct) then some (Val.D q) else none
    gv := if o.gv && p ≠ Path.iterMesh then some (re (Val.gv q)) else none }

def runRow (rev : Rev) (p : Path) (omp : Bool) (o : Opts) (ord : List Nat) (q : Nat) : Except Err RowOut :=
  match p with
  | .qpoints => .ok (qpointsRow rev omp o q)
  | .band => .ok (bandRow o ord q)
  | .mesh => .ok (meshRow omp o q)
  | .iterMesh => iterMeshRow rev o q
  | .direct => .ok (directRow o q)

/-- a whole call: the row program mapped over the q-point numbers -/
def runPath (rev : Rev) (p : Path) (omp : Bool) (o : Opts) (ord : Nat → List Nat) (qs : List Nat) :
    Except Err (List RowOut) := qs.mapM fun q => runRow rev p omp o (ord q) q

def specPath (p : Path) (o : Opts) (ord : Nat → List Nat) (qs : List Nat) : List RowOut :=
  qs.map fun q => specRow p o (ord q) q

/-- Phonopy.init_mesh: the Γ-centring flag that reaches the sampling class.
`meshIsLength`: `mesh` given as a float (then Γ-centring is forced). -/
def initMeshGamma (rev : Rev) (meshIsLength isGammaCenter useIterMesh : Bool) : Bool :=
  let forced := if meshIsLength then true else isGammaCenter     -- `_is_gamma_center`
  if useIterMesh then (if rev.f12 then forced else isGammaCenter) else forced

/-! ## band paths with several segments: which approach direction each point is solved with

`_solve_dm_on_path(path)` is called once per segment; with a NAC dynamical matrix it computes
`q_direction = path[0] - path[-1]` when the segment's end points are collinear with Γ (the segment
crosses or ends at Γ), `None` otherwise, and solves *every* point of the segment, including a first
point shared with the previous segment, with `run(q, q_direction=q_direction)`.  Nothing is carried
from one segment to the next. -/

structure Seg where
  throughGamma : Bool   -- |cross(b·path[0], b·path[-1])| < Q_DIRECTION_TOLERANCE
  npts : Nat
deriving DecidableEq, Repr

/-- direction label used by segment number `k`: its own direction, or none -/
def segDir (k : Nat) (s : Seg) : Option Nat := if s.throughGamma then some k else none

def bandDirsAux : Nat → List Seg → List (List (Option Nat))
  | _, [] => []
  | k, s :: r => List.replicate s.npts (segDir k s) :: bandDirsAux (k + 1) r

/-- per segment, per point: the direction the point is solved with -/
def bandDirs (segs : List Seg) : List (List (Option Nat)) := bandDirsAux 0 segs

/-! ## what happens at Γ with a non-analytical term correction, and how group velocities are computed

* `QpointsPhonon`: the user's `nac_q_direction` is applied at |q| < 1e-5 (OpenMP build: handed to the solver for all
  q, which uses it only at Γ; serial build: `_get_dynamical_matrix`), and handed to `GroupVelocity.run` as
  `perturbation` (first finite-difference / degenerate-perturbation direction; switches the site-symmetry average off
  for *all* q of the call).
* `BandStructure`: frequencies/eigenvectors use the segment's own direction (see `segDir`); group velocities come
  from `GroupVelocity.run(path)` — no perturbation, dynamical matrix at Γ without any direction.
* `Mesh`, `IterMesh`: no direction anywhere.
* the dynamical-matrix object directly: whatever `q_direction` the caller passes. -/

inductive GammaDir | none | user | segment
deriving DecidableEq, Repr

/-- direction with which frequencies / eigenvectors at Γ are computed -/
def freqGammaDir (p : Path) (userDirGiven segThroughGamma : Bool) : GammaDir :=
  match p with
  | .qpoints | .direct => if userDirGiven then .user else .none
  | .band => if segThroughGamma then .segment else .none
  | .mesh | .iterMesh => .none

/-- `perturbation` handed to the group-velocity object -/
def gvPerturbation (p : Path) (userDirGiven : Bool) : GammaDir :=
  match p with
  | .qpoints => if userDirGiven then .user else .none
  | _ => .none

/-- group velocities are averaged over the site symmetry of q iff no perturbation direction was given -/
def gvSymmetrized (p : Path) (userDirGiven : Bool) : Bool := gvPerturbation p userDirGiven == .none

/-- does the path offer group velocities at all -/
def offersGv (p : Path) : Bool := p != .iterMesh

/-! ## the cached group-velocity object across calls

`Phonopy` keeps one `GroupVelocity` object for `run_qpoints` / `run_band_structure` / `run_mesh`.  Its
degeneracy-lifting direction `_directions[0]` is state: `GroupVelocity.run(q_points, perturbation)` sets it on
*every* call — to the perturbation if one is given, back to the default (1,2,3) otherwise. -/

/-- state of the cached object: the direction currently stored (`none` = the default direction) -/
structure GvState where
  dir0 : GammaDir
deriving DecidableEq, Repr

/-- one `GroupVelocity.run`: new state and the direction the call computes with -/
def gvRun (perturbation : GammaDir) (_s : GvState) : GvState × GammaDir := (⟨perturbation⟩, perturbation)

/-- a sequence of calls on one `Phonopy` instance: the directions the calls compute with -/
def gvSequence : List GammaDir → GvState → List GammaDir
  | [], _ => []
  | p :: rest, s => (gvRun p s).2 :: gvSequence rest (gvRun p s).1

/-! ## writers: which optional fields a file contains, per option set -/

inductive Writer | qpointsYaml | qpointsHdf5 | meshYaml | meshHdf5 | bandYaml | bandHdf5
deriving DecidableEq, Repr

inductive Field | frequency | eigenvector | groupVelocity | dynamicalMatrix
deriving DecidableEq, Repr

/-- qpoints.py write_yaml/write_hdf5 (`_with_eigenvectors`, `_group_velocities is not None`, `_with_dynamical_matrices`);
mesh.py (`_with_eigenvectors` / `_eigenvectors is not None`, `_group_velocities is not None`);
band_structure.py (`_eigenvectors is not None` — also set by band connection —, `_group_velocities is not None`) -/
def written (w : Writer) (o : Opts) : List Field :=
  match w with
  | .qpointsYaml | .qpointsHdf5 =>
    [Field.frequency] ++ (if o.eigvecs then [Field.eigenvector] else []) ++ (if o.gv then [Field.groupVelocity] else [])
      ++ (if o.dm then [Field.dynamicalMatrix] else [])
  | .meshYaml | .meshHdf5 =>
    [Field.frequency] ++ (if o.eigvecs then [Field.eigenvector] else []) ++ (if o.gv then [Field.groupVelocity] else [])
  | .bandYaml | .bandHdf5 =>
    [Field.frequency] ++ (if o.eigvecs || o.conn then [Field.eigenvector] else []) ++ (if o.gv then [Field.groupVelocity] else [])

/-- the path whose result a writer serialises -/
def Writer.path : Writer → Path
  | .qpointsYaml | .qpointsHdf5 => .qpoints
  | .meshYaml | .meshHdf5 => .mesh
  | .bandYaml | .bandHdf5 => .band

/-- optional fields present in a result row -/
def rowFields (r : RowOut) : List Field :=
  [Field.frequency] ++ (if r.eigvecs.isSome then [Field.eigenvector] else []) ++ (if r.gv.isSome then [Field.groupVelocity] else [])
    ++ (if r.dm.isSome then [Field.dynamicalMatrix] else [])

/-! ## band connection (estimate_band_connection) -/

/-- one row of the greedy matching: scan `i = n-1 … 0`, skip taken columns, keep the first strictly
larger overlap; `carry` is the Python variable `maxindex` left over from earlier rows; `init` is the initial
`maxval` (`0` in the pinned text: a zero overlap is never chosen; `-1` in the repaired text) -/
def rowPickI (init : Rat) (row : List Rat) (taken : List Nat) (carry : Option Nat) : Option Nat :=
  ((List.range row.length).reverse.foldl
    (fun (acc : Rat × Option Nat) i =>
      if taken.contains i then acc
      else if row.getD i 0 > acc.1 then (row.getD i 0, some i) else acc)
    (init, carry)).2

def connOrderAuxI (init : Rat) : List (List Rat) → List Nat → Option Nat → Option (List Nat)
  | [], taken, _ => some taken
  | row :: rest, taken, carry =>
    match rowPickI init row taken carry with
    | none => none                       -- UnboundLocalError: `maxindex` never assigned
    | some m => connOrderAuxI init rest (taken ++ [m]) (some m)

/-- `connection_order` of the pinned text (`maxval = 0`); `none` = the Python raises -/
def connOrder? (metric : List (List Rat)) : Option (List Nat) := connOrderAuxI 0 metric [] none

/-- `connection_order` of the repaired text (`maxval = -1`) -/
def connOrderFixed? (metric : List (List Rat)) : Option (List Nat) := connOrderAuxI (-1) metric [] none

/-- by revision flag -/
def connOrderRev (repaired : Bool) (metric : List (List Rat)) : Option (List Nat) :=
  if repaired then connOrderFixed? metric else connOrder? metric

/-- `band_order = [connection_order[x] for x in prev_band_order]` -/
def bandOrder (conn prev : List Nat) : List Nat := prev.map fun x => conn.getD x 0

/-- executable certificate: `l` lists every index `< n` exactly once -/
def isPermB (l : List Nat) (n : Nat) : Bool :=
  l.length == n && l.all (· < n) && (List.range n).all (fun i => l.count i == 1)

/-- `eigvals[band_order]` -/
def reorder {α : Type} (d : α) (order : List Nat) (xs : List α) : List α := order.map fun i => xs.getD i d

/-! ## writers: a number printed with `%.{k}f` -/

/-- round to nearest integer, ties to even (the exact value of a binary64 is rational) -/
def rne (y : Rat) : Int :=
  let f := y.floor
  let r := y - (f : Rat)
  if r < 1/2 then f else if r > 1/2 then f + 1 else if f % 2 = 0 then f else f + 1

/-- the rational a reader gets back from the text written with k decimals -/
def writeK (k : Nat) (x : Rat) : Rat := (rne (x * (10 : Rat) ^ k) : Rat) / (10 : Rat) ^ k

end PhononModel.Access
