import PhononModel.Model.Basic
import PhononModel.Model.ThermalEnv
import PhononModel.Gen.ThermalC
/-!
# Thermal properties — model of `phonopy/phonon/thermal_properties.py` and of the mesh loop of
`c/phonopy.c: phpy_get_thermal_properties`

Source anchors (file: function ↦ model definition)

* thermal_properties.py: `mode_cv` ↦ `modeCv`, `mode_F` ↦ `modeF`, `mode_S` ↦ `modeS`,
  `mode_ZPE` ↦ `modeZPE`, `mode_zero` ↦ `modeZero`
* `ThermalPropertiesBase.__init__` (cutoff, band indices, pretend_real, THz→eV) ↦ `cutoffEv`, `prepFreqs`
* `ThermalPropertiesBase._calculate_thermal_property` ↦ `meshSum` (no projection), `projSum` (projection)
* `run_free_energy / run_entropy / run_heat_capacity` ↦ `pyF / pyS / pyCv` (`T = 0` branch included)
* `ThermalProperties.__init__` zero-point energy ↦ `zpe`
* `ThermalProperties._run_c_thermal_properties` + `c/phonopy.c: phpy_get_thermal_properties`
  ↦ `cSum`, `cF / cS / cCv` (the three mode functions are the *generated* `ThermalC.get_*`)
* `ThermalProperties.temperatures` setter ↦ `keepTemps`
* `number_of_modes`, `number_of_integrated_modes` ↦ `numModes`, `numIntegrated`
* `ThermalProperties.set_temperature_range` (+ numpy's `arange` fill rule) ↦ `tempRange`, `arange`

The per-mode C functions are not modelled by hand: they are `Gen/ThermalC.lean`.

`modeS'`, `modeCv'` are the overflow-free forms of proposed_fixes/c10-thermal-overflow.diff; they are
proved equal to `modeS`, `modeCv` over ℝ in Props/C10.lean, and shown free of NaN/∞ in the
special-values model, where the pinned forms are shown to produce NaN.
-/
namespace PhononModel.Thermal
open PhononModel

section modes
variable {α : Type} [Add α] [Sub α] [Mul α] [Div α] [Neg α] [OfNat α 0] [OfNat α 1] [OfNat α 2]

/-- `mode_cv`: `x = freqs / Kb / temp; expVal = exp(x); Kb * x**2 * expVal / (expVal - 1.0)**2` -/
def modeCv (E : ThermalEnv α) (temp f : α) (classical : Bool) : α :=
  if classical then E.KB
  else
    let x := f / E.KB / temp
    let expVal := E.exp x
    E.KB * (x * x) * expVal / ((expVal - 1) * (expVal - 1))

/-- `mode_F`: `Kb*temp*log(1.0 - exp((-freqs)/(Kb*temp))) + freqs/2`;
classical: `Kb*temp*log(freqs/(Kb*temp))` -/
def modeF (E : ThermalEnv α) (temp f : α) (classical : Bool) : α :=
  if classical then E.KB * temp * E.log (f / (E.KB * temp))
  else E.KB * temp * E.log (1 - E.exp ((-f) / (E.KB * temp))) + f / 2

/-- `mode_S`: `val = freqs/(2*Kb*temp); 1/(2*temp)*freqs*cosh(val)/sinh(val) - Kb*log(2*sinh(val))`;
classical: `Kb - Kb*log(freqs/(Kb*temp))` -/
def modeS (E : ThermalEnv α) (temp f : α) (classical : Bool) : α :=
  if classical then E.KB - E.KB * E.log (f / (E.KB * temp))
  else
    let val := f / (2 * E.KB * temp)
    1 / (2 * temp) * f * E.cosh val / E.sinh val - E.KB * E.log (2 * E.sinh val)

/-- `mode_ZPE`: `freqs / 2` (classical: 0) -/
def modeZPE (_E : ThermalEnv α) (_temp f : α) (classical : Bool) : α :=
  if classical then 0 else f / 2

/-- `mode_zero` -/
def modeZero (_E : ThermalEnv α) (_temp _f : α) (_classical : Bool) : α := 0

/-- overflow-free entropy (proposed fix): `x = f/(Kb*T); em = -expm1(-x); Kb*(x*exp(-x)/em - log(em))` -/
def modeS' (E : ThermalEnv α) (temp f : α) (classical : Bool) : α :=
  if classical then E.KB - E.KB * E.log (f / (E.KB * temp))
  else
    let x := f / (E.KB * temp)
    let em := -(E.expm1 (-x))
    E.KB * (x * E.exp (-x) / em - E.log em)

/-- overflow-free heat capacity (proposed fix): `Kb * (x*exp(-x)/em) * (x/em)` -/
def modeCv' (E : ThermalEnv α) (temp f : α) (classical : Bool) : α :=
  if classical then E.KB
  else
    let x := f / (E.KB * temp)
    let em := -(E.expm1 (-x))
    E.KB * (x * E.exp (-x) / em) * (x / em)

end modes

section mesh
variable {α : Type} [Add α] [Sub α] [Mul α] [Div α] [Neg α] [OfNat α 0] [OfNat α 1] [OfNat α 2]
  [LT α] [∀ a b : α, Decidable (a < b)]

/-- `cutoff_frequency is None or cutoff_frequency < 0 → 0.0`, else `cutoff_frequency * THzToEv` -/
def cutoffEv (thzToEv : α) (c : Option α) : α :=
  match c with
  | none => 0
  | some c => if c < 0 then 0 else c * thzToEv

def absv (x : α) : α := if x < 0 then -x else x

/-- band selection (`mesh.frequencies[:, bi]`), `pretend_real` (abs), conversion THz → eV -/
def prepFreqs {nq nb ns : Nat} (thzToEv : α) (pretendReal : Bool) (bi : Fin ns → Fin nb)
    (fr : Fin nq → Fin nb → α) : Fin nq → Fin ns → α :=
  fun q j => (if pretendReal then absv (fr q (bi j)) else fr q (bi j)) * thzToEv

/-- `np.sum(func(t, freqs[cond]))` with `cond = freqs > cutoff` -/
def selSum {nb : Nat} (cut : α) (g : α → α) (fr : Fin nb → α) : α :=
  sumFin nb fun j => if cut < fr j then g (fr j) else 0

/-- `_calculate_thermal_property` without projection: `Σ_q np.sum(func(freqs_q[cond])) * w_q` -/
def meshSum {nq nb : Nat} (w : Fin nq → α) (fr : Fin nq → Fin nb → α) (cut : α) (g : α → α) : α :=
  sumFin nq fun q => selSum cut g (fr q) * w q

/-- `_calculate_thermal_property` with projection: component `j` (row of the eigenvector matrix, `nr = 3·natom`
rows) of `Σ_q np.dot(eigvecs2[:, cond], func(freqs[cond])) * w_q`; the columns are the (selected) bands -/
def projSum {nq nr nb : Nat} (w : Fin nq → α) (fr : Fin nq → Fin nb → α) (e2 : Fin nq → Fin nr → Fin nb → α)
    (cut : α) (g : α → α) (j : Fin nr) : α :=
  sumFin nq fun q => (sumFin nb fun ν => if cut < fr q ν then e2 q j ν * g (fr q ν) else 0) * w q

def wsum {nq : Nat} (w : Fin nq → α) : α := sumFin nq w

/-- `self._num_modes = frequencies.shape[1] * weights.sum()` (as a sum of the weight over all modes) -/
def numModes {nq : Nat} (ns : Nat) (w : Fin nq → α) : α := sumFin nq fun q => sumFin ns fun _ => w q

/-- `self._num_integrated_modes = np.sum(weights * (frequencies > cutoff).sum(axis=1))` -/
def numIntegrated {nq nb : Nat} (w : Fin nq → α) (fr : Fin nq → Fin nb → α) (cut : α) : α :=
  sumFin nq fun q => w q * sumFin nb fun j => if cut < fr q j then 1 else 0

/-- which mode function a `run_*` method uses: `t > 0` ↦ the formula, otherwise the `T = 0` function -/
def pick (t : α) (hot cold : α) : α := if 0 < t then hot else cold

/-- `run_free_energy(t)` [kJ/mol] -/
def pyF {nq nb : Nat} (E : ThermalEnv α) (evToKJmol : α) (cl : Bool) (w : Fin nq → α)
    (fr : Fin nq → Fin nb → α) (cut t : α) : α :=
  (if 0 < t then meshSum w fr cut (fun f => modeF E t f cl)
   else meshSum w fr cut (fun f => modeZPE E t f cl)) / wsum w * evToKJmol

/-- `run_entropy(t)` [kJ/K/mol]; `S form`: `sf = modeS` (pinned) or `modeS'` (proposed fix) -/
def pyS {nq nb : Nat} (sf : ThermalEnv α → α → α → Bool → α) (E : ThermalEnv α) (evToKJmol : α) (cl : Bool)
    (w : Fin nq → α) (fr : Fin nq → Fin nb → α) (cut t : α) : α :=
  (if 0 < t then meshSum w fr cut (fun f => sf E t f cl)
   else meshSum w fr cut (fun f => modeZero E t f cl)) / wsum w * evToKJmol

/-- `run_heat_capacity(t)` [kJ/K/mol] -/
def pyCv {nq nb : Nat} (cf : ThermalEnv α → α → α → Bool → α) (E : ThermalEnv α) (evToKJmol : α) (cl : Bool)
    (w : Fin nq → α) (fr : Fin nq → Fin nb → α) (cut t : α) : α :=
  (if 0 < t then meshSum w fr cut (fun f => cf E t f cl)
   else meshSum w fr cut (fun f => modeZero E t f cl)) / wsum w * evToKJmol

/-- projected variants (component `j`) -/
def pyProj {nq nr nb : Nat} (hot cold : α → α) (evToKJmol : α) (w : Fin nq → α)
    (fr : Fin nq → Fin nb → α) (e2 : Fin nq → Fin nr → Fin nb → α) (cut t : α) (j : Fin nr) : α :=
  (if 0 < t then projSum w fr e2 cut hot j else projSum w fr e2 cut cold j) / wsum w * evToKJmol

/-- zero-point energy of `ThermalProperties.__init__` [kJ/mol]:
`Σ_q np.sum(freqs[freqs > thr]) * w / 2 / Σw * EvTokJmol`, `thr = 0.0` in the pinned code
(`thr = cutoff` with proposed_fixes/c10-zpe-cutoff.diff); classical: `0.0` -/
def zpe {nq nb : Nat} (evToKJmol : α) (cl : Bool) (w : Fin nq → α) (fr : Fin nq → Fin nb → α) (thr : α) : α :=
  if cl then 0
  else (sumFin nq fun q => selSum thr (fun f => f) (fr q) * w q / 2) / wsum w * evToKJmol

/-- the accumulation loop of `phpy_get_thermal_properties` for one temperature and one of the three
mode functions `g T f classical`: `if (T > 0 && f > cutoff) tp += g(T, f, classical) * w[q]` -/
def cSum {nq nb : Nat} (g : α → α → Int → α) (cl : Int) (w : Fin nq → α) (fr : Fin nq → Fin nb → α)
    (cut t : α) : α :=
  sumFin nq fun q => sumFin nb fun k => if 0 < t ∧ cut < fr q k then g t (fr q k) cl * w q else 0

def clInt (cl : Bool) : Int := if cl then 1 else 0

/-- `_run_c_thermal_properties`: `fe = props[:,0]/Σw * EvTokJmol + zero_point_energy` [kJ/mol] -/
def cF {nq nb : Nat} (E : ThermalEnv α) (evToKJmol : α) (cl : Bool) (w : Fin nq → α)
    (fr : Fin nq → Fin nb → α) (cut zthr t : α) : α :=
  cSum (ThermalC.get_free_energy E) (clInt cl) w fr cut t / wsum w * evToKJmol + zpe evToKJmol cl w fr zthr

/-- `entropy = props[:,1]/Σw * EvTokJmol * 1000` — here without the factor 1000, as `pyS` [kJ/K/mol] -/
def cS {nq nb : Nat} (E : ThermalEnv α) (evToKJmol : α) (cl : Bool) (w : Fin nq → α)
    (fr : Fin nq → Fin nb → α) (cut t : α) : α :=
  cSum (ThermalC.get_entropy E) (clInt cl) w fr cut t / wsum w * evToKJmol

def cCv {nq nb : Nat} (E : ThermalEnv α) (evToKJmol : α) (cl : Bool) (w : Fin nq → α)
    (fr : Fin nq → Fin nb → α) (cut t : α) : α :=
  cSum (ThermalC.get_heat_capacity E) (clInt cl) w fr cut t / wsum w * evToKJmol

/-- `temperatures` setter: `np.extract(np.invert(t_array < 0), t_array)` -/
def keepTemps (ts : List α) : List α := ts.filter fun t => !(decide (t < 0))

end mesh

section grid
variable {α : Type} [Add α] [Sub α] [Mul α] [Div α] [OfNat α 0] [OfNat α 2] [OfNat α 10] [OfNat α 1000]
  [LT α] [∀ a b : α, Decidable (a < b)]

/-- what the grid construction needs beyond field operations: `ceil` to a length, and `i ↦ (double) i` -/
structure GridEnv (α : Type) where
  ceil : α → Nat
  ofNat : Nat → α

/-- `np.arange(start, stop, step, dtype="double")`: length `ceil((stop - start)/step)`, element
`i` is `start + i*delta` with `delta = (start + step) - start` (numpy fills from the first two elements) -/
def arange (G : GridEnv α) (start stop step : α) : List α :=
  let n := G.ceil ((stop - start) / step)
  let delta := (start + step) - start
  (List.range n).map fun i => start + G.ofNat i * delta

/-- `ThermalProperties.set_temperature_range(t_min, t_max, t_step)` (also reached through the deprecated keywords of
`run` and through `Phonopy.run_thermal_properties(t_min, t_max, t_step)`):
defaults 10 / 1000 / 10; negative `t_min` → 0; `t_max` not above `t_min` → `t_min`; non-positive step → 10;
`np.arange(t_min, t_max + t_step/2, t_step)` -/
def tempRange (G : GridEnv α) (tmin tmax tstep : Option α) : List α :=
  let t0 : α := match tmin with
    | none => 10
    | some t => if t < 0 then 0 else t
  let t1 : α := match tmax with
    | none => 1000
    | some t => if t0 < t then t else t0
  let dt : α := match tstep with
    | none => 10
    | some t => if 0 < t then t else 10
  arange G t0 (t1 + dt / 2) dt

end grid

def floatGrid : GridEnv Float :=
  { ceil := fun x => if x > 0 then (Float.ceil x).toUInt64.toNat else 0, ofNat := Float.ofNat }

end PhononModel.Thermal
