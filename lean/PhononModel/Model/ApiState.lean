import PhononModel.Model.Basic
/-!
Model of the mutable calculation state of `phonopy.Phonopy` (property C15).

Source anchors (tied by the correspondence run of `./check C15`, not by proof):
* `api_phonopy.py: Phonopy.__init__`  (l.301-350: all caches `None`)                ↦ `Obj.init`
* `api_phonopy.py: Phonopy._set_dynamical_matrix` (l.4008-4051)                      ↦ `setDM`
* `harmonic/dynamical_matrix.py: DynamicalMatrix._set_force_constants`
  (own, aligned, C-contiguous double ndarray ⇒ kept, otherwise `np.array` copy)      ↦ the `h.own a` test in `setDM`
* `harmonic/dynamical_matrix.py: get_dynamical_matrix` (class by `nac_params`)       ↦ `clsOf`
* `api_phonopy.py: force_constants.setter` (l.777-792)                               ↦ `Op.setFc`
* `produce_force_constants` (l.1208-1272)                                            ↦ `Op.produceFc`
* `symmetrize_force_constants` (l.1274-1305, in place)                               ↦ `Op.symmetrizeFc`
* `symmetrize_force_constants_by_space_group` (l.1307-1333, in place)                ↦ `Op.symmetrizeFcSpaceGroup`
* `set_force_constants_zero_with_radius` (l.816-826, in place)                       ↦ `Op.cutoff`
* `nac_params.setter` (l.916-920: keeps the caller's dict)                           ↦ `Op.setNac`
* `masses.setter` (l.1054-1065)                                                      ↦ `Op.setMasses`
* `dataset.setter` (l.596-612: deep copy, displaced supercells invalidated)          ↦ `Op.setDataset`
* `copy` (l.3926-3984: init parameters only)                                         ↦ `Op.copy`
* `run_qpoints` (l.2231-2275) + `run_dynamical_matrix_solver_c`
  (`make_Gonze_nac_dataset` on first use, dynamical_matrix.py l.1205-1211)           ↦ `Op.query .freq / .freqGV`
* getters `force_constants`, `nac_params`, `dataset` (live objects), `masses` (copy),
  `supercells_with_displacements` (lazy cache)                                       ↦ the other `Query`s

Arrays live in a small heap `ArrRef → Val` so that aliasing and in-place mutation are
expressible.  Values are abstract tokens (`Nat`); the numerical routines that transform
them (`symmetrize…`, `cutoff…`, `get_fc2`, `symmetrize_borns_and_epsilon`) are the
uninterpreted functions of `Fns`.  The masses are *not* captured by the dynamical-matrix
object: it holds the `Primitive` object, whose masses the setter mutates, and reads
`primitive.masses` at every run (dynamical_matrix.py `_extract_params`).
-/
namespace PhononModel.Api

abbrev ArrRef := Nat
abbrev Val := Nat

/-- the numerical routines, uninterpreted -/
structure Fns where
  sym : Nat → Val → Val
  symSG : Val → Val
  cut : Nat → Val → Val
  /-- `get_fc2(dataset, is_compact_fc)` -/
  produce : Bool → Val → Val
  symNac : Val → Val
  isWang : Val → Bool
  /-- `fc2 * frequency_scale_factor**2` (deprecated constructor option) -/
  scale : Val → Val
  /-- `Phonopy.forces = f` on a dataset value (`_set_forces_energies`, target "forces") -/
  setF : Val → Val → Val
  /-- `Phonopy.supercell_energies = e` on a dataset value -/
  setE : Val → Val → Val
  /-- the displacements of a dataset value (what the displaced supercells are built from) -/
  dispOf : Val → Val
  /-- the dataset `generate_displacements(distance_k)` creates (no forces) -/
  gen : Val → Val
  /-- `forces_in_dataset` of a dataset value -/
  hasForces : Val → Bool
  /-- the force-constant array is in the compact layout -/
  isCompact : Val → Bool

/-- what a heap cell is: a force-constant array, a NAC-parameter dict, a dataset dict -/
inductive Kind | fc | nac | ds
  deriving DecidableEq, Repr

/-- heap of arrays / dicts (`cells`), numpy's `owndata ∧ c_contiguous ∧ double` flag (`own`),
allocation counter `next` and object-identity counter `ids` -/
structure Heap where
  cells : ArrRef → Val
  own : ArrRef → Bool
  kind : ArrRef → Kind
  next : Nat
  ids : Nat

/-- a fresh array; its reference is `h.next` -/
def Heap.alloc (h : Heap) (v : Val) (o : Bool) (k : Kind) : Heap :=
  { h with
    cells := fun r => if r = h.next then v else h.cells r
    own := fun r => if r = h.next then o else h.own r
    kind := fun r => if r = h.next then k else h.kind r
    next := h.next + 1 }

/-- in-place mutation -/
def Heap.write (h : Heap) (a : ArrRef) (v : Val) : Heap :=
  { h with cells := fun r => if r = a then v else h.cells r }

inductive DMClass | plain | wang | gl
  deriving DecidableEq, Repr

/-- a `DynamicalMatrix*` object: which array it holds, the (symmetrised, copied) NAC values,
and for Gonze–Lee the force-constant *value* its short-range constants were derived from -/
structure DMObj where
  id : Nat
  cls : DMClass
  fcRef : ArrRef
  nac : Option Val
  gonze : Option Val
  deriving DecidableEq, Repr

/-- what determines the phonons of one dynamical-matrix object -/
structure Phonons where
  cls : DMClass
  fc : Val
  nac : Option Val
  masses : Val
  deriving DecidableEq, Repr

/-- a `GroupVelocity` object holds the dynamical-matrix object it was constructed with -/
structure GVObj where
  dm : DMObj
  /-- `GroupVelocity(…, q_length=self._gv_delta_q)`: `none` = analytical derivative (unless the
  dynamical matrix is Gonze–Lee, for which `GroupVelocity` itself falls back to its default 1e-5) -/
  qLength : Option Val := none
  deriving DecidableEq, Repr

structure Obj where
  fc : Option ArrRef
  nac : Option ArrRef
  masses : Option Val
  dataset : Option ArrRef
  disps : Option Val
  dm : Option DMObj
  gv : Option GVObj
  /-- the deprecated constructor option `frequency_scale_factor` is set -/
  fsf : Bool := false
  /-- result objects (`Mesh`, `BandStructure`, `ThermalProperties`, `TotalDos`): snapshots of the
  phonons they were computed from; no setter ever resets them -/
  mesh : Option Phonons := none
  band : Option Phonons := none
  tp : Option Phonons := none
  dos : Option Phonons := none
  /-- the constructor option `group_velocity_delta_q` (`Phonopy._gv_delta_q`); no operation of the
  modelled API writes it -/
  gvDeltaQ : Option Val := none
  deriving DecidableEq, Repr

def Obj.init (masses : Option Val) (fsf : Bool := false) (gvDeltaQ : Option Val := none) : Obj :=
  { fc := none, nac := none, masses := masses, dataset := none, disps := none, dm := none, gv := none, fsf := fsf,
    gvDeltaQ := gvDeltaQ }

structure St where
  h : Heap
  o : Obj

inductive Err | noFc | noMasses | noDataset | noDM | badRef | noMesh | noForces | notFull
  deriving DecidableEq, Repr

/-- result objects kept by `Phonopy` -/
inductive Derived | mesh | band | tp | dos
  deriving DecidableEq, Repr

inductive Query
  | freq | freqGV | getFc | getNac | getMasses | getDataset | getDisps
  /-- `run_mesh` / `run_band_structure` / `run_thermal_properties` / `run_total_dos` (and read the result) -/
  | run (d : Derived)
  /-- read the stored result object (`get_mesh_dict`, …) without running anything -/
  | get (d : Derived)
  deriving DecidableEq, Repr

inductive Op
  | newArr (v : Val) (own : Bool) (k : Kind)
  | setFc (a : ArrRef)
  /-- `ph.produce_force_constants(calculate_full_force_constants = !compact)` -/
  | produceFc (compact : Bool)
  /-- `ph.generate_displacements(distance_k)` -/
  | generate (k : Val)
  /-- `ph.forces = f` -/
  | setForces (f : Val)
  /-- `ph.supercell_energies = e` -/
  | setEnergies (e : Val)
  /-- `ph.produce_force_constants(forces=f)` -/
  | produceFcWith (f : Val)
  | symmetrizeFc (level : Nat)
  | symmetrizeFcSpaceGroup
  | cutoff (r : Nat)
  | setNac (a : Option ArrRef)
  | setMasses (m : Val)
  | setDataset (a : Option ArrRef)
  | copy
  | callerMutates (a : ArrRef) (v : Val)
  | query (q : Query)
  deriving DecidableEq, Repr

structure Result where
  ph : Phonons
  gv : Option Phonons
  deriving DecidableEq, Repr

inductive Out
  | ok
  | err (e : Err)
  | newRef (a : ArrRef)
  | ref (a : Option ArrRef) (v : Option Val)
  | val (v : Option Val)
  | phonons (r : Result)
  | snap (p : Option Phonons)
  | copied (c : Obj)
  deriving DecidableEq, Repr

/-- reference-free observation of an output -/
inductive Obs
  | ok
  | err (e : Err)
  | val (v : Option Val)
  | phonons (r : Result)
  | snap (p : Option Phonons)
  | copied (masses : Option Val)
  deriving DecidableEq, Repr

def Out.obs : Out → Obs
  | .ok => .ok
  | .err e => .err e
  | .newRef _ => .ok
  | .ref _ v => .val v
  | .val v => .val v
  | .phonons r => .phonons r
  | .snap p => .snap p
  | .copied c => .copied c.masses

def clsOf (F : Fns) : Option Val → DMClass
  | none => .plain
  | some v => if F.isWang v then .wang else .gl

/-- `DynamicalMatrix._set_force_constants`: an own, aligned, C-contiguous double ndarray is
kept (aliased), anything else is copied into a fresh own array -/
def keepOrCopy (F : Fns) (fsf : Bool) (h : Heap) (a : ArrRef) : Heap × ArrRef :=
  -- get_dynamical_matrix: `_fc2 = fc2 * frequency_scale_factor**2` is a new array
  if fsf then (h.alloc (F.scale (h.cells a)) true .fc, h.next)
  else if h.own a then (h, a) else (h.alloc (h.cells a) true .fc, h.next)

def Heap.bumpId (h : Heap) : Heap := { h with ids := h.ids + 1 }

/-- `Phonopy._set_dynamical_matrix` -/
def setDM (F : Fns) (h : Heap) (o : Obj) : Heap × Obj × Option Err :=
  -- self._dynamical_matrix = None ; nac_params symmetrised (copied) from the stored dict
  let nacv := o.nac.map h.cells
  match o.fc, o.masses with
  | none, _ => (h, { o with dm := none }, some .noFc)
  | some _, none => (h, { o with dm := none }, some .noMasses)
  | some a, some _ =>
    let kc := keepOrCopy F o.fsf h a
    let d : DMObj := { id := kc.1.ids, cls := clsOf F nacv, fcRef := kc.2, nac := nacv.map F.symNac, gonze := none }
    -- self._force_constants = self._dynamical_matrix.force_constants
    -- if self._group_velocity is not None: self._set_group_velocity()
    (kc.1.bumpId, { o with dm := some d, fc := some kc.2, gv := o.gv.map fun _ => ⟨d, o.gvDeltaQ⟩ }, none)

/-- `if self._primitive.masses is not None: self._set_dynamical_matrix()` -/
def setDMIfMasses (F : Fns) (h : Heap) (o : Obj) : Heap × Obj × Option Err :=
  match o.masses with
  | none => (h, o, none)
  | some _ => setDM F h o

/-- `if self._force_constants is not None: self._set_dynamical_matrix()` -/
def setDMIfFc (F : Fns) (h : Heap) (o : Obj) : Heap × Obj × Option Err :=
  match o.fc with
  | none => (h, o, none)
  | some _ => setDM F h o

def fin (r : Heap × Obj × Option Err) : St × Out :=
  (⟨r.1, r.2.1⟩, match r.2.2 with | none => .ok | some e => .err e)

/-- `make_Gonze_nac_dataset` on first use -/
def touchGonze (h : Heap) (d : DMObj) : DMObj :=
  match d.cls, d.gonze with
  | .gl, none => { d with gonze := some (h.cells d.fcRef) }
  | _, _ => d

/-- the force-constant values a dynamical-matrix object computes with -/
def usedFc (h : Heap) (d : DMObj) : Val :=
  match d.cls, d.gonze with
  | .gl, some g => g
  | _, _ => h.cells d.fcRef

def phononsOf (h : Heap) (d : DMObj) (m : Val) : Phonons :=
  { cls := d.cls, fc := usedFc h d, nac := d.nac, masses := m }

/-- `if self._group_velocity is None: self._set_group_velocity()` -/
def gvOr (g : Option GVObj) (d : DMObj) (q : Option Val := none) : GVObj :=
  match g with
  | none => ⟨d, q⟩
  | some g => g

def Obj.derivedGet (o : Obj) : Derived → Option Phonons
  | .mesh => o.mesh | .band => o.band | .tp => o.tp | .dos => o.dos

/-- in-place update of the force constants followed by the guarded rebuild -/
def inPlace (F : Fns) (s : St) (f : Val → Val) : St × Out :=
  match s.o.fc with
  | none => (s, .err .noFc)
  | some a => fin (setDMIfMasses F (s.h.write a (f (s.h.cells a))) s.o)

def step (F : Fns) (s : St) : Op → St × Out
  | .newArr v own k => (⟨s.h.alloc v own k, s.o⟩, .newRef s.h.next)
  | .setFc a =>
    if a < s.h.next ∧ s.h.kind a = .fc then fin (setDMIfMasses F s.h { s.o with fc := some a })
    else (s, .err .badRef)
  | .produceFc c =>
    match s.o.dataset with
    | none => (s, .err .noDataset)
    | some ds =>
      -- `raise ForcesetsNotFoundError` unless every displacement has forces
      if F.hasForces (s.h.cells ds) then
        fin (setDMIfMasses F (s.h.alloc (F.produce c (s.h.cells ds)) true .fc) { s.o with fc := some s.h.next })
      else (s, .err .noForces)
  | .generate k =>
    -- `self.dataset = displacement_dataset` (setter: deep copy, displaced supercells invalidated)
    (⟨s.h.alloc (F.gen k) true .ds, { s.o with dataset := some s.h.next, disps := none }⟩, .ok)
  | .setForces f =>
    -- `_set_forces_energies` writes into the stored (deep-copied) dataset; the caller's forces are copied
    match s.o.dataset with
    | none => (s, .err .noDataset)
    | some ds => (⟨s.h.write ds (F.setF f (s.h.cells ds)), s.o⟩, .ok)
  | .setEnergies e =>
    match s.o.dataset with
    | none => (s, .err .noDataset)
    | some ds => (⟨s.h.write ds (F.setE e (s.h.cells ds)), s.o⟩, .ok)
  | .produceFcWith f =>
    -- `if forces is not None: self.forces = forces`, then as `produceFc`
    match s.o.dataset with
    | none => (s, .err .noDataset)
    | some ds =>
      let h1 := s.h.write ds (F.setF f (s.h.cells ds))
      fin (setDMIfMasses F (h1.alloc (F.produce false (h1.cells ds)) true .fc) { s.o with fc := some h1.next })
  | .symmetrizeFc level => inPlace F s (F.sym level)
  | .symmetrizeFcSpaceGroup =>
    -- `set_tensor_symmetry_PJ` indexes a full array: a compact one raises IndexError before anything is written
    match s.o.fc with
    | none => (s, .err .noFc)
    | some a => if F.isCompact (s.h.cells a) then (s, .err .notFull) else inPlace F s F.symSG
  | .cutoff r => inPlace F s (F.cut r)
  | .setNac a =>
    match a with
    | none => fin (setDMIfFc F s.h { s.o with nac := none })
    | some r =>
      if r < s.h.next ∧ s.h.kind r = .nac then fin (setDMIfFc F s.h { s.o with nac := some r })
      else (s, .err .badRef)
  | .setMasses m => fin (setDMIfFc F s.h { s.o with masses := some m })
  | .setDataset a =>
    match a with
    | none => (⟨s.h, { s.o with dataset := none, disps := none }⟩, .ok)
    | some r =>
      if r < s.h.next ∧ s.h.kind r = .ds then
        (⟨s.h.alloc (s.h.cells r) true .ds, { s.o with dataset := some s.h.next, disps := none }⟩, .ok)
      else (s, .err .badRef)
  | .copy => (s, .copied (Obj.init s.o.masses s.o.fsf s.o.gvDeltaQ))
  | .callerMutates a v =>
    if a < s.h.next then (⟨s.h.write a v, s.o⟩, .ok) else (s, .err .badRef)
  | .query .freq =>
    match s.o.dm, s.o.masses with
    | some d, some m =>
      let d' := touchGonze s.h d
      let gv := s.o.gv.map fun g => if g.dm.id = d.id then ({ g with dm := d' } : GVObj) else g
      (⟨s.h, { s.o with dm := some d', gv := gv }⟩, .phonons { ph := phononsOf s.h d' m, gv := none })
    | _, _ => (s, .err .noDM)
  | .query .freqGV =>
    match s.o.dm, s.o.masses with
    | some d, some m =>
      -- if self._group_velocity is None: self._set_group_velocity()
      let g : GVObj := gvOr s.o.gv d s.o.gvDeltaQ
      let gd := touchGonze s.h g.dm
      let d' := if g.dm.id = d.id then gd else touchGonze s.h d
      (⟨s.h, { s.o with dm := some d', gv := some { g with dm := gd } }⟩,
        .phonons { ph := phononsOf s.h d' m, gv := some (phononsOf s.h gd m) })
    | _, _ => (s, .err .noDM)
  | .query (.run .mesh) =>
    match s.o.dm, s.o.masses with
    | some d, some m =>
      let d' := touchGonze s.h d
      let gv := s.o.gv.map fun g => if g.dm.id = d.id then ({ g with dm := d' } : GVObj) else g
      (⟨s.h, { s.o with dm := some d', gv := gv, mesh := some (phononsOf s.h d' m) }⟩,
        .phonons { ph := phononsOf s.h d' m, gv := none })
    | _, _ => (s, .err .noDM)
  | .query (.run .band) =>
    match s.o.dm, s.o.masses with
    | some d, some m =>
      let d' := touchGonze s.h d
      let gv := s.o.gv.map fun g => if g.dm.id = d.id then ({ g with dm := d' } : GVObj) else g
      (⟨s.h, { s.o with dm := some d', gv := gv, band := some (phononsOf s.h d' m) }⟩,
        .phonons { ph := phononsOf s.h d' m, gv := none })
    | _, _ => (s, .err .noDM)
  | .query (.run .tp) =>
    -- `ThermalProperties(self._mesh, …)`: computed from the stored mesh object
    match s.o.mesh with
    | none => (s, .err .noMesh)
    | some p => (⟨s.h, { s.o with tp := some p }⟩, .phonons { ph := p, gv := none })
  | .query (.run .dos) =>
    match s.o.mesh with
    | none => (s, .err .noMesh)
    | some p => (⟨s.h, { s.o with dos := some p }⟩, .phonons { ph := p, gv := none })
  | .query (.get d) => (s, .snap (s.o.derivedGet d))
  | .query .getFc => (s, .ref s.o.fc (s.o.fc.map s.h.cells))
  | .query .getNac => (s, .ref s.o.nac (s.o.nac.map s.h.cells))
  | .query .getMasses => (s, .val s.o.masses)
  | .query .getDataset => (s, .ref s.o.dataset (s.o.dataset.map s.h.cells))
  | .query .getDisps =>
    match s.o.dataset with
    | none => (s, .val none)
    | some ds =>
      match s.o.disps with
      | some v => (s, .val (some v))
      | none =>
        (⟨s.h, { s.o with disps := some (F.dispOf (s.h.cells ds)) }⟩, .val (some (F.dispOf (s.h.cells ds))))

def run (F : Fns) : St → List Op → St
  | s, [] => s
  | s, op :: ops => run F (step F s op).1 ops

/-- outputs along a history -/
def outs (F : Fns) : St → List Op → List Out
  | _, [] => []
  | s, op :: ops => (step F s op).2 :: outs F (step F s op).1 ops

def Heap.empty : Heap := { cells := fun _ => 0, own := fun _ => false, kind := fun _ => .fc, next := 0, ids := 0 }

def St.init (masses : Option Val) (fsf : Bool := false) (gvDeltaQ : Option Val := none) : St :=
  ⟨Heap.empty, Obj.init masses fsf gvDeltaQ⟩

/-! ### specification: a freshly constructed object -/

structure Spec where
  fc : Option Val
  nac : Option Val
  masses : Option Val
  dataset : Option Val
  fsf : Bool
  /-- which `run_*` have been executed on the object (a fresh object is compared after the same) -/
  ran : Derived → Bool := fun _ => false

def abs (s : St) : Spec :=
  { fc := s.o.fc.map s.h.cells, nac := s.o.nac.map s.h.cells, masses := s.o.masses,
    dataset := s.o.dataset.map s.h.cells, fsf := s.o.fsf, ran := fun d => (s.o.derivedGet d).isSome }

/-- a fresh object (constructed with the same options) given force constants `fc` -/
def specPhonons (F : Fns) (fsf : Bool) (fc : Val) (nac : Option Val) (m : Val) : Phonons :=
  { cls := clsOf F nac, fc := if fsf then F.scale fc else fc, nac := nac.map F.symNac, masses := m }

def specQuery (F : Fns) (sp : Spec) : Query → Obs
  | .freq =>
    match sp.fc, sp.masses with
    | some fc, some m => .phonons { ph := specPhonons F sp.fsf fc sp.nac m, gv := none }
    | _, _ => .err .noDM
  | .freqGV =>
    match sp.fc, sp.masses with
    | some fc, some m => .phonons { ph := specPhonons F sp.fsf fc sp.nac m, gv := some (specPhonons F sp.fsf fc sp.nac m) }
    | _, _ => .err .noDM
  | .run .mesh | .run .band =>
    match sp.fc, sp.masses with
    | some fc, some m => .phonons { ph := specPhonons F sp.fsf fc sp.nac m, gv := none }
    | _, _ => .err .noDM
  | .run .tp | .run .dos =>
    -- a fresh object on which `run_mesh` was (not) run before
    match sp.ran .mesh, sp.fc, sp.masses with
    | true, some fc, some m => .phonons { ph := specPhonons F sp.fsf fc sp.nac m, gv := none }
    | _, _, _ => .err .noMesh
  | .get d =>
    match sp.ran d, sp.fc, sp.masses with
    | true, some fc, some m => .snap (some (specPhonons F sp.fsf fc sp.nac m))
    | _, _, _ => .snap none
  | .getFc => .val sp.fc
  | .getNac => .val sp.nac
  | .getMasses => .val sp.masses
  | .getDataset => .val sp.dataset
  | .getDisps => .val (sp.dataset.map F.dispOf)

/-- queries that read a stored result object instead of the dynamical matrix -/
def Query.readsDerived : Query → Bool
  | .run .tp | .run .dos | .get _ => true
  | _ => false

/-- the arrays an object can reach -/
def Obj.refs (o : Obj) : List ArrRef :=
  o.fc.toList ++ o.nac.toList ++ o.dataset.toList ++ (o.dm.map (·.fcRef)).toList
    ++ (o.gv.map (·.dm.fcRef)).toList

/-- the arrays an operation names explicitly -/
def Op.named : Op → List ArrRef
  | .setFc a => [a]
  | .setNac (some a) => [a]
  | .setDataset (some a) => [a]
  | .callerMutates a _ => [a]
  | _ => []

/-- digest of the observable state, printed by the driver -/
def St.digest (s : St) : String :=
  let so (x : Option Nat) : String := match x with | none => "-" | some v => toString v
  let dm : String := match s.o.dm with
    | none => "-"
    | some d => (match d.cls with | .plain => "plain" | .wang => "wang" | .gl => "gl") ++ ":" ++
        toString (s.h.cells d.fcRef) ++ ":" ++ so d.nac ++ ":" ++ so d.gonze ++
        (if s.o.fc = some d.fcRef then ":same" else ":other")
  let gv : String := match s.o.gv, s.o.dm with
    | none, _ => "-"
    | some g, some d => if g.dm = d then "cur" else "stale"
    | some _, none => "stale"
  "fc=" ++ so (s.o.fc.map s.h.cells) ++ " nac=" ++ so (s.o.nac.map s.h.cells) ++ " m=" ++ so s.o.masses ++
    " ds=" ++ so (s.o.dataset.map s.h.cells) ++ " disps=" ++ so s.o.disps ++ " dm=" ++ dm ++ " gv=" ++ gv ++
    " fcref=" ++ so s.o.fc ++ " dq=" ++ so s.o.gvDeltaQ ++ " gvq=" ++
      (match s.o.gv with
        | none => "-"
        | some g => (match g.qLength, g.dm.cls with
          | some q, _ => toString q
          | none, .gl => "default"
          | none, _ => "analytic")) ++ " derived=" ++
      ",".intercalate ([Derived.mesh, .band, .tp, .dos].map fun d => match s.o.derivedGet d with
        | none => "-"
        | some p => (match p.cls with | .plain => "plain" | .wang => "wang" | .gl => "gl") ++ ":" ++ toString p.fc ++ ":" ++
            so p.nac ++ ":" ++ toString p.masses)

end PhononModel.Api
