/-
Core-only basics shared by all models: finite sums as folds (so the models are
executable at `Rat`), tabulation (memoisation) of finite functions, and nothing
from Mathlib.
-/
namespace PhononModel

/-- `sumFin n f = f 0 + (f 1 + (… + 0))` — the executable finite sum used by every model. -/
def sumFin {α : Type} [Add α] [OfNat α 0] (n : Nat) (f : Fin n → α) : α :=
  ((List.finRange n).map f).foldr (· + ·) 0

/-! ### materialisation

A model is a composition of pure functions on `Fin`-indexed families.  Evaluating such a
composition naively recomputes inner stages once per lookup (a function-valued definition is
compiled with all its arguments, so nothing is shared).  The drivers therefore evaluate stage
by stage through `freeze`/`thaw`; `thaw_freeze` (and `stage_spec`) show that this is
extensionally the identity, so the staged evaluator computes exactly the model. -/

def freeze1 {β : Type} {m : Nat} (f : Fin m → β) : Array β := Array.ofFn f
def thaw1 {β : Type} {m : Nat} (A : Array β) (d : β) : Fin m → β := fun i => A.getD i.1 d

theorem thaw1_freeze1 {β : Type} {m : Nat} (f : Fin m → β) (d : β) : thaw1 (freeze1 f) d = f := by
  funext i; simp [thaw1, freeze1]

abbrev Frozen4 (α : Type) := Array (Array (Array (Array α)))

def freeze4 {a b c d : Nat} {α : Type} (Φ : Fin a → Fin b → Fin c → Fin d → α) : Frozen4 α :=
  freeze1 fun i => freeze1 fun j => freeze1 fun k => freeze1 fun l => Φ i j k l

def thaw4 {a b c d : Nat} {α : Type} [OfNat α 0] (A : Frozen4 α) : Fin a → Fin b → Fin c → Fin d → α :=
  fun i j k l => thaw1 (thaw1 (thaw1 (thaw1 A #[] i) #[] j) #[] k) 0 l

theorem thaw4_freeze4 {a b c d : Nat} {α : Type} [OfNat α 0] (Φ : Fin a → Fin b → Fin c → Fin d → α) :
    thaw4 (freeze4 Φ) = Φ := by
  funext i j k l; simp [thaw4, freeze4, thaw1_freeze1]

/-- run one model stage on materialised data -/
def stage4 {a b c d a' b' c' d' : Nat} {α : Type} [OfNat α 0]
    (f : (Fin a → Fin b → Fin c → Fin d → α) → (Fin a' → Fin b' → Fin c' → Fin d' → α))
    (A : Frozen4 α) : Frozen4 α :=
  freeze4 (f (thaw4 A))

theorem stage4_spec {a b c d a' b' c' d' : Nat} {α : Type} [OfNat α 0]
    (f : (Fin a → Fin b → Fin c → Fin d → α) → (Fin a' → Fin b' → Fin c' → Fin d' → α))
    (A : Frozen4 α) : thaw4 (stage4 f A) = f (thaw4 A) := by
  simp [stage4, thaw4_freeze4]

/-- Force constants in the full layout `fc[i][j][k][l]`. -/
abbrev FC (n : Nat) (α : Type) := Fin n → Fin n → Fin 3 → Fin 3 → α
/-- Force constants in the compact layout `fc[i_p][j][k][l]`. -/
abbrev CFC (np ns : Nat) (α : Type) := Fin np → Fin ns → Fin 3 → Fin 3 → α

end PhononModel
