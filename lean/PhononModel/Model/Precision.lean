import PhononModel.Model.Basic
/-!
Decimal print / parse of the text files (property C16): `"%W.kf" % x` as rounding to `k`
decimal places, and the width of the printed field.

Source anchors (tied by the correspondence run of `./check C16`, not by proof):
* C `printf("%.kf")` as used by every writer of `phonopy/interface/phonopy_yaml.py`,
  `phonopy/structure/atoms.py: get_yaml_lines`, `phonopy/file_IO.py` (exactly rounded decimal
  conversion of the binary value, ties to even)                                      ↦ `printK`
* `float(text)`, `np.loadtxt`, PyYAML float constructor (exact value of the decimal
  text, then rounded to binary64 — the last step is outside the model)               ↦ `parseK`
* fields written back to back without separator, `("%15.8f" * 6)` in
  `file_IO._get_FORCE_SETS_lines_type2`, `("%22.15f" * 3)` in `get_FORCE_CONSTANTS_lines` ↦ `fits`
-/
namespace PhononModel.Prec

/-- the integer `m` such that the printed text is `m · 10⁻ᵏ` (round half to even) -/
def printK (k : Nat) (x : Rat) : Int :=
  let r := x * (10 : Rat) ^ k
  let f := r.floor
  let d := r - f
  if d < 1 / 2 then f
  else if 1 / 2 < d then f + 1
  else if f % 2 = 0 then f else f + 1

/-- the exact value of the printed decimal text -/
def parseK (k : Nat) (m : Int) : Rat := (m : Rat) / (10 : Rat) ^ k

/-- number of decimal digits of a natural number (`0 ↦ 1`); structural recursion on fuel -/
def digitsFuel : Nat → Nat → Nat
  | 0, _ => 1
  | f + 1, n => if n < 10 then 1 else 1 + digitsFuel f (n / 10)

def digits (n : Nat) : Nat := digitsFuel n n

/-- length of the text of `"%.kf" % x` (k ≥ 1): sign, integer digits, point, k decimals -/
def printedLen (k : Nat) (x : Rat) : Nat :=
  let m := printK k x
  (if x < 0 then 1 else 0) + digits (m.natAbs / 10 ^ k) + 1 + k

/-- `"%W.kf"` leaves at least one blank in front of the number, so that fields written back
to back stay separated -/
def fits (W k : Nat) (x : Rat) : Bool := printedLen k x < W

end PhononModel.Prec
