import PhononModel.Model.Basic
/-!
Model of phonopy's traditional finite-displacement force-constant solver (property C01).

Source anchors (tied by the correspondence run of `./check C01`, not by proof):
* `harmonic/force_constants.py: get_rotated_displacement`       ↦ `rotDisps`   (rows `R_s·u_k`, row index `(k, s)`)
* `harmonic/force_constants.py: _get_rotated_forces` applied to
  `forces[rot_map_syms[:, i]]`                                    ↦ `rotForces`  (rows `forces_k[ρ_s i]·R_sᵀ`)
* `np.linalg.pinv(rot_disps)`                                     ↦ `pinvOf (inv3 (gram U)) U`, the normal-equation
  left inverse `(UᵀU)⁻¹Uᵀ` with an adjugate 3×3 inverse; equal to the SVD pseudo-inverse exactly when `U`
  has full column rank.  `det (UᵀU) = 0` is modelled as the error `none` (numpy would silently return the
  minimum-norm solution; theorem `C01.design_never_underdetermined` shows the branch is unreachable for phonopy's own
  displacements).
* `_solve_force_constants_svd` (`fc[i] = -pinv(U)·F_i`)           ↦ `solveRows`
* `solve_force_constants` + `_get_force_constants_disps`          ↦ `rowIndex`, `fcDisps`
  (`RuntimeError` when the displaced atom is not in `atom_list` ↦ `none`)
* `_get_sym_mappings_from_permutations`                           ↦ `symMapOf`, `symMappings`
  (first operation in list order that sends the atom into the done set; `ValueError` ↦ `none`;
  `map_atoms a = permutations[map_syms a][a]`)
* `distribute_force_constants` → `c/phonopy.c: distribute_fc2`    ↦ `revIdx`, `rotBlock`, `distribute`
  (`atom_list_reverse` ↦ `revIdx`; reading an entry of `atom_list_reverse` that was never written ↦ `none`)
* `distribute_force_constants_by_translations`                    ↦ second stage of `runTwoStage`
* `FDFCSolver._run`, branch `else` (full: `atom_list = range(n)`; compact: `atom_list = p2s_map`) ↦ `runDirect`
* `FDFCSolver._run`, branch `atom_list is None and primitive is not None`                          ↦ `runTwoStage`

The C loop of `distribute_fc2` updates `fc2` in place.  Rows that are read (`fc_indices_of_atom_list[
atom_list_reverse[atom_done]]`, atoms that map to themselves) are never written, and each written row
belongs to one loop index when `fc_indices_of_atom_list` is injective, so the loop is the closed form
`distribute` below.  That claim is exactly what the correspondence compares.

Cartesian rotations, `rot_map_syms`, the atom permutation table and the data set are inputs (they come
from spglib-derived tables and float similarity transforms); the theorems of `Props/C01` state the
relations they must satisfy and the driver evaluates the discrete ones (`siteCert`, `doneCert`) on
the implementation's own tables for every case.
-/
namespace PhononModel.FD

abbrev Vec3 (α : Type) := Fin 3 → α
abbrev Mat3 (α : Type) := Fin 3 → Fin 3 → α
/-- `fc[r][j][a][b]` with `M` stored rows (`M = n`: full layout, `M = n_prim`: compact layout) -/
abbrev Rows (M n : Nat) (α : Type) := Fin M → Fin n → Fin 3 → Fin 3 → α

section algebra
variable {α : Type} [Add α] [Sub α] [Neg α] [Mul α] [Div α] [OfNat α 0]

def det3 (M : Mat3 α) : α :=
  M 0 0 * (M 1 1 * M 2 2 - M 1 2 * M 2 1) - M 0 1 * (M 1 0 * M 2 2 - M 1 2 * M 2 0)
    + M 0 2 * (M 1 0 * M 2 1 - M 1 1 * M 2 0)

/-- adjugate by cyclic cofactors (indices in `Fin 3` wrap around) -/
def adj3 (M : Mat3 α) : Mat3 α :=
  fun a b => M (b + 1) (a + 1) * M (b + 2) (a + 2) - M (b + 1) (a + 2) * M (b + 2) (a + 1)

def inv3 (M : Mat3 α) : Mat3 α := fun a b => adj3 M a b / det3 M

/-- `get_rotated_displacement`: `np.dot(sym, u)` for every displacement `k` and site operation `s`. -/
def rotDisps {nd m : Nat} (R : Fin m → Mat3 α) (u : Fin nd → Vec3 α) : Fin nd → Fin m → Vec3 α :=
  fun k s a => sumFin 3 fun b => R s a b * u k b

/-- `np.dot(forces[rot_map_syms[s, i]], sym_cart.T)` for every force set `k` and site operation `s`. -/
def rotForces {n nd m : Nat} (R : Fin m → Mat3 α) (rho : Fin m → Fin n → Fin n)
    (F : Fin nd → Fin n → Vec3 α) (i : Fin n) : Fin nd → Fin m → Vec3 α :=
  fun k s b => sumFin 3 fun c => F k (rho s i) c * R s b c

/-- `UᵀU` -/
def gram {nd m : Nat} (U : Fin nd → Fin m → Vec3 α) : Mat3 α :=
  fun a b => sumFin nd fun k => sumFin m fun s => U k s a * U k s b

/-- `Ginv · Uᵀ` -/
def pinvOf {nd m : Nat} (Ginv : Mat3 α) (U : Fin nd → Fin m → Vec3 α) : Fin 3 → Fin nd → Fin m → α :=
  fun a k s => sumFin 3 fun b => Ginv a b * U k s b

/-- `-np.dot(inv_displacements, combined_forces)` -/
def applyPinv {nd m : Nat} (P : Fin 3 → Fin nd → Fin m → α) (G : Fin nd → Fin m → Vec3 α) : Mat3 α :=
  fun a b => -(sumFin nd fun k => sumFin m fun s => P a k s * G k s b)

/-- `_solve_force_constants_svd`: the rows `fc[a, i]`, all `i`, for one displaced atom. -/
def solveRows [DecidableEq α] {n nd m : Nat} (R : Fin m → Mat3 α) (rho : Fin m → Fin n → Fin n)
    (u : Fin nd → Vec3 α) (F : Fin nd → Fin n → Vec3 α) : Option (Fin n → Mat3 α) :=
  if det3 (gram (rotDisps R u)) = 0 then none
  else some fun i => applyPinv (pinvOf (inv3 (gram (rotDisps R u))) (rotDisps R u)) (rotForces R rho F i)

/-- `P' = R⁻¹ P R` of `distribute_fc2`: `Σ_l Σ_m R[l][j]·R[m][k]·B[l][m]`. -/
def rotBlock (R B : Mat3 α) : Mat3 α :=
  fun j k => sumFin 3 fun l => sumFin 3 fun m => R l j * R m k * B l m

end algebra

/-- what `_get_force_constants_disps` collects for one displaced atom -/
structure AtomData (n : Nat) (α : Type) where
  atom : Fin n
  nd : Nat
  m : Nat
  /-- `site_sym_cart` -/
  R : Fin m → Mat3 α
  /-- `rot_map_syms` -/
  rho : Fin m → Fin n → Fin n
  /-- displacements of this atom -/
  u : Fin nd → Vec3 α
  /-- the force sets belonging to them -/
  F : Fin nd → Fin n → Vec3 α

section pipeline
variable {α : Type} [Add α] [Sub α] [Neg α] [Mul α] [Div α] [OfNat α 0] [DecidableEq α]

/-- `np.where(disp_atom_number == atom_list)[0][0]` -/
def rowIndex {M n : Nat} (atomList : Fin M → Fin n) (a : Fin n) : Option (Fin M) :=
  (List.finRange M).find? fun r => atomList r = a

/-- `_get_force_constants_disps`: solved rows are written into the zero-initialised array. -/
def fcDisps {M n : Nat} (atomList : Fin M → Fin n) : List (AtomData n α) → Rows M n α → Option (Rows M n α)
  | [], fc => some fc
  | D :: rest, fc =>
    match rowIndex atomList D.atom, solveRows D.R D.rho D.u D.F with
    | some r, some rows => fcDisps atomList rest (fun r' => if r' = r then rows else fc r')
    | _, _ => none

/-- first operation (list order) that sends `a` into the done set -/
def symMapOf {n nrot : Nat} (perms : Fin nrot → Fin n → Fin n) (done : List (Fin n)) (a : Fin n) :
    Option (Fin nrot) :=
  (List.finRange nrot).find? fun g => done.contains (perms g a)

/-- `_get_sym_mappings_from_permutations` (`map_syms`; `map_atoms a = perms (map_syms a) a`) -/
def symMappings {n nrot : Nat} (perms : Fin nrot → Fin n → Fin n) (done : List (Fin n)) :
    Option (Fin n → Fin nrot) :=
  if h : ∀ a : Fin n, (symMapOf perms done a).isSome = true then
    some fun a => (symMapOf perms done a).get (h a)
  else none

/-- `atom_list_reverse[d]`: the last position `i` of `atom_list` with `atom_list[i] = d` and
`map_atoms[atom_list[i]] = atom_list[i]`; `none` where the C array is never written. -/
def revIdx {M n : Nat} (targets : Fin M → Fin n) (mapAtoms : Fin n → Fin n) (d : Fin n) : Option (Fin M) :=
  ((List.finRange M).filter fun i => targets i = d ∧ mapAtoms (targets i) = targets i).getLast?

/-- `distribute_force_constants` / `distribute_fc2` with `atom_list = targets`,
`fc_indices_of_atom_list = fcIdx`. -/
def distribute {M Mr n nrot : Nat} (targets : Fin M → Fin n) (fcIdx : Fin M → Fin Mr)
    (R : Fin nrot → Mat3 α) (perms : Fin nrot → Fin n → Fin n) (mapSyms : Fin n → Fin nrot)
    (fc : Rows Mr n α) : Option (Rows Mr n α) :=
  let mapAtoms : Fin n → Fin n := fun a => perms (mapSyms a) a
  if (List.finRange M).all fun i =>
      decide (mapAtoms (targets i) = targets i) || (revIdx targets mapAtoms (mapAtoms (targets i))).isSome then
    some fun r j a b => fc r j a b + sumFin M fun i =>
      if fcIdx i = r ∧ mapAtoms (targets i) ≠ targets i then
        match revIdx targets mapAtoms (mapAtoms (targets i)) with
        | some ri => rotBlock (R (mapSyms (targets i))) (fc (fcIdx ri) (perms (mapSyms (targets i)) j)) a b
        | none => 0
      else 0
  else none

/-- `FDFCSolver._run`, `else` branch: `atomList = id` is the full layout, `atomList = p2s_map` the compact one. -/
def runDirect {M n nrot : Nat} (atomList : Fin M → Fin n) (R : Fin nrot → Mat3 α)
    (perms : Fin nrot → Fin n → Fin n) (data : List (AtomData n α)) : Option (Rows M n α) :=
  match fcDisps atomList data (fun _ _ _ _ => 0) with
  | none => none
  | some fc0 =>
    match symMappings perms (data.map (·.atom)) with
    | none => none
    | some ms => distribute atomList id R perms ms fc0

/-- `FDFCSolver._run`, branch `atom_list is None and primitive is not None`: distribute to the atoms of the
primitive cell with the space group, then to all atoms with the pure translations of the primitive cell
(`distribute_force_constants_by_translations`: `RT`, `permsT`, done set `p2s_map`). -/
def runTwoStage {np n nrot nt : Nat} (p2s : Fin np → Fin n) (R : Fin nrot → Mat3 α)
    (perms : Fin nrot → Fin n → Fin n) (RT : Fin nt → Mat3 α) (permsT : Fin nt → Fin n → Fin n)
    (data : List (AtomData n α)) : Option (Rows n n α) :=
  match fcDisps id data (fun _ _ _ _ => 0) with
  | none => none
  | some fc0 =>
    match symMappings perms (data.map (·.atom)) with
    | none => none
    | some ms =>
      match distribute p2s p2s R perms ms fc0 with
      | none => none
      | some fc1 =>
        match symMappings permsT ((List.finRange np).map p2s) with
        | none => none
        | some mt => distribute id id RT permsT mt fc1

/-! ### executable certificates on the implementation's tables -/

/-- no two different atoms of the done set are related by a listed operation (so every done atom maps to
itself in `_get_sym_mappings_from_permutations`, whatever the order of the list) -/
def doneCert {n nrot : Nat} (perms : Fin nrot → Fin n → Fin n) (done : List (Fin n)) : Bool :=
  done.all fun d => (List.finRange nrot).all fun g => !(done.contains (perms g d)) || perms g d == d

/-- site operation `s` of the displaced atom is the listed operation `ops s`: same Cartesian matrix,
fixes the atom, and `rot_map_syms[s]` is the inverse of its atom permutation. -/
def siteCert {n nrot : Nat} (R : Fin nrot → Mat3 α) (perms : Fin nrot → Fin n → Fin n)
    (D : AtomData n α) (ops : Fin D.m → Fin nrot) : Bool :=
  (List.finRange D.m).all fun s =>
    perms (ops s) D.atom == D.atom &&
    (List.finRange n).all (fun i => perms (ops s) (D.rho s i) == i) &&
    (List.finRange 3).all fun a => (List.finRange 3).all fun b => decide (D.R s a b = R (ops s) a b)

end pipeline

/-! ### staged evaluation for the driver

Function-valued definitions recompute their inner stages on every lookup, so the driver materialises
each stage.  `Props/C01` proves that every staged evaluator equals the model (`*_spec`). -/

/-- an array of exactly `n` entries -/
abbrev Tab (n : Nat) (β : Type) := { A : Array β // A.size = n }

def tab {n : Nat} {β : Type} (f : Fin n → β) : Tab n β := ⟨Array.ofFn f, Array.size_ofFn⟩
def Tab.read {n : Nat} {β : Type} (A : Tab n β) : Fin n → β := fun i => A.1[i.1]'(by rw [A.2]; exact i.2)

theorem read_tab {n : Nat} {β : Type} (f : Fin n → β) : (tab f).read = f := by
  funext i; simp [Tab.read, tab]

abbrev Tab2 (a b : Nat) (β : Type) := Tab a (Tab b β)
abbrev Tab3 (a b c : Nat) (β : Type) := Tab a (Tab b (Tab c β))
abbrev Tab4 (a b c d : Nat) (β : Type) := Tab a (Tab b (Tab c (Tab d β)))

def tab2 {a b : Nat} {β : Type} (f : Fin a → Fin b → β) : Tab2 a b β := tab fun i => tab (f i)
def Tab2.read {a b : Nat} {β : Type} (A : Tab2 a b β) : Fin a → Fin b → β := fun i => (Tab.read A i).read
def tab3 {a b c : Nat} {β : Type} (f : Fin a → Fin b → Fin c → β) : Tab3 a b c β := tab fun i => tab2 (f i)
def Tab3.read {a b c : Nat} {β : Type} (A : Tab3 a b c β) : Fin a → Fin b → Fin c → β :=
  fun i => Tab2.read (Tab.read A i)
def tab4 {a b c d : Nat} {β : Type} (f : Fin a → Fin b → Fin c → Fin d → β) : Tab4 a b c d β :=
  tab fun i => tab3 (f i)
def Tab4.read {a b c d : Nat} {β : Type} (A : Tab4 a b c d β) : Fin a → Fin b → Fin c → Fin d → β :=
  fun i => Tab3.read (Tab.read A i)

theorem read_tab2 {a b : Nat} {β : Type} (f : Fin a → Fin b → β) : Tab2.read (tab2 f) = f := by
  funext i; simp [Tab2.read, tab2, read_tab]
theorem read_tab3 {a b c : Nat} {β : Type} (f : Fin a → Fin b → Fin c → β) : Tab3.read (tab3 f) = f := by
  funext i; simp [Tab3.read, tab3, read_tab, read_tab2]
theorem read_tab4 {a b c d : Nat} {β : Type} (f : Fin a → Fin b → Fin c → Fin d → β) :
    Tab4.read (tab4 f) = f := by
  funext i; simp [Tab4.read, tab4, read_tab, read_tab3]

section staged
variable {α : Type} [Add α] [Sub α] [Neg α] [Mul α] [Div α] [OfNat α 0] [DecidableEq α]

def solveRowsT {n nd m : Nat} (R : Fin m → Mat3 α) (rho : Fin m → Fin n → Fin n)
    (u : Fin nd → Vec3 α) (F : Fin nd → Fin n → Vec3 α) : Option (Tab3 n 3 3 α) :=
  let U := tab3 (rotDisps R u)
  let G := tab2 (gram U.read)
  if det3 G.read = 0 then none
  else
    let Gi := tab2 (inv3 G.read)
    let P := tab3 (pinvOf Gi.read U.read)
    some (tab3 fun i => applyPinv P.read (rotForces R rho F i))

def fcDispsT {M n : Nat} (atomList : Fin M → Fin n) : List (AtomData n α) → Tab4 M n 3 3 α → Option (Tab4 M n 3 3 α)
  | [], fc => some fc
  | D :: rest, fc =>
    match rowIndex atomList D.atom, solveRowsT D.R D.rho D.u D.F with
    | some r, some rows => fcDispsT atomList rest (tab4 fun r' => if r' = r then rows.read else fc.read r')
    | _, _ => none

def distributeT {M Mr n nrot : Nat} (targets : Fin M → Fin n) (fcIdx : Fin M → Fin Mr)
    (R : Fin nrot → Mat3 α) (perms : Fin nrot → Fin n → Fin n) (mapSyms : Fin n → Fin nrot)
    (fc : Tab4 Mr n 3 3 α) : Option (Tab4 Mr n 3 3 α) :=
  let ms := tab mapSyms
  (distribute targets fcIdx R perms ms.read fc.read).map tab4

def runDirectT {M n nrot : Nat} (atomList : Fin M → Fin n) (R : Fin nrot → Mat3 α)
    (perms : Fin nrot → Fin n → Fin n) (data : List (AtomData n α)) : Option (Tab4 M n 3 3 α) :=
  match fcDispsT atomList data (tab4 fun _ _ _ _ => 0) with
  | none => none
  | some fc0 =>
    match symMappings perms (data.map (·.atom)) with
    | none => none
    | some ms => distributeT atomList id R perms ms fc0

def runTwoStageT {np n nrot nt : Nat} (p2s : Fin np → Fin n) (R : Fin nrot → Mat3 α)
    (perms : Fin nrot → Fin n → Fin n) (RT : Fin nt → Mat3 α) (permsT : Fin nt → Fin n → Fin n)
    (data : List (AtomData n α)) : Option (Tab4 n n 3 3 α) :=
  match fcDispsT id data (tab4 fun _ _ _ _ => 0) with
  | none => none
  | some fc0 =>
    match symMappings perms (data.map (·.atom)) with
    | none => none
    | some ms =>
      match distributeT p2s p2s R perms ms fc0 with
      | none => none
      | some fc1 =>
        match symMappings permsT ((List.finRange np).map p2s) with
        | none => none
        | some mt => distributeT id id RT permsT mt fc1

end staged

end PhononModel.FD
