import PhononModel.Model.Basic
import PhononModel.Model.DynmatToFc
/-!
Model of the non-analytical term correction (property C08).

Source anchors (tied by the correspondence run of `./check C08`, not by proof):
* `c/dynmat.c: get_q_cart`                          ↦ `qCart`
* `c/dynmat.c: get_dielectric_part`                 ↦ `dielectricPart`
* `c/dynmat.c: dym_get_charge_sum`                  ↦ `chargeSum`
* `c/dynmat.c: get_dm` with `charge_sum`            ↦ `dynmatRawCS`
* `c/dynmat.c: get_dynmat_want` (zone-centre switch, `nac_factor / n / dielectric_part`)
    and `DynamicalMatrixNAC.run`, `QpointsPhonon._get_dynamical_matrix` ↦ `nacVector`, `wangDynmat`
* `c/dynmat.c: get_dd` (the `KK` tensors), `get_dd_at_g`     ↦ `kkTensor`, `getDD`
* `c/dynmat.c: multiply_borns(_at_ij)`                         ↦ `multiplyBorns`
* `c/dynmat.c: dym_get_recip_dipole_dipole`                    ↦ `recipDD`
* `c/dynmat.c: dym_get_recip_dipole_dipole_q0`                 ↦ `ddQ0`
* `c/dynmat.c: add_dynmat_dd_at_q` + `dym_get_dynamical_matrix_at_q` (Gonze–Lee) ↦ `glDynmat`
* `structure/symmetry.py: _take_average_of_borns`             ↦ `avgBorns`, `sumRule`, `symBorns`
* `structure/symmetry.py: _symmetrize_2nd_rank_tensor`        ↦ `symTensor`

`exp(−K·ε·K / 4Λ²)` and all phase factors are parameters (the values the code computed).
Tolerance comparisons `sqrt(x) < tol` are modelled as `x < tol²` (exact; generators keep a margin).
-/
namespace PhononModel.C08
open PhononModel PhononModel.C06

abbrev V3 (α : Type) := Fin 3 → α
abbrev T3 (α : Type) := Fin 3 → Fin 3 → α

variable {α : Type} [Add α] [Sub α] [Neg α] [Mul α] [Div α] [OfNat α 0] [OfNat α 2] [NatCast α]

/-- `get_q_cart`: `rec · q` (reciprocal lattice in column vectors) -/
def qCart (rec : T3 α) (q : V3 α) : V3 α := fun i => sumFin 3 fun j => rec i j * q j

def normSq (q : V3 α) : α := sumFin 3 fun i => q i * q i

/-- `get_dielectric_part`: `q · ε · q` -/
def dielectricPart (q : V3 α) (eps : T3 α) : α :=
  sumFin 3 fun i => sumFin 3 fun j => q i * eps i j * q j

/-- `q_born[i][a] = Σ_k q[k] born[i][k][a]` -/
def qBorn {np : Nat} (q : V3 α) (born : Fin np → T3 α) (i : Fin np) : V3 α :=
  fun a => sumFin 3 fun k => q k * born i k a

/-- `dym_get_charge_sum` -/
def chargeSum {np : Nat} (factor : α) (q : V3 α) (born : Fin np → T3 α) : Fin np → Fin np → T3 α :=
  fun i j a b => qBorn q born i a * qBorn q born j b * factor

/-- `get_dynmat_ij`/`get_dm` with the constant `charge_sum[i][j]` added to every block of the
lattice sum (Wang); no Hermitisation yet. -/
def dynmatRawCS {np ns nr : Nat} (T : FTables np ns nr) (fc : Fin nr → Fin ns → Fin 3 → Fin 3 → α)
    (ms : Fin np → Fin np → α) (ph : Phases np ns α) (cs : Fin np → Fin np → T3 α) : DM np α :=
  fun i a j b =>
    ⟨(sumFin ns fun k => if T.s2p k = (T.p2s j).1 then (fc (T.p2s i) k a b + cs i j a b) * (avgDivEach (ph k i)).re else 0) / ms i j,
     (sumFin ns fun k => if T.s2p k = (T.p2s j).1 then (fc (T.p2s i) k a b + cs i j a b) * (avgDivEach (ph k i)).im else 0) / ms i j⟩

/-- the vector that enters the non-analytical term, or `none` when no correction is applied:
zone centre (`|q_cart| < tol`) ⇒ the direction if one is given; elsewhere ⇒ `q_cart` itself
(the direction is ignored). -/
def nacVector [LT α] [DecidableRel (α := α) (· < ·)] (qc : V3 α) (dir : Option (V3 α)) (tolSq : α) : Option (V3 α) :=
  if normSq qc < tolSq then dir else some qc

/-- the constant of Wang's method: `charge_sum` with factor `nac_factor / n / (v·ε·v)` -/
def wangChargeSum {np : Nat} (nacFactor : α) (n : Nat) (v : V3 α) (eps : T3 α) (born : Fin np → T3 α) :
    Fin np → Fin np → T3 α :=
  chargeSum (nacFactor / (n : α) / dielectricPart v eps) v born

/-- `get_dynmat_want`; `n = num_satom / num_patom`. -/
def wangDynmat [LT α] [DecidableRel (α := α) (· < ·)] {np ns nr : Nat} (T : FTables np ns nr)
    (fc : Fin nr → Fin ns → Fin 3 → Fin 3 → α) (ms : Fin np → Fin np → α) (ph : Phases np ns α)
    (nacFactor : α) (qc : V3 α) (dir : Option (V3 α)) (tolSq : α) (eps : T3 α) (born : Fin np → T3 α) : DM np α :=
  match nacVector qc dir tolSq with
  | none => dynmat T fc ms ph
  | some v => hermitize (dynmatRawCS T fc ms ph (wangChargeSum nacFactor (ns / np) v eps born))

/-! ### Gonze–Lee, reciprocal part -/

/-- the tensor `KK[g]` of `get_dd` for `K = G + q`; `expv = exp(−K·ε·K / (4Λ²))`. -/
def kkTensor [LT α] [DecidableRel (α := α) (· < ·)] (G qc : V3 α) (dir : Option (V3 α)) (eps : T3 α)
    (tolSq : α) (expv : α) : T3 α :=
  let K : V3 α := fun i => G i + qc i
  if normSq K < tolSq then
    match dir with
    | none => fun _ _ => 0
    | some d => fun a b => d a * d b / dielectricPart d eps
  else fun a b => K a * K b / dielectricPart K eps * expv

/-- second loop of `get_dd` (`get_dd_at_g`): `Σ_G KK[G] · exp(2πi (x_i − x_j)·G)`;
`ph g i j` is that phase factor. -/
def getDDOf {np nG : Nat} (KK : Fin nG → T3 α) (ph : Fin nG → Fin np → Fin np → Cx α) : DM np α :=
  fun i a j b =>
    ⟨sumFin nG fun g => KK g a b * (ph g i j).re, sumFin nG fun g => KK g a b * (ph g i j).im⟩

/-- `get_dd` -/
def getDD [LT α] [DecidableRel (α := α) (· < ·)] {np nG : Nat} (G : Fin nG → V3 α) (qc : V3 α)
    (dir : Option (V3 α)) (eps : T3 α) (tolSq : α) (expv : Fin nG → α)
    (ph : Fin nG → Fin np → Fin np → Cx α) : DM np α :=
  getDDOf (fun g => kkTensor (G g) qc dir eps tolSq (expv g)) ph

/-- `multiply_borns`: `dd[i a, j b] = Σ_{a' b'} dd_in[i a', j b'] Z_i[a'][a] Z_j[b'][b]` -/
def multiplyBorns {np : Nat} (born : Fin np → T3 α) (dd : DM np α) : DM np α :=
  fun i a j b =>
    ⟨sumFin 3 fun a' => sumFin 3 fun b' => (dd i a' j b').re * (born i a' a * born j b' b),
     sumFin 3 fun a' => sumFin 3 fun b' => (dd i a' j b').im * (born i a' a * born j b' b)⟩

/-- `dym_get_recip_dipole_dipole` after `get_dd`: Born-weighted sum, minus `dd_q0` on the
diagonal blocks, times `factor`. -/
def recipDDOf {np : Nat} (ddpart : DM np α) (born : Fin np → T3 α)
    (ddq0 : Fin np → Fin 3 → Fin 3 → Cx α) (factor : α) : DM np α :=
  fun i a j b =>
    let z := multiplyBorns born ddpart i a j b
    if i = j then ⟨(z.re - (ddq0 i a b).re) * factor, (z.im - (ddq0 i a b).im) * factor⟩
    else ⟨z.re * factor, z.im * factor⟩

/-- `dym_get_recip_dipole_dipole` -/
def recipDD [LT α] [DecidableRel (α := α) (· < ·)] {np nG : Nat} (G : Fin nG → V3 α) (qc : V3 α)
    (dir : Option (V3 α)) (eps : T3 α) (born : Fin np → T3 α) (tolSq : α) (expv : Fin nG → α)
    (ph : Fin nG → Fin np → Fin np → Cx α) (ddq0 : Fin np → Fin 3 → Fin 3 → Cx α) (factor : α) : DM np α :=
  recipDDOf (getDD G qc dir eps tolSq expv ph) born ddq0 factor

/-- `dym_get_recip_dipole_dipole_q0` after `get_dd`/`multiply_borns`: sum over the second atom,
then the in-place (anti)symmetrisation loop, whose net effect is `re ← (re + reᵀ)/2`,
`im ← (im − imᵀ)/2`. -/
def ddQ0Of {np : Nat} (dd : DM np α) : Fin np → Fin 3 → Fin 3 → Cx α :=
  let s : Fin np → Fin 3 → Fin 3 → Cx α := fun i a b =>
    ⟨sumFin np fun j => (dd i a j b).re, sumFin np fun j => (dd i a j b).im⟩
  fun i a b => ⟨((s i a b).re + (s i b a).re) / 2, ((s i a b).im - (s i b a).im) / 2⟩

/-- `dym_get_recip_dipole_dipole_q0`: the `q = 0` term without direction. -/
def ddQ0 [LT α] [DecidableRel (α := α) (· < ·)] {np nG : Nat} (G : Fin nG → V3 α) (eps : T3 α)
    (born : Fin np → T3 α) (tolSq : α) (expv : Fin nG → α) (ph : Fin nG → Fin np → Fin np → Cx α) :
    Fin np → Fin 3 → Fin 3 → Cx α :=
  ddQ0Of (multiplyBorns born (getDD G (fun _ => 0) none eps tolSq expv ph))

/-- `add_dynmat_dd_at_q`: `D += dd / sqrt(m_i m_j)` -/
def addDD {np : Nat} (D dd : DM np α) (ms : Fin np → Fin np → α) : DM np α :=
  fun i a j b => ⟨(D i a j b).re + (dd i a j b).re / ms i j, (D i a j b).im + (dd i a j b).im / ms i j⟩

/-- Gonze–Lee dynamical matrix: short-range force constants + reciprocal dipole–dipole part. -/
def glDynmat [LT α] [DecidableRel (α := α) (· < ·)] {np ns nr nG : Nat} (T : FTables np ns nr)
    (fcSR : Fin nr → Fin ns → Fin 3 → Fin 3 → α) (ms : Fin np → Fin np → α) (ph : Phases np ns α)
    (G : Fin nG → V3 α) (qc : V3 α) (dir : Option (V3 α)) (eps : T3 α) (born : Fin np → T3 α)
    (tolSq : α) (expv : Fin nG → α) (phG : Fin nG → Fin np → Fin np → Cx α)
    (ddq0 : Fin np → Fin 3 → Fin 3 → Cx α) (factor : α) : DM np α :=
  addDD (dynmat T fcSR ms ph) (recipDD G qc dir eps born tolSq expv phG ddq0 factor) ms

/-! ### the list of reciprocal vectors (`DynamicalMatrixGL._get_G_list`) -/

/-- `_get_G_vec_list` index triples: `np.ndindex((2r+1,)*3) − r`, last index fastest -/
def gIndices (r : Nat) : List (Int × Int × Int) :=
  (List.range (2 * r + 1)).flatMap fun (a : Nat) => (List.range (2 * r + 1)).flatMap fun (b : Nat) =>
    (List.range (2 * r + 1)).map fun (c : Nat) => (Int.ofNat a - Int.ofNat r, Int.ofNat b - Int.ofNat r, Int.ofNat c - Int.ofNat r)

/-- `G = rec · n` (reciprocal lattice in column vectors) -/
def gVec [IntCast α] (rec : T3 α) (n : Int × Int × Int) : V3 α :=
  fun i => rec i 0 * (n.1 : α) + rec i 1 * (n.2.1 : α) + rec i 2 * (n.2.2 : α)

/-- `_get_G_list(G_cutoff)` for index radius `r`: the grid points with `|G|² < G_cutoff²`, as index triples -/
def gList [IntCast α] [LT α] [DecidableRel (α := α) (· < ·)] (rec : T3 α) (cutoffSq : α) (r : Nat) :
    List (Int × Int × Int) :=
  (gIndices r).filter fun n => decide (normSq (gVec rec n) < cutoffSq)

/-- `_get_minimum_g_rad(G_cutoff, g_rad)` **as found before /repo ce56bcc** (kept for the recorded
counterexample `minGRad_insufficient`; the current routine is `safeGRad`): the largest `g ≤ g_rad` such that `g · |rec·(a,b,c)| < G_cutoff` for
one of the 26 neighbour combinations, plus one (`g_rad` itself if there is none); squared form. -/
def minGRad [IntCast α] [LT α] [DecidableRel (α := α) (· < ·)] (rec : T3 α) (cutoffSq : α) (gRad : Nat) : Nat :=
  let nb : List (Int × Int × Int) := (gIndices 1).filter fun n => n != (0, 0, 0)
  let ok : Nat → Bool := fun g => nb.any fun n => decide (normSq (gVec rec n) * ((g : α) * (g : α)) < cutoffSq)
  match ((List.range gRad).map fun k => gRad - k).find? ok with
  | some g => g + 1
  | none => gRad

/-- the index radius `⌊G_cutoff · max|a_i|⌋ + 1` (squared form: the least `k ≥ 1` with
`max|a_i|² · G_cutoff² < k²`; `cap` if there is none below it) — `_get_minimum_g_rad` as it is now in /repo (fix ce56bcc). -/
def safeGRad [LT α] [DecidableRel (α := α) (· < ·)] (cell : T3 α) (cutoffSq : α) (cap : Nat) : Nat :=
  match ((List.range cap).map fun (k : Nat) => k + 1).find? (fun (k : Nat) =>
      (List.finRange 3).all fun i => decide (normSq (cell i) * cutoffSq < (k : α) * (k : α))) with
  | some k => k
  | none => cap

/-- certificate for a list of reciprocal vectors: `nu` pairs every vector with its negative -/
def gListWf {nG : Nat} [BEq α] (G : Fin nG → V3 α) (nu : Fin nG → Fin nG) : Bool :=
  (List.finRange nG).all fun g => nu (nu g) == g && (List.finRange 3).all fun i => G (nu g) i == -G g i

/-! ### staged evaluators for the driver (`Props/C08` proves them equal to the model) -/

/-- default element for `thaw4` (only used out of range, i.e. never) -/
@[reducible] def cxZero : OfNat (Cx α) 0 := ⟨⟨0, 0⟩⟩
attribute [local instance] cxZero

/-- staged `getDD`-then-`recipDDOf`, returning data (each stage is materialised once) -/
def recipDDF [LT α] [DecidableRel (α := α) (· < ·)] {np nG : Nat} (G : Fin nG → V3 α) (qc : V3 α)
    (dir : Option (V3 α)) (eps : T3 α) (born : Fin np → T3 α) (tolSq : α) (expv : Fin nG → α)
    (ph : Fin nG → Fin np → Fin np → Cx α) (ddq0 : Fin np → Fin 3 → Fin 3 → Cx α) (factor : α) :
    Frozen4 (Cx α) :=
  let KK : Frozen4 α := freeze4 (fun g a b (_ : Fin 1) => kkTensor (G g) qc dir eps tolSq (expv g) a b)
  let A : Frozen4 (Cx α) := freeze4 (getDDOf (nG := nG) (fun g a b => thaw4 (d := 1) KK g a b 0) ph)
  freeze4 (recipDDOf (np := np) (thaw4 A) born ddq0 factor)

def ddQ0F [LT α] [DecidableRel (α := α) (· < ·)] {np nG : Nat} (G : Fin nG → V3 α) (eps : T3 α)
    (born : Fin np → T3 α) (tolSq : α) (expv : Fin nG → α) (ph : Fin nG → Fin np → Fin np → Cx α) :
    Frozen4 (Cx α) :=
  let KK : Frozen4 α := freeze4 (fun g a b (_ : Fin 1) => kkTensor (G g) (fun _ => 0) none eps tolSq (expv g) a b)
  let A : Frozen4 (Cx α) := freeze4 (getDDOf (nG := nG) (fun g a b => thaw4 (d := 1) KK g a b 0) ph)
  let B : Frozen4 (Cx α) := freeze4 (multiplyBorns (np := np) born (thaw4 A))
  freeze4 (fun i a b (_ : Fin 1) => ddQ0Of (np := np) (thaw4 B) i a b)

def glDynmatF [LT α] [DecidableRel (α := α) (· < ·)] {np ns nr nG : Nat} (T : FTables np ns nr)
    (fcSR : Fin nr → Fin ns → Fin 3 → Fin 3 → α) (ms : Fin np → Fin np → α) (ph : Phases np ns α)
    (G : Fin nG → V3 α) (qc : V3 α) (dir : Option (V3 α)) (eps : T3 α) (born : Fin np → T3 α)
    (tolSq : α) (expv : Fin nG → α) (phG : Fin nG → Fin np → Fin np → Cx α)
    (ddq0 : Fin np → Fin 3 → Fin 3 → Cx α) (factor : α) : Frozen4 (Cx α) :=
  let D : Frozen4 (Cx α) := freeze4 (dynmatRaw T fcSR ms ph)
  let B : Frozen4 (Cx α) := recipDDF G qc dir eps born tolSq expv phG ddq0 factor
  freeze4 (addDD (np := np) (hermitize (thaw4 D)) (thaw4 B) ms)

/-! ### symmetrisation of Born charges and dielectric tensor -/

def matMul3 (A B : T3 α) : T3 α := fun a b => sumFin 3 fun c => A a c * B c b

/-- `similarity_transformation(R, Z) = R Z R⁻¹` (`Rinv` is the inverse the code computed) -/
def similarity (R Rinv Z : T3 α) : T3 α := matMul3 (matMul3 R Z) Rinv

/-- group average of `_take_average_of_borns`: atom `perm g i` is the one mapped onto `i`. -/
def avgBorns {n ng : Nat} (R Rinv : Fin ng → T3 α) (perm : Fin ng → Fin n → Fin n)
    (Z : Fin n → T3 α) : Fin n → T3 α :=
  fun i a b => (sumFin ng fun g => similarity (R g) (Rinv g) (Z (perm g i)) a b) / (ng : α)

/-- sum rule: subtract the mean over the atoms -/
def sumRule {n : Nat} (Z : Fin n → T3 α) : Fin n → T3 α :=
  fun i a b => Z i a b - (sumFin n fun j => Z j a b) / (n : α)

def symBorns {n ng : Nat} (R Rinv : Fin ng → T3 α) (perm : Fin ng → Fin n → Fin n)
    (Z : Fin n → T3 α) : Fin n → T3 α := sumRule (avgBorns R Rinv perm Z)

/-- `_symmetrize_2nd_rank_tensor` -/
def symTensor {ng : Nat} (R Rinv : Fin ng → T3 α) (E : T3 α) : T3 α :=
  fun a b => (sumFin ng fun g => similarity (R g) (Rinv g) E a b) / (ng : α)

/-- executable certificate of the operation tables (integer rotations `r`, atom maps `perm`,
multiplication table `mul`): `mul h g` is an operation whose rotation is `r h · r g` and whose
atom map is `perm g ∘ perm h`; left multiplication is injective; atom maps are injective. -/
def groupWf {n ng : Nat} (r : Fin ng → C06.Mat3) (perm : Fin ng → Fin n → Fin n)
    (mul : Fin ng → Fin ng → Fin ng) : Bool :=
  decide (0 < ng) &&
  (List.finRange ng).all (fun h => (List.finRange ng).all fun g =>
    r (mul h g) == C06.matMul (r h) (r g) &&
    (List.finRange n).all fun i => perm (mul h g) i == perm g (perm h i)) &&
  (List.finRange ng).all (fun h => (List.finRange ng).all fun g => (List.finRange ng).all fun g' =>
    (mul h g != mul h g') || g == g') &&
  (List.finRange ng).all (fun g => (List.finRange n).all fun i => (List.finRange n).all fun j =>
    (perm g i != perm g j) || i == j)

end PhononModel.C08
