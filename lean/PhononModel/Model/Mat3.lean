import PhononModel.Model.Basic
/-!
# 3-vectors and 3×3 matrices as plain structures (shared by the C04 / C05 models)

Matrices are records of nine scalars, not functions: every operation evaluates its operands
once, so chains of row operations (the Smith-normal-form loop) run in linear time.
Scalars are a parameter with the core classes only; the models use `Int` and `Rat`,
the theorems `CommRing`/`Field`.
-/
namespace PhononModel

@[ext] structure V3 (α : Type) where
  x : α
  y : α
  z : α
deriving DecidableEq, Repr, Inhabited

@[ext] structure M3 (α : Type) where
  a00 : α
  a01 : α
  a02 : α
  a10 : α
  a11 : α
  a12 : α
  a20 : α
  a21 : α
  a22 : α
deriving DecidableEq, Repr, Inhabited

namespace V3
variable {α : Type}

def get (v : V3 α) : Fin 3 → α
  | 0 => v.x
  | 1 => v.y
  | 2 => v.z

def ofFn (f : Fin 3 → α) : V3 α := ⟨f 0, f 1, f 2⟩
def map {β : Type} (f : α → β) (v : V3 α) : V3 β := ⟨f v.x, f v.y, f v.z⟩
def toList (v : V3 α) : List α := [v.x, v.y, v.z]

def add [Add α] (a b : V3 α) : V3 α := ⟨a.x + b.x, a.y + b.y, a.z + b.z⟩
def sub [Sub α] (a b : V3 α) : V3 α := ⟨a.x - b.x, a.y - b.y, a.z - b.z⟩
def neg [Neg α] (a : V3 α) : V3 α := ⟨-a.x, -a.y, -a.z⟩
def smul [Mul α] (c : α) (a : V3 α) : V3 α := ⟨c * a.x, c * a.y, c * a.z⟩
def dot [Add α] [Mul α] (a b : V3 α) : α := a.x * b.x + a.y * b.y + a.z * b.z
def zero [OfNat α 0] : V3 α := ⟨0, 0, 0⟩

instance [Add α] : Add (V3 α) := ⟨add⟩
instance [Sub α] : Sub (V3 α) := ⟨sub⟩
instance [Neg α] : Neg (V3 α) := ⟨neg⟩
end V3

namespace M3
variable {α : Type}

def get (m : M3 α) : Fin 3 → Fin 3 → α
  | 0, 0 => m.a00 | 0, 1 => m.a01 | 0, 2 => m.a02
  | 1, 0 => m.a10 | 1, 1 => m.a11 | 1, 2 => m.a12
  | 2, 0 => m.a20 | 2, 1 => m.a21 | 2, 2 => m.a22

def ofFn (f : Fin 3 → Fin 3 → α) : M3 α :=
  ⟨f 0 0, f 0 1, f 0 2, f 1 0, f 1 1, f 1 2, f 2 0, f 2 1, f 2 2⟩

def map {β : Type} (f : α → β) (m : M3 α) : M3 β :=
  ⟨f m.a00, f m.a01, f m.a02, f m.a10, f m.a11, f m.a12, f m.a20, f m.a21, f m.a22⟩

def toList (m : M3 α) : List α := [m.a00, m.a01, m.a02, m.a10, m.a11, m.a12, m.a20, m.a21, m.a22]

def row (m : M3 α) : Fin 3 → V3 α
  | 0 => ⟨m.a00, m.a01, m.a02⟩
  | 1 => ⟨m.a10, m.a11, m.a12⟩
  | 2 => ⟨m.a20, m.a21, m.a22⟩

def col (m : M3 α) : Fin 3 → V3 α
  | 0 => ⟨m.a00, m.a10, m.a20⟩
  | 1 => ⟨m.a01, m.a11, m.a21⟩
  | 2 => ⟨m.a02, m.a12, m.a22⟩

def ofRows (r0 r1 r2 : V3 α) : M3 α := ⟨r0.x, r0.y, r0.z, r1.x, r1.y, r1.z, r2.x, r2.y, r2.z⟩

def transpose (m : M3 α) : M3 α :=
  ⟨m.a00, m.a10, m.a20, m.a01, m.a11, m.a21, m.a02, m.a12, m.a22⟩

def one [OfNat α 0] [OfNat α 1] : M3 α := ⟨1, 0, 0, 0, 1, 0, 0, 0, 1⟩
def diag [OfNat α 0] (a b c : α) : M3 α := ⟨a, 0, 0, 0, b, 0, 0, 0, c⟩

def mul [Add α] [Mul α] (a b : M3 α) : M3 α :=
  ⟨a.a00 * b.a00 + a.a01 * b.a10 + a.a02 * b.a20,
   a.a00 * b.a01 + a.a01 * b.a11 + a.a02 * b.a21,
   a.a00 * b.a02 + a.a01 * b.a12 + a.a02 * b.a22,
   a.a10 * b.a00 + a.a11 * b.a10 + a.a12 * b.a20,
   a.a10 * b.a01 + a.a11 * b.a11 + a.a12 * b.a21,
   a.a10 * b.a02 + a.a11 * b.a12 + a.a12 * b.a22,
   a.a20 * b.a00 + a.a21 * b.a10 + a.a22 * b.a20,
   a.a20 * b.a01 + a.a21 * b.a11 + a.a22 * b.a21,
   a.a20 * b.a02 + a.a21 * b.a12 + a.a22 * b.a22⟩

instance [Add α] [Mul α] : Mul (M3 α) := ⟨mul⟩

def smul [Mul α] (c : α) (m : M3 α) : M3 α := m.map (c * ·)
def neg [Neg α] (m : M3 α) : M3 α := m.map (- ·)

/-- the determinant, written as `phonopy.structure.cells.determinant` / `SNF3x3._det` expand it -/
def det [Add α] [Sub α] [Mul α] (m : M3 α) : α :=
  m.a00 * (m.a11 * m.a22 - m.a12 * m.a21)
  + m.a01 * (m.a12 * m.a20 - m.a10 * m.a22)
  + m.a02 * (m.a10 * m.a21 - m.a11 * m.a20)

/-- adjugate: `m * adj m = det m • 1` -/
def adj [Sub α] [Mul α] (m : M3 α) : M3 α :=
  ⟨m.a11 * m.a22 - m.a12 * m.a21, m.a02 * m.a21 - m.a01 * m.a22, m.a01 * m.a12 - m.a02 * m.a11,
   m.a12 * m.a20 - m.a10 * m.a22, m.a00 * m.a22 - m.a02 * m.a20, m.a02 * m.a10 - m.a00 * m.a12,
   m.a10 * m.a21 - m.a11 * m.a20, m.a01 * m.a20 - m.a00 * m.a21, m.a00 * m.a11 - m.a01 * m.a10⟩

/-- `M v` (column vector) -/
def mulVec [Add α] [Mul α] (m : M3 α) (v : V3 α) : V3 α :=
  ⟨m.a00 * v.x + m.a01 * v.y + m.a02 * v.z,
   m.a10 * v.x + m.a11 * v.y + m.a12 * v.z,
   m.a20 * v.x + m.a21 * v.y + m.a22 * v.z⟩

/-- `v M` (row vector) — numpy's `np.dot(v, M)` -/
def vecMul [Add α] [Mul α] (v : V3 α) (m : M3 α) : V3 α :=
  ⟨v.x * m.a00 + v.y * m.a10 + v.z * m.a20,
   v.x * m.a01 + v.y * m.a11 + v.z * m.a21,
   v.x * m.a02 + v.y * m.a12 + v.z * m.a22⟩

/-- inverse over a field: adjugate divided by the determinant (`np.linalg.inv`) -/
def inv [Add α] [Sub α] [Mul α] [Div α] (m : M3 α) : M3 α :=
  let d := m.det
  m.adj.map (· / d)

def isDiag [OfNat α 0] [DecidableEq α] (m : M3 α) : Bool :=
  m.a01 = 0 && m.a02 = 0 && m.a10 = 0 && m.a12 = 0 && m.a20 = 0 && m.a21 = 0

end M3

def intToRat (m : M3 Int) : M3 Rat := m.map (fun (n : Int) => (n : Rat))
def V3.toRat (v : V3 Int) : V3 Rat := v.map (fun (n : Int) => (n : Rat))

end PhononModel
