import PhononModel.Model.Basic
/-!
# Regular q-point grids and their symmetry reduction (property C09)

Executable model on `Int`/`Nat`/`Rat`, core Lean only.  Source anchors (file: function ↦ model):

* spglib 2.7 `kgrid.c`: `kgd_get_all_grid_addresses` / `reduce_grid_address` ↦ `Mesh.addr`
  (x runs fastest, components reduced to `(-m/2, m/2]`), `kgd_get_grid_address_double_mesh` ↦ `Mesh.dbl`,
  `kgd_get_dense_grid_point_double_mesh` ↦ `Mesh.index`.
* spglib 2.7 `kpoint.c`: `get_point_group_reciprocal` ↦ `recOps` (transposes, negatives appended for time
  reversal, first occurrences kept), `get_dense_ir_reciprocal_mesh_distortion` (and `_normal`, on which every
  operation is valid) ↦ `Mesh.image` (an operation is *valid* at a grid point iff the rotated q-point lies on the
  shifted grid: divisibility and parity test), `firstSmaller` / `buildTable` / `Mesh.irTable` (serial build:
  first operation with a smaller valid image, entry copied from that image — chain resolution).
* `phonopy/structure/grid_points.py`: `extract_ir_grid_points` ↦ `extractIr`; `GridPoints._shift2boolean` ↦
  `shift2boolean`; `GridPoints._has_mesh_symmetry` + `symmetry.get_lattice_vector_equivalence` ↦
  `hasMeshSymmetry`/`latticeEquiv`; `GridPoints._set_ir_qpoints` ↦ `setIrQpoints`; `GridPoints.__init__`
  (incl. the generic-shift path) ↦ `gridPoints`; `length2mesh` ↦ `length2mesh` (the products
  `|a*_k|·length` are inputs: `sqrt` is not modelled).
* weighted mesh sums (`thermal_properties.py`, `dos.py` smearing) ↦ `weightedSum`; `phonon/moment.py:
  PhononMoment._get_moment` ↦ `moment` / `powerSum`.

`fit_in_BZ` relocation (float geometry in spglib `relocate_BZ_grid_address` and
`get_qpoints_in_Brillouin_zone`) is not modelled: q-points are the unrelocated ones.
-/
namespace PhononModel.Grid

structure V3 (α : Type) where
  x : α
  y : α
  z : α
deriving DecidableEq, Repr, Inhabited

abbrev IV := V3 Int

/-- integer 3×3 matrix by rows -/
structure M3 where
  r0 : IV
  r1 : IV
  r2 : IV
deriving DecidableEq, Repr, Inhabited

def dot (a b : IV) : Int := a.x * b.x + a.y * b.y + a.z * b.z

def M3.mulVec (R : M3) (v : IV) : IV := ⟨dot R.r0 v, dot R.r1 v, dot R.r2 v⟩

def M3.transpose (R : M3) : M3 :=
  ⟨⟨R.r0.x, R.r1.x, R.r2.x⟩, ⟨R.r0.y, R.r1.y, R.r2.y⟩, ⟨R.r0.z, R.r1.z, R.r2.z⟩⟩

def IV.neg (v : IV) : IV := ⟨-v.x, -v.y, -v.z⟩
def M3.neg (R : M3) : M3 := ⟨R.r0.neg, R.r1.neg, R.r2.neg⟩
def M3.one : M3 := ⟨⟨1, 0, 0⟩, ⟨0, 1, 0⟩, ⟨0, 0, 1⟩⟩

/-- action of a reciprocal operation on a q-point in reduced coordinates -/
def M3.act (R : M3) (q : V3 Rat) : V3 Rat :=
  ⟨(R.r0.x : Rat) * q.x + (R.r0.y : Rat) * q.y + (R.r0.z : Rat) * q.z,
   (R.r1.x : Rat) * q.x + (R.r1.y : Rat) * q.y + (R.r1.z : Rat) * q.z,
   (R.r2.x : Rat) * q.x + (R.r2.y : Rat) * q.y + (R.r2.z : Rat) * q.z⟩

/-- translation by a reciprocal lattice vector -/
def V3.addInt (q : V3 Rat) (n : IV) : V3 Rat := ⟨q.x + (n.x : Rat), q.y + (n.y : Rat), q.z + (n.z : Rat)⟩

/-- spglib `get_point_group_reciprocal`: reciprocal operations are the transposes of the direct-space
rotations; with time reversal their negatives are appended; duplicates are dropped keeping the first. -/
def recOps (rots : List M3) (tr : Bool) : List M3 :=
  let t := rots.map M3.transpose
  (if tr then t ++ t.map M3.neg else t).eraseDups

/-! ### the mesh -/

structure Mesh where
  m : V3 Nat
  s : V3 Bool
deriving DecidableEq, Repr

def b2i (b : Bool) : Int := if b then 1 else 0

def Mesh.N (G : Mesh) : Nat := G.m.x * G.m.y * G.m.z

/-- `reduce_grid_address`: `a -= m * (a > m / 2)` -/
def reduce1 (m a : Nat) : Int := if a > m / 2 then (a : Int) - (m : Int) else (a : Int)

/-- address of grid point `i` (x fastest) -/
def Mesh.addr (G : Mesh) (i : Nat) : IV :=
  ⟨reduce1 G.m.x (i % G.m.x), reduce1 G.m.y (i / G.m.x % G.m.y), reduce1 G.m.z (i / (G.m.x * G.m.y))⟩

def Mesh.index (G : Mesh) (a : IV) : Nat :=
  (a.x % (G.m.x : Int)).toNat + G.m.x * ((a.y % (G.m.y : Int)).toNat + G.m.y * (a.z % (G.m.z : Int)).toNat)

def Mesh.sv (G : Mesh) : IV := ⟨b2i G.s.x, b2i G.s.y, b2i G.s.z⟩

/-- doubled address `2a + s` -/
def Mesh.dbl (G : Mesh) (i : Nat) : IV :=
  let a := G.addr i
  ⟨2 * a.x + b2i G.s.x, 2 * a.y + b2i G.s.y, 2 * a.z + b2i G.s.z⟩

/-- q-point of grid point `i`: `(2a + s) / (2 m)` -/
def Mesh.q (G : Mesh) (i : Nat) : V3 Rat :=
  let d := G.dbl i
  ⟨(d.x : Rat) / ((2 * G.m.x : Nat) : Rat), (d.y : Rat) / ((2 * G.m.y : Nat) : Rat), (d.z : Rat) / ((2 * G.m.z : Nat) : Rat)⟩

/-- divisors `N / m_k` used by spglib to rotate on a common denominator -/
def Mesh.div (G : Mesh) : IV := ⟨(G.m.y * G.m.z : Nat), (G.m.z * G.m.x : Nat), (G.m.x * G.m.y : Nat)⟩

/-- rotated doubled address, if the rotated point is on the shifted grid -/
def Mesh.rotDbl (G : Mesh) (R : M3) (i : Nat) : Option IV :=
  let d := G.dbl i
  let v := G.div
  let D' := R.mulVec ⟨d.x * v.x, d.y * v.y, d.z * v.z⟩
  if D'.x % v.x = 0 ∧ D'.y % v.y = 0 ∧ D'.z % v.z = 0 then
    let d' : IV := ⟨D'.x / v.x, D'.y / v.y, D'.z / v.z⟩
    if (d'.x - b2i G.s.x) % 2 = 0 ∧ (d'.y - b2i G.s.y) % 2 = 0 ∧ (d'.z - b2i G.s.z) % 2 = 0 then some d'
    else none
  else none

/-- grid index of the image of grid point `i` under `R`, `none` if `R` is not valid at `i` -/
def Mesh.image (G : Mesh) (R : M3) (i : Nat) : Option Nat :=
  (G.rotDbl R i).map fun d' =>
    G.index ⟨(d'.x - b2i G.s.x) / 2, (d'.y - b2i G.s.y) / 2, (d'.z - b2i G.s.z) / 2⟩

/-- first image (in operation order) that is a smaller index -/
def firstSmaller (i : Nat) : List (Option Nat) → Option Nat
  | [] => none
  | some g :: rest => if g < i then some g else firstSmaller i rest
  | none :: rest => firstSmaller i rest

/-- serial construction of the mapping table: entry `n` is copied from the entry of the first smaller
valid image, or is `n` itself. -/
def buildTable (img : Nat → List (Option Nat)) : Nat → List Nat
  | 0 => []
  | n + 1 =>
    let t := buildTable img n
    t ++ [match firstSmaller n (img n) with
          | some g => t.getD g n
          | none => n]

def Mesh.images (G : Mesh) (ops : List M3) (i : Nat) : List (Option Nat) := ops.map fun R => G.image R i

def Mesh.irTable (G : Mesh) (ops : List M3) : List Nat := buildTable (G.images ops) G.N

def Mesh.irMap (G : Mesh) (ops : List M3) (i : Nat) : Nat := (G.irTable ops).getD i i

/-- reachability through valid images (own inductive: the model imports no Mathlib) -/
inductive Reach (img : Nat → List (Option Nat)) : Nat → Nat → Prop
  | refl (i : Nat) : Reach img i i
  | step {i g r : Nat} : some g ∈ img i → Reach img g r → Reach img i r

/-! ### `extract_ir_grid_points` -/

/-- `np.unique` of the table and the number of occurrences of each value; `none` models the
`IndexError` of `weights[gp] += 1` for an entry outside the table. -/
def extractIr (tab : List Nat) : Option (List Nat × List Nat) :=
  if tab.all (fun g => decide (g < tab.length)) then
    let ir := (List.range tab.length).filter fun u => tab.contains u
    some (ir, ir.map fun u => tab.count u)
  else none

/-- `Σ_k w_k · v_k` as a fold (the mesh quantities of thermal_properties.py / dos.py) -/
def weightedSum {α : Type} [Add α] [Mul α] [OfNat α 0] [NatCast α] (w : List Nat) (v : List α) : α :=
  (List.zipWith (fun (a : Nat) (b : α) => (a : α) * b) w v).foldr (· + ·) 0

/-- plain sum over the full mesh -/
def fullSum {α : Type} [Add α] [OfNat α 0] (n : Nat) (F : Nat → α) : α :=
  ((List.range n).map F).foldr (· + ·) 0

/-! ### phonon state moments (`phonopy/phonon/moment.py: PhononMoment._get_moment`) -/

/-- `x ** k` for a natural exponent -/
def powN {α : Type} [Mul α] [NatCast α] (x : α) : Nat → α
  | 0 => ((1 : Nat) : α)
  | k + 1 => powN x k * x

/-- `Σ_band [fmin < ν < fmax] ν^order` at one q-point -/
def powerSum {α : Type} [Add α] [Mul α] [OfNat α 0] [NatCast α] [LT α] [DecidableRel (fun a b : α => a < b)]
    (order : Nat) (fmin fmax : α) (fs : List α) : α :=
  ((fs.filter fun f => decide (fmin < f) && decide (f < fmax)).map fun f => powN f order).foldr (· + ·) 0

/-- `_get_moment`: `Σ_q w_q Σ_band ν^order / Σ_q w_q Σ_band 1` over the modes inside the frequency window -/
def moment {α : Type} [Add α] [Mul α] [Div α] [OfNat α 0] [NatCast α] [LT α] [DecidableRel (fun a b : α => a < b)]
    (order : Nat) (fmin fmax : α) (w : List Nat) (freqs : List (List α)) : α :=
  weightedSum w (freqs.map (powerSum order fmin fmax)) / weightedSum w (freqs.map (powerSum 0 fmin fmax))

/-! ### `_shift2boolean` -/

def rabs (x : Rat) : Rat := if x < 0 then -x else x

/-- `np.rint`: round half to even -/
def rint (x : Rat) : Int :=
  let f := x.floor
  let r := x - (f : Rat)
  if r < 1 / 2 then f else if 1 / 2 < r then f + 1 else if f % 2 = 0 then f else f + 1

def zeroOrHalf (c : Rat) : Bool := decide (rabs (c * 2 - (rint (c * 2) : Rat)) < 1 / 100)

def isHalf (c : Rat) : Bool := decide (1 / 10 < rabs (c - (rint c : Rat)))

def isShift1 (gamma : Bool) (m : Nat) (c : Rat) : Bool :=
  if gamma then isHalf c else xor (isHalf c) (m % 2 == 0)

def shift2boolean (mesh : V3 Nat) (shift : Option (V3 Rat)) (gamma : Bool) : Option (V3 Bool) :=
  let sh : V3 Rat := shift.getD ⟨0, 0, 0⟩
  if zeroOrHalf sh.x && zeroOrHalf sh.y && zeroOrHalf sh.z then
    some ⟨isShift1 gamma mesh.x sh.x, isShift1 gamma mesh.y sh.y, isShift1 gamma mesh.z sh.z⟩
  else none

/-! ### `_has_mesh_symmetry` -/

def absEq (a b c : Int) (p q r : Nat) : Bool := a.natAbs == p && b.natAbs == q && c.natAbs == r

/-- `get_lattice_vector_equivalence` on a list of matrices: `(b==c, c==a, a==b)` -/
def latticeEquiv (ps : List M3) : V3 Bool :=
  ps.foldl (fun (e : V3 Bool) (r : M3) =>
    let c0 := (r.r0.x, r.r1.x, r.r2.x)
    let c1 := (r.r0.y, r.r1.y, r.r2.y)
    let c2 := (r.r0.z, r.r1.z, r.r2.z)
    let e2 := e.z || absEq c0.1 c0.2.1 c0.2.2 0 1 0 || absEq c1.1 c1.2.1 c1.2.2 1 0 0
    let e1 := e.y || absEq c0.1 c0.2.1 c0.2.2 0 0 1 || absEq c2.1 c2.2.1 c2.2.2 1 0 0
    let e0 := e.x || absEq c1.1 c1.2.1 c1.2.2 0 0 1 || absEq c2.1 c2.2.1 c2.2.2 0 1 0
    ⟨e0, e1, e2⟩) ⟨false, false, false⟩

def hasMeshSymmetry (mesh : V3 Nat) (rots : Option (List M3)) : Bool :=
  match rots with
  | none => false
  | some rs =>
    let le := latticeEquiv (rs.map M3.transpose)
    (!le.x || mesh.y == mesh.z) && (!le.y || mesh.z == mesh.x) && (!le.z || mesh.x == mesh.y)

/-! ### the constructor -/

structure GridResult where
  isShift : V3 Bool
  table : List Nat
  ir : List Nat
  weights : List Nat
  qpoints : List (V3 Rat)
deriving Repr, DecidableEq

inductive GridErr
  | zeroMesh
  | badTable
deriving Repr, DecidableEq

/-- `_set_ir_qpoints` with `fit_in_BZ = False` -/
def setIrQpoints (mesh : V3 Nat) (isShift : V3 Bool) (rots : List M3) (tr : Bool) : Except GridErr GridResult :=
  let G : Mesh := ⟨mesh, isShift⟩
  if G.N = 0 then .error .zeroMesh else
  let tab := G.irTable (recOps rots tr)
  match extractIr tab with
  | none => .error .badTable
  | some (ir, w) => .ok ⟨isShift, tab, ir, w, ir.map G.q⟩

/-- `_set_grid_points` -/
def setGridPoints (mesh : V3 Nat) (isShift : V3 Bool) (tr : Bool) (rots : Option (List M3)) (sym : Bool) :
    Except GridErr GridResult :=
  if sym && hasMeshSymmetry mesh rots then setIrQpoints mesh isShift (rots.getD []) tr
  else setIrQpoints mesh isShift [M3.one] tr

def addShift (mesh : V3 Nat) (δ : V3 Rat) (q : V3 Rat) : V3 Rat :=
  ⟨q.x + δ.x / (mesh.x : Rat), q.y + δ.y / (mesh.y : Rat), q.z + δ.z / (mesh.z : Rat)⟩

/-- the generic-shift branch of `GridPoints.__init__` as the code has it: symmetry switched off, base mesh
rebuilt with `_shift2boolean(None)` (Monkhorst–Pack parity, `is_gamma_center` dropped), **time reversal kept**,
then every representative moved by `δ / mesh`. -/
def genericPath (mesh : V3 Nat) (δ : V3 Rat) (tr : Bool) (rots : Option (List M3)) : Except GridErr GridResult :=
  match shift2boolean mesh none false with
  | none => .error .badTable
  | some s0 =>
    match setGridPoints mesh s0 tr rots false with
    | .error e => .error e
    | .ok r => .ok { r with qpoints := r.qpoints.map (addShift mesh δ) }

/-- `GridPoints.__init__` (with `fit_in_BZ = False`; on the generic path the code relocates the q-points into the
Brillouin zone afterwards, which is not modelled) -/
def gridPoints (mesh : V3 Nat) (qshift : Option (V3 Rat)) (gamma tr : Bool) (rots : Option (List M3))
    (sym : Bool) : Except GridErr GridResult :=
  match shift2boolean mesh qshift gamma with
  | some s => setGridPoints mesh s tr rots sym
  | none => genericPath mesh (qshift.getD ⟨0, 0, 0⟩) tr rots

/-! ### the constructor as repaired by `proposed_fixes/c09-*.diff` -/

/-- `_has_mesh_symmetry` repaired: symmetry-equivalent axes must carry equal mesh numbers **and** equal
half-shift flags (otherwise the shifted mesh does not have the symmetry that is handed to spglib). -/
def hasMeshSymmetryFixed (mesh : V3 Nat) (s : V3 Bool) (rots : Option (List M3)) : Bool :=
  match rots with
  | none => false
  | some rs =>
    let le := latticeEquiv (rs.map M3.transpose)
    (!le.x || (mesh.y == mesh.z && s.y == s.z)) && (!le.y || (mesh.z == mesh.x && s.z == s.x)) &&
      (!le.z || (mesh.x == mesh.y && s.x == s.y))

def setGridPointsFixed (mesh : V3 Nat) (isShift : V3 Bool) (tr : Bool) (rots : Option (List M3)) (sym : Bool) :
    Except GridErr GridResult :=
  if sym && hasMeshSymmetryFixed mesh isShift rots then setIrQpoints mesh isShift (rots.getD []) tr
  else setIrQpoints mesh isShift [M3.one] tr

/-- the generic-shift branch repaired: base mesh with the requested centring, no time-reversal reduction
(the partner `-q-δ` of `q+δ` is not on the shifted mesh). -/
def genericPathFixed (mesh : V3 Nat) (δ : V3 Rat) (gamma : Bool) (rots : Option (List M3)) :
    Except GridErr GridResult :=
  match shift2boolean mesh none gamma with
  | none => .error .badTable
  | some s0 =>
    match setGridPointsFixed mesh s0 false rots false with
    | .error e => .error e
    | .ok r => .ok { r with qpoints := r.qpoints.map (addShift mesh δ) }

def gridPointsFixed (mesh : V3 Nat) (qshift : Option (V3 Rat)) (gamma tr : Bool) (rots : Option (List M3))
    (sym : Bool) : Except GridErr GridResult :=
  match shift2boolean mesh qshift gamma with
  | some s => setGridPointsFixed mesh s tr rots sym
  | none => genericPathFixed mesh (qshift.getD ⟨0, 0, 0⟩) gamma rots

/-! ### `length2mesh` -/

def maxI (a b : Int) : Int := if a < b then b else a

/-- the symmetry rounding of `length2mesh`: for each flagged pair of axes whose *initial* mesh numbers differ, both
are set to the larger of the current two (`m[pair] = max(m[pair])`; the equality flags of the mesh are taken once,
before the loop, the mesh is updated pair by pair). `e = (b~c, c~a, a~b)`. -/
def alignMesh (e : V3 Bool) (m0 : IV) : IV :=
  let q0 := decide (m0.y = m0.z)
  let q1 := decide (m0.z = m0.x)
  let q2 := decide (m0.x = m0.y)
  let m1 : IV := if e.x && !q0 then ⟨m0.x, maxI m0.y m0.z, maxI m0.y m0.z⟩ else m0
  let m2 : IV := if e.y && !q1 then ⟨maxI m1.z m1.x, m1.y, maxI m1.z m1.x⟩ else m1
  if e.z && !q2 then ⟨maxI m2.x m2.y, maxI m2.x m2.y, m2.z⟩ else m2

/-- `length2mesh`: `p` holds the products `|a*_k| · length` (`sqrt` is not modelled: the reciprocal lengths are
inputs); `rots` are direct-space rotations. -/
def length2mesh (p : V3 Rat) (rots : Option (List M3)) : V3 Nat :=
  let m0 : IV := ⟨rint p.x, rint p.y, rint p.z⟩
  let m : IV :=
    match rots with
    | none => m0
    | some rs => alignMesh (latticeEquiv (rs.map M3.transpose)) m0
  ⟨(maxI m.x 1).toNat, (maxI m.y 1).toNat, (maxI m.z 1).toNat⟩

/-- `length2mesh(length, lattice, rotations)` with the reciprocal basis lengths `ℓ = (|a*|, |b*|, |c*|)` as parameters -/
def length2meshOf (ℓ : V3 Rat) (len : Rat) (rots : Option (List M3)) : V3 Nat :=
  length2mesh ⟨ℓ.x * len, ℓ.y * len, ℓ.z * len⟩ rots

end PhononModel.Grid
