import PhononModel.Model.Basic
/-!
# Density of states as a weighted double sum (property C11)

Source anchors: `c/phonopy.c: phpy_tetrahedron_method_dos` (`dos[i][k][j][m] += iw * coef[i][m][k]`, summed over
`i` (q-point) and `k` (band) in `phonon/dos.py: run_tetrahedron_method_dos`), `phonon/dos.py:
TotalDos._get_density_of_states_at_freq`, `ProjectedDos._run_smearing_method`
(`np.dot(weights, eigvecs2[:, j, :] * amplitudes).sum()`), `ProjectedDos._run_tetrahedron_method`.
At one frequency point both methods are `Σ_q Σ_band W q band · c q a band`, with `W` the integration weight times
the q-point weight (tetrahedron) or the normalised q-point weight times the smearing function (smearing) and
`c q a band = Σ_{x,y,z} |e_{q,(a,·),band}|²` (or `|e|²` of one Cartesian component); the total DOS has `c = 1`.
-/
namespace PhononModel.Dos

variable {α : Type} [Add α] [Mul α] [OfNat α 0]

def totalDos (nq nb : Nat) (W : Fin nq → Fin nb → α) : α :=
  sumFin nq fun q => sumFin nb fun b => W q b

def projectedDos (nq nb na : Nat) (W : Fin nq → Fin nb → α) (c : Fin nq → Fin na → Fin nb → α) (a : Fin na) : α :=
  sumFin nq fun q => sumFin nb fun b => W q b * c q a b

end PhononModel.Dos
