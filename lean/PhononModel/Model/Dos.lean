import PhononModel.Model.Basic
/-!
# Density of states as a weighted double sum (property C11)

Source anchors: `c/phonopy.c: phpy_tetrahedron_method_dos` (`dos[i][k][j][m] += iw * coef[i][m][k]`, summed over
`i` (q-point) and `k` (band) in `phonon/dos.py: run_tetrahedron_method_dos`), `phonon/dos.py:
TotalDos._get_density_of_states_at_freq`, `ProjectedDos._run_smearing_method`
(`np.dot(weights, eigvecs2[:, j, :] * amplitudes).sum()`), `ProjectedDos._run_tetrahedron_method`.
At one frequency point both methods are `Σ_q Σ_band W q band · c q a band`, with `W` the integration weight times
the q-point weight (tetrahedron) or the normalised q-point weight times the smearing function (smearing) and
`c q a band = Σ_{x,y,z} |e_{q,(a,·),band}|²` (or `|e|²` of one Cartesian component); the total DOS has `c = 1`.
-/
namespace PhononModel.Dos

variable {α : Type} [Add α] [Mul α] [OfNat α 0]

def totalDos (nq nb : Nat) (W : Fin nq → Fin nb → α) : α :=
  sumFin nq fun q => sumFin nb fun b => W q b

def projectedDos (nq nb na : Nat) (W : Fin nq → Fin nb → α) (c : Fin nq → Fin na → Fin nb → α) (a : Fin na) : α :=
  sumFin nq fun q => sumFin nb fun b => W q b * c q a b

/-! ### smearing functions (`phonon/dos.py: NormalDistribution.calc`, `CauchyDistribution.calc`)

`exp`, `sqrt(2π)` and `π` are parameters (non-algebraic): the theorems instantiate them with Mathlib's real
functions, the driver with `Float`. -/

/-- `1.0 / np.sqrt(2 * np.pi) / sigma * np.exp(-(x**2) / 2.0 / sigma**2)` -/
def normalDist {β : Type} [Mul β] [Div β] [Neg β] [OfNat β 1] [OfNat β 2] (exp : β → β) (sqrtTwoPi : β) (σ x : β) : β :=
  1 / sqrtTwoPi / σ * exp (-(x * x) / 2 / (σ * σ))

/-- `gamma / np.pi / (x**2 + gamma**2)` -/
def cauchyDist {β : Type} [Add β] [Mul β] [Div β] (pi : β) (γ x : β) : β :=
  γ / pi / (x * x + γ * γ)

/-- `TotalDos._get_density_of_states_at_freq`: `Σ_q w_q Σ_band δ(ν_{q,band} - ω) / Σ_q w_q` -/
def smearingDos {β : Type} [Add β] [Sub β] [Mul β] [Div β] [OfNat β 0] (nq nb : Nat) (w : Fin nq → β)
    (ν : Fin nq → Fin nb → β) (δ : β → β) (ω : β) : β :=
  (sumFin nq fun q => w q * sumFin nb fun b => δ (ν q b - ω)) / sumFin nq w

/-! ### frequency points (`Dos.set_draw_area`) -/

/-- `np.arange(start, stop, step)` on rationals: `ceil((stop - start) / step)` points `start + i·step` -/
def arange (start stop step : Rat) : List Rat :=
  let n := (-((-((stop - start) / step)).floor)).toNat  -- ceil x = -floor (-x)
  (List.range n).map fun (i : Nat) => start + ((i : Nat) : Rat) * step

/-- `Dos.__init__` + `set_draw_area`: `lo`, `hi` are the extreme frequencies of the mesh; `sigma = None` ↦
`(hi - lo)/100`; missing `freq_min`/`freq_max` ↦ ten sigmas beyond the spectrum; missing pitch ↦ 200 intervals;
points `arange(f_min, f_max + 0.1·pitch, pitch)`. Returns the sigma in use and the points. -/
def frequencyPoints (lo hi : Rat) (sigma freqMin freqMax pitch : Option Rat) : Rat × List Rat :=
  let σ := sigma.getD ((hi - lo) / 100)
  let fmin := freqMin.getD (lo - σ * 10)
  let fmax := freqMax.getD (hi + σ * 10)
  let δ := pitch.getD ((fmax - fmin) / 200)
  (σ, arange fmin (fmax + δ * (1 / 10)) δ)

/-! ### projection coefficients (`ProjectedDos.__init__`): eigenvector components as (re, im) pairs -/

def abs2 {β : Type} [Add β] [Mul β] (z : β × β) : β := z.1 * z.1 + z.2 * z.2

/-- `xyz_projection=True`: `|e_i|²` for each of the 3N Cartesian components -/
def coefXyz {β : Type} [Add β] [Mul β] {n : Nat} (e : Fin n → Fin 3 → β × β) (a : Fin n) (x : Fin 3) : β := abs2 (e a x)

/-- default: `|e_{a,x}|² + |e_{a,y}|² + |e_{a,z}|²` -/
def coefAtom {β : Type} [Add β] [Mul β] {n : Nat} (e : Fin n → Fin 3 → β × β) (a : Fin n) : β :=
  abs2 (e a 0) + abs2 (e a 1) + abs2 (e a 2)

/-- `direction` given (already normalised `d`): `|e_{a,x} d_x + e_{a,y} d_y + e_{a,z} d_z|²` -/
def coefDir {β : Type} [Add β] [Mul β] {n : Nat} (e : Fin n → Fin 3 → β × β) (d : Fin 3 → β) (a : Fin n) : β :=
  abs2 ((e a 0).1 * d 0 + (e a 1).1 * d 1 + (e a 2).1 * d 2, (e a 0).2 * d 0 + (e a 1).2 * d 1 + (e a 2).2 * d 2)

end PhononModel.Dos
