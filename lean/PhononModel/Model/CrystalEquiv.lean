import PhononModel.Model.Basic
/-!
# Crystal equivalence, its executable checker, and the stable grouping by species (C17)

Source anchors
* property C17 "describes the same crystal"                                   ↦ `Equiv`
* `phonopy/interface/vasp.py: sort_positions_by_symbols` (lines 102-155)      ↦ `stableGroup`, `stablePerm`, `firstOccur`
  (`reduced_symbols = list(dict.fromkeys(symbols))` ↦ `firstOccur`;
   `perm = sorted(range(n), key = index in reduced_symbols)` ↦ `stablePerm`)
* the oracle of the C17 check (round trip write → read of every interface)    ↦ `checkEquiv`, `checkEquivWith`

Everything is over `Rat`: the harness sends exact rationals.  Lattices are 3×3 matrices whose
**rows** are the basis vectors (phonopy's convention), positions are fractional.
-/
namespace PhononModel.Crystal

abbrev Mat3 := Fin 3 → Fin 3 → Rat

structure Atom where
  species : Nat
  moment : List Rat
  pos : Rat × Rat × Rat
  deriving DecidableEq, Repr, Inhabited

structure Cell where
  lattice : Mat3
  atoms : List Atom

def mul3 (A B : Mat3) : Mat3 := fun i j => sumFin 3 (fun k => A i k * B k j)

/-- Gram matrix `L Lᵀ` of the basis vectors -/
def gram (L : Mat3) : Mat3 := fun i j => sumFin 3 (fun k => L i k * L j k)

def det3 (L : Mat3) : Rat :=
  L 0 0 * L 1 1 * L 2 2 - L 0 0 * L 1 2 * L 2 1 - L 0 1 * L 1 0 * L 2 2
    + L 0 1 * L 1 2 * L 2 0 + L 0 2 * L 1 0 * L 2 1 - L 0 2 * L 1 1 * L 2 0

/-- `Q Qᵀ = 1` -/
def Orthogonal (Q : Mat3) : Prop :=
  ∀ i j, sumFin 3 (fun k => Q i k * Q j k) = if i = j then 1 else 0

def IntDiff (x y : Rat) : Prop := ∃ z : Int, x - y = (z : Rat)

/-- same species, same moment, fractional positions equal modulo ℤ³ -/
def SameSite (a b : Atom) : Prop :=
  a.species = b.species ∧ a.moment = b.moment ∧
    IntDiff a.pos.1 b.pos.1 ∧ IntDiff a.pos.2.1 b.pos.2.1 ∧ IntDiff a.pos.2.2 b.pos.2.2

/-- the relation holds position by position (lists of equal length) -/
inductive AllPairs {α β : Type} (R : α → β → Prop) : List α → List β → Prop
  | nil : AllPairs R [] []
  | cons {a b l₁ l₂} : R a b → AllPairs R l₁ l₂ → AllPairs R (a :: l₁) (b :: l₂)

/-- the two cells describe the same crystal: lattice equal up to an orthogonal `Q`
(`L₂ = L₁ Q`, rows are vectors), atoms in one-to-one correspondence (a permutation of the
atom list) with the same species/moment at the same fractional position modulo ℤ³. -/
def Equiv (c₁ c₂ : Cell) : Prop :=
  (∃ Q : Mat3, Orthogonal Q ∧ ∀ i j, c₂.lattice i j = mul3 c₁.lattice Q i j) ∧
  ∃ l : List Atom, l.Perm c₁.atoms ∧ AllPairs SameSite l c₂.atoms

/-! ### executable checker -/

def frac (x : Rat) : Rat := x - (x.floor : Rat)

def Atom.key (a : Atom) : Atom :=
  { a with pos := (frac a.pos.1, frac a.pos.2.1, frac a.pos.2.2) }

def ratsLe : List Rat → List Rat → Bool
  | [], _ => true
  | _ :: _, [] => false
  | x :: xs, y :: ys => if x < y then true else if y < x then false else ratsLe xs ys

/-- a total preorder used only to bring both atom lists into a canonical order -/
def Atom.le (a b : Atom) : Bool :=
  if a.species < b.species then true else if b.species < a.species then false else
  ratsLe ([a.pos.1, a.pos.2.1, a.pos.2.2] ++ a.moment) ([b.pos.1, b.pos.2.1, b.pos.2.2] ++ b.moment)

/-- insertion sort (structural recursion, so that the kernel can evaluate the checker) -/
def insertSorted {α : Type} (le : α → α → Bool) (a : α) : List α → List α
  | [] => [a]
  | b :: t => if le a b then a :: b :: t else b :: insertSorted le a t

def isort {α : Type} (le : α → α → Bool) : List α → List α
  | [] => []
  | a :: t => insertSorted le a (isort le t)

def sortedKeys (l : List Atom) : List Atom := isort Atom.le (l.map Atom.key)

def mat3Eq (A B : Mat3) : Bool :=
  (List.finRange 3).all fun i => (List.finRange 3).all fun j => A i j == B i j

/-- checker against a given Gram matrix of the second lattice -/
def checkEquivWith (G₂ : Mat3) (c₁ : Cell) (atoms₂ : List Atom) : Bool :=
  det3 c₁.lattice != 0 && mat3Eq (gram c₁.lattice) G₂ && sortedKeys c₁.atoms == sortedKeys atoms₂

def checkEquiv (c₁ c₂ : Cell) : Bool := checkEquivWith (gram c₂.lattice) c₁ c₂.atoms

/-- the format prescribes no rotation: lattices must be identical -/
def checkSame (c₁ c₂ : Cell) : Bool := mat3Eq c₁.lattice c₂.lattice && checkEquiv c₁ c₂

/-! ### stable grouping by species (`sort_positions_by_symbols`) -/

/-- `list(dict.fromkeys(symbols))` -/
def firstOccur : List Nat → List Nat
  | [] => []
  | s :: t => s :: (firstOccur t).filter (fun x => x != s)

/-- atoms grouped by species in first-occurrence order, original order kept inside a species -/
def stableGroup {β : Type} (l : List (Nat × β)) : List (Nat × β) :=
  (firstOccur (l.map (·.1))).flatMap (fun s => l.filter (fun a => a.1 == s))

/-- the permutation `perm` returned by `sort_positions_by_symbols` -/
def stablePerm (syms : List Nat) : List Nat := (stableGroup (syms.zipIdx)).map (·.2)

/-- `counts_list` -/
def countsList (syms : List Nat) : List Nat := (firstOccur syms).map (fun s => syms.count s)

end PhononModel.Crystal
