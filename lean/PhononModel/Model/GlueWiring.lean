import PhononModel.Gen.GlueShapes
/-!
# C13 — the shape wiring of the glue that the footprint / read models assume

`Gen/GlueShapes.lean` is regenerated from `c/_phonopy.cpp` and `c/phonopy.c` on every run
(`tools/glue2lean.py`).  This file is hand-written: the wiring the models in `KernelFootprint.lean` /
`KernelReads.lean` (and the request builders of the harness) were written against.  `Props/C13.lean`
proves by `decide` that the generated tables equal these; a swapped `shape(k)`, a changed cast type, a changed
NULL condition or a swapped pair of arguments in a `phpy_*` call makes that proof obligation fail.
-/
namespace PhononModel.Footprint

/-- `var = arg.shape(axis)` per kernel -/
def assumedSizeSources : List (String × String × String × Nat) := [
  ("transform_dynmat_to_fc", "num_patom", "py_multi", 1),
  ("transform_dynmat_to_fc", "num_satom", "py_multi", 0),
  ("perm_trans_symmetrize_fc", "n_satom", "py_force_constants", 0),
  ("perm_trans_symmetrize_compact_fc", "n_patom", "py_force_constants", 0),
  ("perm_trans_symmetrize_compact_fc", "n_satom", "py_force_constants", 1),
  ("transpose_compact_fc", "n_patom", "py_force_constants", 0),
  ("transpose_compact_fc", "n_satom", "py_force_constants", 1),
  ("dynamical_matrices_with_dd_openmp_over_qpoints", "n_qpoints", "py_qpoints", 0),
  ("dynamical_matrices_with_dd_openmp_over_qpoints", "n_Gpoints", "py_G_list", 0),
  ("dynamical_matrices_with_dd_openmp_over_qpoints", "num_patom", "py_p2s_map", 0),
  ("dynamical_matrices_with_dd_openmp_over_qpoints", "num_satom", "py_s2p_map", 0),
  ("recip_dipole_dipole", "num_G", "py_G_list", 0),
  ("recip_dipole_dipole", "num_patom", "py_positions", 0),
  ("recip_dipole_dipole_q0", "num_G", "py_G_list", 0),
  ("recip_dipole_dipole_q0", "num_patom", "py_positions", 0),
  ("derivative_dynmat", "num_patom", "py_p2s_map", 0),
  ("derivative_dynmat", "num_satom", "py_s2p_map", 0),
  ("thermal_properties", "num_temp", "py_temperatures", 0),
  ("thermal_properties", "num_qpoints", "py_frequencies", 0),
  ("thermal_properties", "num_bands", "py_frequencies", 1),
  ("distribute_fc2", "len_atom_list", "py_atom_list", 0),
  ("distribute_fc2", "num_rot", "py_permutations", 0),
  ("distribute_fc2", "num_pos", "py_permutations", 1),
  ("compute_permutation", "num_pos", "positions", 0),
  ("gsv_set_smallest_vectors_sparse", "num_pos_to", "py_pos_to", 0),
  ("gsv_set_smallest_vectors_sparse", "num_pos_from", "py_pos_from", 0),
  ("gsv_set_smallest_vectors_sparse", "num_lattice_points", "py_lattice_points", 0),
  ("gsv_set_smallest_vectors_dense", "num_pos_to", "py_pos_to", 0),
  ("gsv_set_smallest_vectors_dense", "num_pos_from", "py_pos_from", 0),
  ("gsv_set_smallest_vectors_dense", "num_lattice_points", "py_lattice_points", 0),
  ("tetrahedra_integration_weight_at_omegas", "num_omegas", "py_omegas", 0),
  ("tetrahedra_frequencies", "num_gp_in", "py_grid_points", 0),
  ("tetrahedra_frequencies", "num_band", "py_frequencies", 1),
  ("tetrahedron_method_dos", "num_freq_points", "py_freq_points", 0),
  ("tetrahedron_method_dos", "num_ir_gp", "py_frequencies", 0),
  ("tetrahedron_method_dos", "num_band", "py_frequencies", 1),
  ("tetrahedron_method_dos", "num_coef", "py_coef", 1),
  ("tetrahedron_method_dos", "num_gp", "py_grid_address", 0)]

/-- pointer casts: (kernel, pointer variable, C type, ndarray argument) -/
def assumedCasts : List (String × String × String × String) := [
  ("transform_dynmat_to_fc", "fc", "double*", "py_force_constants"),
  ("transform_dynmat_to_fc", "dm", "double(*)[2]", "py_dynamical_matrices"),
  ("transform_dynmat_to_fc", "comm_points", "double(*)[3]", "py_commensurate_points"),
  ("transform_dynmat_to_fc", "svecs", "double(*)[3]", "py_svecs"),
  ("transform_dynmat_to_fc", "masses", "double*", "py_masses"),
  ("transform_dynmat_to_fc", "multi", "int64_t(*)[2]", "py_multi"),
  ("transform_dynmat_to_fc", "s2pp_map", "int64_t*", "py_s2pp_map"),
  ("transform_dynmat_to_fc", "fc_index_map", "int64_t*", "py_fc_index_map"),
  ("perm_trans_symmetrize_fc", "fc", "double*", "py_force_constants"),
  ("perm_trans_symmetrize_compact_fc", "fc", "double*", "py_force_constants"),
  ("perm_trans_symmetrize_compact_fc", "perms", "int*", "py_permutations"),
  ("perm_trans_symmetrize_compact_fc", "s2pp", "int*", "py_s2pp_map"),
  ("perm_trans_symmetrize_compact_fc", "p2s", "int*", "py_p2s_map"),
  ("perm_trans_symmetrize_compact_fc", "nsym_list", "int*", "py_nsym_list"),
  ("transpose_compact_fc", "fc", "double*", "py_force_constants"),
  ("transpose_compact_fc", "perms", "int*", "py_permutations"),
  ("transpose_compact_fc", "s2pp", "int*", "py_s2pp_map"),
  ("transpose_compact_fc", "p2s", "int*", "py_p2s_map"),
  ("transpose_compact_fc", "nsym_list", "int*", "py_nsym_list"),
  ("dynamical_matrices_with_dd_openmp_over_qpoints", "dm", "double(*)[2]", "py_dynamical_matrix"),
  ("dynamical_matrices_with_dd_openmp_over_qpoints", "qpoints", "double(*)[3]", "py_qpoints"),
  ("dynamical_matrices_with_dd_openmp_over_qpoints", "fc", "double*", "py_force_constants"),
  ("dynamical_matrices_with_dd_openmp_over_qpoints", "svecs", "double(*)[3]", "py_svecs"),
  ("dynamical_matrices_with_dd_openmp_over_qpoints", "multi", "int64_t(*)[2]", "py_multi"),
  ("dynamical_matrices_with_dd_openmp_over_qpoints", "masses", "double*", "py_masses"),
  ("dynamical_matrices_with_dd_openmp_over_qpoints", "s2p_map", "int64_t*", "py_s2p_map"),
  ("dynamical_matrices_with_dd_openmp_over_qpoints", "p2s_map", "int64_t*", "py_p2s_map"),
  ("dynamical_matrices_with_dd_openmp_over_qpoints", "born", "double(*)[3][3]", "py_born"),
  ("dynamical_matrices_with_dd_openmp_over_qpoints", "dielectric", "double(*)[3]", "py_dielectric"),
  ("dynamical_matrices_with_dd_openmp_over_qpoints", "reciprocal_lattice", "double(*)[3]", "py_reciprocal_lattice"),
  ("dynamical_matrices_with_dd_openmp_over_qpoints", "positions", "double(*)[3]", "py_positions"),
  ("dynamical_matrices_with_dd_openmp_over_qpoints", "dd_q0", "double(*)[2]", "py_dd_q0"),
  ("dynamical_matrices_with_dd_openmp_over_qpoints", "G_list", "double(*)[3]", "py_G_list"),
  ("dynamical_matrices_with_dd_openmp_over_qpoints", "q_direction", "double*", "py_q_direction"),
  ("recip_dipole_dipole", "dd", "double(*)[2]", "py_dd"),
  ("recip_dipole_dipole", "dd_q0", "double(*)[2]", "py_dd_q0"),
  ("recip_dipole_dipole", "G_list", "double(*)[3]", "py_G_list"),
  ("recip_dipole_dipole", "q_direction", "double*", "py_q_direction"),
  ("recip_dipole_dipole", "q_vector", "double*", "py_q_cart"),
  ("recip_dipole_dipole", "born", "double(*)[3][3]", "py_born"),
  ("recip_dipole_dipole", "dielectric", "double(*)[3]", "py_dielectric"),
  ("recip_dipole_dipole", "pos", "double(*)[3]", "py_positions"),
  ("recip_dipole_dipole_q0", "dd_q0", "double(*)[2]", "py_dd_q0"),
  ("recip_dipole_dipole_q0", "G_list", "double(*)[3]", "py_G_list"),
  ("recip_dipole_dipole_q0", "born", "double(*)[3][3]", "py_born"),
  ("recip_dipole_dipole_q0", "dielectric", "double(*)[3]", "py_dielectric"),
  ("recip_dipole_dipole_q0", "pos", "double(*)[3]", "py_positions"),
  ("derivative_dynmat", "ddm", "double(*)[2]", "py_derivative_dynmat"),
  ("derivative_dynmat", "fc", "double*", "py_force_constants"),
  ("derivative_dynmat", "q_vector", "double*", "py_q_vector"),
  ("derivative_dynmat", "lattice", "double*", "py_lattice"),
  ("derivative_dynmat", "reclat", "double*", "py_reclat"),
  ("derivative_dynmat", "svecs", "double(*)[3]", "py_svecs"),
  ("derivative_dynmat", "masses", "double*", "py_masses"),
  ("derivative_dynmat", "multi", "int64_t(*)[2]", "py_multi"),
  ("derivative_dynmat", "s2p_map", "int64_t*", "py_s2p_map"),
  ("derivative_dynmat", "p2s_map", "int64_t*", "py_p2s_map"),
  ("derivative_dynmat", "epsilon", "double*", "py_dielectric"),
  ("derivative_dynmat", "born", "double*", "py_born"),
  ("derivative_dynmat", "q_dir", "double*", "py_q_direction"),
  ("thermal_properties", "thermal_props", "double*", "py_thermal_props"),
  ("thermal_properties", "temperatures", "double*", "py_temperatures"),
  ("thermal_properties", "freqs", "double*", "py_frequencies"),
  ("thermal_properties", "weights", "int64_t*", "py_weights"),
  ("distribute_fc2", "fc2", "double(*)[3][3]", "py_force_constants"),
  ("distribute_fc2", "atom_list", "int*", "py_atom_list"),
  ("distribute_fc2", "fc_indices_of_atom_list", "int*", "py_fc_indices_of_atom_list"),
  ("distribute_fc2", "permutations", "int*", "py_permutations"),
  ("distribute_fc2", "map_atoms", "int*", "py_map_atoms"),
  ("distribute_fc2", "map_syms", "int*", "py_map_syms"),
  ("distribute_fc2", "r_carts", "double(*)[3][3]", "py_rotations_cart"),
  ("compute_permutation", "rot_atoms", "int*", "permutation"),
  ("compute_permutation", "lat", "double(*)[3]", "lattice"),
  ("compute_permutation", "pos", "double(*)[3]", "positions"),
  ("compute_permutation", "rot_pos", "double(*)[3]", "permuted_positions"),
  ("gsv_set_smallest_vectors_sparse", "smallest_vectors", "double(*)[27][3]", "py_smallest_vectors"),
  ("gsv_set_smallest_vectors_sparse", "multiplicity", "int*", "py_multiplicity"),
  ("gsv_set_smallest_vectors_sparse", "pos_to", "double(*)[3]", "py_pos_to"),
  ("gsv_set_smallest_vectors_sparse", "pos_from", "double(*)[3]", "py_pos_from"),
  ("gsv_set_smallest_vectors_sparse", "lattice_points", "int(*)[3]", "py_lattice_points"),
  ("gsv_set_smallest_vectors_sparse", "reduced_basis", "double(*)[3]", "py_reduced_basis"),
  ("gsv_set_smallest_vectors_sparse", "trans_mat", "int(*)[3]", "py_trans_mat"),
  ("gsv_set_smallest_vectors_dense", "smallest_vectors", "double(*)[3]", "py_smallest_vectors"),
  ("gsv_set_smallest_vectors_dense", "multiplicity", "int64_t(*)[2]", "py_multiplicity"),
  ("gsv_set_smallest_vectors_dense", "pos_to", "double(*)[3]", "py_pos_to"),
  ("gsv_set_smallest_vectors_dense", "pos_from", "double(*)[3]", "py_pos_from"),
  ("gsv_set_smallest_vectors_dense", "lattice_points", "int64_t(*)[3]", "py_lattice_points"),
  ("gsv_set_smallest_vectors_dense", "reduced_basis", "double(*)[3]", "py_reduced_basis"),
  ("gsv_set_smallest_vectors_dense", "trans_mat", "int64_t(*)[3]", "py_trans_mat"),
  ("tetrahedra_relative_grid_address", "relative_grid_address", "int64_t(*)[4][3]", "py_relative_grid_address"),
  ("tetrahedra_relative_grid_address", "reciprocal_lattice", "double(*)[3]", "py_reciprocal_lattice_py"),
  ("all_tetrahedra_relative_grid_address", "relative_grid_address", "int64_t(*)[24][4][3]", "py_relative_grid_address"),
  ("tetrahedra_integration_weight", "tetrahedra_omegas", "double(*)[4]", "py_tetrahedra_omegas"),
  ("tetrahedra_integration_weight_at_omegas", "omegas", "double*", "py_omegas"),
  ("tetrahedra_integration_weight_at_omegas", "iw", "double*", "py_integration_weights"),
  ("tetrahedra_integration_weight_at_omegas", "tetrahedra_omegas", "double(*)[4]", "py_tetrahedra_omegas"),
  ("tetrahedra_frequencies", "freq_tetras", "double*", "py_freq_tetras"),
  ("tetrahedra_frequencies", "grid_points", "int64_t*", "py_grid_points"),
  ("tetrahedra_frequencies", "mesh", "int64_t*", "py_mesh"),
  ("tetrahedra_frequencies", "grid_address", "int64_t(*)[3]", "py_grid_address"),
  ("tetrahedra_frequencies", "gp_ir_index", "int64_t*", "py_gp_ir_index"),
  ("tetrahedra_frequencies", "relative_grid_address", "int64_t(*)[3]", "py_relative_grid_address"),
  ("tetrahedra_frequencies", "frequencies", "double*", "py_frequencies"),
  ("tetrahedron_method_dos", "dos", "double*", "py_dos"),
  ("tetrahedron_method_dos", "mesh", "int64_t*", "py_mesh"),
  ("tetrahedron_method_dos", "freq_points", "double*", "py_freq_points"),
  ("tetrahedron_method_dos", "frequencies", "double*", "py_frequencies"),
  ("tetrahedron_method_dos", "coef", "double*", "py_coef"),
  ("tetrahedron_method_dos", "grid_address", "int64_t(*)[3]", "py_grid_address"),
  ("tetrahedron_method_dos", "grid_mapping_table", "int64_t*", "py_grid_mapping_table"),
  ("tetrahedron_method_dos", "relative_grid_address", "int64_t(*)[4][3]", "py_relative_grid_address")]

/-- NULL conditions -/
def assumedNulls : List (String × String × String) := [
  ("dynamical_matrices_with_dd_openmp_over_qpoints", "positions", "use_Wang_NAC || (!is_nac)"),
  ("dynamical_matrices_with_dd_openmp_over_qpoints", "dd_q0", "use_Wang_NAC || (!is_nac)"),
  ("dynamical_matrices_with_dd_openmp_over_qpoints", "G_list", "use_Wang_NAC || (!is_nac)"),
  ("dynamical_matrices_with_dd_openmp_over_qpoints", "q_direction", "is_nac_q_zero || (!is_nac)"),
  ("recip_dipole_dipole", "q_direction", "is_nac_q_zero"),
  ("derivative_dynmat", "q_dir", "is_nac_q_zero")]

/-- differences between the name of an argument at the call and the parameter name of the definition that are
mere renamings (checked by reading both sides once) -/
def callAliases : List (String × String) := [
  ("1", "is_transpose"), ("dm", "dynamical_matrices"), ("n_Gpoints", "num_G_points"), ("q_vector", "q_cart"),
  ("q_direction", "q_direction_cart"), ("ddm", "derivative_dynmat"), ("q_vector", "q"), ("masses", "mass"),
  ("epsilon", "dielectric"), ("q_dir", "q_direction"), ("rot_atoms", "rot_atom"), ("function[0]", "function"),
  ("omegas[i]", "omega"), ("num_gp_in", "num_gp")]

def wiringOK : Bool := Gen.Glue.sizeSources == assumedSizeSources
def castsOK : Bool := Gen.Glue.casts == assumedCasts
def nullsOK : Bool := Gen.Glue.nulls == assumedNulls
/-- every argument of every `phpy_*` call carries the name of the parameter it is passed for (or a listed alias) -/
def callsPositional : Bool :=
  Gen.Glue.calls.all fun c => c.2.2.all fun ap => ap.1 == ap.2 || callAliases.contains ap

/-- size parameter `var` of `kernel` is read from `arg.shape(axis)` -/
def fedBy (kernel var arg : String) (axis : Nat) : Bool := Gen.Glue.sizeSources.contains (kernel, var, arg, axis)

end PhononModel.Footprint
