import PhononModel.Model.KernelFootprint
/-!
# C13 — read footprints of the compiled kernels

For every kernel whose input indices go through index tables, the flat indices read from each input array
(`Temp`: `size` = element count of the array as the Python layer passes it, `accesses` = indices read, a
superset where the C code skips by a data test) as functions of the shape parameters and the tables, and an
executable certificate (`*Cert`) on the tables: entries below the sizes they index, `multi` address + count
within `svecs`, grid maps idempotent and backward pointing, …  `Props/C13.lean` proves
`cert = true → every read in bounds`; the driver evaluates the certificate (and, independently, the
brute-force `inBoundsB`) on the arrays of every captured call.

Source anchors: c/dynmat.c get_dynmat_ij/get_dm, transform_dynmat_to_fc_ij; c/derivative_dynmat.c
get_derivative_dynmat_at_q; c/phonopy.c phpy_get_tetrahedra_frequenies, phpy_tetrahedron_method_dos,
phpy_get_thermal_properties, distribute_fc2, phpy_set_index_permutation_symmetry_compact_fc.
-/
namespace PhononModel.Footprint

/-- every entry `t i`, `i < n`, is below `b` -/
def allLt (n : Nat) (t : Nat → Nat) (b : Nat) : Bool := (List.range n).all fun i => decide (t i < b)

/-! ## force constants through p2s/s2p, svecs through multi (dynamical matrix, its derivative) -/

structure DynShape where
  np : Nat    -- num_patom = p2s_map.shape(0)
  ns : Nat    -- num_satom = s2p_map.shape(0)
  nfc : Nat   -- fc.shape(0)
  nsv : Nat   -- svecs.shape(0)

structure DynTabs where
  p2s : Nat → Nat
  s2p : Nat → Nat
  mcount : Nat → Nat   -- multi[pair][0], pair = k*np + i
  maddr : Nat → Nat    -- multi[pair][1]

def dynCert (S : DynShape) (T : DynTabs) : Bool :=
  allLt S.np T.p2s S.nfc && (List.range (S.ns * S.np)).all fun p => decide (T.maddr p + T.mcount p ≤ S.nsv)

/-- `fc[p2s_map[i]*ns*9 + k*9 + l*3 + m]` -/
def rDynFc (S : DynShape) (T : DynTabs) : Temp where
  size := S.nfc * S.ns * 9
  accesses := for2 S.np S.ns fun i k => for2 3 3 fun l m => [T.p2s i * S.ns * 9 + k * 9 + l * 3 + m]

/-- `multi[k*np + i][0..1]` -/
def rDynMulti (S : DynShape) : Temp where
  size := S.ns * S.np * 2
  accesses := for2 S.ns S.np fun k i => [(k * S.np + i) * 2, (k * S.np + i) * 2 + 1]

/-- `svecs[multi[pair][1] + l][m]`, `l < multi[pair][0]` -/
def rDynSvecs (S : DynShape) (T : DynTabs) : Temp where
  size := S.nsv * 3
  accesses := for2 S.ns S.np fun k i =>
    for2 (T.mcount (k * S.np + i)) 3 fun l m => [(T.maddr (k * S.np + i) + l) * 3 + m]

/-! ## transform_dynmat_to_fc: dynamical matrices through s2pp, commensurate points -/

structure D2fShape where
  np : Nat      -- multi.shape(1)
  ns : Nat      -- multi.shape(0)
  ncomm : Nat   -- comm_points.shape(0) = dm.shape(0)

def d2fCert (S : D2fShape) (s2pp : Nat → Nat) : Bool :=
  decide (0 < S.np) && decide (S.ns / S.np ≤ S.ncomm) && allLt S.ns s2pp S.np

/-- `dm[k*np*np*9 + i*np*9 + l*np*3 + s2pp[j]*3 + m]` (complex), `k < ns/np` -/
def rD2fDm (S : D2fShape) (s2pp : Nat → Nat) : Temp where
  size := 2 * (S.ncomm * (S.np * 3) * (S.np * 3))
  accesses := for3 (S.ns / S.np) S.np S.ns fun k i j => for2 3 3 fun l m =>
    cplx (k * S.np * S.np * 9 + i * S.np * 9 + l * S.np * 3 + s2pp j * 3 + m)

/-- `masses[s2pp_map[j]]` -/
def rD2fMasses (S : D2fShape) (s2pp : Nat → Nat) : Temp where
  size := S.np
  accesses := for1 S.ns fun j => [s2pp j]

/-! ## tetrahedra_frequencies -/

structure TfShape where
  ngpIn : Nat    -- grid_points.shape(0)
  nb : Nat       -- frequencies.shape(1)
  ngrid : Nat    -- grid_address.shape(0)
  nir : Nat      -- frequencies.shape(0)
  nmap : Nat     -- gp_ir_index.shape(0)
  mprod : Nat    -- mesh[0]*mesh[1]*mesh[2]: grid indices are residues modulo the mesh

def tfCert (S : TfShape) (gridPoints gpIr : Nat → Nat) : Bool :=
  allLt S.ngpIn gridPoints S.ngrid && decide (S.mprod ≤ S.nmap) && allLt S.mprod gpIr S.nir

/-- `grid_address[grid_points[i]][k]` -/
def rTfGridAddress (S : TfShape) (gridPoints : Nat → Nat) : Temp where
  size := S.ngrid * 3
  accesses := for2 S.ngpIn 3 fun i k => [gridPoints i * 3 + k]

/-- `gp_ir_index[gp]`, `gp` a grid index -/
def rTfGpIr (S : TfShape) : Temp where
  size := S.nmap
  accesses := whole S.mprod

/-- `frequencies[gp_ir_index[gp]*nb + j/96]` -/
def rTfFreqs (S : TfShape) (gpIr : Nat → Nat) : Temp where
  size := S.nir * S.nb
  accesses := for2 S.mprod S.nb fun gp b => [gpIr gp * S.nb + b]

/-! ## tetrahedron_method_dos -/

structure DosShape where
  ngp : Nat     -- grid_address.shape(0)
  nir : Nat     -- frequencies.shape(0)
  nb : Nat
  nf : Nat
  nc : Nat
  nmapLen : Nat -- grid_mapping_table.shape(0)
  mprod : Nat

/-- number of fixed points of the grid mapping table among the first `i` entries (`count`) -/
def fixedBefore (gmt : Nat → Nat) (i : Nat) : Nat := ((List.range i).filter fun k => gmt k = k).length

/-- `gp2ir[i]` as the C loop computes it -/
def gp2irOf (gmt : Nat → Nat) (i : Nat) : Nat :=
  if gmt i = i then fixedBefore gmt i else fixedBefore gmt (gmt i)

def dosCert (S : DosShape) (gmt : Nat → Nat) : Bool :=
  decide (S.ngp ≤ S.nmapLen) && decide (S.mprod ≤ S.ngp) &&
  (List.range S.ngp).all (fun i => decide (gmt i ≤ i) && decide (gmt (gmt i) = gmt i)) &&
  decide (fixedBefore gmt S.ngp = S.nir)

/-- `frequencies[ir_gps[l][q]*nb + k]`, `ir_gps = gp2ir[grid index]` -/
def rDosFreqs (S : DosShape) (gmt : Nat → Nat) : Temp where
  size := S.nir * S.nb
  accesses := for2 S.mprod S.nb fun g k => [gp2irOf gmt g * S.nb + k]

/-- `coef[i*nc*nb + m*nb + k]` -/
def rDosCoef (S : DosShape) : Temp where
  size := S.nir * S.nc * S.nb
  accesses := for3 S.nir S.nc S.nb fun i m k => [i * S.nc * S.nb + m * S.nb + k]

/-- `grid_mapping_table[i]`, `i < num_gp` (num_gp is taken from grid_address) -/
def rDosGmt (S : DosShape) : Temp where
  size := S.nmapLen
  accesses := whole S.ngp

/-! ## thermal_properties -/

/-- `freqs[i*nb + k]`, `weights[i]`, `temperatures[j]` -/
def rThermalFreqs (nq nb : Nat) : Temp where
  size := nq * nb
  accesses := for2 nq nb fun i k => [i * nb + k]

/-! ## distribute_fc2 -/

structure DfcShape where
  npos : Nat    -- permutations.shape(1)
  nrot : Nat    -- permutations.shape(0)
  len : Nat     -- atom_list.shape(0)
  nrows : Nat   -- fc2.shape(0)

structure DfcTabs where
  atomList : Nat → Nat
  fcIdx : Nat → Nat
  mapAtoms : Nat → Nat
  mapSyms : Nat → Nat
  perm : Nat → Nat → Nat   -- permutations[sym][atom]

/-- position in `atom_list` of the representative `done` (what `atom_list_reverse[done]` holds); `none` if the
representative is not listed or does not map to itself — the C code would then read an uninitialised cell -/
def revOf (S : DfcShape) (T : DfcTabs) (done : Nat) : Option Nat :=
  (List.range S.len).reverse.find? fun i => T.atomList i = done && T.mapAtoms (T.atomList i) = T.atomList i

def dfcCert (S : DfcShape) (T : DfcTabs) : Bool :=
  allLt S.len T.atomList S.npos && allLt S.len T.fcIdx S.nrows && allLt S.npos T.mapAtoms S.npos &&
  allLt S.npos T.mapSyms S.nrot &&
  (List.range S.nrot).all (fun r => allLt S.npos (T.perm r) S.npos) &&
  (List.range S.len).all fun i => (revOf S T (T.mapAtoms (T.atomList i))).isSome

/-- `permutations[sym_index*npos + atom_other]` -/
def rDfcPerms (S : DfcShape) (T : DfcTabs) : Temp where
  size := S.nrot * S.npos
  accesses := for2 S.len S.npos fun i o => [T.mapSyms (T.atomList i) * S.npos + o]

/-- `fc2[fc_indices[rev[done]]*npos + permutation[other]]` (3x3 block) -/
def rDfcFc (S : DfcShape) (T : DfcTabs) : Temp where
  size := S.nrows * S.npos * 9
  accesses := for2 S.len S.npos fun i o =>
    match revOf S T (T.mapAtoms (T.atomList i)) with
    | none => [S.nrows * S.npos * 9]     -- uninitialised index: modelled as out of bounds
    | some r => for1 9 fun e => [(T.fcIdx r * S.npos + T.perm (T.mapSyms (T.atomList i)) o) * 9 + e]

/-- `map_atoms[atom_list[i]]`, `map_syms[atom_list[i]]` -/
def rDfcMaps (S : DfcShape) (T : DfcTabs) : Temp where
  size := S.npos
  accesses := for1 S.len fun i => [T.atomList i]

/-! ## compact symmetriser / transposition -/

structure CsShape where
  np : Nat      -- fc.shape(0)
  ns : Nat      -- fc.shape(1)
  nt : Nat      -- permutations.shape(0)

structure CsTabs where
  p2s : Nat → Nat
  s2pp : Nat → Nat
  nsym : Nat → Nat
  perm : Nat → Nat → Nat

def csCert (S : CsShape) (T : CsTabs) : Bool :=
  allLt S.np T.p2s S.ns && allLt S.ns T.s2pp S.np && allLt S.ns T.nsym S.nt &&
  (List.range S.nt).all fun t => allLt S.ns (T.perm t) S.ns

/-- `perms[nsym_list[j]*n_satom + p2s[i_p]]` -/
def rCsPerms (S : CsShape) (T : CsTabs) : Temp where
  size := S.nt * S.ns
  accesses := for2 S.ns S.np fun j ip => [T.nsym j * S.ns + T.p2s ip]

/-- `fc[i_p*ns*9 + j*9 + …]`, `fc[j_p*ns*9 + i_trans*9 + …]`, `fc[i_p*ns*9 + p2s[i_p]*9 + …]` -/
def rCsFc (S : CsShape) (T : CsTabs) : Temp where
  size := S.np * S.ns * 9
  accesses := for2 S.ns S.np fun j ip => for1 9 fun e =>
    [ip * S.ns * 9 + j * 9 + e,
     T.s2pp j * S.ns * 9 + T.perm (T.nsym j) (T.p2s ip) * 9 + e,
     ip * S.ns * 9 + T.p2s ip * 9 + e]

end PhononModel.Footprint
