import PhononModel.Model.Grid
import PhononModel.Gen.TetraC
/-!
# Tetrahedron method on the mesh: neighbour lookup, ir-point lookup, the division of the cell (property C11)

Source anchors:
* `c/phonopy.c: phpy_tetrahedron_method_dos` / `phpy_get_tetrahedra_frequenies` + `c/rgrid.c`
  (`rgd_get_double_grid_address` with `is_shift = 0`, `reduce_double_grid_address`, `get_double_grid_index`,
  `mat_modulo_l`, `get_grid_index_single_mesh`) ↦ `neighbourIndex`;
  `phonon/tetrahedron_mesh.py: _get_tetrahedra_frequencies_Py` (`np.dot((t + address) % mesh, grid_order)`) ↦
  `Mesh.index` of `Model/Grid.lean`.
* the `gp2ir` loop of `phpy_tetrahedron_method_dos` ↦ `gp2irBuild`; `TetrahedronMesh._prepare` (dictionary of
  positions in `ir_grid_points`) ↦ `gp2irPy`.
* the division of the parallelepiped into six tetrahedra sharing a main diagonal
  (`tetrahedron_method.py: _create_tetrahedra`, tables `db_relative_grid_address` of the C source) ↦ `kuhn`,
  `reflectD`, `starOf`, compared with the generated tables by `normTable`.
-/
namespace PhononModel.TetraMesh
open PhononModel.Grid

/-- C `%` followed by `if (c < 0) c += b` -/
def matModulo (a : Int) (b : Nat) : Int :=
  let c := Int.tmod a b
  if c < 0 then c + b else c

/-- neighbour grid index as the C code computes it: double the address, reduce once, halve, wrap, linearise -/
def neighbourIndex (mesh : V3 Nat) (addr rel : IV) : Nat :=
  let dbl : IV := ⟨(addr.x + rel.x) * 2, (addr.y + rel.y) * 2, (addr.z + rel.z) * 2⟩
  let red : IV := ⟨if dbl.x > mesh.x then dbl.x - 2 * mesh.x else dbl.x, if dbl.y > mesh.y then dbl.y - 2 * mesh.y else dbl.y,
    if dbl.z > mesh.z then dbl.z - 2 * mesh.z else dbl.z⟩
  let half : Int → Int := fun d => if Int.tmod d 2 = 0 then Int.tdiv d 2 else Int.tdiv (d - 1) 2
  let a : IV := ⟨matModulo (half red.x) mesh.x, matModulo (half red.y) mesh.y, matModulo (half red.z) mesh.z⟩
  (a.z * (mesh.x : Int) * (mesh.y : Int) + a.y * (mesh.x : Int) + a.x).toNat

/-! ### ir-point lookup -/

structure G2I where
  gp2ir : List Nat
  irgp : List Nat
  weights : List Nat
deriving Repr, DecidableEq

/-- one iteration of the `gp2ir` loop -/
def gp2irStep (tab : List Nat) (st : G2I) (i : Nat) : G2I :=
  if tab.getD i i = i then ⟨st.gp2ir ++ [st.irgp.length], st.irgp ++ [i], st.weights ++ [1]⟩
  else
    let k := st.gp2ir.getD (tab.getD i i) 0
    ⟨st.gp2ir ++ [k], st.irgp, st.weights.modify k (· + 1)⟩

def gp2irBuild (tab : List Nat) : G2I := (List.range tab.length).foldl (gp2irStep tab) ⟨[], [], []⟩

/-- `TetrahedronMesh._prepare`: position of the table entry in the list of ir grid points -/
def gp2irPy (tab ir : List Nat) : List Nat := tab.map fun g => ir.idxOf g

/-! ### the six tetrahedra of a cell and the 24 around a grid point -/

def e3 (k : Fin 3) : IV := match k with
  | 0 => ⟨1, 0, 0⟩
  | 1 => ⟨0, 1, 0⟩
  | 2 => ⟨0, 0, 1⟩

def addV (a b : IV) : IV := ⟨a.x + b.x, a.y + b.y, a.z + b.z⟩
def subV (a b : IV) : IV := ⟨a.x - b.x, a.y - b.y, a.z - b.z⟩

/-- Kuhn simplex of the ordering `(i, j, k)` of the axes: `0, e_i, e_i + e_j, (1,1,1)` -/
def kuhn (i j : Fin 3) : List IV := [⟨0, 0, 0⟩, e3 i, addV (e3 i) (e3 j), ⟨1, 1, 1⟩]

/-- the six orderings -/
def kuhnAll : List (List IV) := [kuhn 0 1, kuhn 0 2, kuhn 1 0, kuhn 1 2, kuhn 2 0, kuhn 2 1]

/-- reflection of the unit cell that maps the diagonal (0,0,0)–(1,1,1) onto main diagonal `d`
(`main_diagonals[d]` has a `-1` on the reflected axis) -/
def reflectD (d : Fin 4) (v : IV) : IV := match d with
  | 0 => v
  | 1 => ⟨1 - v.x, v.y, v.z⟩
  | 2 => ⟨v.x, 1 - v.y, v.z⟩
  | 3 => ⟨v.x, v.y, 1 - v.z⟩

/-- the six tetrahedra of the cell for main diagonal `d` -/
def sixOf (d : Fin 4) : List (List IV) := kuhnAll.map fun t => t.map (reflectD d)

/-- all translates of the tetrahedra that put one of their vertices at the origin: the tetrahedra around a grid point -/
def starOf (six : List (List IV)) : List (List IV) :=
  six.flatMap fun t => t.map fun v => t.map fun u => subV u v

def ivKey (v : IV) : Int := (v.x + 2) * 25 + (v.y + 2) * 5 + (v.z + 2)

def insertBy {α : Type} (key : α → Int) (a : α) : List α → List α
  | [] => [a]
  | b :: l => if key a ≤ key b then a :: b :: l else b :: insertBy key a l

def sortBy {α : Type} (key : α → Int) (l : List α) : List α := l.foldr (insertBy key) []

/-- canonical form of a set of tetrahedra: vertices sorted inside each, tetrahedra sorted -/
def normTable (t : List (List IV)) : List (List Int) :=
  sortBy (fun ks : List Int => ks.foldl (fun acc k => acc * 125 + k) 0) (t.map fun tet => sortBy id (tet.map ivKey))

def tableOf (d : Fin 4) : List (List IV) :=
  (TetraC.db_relative_grid_address.getD d.1 []).map fun tet => tet.map fun v => (⟨v.getD 0 0, v.getD 1 0, v.getD 2 0⟩ : IV)

/-- determinant of the three edge vectors of a tetrahedron (6 × signed volume) -/
def det4 (t : List IV) : Int :=
  let o := t.getD 0 ⟨0, 0, 0⟩
  let a := subV (t.getD 1 ⟨0, 0, 0⟩) o
  let b := subV (t.getD 2 ⟨0, 0, 0⟩) o
  let c := subV (t.getD 3 ⟨0, 0, 0⟩) o
  a.x * (b.y * c.z - b.z * c.y) - a.y * (b.x * c.z - b.z * c.x) + a.z * (b.x * c.y - b.y * c.x)

end PhononModel.TetraMesh
