import PhononModel.Model.AccessPaths
import Mathlib.Data.List.Perm.Basic
import Mathlib.Data.List.Perm.Subperm
import Mathlib.Data.List.Range
import Mathlib.Data.List.Nodup
import Mathlib.Tactic.Linarith
/-!
Helper lemmas for C14: the greedy matching of `estimate_band_connection` (model `connOrder?`) always finds a
fresh column while a free column with a positive overlap exists.
-/
namespace PhononModel.C14
open PhononModel.Access

def pickStep (row : List Rat) (taken : List Nat) (acc : Rat × Option Nat) (i : Nat) : Rat × Option Nat :=
  if taken.contains i then acc
  else if row.getD i 0 > acc.1 then (row.getD i 0, some i) else acc

theorem rowPick_eq (init : Rat) (row : List Rat) (taken : List Nat) (carry : Option Nat) :
    rowPickI init row taken carry = ((List.range row.length).reverse.foldl (pickStep row taken) (init, carry)).2 := rfl

theorem pick_inv (row : List Rat) (taken : List Nat) (l : List Nat) (acc : Rat × Option Nat) :
    (l.foldl (pickStep row taken) acc = acc ∧ ∀ i ∈ l, i ∉ taken → row.getD i 0 ≤ acc.1) ∨
    (∃ j ∈ l, j ∉ taken ∧ (l.foldl (pickStep row taken) acc).2 = some j) := by
  induction l generalizing acc with
  | nil => left; simp
  | cons i l ih =>
    simp only [List.foldl_cons]
    by_cases ht : i ∈ taken
    · have e : pickStep row taken acc i = acc := by simp [pickStep, ht]
      rw [e]
      rcases ih acc with ⟨h1, h2⟩ | ⟨j, hj, hjt, hr⟩
      · left; refine ⟨h1, ?_⟩
        intro k hk hkt
        rcases List.mem_cons.mp hk with rfl | hk'
        · exact absurd ht hkt
        · exact h2 k hk' hkt
      · right; exact ⟨j, List.mem_cons_of_mem _ hj, hjt, hr⟩
    · by_cases hgt : row.getD i 0 > acc.1
      · have e : pickStep row taken acc i = (row.getD i 0, some i) := by
          unfold pickStep
          rw [if_neg (by simpa using ht), if_pos hgt]
        rw [e]
        rcases ih (row.getD i 0, some i) with ⟨h1, _⟩ | ⟨j, hj, hjt, hr⟩
        · right; exact ⟨i, List.mem_cons_self .., ht, by rw [h1]⟩
        · right; exact ⟨j, List.mem_cons_of_mem _ hj, hjt, hr⟩
      · have e : pickStep row taken acc i = acc := by
          unfold pickStep
          rw [if_neg (by simpa using ht), if_neg hgt]
        rw [e]
        rcases ih acc with ⟨h1, h2⟩ | ⟨j, hj, hjt, hr⟩
        · left; refine ⟨h1, ?_⟩
          intro k hk hkt
          rcases List.mem_cons.mp hk with rfl | hk'
          · exact not_lt.mp hgt
          · exact h2 k hk' hkt
        · right; exact ⟨j, List.mem_cons_of_mem _ hj, hjt, hr⟩

theorem rowPick_some (init : Rat) (row : List Rat) (taken : List Nat) (carry : Option Nat)
    (h : ∃ i, i < row.length ∧ i ∉ taken ∧ init < row.getD i 0) :
    ∃ j, rowPickI init row taken carry = some j ∧ j < row.length ∧ j ∉ taken := by
  obtain ⟨i, hi, hit, hpos⟩ := h
  rw [rowPick_eq]
  rcases pick_inv row taken (List.range row.length).reverse (init, carry) with ⟨_, h2⟩ | ⟨j, hj, hjt, hr⟩
  · have := h2 i (by simp [hi]) hit
    exact absurd hpos (not_lt.mpr this)
  · refine ⟨j, hr, ?_, hjt⟩
    simpa using hj


/-- invariant of the outer loop -/
theorem connOrderAux_perm (init : Rat) (n : Nat) :
    ∀ (rows : List (List Rat)) (taken : List Nat) (carry : Option Nat),
      (∀ row ∈ rows, row.length = n ∧ ∀ i, i < n → init < row.getD i 0) →
      taken.Nodup → (∀ x ∈ taken, x < n) → taken.length + rows.length = n →
      ∃ c, connOrderAuxI init rows taken carry = some c ∧ c.Nodup ∧ (∀ x ∈ c, x < n) ∧ c.length = n := by
  intro rows
  induction rows with
  | nil =>
    intro taken carry _ hnd hlt hlen
    exact ⟨taken, rfl, hnd, hlt, by simpa using hlen⟩
  | cons row rest ih =>
    intro taken carry hrows hnd hlt hlen
    obtain ⟨hrl, hpos⟩ := hrows row (List.mem_cons_self ..)
    -- a free column exists: fewer than n columns are taken
    have hfree : ∃ i, i < n ∧ i ∉ taken := by
      by_contra hcon
      have hsub : List.range n ⊆ taken := fun i hi => by
        by_contra h
        exact hcon ⟨i, List.mem_range.mp hi, h⟩
      have := (List.subperm_of_subset List.nodup_range hsub).length_le
      simp at this hlen
      omega
    obtain ⟨i, hi, hit⟩ := hfree
    obtain ⟨j, hj, hjl, hjt⟩ := rowPick_some init row taken carry ⟨i, by omega, hit, hpos i hi⟩
    simp only [connOrderAuxI, hj]
    apply ih (taken ++ [j]) (some j)
    · intro r hr; exact hrows r (List.mem_cons_of_mem _ hr)
    · rw [List.nodup_append]
      refine ⟨hnd, by simp, ?_⟩
      intro a ha b hb
      simp at hb; subst hb
      intro hab; subst hab; exact hjt ha
    · intro x hx
      rcases List.mem_append.mp hx with h | h
      · exact hlt x h
      · simp at h; subst h; omega
    · simp at hlen ⊢; omega

theorem perm_range_of_nodup {c : List Nat} {n : Nat} (hnd : c.Nodup) (hlt : ∀ x ∈ c, x < n) (hlen : c.length = n) :
    c.Perm (List.range n) := by
  have hsub : c ⊆ List.range n := fun x hx => List.mem_range.mpr (hlt x hx)
  exact (List.subperm_of_subset hnd hsub).perm_of_length_le (by simp [hlen])

end PhononModel.C14
