import PhononModel.Lemmas.DynMatFourier
/-!
Covariance of the lattice Fourier sum under a space-group operation (used by `Props/C03`).
-/
set_option linter.unusedSectionVars false
namespace PhononModel
open Finset Matrix
open scoped Classical

variable {R : Type} [Field R] [CharZero R] {V : Type} [AddCommGroup V]
variable {np nf ns nsv : Nat} {T : DTables np nf ns nsv}

/-- A space-group operation acting on the infinite crystal: `ρ` is its linear part on displacement
vectors, `π` the induced permutation of the sublattices, `Q` the Cartesian rotation matrix. -/
structure LatticeModel.Symmetry (L : LatticeModel V R T) where
  ρ : V ≃+ V
  π : Equiv.Perm (Fin np)
  Q : Matrix (Fin 3) (Fin 3) R
  orth : Qᵀ * Q = 1
  supp : ∀ i j, (L.supp i j).map ρ.toEquiv.toEmbedding = L.supp (π i) (π j)
  psi : ∀ i j r a b, L.Ψ (π i) (π j) (ρ r) a b = ∑ a', ∑ b', Q a a' * L.Ψ i j r a' b' * Q b b'

/-- the unitary (real orthogonal) "permute atoms, rotate Cartesian components" matrix `Γ` -/
def LatticeModel.Symmetry.gamma {L : LatticeModel V R T} (g : L.Symmetry) :
    Matrix (Fin np × Fin 3) (Fin np × Fin 3) (Cx R) :=
  fun p q => if p.1 = g.π q.1 then Cx.ofR (g.Q p.2 q.2) else 0

theorem fourier_rotation (L : LatticeModel V R T) (g : L.Symmetry) (e e' : V → Cx R)
    (he : ∀ r, e' (g.ρ r) = e r) (s : Fin np → R) (hs : ∀ i, s (g.π i) = s i) (i a j b) :
    L.fourier e' s (g.π i) a (g.π j) b
      = ∑ a', ∑ b', Cx.ofR (g.Q a a') * L.fourier e s i a' j b' * Cx.ofR (g.Q b b') := by
  unfold LatticeModel.fourier
  rw [← g.supp i j, Finset.sum_map, hs, hs]
  have hco : ∀ r, g.ρ.toEquiv.toEmbedding r = g.ρ r := fun _ => rfl
  simp only [hco, he, g.psi, Cx.ofR_sum, Cx.ofR_mul, Finset.sum_mul, Finset.mul_sum]
  rw [Finset.sum_comm]
  apply Finset.sum_congr rfl; intro a' _
  rw [Finset.sum_comm]
  apply Finset.sum_congr rfl; intro b' _
  apply Finset.sum_congr rfl; intro r _
  ring


theorem LatticeModel.Symmetry.gamma_orth {L : LatticeModel V R T} (g : L.Symmetry) : g.gammaᵀ * g.gamma = 1 := by
  apply Matrix.ext; intro p q
  simp only [Matrix.mul_apply, Matrix.transpose_apply, LatticeModel.Symmetry.gamma, Fintype.sum_prod_type,
    Matrix.one_apply]
  have h1 : ∀ (k : Fin np) (a : Fin 3),
      (if k = g.π p.1 then Cx.ofR (g.Q a p.2) else 0) * (if k = g.π q.1 then Cx.ofR (g.Q a q.2) else 0)
        = if k = g.π p.1 then (if p.1 = q.1 then Cx.ofR (g.Q a p.2 * g.Q a q.2) else 0) else 0 := by
    intro k a
    by_cases hk : k = g.π p.1
    · subst hk
      by_cases hpq : p.1 = q.1
      · simp [hpq, Cx.ofR_mul]
      · have : g.π p.1 ≠ g.π q.1 := fun h => hpq (g.π.injective h)
        simp [hpq, this]
    · simp [hk]
  simp only [h1]
  rw [Finset.sum_comm]
  simp only [Finset.sum_ite_eq', Finset.mem_univ, if_true]
  have h2 := congrFun (congrFun g.orth p.2) q.2
  simp only [Matrix.mul_apply, Matrix.transpose_apply, Matrix.one_apply] at h2
  by_cases hpq : p.1 = q.1
  · simp only [hpq, if_true, ← Cx.ofR_sum, h2]
    by_cases h3 : p.2 = q.2
    · have : p = q := Prod.ext hpq h3
      simp [this]
    · have : p ≠ q := fun h => h3 (congrArg Prod.snd h)
      simp [h3, this]
  · have : p ≠ q := fun h => hpq (congrArg Prod.fst h)
    simp [hpq, this]

theorem fourier_rotation_matrix (L : LatticeModel V R T) (g : L.Symmetry) (e e' : V → Cx R)
    (he : ∀ r, e' (g.ρ r) = e r) (s : Fin np → R) (hs : ∀ i, s (g.π i) = s i) :
    (L.fourier e' s).toMatrix = g.gamma * (L.fourier e s).toMatrix * g.gammaᵀ := by
  apply Matrix.ext; intro p q
  obtain ⟨i, hi⟩ := g.π.surjective p.1
  obtain ⟨j, hj⟩ := g.π.surjective q.1
  have lhs : (L.fourier e' s).toMatrix p q = L.fourier e' s (g.π i) p.2 (g.π j) q.2 := by
    simp only [DM.toMatrix, hi, hj]
  rw [lhs, fourier_rotation L g e e' he s hs]
  simp only [Matrix.mul_apply, Matrix.transpose_apply, LatticeModel.Symmetry.gamma, Fintype.sum_prod_type,
    DM.toMatrix, ← hi, ← hj, g.π.apply_eq_iff_eq, ite_mul, zero_mul, mul_ite, mul_zero, Finset.sum_mul]
  symm
  rw [Finset.sum_eq_single j (by intro x _ hx; simp [Ne.symm hx]) (by simp)]
  simp only [if_true]
  conv_rhs => rw [Finset.sum_comm]
  apply Finset.sum_congr rfl; intro y _
  rw [Finset.sum_eq_single i (by intro x _ hx; simp [Ne.symm hx]) (by simp)]
  simp only [if_true]

theorem fourier_rotation_charpoly (L : LatticeModel V R T) (g : L.Symmetry) (e e' : V → Cx R)
    (he : ∀ r, e' (g.ρ r) = e r) (s : Fin np → R) (hs : ∀ i, s (g.π i) = s i) :
    (L.fourier e' s).toMatrix.charpoly = (L.fourier e s).toMatrix.charpoly := by
  rw [fourier_rotation_matrix L g e e' he s hs, Matrix.mul_assoc, Matrix.charpoly_mul_comm, Matrix.mul_assoc,
    g.gamma_orth, Matrix.mul_one]

end PhononModel
