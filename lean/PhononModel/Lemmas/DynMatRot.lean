import PhononModel.Lemmas.DynMatFourier
/-!
Covariance of the lattice Fourier sum under a space-group operation (used by `Props/C03`).
-/
set_option linter.unusedSectionVars false
namespace PhononModel
open Finset Matrix
open scoped Classical

variable {R : Type} [Field R] [CharZero R] {V : Type} [AddCommGroup V]
variable {np nf ns nsv : Nat} {T : DTables np nf ns nsv}

/-- the real orthogonal "permute atoms, rotate Cartesian components" matrix `Γ = P_π ⊗ Q` -/
def rotGamma (π : Equiv.Perm (Fin np)) (Q : Matrix (Fin 3) (Fin 3) R) :
    Matrix (Fin np × Fin 3) (Fin np × Fin 3) (Cx R) :=
  fun p q => if p.1 = π q.1 then Cx.ofR (Q p.2 q.2) else 0

theorem rotGamma_orth (π : Equiv.Perm (Fin np)) (Q : Matrix (Fin 3) (Fin 3) R) (orth : Qᵀ * Q = 1) :
    (rotGamma π Q)ᵀ * rotGamma π Q = 1 := by
  apply Matrix.ext; intro p q
  simp only [Matrix.mul_apply, Matrix.transpose_apply, rotGamma, Fintype.sum_prod_type,
    Matrix.one_apply]
  have h1 : ∀ (k : Fin np) (a : Fin 3),
      (if k = π p.1 then Cx.ofR (Q a p.2) else 0) * (if k = π q.1 then Cx.ofR (Q a q.2) else 0)
        = if k = π p.1 then (if p.1 = q.1 then Cx.ofR (Q a p.2 * Q a q.2) else 0) else 0 := by
    intro k a
    by_cases hk : k = π p.1
    · subst hk
      by_cases hpq : p.1 = q.1
      · simp [hpq, Cx.ofR_mul]
      · have : π p.1 ≠ π q.1 := fun h => hpq (π.injective h)
        simp [hpq, this]
    · simp [hk]
  simp only [h1]
  rw [Finset.sum_comm]
  simp only [Finset.sum_ite_eq', Finset.mem_univ, if_true]
  have h2 := congrFun (congrFun orth p.2) q.2
  simp only [Matrix.mul_apply, Matrix.transpose_apply, Matrix.one_apply] at h2
  by_cases hpq : p.1 = q.1
  · simp only [hpq, if_true, ← Cx.ofR_sum, h2]
    by_cases h3 : p.2 = q.2
    · have : p = q := Prod.ext hpq h3
      simp [this]
    · have : p ≠ q := fun h => h3 (congrArg Prod.snd h)
      simp [h3, this]
  · have : p ≠ q := fun h => hpq (congrArg Prod.fst h)
    simp [hpq, this]

/-- entrywise covariance ⇒ `D' = Γ D Γᵀ` -/
theorem rot_matrix_of_entries (π : Equiv.Perm (Fin np)) (Q : Matrix (Fin 3) (Fin 3) R) (D D' : DM np (Cx R))
    (h : ∀ i a j b, D' (π i) a (π j) b = ∑ a', ∑ b', Cx.ofR (Q a a') * D i a' j b' * Cx.ofR (Q b b')) :
    D'.toMatrix = rotGamma π Q * D.toMatrix * (rotGamma π Q)ᵀ := by
  apply Matrix.ext; intro p q
  obtain ⟨i, hi⟩ := π.surjective p.1
  obtain ⟨j, hj⟩ := π.surjective q.1
  have lhs : D'.toMatrix p q = D' (π i) p.2 (π j) q.2 := by
    simp only [DM.toMatrix, hi, hj]
  rw [lhs, h]
  simp only [Matrix.mul_apply, Matrix.transpose_apply, rotGamma, Fintype.sum_prod_type,
    DM.toMatrix, ← hi, ← hj, π.apply_eq_iff_eq, ite_mul, zero_mul, mul_ite, mul_zero, Finset.sum_mul]
  symm
  rw [Finset.sum_eq_single j (by intro x _ hx; simp [Ne.symm hx]) (by simp)]
  simp only [if_true]
  conv_rhs => rw [Finset.sum_comm]
  apply Finset.sum_congr rfl; intro y _
  rw [Finset.sum_eq_single i (by intro x _ hx; simp [Ne.symm hx]) (by simp)]
  simp only [if_true]

theorem rot_charpoly (π : Equiv.Perm (Fin np)) (Q : Matrix (Fin 3) (Fin 3) R) (orth : Qᵀ * Q = 1)
    (D D' : DM np (Cx R))
    (h : ∀ i a j b, D' (π i) a (π j) b = ∑ a', ∑ b', Cx.ofR (Q a a') * D i a' j b' * Cx.ofR (Q b b')) :
    D'.toMatrix.charpoly = D.toMatrix.charpoly := by
  rw [rot_matrix_of_entries π Q D D' h, Matrix.mul_assoc, Matrix.charpoly_mul_comm, Matrix.mul_assoc,
    rotGamma_orth π Q orth, Matrix.mul_one]

/-- A space-group operation acting on the infinite crystal: `ρ` is its linear part on displacement
vectors, `π` the induced permutation of the sublattices, `Q` the Cartesian rotation matrix. -/
structure LatticeModel.Symmetry (L : LatticeModel V R T) where
  ρ : V ≃+ V
  π : Equiv.Perm (Fin np)
  Q : Matrix (Fin 3) (Fin 3) R
  orth : Qᵀ * Q = 1
  supp : ∀ i j, (L.supp i j).map ρ.toEquiv.toEmbedding = L.supp (π i) (π j)
  psi : ∀ i j r a b, L.Ψ (π i) (π j) (ρ r) a b = ∑ a', ∑ b', Q a a' * L.Ψ i j r a' b' * Q b b'

/-- `Γ` of a symmetry of the infinite crystal -/
def LatticeModel.Symmetry.gamma {L : LatticeModel V R T} (g : L.Symmetry) :
    Matrix (Fin np × Fin 3) (Fin np × Fin 3) (Cx R) := rotGamma g.π g.Q

theorem fourier_rotation (L : LatticeModel V R T) (g : L.Symmetry) (e e' : V → Cx R)
    (he : ∀ r, e' (g.ρ r) = e r) (s : Fin np → R) (hs : ∀ i, s (g.π i) = s i) (i a j b) :
    L.fourier e' s (g.π i) a (g.π j) b
      = ∑ a', ∑ b', Cx.ofR (g.Q a a') * L.fourier e s i a' j b' * Cx.ofR (g.Q b b') := by
  unfold LatticeModel.fourier
  rw [← g.supp i j, Finset.sum_map, hs, hs]
  have hco : ∀ r, g.ρ.toEquiv.toEmbedding r = g.ρ r := fun _ => rfl
  simp only [hco, he, g.psi, Cx.ofR_sum, Cx.ofR_mul, Finset.sum_mul, Finset.mul_sum]
  rw [Finset.sum_comm]
  apply Finset.sum_congr rfl; intro a' _
  rw [Finset.sum_comm]
  apply Finset.sum_congr rfl; intro b' _
  apply Finset.sum_congr rfl; intro r _
  ring


theorem LatticeModel.Symmetry.gamma_orth {L : LatticeModel V R T} (g : L.Symmetry) : g.gammaᵀ * g.gamma = 1 :=
  rotGamma_orth g.π g.Q g.orth

theorem fourier_rotation_matrix (L : LatticeModel V R T) (g : L.Symmetry) (e e' : V → Cx R)
    (he : ∀ r, e' (g.ρ r) = e r) (s : Fin np → R) (hs : ∀ i, s (g.π i) = s i) :
    (L.fourier e' s).toMatrix = g.gamma * (L.fourier e s).toMatrix * g.gammaᵀ :=
  rot_matrix_of_entries g.π g.Q _ _ (fourier_rotation L g e e' he s hs)

theorem fourier_rotation_charpoly (L : LatticeModel V R T) (g : L.Symmetry) (e e' : V → Cx R)
    (he : ∀ r, e' (g.ρ r) = e r) (s : Fin np → R) (hs : ∀ i, s (g.π i) = s i) :
    (L.fourier e' s).toMatrix.charpoly = (L.fourier e s).toMatrix.charpoly :=
  rot_charpoly g.π g.Q g.orth _ _ (fourier_rotation L g e e' he s hs)

end PhononModel
