import PhononModel.Lemmas.Fourier
import Mathlib.Tactic.Ring
import Mathlib.Tactic.Linarith
import Mathlib.Tactic.Zify
import Mathlib.Algebra.Order.Group.Int
import Mathlib.Algebra.Order.Ring.Int
import Mathlib.Data.Int.GCD
import Mathlib.Data.List.Nodup
import Mathlib.Data.List.Range

/-!
The commensurate-point sets (C06): counts, distinctness, integrality.
-/
set_option linter.unusedSectionVars false
namespace PhononModel.C06

/-! ### 3×3 integer matrix algebra on triples -/

theorem det3_matMul (A B : Mat3) : det3 (matMul A B) = det3 A * det3 B := by
  obtain ⟨⟨a, b, c⟩, ⟨d, e, f⟩, ⟨g, h, i⟩⟩ := A
  obtain ⟨⟨a', b', c'⟩, ⟨d', e', f'⟩, ⟨g', h', i'⟩⟩ := B
  simp only [det3, matMul, vecMul]; ring

theorem det3_T (S : Mat3) : det3 S.T = det3 S := by
  obtain ⟨⟨a, b, c⟩, ⟨d, e, f⟩, ⟨g, h, i⟩⟩ := S
  simp only [det3, Mat3.T]; ring

theorem det3_diag (d : P3) : det3 (diag3 d) = d.1 * d.2.1 * d.2.2 := by
  obtain ⟨a, b, c⟩ := d
  simp only [det3, diag3]; ring

theorem mulVec_matMul (A B : Mat3) (v : P3) : mulVec (matMul A B) v = mulVec A (mulVec B v) := by
  obtain ⟨⟨a, b, c⟩, ⟨d, e, f⟩, ⟨g, h, i⟩⟩ := A
  obtain ⟨⟨a', b', c'⟩, ⟨d', e', f'⟩, ⟨g', h', i'⟩⟩ := B
  obtain ⟨x, y, z⟩ := v
  apply P3.ext3 <;> simp only [mulVec, matMul, vecMul, P3.dot] <;> ring

theorem adj_mulVec (M : Mat3) (v : P3) :
    mulVec (adj3 M) (mulVec M v) = (det3 M * v.1, det3 M * v.2.1, det3 M * v.2.2) := by
  obtain ⟨⟨a, b, c⟩, ⟨d, e, f⟩, ⟨g, h, i⟩⟩ := M
  obtain ⟨x, y, z⟩ := v
  apply P3.ext3 <;> simp only [mulVec, adj3, det3, P3.dot] <;> ring

theorem vecMul_adj (S : Mat3) (v : P3) :
    vecMul (vecMul v (adj3 S)) S = (det3 S * v.1, det3 S * v.2.1, det3 S * v.2.2) := by
  obtain ⟨⟨a, b, c⟩, ⟨d, e, f⟩, ⟨g, h, i⟩⟩ := S
  obtain ⟨x, y, z⟩ := v
  apply P3.ext3 <;> simp only [vecMul, adj3, det3] <;> ring

theorem P3.Dvd.mulVec {n : Int} {w : P3} (h : P3.Dvd n w) (A : Mat3) : P3.Dvd n (C06.mulVec A w) := by
  unfold C06.mulVec
  refine ⟨?_, ?_, ?_⟩
  · have := h.dot A.1; simpa [P3.dot, mul_comm] using this
  · have := h.dot A.2.1; simpa [P3.dot, mul_comm] using this
  · have := h.dot A.2.2; simpa [P3.dot, mul_comm] using this

theorem P3.Dvd.vecMul {n : Int} {w : P3} (h : P3.Dvd n w) (A : Mat3) : P3.Dvd n (C06.vecMul w A) := by
  obtain ⟨h1, h2, h3⟩ := h
  unfold C06.vecMul
  exact ⟨Dvd.dvd.add (Dvd.dvd.add (Dvd.dvd.mul_right h1 _) (Dvd.dvd.mul_right h2 _)) (Dvd.dvd.mul_right h3 _),
    Dvd.dvd.add (Dvd.dvd.add (Dvd.dvd.mul_right h1 _) (Dvd.dvd.mul_right h2 _)) (Dvd.dvd.mul_right h3 _),
    Dvd.dvd.add (Dvd.dvd.add (Dvd.dvd.mul_right h1 _) (Dvd.dvd.mul_right h2 _)) (Dvd.dvd.mul_right h3 _)⟩

/-- a unimodular matrix can be cancelled in a congruence -/
theorem unimod_cancel {n : Int} (M : Mat3) (hM : det3 M = 1 ∨ det3 M = -1) (u : P3)
    (h : P3.Dvd n (mulVec M u)) : P3.Dvd n u := by
  have h2 := h.mulVec (adj3 M)
  rw [adj_mulVec] at h2
  obtain ⟨h1, h2, h3⟩ := h2
  rcases hM with e | e <;> rw [e] at h1 h2 h3
  · exact ⟨by simpa using h1, by simpa using h2, by simpa using h3⟩
  · exact ⟨by simpa using h1, by simpa using h2, by simpa using h3⟩

theorem P3.mod_dvd (p : P3) (n : Int) : P3.Dvd n ((p.mod n).sub p) := by
  obtain ⟨a, b, c⟩ := p
  refine ⟨?_, ?_, ?_⟩ <;> simp only [P3.mod, P3.sub] <;> exact Int.dvd_emod_sub_self

theorem mulVec_sub (A : Mat3) (v w : P3) : mulVec A (v.sub w) = (mulVec A v).sub (mulVec A w) := by
  obtain ⟨⟨a, b, c⟩, ⟨d, e, f⟩, ⟨g, h, i⟩⟩ := A
  obtain ⟨x, y, z⟩ := v
  obtain ⟨x', y', z'⟩ := w
  apply P3.ext3 <;> simp only [mulVec, P3.sub, P3.dot] <;> ring

theorem vecMul_sub (v w : P3) (A : Mat3) : vecMul (v.sub w) A = (vecMul v A).sub (vecMul w A) := by
  obtain ⟨⟨a, b, c⟩, ⟨d, e, f⟩, ⟨g, h, i⟩⟩ := A
  obtain ⟨x, y, z⟩ := v
  obtain ⟨x', y', z'⟩ := w
  apply P3.ext3 <;> simp only [vecMul, P3.sub] <;> ring

theorem P3.Dvd.add_of_sub {n : Int} {a b : P3} (h : P3.Dvd n (a.sub b)) (hb : P3.Dvd n b) : P3.Dvd n a := by
  obtain ⟨h1, h2, h3⟩ := h
  obtain ⟨g1, g2, g3⟩ := hb
  simp only [P3.sub] at h1 h2 h3
  exact ⟨by simpa using Int.dvd_add h1 g1, by simpa using Int.dvd_add h2 g2, by simpa using Int.dvd_add h3 g3⟩

/-! ### box -/

theorem box_length (m : Nat × Nat × Nat) : (box m).length = m.2.2 * (m.2.1 * m.1) := by
  simp [box, List.length_flatMap]

theorem mem_box {m : Nat × Nat × Nat} {p : P3} :
    p ∈ box m ↔ ∃ a b c : Nat, a < m.1 ∧ b < m.2.1 ∧ c < m.2.2 ∧ p = ((a : Int), (b : Int), (c : Int)) := by
  simp only [box, List.mem_flatMap, List.mem_range, List.mem_map, Int.ofNat_eq_natCast]
  constructor
  · rintro ⟨c, hc, b, hb, a, ha, rfl⟩
    exact ⟨a, b, c, ha, hb, hc, rfl⟩
  · rintro ⟨a, b, c, ha, hb, hc, rfl⟩
    exact ⟨c, hc, b, hb, a, ha, rfl⟩

theorem box_nodup (m : Nat × Nat × Nat) : (box m).Nodup := by
  unfold box
  rw [List.nodup_flatMap]
  refine ⟨?_, ?_⟩
  · intro c _
    rw [List.nodup_flatMap]
    refine ⟨?_, ?_⟩
    · intro b _
      apply List.Nodup.map _ List.nodup_range
      intro a a' h
      simpa using congrArg Prod.fst h
    · apply List.Pairwise.imp _ List.nodup_range
      intro b b' hbb'
      simp only [Function.onFun, List.disjoint_left, List.mem_map, List.mem_range]
      rintro p ⟨a, _, rfl⟩ ⟨a', _, h⟩
      apply hbb'
      have := congrArg (fun p : P3 => p.2.1) h
      simpa using this.symm
  · apply List.Pairwise.imp _ List.nodup_range
    intro c c' hcc'
    simp only [Function.onFun, List.disjoint_left, List.mem_flatMap, List.mem_map, List.mem_range]
    rintro p ⟨b, _, a, _, rfl⟩ ⟨b', _, a', _, h⟩
    apply hcc'
    have := congrArg (fun p : P3 => p.2.2) h
    simpa using this.symm

/-! ### Smith-normal-form route -/

structure SnfOK (S : Mat3) (d : P3) (P Q : Mat3) : Prop where
  hM : matMul P (matMul S.T Q) = diag3 d
  hP : det3 P = 1 ∨ det3 P = -1
  hQ : det3 Q = 1 ∨ det3 Q = -1
  h0 : 0 < d.1
  h1 : 0 < d.2.1
  h2 : 0 < d.2.2

theorem snfWf_sound {S : Mat3} {d : P3} {P Q : Mat3} (h : snfWf S d P Q = true) : SnfOK S d P Q := by
  simp only [snfWf, Bool.and_eq_true, beq_iff_eq, Bool.or_eq_true, decide_eq_true_eq] at h
  obtain ⟨⟨⟨⟨⟨hM, hP⟩, hQ⟩, h0⟩, h1⟩, h2⟩ := h
  exact ⟨hM, hP, hQ, h0, h1, h2⟩

theorem SnfOK.det_eq {S : Mat3} {d : P3} {P Q : Mat3} (h : SnfOK S d P Q) :
    (det3 S).natAbs = (d.1 * d.2.1 * d.2.2).natAbs := by
  have hdet : det3 P * (det3 S * det3 Q) = d.1 * d.2.1 * d.2.2 := by
    have := congrArg det3 h.hM
    rwa [det3_matMul, det3_matMul, det3_T, det3_diag] at this
  rw [← hdet, Int.natAbs_mul, Int.natAbs_mul]
  rcases h.hP with e | e <;> rcases h.hQ with e' | e' <;> simp [e, e']

theorem commPointsInt_length (S : Mat3) (d : P3) (P Q : Mat3) (h : snfWf S d P Q = true) :
    (commPointsInt d Q).length = (det3 S).natAbs := by
  have hs := snfWf_sound h
  rw [hs.det_eq]
  simp only [commPointsInt, List.length_map, box_length]
  apply Int.ofNat_inj.mp
  have hp : 0 < d.1 * d.2.1 * d.2.2 := by have := hs.h0; have := hs.h1; have := hs.h2; positivity
  push_cast
  rw [Int.toNat_of_nonneg hs.h0.le, Int.toNat_of_nonneg hs.h1.le, Int.toNat_of_nonneg hs.h2.le,
    abs_of_pos hp]
  ring

theorem cancel_helper (d m : Int) (hm : 0 < m) (a a' : Nat) (ha : (a : Int) < d) (ha' : (a' : Int) < d)
    (h : d * m ∣ ((a : Int) - a') * m) : a = a' := by
  have h1 : d ∣ (a : Int) - a' := Int.dvd_of_mul_dvd_mul_right hm.ne' h
  have h2 : |(a : Int) - a'| < d := by
    rw [abs_lt]; constructor <;> omega
  have := Int.eq_zero_of_abs_lt_dvd h1 h2
  omega

/-- the vector `(a D₁D₂, b D₀D₂, c D₀D₁)` -/
def snfVec (d p : P3) : P3 := (p.1 * d.2.1 * d.2.2, p.2.1 * d.1 * d.2.2, p.2.2 * d.1 * d.2.1)

theorem commPointsInt_eq (d : P3) (Q : Mat3) :
    commPointsInt d Q = (box (d.1.toNat, d.2.1.toNat, d.2.2.toNat)).map fun p =>
      (mulVec Q (snfVec d p)).mod (d.1 * d.2.1 * d.2.2) := rfl

theorem commPointsInt_nodup (S : Mat3) (d : P3) (P Q : Mat3) (h : snfWf S d P Q = true) :
    (commPointsInt d Q).Nodup := by
  have hs := snfWf_sound h
  rw [commPointsInt_eq]
  apply List.Nodup.map_on _ (box_nodup _)
  intro x hx y hy hxy
  obtain ⟨a, b, c, ha, hb, hc, rfl⟩ := mem_box.mp hx
  obtain ⟨a', b', c', ha', hb', hc', rfl⟩ := mem_box.mp hy
  have hd := P3.mod_eq_iff.mp hxy
  rw [← mulVec_sub] at hd
  have hv := unimod_cancel Q hs.hQ _ hd
  obtain ⟨v1, v2, v3⟩ := hv
  simp only [snfVec, P3.sub] at v1 v2 v3
  have h0 := hs.h0; have h1 := hs.h1; have h2 := hs.h2
  simp only [] at ha hb hc ha' hb' hc'
  have ea : a = a' := by
    apply cancel_helper d.1 (d.2.1 * d.2.2) (by positivity) a a' (by omega) (by omega)
    have e : ((a : Int) - a') * (d.2.1 * d.2.2) = (a : Int) * d.2.1 * d.2.2 - (a' : Int) * d.2.1 * d.2.2 := by ring
    rw [e]; have e2 : d.1 * (d.2.1 * d.2.2) = d.1 * d.2.1 * d.2.2 := by ring
    rw [e2]; exact v1
  have eb : b = b' := by
    apply cancel_helper d.2.1 (d.1 * d.2.2) (by positivity) b b' (by omega) (by omega)
    have e : ((b : Int) - b') * (d.1 * d.2.2) = (b : Int) * d.1 * d.2.2 - (b' : Int) * d.1 * d.2.2 := by ring
    rw [e]; have e2 : d.2.1 * (d.1 * d.2.2) = d.1 * d.2.1 * d.2.2 := by ring
    rw [e2]; exact v2
  have ec : c = c' := by
    apply cancel_helper d.2.2 (d.1 * d.2.1) (by positivity) c c' (by omega) (by omega)
    have e : ((c : Int) - c') * (d.1 * d.2.1) = (c : Int) * d.1 * d.2.1 - (c' : Int) * d.1 * d.2.1 := by ring
    rw [e]; have e2 : d.2.2 * (d.1 * d.2.1) = d.1 * d.2.1 * d.2.2 := by ring
    rw [e2]; exact v3
  rw [ea, eb, ec]

theorem P3.mod_range (p : P3) {n : Int} (hn : 0 < n) :
    0 ≤ (p.mod n).1 ∧ (p.mod n).1 < n ∧ 0 ≤ (p.mod n).2.1 ∧ (p.mod n).2.1 < n ∧ 0 ≤ (p.mod n).2.2 ∧ (p.mod n).2.2 < n := by
  obtain ⟨a, b, c⟩ := p
  simp only [P3.mod]
  exact ⟨Int.emod_nonneg _ hn.ne', Int.emod_lt_of_pos _ hn, Int.emod_nonneg _ hn.ne', Int.emod_lt_of_pos _ hn,
    Int.emod_nonneg _ hn.ne', Int.emod_lt_of_pos _ hn⟩

theorem commPointsInt_range (S : Mat3) (d : P3) (P Q : Mat3) (h : snfWf S d P Q = true) :
    ∀ p ∈ commPointsInt d Q, 0 ≤ p.1 ∧ p.1 < d.1 * d.2.1 * d.2.2 ∧ 0 ≤ p.2.1 ∧ p.2.1 < d.1 * d.2.1 * d.2.2 ∧
        0 ≤ p.2.2 ∧ p.2.2 < d.1 * d.2.1 * d.2.2 := by
  have hs := snfWf_sound h
  have hp : 0 < d.1 * d.2.1 * d.2.2 := by have := hs.h0; have := hs.h1; have := hs.h2; positivity
  intro p hp'
  rw [commPointsInt_eq, List.mem_map] at hp'
  obtain ⟨x, _, rfl⟩ := hp'
  exact P3.mod_range _ hp

theorem commPointsInt_integral (S : Mat3) (d : P3) (P Q : Mat3) (h : snfWf S d P Q = true) :
    ∀ p ∈ commPointsInt d Q, P3.Dvd (d.1 * d.2.1 * d.2.2) (mulVec S.T p) := by
  have hs := snfWf_sound h
  intro p hp'
  rw [commPointsInt_eq, List.mem_map] at hp'
  obtain ⟨x, _, rfl⟩ := hp'
  have h1 := (P3.mod_dvd (mulVec Q (snfVec d x)) (d.1 * d.2.1 * d.2.2)).mulVec S.T
  rw [mulVec_sub] at h1
  apply P3.Dvd.add_of_sub h1
  apply unimod_cancel P hs.hP
  have e : mulVec P (mulVec S.T (mulVec Q (snfVec d x))) = mulVec (matMul P (matMul S.T Q)) (snfVec d x) := by
    rw [mulVec_matMul, mulVec_matMul]
  rw [e, hs.hM]
  obtain ⟨d0, d1, d2⟩ := d
  obtain ⟨x0, x1, x2⟩ := x
  simp only [mulVec, diag3, snfVec, P3.dot, P3.Dvd]
  refine ⟨⟨x0, by ring⟩, ⟨x1, by ring⟩, ⟨x2, by ring⟩⟩

/-! ### classic route -/

theorem mem_dedup {l : List P3} {x : P3} : x ∈ dedup l ↔ x ∈ l := by
  induction l with
  | nil => simp [dedup]
  | cons y ys ih =>
    simp only [dedup, List.mem_cons, List.mem_filter, ih, bne_iff_ne, ne_eq]
    constructor
    · rintro (h | ⟨h, _⟩)
      · exact Or.inl h
      · exact Or.inr h
    · rintro (h | h)
      · exact Or.inl h
      · by_cases e : x = y
        · exact Or.inl e
        · exact Or.inr ⟨h, e⟩

theorem dedup_nodup (l : List P3) : (dedup l).Nodup := by
  induction l with
  | nil => simp [dedup]
  | cons y ys ih =>
    rw [dedup, List.nodup_cons]
    refine ⟨?_, ih.filter _⟩
    intro hmem
    rw [List.mem_filter] at hmem
    simp at hmem

theorem dedup_of_nodup {l : List P3} (h : l.Nodup) : dedup l = l := by
  induction l with
  | nil => simp [dedup]
  | cons y ys ih =>
    rw [List.nodup_cons] at h
    simp only [dedup, ih h.2]
    congr 1
    rw [List.filter_eq_self]
    intro a ha
    simp only [bne_iff_ne, ne_eq]
    intro e; subst e; exact h.1 ha

theorem commPointsK_nodup (S : Mat3) : (commPointsK S).Nodup := dedup_nodup _

theorem commPointsK_range (S : Mat3) (hS : 0 < det3 S) : ∀ k ∈ commPointsK S,
    0 ≤ k.1 ∧ k.1 < det3 S ∧ 0 ≤ k.2.1 ∧ k.2.1 < det3 S ∧ 0 ≤ k.2.2 ∧ k.2.2 < det3 S := by
  intro k hk
  rw [commPointsK, mem_dedup, List.mem_map] at hk
  obtain ⟨lp, _, rfl⟩ := hk
  exact P3.mod_range _ hS

theorem commPointsK_integral (S : Mat3) : ∀ k ∈ commPointsK S, P3.Dvd (det3 S) (vecMul k S) := by
  intro k hk
  rw [commPointsK, mem_dedup, List.mem_map] at hk
  obtain ⟨lp, _, rfl⟩ := hk
  have h1 := (P3.mod_dvd (vecMul lp (adj3 S)) (det3 S)).vecMul S
  rw [vecMul_sub] at h1
  apply P3.Dvd.add_of_sub h1
  rw [vecMul_adj]
  exact ⟨Dvd.intro _ rfl, Dvd.intro _ rfl, Dvd.intro _ rfl⟩

theorem commPointsK_length_diag (a b c : Int) (ha : 0 < a) (hb : 0 < b) (hc : 0 < c) :
    (commPointsK (diag3 (a, b, c))).length = (det3 (diag3 (a, b, c))).natAbs := by
  have hdet : det3 (diag3 (a, b, c)) = a * b * c := by rw [det3_diag]
  have hpos : 0 < a * b * c := by positivity
  have hnd : ((box (frame (diag3 (a, b, c)))).map (pointOf (diag3 (a, b, c)))).Nodup := by
    apply List.Nodup.map_on _ (box_nodup _)
    intro x hx y hy hxy
    obtain ⟨x0, x1, x2, h0, h1, h2, rfl⟩ := mem_box.mp hx
    obtain ⟨y0, y1, y2, g0, g1, g2, rfl⟩ := mem_box.mp hy
    simp only [frame, diag3, Int.natAbs_zero, add_zero, zero_add] at h0 h1 h2 g0 g1 g2
    have hd := P3.mod_eq_iff.mp hxy
    rw [hdet] at hd
    obtain ⟨v1, v2, v3⟩ := hd
    simp only [vecMul, adj3, diag3, P3.sub] at v1 v2 v3
    have e0 : x0 = y0 := by
      apply cancel_helper a (b * c) (by positivity) x0 y0 (by omega) (by omega)
      have e2 : a * (b * c) = a * b * c := by ring
      rw [e2]; convert v1 using 1; ring
    have e1 : x1 = y1 := by
      apply cancel_helper b (a * c) (by positivity) x1 y1 (by omega) (by omega)
      have e2 : b * (a * c) = a * b * c := by ring
      rw [e2]; convert v2 using 1; ring
    have e2 : x2 = y2 := by
      apply cancel_helper c (a * b) (by positivity) x2 y2 (by omega) (by omega)
      have e3 : c * (a * b) = a * b * c := by ring
      rw [e3]; convert v3 using 1; ring
    rw [e0, e1, e2]
  rw [commPointsK, dedup_of_nodup hnd, List.length_map, box_length, hdet]
  simp only [frame, diag3, Int.natAbs_zero, add_zero, zero_add]
  rw [Int.natAbs_mul, Int.natAbs_mul]; ring

/-! ### categorisation -/

theorem mem_catII {pts : List P3} {i : Nat} : i ∈ catII pts ↔ i < pts.length ∧ partnerIdx pts i = some i := by
  simp only [catII, List.mem_filterMap, List.mem_range]
  constructor
  · rintro ⟨i', hi', ht⟩
    split at ht
    · next e =>
      simp only [Option.some.injEq] at ht
      subst ht
      exact ⟨hi', by simpa using e⟩
    · exact absurd ht (by simp)
  · rintro ⟨hi, hp⟩
    exact ⟨i, hi, by simp only [hp, beq_self_eq_true, if_true]⟩

theorem mem_catIJ {pts : List P3} {i : Nat} :
    i ∈ catIJ pts ↔ i < pts.length ∧ ∃ j, partnerIdx pts i = some j ∧ i < j := by
  simp only [catIJ, List.mem_filterMap, List.mem_range]
  constructor
  · rintro ⟨i', hi', ht⟩
    split at ht
    · next j hj =>
      split at ht
      · next hlt =>
        simp only [Option.some.injEq] at ht
        subst ht
        exact ⟨hi', j, hj, hlt⟩
      · exact absurd ht (by simp)
    · exact absurd ht (by simp)
  · rintro ⟨hi, j, hp, hlt⟩
    exact ⟨i, hi, by simp only [hp, hlt, if_true]⟩

theorem categorize_spec (pts : List P3) (ii ij : List Nat) (h : categorize pts = some (ii, ij)) :
    ii.length + ij.length * 2 = pts.length ∧
    (∀ i, i ∈ ii ↔ i < pts.length ∧ partnerIdx pts i = some i) ∧
    (∀ i, i ∈ ij ↔ i < pts.length ∧ ∃ j, partnerIdx pts i = some j ∧ i < j) := by
  unfold categorize at h
  split at h
  · next hc =>
    simp only [Option.some.injEq, Prod.mk.injEq] at h
    obtain ⟨h1, h2⟩ := h
    subst h1 h2
    exact ⟨by simpa using hc, fun i => mem_catII, fun i => mem_catIJ⟩
  · exact absurd h (by simp)

end PhononModel.C06
