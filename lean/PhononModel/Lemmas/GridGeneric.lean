import PhononModel.Lemmas.GridImage
import PhononModel.Lemmas.GridShift

/-! The identity-only reduction returns every grid point with weight 1 (generic-shift path, C09). -/
set_option linter.unusedVariables false
namespace PhononModel.Grid

theorem reduce1_emod (m a : Nat) (ha : a < m) : ((reduce1 m a) % (m : Int)).toNat = a := by
  have hm : (0 : Int) < m := by exact_mod_cast (by omega : 0 < m)
  have e : ((a : Int)) % (m : Int) = a := Int.emod_eq_of_lt (by positivity) (by exact_mod_cast ha)
  rcases reduce1_eq m a with h | h <;> rw [h]
  · rw [e]; simp
  · have : ((a : Int) - (m : Int)) % (m : Int) = (a : Int) % (m : Int) := by
      have := Int.add_mul_emod_self_left (a : Int) (m : Int) (-1)
      simpa [sub_eq_add_neg] using this
    rw [this, e]; simp

theorem Mesh.index_addr (G : Mesh) (hx : 0 < G.m.x) (hy : 0 < G.m.y) (hz : 0 < G.m.z) (i : Nat) (hi : i < G.N) :
    G.index (G.addr i) = i := by
  unfold Mesh.index Mesh.addr
  simp only
  have h2 : i / (G.m.x * G.m.y) < G.m.z := by
    rw [Nat.div_lt_iff_lt_mul (by positivity)]
    unfold Mesh.N at hi
    calc i < G.m.x * G.m.y * G.m.z := hi
      _ = G.m.z * (G.m.x * G.m.y) := by ring
  rw [reduce1_emod _ _ (Nat.mod_lt _ hx), reduce1_emod _ _ (Nat.mod_lt _ hy), reduce1_emod _ _ h2]
  exact encode G.m.x G.m.y i

theorem one_mulVec (v : IV) : M3.one.mulVec v = v := by
  simp [M3.one, M3.mulVec, dot]

theorem Mesh.image_one (G : Mesh) (hx : 0 < G.m.x) (hy : 0 < G.m.y) (hz : 0 < G.m.z) (i : Nat) (hi : i < G.N) :
    G.image M3.one i = some i := by
  have vx : G.div.x ≠ 0 := by simp [Mesh.div]; omega
  have vy : G.div.y ≠ 0 := by simp [Mesh.div]; omega
  have vz : G.div.z ≠ 0 := by simp [Mesh.div]; omega
  unfold Mesh.image Mesh.rotDbl
  simp only [one_mulVec]
  rw [if_pos ⟨Int.mul_emod_left _ _, Int.mul_emod_left _ _, Int.mul_emod_left _ _⟩]
  simp only [Int.mul_ediv_cancel _ vx, Int.mul_ediv_cancel _ vy, Int.mul_ediv_cancel _ vz]
  have px : ((G.dbl i).x - b2i G.s.x) % 2 = 0 ∧ ((G.dbl i).x - b2i G.s.x) / 2 = (G.addr i).x := by
    simp only [Mesh.dbl]; omega
  have py : ((G.dbl i).y - b2i G.s.y) % 2 = 0 ∧ ((G.dbl i).y - b2i G.s.y) / 2 = (G.addr i).y := by
    simp only [Mesh.dbl]; omega
  have pz : ((G.dbl i).z - b2i G.s.z) % 2 = 0 ∧ ((G.dbl i).z - b2i G.s.z) / 2 = (G.addr i).z := by
    simp only [Mesh.dbl]; omega
  rw [if_pos ⟨px.1, py.1, pz.1⟩]
  simp only [Option.map_some, px.2, py.2, pz.2, Option.some.injEq]
  exact G.index_addr hx hy hz i hi

theorem buildTable_id (img : Nat → List (Option Nat)) (n : Nat) (h : ∀ i, i < n → img i = [some i]) :
    buildTable img n = List.range n := by
  induction n with
  | zero => rfl
  | succ n ih =>
    rw [buildTable_succ, ih (fun i hi => h i (by omega)), List.range_succ]
    congr 1
    unfold newEntry
    rw [h n (by omega)]
    simp [firstSmaller]

theorem extractIr_range (N : Nat) : extractIr (List.range N) = some (List.range N, List.replicate N 1) := by
  unfold extractIr
  have hall : ((List.range N).all fun g => decide (g < (List.range N).length)) = true := by
    rw [List.all_eq_true]; intro g hg; simpa using hg
  rw [if_pos hall]
  simp only [List.length_range, Option.some.injEq, Prod.mk.injEq]
  have hf : (List.range N).filter (fun u => (List.range N).contains u) = List.range N := by
    rw [List.filter_eq_self]; intro a ha; simpa using ha
  refine ⟨hf, ?_⟩
  rw [hf]
  apply List.ext_getElem
  · simp
  · intro k h1 h2
    simp only [List.getElem_map, List.getElem_range, List.getElem_replicate]
    exact List.count_eq_one_of_mem List.nodup_range (by simp at h1; simpa using h1)

theorem recOps_one : recOps [M3.one] false = [M3.one] := by decide

/-- identity only, no time reversal: every grid point is its own representative -/
theorem setIrQpoints_identity (mesh : V3 Nat) (s : V3 Bool) (hx : 0 < mesh.x) (hy : 0 < mesh.y) (hz : 0 < mesh.z) :
    setIrQpoints mesh s [M3.one] false =
      .ok ⟨s, List.range (mesh.x * mesh.y * mesh.z), List.range (mesh.x * mesh.y * mesh.z),
        List.replicate (mesh.x * mesh.y * mesh.z) 1,
        (List.range (mesh.x * mesh.y * mesh.z)).map (⟨mesh, s⟩ : Mesh).q⟩ := by
  unfold setIrQpoints
  have hN : (⟨mesh, s⟩ : Mesh).N = mesh.x * mesh.y * mesh.z := rfl
  have hpos : 0 < mesh.x * mesh.y * mesh.z := by positivity
  simp only [hN]
  rw [if_neg (by omega)]
  have ht : (⟨mesh, s⟩ : Mesh).irTable (recOps [M3.one] false) = List.range (mesh.x * mesh.y * mesh.z) := by
    rw [recOps_one]
    unfold Mesh.irTable
    rw [hN]
    apply buildTable_id
    intro i hi
    unfold Mesh.images
    simp only [List.map_cons, List.map_nil]
    rw [Mesh.image_one _ hx hy hz i (by rw [hN]; exact hi)]
  rw [ht, extractIr_range]

end PhononModel.Grid
