import PhononModel.Lemmas.FDSolver
import PhononModel.Lemmas.Displacement
import Mathlib.LinearAlgebra.Matrix.Determinant.Basic
import Mathlib.Data.List.OfFn
import Mathlib.Tactic.Push

/-! From the integer statement "the site-symmetry images of the chosen directions contain three
independent vectors" to "the Cartesian design matrix has `det (UᵀU) ≠ 0`". -/
set_option linter.unusedSectionVars false
namespace PhononModel.FD
open PhononModel Finset Matrix PhononModel.Disp

variable {F : Type} [Field F] [LinearOrder F] [IsStrictOrderedRing F]

def castV (v : V3) : Fin 3 → F := ![(v.x : F), (v.y : F), (v.z : F)]
def castM (r : M3) : Matrix (Fin 3) (Fin 3) F := Matrix.of ![castV r.r0, castV r.r1, castV r.r2]

theorem castM_mulVec (r : M3) (d : V3) : (castM r : Matrix (Fin 3) (Fin 3) F) *ᵥ castV d = castV (r.rot d) := by
  funext i
  fin_cases i <;>
    simp [castM, castV, Matrix.mulVec, dotProduct, Fin.sum_univ_three, M3.rot, V3.dot]

theorem det_castV (a b c : V3) :
    (Matrix.of ![castV a, castV b, castV c] : Matrix (Fin 3) (Fin 3) F).det = ((Disp.det3 a b c : Int) : F) := by
  rw [Matrix.det_fin_three]
  simp [castV, Disp.det3]
  ring

/-- Cartesian design matrix of one atom has full column rank.
`Lc`: lattice as column vectors (`supercell.cell.T`); `Rc s · Lc = Lc · r_s` (similarity transformation);
`u k = c_k · Lc d_k` (`directions_to_displacement_dataset`: normalisation to the displacement distance). -/
theorem design_full_rank {m nd : Nat} (Sf : Fin m → M3) (d : Fin nd → V3)
    (hrank : Rank3 (images (List.ofFn Sf) (List.ofFn d)))
    (Lc : Matrix (Fin 3) (Fin 3) F) (hL : Lc.det ≠ 0)
    (Rc : Fin m → Mat3 F) (hsim : ∀ s, ofMat (Rc s) * Lc = Lc * castM (Sf s))
    (c : Fin nd → F) (hc : ∀ k, c k ≠ 0) (u : Fin nd → Vec3 F) (hu : ∀ k, u k = c k • (Lc *ᵥ castV (d k))) :
    det3 (gram (rotDisps Rc u)) ≠ 0 := by
  obtain ⟨a, ha, b, hb, e, he, hdet⟩ := hrank
  obtain ⟨d₁, hd₁, r₁, hr₁, rfl⟩ := mem_images.mp ha
  obtain ⟨d₂, hd₂, r₂, hr₂, rfl⟩ := mem_images.mp hb
  obtain ⟨d₃, hd₃, r₃, hr₃, rfl⟩ := mem_images.mp he
  obtain ⟨k₁, rfl⟩ := (List.mem_ofFn' d d₁).mp hd₁
  obtain ⟨k₂, rfl⟩ := (List.mem_ofFn' d d₂).mp hd₂
  obtain ⟨k₃, rfl⟩ := (List.mem_ofFn' d d₃).mp hd₃
  obtain ⟨s₁, rfl⟩ := (List.mem_ofFn' Sf r₁).mp hr₁
  obtain ⟨s₂, rfl⟩ := (List.mem_ofFn' Sf r₂).mp hr₂
  obtain ⟨s₃, rfl⟩ := (List.mem_ofFn' Sf r₃).mp hr₃
  have hrow : ∀ k s, toM (rotDisps Rc u) (k, s) = c k • (Lc *ᵥ castV ((Sf s).rot (d k))) := by
    intro k s
    funext j
    show rotDisps Rc u k s j = _
    rw [rotDisps_eq, hu, Matrix.mulVec_smul, Matrix.mulVec_mulVec, hsim, ← Matrix.mulVec_mulVec, castM_mulVec]
  rw [det3_eq_det, gram_eq]
  apply det_gram_ne_zero (toM (rotDisps Rc u)) (k₁, s₁) (k₂, s₂) (k₃, s₃)
  rw [hrow, hrow, hrow]
  set w₁ := (Sf s₁).rot (d k₁)
  set w₂ := (Sf s₂).rot (d k₂)
  set w₃ := (Sf s₃).rot (d k₃)
  have hfac : (Matrix.of ![c k₁ • (Lc *ᵥ castV w₁), c k₂ • (Lc *ᵥ castV w₂), c k₃ • (Lc *ᵥ castV w₃)] :
      Matrix (Fin 3) (Fin 3) F) =
      Matrix.diagonal ![c k₁, c k₂, c k₃] * (Matrix.of ![castV w₁, castV w₂, castV w₃] * Lcᵀ) := by
    ext i j
    rw [Matrix.diagonal_mul]
    fin_cases i <;>
      simp [Matrix.mul_apply, Matrix.mulVec, dotProduct, mul_comm]
  rw [hfac, Matrix.det_mul, Matrix.det_mul, Matrix.det_diagonal, Matrix.det_transpose, det_castV]
  refine mul_ne_zero ?_ (mul_ne_zero ?_ hL)
  · simp [Fin.prod_univ_three, hc]
  · exact_mod_cast hdet

end PhononModel.FD
