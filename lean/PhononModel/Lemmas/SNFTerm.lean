import PhononModel.Lemmas.SNFDiag
/-!
Termination of the (unbounded) `for _ in self` loop of `SNF3x3`: a `__next__` that does not raise
`StopIteration` strictly decreases `|A₀₀|` (while the first row/column is not yet cleared) resp. `|A₁₁|`
(afterwards), as long as the `Xgcd` loops end regularly.
-/
set_option linter.unusedSectionVars false
namespace PhononModel.SNF
open PhononModel

theorem swap02_A (s : St) : (rowOp (swapL 0 2) s).A =
    ⟨s.A.a20, s.A.a21, s.A.a22, s.A.a10, s.A.a11, s.A.a12, s.A.a00, s.A.a01, s.A.a02⟩ := by
  have : swapL 0 2 = ⟨0,0,1,0,1,0,1,0,0⟩ := by decide
  simp [rowOp, this, M3.mul_def, M3.mul]

theorem zfc1_a00 (s : St) : (zeroFirstColumn 1 s).A.a00 = (xgcd s.A.a00 s.A.a10).r := by
  rw [zfc1_A, xgcd_bezout' s.A.a00 s.A.a10]; simp only; ring

theorem zfc2_a00 (s : St) : (zeroFirstColumn 2 s).A.a00 = (xgcd s.A.a00 s.A.a20).r := by
  rw [zfc2_A, xgcd_bezout' s.A.a00 s.A.a20]; simp only; ring

theorem zsc_a11 (s : St) : (zeroSecondColumn s).A.a11 = (xgcd s.A.a11 s.A.a21).r := by
  rw [zsc_A, xgcd_bezout' s.A.a11 s.A.a21]; simp only; ring

/-- one conditional zeroing step: new pivot is non-zero and divides old pivot and the zeroed entry -/
theorem zfc1_step (s : St) (hp : s.A.a00 ≠ 0) (hx : (if s.A.a10 ≠ 0 then zeroFirstColumn 1 s else s).xok = true) :
    let s' := (if s.A.a10 ≠ 0 then zeroFirstColumn 1 s else s)
    s.xok = true ∧ s'.A.a00 ≠ 0 ∧ s'.A.a00 ∣ s.A.a00 ∧ s'.A.a00 ∣ s.A.a10 ∧ s'.A.a20 = s.A.a20 := by
  by_cases hb : s.A.a10 ≠ 0
  · simp only [if_pos hb] at hx ⊢
    rw [zfc_xok] at hx
    simp only [Bool.and_eq_true] at hx
    obtain ⟨hr, ha, hb'⟩ := xgcd_facts _ _ hb hx.2
    refine ⟨hx.1, ?_, ?_, ?_, ?_⟩
    · rw [zfc1_a00]; exact hr
    · rw [zfc1_a00]; exact ha
    · rw [zfc1_a00]; exact hb'
    · rw [zfc1_A]
  · simp only [if_neg hb] at hx ⊢
    exact ⟨hx, hp, dvd_refl _, by rw [not_not.mp hb]; exact dvd_zero _, trivial⟩

theorem zfc2_step (s : St) (hp : s.A.a00 ≠ 0) (hx : (if s.A.a20 ≠ 0 then zeroFirstColumn 2 s else s).xok = true) :
    let s' := (if s.A.a20 ≠ 0 then zeroFirstColumn 2 s else s)
    s.xok = true ∧ s'.A.a00 ≠ 0 ∧ s'.A.a00 ∣ s.A.a00 ∧ s'.A.a00 ∣ s.A.a20 := by
  by_cases hb : s.A.a20 ≠ 0
  · simp only [if_pos hb] at hx ⊢
    rw [zfc_xok] at hx
    simp only [Bool.and_eq_true] at hx
    obtain ⟨hr, ha, hb'⟩ := xgcd_facts _ _ hb hx.2
    refine ⟨hx.1, ?_, ?_, ?_⟩
    · rw [zfc2_a00]; exact hr
    · rw [zfc2_a00]; exact ha
    · rw [zfc2_a00]; exact hb'
  · simp only [if_neg hb] at hx ⊢
    exact ⟨hx, hp, dvd_refl _, by rw [not_not.mp hb]; exact dvd_zero _⟩

/-- `_first_column`: the new pivot is non-zero and divides the whole old first column -/
theorem firstColumn_dvd (s s' : St) (h : firstColumn s = .ok s') (hx : s'.xok = true) :
    s'.A.a00 ≠ 0 ∧ s'.A.a00 ∣ s.A.a00 ∧ s'.A.a00 ∣ s.A.a10 ∧ s'.A.a00 ∣ s.A.a20 := by
  unfold firstColumn at h
  split at h
  · cases h
  · next i hi =>
    simp only [Except.ok.injEq] at h
    subst h
    -- the column after the swap: non-zero head, same entries as a set
    have hs1 : ∃ s1 : St, s1 = (if i ≠ 0 then rowOp (swapL 0 i) s else s) ∧ s1.A.a00 ≠ 0 ∧
        (∀ d : Int, d ∣ s1.A.a00 → d ∣ s1.A.a10 → d ∣ s1.A.a20 → d ∣ s.A.a00 ∧ d ∣ s.A.a10 ∧ d ∣ s.A.a20) := by
      refine ⟨_, rfl, ?_, ?_⟩
      · unfold searchFirstPivot at hi
        split at hi
        · next h0 => simp only [Option.some.injEq] at hi; subst hi; simpa using h0
        · split at hi
          · next h0 h1 => simp only [Option.some.injEq] at hi; subst hi; simp only [ne_eq, Fin.reduceEq, not_false_eq_true, if_true]; rw [swap01_A]; exact h1
          · split at hi
            · next h0 h1 h2 => simp only [Option.some.injEq] at hi; subst hi; simp only [ne_eq, Fin.reduceEq, not_false_eq_true, if_true]; rw [swap02_A]; exact h2
            · cases hi
      · intro d d0 d1 d2
        have hcases : i = 0 ∨ i = 1 ∨ i = 2 := by
          have : ∀ k : Fin 3, k = 0 ∨ k = 1 ∨ k = 2 := by decide
          exact this i
        rcases hcases with rfl | rfl | rfl
        · simp only [ne_eq, not_true_eq_false, if_false] at d0 d1 d2; exact ⟨d0, d1, d2⟩
        · simp only [ne_eq, Fin.reduceEq, not_false_eq_true, if_true] at d0 d1 d2
          rw [swap01_A] at d0 d1 d2; exact ⟨d1, d0, d2⟩
        · simp only [ne_eq, Fin.reduceEq, not_false_eq_true, if_true] at d0 d1 d2
          rw [swap02_A] at d0 d1 d2; exact ⟨d2, d1, d0⟩
    obtain ⟨s1, hs1e, hp1, hset⟩ := hs1
    rw [← hs1e] at hx ⊢
    -- stage 2 and 3
    have key : ∀ s2 : St, s2 = (if s1.A.a10 ≠ 0 then zeroFirstColumn 1 s1 else s1) →
        (if s2.A.a20 ≠ 0 then zeroFirstColumn 2 s2 else s2).xok = true →
        (if s2.A.a20 ≠ 0 then zeroFirstColumn 2 s2 else s2).A.a00 ≠ 0 ∧
        (if s2.A.a20 ≠ 0 then zeroFirstColumn 2 s2 else s2).A.a00 ∣ s1.A.a00 ∧
        (if s2.A.a20 ≠ 0 then zeroFirstColumn 2 s2 else s2).A.a00 ∣ s1.A.a10 ∧
        (if s2.A.a20 ≠ 0 then zeroFirstColumn 2 s2 else s2).A.a00 ∣ s1.A.a20 := by
      intro s2 hs2 hx3
      have hx2' : s2.xok = true := by
        by_cases hb : s2.A.a20 ≠ 0
        · rw [if_pos hb, zfc_xok] at hx3; simp only [Bool.and_eq_true] at hx3; exact hx3.1
        · rw [if_neg hb] at hx3; exact hx3
      have st2 := zfc1_step s1 hp1 (by rw [← hs2]; exact hx2')
      simp only at st2
      rw [← hs2] at st2
      obtain ⟨_, p2, d20, d21, e20⟩ := st2
      have st3 := zfc2_step s2 p2 hx3
      simp only at st3
      obtain ⟨_, p3, d30, d32⟩ := st3
      exact ⟨p3, dvd_trans d30 d20, dvd_trans d30 d21, by rw [← e20]; exact d32⟩
    obtain ⟨p3, d0, d1, d2⟩ := key _ rfl hx
    exact ⟨p3, hset _ d0 d1 d2⟩

theorem natAbs_lt_of_proper_dvd {d a b : Int} (ha : a ≠ 0) (hda : d ∣ a) (hdb : d ∣ b) (hab : ¬ a ∣ b) :
    d.natAbs < a.natAbs := by
  have hle : d.natAbs ≤ a.natAbs := Int.natAbs_le_of_dvd_ne_zero hda ha
  rcases Nat.lt_or_ge d.natAbs a.natAbs with h | h
  · exact h
  · exfalso
    have heq : d.natAbs = a.natAbs := le_antisymm hle h
    have : a ∣ d := Int.natAbs_dvd_natAbs.mp (by rw [heq])
    exact hab (dvd_trans this hdb)

end PhononModel.SNF

namespace PhononModel.SNF
open PhononModel

/-- state after a `_first()` that returned `False` -/
def PostA (s : St) : Prop := s.A.a00 ≠ 0 ∧ ¬(s.A.a00 ∣ s.A.a10 ∧ s.A.a00 ∣ s.A.a20)
/-- state after a `_second()` that returned `False` -/
def PostB (s : St) : Prop := Z1 s.A ∧ s.A.a11 ≠ 0 ∧ ¬(s.A.a11 ∣ s.A.a21)

theorem firstFinalize_a00 (s : St) : (firstFinalize s).A.a00 = s.A.a00 := by rw [firstFinalize_A]

theorem first_a00_dvd (s s' : St) (b : Bool) (h : first s = .ok (s', b)) (hx : s'.xok = true) :
    s'.A.a00 ≠ 0 ∧ s'.A.a00 ∣ s.A.a00 ∧ s'.A.a00 ∣ s.A.a10 ∧ s'.A.a00 ∣ s.A.a20 := by
  obtain ⟨s1, h1, hc⟩ := first_split s s' b h
  have e : s'.A.a00 = s1.A.a00 ∧ s1.xok = true := by
    rcases hc with ⟨_, _, rfl, _⟩ | ⟨_, _, _, rfl, _⟩ | ⟨rfl, _⟩
    · exact ⟨rfl, hx⟩
    · exact ⟨firstFinalize_a00 s1, hx⟩
    · exact ⟨rfl, hx⟩
  rw [e.1]
  obtain ⟨sa, sb, ha, hb, rfl⟩ := firstOneLoop_split s s1 h1
  have hxb : sb.xok = true := e.2
  obtain ⟨pb, db, _, _⟩ := firstColumn_dvd _ _ hb hxb
  have hxa : sa.xok = true := (firstColumn_post _ _ hb hxb).1
  obtain ⟨_, da0, da1, da2⟩ := firstColumn_dvd _ _ ha hxa
  have e2 : (tr sb).A.a00 = sb.A.a00 := rfl
  have e3 : (tr sa).A.a00 = sa.A.a00 := rfl
  rw [e2]; rw [e3] at db
  exact ⟨pb, dvd_trans db da0, dvd_trans db da1, dvd_trans db da2⟩

theorem first_decreases (s s' : St) (b : Bool) (h : first s = .ok (s', b)) (hx : s'.xok = true) (hA : PostA s) :
    s'.A.a00.natAbs < s.A.a00.natAbs := by
  obtain ⟨_, d0, d1, d2⟩ := first_a00_dvd s s' b h hx
  obtain ⟨hp, hn⟩ := hA
  by_cases h1 : s.A.a00 ∣ s.A.a10
  · have h2 : ¬ s.A.a00 ∣ s.A.a20 := fun h2 => hn ⟨h1, h2⟩
    exact natAbs_lt_of_proper_dvd hp d0 d2 h2
  · exact natAbs_lt_of_proper_dvd hp d0 d1 h1

theorem pyMod_zero_iff (a b : Int) (hb : b ≠ 0) : pyMod a b = 0 ↔ b ∣ a := by
  simp only [pyMod, if_neg hb]
  exact Int.dvd_iff_fmod_eq_zero.symm

theorem first_false_postA (s s' : St) (h : first s = .ok (s', false)) (hd : DetNZ s) (hx : s'.xok = true) : PostA s' := by
  unfold first at h
  simp only [bind, Except.bind, pure, Except.pure] at h
  split at h
  · cases h
  · next s1 h1 =>
    have hd1 : DetNZ s1 := firstOneLoop_adm detNZ_adm _ _ h1 hd
    split at h
    · simp only [Except.ok.injEq, Prod.mk.injEq] at h; exact absurd h.2 (by simp)
    · next hc =>
      split at h
      · simp only [Except.ok.injEq, Prod.mk.injEq] at h; exact absurd h.2 (by simp)
      · next hm =>
        simp only [Except.ok.injEq, Prod.mk.injEq] at h
        obtain ⟨rfl, _⟩ := h
        obtain ⟨_, z01, z02⟩ := firstOneLoop_post s s1 h1 hx
        have hdet := hd1 hx
        rw [det_of_row0 _ z01 z02] at hdet
        have h00 : s1.A.a00 ≠ 0 := left_ne_zero_of_mul hdet
        refine ⟨h00, ?_⟩
        rintro ⟨d1, d2⟩
        exact hm ⟨(pyMod_zero_iff _ _ h00).mpr d1, (pyMod_zero_iff _ _ h00).mpr d2⟩

/-! ### second phase -/

theorem secondColumn_dvd (s : St) (hp : s.A.a11 ≠ 0) (hx : (secondColumn s).xok = true) :
    (secondColumn s).A.a11 ≠ 0 ∧ (secondColumn s).A.a11 ∣ s.A.a11 ∧ (secondColumn s).A.a11 ∣ s.A.a21 := by
  unfold secondColumn at hx ⊢
  have hc : ¬(s.A.a11 = 0 ∧ s.A.a21 ≠ 0) := fun h => hp h.1
  simp only [if_neg hc] at hx ⊢
  by_cases hb : s.A.a21 ≠ 0
  · rw [if_pos hb] at hx ⊢
    rw [zsc_xok] at hx
    simp only [Bool.and_eq_true] at hx
    obtain ⟨hr, ha, hb'⟩ := xgcd_facts _ _ hb hx.2
    rw [zsc_a11]
    exact ⟨hr, ha, hb'⟩
  · rw [if_neg hb]
    exact ⟨hp, dvd_refl _, by rw [not_not.mp hb]; exact dvd_zero _⟩

theorem secondFinalize_a11 (s : St) : (secondFinalize s).A.a11 = s.A.a11 := by rw [secondFinalize_A]

theorem secondOneLoop_dvd (s : St) (hp : s.A.a11 ≠ 0) (hx : (secondOneLoop s).xok = true) :
    (secondOneLoop s).A.a11 ≠ 0 ∧ (secondOneLoop s).A.a11 ∣ s.A.a11 ∧ (secondOneLoop s).A.a11 ∣ s.A.a21 := by
  unfold secondOneLoop at hx ⊢
  have hxb : (secondColumn (tr (secondColumn s))).xok = true := hx
  have hxa : (secondColumn s).xok = true := (secondColumn_post (tr (secondColumn s)) hxb).1
  obtain ⟨pa, da1, da2⟩ := secondColumn_dvd s hp hxa
  have e3 : (tr (secondColumn s)).A.a11 = (secondColumn s).A.a11 := rfl
  obtain ⟨pb, db1, _⟩ := secondColumn_dvd (tr (secondColumn s)) (by rw [e3]; exact pa) hxb
  rw [e3] at db1
  have e2 : (tr (secondColumn (tr (secondColumn s)))).A.a11 = (secondColumn (tr (secondColumn s))).A.a11 := rfl
  rw [e2]
  exact ⟨pb, dvd_trans db1 da1, dvd_trans db1 da2⟩

theorem second_cases (s : St) :
    ((second s).1 = secondOneLoop s ∨ (second s).1 = secondFinalize (secondOneLoop s)) ∧
    ((second s).2 = false → (second s).1 = secondOneLoop s ∧ (secondOneLoop s).A.a21 ≠ 0 ∧
      pyMod (secondOneLoop s).A.a21 (secondOneLoop s).A.a11 ≠ 0) := by
  unfold second
  simp only
  split
  · exact ⟨Or.inl rfl, fun h => by cases h⟩
  · next h21 =>
    split
    · exact ⟨Or.inr rfl, fun h => by cases h⟩
    · next hm => exact ⟨Or.inl rfl, fun _ => ⟨rfl, h21, hm⟩⟩

theorem second_decreases (s : St) (hB : PostB s) (hx : (second s).1.xok = true) :
    (second s).1.A.a11.natAbs < s.A.a11.natAbs := by
  obtain ⟨_, hp, hn⟩ := hB
  have hxl : (secondOneLoop s).xok = true := by
    rcases (second_cases s).1 with e | e
    · rw [e] at hx; exact hx
    · rw [e] at hx; exact hx
  obtain ⟨_, d1, d2⟩ := secondOneLoop_dvd s hp hxl
  have e : (second s).1.A.a11 = (secondOneLoop s).A.a11 := by
    rcases (second_cases s).1 with e | e
    · rw [e]
    · rw [e, secondFinalize_a11]
  rw [e]
  exact natAbs_lt_of_proper_dvd hp d1 d2 hn

theorem det_of_Z1 (A : M3 Int) (h : Z1 A) (h12 : A.a12 = 0) : A.det = A.a00 * A.a11 * A.a22 := by
  obtain ⟨a1, a2, a3, a4⟩ := h
  simp only [M3.det, a1, a2, a3, a4, h12]; ring

theorem second_false_postB (s : St) (hZ : Z1 s.A) (hd : DetNZ s) (hb : (second s).2 = false)
    (hx : (second s).1.xok = true) : PostB (second s).1 := by
  obtain ⟨e, h21, hm⟩ := (second_cases s).2 hb
  rw [e] at hx ⊢
  have hd1 : DetNZ (secondOneLoop s) := secondOneLoop_adm detNZ_adm s hd
  have hZ1 := secondOneLoop_Z1 s hZ
  obtain ⟨_, z12⟩ := secondOneLoop_post s hx
  have hdet := hd1 hx
  rw [det_of_Z1 _ hZ1 z12] at hdet
  have h11 : (secondOneLoop s).A.a11 ≠ 0 := by
    intro h0; apply hdet; rw [h0]; ring
  refine ⟨hZ1, h11, ?_⟩
  intro hdv
  exact hm ((pyMod_zero_iff _ _ h11).mpr hdv)

/-- on a matrix whose first row and column are already cleared `_first()` changes nothing -/
theorem first_noop (s : St) (hZ : Z1 s.A) (h00 : s.A.a00 ≠ 0) : first s = .ok (s, true) := by
  obtain ⟨z01, z02, z10, z20⟩ := hZ
  have fc : ∀ t : St, t.A.a00 ≠ 0 → t.A.a10 = 0 → t.A.a20 = 0 → firstColumn t = .ok t := by
    intro t h0 h1 h2
    simp [firstColumn, searchFirstPivot, h0, h1, h2]
  have e1 := fc s h00 z10 z20
  have e2 := fc (tr s) h00 z01 z02
  have e3 : tr (tr s) = s := rfl
  simp [first, firstOneLoop, e1, e2, e3, bind, Except.bind, pure, Except.pure, z10, z20]

end PhononModel.SNF

namespace PhononModel.SNF
open PhononModel

/-! ### one `__next__` that does not stop -/

theorem next_none_split (s s' : St) (h : next s = .ok (s', none)) :
    first s = .ok (s', false) ∨ (∃ s1, first s = .ok (s1, true) ∧ (second s1).2 = false ∧ s' = (second s1).1) := by
  unfold next at h
  simp only [bind, Except.bind, pure, Except.pure] at h
  split at h
  · cases h
  · next p h1 =>
    obtain ⟨s1, b1⟩ := p
    simp only at h
    split at h
    · next hb1 =>
      subst hb1
      split at h
      · next hb2 =>
        cases hf : finalize (second s1).1 with
        | error e => rw [hf] at h; cases h
        | ok q => rw [hf] at h; simp only [Except.ok.injEq, Prod.mk.injEq] at h; exact absurd h.2 (by simp)
      · next hb2 =>
        simp only [Except.ok.injEq, Prod.mk.injEq] at h
        exact Or.inr ⟨s1, h1, by simpa using hb2, h.1.symm⟩
    · next hb1 =>
      simp only [Except.ok.injEq, Prod.mk.injEq] at h
      have : b1 = false := by simpa using hb1
      subst this
      rw [← h.1]; exact Or.inl h1

theorem next_xok_mono (s s' : St) (r : Option Bool) (h : next s = .ok (s', r)) (hx : s'.xok = true) : s.xok = true := by
  cases r with
  | none =>
    rcases next_none_split s s' h with h1 | ⟨s1, h1, _, rfl⟩
    · exact first_xok_mono _ _ _ h1 hx
    · exact first_xok_mono _ _ _ h1 (second_xok_mono _ hx)
  | some ok =>
    rcases next_split s s' _ h with ⟨s1, s2, ok', h1, _, hp, rfl, _⟩ | hr
    · have hx2 : s2.xok = true := by rw [← (setPQ_A s2).2]; exact hx
      obtain ⟨t1, c1, g1, rfl, _⟩ := preFinalize_split _ _ _ hp
      have g2 : (finalizeDisturb 1 2 (finalizeSort t1)).xok = true := second_xok_mono _ hx2
      have g3 : t1.xok = true := by
        rw [finalizeDisturb_xok] at g2
        by_contra hne
        have hf : t1.xok = false := by simpa using hne
        rw [finalizeSort_xok t1 false hf] at g2; cases g2
      have g4 := first_xok_mono _ _ _ g1 g3
      rw [finalizeDisturb_xok] at g4
      have g5 : (second s1).1.xok = true := by
        by_contra hne
        have hf : (second s1).1.xok = false := by simpa using hne
        have : (flipNeg 2 (flipNeg 1 (flipNeg 0 (second s1).1))).xok = false := by
          rw [flipNeg_xok, flipNeg_xok, flipNeg_xok]; exact hf
        rw [finalizeSort_xok _ false this] at g4; cases g4
      exact first_xok_mono _ _ _ h1 (second_xok_mono _ g5)
    · cases hr

theorem runLoop_xok_mono : ∀ (fuel k : Nat) (s : St) (o : Out), runLoop fuel k s = .ok o → o.xok = true → s.xok = true
  | 0, k, s, o, h, hx => by
    simp only [runLoop, Except.ok.injEq] at h; subst h; exact hx
  | fuel+1, k, s, o, h, hx => by
    simp only [runLoop] at h
    split at h
    · cases h
    · next s1 ok hn =>
      simp only [Except.ok.injEq] at h; subst h
      exact next_xok_mono _ _ _ hn hx
    · next s1 hn =>
      exact next_xok_mono _ _ _ hn (runLoop_xok_mono fuel (k+1) s1 o h hx)

theorem next_none_detNZ (s s' : St) (h : next s = .ok (s', none)) (hd : DetNZ s) : DetNZ s' := by
  rcases next_adm detNZ_adm _ _ _ h hd with ⟨_, i⟩ | ⟨_, hr, _⟩
  · exact i
  · exact absurd rfl hr

/-- after any `__next__` that does not stop, the state is in one of the two "post" forms -/
theorem next_none_post (s s' : St) (h : next s = .ok (s', none)) (hd : DetNZ s) (hx : s'.xok = true) :
    PostA s' ∨ PostB s' := by
  rcases next_none_split s s' h with h1 | ⟨s1, h1, hb, rfl⟩
  · exact Or.inl (first_false_postA _ _ h1 hd hx)
  · have hx1 : s1.xok = true := second_xok_mono _ hx
    have hZ := first_post _ _ h1 hd hx1
    have hd1 := first_adm detNZ_adm _ _ _ h1 hd
    exact Or.inr (second_false_postB s1 hZ hd1 hb hx)

theorem next_from_A (s s' : St) (h : next s = .ok (s', none)) (hd : DetNZ s) (hx : s'.xok = true) (hA : PostA s) :
    (PostA s' ∧ s'.A.a00.natAbs < s.A.a00.natAbs) ∨ PostB s' := by
  rcases next_none_split s s' h with h1 | ⟨s1, h1, hb, rfl⟩
  · exact Or.inl ⟨first_false_postA _ _ h1 hd hx, first_decreases _ _ _ h1 hx hA⟩
  · have hx1 : s1.xok = true := second_xok_mono _ hx
    have hZ := first_post _ _ h1 hd hx1
    have hd1 := first_adm detNZ_adm _ _ _ h1 hd
    exact Or.inr (second_false_postB s1 hZ hd1 hb hx)

theorem next_from_B (s s' : St) (h : next s = .ok (s', none)) (hd : DetNZ s) (hx : s'.xok = true) (hB : PostB s) :
    PostB s' ∧ s'.A.a11.natAbs < s.A.a11.natAbs := by
  have hxs : s.xok = true := next_xok_mono _ _ _ h hx
  have hdet := hd hxs
  rw [det_of_row0 _ hB.1.1 hB.1.2.1] at hdet
  have h00 : s.A.a00 ≠ 0 := left_ne_zero_of_mul hdet
  have hno := first_noop s hB.1 h00
  rcases next_none_split s s' h with h1 | ⟨s1, h1, hb, rfl⟩
  · rw [hno] at h1; simp at h1
  · rw [hno] at h1
    simp only [Except.ok.injEq, Prod.mk.injEq, and_true] at h1
    subst h1
    exact ⟨second_false_postB s hB.1 hd hb hx, second_decreases s hB hx⟩

/-! ### termination -/

/-- from state `s` the loop stops within `N` further iterations, for every fuel that allows them —
unless an `Xgcd` loop was irregular (`xok = false`) -/
def Term (s : St) : Prop :=
  ∃ N : Nat, ∀ (fuel k : Nat) (o : Out), N ≤ fuel → runLoop fuel k s = .ok o → o.xok = true → o.finished = true

/-- one unfolding: if every non-stopping successor terminates, so does `s` -/
theorem term_step (s : St) (hstep : ∀ s', next s = .ok (s', none) → s'.xok = true → Term s') : Term s := by
  cases hn : next s with
  | error e =>
    refine ⟨1, ?_⟩
    intro fuel k o hf h _
    obtain ⟨f, rfl⟩ : ∃ f, fuel = f + 1 := ⟨fuel - 1, by omega⟩
    simp only [runLoop, hn] at h; cases h
  | ok p =>
    obtain ⟨s', r⟩ := p
    cases r with
    | some ok =>
      refine ⟨1, ?_⟩
      intro fuel k o hf h _
      obtain ⟨f, rfl⟩ : ∃ f, fuel = f + 1 := ⟨fuel - 1, by omega⟩
      simp only [runLoop, hn, Except.ok.injEq] at h
      rw [← h]
    | none =>
      by_cases hx' : s'.xok = true
      · obtain ⟨N, hN⟩ := hstep s' hn hx'
        refine ⟨N + 1, ?_⟩
        intro fuel k o hf h hx
        obtain ⟨f, rfl⟩ : ∃ f, fuel = f + 1 := ⟨fuel - 1, by omega⟩
        simp only [runLoop, hn] at h
        exact hN f (k+1) o (by omega) h hx
      · refine ⟨1, ?_⟩
        intro fuel k o hf h hx
        obtain ⟨f, rfl⟩ : ∃ f, fuel = f + 1 := ⟨fuel - 1, by omega⟩
        simp only [runLoop, hn] at h
        exact absurd (runLoop_xok_mono f (k+1) s' o h hx) hx'

theorem term_B : ∀ (m : Nat) (s : St), s.A.a11.natAbs ≤ m → PostB s → DetNZ s → Term s
  | 0, s, hm, hB, _ => by
    exfalso; exact hB.2.1 (Int.natAbs_eq_zero.mp (by omega))
  | m+1, s, hm, hB, hd => by
    apply term_step
    intro s' hn hx'
    obtain ⟨hB', hlt⟩ := next_from_B s s' hn hd hx' hB
    exact term_B m s' (by omega) hB' (next_none_detNZ s s' hn hd)

theorem term_A : ∀ (m : Nat) (s : St), s.A.a00.natAbs ≤ m → PostA s → DetNZ s → Term s
  | 0, s, hm, hA, _ => by
    exfalso; exact hA.1 (Int.natAbs_eq_zero.mp (by omega))
  | m+1, s, hm, hA, hd => by
    apply term_step
    intro s' hn hx'
    have hd' := next_none_detNZ s s' hn hd
    rcases next_from_A s s' hn hd hx' hA with ⟨hA', hlt⟩ | hB'
    · exact term_A m s' (by omega) hA' hd'
    · exact term_B _ s' (le_refl _) hB' hd'

/-- **termination**: for every non-singular matrix there is a number of iterations after which the
loop of `SNF3x3.run` has stopped, whatever larger fuel the model is given — provided the `Xgcd`
loops ended regularly (which the returned record reports in `xok`). -/
theorem run_terminates (A : M3 Int) (hA : A.det ≠ 0) :
    ∃ N : Nat, ∀ (fuel : Nat) (o : Out), N ≤ fuel → run fuel A = .ok o → o.xok = true → o.finished = true := by
  have hd : DetNZ (St.init A) := fun _ => hA
  have : Term (St.init A) := by
    apply term_step
    intro s' hn hx'
    have hd' := next_none_detNZ _ s' hn hd
    rcases next_none_post _ s' hn hd hx' with hA' | hB'
    · exact term_A _ s' (le_refl _) hA' hd'
    · exact term_B _ s' (le_refl _) hB' hd'
  obtain ⟨N, hN⟩ := this
  exact ⟨N, fun fuel o hf h hx => hN fuel 0 o hf h hx⟩

end PhononModel.SNF
