import PhononModel.Model.DynMat
import PhononModel.Lemmas.Basic
import Mathlib.Algebra.Star.Basic
import Mathlib.Algebra.Field.Basic
import Mathlib.Algebra.CharZero.Defs
import Mathlib.Tactic.Ring
import Mathlib.Tactic.FieldSimp
import Mathlib.Tactic.LinearCombination
import Mathlib.Tactic.Linarith
import Mathlib.LinearAlgebra.Matrix.Charpoly.Basic
import Mathlib.LinearAlgebra.Matrix.Hermitian

/-!
Algebra of the pair type `Cx R` (a commutative ring with star when `R` is one) and the
rewriting lemmas that turn the executable dynamical-matrix model into `Finset` sums.
-/
set_option linter.unusedSectionVars false
namespace PhononModel
open Finset

namespace Cx
variable {R : Type}

@[ext] theorem ext' {a b : Cx R} (h1 : a.re = b.re) (h2 : a.im = b.im) : a = b := by
  cases a; cases b; simp_all

section ring
variable [CommRing R]

instance : Zero (Cx R) := ⟨(0 : Cx R)⟩
instance : One (Cx R) := ⟨(1 : Cx R)⟩

@[simp] theorem zero_re : (0 : Cx R).re = 0 := rfl
@[simp] theorem zero_im : (0 : Cx R).im = 0 := rfl
@[simp] theorem one_re : (1 : Cx R).re = 1 := rfl
@[simp] theorem one_im : (1 : Cx R).im = 0 := rfl
@[simp] theorem add_re (a b : Cx R) : (a + b).re = a.re + b.re := rfl
@[simp] theorem add_im (a b : Cx R) : (a + b).im = a.im + b.im := rfl
@[simp] theorem sub_re (a b : Cx R) : (a - b).re = a.re - b.re := rfl
@[simp] theorem sub_im (a b : Cx R) : (a - b).im = a.im - b.im := rfl
@[simp] theorem neg_re (a : Cx R) : (-a).re = -a.re := rfl
@[simp] theorem neg_im (a : Cx R) : (-a).im = -a.im := rfl
@[simp] theorem mul_re (a b : Cx R) : (a * b).re = a.re * b.re - a.im * b.im := rfl
@[simp] theorem mul_im (a b : Cx R) : (a * b).im = a.re * b.im + a.im * b.re := rfl
@[simp] theorem conj_re (a : Cx R) : (conj a).re = a.re := rfl
@[simp] theorem conj_im (a : Cx R) : (conj a).im = -a.im := rfl
@[simp] theorem smulR_re (r : R) (a : Cx R) : (smulR r a).re = r * a.re := rfl
@[simp] theorem smulR_im (r : R) (a : Cx R) : (smulR r a).im = r * a.im := rfl
@[simp] theorem ofR_re (r : R) : (ofR r).re = r := rfl
@[simp] theorem ofR_im (r : R) : (ofR r).im = 0 := rfl

instance : CommRing (Cx R) where
  add_assoc a b c := by ext <;> simp [add_assoc]
  zero_add a := by ext <;> simp
  add_zero a := by ext <;> simp
  nsmul := nsmulRec
  zsmul := zsmulRec
  neg_add_cancel a := by ext <;> simp
  add_comm a b := by ext <;> simp [add_comm]
  sub_eq_add_neg a b := by ext <;> simp [sub_eq_add_neg]
  left_distrib a b c := by ext <;> simp <;> ring
  right_distrib a b c := by ext <;> simp <;> ring
  zero_mul a := by ext <;> simp
  mul_zero a := by ext <;> simp
  mul_assoc a b c := by ext <;> simp <;> ring
  one_mul a := by ext <;> simp
  mul_one a := by ext <;> simp
  mul_comm a b := by ext <;> simp <;> ring

instance : StarRing (Cx R) where
  star := conj
  star_involutive a := by ext <;> simp
  star_mul a b := by ext <;> simp <;> ring
  star_add a b := by ext <;> simp; ring

@[simp] theorem star_def (a : Cx R) : star a = conj a := rfl

@[simp] theorem sum_re {ι : Type} (s : Finset ι) (f : ι → Cx R) : (∑ i ∈ s, f i).re = ∑ i ∈ s, (f i).re := by
  classical
  induction s using Finset.induction_on with
  | empty => simp
  | insert a s ha ih => simp [Finset.sum_insert ha, ih]

@[simp] theorem sum_im {ι : Type} (s : Finset ι) (f : ι → Cx R) : (∑ i ∈ s, f i).im = ∑ i ∈ s, (f i).im := by
  classical
  induction s using Finset.induction_on with
  | empty => simp
  | insert a s ha ih => simp [Finset.sum_insert ha, ih]

theorem conj_sum {ι : Type} (s : Finset ι) (f : ι → Cx R) : conj (∑ i ∈ s, f i) = ∑ i ∈ s, conj (f i) := by
  ext <;> simp

theorem smulR_eq (r : R) (a : Cx R) : smulR r a = ofR r * a := by ext <;> simp

@[simp] theorem ofR_zero : ofR (0 : R) = 0 := rfl
@[simp] theorem ofR_one : ofR (1 : R) = 1 := rfl
theorem ofR_mul (r s : R) : ofR (r * s) = ofR r * ofR s := by ext <;> simp
theorem ofR_add (r s : R) : ofR (r + s) = ofR r + ofR s := by ext <;> simp
@[simp] theorem conj_ofR (r : R) : conj (ofR r) = ofR r := by ext <;> simp
theorem conj_mul (a b : Cx R) : conj (a * b) = conj a * conj b := by
  ext
  · simp
  · simp; ring
theorem conj_add (a b : Cx R) : conj (a + b) = conj a + conj b := by
  ext
  · simp
  · simp; ring
@[simp] theorem conj_conj (a : Cx R) : conj (conj a) = a := by ext <;> simp
@[simp] theorem conj_zero : conj (0 : Cx R) = 0 := by ext <;> simp
@[simp] theorem conj_one : conj (1 : Cx R) = 1 := by ext <;> simp

@[simp] theorem natCast_re (n : Nat) : ((n : Cx R)).re = n := by
  induction n with
  | zero => simp
  | succ n ih => simp [Nat.cast_succ, ih]

@[simp] theorem natCast_im (n : Nat) : ((n : Cx R)).im = 0 := by
  induction n with
  | zero => simp
  | succ n ih => simp [Nat.cast_succ, ih]

theorem ofR_natCast (n : Nat) : ofR (n : R) = (n : Cx R) := by ext <;> simp

theorem apply_ite_conj (c : Prop) [Decidable c] (x : Cx R) :
    conj (if c then x else 0) = if c then conj x else 0 := by split <;> simp

end ring

section field
variable [Field R]

@[simp] theorem divR_re (a : Cx R) (r : R) : (divR a r).re = a.re / r := rfl
@[simp] theorem divR_im (a : Cx R) (r : R) : (divR a r).im = a.im / r := rfl

theorem divR_eq (a : Cx R) (r : R) : divR a r = ofR r⁻¹ * a := by
  ext <;> simp [div_eq_inv_mul]

end field
end Cx

/-! ### the model as `Finset` sums -/
section sums
variable {R : Type} [Field R]
variable {np nf ns nsv : Nat}

theorem phaseSum_eq (T : DTables np nf ns nsv) (ph : Fin nsv → Cx R) (k : Fin ns) (i : Fin np) :
    phaseSum T ph k i = ∑ l, ph (T.svIdx k i l) := by
  simp [phaseSum, sumFin_eq]

theorem phaseAvgC_eq (T : DTables np nf ns nsv) (ph : Fin nsv → Cx R) (k : Fin ns) (i : Fin np) :
    phaseAvgC T ph k i = Cx.ofR ((T.mult k i : R))⁻¹ * ∑ l, ph (T.svIdx k i l) := by
  simp [phaseAvgC, sumFin_eq, Cx.divR_eq, Finset.mul_sum]

theorem phaseAvgC_eq_phaseSum (T : DTables np nf ns nsv) (ph : Fin nsv → Cx R) (k : Fin ns) (i : Fin np) :
    phaseAvgC T ph k i = Cx.ofR ((T.mult k i : R))⁻¹ * phaseSum T ph k i := by
  rw [phaseAvgC_eq, phaseSum_eq]

theorem dynmatRawC_eq (T : DTables np nf ns nsv) (ph : Fin nsv → Cx R) (mm : Fin np → Fin np → R)
    (fc : Fin nf → Fin ns → Fin 3 → Fin 3 → R) (i a j b) :
    dynmatRawC T ph mm fc i a j b =
      Cx.ofR (mm i j)⁻¹ * ∑ k, if T.s2p k = T.p2s j then Cx.ofR (fc (T.p2s i) k a b) * phaseAvgC T ph k i else 0 := by
  simp only [dynmatRawC, sumFin_eq, Cx.divR_eq, Cx.smulR_eq]

theorem dynmatRawPy_eq (T : PyTables np nf ns nsv) (ph : Fin nsv → Cx R) (mm : Fin np → Fin np → R)
    (fc : Fin nf → Fin ns → Fin 3 → Fin 3 → R) (i a j b) :
    dynmatRawPy T ph mm fc i a j b =
      ∑ k, if T.p2sF j = T.s2pF k then
        Cx.ofR ((T.mult k i : R))⁻¹ * (Cx.ofR (mm i j)⁻¹ * (Cx.ofR (fc (T.p2s i) k a b) * phaseSum T.toDTables ph k i))
      else 0 := by
  simp only [dynmatRawPy, sumFin_eq, Cx.divR_eq, Cx.smulR_eq]

/-- both Hermitisers are `(D + D†)/2` -/
theorem hermC_eq (D : DM np (Cx R)) (h2 : (2 : R) ≠ 0) (i a j b) :
    hermC D i a j b = Cx.ofR (2 : R)⁻¹ * (D i a j b + Cx.conj (D j b i a)) := by
  unfold hermC
  split <;> ext <;> simp <;> field_simp <;> ring

theorem hermPy_eq (D : DM np (Cx R)) (i a j b) :
    hermPy D i a j b = Cx.ofR (2 : R)⁻¹ * (D i a j b + Cx.conj (D j b i a)) := by
  unfold hermPy
  rw [Cx.divR_eq]

end sums

/-! ### Hermitisers, time reversal, scaling -/
section herm
variable {R : Type} [Field R]
variable {np nf ns nsv : Nat}

theorem bidx_inj {np : Nat} {i j : Fin np} {a b : Fin 3} (h : bidx i a = bidx j b) : i = j ∧ a = b := by
  unfold bidx at h
  have ha := a.2; have hb := b.2
  constructor
  · apply Fin.ext; omega
  · apply Fin.ext; omega

/-- `make_Hermitian` output is Hermitian, whatever the input (no hypothesis on the field). -/
theorem hermC_hermitian (D : DM np (Cx R)) (i a j b) :
    Cx.conj (hermC D j b i a) = hermC D i a j b := by
  unfold hermC
  by_cases h1 : bidx i a ≤ bidx j b
  · by_cases h2 : bidx j b ≤ bidx i a
    · obtain ⟨rfl, rfl⟩ := bidx_inj (le_antisymm h1 h2)
      simp only [le_refl, if_true]; ext <;> simp
    · simp only [h1, h2, if_true, if_false]; ext <;> simp
  · have h2 : bidx j b ≤ bidx i a := by omega
    simp only [h1, h2, if_true, if_false]; ext <;> simp

theorem hermPy_hermitian (D : DM np (Cx R)) (i a j b) :
    Cx.conj (hermPy D j b i a) = hermPy D i a j b := by
  rw [hermPy_eq, hermPy_eq, Cx.conj_mul, Cx.conj_add, Cx.conj_conj, Cx.conj_ofR, add_comm]


/-! ### time reversal -/
theorem phaseAvgC_conj (T : DTables np nf ns nsv) (ph : Fin nsv → Cx R) (k i) :
    phaseAvgC T (fun l => Cx.conj (ph l)) k i = Cx.conj (phaseAvgC T ph k i) := by
  simp only [phaseAvgC_eq, Cx.conj_mul, Cx.conj_sum, Cx.conj_ofR]

theorem dynmatRawC_conj (T : DTables np nf ns nsv) (ph : Fin nsv → Cx R) (mm : Fin np → Fin np → R)
    (fc : Fin nf → Fin ns → Fin 3 → Fin 3 → R) (i a j b) :
    dynmatRawC T (fun l => Cx.conj (ph l)) mm fc i a j b = Cx.conj (dynmatRawC T ph mm fc i a j b) := by
  simp only [dynmatRawC_eq, Cx.conj_mul, Cx.conj_sum, Cx.conj_ofR, phaseAvgC_conj]
  congr 1
  apply Finset.sum_congr rfl
  intro k _
  split <;> simp [Cx.conj_mul]

theorem hermC_conj (D : DM np (Cx R)) (i a j b) :
    hermC (fun i a j b => Cx.conj (D i a j b)) i a j b = Cx.conj (hermC D i a j b) := by
  unfold hermC
  split <;> ext <;> simp <;> ring

/-! ### scaling -/
theorem dynmatRawC_scale (T : DTables np nf ns nsv) (ph : Fin nsv → Cx R) (mm : Fin np → Fin np → R)
    (fc : Fin nf → Fin ns → Fin 3 → Fin 3 → R) (c t : R) (i a j b) :
    dynmatRawC T ph (fun i j => t * mm i j) (fun i k a b => c * fc i k a b) i a j b
      = Cx.ofR (c / t) * dynmatRawC T ph mm fc i a j b := by
  simp only [dynmatRawC_eq, Finset.mul_sum]
  apply Finset.sum_congr rfl
  intro k _
  split
  · rw [mul_inv, Cx.ofR_mul, Cx.ofR_mul, div_eq_mul_inv, Cx.ofR_mul]; ring
  · simp

theorem hermC_smul (D : DM np (Cx R)) (r : R) (i a j b) :
    hermC (fun i a j b => Cx.ofR r * D i a j b) i a j b = Cx.ofR r * hermC D i a j b := by
  unfold hermC
  split <;> ext <;> simp <;> ring

end herm

/-! ### matrix form, conjugation by a diagonal phase matrix -/
section mat
open Matrix
variable {R : Type} [Field R]
variable {np nf ns nsv : Nat}

/-- the `3np × 3np` matrix of a dynamical matrix (row `(i,a)`, column `(j,b)`) -/
def DM.toMatrix {β : Type} (D : DM np β) : Matrix (Fin np × Fin 3) (Fin np × Fin 3) β :=
  fun p q => D p.1 p.2 q.1 q.2

/-- diagonal phase matrix `U = diag u_j` (same phase on the three Cartesian rows of atom `j`) -/
def phaseDiag (u : Fin np → Cx R) : Matrix (Fin np × Fin 3) (Fin np × Fin 3) (Cx R) :=
  Matrix.diagonal fun p => u p.1

theorem charpoly_of_phase_conj (D D' : DM np (Cx R)) (u : Fin np → Cx R)
    (hu : ∀ i, u i * Cx.conj (u i) = 1)
    (h : ∀ i a j b, D' i a j b = Cx.conj (u i) * u j * D i a j b) :
    D'.toMatrix = (phaseDiag u)ᴴ * D.toMatrix * phaseDiag u ∧
    D'.toMatrix.charpoly = D.toMatrix.charpoly := by
  have h1 : D'.toMatrix = (phaseDiag u)ᴴ * D.toMatrix * phaseDiag u := by
    apply Matrix.ext; intro p q
    simp only [DM.toMatrix, phaseDiag, Matrix.diagonal_conjTranspose, Matrix.mul_diagonal, Matrix.diagonal_mul, h,
      Pi.star_apply, Cx.star_def]
    ring
  refine ⟨h1, ?_⟩
  rw [h1, Matrix.charpoly_mul_comm, ← Matrix.mul_assoc]
  have : phaseDiag u * (phaseDiag u)ᴴ = 1 := by
    simp only [phaseDiag, Matrix.diagonal_conjTranspose, Matrix.diagonal_mul_diagonal]
    rw [← Matrix.diagonal_one]
    congr 1; funext p; simp [hu]
  rw [this, Matrix.one_mul]

end mat

section twist
variable {R : Type} [Field R] [CharZero R]
variable {np nf ns nsv : Nat}

/-! ### twisting the phases by a diagonal unitary -/
theorem phaseAvgC_twist (T : DTables np nf ns nsv) (ph ph' : Fin nsv → Cx R) (k : Fin ns) (i : Fin np) (w : Cx R)
    (h : ∀ l, ph' (T.svIdx k i l) = ph (T.svIdx k i l) * w) :
    phaseAvgC T ph' k i = phaseAvgC T ph k i * w := by
  simp only [phaseAvgC_eq, h, ← Finset.sum_mul, mul_assoc]

theorem dynmatRawC_twist (T : DTables np nf ns nsv) (ph ph' : Fin nsv → Cx R) (mm : Fin np → Fin np → R)
    (fc : Fin nf → Fin ns → Fin 3 → Fin 3 → R) (u : Fin np → Cx R)
    (h : ∀ k i j l, T.s2p k = T.p2s j → ph' (T.svIdx k i l) = ph (T.svIdx k i l) * (Cx.conj (u i) * u j))
    (i a j b) :
    dynmatRawC T ph' mm fc i a j b = Cx.conj (u i) * u j * dynmatRawC T ph mm fc i a j b := by
  simp only [dynmatRawC_eq, Finset.mul_sum]
  apply Finset.sum_congr rfl
  intro k _
  split
  · next hk => rw [phaseAvgC_twist T ph ph' k i _ (fun l => h k i j l hk)]; ring
  · simp

theorem dynmatC_twist (T : DTables np nf ns nsv) (ph ph' : Fin nsv → Cx R) (mm : Fin np → Fin np → R)
    (fc : Fin nf → Fin ns → Fin 3 → Fin 3 → R) (u : Fin np → Cx R)
    (h : ∀ k i j l, T.s2p k = T.p2s j → ph' (T.svIdx k i l) = ph (T.svIdx k i l) * (Cx.conj (u i) * u j))
    (i a j b) :
    dynmatC T ph' mm fc i a j b = Cx.conj (u i) * u j * dynmatC T ph mm fc i a j b := by
  have h2 : (2 : R) ≠ 0 := two_ne_zero
  unfold dynmatC
  rw [hermC_eq _ h2, hermC_eq _ h2, dynmatRawC_twist T ph ph' mm fc u h, dynmatRawC_twist T ph ph' mm fc u h]
  simp only [Cx.conj_mul, Cx.conj_conj]
  ring

/-! ### Python reference = C kernel -/
theorem PyTables.selOk_sound (T : PyTables np nf ns nsv) (h : T.selOk = true) (k : Fin ns) (j : Fin np) :
    (T.p2sF j = T.s2pF k) ↔ (T.s2p k = T.p2s j) := by
  simp only [PyTables.selOk, List.all_eq_true, List.mem_finRange, forall_const, beq_iff_eq, decide_eq_decide] at h
  exact h k j

theorem dynmatRawPy_eq_C (T : PyTables np nf ns nsv) (hsel : T.selOk = true) (ph : Fin nsv → Cx R)
    (mm : Fin np → Fin np → R) (fc : Fin nf → Fin ns → Fin 3 → Fin 3 → R) :
    dynmatRawPy T ph mm fc = dynmatRawC T.toDTables ph mm fc := by
  funext i a j b
  simp only [dynmatRawPy_eq, dynmatRawC_eq, Finset.mul_sum, T.selOk_sound hsel, phaseAvgC_eq_phaseSum]
  apply Finset.sum_congr rfl
  intro k _
  split
  · ring
  · simp

theorem hermPy_eq_hermC (D : DM np (Cx R)) : hermPy D = hermC D := by
  funext i a j b
  rw [hermPy_eq, hermC_eq D two_ne_zero]

/-! ### compact = full -/
theorem compactOk_sound (T : DTables np ns ns nsv) (s2pp : Fin ns → Fin np) (h : compactOk T s2pp = true)
    (k : Fin ns) (j : Fin np) : (s2pp k = j) ↔ (T.s2p k = T.p2s j) := by
  simp only [compactOk, List.all_eq_true, List.mem_finRange, forall_const, beq_iff_eq, decide_eq_decide] at h
  exact h k j

theorem dynmatRawC_compact (T : DTables np ns ns nsv) (s2pp : Fin ns → Fin np) (h : compactOk T s2pp = true)
    (ph : Fin nsv → Cx R) (mm : Fin np → Fin np → R) (fc : FC ns R) :
    dynmatRawC (compactTables T s2pp) ph mm (compressFC T.p2s fc) = dynmatRawC T ph mm fc := by
  funext i a j b
  unfold dynmatRawC
  congr 1
  congr 1
  funext k
  have e : ((compactTables T s2pp).s2p k = (compactTables T s2pp).p2s j) ↔ (T.s2p k = T.p2s j) :=
    compactOk_sound T s2pp h k j
  by_cases hk : T.s2p k = T.p2s j
  · rw [if_pos hk, if_pos (e.mpr hk)]; rfl
  · rw [if_neg hk, if_neg (fun x => hk (e.mp x))]

end twist

end PhononModel
