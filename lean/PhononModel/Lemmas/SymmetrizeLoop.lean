import PhononModel.Model.SymmetrizeLoop
import PhononModel.Lemmas.SymmetrizeCompact

set_option linter.unusedSectionVars false
namespace PhononModel
variable {α : Type} {np ns nt : Nat}

/-- partner block of `(i_p, j)`: `(j_p, i_trans)` -/
def partner (T : CTables np ns nt) (x : Fin np × Fin ns) : Fin np × Fin ns :=
  (T.s2pp x.2, T.perms (T.nsym x.2) (T.p2s x.1))

theorem partner_involutive {T : CTables np ns nt} (h : T.WF) (x : Fin np × Fin ns) :
    partner T (partner T x) = x := by
  obtain ⟨ip, j⟩ := x
  simp only [partner]
  refine Prod.ext ?_ ?_
  · simp only [h.sub, h.sp]
  · simp only
    rw [← h.rep j, h.reg, h.idp]

theorem partner_diag {T : CTables np ns nt} (h : T.WF) (ip : Fin np) :
    partner T (ip, T.p2s ip) = (ip, T.p2s ip) := by
  simp only [partner, h.sp, h.idp]

/-- invariant of the loop, relative to the original array `fc0` and the pairs still to come -/
structure LoopInv (T : CTables np ns nt) (fc0 : CFC np ns α) (s : LoopState np ns α)
    (rest : List (Fin np × Fin ns)) : Prop where
  closed : ∀ x : Fin np × Fin ns, s.done x.1 x.2 = true → s.done (partner T x).1 (partner T x).2 = true
  vals : ∀ (x : Fin np × Fin ns) k l, s.fc x.1 x.2 k l =
    if s.done x.1 x.2 = true then fc0 (partner T x).1 (partner T x).2 l k else fc0 x.1 x.2 k l
  fresh : ∀ x ∈ rest, partner T x = x → s.done x.1 x.2 = false

theorem bs_done (T : CTables np ns nt) (s : LoopState np ns α) (x y : Fin np × Fin ns)
    (hd : s.done x.1 x.2 = false) :
    (blockStep T s x.1 x.2).done y.1 y.2 =
      if y = x ∨ y = partner T x then true else s.done y.1 y.2 := by
  obtain ⟨ip, j⟩ := x; obtain ⟨a, b⟩ := y
  simp [blockStep, hd, partner, Prod.ext_iff]

theorem bs_fc_diag (T : CTables np ns nt) (s : LoopState np ns α) (ip : Fin np) (y : Fin np × Fin ns)
    (hd : s.done ip (T.p2s ip) = false) (hself : partner T (ip, T.p2s ip) = (ip, T.p2s ip)) (k l : Fin 3) :
    (blockStep T s ip (T.p2s ip)).fc y.1 y.2 k l =
      if y = (ip, T.p2s ip) then s.fc ip (T.p2s ip) l k else s.fc y.1 y.2 k l := by
  obtain ⟨a, b⟩ := y
  have h1 : T.s2pp (T.p2s ip) = ip := congrArg Prod.fst hself
  have h2 : T.perms (T.nsym (T.p2s ip)) (T.p2s ip) = T.p2s ip := congrArg Prod.snd hself
  simp [blockStep, hd, h1, h2, Prod.ext_iff]

theorem bs_fc_off (T : CTables np ns nt) (s : LoopState np ns α) (x y : Fin np × Fin ns)
    (hd : s.done x.1 x.2 = false) (hij : T.p2s x.1 ≠ x.2) (k l : Fin 3) :
    (blockStep T s x.1 x.2).fc y.1 y.2 k l =
      if partner T x = x then (if y = x then s.fc x.1 x.2 l k else s.fc y.1 y.2 k l)
      else if y = x then s.fc (partner T x).1 (partner T x).2 l k
      else if y = partner T x then s.fc x.1 x.2 l k
      else s.fc y.1 y.2 k l := by
  obtain ⟨ip, j⟩ := x; obtain ⟨a, b⟩ := y
  simp only [blockStep, hd, hij, if_false, Bool.false_eq_true, partner, Prod.ext_iff]
  split <;> rfl

theorem blockStep_inv {T : CTables np ns nt} (h : T.WF) (fc0 : CFC np ns α) (s : LoopState np ns α)
    (x : Fin np × Fin ns) (rest : List (Fin np × Fin ns)) (hx : x ∉ rest)
    (inv : LoopInv T fc0 s (x :: rest)) :
    LoopInv T fc0 (blockStep T s x.1 x.2) rest ∧ (blockStep T s x.1 x.2).done x.1 x.2 = true ∧
      (∀ y : Fin np × Fin ns, s.done y.1 y.2 = true → (blockStep T s x.1 x.2).done y.1 y.2 = true) := by
  have hinv := partner_involutive h
  by_cases hd : s.done x.1 x.2 = true
  · -- already done: then x is not self-paired, in particular p2s ip ≠ j, nothing changes
    have hne : T.p2s x.1 ≠ x.2 := by
      intro e
      have hs : partner T x = x := by
        obtain ⟨ip, j⟩ := x; simp only at e; subst e; exact partner_diag h ip
      have := inv.fresh x (by simp) hs
      simp [hd] at this
    have hs : blockStep T s x.1 x.2 = s := by
      simp [blockStep, hd, hne]
    simp only [hs]
    exact ⟨⟨inv.closed, inv.vals, fun y hy => inv.fresh y (List.mem_cons_of_mem _ hy)⟩, hd, fun _ hy => hy⟩
  · have hd' : s.done x.1 x.2 = false := by simpa using hd
    set P := partner T x with hP
    have hPP : partner T P = x := hinv x
    have hpd : s.done P.1 P.2 = false := by
      by_contra hc
      have hc' : s.done P.1 P.2 = true := by simpa using hc
      have := inv.closed P hc'
      rw [hPP] at this
      simp [hd'] at this
    have v0 : ∀ k l, s.fc x.1 x.2 k l = fc0 x.1 x.2 k l := by
      intro k l; have := inv.vals x k l; simpa [hd'] using this
    have vp : ∀ k l, s.fc P.1 P.2 k l = fc0 P.1 P.2 k l := by
      intro k l; have := inv.vals P k l; simpa [hpd] using this
    have hdone : ∀ y : Fin np × Fin ns, (blockStep T s x.1 x.2).done y.1 y.2 =
        if y = x ∨ y = P then true else s.done y.1 y.2 := fun y => bs_done T s x y hd'
    -- the new array in closed form
    have hfc : ∀ (y : Fin np × Fin ns) k l, (blockStep T s x.1 x.2).fc y.1 y.2 k l =
        if y = x then fc0 P.1 P.2 l k else if y = P then fc0 x.1 x.2 l k else s.fc y.1 y.2 k l := by
      intro y k l
      by_cases hij : T.p2s x.1 = x.2
      · have hs : P = x := by
          obtain ⟨ip, j⟩ := x; simp only at hij; subst hij; exact partner_diag h ip
        obtain ⟨ip, j⟩ := x
        simp only at hij; subst hij
        rw [bs_fc_diag T s ip y hd' (hP ▸ hs)]
        rw [hs]
        by_cases hy : y = (ip, T.p2s ip)
        · simp [hy, v0]
        · simp [hy]
      · rw [bs_fc_off T s x y hd' hij]
        by_cases hs : P = x
        · rw [← hP, hs]
          by_cases hy : y = x
          · simp [hy, v0]
          · simp [hy]
        · rw [← hP]
          simp only [hs, if_false]
          by_cases hy : y = x
          · simp [hy, vp]
          · by_cases hy2 : y = P
            · simp [hy, hy2, v0, hs]
            · simp [hy, hy2]
    refine ⟨⟨?_, ?_, ?_⟩, ?_, ?_⟩
    · intro y hy
      rw [hdone] at hy ⊢
      by_cases hy1 : y = x
      · subst hy1; simp [← hP]
      · by_cases hy2 : y = P
        · subst hy2; simp [hPP]
        · simp only [hy1, hy2, or_self, if_false] at hy
          have := inv.closed y hy
          simp only [this, ite_self]
    · intro y k l
      rw [hfc, hdone]
      by_cases hy1 : y = x
      · subst hy1; simp [← hP]
      · by_cases hy2 : y = P
        · subst hy2; simp [hy1, hPP]
        · simp only [hy1, hy2, if_false, or_self]
          exact inv.vals y k l
    · intro y hy hys
      rw [hdone]
      have hy1 : y ≠ x := fun c => hx (c ▸ hy)
      have hy2 : y ≠ P := by
        intro c
        have : partner T y = x := by rw [c, hPP]
        rw [hys] at this
        exact hy1 this
      simp only [hy1, hy2, or_self, if_false]
      exact inv.fresh y (List.mem_cons_of_mem _ hy) hys
    · rw [hdone]; simp
    · intro y hy
      rw [hdone]; split <;> simp_all

theorem loop_inv {T : CTables np ns nt} (h : T.WF) (fc0 : CFC np ns α) :
    ∀ (l : List (Fin np × Fin ns)) (s : LoopState np ns α), l.Nodup → LoopInv T fc0 s l →
      LoopInv T fc0 (l.foldl (fun s x => blockStep T s x.1 x.2) s) [] ∧
        (∀ x ∈ l, (l.foldl (fun s x => blockStep T s x.1 x.2) s).done x.1 x.2 = true) ∧
        (∀ y : Fin np × Fin ns, s.done y.1 y.2 = true →
          (l.foldl (fun s x => blockStep T s x.1 x.2) s).done y.1 y.2 = true)
  | [], s, _, inv => ⟨inv, by simp, fun _ hy => hy⟩
  | x :: rest, s, hnd, inv => by
    have hx : x ∉ rest := (List.nodup_cons.mp hnd).1
    obtain ⟨inv1, hdx, hmono⟩ := blockStep_inv h fc0 s x rest hx inv
    obtain ⟨inv2, hall, hmono2⟩ := loop_inv h fc0 rest _ (List.nodup_cons.mp hnd).2 inv1
    simp only [List.foldl_cons]
    refine ⟨inv2, ?_, fun y hy => hmono2 y (hmono y hy)⟩
    intro y hy
    rcases List.mem_cons.mp hy with e | e
    · subst e; exact hmono2 _ hdx
    · exact hall y e

theorem loopPairs_nodup : (loopPairs np ns).Nodup := by
  unfold loopPairs
  rw [List.nodup_flatMap]
  refine ⟨fun j _ => ?_, ?_⟩
  · exact (List.nodup_finRange np).map (fun a b e => by simpa using congrArg Prod.fst e)
  · apply (List.nodup_finRange ns).pairwise_of_forall_ne
    intro a _ b _ hab
    simp only [Function.onFun, List.disjoint_left, List.mem_map, List.mem_finRange, true_and, not_exists]
    rintro x ⟨i, rfl⟩ i' e
    exact hab (by simpa using (congrArg Prod.snd e).symm)

theorem mem_loopPairs (x : Fin np × Fin ns) : x ∈ loopPairs np ns := by
  unfold loopPairs
  simp only [List.mem_flatMap, List.mem_finRange, List.mem_map, true_and]
  exact ⟨x.2, x.1, rfl⟩

/-- **the repaired in-place loop computes the closed-form transposition**, for every size. -/
theorem transposeLoop_eq_transposeC {T : CTables np ns nt} (h : T.WF) (fc : CFC np ns α) :
    transposeLoop T fc = fun ip j k l => fc (T.s2pp j) (T.perms (T.nsym j) (T.p2s ip)) l k := by
  have inv0 : LoopInv T fc ({ fc := fc, done := fun _ _ => false } : LoopState np ns α) (loopPairs np ns) :=
    ⟨by intro x hx; simp at hx, by intro x k l; simp, by intro x _ _; rfl⟩
  obtain ⟨inv, hall, _⟩ := loop_inv h fc (loopPairs np ns) _ loopPairs_nodup inv0
  funext ip j k l
  have := inv.vals (ip, j) k l
  rw [hall (ip, j) (mem_loopPairs _)] at this
  simpa [transposeLoop, partner] using this

end PhononModel

namespace PhononModel
variable {K : Type} [Field K] [CharZero K]

theorem swapIdx_involutive {n : Nat} (x : Idx4 n) : swapIdx (swapIdx x) = x := rfl

/-- fold of the averaging statement over ANY list of indices: touched entries (or entries whose
partner is touched) hold the average of the original pair, the others are unchanged.  No
disjointness is needed: averaging an already averaged pair changes nothing. -/
theorem avg_fold {n : Nat} (s0 : Idx4 n → K) :
    ∀ (ms : List (Idx4 n)) (s : Idx4 n → K),
      (∀ x, (s x = s0 x ∧ s (swapIdx x) = s0 (swapIdx x)) ∨
            (s x = (s0 x + s0 (swapIdx x)) / 2 ∧ s (swapIdx x) = (s0 x + s0 (swapIdx x)) / 2)) →
      ∀ x, (ms.foldl avgStmt s) x =
        if x ∈ ms ∨ swapIdx x ∈ ms then (s0 x + s0 (swapIdx x)) / 2 else s x
  | [], s, _, x => by simp
  | m :: ms, s, hs, x => by
    have hA : ∀ y : Idx4 n, (s0 (swapIdx y) + s0 y) / 2 = (s0 y + s0 (swapIdx y)) / 2 := fun y => by ring
    -- value written by the statement at m
    have hv : (s m + s (swapIdx m)) / 2 = (s0 m + s0 (swapIdx m)) / 2 := by
      rcases hs m with ⟨a, b⟩ | ⟨a, b⟩
      · rw [a, b]
      · rw [a, b]; ring
    have hs' : ∀ y, ((avgStmt s m) y = s0 y ∧ (avgStmt s m) (swapIdx y) = s0 (swapIdx y)) ∨
        ((avgStmt s m) y = (s0 y + s0 (swapIdx y)) / 2 ∧
          (avgStmt s m) (swapIdx y) = (s0 y + s0 (swapIdx y)) / 2) := by
      intro y
      by_cases h1 : y = m
      · subst h1
        right
        constructor
        · simp only [avgStmt]; split <;> simp [hv]
        · simp [avgStmt, hv]
      · by_cases h2 : y = swapIdx m
        · subst h2
          right
          simp only [swapIdx_involutive]
          constructor
          · simp [avgStmt, hv, hA]
          · simp only [avgStmt]; split <;> simp [hv, hA]
        · have h3 : swapIdx y ≠ swapIdx m := fun c => h1 (by
            have := congrArg swapIdx c; simpa [swapIdx_involutive] using this)
          have h4 : swapIdx y ≠ m := fun c => h2 (by
            have := congrArg swapIdx c; simpa [swapIdx_involutive] using this)
          simp only [avgStmt, h1, h2, h3, h4, if_false]
          exact hs y
    rw [List.foldl_cons, avg_fold s0 ms (avgStmt s m) hs' x]
    by_cases hx : x ∈ ms ∨ swapIdx x ∈ ms
    · have : x ∈ m :: ms ∨ swapIdx x ∈ m :: ms := by
        rcases hx with h | h
        · exact Or.inl (List.mem_cons_of_mem _ h)
        · exact Or.inr (List.mem_cons_of_mem _ h)
      rw [if_pos hx, if_pos this]
    · have hx1 : x ∉ ms := fun c => hx (Or.inl c)
      have hx2 : swapIdx x ∉ ms := fun c => hx (Or.inr c)
      simp only [hx, if_false, List.mem_cons, hx1, hx2, or_false]
      by_cases h1 : x = m
      · subst h1
        simp only [true_or, if_true, avgStmt]; split <;> simp [hv]
      · by_cases h2 : swapIdx x = m
        · have : x = swapIdx m := by rw [← h2]; rfl
          subst this
          simp [avgStmt, hv, hA, swapIdx_involutive]
        · have h2' : x ≠ swapIdx m := fun c => h2 (by rw [c]; rfl)
          simp [avgStmt, h1, h2, h2']

theorem mem_permLoopIdx {n : Nat} (x : Idx4 n) :
    x ∈ permLoopIdx n ↔ (x.1 < x.2.1 ∨ (x.1 = x.2.1 ∧ x.2.2.1 < x.2.2.2)) := by
  obtain ⟨i, j, k, l⟩ := x
  simp only [permLoopIdx, List.mem_flatMap, List.mem_finRange, List.mem_append, List.mem_filter,
    List.mem_map, true_and, decide_eq_true_eq, Prod.mk.injEq]
  constructor
  · rintro ⟨i', h | h⟩
    · obtain ⟨j', hij, k', l', rfl, rfl, rfl, rfl⟩ := h
      exact Or.inl hij
    · obtain ⟨k', _, l', hkl, rfl, rfl, rfl, rfl⟩ := h
      exact Or.inr ⟨rfl, hkl⟩
  · rintro (h | ⟨rfl, h⟩)
    · exact ⟨i, Or.inl ⟨j, h, k, l, rfl, rfl, rfl, rfl⟩⟩
    · refine ⟨i, Or.inr ⟨k, ?_, l, h, rfl, rfl, rfl, rfl⟩⟩
      have := l.2; omega

/-- **the in-place sequential loop of `set_index_permutation_symmetry_fc` equals the closed
form `permSym`**, for every number of atoms and every array. -/
theorem permSymLoop_eq {n : Nat} (Φ : FC n K) : permSymLoop Φ = permSym Φ := by
  funext i j k l
  simp only [permSymLoop, permSym_apply]
  rw [avg_fold (fun x : Idx4 n => Φ x.1 x.2.1 x.2.2.1 x.2.2.2) _ _ (fun x => Or.inl ⟨rfl, rfl⟩)]
  by_cases h : (i, j, k, l) ∈ permLoopIdx n ∨ swapIdx (i, j, k, l) ∈ permLoopIdx n
  · rw [if_pos h]; rfl
  · -- untouched entries are the symmetric diagonal ones: i = j and k = l
    rw [if_neg h]
    simp only [mem_permLoopIdx, swapIdx, not_or, not_and, not_lt] at h
    obtain ⟨⟨h1, h2⟩, h3, h4⟩ := h
    have hij : i = j := le_antisymm h3 h1
    subst hij
    have hkl : k = l := le_antisymm (h4 rfl) (h2 rfl)
    subst hkl
    ring

end PhononModel
