import PhononModel.Model.WriterFormat
import PhononModel.Lemmas.CrystalEquiv
import Mathlib.Algebra.Order.Floor.Ring
import Mathlib.Data.Rat.Floor
import Mathlib.Algebra.Order.Field.Rat
import Mathlib.Tactic.Linarith
import Mathlib.Tactic.FieldSimp
import Mathlib.Tactic.FinCases
import Mathlib.Tactic.NormNum
import Mathlib.Tactic.Positivity
/-! Lemmas about printed fields, tokenisation, rounding and wrapping. -/
namespace PhononModel.WriterFormat
open PhononModel.Crystal

/-! ### rendered numbers contain no blank and are not empty -/

theorem digitChar_ne_blank (k : Nat) : digitChar k ≠ ' ' := by
  unfold digitChar; split <;> decide

theorem natDigitsAux_noblank : ∀ (fuel n : Nat) (acc : List Char), (∀ c ∈ acc, c ≠ ' ') →
    ∀ c ∈ natDigitsAux fuel n acc, c ≠ ' '
  | 0, _, acc, h => h
  | fuel + 1, n, acc, h => by
    unfold natDigitsAux
    split
    · intro c hc
      rcases List.mem_cons.mp hc with rfl | hc
      · exact digitChar_ne_blank _
      · exact h c hc
    · apply natDigitsAux_noblank
      intro c hc
      rcases List.mem_cons.mp hc with rfl | hc
      · exact digitChar_ne_blank _
      · exact h c hc

theorem natDigitsAux_ne_nil : ∀ (fuel n : Nat) (acc : List Char), (acc ≠ [] ∨ 0 < fuel) → natDigitsAux fuel n acc ≠ []
  | 0, _, acc, h => by
    rcases h with h | h
    · exact h
    · omega
  | fuel + 1, n, acc, _ => by
    unfold natDigitsAux
    split
    · simp
    · exact natDigitsAux_ne_nil fuel _ _ (Or.inl (by simp))

theorem natDigits_noblank (n : Nat) : ∀ c ∈ natDigits n, c ≠ ' ' :=
  natDigitsAux_noblank _ _ [] (by simp)

theorem natDigits_ne_nil (n : Nat) : natDigits n ≠ [] := natDigitsAux_ne_nil _ _ [] (Or.inr (by omega))

theorem render_noblank (d : Nat) (x : Rat) : ∀ c ∈ render d x, c ≠ ' ' := by
  intro c hc
  unfold render at hc
  simp only [List.mem_append] at hc
  rcases hc with (hc | hc) | hc
  · split at hc
    · simp only [List.mem_singleton] at hc; subst hc; decide
    · simp at hc
  · exact natDigits_noblank _ c hc
  · split at hc
    · simp at hc
    · rcases List.mem_cons.mp hc with rfl | hc
      · decide
      · unfold fracDigits at hc
        simp only [List.mem_append, List.mem_replicate] at hc
        rcases hc with ⟨_, rfl⟩ | hc
        · decide
        · exact natDigits_noblank _ c hc

theorem render_ne_nil (d : Nat) (x : Rat) : render d x ≠ [] := by
  unfold render
  intro h
  simp only [List.append_eq_nil_iff] at h
  exact natDigits_ne_nil _ h.1.2

/-! ### length of a rendered number in [0,1): fixed-column formats -/

theorem natDigitsAux_length_le : ∀ (fuel n : Nat) (acc : List Char) (k : Nat), 1 ≤ k → n < 10 ^ k →
    (natDigitsAux fuel n acc).length ≤ k + acc.length
  | 0, _, acc, k, _, _ => by simp [natDigitsAux]
  | fuel + 1, n, acc, k, hk, hn => by
    unfold natDigitsAux
    split
    · simp only [List.length_cons]; omega
    · next h10 =>
      have hk2 : 2 ≤ k := by
        by_contra hlt
        have : k = 1 := by omega
        subst this
        simp at hn
        omega
      have hdiv : n / 10 < 10 ^ (k - 1) := by
        have : 10 ^ k = 10 ^ (k - 1) * 10 := by
          rw [← pow_succ]; congr 1; omega
        rw [this] at hn
        exact Nat.div_lt_of_lt_mul (by rw [Nat.mul_comm]; exact hn)
      have := natDigitsAux_length_le fuel (n / 10) (digitChar (n % 10) :: acc) (k - 1) (by omega) hdiv
      simp only [List.length_cons] at this
      omega

theorem natDigits_length_le (n k : Nat) (hk : 1 ≤ k) (hn : n < 10 ^ k) : (natDigits n).length ≤ k := by
  have := natDigitsAux_length_le (n + 1) n [] k hk hn
  simpa [natDigits] using this

theorem natDigits_small (n : Nat) (h : n < 10) : natDigits n = [digitChar n] := by
  simp [natDigits, natDigitsAux, h]

theorem fracDigits_length (d k : Nat) (hd : 1 ≤ d) (hk : k < 10 ^ d) : (fracDigits d k).length = d := by
  unfold fracDigits
  have := natDigits_length_le k d hd hk
  simp only [List.length_append, List.length_replicate]
  omega

/-- a number in [0,1) printed with `d ≥ 1` decimals occupies exactly `d + 2` characters -/
theorem render_length_unit (d : Nat) (hd : 1 ≤ d) (x : ℚ) (h0 : 0 ≤ x) (h1 : x < 1) : (render d x).length = d + 2 := by
  have hp : (0 : ℚ) < 10 ^ d := by positivity
  have hneg : decide (x < 0) = false := by simpa using h0
  set y : ℚ := x * 10 ^ d + 1 / 2 with hy
  have hy0 : 0 ≤ y := by positivity
  have hfl0 : 0 ≤ Rat.floor y := by
    show 0 ≤ ⌊y⌋
    exact Int.floor_nonneg.mpr hy0
  have hfl1 : Rat.floor y ≤ 10 ^ d := by
    show ⌊y⌋ ≤ 10 ^ d
    have : y < (10 ^ d : ℚ) + 1 := by
      have : x * 10 ^ d < 10 ^ d := by nlinarith
      linarith
    have h2 : ⌊y⌋ < 10 ^ d + 1 := by
      rw [Int.floor_lt]; push_cast; exact this
    omega
  have hn0 : (Rat.floor y).toNat ≤ 10 ^ d := by
    have := Int.toNat_le_toNat hfl1
    simpa using this
  unfold render
  simp only [hneg, Bool.false_eq_true, if_false, List.nil_append]
  rw [← hy]
  set n0 : Nat := (Rat.floor y).toNat with hn0def
  set n : Nat := if ((Rat.floor y : ℤ) : ℚ) = y ∧ n0 % 2 = 1 then n0 - 1 else n0 with hndef
  have hn : n ≤ 10 ^ d := by
    rw [hndef]; split <;> omega
  have hpd : 0 < 10 ^ d := by positivity
  have hip : n / 10 ^ d < 10 := by
    have : n / 10 ^ d ≤ 1 := by
      calc n / 10 ^ d ≤ 10 ^ d / 10 ^ d := Nat.div_le_div_right hn
        _ = 1 := Nat.div_self hpd
    omega
  have hfp : n % 10 ^ d < 10 ^ d := Nat.mod_lt _ hpd
  have hd0 : d ≠ 0 := by omega
  simp only [hd0, if_false, List.length_append, List.length_cons, natDigits_small _ hip, List.length_singleton,
    fracDigits_length d _ hd hfp, List.length_nil]
  omega

/-! ### tokenisation -/

theorem tokensAux_blank_nil (t : List Char) : tokensAux (' ' :: t) [] = tokensAux t [] := by
  simp [tokensAux]

theorem tokensAux_blank_cons (t : List Char) (a : Char) (cur : List Char) :
    tokensAux (' ' :: t) (a :: cur) = (a :: cur).reverse :: tokensAux t [] := by
  simp [tokensAux]

theorem tokensAux_nonblank (c : Char) (hc : c ≠ ' ') (t cur : List Char) :
    tokensAux (c :: t) cur = tokensAux t (c :: cur) := by
  simp [tokensAux, hc]

theorem tokensAux_end (a : Char) (cur : List Char) : tokensAux [] (a :: cur) = [(a :: cur).reverse] := by
  simp [tokensAux]

theorem tokensAux_blanks (k : Nat) (s : List Char) : tokensAux (List.replicate k ' ' ++ s) [] = tokensAux s [] := by
  induction k with
  | zero => simp
  | succ k ih => rw [List.replicate_succ, List.cons_append, tokensAux_blank_nil, ih]

theorem tokensAux_word (r : List Char) (hr : ∀ c ∈ r, c ≠ ' ') : ∀ (cur t : List Char),
    tokensAux (r ++ t) cur = tokensAux t (r.reverse ++ cur) := by
  induction r with
  | nil => intro cur t; simp
  | cons c r ih =>
    intro cur t
    have hc : c ≠ ' ' := hr c (by simp)
    rw [List.cons_append, tokensAux_nonblank c hc, ih (fun c' h => hr c' (List.mem_cons_of_mem _ h))]
    simp

/-- fields that contain no blank and are each preceded by at least one blank come back unchanged -/
theorem tokens_of_separated : ∀ (ps : List (Nat × List Char)),
    (∀ p ∈ ps, p.2 ≠ [] ∧ ∀ c ∈ p.2, c ≠ ' ') →
    tokens ((ps.map (fun p => ' ' :: (List.replicate p.1 ' ' ++ p.2))).flatten) = ps.map (·.2)
  | [], _ => by simp [tokens, tokensAux]
  | p :: ps, h => by
    have hp := h p (by simp)
    have ih := tokens_of_separated ps (fun q hq => h q (List.mem_cons_of_mem _ hq))
    unfold tokens at ih ⊢
    simp only [List.map_cons, List.flatten_cons, List.cons_append, List.append_assoc]
    rw [tokensAux_blank_nil, tokensAux_blanks, tokensAux_word p.2 hp.2, List.append_nil]
    obtain ⟨a, w, hw⟩ : ∃ a w, p.2.reverse = a :: w := by
      cases hrev : p.2.reverse with
      | nil => exact absurd (List.reverse_eq_nil_iff.mp hrev) hp.1
      | cons a w => exact ⟨a, w, rfl⟩
    have hback : (a :: w).reverse = p.2 := by rw [← hw, List.reverse_reverse]
    rw [hw]
    cases ps with
    | nil => simp only [List.map_nil, List.flatten_nil]; rw [tokensAux_end, hback]
    | cons q qs =>
      simp only [List.map_cons, List.flatten_cons, List.cons_append, List.append_assoc] at ih ⊢
      rw [tokensAux_blank_nil] at ih
      rw [tokensAux_blank_cons, hback, ih]

/-! ### rounding -/

theorem roundTo_error (d : Nat) (x : ℚ) : |x - roundTo d x| ≤ halfUlp d := by
  unfold roundTo halfUlp
  have hp : (0 : ℚ) < 10 ^ d := by positivity
  set p : ℚ := 10 ^ d with hpdef
  set y := x * p + 1 / 2 with hy
  have hfl : Rat.floor y = ⌊y⌋ := rfl
  rw [hfl]
  have h1 : (⌊y⌋ : ℚ) ≤ y := Int.floor_le y
  have h2 : y < ⌊y⌋ + 1 := Int.lt_floor_add_one y
  set q : ℚ := (⌊y⌋ : ℚ) / p with hq
  set e : ℚ := 1 / (2 * p) with he
  have hqp : q * p = (⌊y⌋ : ℚ) := by rw [hq]; field_simp
  have hep : e * p = 1 / 2 := by rw [he]; field_simp
  rw [abs_le]
  constructor
  · have : (q - e) * p ≤ x * p := by nlinarith
    have := le_of_mul_le_mul_right this hp
    linarith
  · have : x * p ≤ (q + e) * p := by nlinarith
    have := le_of_mul_le_mul_right this hp
    linarith

/-! ### wrapping into [0,1) -/

theorem frac_frac (x : ℚ) : frac (frac x) = frac x := by
  unfold frac
  have h : Rat.floor (x - ((Rat.floor x : ℤ) : ℚ)) = 0 := by
    show ⌊x - ((⌊x⌋ : ℤ) : ℚ)⌋ = 0
    rw [Int.floor_sub_intCast]; simp
  rw [h]; simp

theorem wrapAtom_key (a : Atom) : (wrapAtom a).key = a.key := by
  unfold wrapAtom Atom.key
  simp [frac_frac]

theorem sortedKeys_wrap (l : List Atom) : sortedKeys (l.map wrapAtom) = sortedKeys l := by
  unfold sortedKeys
  rw [List.map_map]
  congr 1
  apply List.map_congr_left
  intro a _
  exact wrapAtom_key a

theorem wrap_sameSite (a : Atom) : SameSite a (wrapAtom a) := by
  refine ⟨rfl, rfl, ?_, ?_, ?_⟩ <;>
  · unfold wrapAtom frac IntDiff
    exact ⟨Rat.floor _, by simp; rfl⟩

theorem allPairs_wrap : ∀ l : List Atom, AllPairs SameSite l (l.map wrapAtom)
  | [] => .nil
  | a :: l => .cons (wrap_sameSite a) (allPairs_wrap l)

theorem wrap_equiv (c : Cell) : Crystal.Equiv c (wrapCell c) := by
  refine ⟨⟨fun i j => if i = j then 1 else 0, ?_, ?_⟩, c.atoms, List.Perm.refl _, allPairs_wrap c.atoms⟩
  · intro i j
    rw [sumFin_eq]
    fin_cases i <;> fin_cases j <;> simp
  · intro i j
    unfold mul3 wrapCell
    rw [sumFin_eq]
    fin_cases i <;> fin_cases j <;> simp

end PhononModel.WriterFormat
