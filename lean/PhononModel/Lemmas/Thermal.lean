import PhononModel.Model.Thermal
import Mathlib.Analysis.SpecialFunctions.Trigonometric.DerivHyp
import Mathlib.Analysis.SpecialFunctions.Log.Deriv
import Mathlib.Analysis.SpecialFunctions.Exp
import Mathlib.Analysis.Calculus.Deriv.MeanValue
import Mathlib.Analysis.Calculus.Deriv.Inv
import Mathlib.Tactic.FieldSimp
import Mathlib.Tactic.Positivity
import Mathlib.Tactic.Linarith
import Mathlib.Tactic.NormNum
/-!
Real-analysis lemmas behind Props/C10.lean: the reduced (dimensionless) harmonic-oscillator
functions of `x = hν/kT`

* `sF x = log (1 - e⁻ˣ)`        (free energy / kT, without zero-point part)
* `sS x = x/(eˣ-1) - log (1 - e⁻ˣ)`   (entropy / k)
* `sC x = x² eˣ/(eˣ-1)²`        (heat capacity / k)

their derivatives, signs, bounds, monotonicity and limits.
-/
namespace PhononModel.C10
open Real Filter Topology

/-- the real instantiation of the thermal environment, Boltzmann constant `k` -/
noncomputable def envR (k : ℝ) : ThermalEnv ℝ :=
  { exp := Real.exp, log := Real.log, sinh := Real.sinh, cosh := Real.cosh,
    expm1 := fun x => Real.exp x - 1, KB := k }

noncomputable def sF (x : ℝ) : ℝ := Real.log (1 - Real.exp (-x))
noncomputable def sS (x : ℝ) : ℝ := x / (Real.exp x - 1) - Real.log (1 - Real.exp (-x))
noncomputable def sC (x : ℝ) : ℝ := x ^ 2 * Real.exp x / (Real.exp x - 1) ^ 2

theorem exp_sub_one_pos {x : ℝ} (hx : 0 < x) : 0 < Real.exp x - 1 := by
  have := Real.add_one_lt_exp (ne_of_gt hx); linarith

theorem one_sub_exp_neg_pos {x : ℝ} (hx : 0 < x) : 0 < 1 - Real.exp (-x) := by
  have : Real.exp (-x) < 1 := by rw [Real.exp_lt_one_iff]; linarith
  linarith

theorem one_sub_exp_neg_eq {x : ℝ} : 1 - Real.exp (-x) = (Real.exp x - 1) / Real.exp x := by
  rw [Real.exp_neg]; field_simp

/-! ### derivatives in `x` -/

theorem hasDerivAt_sF {x : ℝ} (hx : 0 < x) : HasDerivAt sF (1 / (Real.exp x - 1)) x := by
  have h1 : HasDerivAt (fun y : ℝ => 1 - Real.exp (-y)) (Real.exp (-x)) x := by
    have := ((Real.hasDerivAt_exp (-x)).comp x (hasDerivAt_neg x)).const_sub 1
    simpa using this
  have h2 := h1.log (ne_of_gt (one_sub_exp_neg_pos hx))
  have hpos := exp_sub_one_pos hx
  have hE : Real.exp x ≠ 0 := Real.exp_ne_zero x
  refine h2.congr_deriv ?_
  rw [one_sub_exp_neg_eq, Real.exp_neg]
  field_simp

theorem hasDerivAt_sS {x : ℝ} (hx : 0 < x) : HasDerivAt sS (-(sC x / x)) x := by
  have hpos := exp_sub_one_pos hx
  have h1 : HasDerivAt (fun y : ℝ => Real.exp y - 1) (Real.exp x) x := by
    simpa using (Real.hasDerivAt_exp x).sub_const 1
  have h2 := (hasDerivAt_id' x).fun_div h1 (ne_of_gt hpos)
  have h3 := h2.fun_sub (hasDerivAt_sF hx)
  refine h3.congr_deriv ?_
  unfold sC
  field_simp
  ring

/-! ### the code's expressions in reduced form -/

open PhononModel.Thermal

theorem modeF_eq (k T f : ℝ) :
    modeF (envR k) T f false = k * T * sF (f / (k * T)) + f / 2 := by
  simp only [modeF, envR, sF, neg_div, Bool.false_eq_true, if_false]

theorem modeF_cl_eq (k T f : ℝ) :
    modeF (envR k) T f true = k * T * Real.log (f / (k * T)) := by
  simp only [modeF, envR, if_true]

theorem modeS_cl_eq (k T f : ℝ) :
    modeS (envR k) T f true = k - k * Real.log (f / (k * T)) := by
  simp only [modeS, envR, if_true]

/-- `log (2 sinh v)` and `log (1 - e^{-2v})` through `L = log (e^{2v} - 1)` -/
theorem log_two_sinh {v : ℝ} (hv : 0 < v) :
    Real.log (2 * Real.sinh v) = Real.log (Real.exp (2 * v) - 1) - v := by
  have ha : 0 < Real.exp v := Real.exp_pos v
  have h1 : 0 < Real.exp (2 * v) - 1 := exp_sub_one_pos (by linarith)
  have h2 : 2 * Real.sinh v = (Real.exp (2 * v) - 1) / Real.exp v := by
    have e2 : Real.exp (2 * v) = Real.exp v * Real.exp v := by rw [two_mul, Real.exp_add]
    rw [Real.sinh_eq, Real.exp_neg, e2]; field_simp
  rw [h2, Real.log_div (ne_of_gt h1) (ne_of_gt ha), Real.log_exp]

theorem log_one_sub_exp_neg {x : ℝ} (hx : 0 < x) :
    Real.log (1 - Real.exp (-x)) = Real.log (Real.exp x - 1) - x := by
  rw [one_sub_exp_neg_eq, Real.log_div (ne_of_gt (exp_sub_one_pos hx)) (Real.exp_ne_zero x), Real.log_exp]

theorem coth_eq {v : ℝ} (hv : 0 < v) :
    Real.cosh v / Real.sinh v = (Real.exp (2 * v) + 1) / (Real.exp (2 * v) - 1) := by
  have ha : 0 < Real.exp v := Real.exp_pos v
  have h1 : 0 < Real.exp (2 * v) - 1 := exp_sub_one_pos (by linarith)
  have hs : 0 < Real.sinh v := Real.sinh_pos_iff.2 hv
  have e2 : Real.exp (2 * v) = Real.exp v * Real.exp v := by rw [two_mul, Real.exp_add]
  rw [div_eq_div_iff (ne_of_gt hs) (ne_of_gt h1), Real.sinh_eq, Real.cosh_eq, Real.exp_neg, e2]
  field_simp

theorem modeS_eq {k T f : ℝ} (hk : 0 < k) (hT : 0 < T) (hf : 0 < f) :
    modeS (envR k) T f false = k * sS (f / (k * T)) := by
  have hv : 0 < f / (2 * k * T) := by positivity
  have hx : f / (k * T) = 2 * (f / (2 * k * T)) := by field_simp
  have h1 : 0 < Real.exp (2 * (f / (2 * k * T))) - 1 := exp_sub_one_pos (by linarith)
  simp only [modeS, envR, sS, Bool.false_eq_true, if_false]
  rw [mul_div_assoc, coth_eq hv, log_two_sinh hv, hx, log_one_sub_exp_neg (by linarith)]
  generalize Real.log (Real.exp (2 * (f / (2 * k * T))) - 1) = L
  generalize Real.exp (2 * (f / (2 * k * T))) = A at h1 ⊢
  field_simp
  ring

theorem modeCv_eq {k T f : ℝ} (hk : 0 < k) (hT : 0 < T) (hf : 0 < f) :
    modeCv (envR k) T f false = k * sC (f / (k * T)) := by
  have h1 : 0 < Real.exp (f / (k * T)) - 1 := exp_sub_one_pos (by positivity)
  simp only [modeCv, envR, sC, Bool.false_eq_true, if_false, div_div]
  generalize Real.exp (f / (k * T)) = A at h1 ⊢
  field_simp

theorem modeS'_eq {k T f : ℝ} (hk : 0 < k) (hT : 0 < T) (hf : 0 < f) :
    modeS' (envR k) T f false = k * sS (f / (k * T)) := by
  have hx : 0 < f / (k * T) := by positivity
  have h1 := exp_sub_one_pos hx
  simp only [modeS', envR, sS, Bool.false_eq_true, if_false, neg_sub]
  congr 2
  rw [one_sub_exp_neg_eq, Real.exp_neg]
  field_simp

theorem modeCv'_eq {k T f : ℝ} (hk : 0 < k) (hT : 0 < T) (hf : 0 < f) :
    modeCv' (envR k) T f false = k * sC (f / (k * T)) := by
  have hx : 0 < f / (k * T) := by positivity
  have h1 := exp_sub_one_pos hx
  simp only [modeCv', envR, sC, Bool.false_eq_true, if_false, neg_sub]
  rw [one_sub_exp_neg_eq, Real.exp_neg]
  generalize Real.exp (f / (k * T)) = A at h1 ⊢
  have hA : 0 < A := by linarith
  field_simp

/-! ### derivatives in `T` -/

theorem hasDerivAt_x {k T f : ℝ} (hk : 0 < k) (hT : 0 < T) :
    HasDerivAt (fun t : ℝ => f / (k * t)) (-(f / (k * T)) / T) T := by
  have h1 : HasDerivAt (fun t : ℝ => k * t) k T := by simpa using (hasDerivAt_id' T).const_mul k
  have h2 := (hasDerivAt_const T f).fun_div h1 (by positivity)
  refine h2.congr_deriv ?_
  field_simp
  ring

theorem hasDerivAt_modeF {k T f : ℝ} (hk : 0 < k) (hT : 0 < T) (hf : 0 < f) :
    HasDerivAt (fun t => modeF (envR k) t f false) (-(modeS (envR k) T f false)) T := by
  have hx : 0 < f / (k * T) := by positivity
  have hpos := exp_sub_one_pos hx
  have hfun : (fun t => modeF (envR k) t f false) = fun t => k * t * sF (f / (k * t)) + f / 2 := by
    funext t; exact modeF_eq k t f
  rw [hfun, modeS_eq hk hT hf]
  have h1 : HasDerivAt (fun t : ℝ => k * t) k T := by simpa using (hasDerivAt_id' T).const_mul k
  have h2 := (hasDerivAt_sF hx).comp T (hasDerivAt_x (f := f) hk hT)
  have h3 := (h1.fun_mul h2).add_const (f / 2)
  refine h3.congr_deriv ?_
  simp only [Function.comp, sS, sF]
  field_simp
  ring

theorem hasDerivAt_modeS {k T f : ℝ} (hk : 0 < k) (hT : 0 < T) (hf : 0 < f) :
    HasDerivAt (fun t => modeS (envR k) t f false) (modeCv (envR k) T f false / T) T := by
  have hx : 0 < f / (k * T) := by positivity
  rw [modeCv_eq hk hT hf]
  have h2 := ((hasDerivAt_sS hx).comp T (hasDerivAt_x (f := f) hk hT)).const_mul k
  have h3 : HasDerivAt (fun t => modeS (envR k) t f false)
      (k * (-(sC (f / (k * T)) / (f / (k * T))) * (-(f / (k * T)) / T))) T := by
    refine h2.congr_of_eventuallyEq ?_
    filter_upwards [eventually_gt_nhds hT] with t ht
    simp only [Function.comp]
    exact modeS_eq hk ht hf
  refine h3.congr_deriv ?_
  field_simp

theorem hasDerivAt_modeF_cl {k T f : ℝ} (hk : 0 < k) (hT : 0 < T) (hf : 0 < f) :
    HasDerivAt (fun t => modeF (envR k) t f true) (-(modeS (envR k) T f true)) T := by
  have hx : 0 < f / (k * T) := by positivity
  have hfun : (fun t => modeF (envR k) t f true) = fun t => k * t * Real.log (f / (k * t)) := by
    funext t; exact modeF_cl_eq k t f
  rw [hfun, modeS_cl_eq]
  have h1 : HasDerivAt (fun t : ℝ => k * t) k T := by simpa using (hasDerivAt_id' T).const_mul k
  have h2 := (hasDerivAt_x (f := f) hk hT).log (ne_of_gt hx)
  refine (h1.fun_mul h2).congr_deriv ?_
  field_simp
  ring

theorem hasDerivAt_modeS_cl {k T f : ℝ} (hk : 0 < k) (hT : 0 < T) (hf : 0 < f) :
    HasDerivAt (fun t => modeS (envR k) t f true) (modeCv (envR k) T f true / T) T := by
  have hx : 0 < f / (k * T) := by positivity
  have hfun : (fun t => modeS (envR k) t f true) = fun t => k - k * Real.log (f / (k * t)) := by
    funext t; exact modeS_cl_eq k t f
  rw [hfun]
  have h2 := (((hasDerivAt_x (f := f) hk hT).log (ne_of_gt hx)).const_mul k).const_sub k
  refine h2.congr_deriv ?_
  simp only [modeCv, envR, if_true]
  field_simp

/-! ### signs and bounds -/

theorem sS_pos {x : ℝ} (hx : 0 < x) : 0 < sS x := by
  have h1 := exp_sub_one_pos hx
  have h2 := one_sub_exp_neg_pos hx
  have h3 : Real.log (1 - Real.exp (-x)) < 0 :=
    Real.log_neg h2 (by have := Real.exp_pos (-x); linarith)
  have h4 : 0 < x / (Real.exp x - 1) := div_pos hx h1
  unfold sS; linarith

theorem sC_pos {x : ℝ} (hx : 0 < x) : 0 < sC x := by
  have h1 := exp_sub_one_pos hx
  unfold sC; positivity

theorem sC_eq_sq {x : ℝ} (hx : 0 < x) : sC x = (x / 2 / Real.sinh (x / 2)) ^ 2 := by
  have hv : 0 < x / 2 := by linarith
  have hs : 0 < Real.sinh (x / 2) := Real.sinh_pos_iff.2 hv
  have ha : 0 < Real.exp (x / 2) := Real.exp_pos _
  have e2 : Real.exp x = Real.exp (x / 2) * Real.exp (x / 2) := by rw [← Real.exp_add]; congr 1; ring
  have h1 := exp_sub_one_pos hx
  have hs2 : Real.sinh (x / 2) = (Real.exp x - 1) / (2 * Real.exp (x / 2)) := by
    rw [Real.sinh_eq, Real.exp_neg, e2]; field_simp
  unfold sC
  rw [hs2, e2]
  rw [e2] at h1
  field_simp

theorem sC_le_one {x : ℝ} (hx : 0 < x) : sC x ≤ 1 := by
  have hv : 0 < x / 2 := by linarith
  have hs : 0 < Real.sinh (x / 2) := Real.sinh_pos_iff.2 hv
  have h1 : x / 2 ≤ Real.sinh (x / 2) := Real.self_le_sinh_iff.2 hv.le
  rw [sC_eq_sq hx]
  have h2 : x / 2 / Real.sinh (x / 2) ≤ 1 := (div_le_one hs).2 h1
  have h3 : 0 ≤ x / 2 / Real.sinh (x / 2) := by positivity
  exact pow_le_one₀ h3 h2

/-! ### monotonicity -/

/-- `tanh v ≤ v` in the form used here -/
theorem sinh_le_mul_cosh {v : ℝ} (hv : 0 ≤ v) : Real.sinh v ≤ v * Real.cosh v := by
  have hd : ∀ y : ℝ, HasDerivAt (fun y => y * Real.cosh y - Real.sinh y) (y * Real.sinh y) y := by
    intro y
    have := ((hasDerivAt_id' y).fun_mul (Real.hasDerivAt_cosh y)).fun_sub (Real.hasDerivAt_sinh y)
    refine this.congr_deriv ?_
    ring
  have hmono : MonotoneOn (fun y => y * Real.cosh y - Real.sinh y) (Set.Ici 0) := by
    apply monotoneOn_of_deriv_nonneg (convex_Ici 0)
    · exact fun y _ => (hd y).continuousAt.continuousWithinAt
    · exact fun y _ => (hd y).differentiableAt.differentiableWithinAt
    · intro y hy
      rw [interior_Ici] at hy
      rw [(hd y).deriv]
      exact mul_nonneg (le_of_lt hy) (Real.sinh_nonneg_iff.2 (le_of_lt hy))
  have := hmono (Set.mem_Ici.2 le_rfl) (Set.mem_Ici.2 hv) hv
  simp at this
  linarith

theorem antitoneOn_div_sinh : AntitoneOn (fun v : ℝ => v / Real.sinh v) (Set.Ioi 0) := by
  have hd : ∀ y : ℝ, 0 < y → HasDerivAt (fun y => y / Real.sinh y)
      ((1 * Real.sinh y - y * Real.cosh y) / Real.sinh y ^ 2) y := fun y hy =>
    (hasDerivAt_id' y).fun_div (Real.hasDerivAt_sinh y) (ne_of_gt (Real.sinh_pos_iff.2 hy))
  apply antitoneOn_of_deriv_nonpos (convex_Ioi 0)
  · exact fun y hy => (hd y hy).continuousAt.continuousWithinAt
  · intro y hy
    rw [interior_Ioi] at hy
    exact (hd y hy).differentiableAt.differentiableWithinAt
  · intro y hy
    rw [interior_Ioi] at hy
    rw [(hd y hy).deriv]
    apply div_nonpos_of_nonpos_of_nonneg _ (sq_nonneg _)
    have := sinh_le_mul_cosh (le_of_lt hy)
    linarith

theorem sC_antitoneOn : AntitoneOn sC (Set.Ioi 0) := by
  intro a ha b hb hab
  rw [Set.mem_Ioi] at ha hb
  rw [sC_eq_sq ha, sC_eq_sq hb]
  have h1 : b / 2 / Real.sinh (b / 2) ≤ a / 2 / Real.sinh (a / 2) :=
    antitoneOn_div_sinh (Set.mem_Ioi.2 (by linarith)) (Set.mem_Ioi.2 (by linarith)) (by linarith)
  have h0 : 0 ≤ b / 2 / Real.sinh (b / 2) :=
    div_nonneg (by linarith) (le_of_lt (Real.sinh_pos_iff.2 (by linarith)))
  exact pow_le_pow_left₀ h0 h1 2

theorem sS_antitoneOn : AntitoneOn sS (Set.Ioi 0) := by
  apply antitoneOn_of_deriv_nonpos (convex_Ioi 0)
  · exact fun y hy => (hasDerivAt_sS hy).continuousAt.continuousWithinAt
  · intro y hy
    rw [interior_Ioi] at hy
    exact (hasDerivAt_sS hy).differentiableAt.differentiableWithinAt
  · intro y hy
    rw [interior_Ioi] at hy
    rw [(hasDerivAt_sS hy).deriv]
    have : 0 ≤ sC y / y := div_nonneg (le_of_lt (sC_pos hy)) (le_of_lt hy)
    linarith

theorem x_antitone {k f T₁ T₂ : ℝ} (hk : 0 < k) (hf : 0 < f) (h1 : 0 < T₁) (h12 : T₁ ≤ T₂) :
    f / (k * T₂) ≤ f / (k * T₁) := by
  apply div_le_div_of_nonneg_left (le_of_lt hf) (by positivity)
  exact mul_le_mul_of_nonneg_left h12 (le_of_lt hk)

end PhononModel.C10
