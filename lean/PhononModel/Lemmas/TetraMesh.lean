import PhononModel.Model.TetraMesh
import PhononModel.Lemmas.GridImage
import Mathlib.Algebra.Order.Field.Basic
import Mathlib.Tactic.Linarith
import Mathlib.Tactic.Ring
import Mathlib.Tactic.FinCases
import Mathlib.Data.Fin.VecNotation

/-! Neighbour lookup, ir lookup and the tiling of the cell by six tetrahedra (C11). -/
set_option linter.unusedVariables false
set_option linter.unusedSectionVars false
set_option linter.unusedSimpArgs false
namespace PhononModel.TetraMesh
open PhononModel.Grid

/-! ### neighbour lookup -/

theorem matModulo_eq (a : Int) (b : Nat) (hb : 0 < b) : matModulo a b = a % (b : Int) := by
  unfold matModulo
  have hb' : (0 : Int) < b := by exact_mod_cast hb
  have h1 := Int.mul_tdiv_add_tmod a b
  have h2 := Int.tmod_lt_of_pos a hb'
  have h3 := Int.lt_tmod_of_pos a hb'
  simp only
  generalize Int.tmod a b = c at *
  generalize Int.tdiv a b = k at *
  split
  · next h =>
    have : a = (c + b) + (b : Int) * (k - 1) := by rw [← h1]; ring
    rw [this, Int.add_mul_emod_self_left, Int.emod_eq_of_lt (by omega) (by omega)]
  · next h =>
    have : a = c + (b : Int) * k := by rw [← h1]; ring
    rw [this, Int.add_mul_emod_self_left, Int.emod_eq_of_lt (by omega) (by omega)]

theorem tdiv_two (d : Int) : Int.tdiv (d * 2) 2 = d := Int.mul_tdiv_cancel d (by decide)

theorem half_double (d : Int) :
    (if Int.tmod (d * 2) 2 = 0 then Int.tdiv (d * 2) 2 else Int.tdiv (d * 2 - 1) 2) = d := by
  rw [if_pos (Int.mul_tmod_left d 2), tdiv_two]

theorem half_double_sub (d : Int) (m : Nat) :
    (if Int.tmod (d * 2 - 2 * (m : Int)) 2 = 0 then Int.tdiv (d * 2 - 2 * (m : Int)) 2 else Int.tdiv (d * 2 - 2 * (m : Int) - 1) 2)
      = d - m := by
  have e : d * 2 - 2 * (m : Int) = (d - m) * 2 := by ring
  rw [e, if_pos (Int.mul_tmod_left _ 2), tdiv_two]

/-- the C neighbour lookup is the grid index of `address + relative address` wrapped modulo the mesh (the single
reduction step of `reduce_double_grid_address` is irrelevant) -/
theorem neighbourIndex_eq (mesh : V3 Nat) (s : V3 Bool) (hx : 0 < mesh.x) (hy : 0 < mesh.y) (hz : 0 < mesh.z) (addr rel : IV) :
    neighbourIndex mesh addr rel = (⟨mesh, s⟩ : Mesh).index (addV addr rel) := by
  unfold neighbourIndex Mesh.index addV
  simp only
  have hx' : (0 : Int) < mesh.x := by exact_mod_cast hx
  have hy' : (0 : Int) < mesh.y := by exact_mod_cast hy
  have hz' : (0 : Int) < mesh.z := by exact_mod_cast hz
  have e : ∀ (d : Int) (m : Nat), 0 < m →
      matModulo (if Int.tmod (if d * 2 > (m : Int) then d * 2 - 2 * (m : Int) else d * 2) 2 = 0
        then Int.tdiv (if d * 2 > (m : Int) then d * 2 - 2 * (m : Int) else d * 2) 2
        else Int.tdiv ((if d * 2 > (m : Int) then d * 2 - 2 * (m : Int) else d * 2) - 1) 2) m = d % (m : Int) := by
    intro d m hm
    split
    · rw [half_double_sub, matModulo_eq _ _ hm]
      have := Int.sub_mul_emod_self_left d (m : Int) 1
      simpa using this
    · rw [half_double, matModulo_eq _ _ hm]
  rw [e _ _ hx, e _ _ hy, e _ _ hz]
  have a0 := Int.emod_nonneg (addr.x + rel.x) (ne_of_gt hx')
  have a1 := Int.emod_nonneg (addr.y + rel.y) (ne_of_gt hy')
  have a2 := Int.emod_nonneg (addr.z + rel.z) (ne_of_gt hz')
  generalize (addr.x + rel.x) % (mesh.x : Int) = p0 at *
  generalize (addr.y + rel.y) % (mesh.y : Int) = p1 at *
  generalize (addr.z + rel.z) % (mesh.z : Int) = p2 at *
  have h0 := Int.toNat_of_nonneg a0
  have h1 := Int.toNat_of_nonneg a1
  have h2 := Int.toNat_of_nonneg a2
  have : p2 * (mesh.x : Int) * (mesh.y : Int) + p1 * (mesh.x : Int) + p0 =
      ((p0.toNat + mesh.x * (p1.toNat + mesh.y * p2.toNat) : Nat) : Int) := by
    push_cast; rw [h0, h1, h2]; ring
  rw [this, Int.toNat_natCast]

/-- every tetrahedron vertex is a grid point of the mesh, and its address is `address + relative address` up to
multiples of the mesh numbers (periodic wrap, also for negative offsets) -/
theorem neighbour_in_range (mesh : V3 Nat) (s : V3 Bool) (hx : 0 < mesh.x) (hy : 0 < mesh.y) (hz : 0 < mesh.z) (addr rel : IV) :
    neighbourIndex mesh addr rel < mesh.x * mesh.y * mesh.z ∧
    ∃ t : IV, ((⟨mesh, s⟩ : Mesh).addr (neighbourIndex mesh addr rel)).x = addr.x + rel.x + (mesh.x : Int) * t.x ∧
      ((⟨mesh, s⟩ : Mesh).addr (neighbourIndex mesh addr rel)).y = addr.y + rel.y + (mesh.y : Int) * t.y ∧
      ((⟨mesh, s⟩ : Mesh).addr (neighbourIndex mesh addr rel)).z = addr.z + rel.z + (mesh.z : Int) * t.z := by
  rw [neighbourIndex_eq mesh s hx hy hz]
  exact ⟨(⟨mesh, s⟩ : Mesh).index_lt hx hy hz _, (⟨mesh, s⟩ : Mesh).addr_index hx hy hz _⟩

/-! ### ir-point lookup (`gp2ir`) -/

def buildN (tab : List Nat) (n : Nat) : G2I := (List.range n).foldl (gp2irStep tab) ⟨[], [], []⟩

theorem buildN_succ (tab : List Nat) (n : Nat) : buildN tab (n + 1) = gp2irStep tab (buildN tab n) n := by
  unfold buildN
  rw [List.range_succ, List.foldl_append]
  rfl

theorem getD_append_lt {l : List Nat} {i : Nat} (h : i < l.length) (e d : Nat) : (l ++ [e]).getD i d = l.getD i d := by
  simp [List.getD_eq_getElem?_getD, List.getElem?_append_left h]

theorem getD_append_eq (l : List Nat) (e d : Nat) : (l ++ [e]).getD l.length d = e := by
  simp [List.getD_eq_getElem?_getD]

/-- invariant of the `gp2ir` loop for a table whose entries are smaller-or-equal fixed points (which is what
`irMap_le` / `irMap_idempotent` give for the model's table) -/
theorem buildN_inv (tab : List Nat) (hle : ∀ i, tab.getD i i ≤ i) (hid : ∀ i, tab.getD (tab.getD i i) (tab.getD i i) = tab.getD i i)
    (n : Nat) :
    (buildN tab n).gp2ir.length = n ∧ (buildN tab n).weights.length = (buildN tab n).irgp.length ∧
    (buildN tab n).irgp = (List.range n).filter (fun i => tab.getD i i = i) ∧
    ∀ i, i < n → (buildN tab n).gp2ir.getD i 0 < (buildN tab n).irgp.length ∧
      (buildN tab n).irgp.getD ((buildN tab n).gp2ir.getD i 0) 0 = tab.getD i i := by
  induction n with
  | zero => exact ⟨rfl, rfl, rfl, fun i hi => by omega⟩
  | succ n ih =>
    obtain ⟨h1, h2, h3, h4⟩ := ih
    rw [buildN_succ]
    generalize buildN tab n = st at *
    unfold gp2irStep
    by_cases hfix : tab.getD n n = n
    · rw [if_pos hfix]
      refine ⟨by simp [h1], by simp [h2], ?_, ?_⟩
      · rw [List.range_succ, List.filter_append, h3]
        simp only [List.filter_cons, List.filter_nil, hfix, decide_true, if_true]
      · intro i hi
        simp only
        rcases Nat.lt_succ_iff_lt_or_eq.mp hi with hlt | heq
        · obtain ⟨a, b⟩ := h4 i hlt
          rw [getD_append_lt (by omega)]
          refine ⟨by rw [List.length_append, List.length_singleton]; omega, ?_⟩
          rw [getD_append_lt a]; exact b
        · subst heq
          have e1 : (st.gp2ir ++ [st.irgp.length]).getD i 0 = st.irgp.length := by
            have := getD_append_eq st.gp2ir st.irgp.length 0
            rw [h1] at this; exact this
          rw [e1]
          refine ⟨by simp, ?_⟩
          rw [getD_append_eq, hfix]
    · rw [if_neg hfix]
      have htn : tab.getD n n < n := lt_of_le_of_ne (hle n) hfix
      obtain ⟨a, b⟩ := h4 _ htn
      have hb : st.irgp.getD (st.gp2ir.getD (tab.getD n n) 0) 0 = tab.getD n n := by
        rw [b]; exact hid n
      refine ⟨by simp [h1], by simp [h2], ?_, ?_⟩
      · rw [List.range_succ, List.filter_append, h3]
        have hdec : decide (tab.getD n n = n) = false := decide_eq_false hfix
        simp only [List.filter_cons, List.filter_nil, hdec, Bool.false_eq_true, if_false, List.append_nil]
      · intro i hi
        simp only
        rcases Nat.lt_succ_iff_lt_or_eq.mp hi with hlt | heq
        · obtain ⟨a', b'⟩ := h4 i hlt
          rw [getD_append_lt (by omega)]
          exact ⟨a', b'⟩
        · subst heq
          have e1 : (st.gp2ir ++ [st.gp2ir.getD (tab.getD i i) 0]).getD i 0 = st.gp2ir.getD (tab.getD i i) 0 := by
            have := getD_append_eq st.gp2ir (st.gp2ir.getD (tab.getD i i) 0) 0
            rw [h1] at this; exact this
          rw [e1]
          exact ⟨a, hb⟩

/-- **every looked-up vertex index is in range**: `gp2ir` maps each grid point to a row of the frequency array
(`< number of ir points`), and that row belongs to the grid point's representative; the ir points are the fixed points
of the table in increasing order, and the Python dictionary lookup gives the same indices. -/
theorem gp2ir_spec (tab : List Nat) (hle : ∀ i, tab.getD i i ≤ i)
    (hid : ∀ i, tab.getD (tab.getD i i) (tab.getD i i) = tab.getD i i) :
    let st := gp2irBuild tab
    st.gp2ir.length = tab.length ∧ st.irgp = (List.range tab.length).filter (fun i => tab.getD i i = i) ∧
    (∀ i, i < tab.length → st.gp2ir.getD i 0 < st.irgp.length ∧ st.irgp.getD (st.gp2ir.getD i 0) 0 = tab.getD i i) ∧
    gp2irPy tab st.irgp = st.gp2ir := by
  intro st
  obtain ⟨h1, h2, h3, h4⟩ := buildN_inv tab hle hid tab.length
  have hst : st = buildN tab tab.length := rfl
  rw [hst]
  refine ⟨h1, h3, h4, ?_⟩
  have hnd : (buildN tab tab.length).irgp.Nodup := by rw [h3]; exact List.nodup_range.filter _
  apply List.ext_getElem
  · simp [gp2irPy, h1]
  · intro i hi1 hi2
    have hi : i < tab.length := by simpa [gp2irPy] using hi1
    obtain ⟨a, b⟩ := h4 i hi
    simp only [gp2irPy, List.getElem_map]
    have e1 : tab.getD i i = tab[i] := by simp [List.getD_eq_getElem?_getD, List.getElem?_eq_getElem hi]
    have e2 : (buildN tab tab.length).gp2ir.getD i 0 = (buildN tab tab.length).gp2ir[i] := by
      simp [List.getD_eq_getElem?_getD, List.getElem?_eq_getElem hi2]
    rw [e1, e2] at b
    rw [e2] at a
    have e3 : (buildN tab tab.length).irgp.getD ((buildN tab tab.length).gp2ir[i]) 0 =
        (buildN tab tab.length).irgp[(buildN tab tab.length).gp2ir[i]] := by
      simp [List.getD_eq_getElem?_getD, List.getElem?_eq_getElem a]
    rw [e3] at b
    rw [← b]
    exact hnd.idxOf_getElem _ a

/-! ### the six tetrahedra tile the cell -/

section tiling
variable {K : Type} [Field K] [LinearOrder K] [IsStrictOrderedRing K]

/-- `x` is the convex combination with weights `l` of the four vertices -/
def Bary (a b c d : IV) (l : Fin 4 → K) (x : V3 K) : Prop :=
  l 0 + l 1 + l 2 + l 3 = 1 ∧
  x.x = l 0 * (a.x : K) + l 1 * (b.x : K) + l 2 * (c.x : K) + l 3 * (d.x : K) ∧
  x.y = l 0 * (a.y : K) + l 1 * (b.y : K) + l 2 * (c.y : K) + l 3 * (d.y : K) ∧
  x.z = l 0 * (a.z : K) + l 1 * (b.z : K) + l 2 * (c.z : K) + l 3 * (d.z : K)

/-- closed tetrahedron / its interior, for a list of four vertices -/
def InTetra (t : List IV) (x : V3 K) : Prop :=
  match t with
  | [a, b, c, d] => ∃ l : Fin 4 → K, (∀ k, 0 ≤ l k) ∧ Bary a b c d l x
  | _ => False

def InInterior (t : List IV) (x : V3 K) : Prop :=
  match t with
  | [a, b, c, d] => ∃ l : Fin 4 → K, (∀ k, 0 < l k) ∧ Bary a b c d l x
  | _ => False

def InCube (x : V3 K) : Prop := 0 ≤ x.x ∧ x.x ≤ 1 ∧ 0 ≤ x.y ∧ x.y ≤ 1 ∧ 0 ≤ x.z ∧ x.z ≤ 1

/-- reflection of a point of the cell belonging to main diagonal `d` -/
def reflectQ (d : Fin 4) (x : V3 K) : V3 K := match d with
  | 0 => x
  | 1 => ⟨1 - x.x, x.y, x.z⟩
  | 2 => ⟨x.x, 1 - x.y, x.z⟩
  | 3 => ⟨x.x, x.y, 1 - x.z⟩

theorem reflectQ_invol (d : Fin 4) (x : V3 K) : reflectQ d (reflectQ d x) = x := by
  fin_cases d <;> simp [reflectQ]

theorem reflectQ_cube (d : Fin 4) {x : V3 K} (h : InCube x) : InCube (reflectQ d x) := by
  obtain ⟨a, b, c, e, f, g⟩ := h
  fin_cases d <;> simp only [reflectQ, InCube] <;> refine ⟨?_, ?_, ?_, ?_, ?_, ?_⟩ <;> linarith

/-- the Kuhn simplices cover the unit cube -/
theorem kuhn_cover {x : V3 K} (h : InCube x) : ∃ t ∈ kuhnAll, InTetra t x := by
  obtain ⟨a0, a1, b0, b1, c0, c1⟩ := h
  have mk : ∀ (i j : Fin 3) (l : Fin 4 → K), kuhn i j ∈ kuhnAll → (∀ k, 0 ≤ l k) →
      Bary ⟨0, 0, 0⟩ (e3 i) (addV (e3 i) (e3 j)) ⟨1, 1, 1⟩ l x → ∃ t ∈ kuhnAll, InTetra t x :=
    fun i j l hm hl hb => ⟨kuhn i j, hm, l, hl, hb⟩
  rcases le_total x.y x.x with hxy | hxy <;> rcases le_total x.z x.y with hyz | hyz <;> rcases le_total x.z x.x with hxz | hxz
  -- x ≥ y ≥ z
  · refine mk 0 1 ![1 - x.x, x.x - x.y, x.y - x.z, x.z] (by decide) ?_ ?_
    · intro k; fin_cases k <;> simp <;> linarith
    · simp [Bary, e3, addV]
  -- z ≤ y ≤ x ≤ z: all equal, x ≥ y ≥ z still holds
  · refine mk 0 1 ![1 - x.x, x.x - x.y, x.y - x.z, x.z] (by decide) ?_ ?_
    · intro k; fin_cases k <;> simp <;> linarith
    · simp [Bary, e3, addV]
  -- x ≥ y, y ≤ z, z ≤ x : x ≥ z ≥ y
  · refine mk 0 2 ![1 - x.x, x.x - x.z, x.z - x.y, x.y] (by decide) ?_ ?_
    · intro k; fin_cases k <;> simp <;> linarith
    · simp [Bary, e3, addV]
  -- x ≥ y, y ≤ z, x ≤ z : z ≥ x ≥ y
  · refine mk 2 0 ![1 - x.z, x.z - x.x, x.x - x.y, x.y] (by decide) ?_ ?_
    · intro k; fin_cases k <;> simp <;> linarith
    · simp [Bary, e3, addV]
  -- x ≤ y, z ≤ y, z ≤ x : y ≥ x ≥ z
  · refine mk 1 0 ![1 - x.y, x.y - x.x, x.x - x.z, x.z] (by decide) ?_ ?_
    · intro k; fin_cases k <;> simp <;> linarith
    · simp [Bary, e3, addV]
  -- x ≤ y, z ≤ y, x ≤ z : y ≥ z ≥ x
  · refine mk 1 2 ![1 - x.y, x.y - x.z, x.z - x.x, x.x] (by decide) ?_ ?_
    · intro k; fin_cases k <;> simp <;> linarith
    · simp [Bary, e3, addV]
  -- x ≤ y, y ≤ z, z ≤ x : all equal up to order; z ≥ y ≥ x holds
  · refine mk 2 1 ![1 - x.z, x.z - x.y, x.y - x.x, x.x] (by decide) ?_ ?_
    · intro k; fin_cases k <;> simp <;> linarith
    · simp [Bary, e3, addV]
  -- x ≤ y ≤ z
  · refine mk 2 1 ![1 - x.z, x.z - x.y, x.y - x.x, x.x] (by decide) ?_ ?_
    · intro k; fin_cases k <;> simp <;> linarith
    · simp [Bary, e3, addV]

theorem kuhn_int_01 {x : V3 K} (h : InInterior (kuhn 0 1) x) : x.y < x.x ∧ x.z < x.y := by
  obtain ⟨l, hl, h1, h2, h3, h4⟩ := h
  simp [e3, addV] at h2 h3 h4
  have := hl 0; have := hl 1; have := hl 2; have := hl 3
  constructor <;> linarith

theorem kuhn_int_02 {x : V3 K} (h : InInterior (kuhn 0 2) x) : x.z < x.x ∧ x.y < x.z := by
  obtain ⟨l, hl, h1, h2, h3, h4⟩ := h
  simp [e3, addV] at h2 h3 h4
  have := hl 0; have := hl 1; have := hl 2; have := hl 3
  constructor <;> linarith

theorem kuhn_int_10 {x : V3 K} (h : InInterior (kuhn 1 0) x) : x.x < x.y ∧ x.z < x.x := by
  obtain ⟨l, hl, h1, h2, h3, h4⟩ := h
  simp [e3, addV] at h2 h3 h4
  have := hl 0; have := hl 1; have := hl 2; have := hl 3
  constructor <;> linarith

theorem kuhn_int_12 {x : V3 K} (h : InInterior (kuhn 1 2) x) : x.z < x.y ∧ x.x < x.z := by
  obtain ⟨l, hl, h1, h2, h3, h4⟩ := h
  simp [e3, addV] at h2 h3 h4
  have := hl 0; have := hl 1; have := hl 2; have := hl 3
  constructor <;> linarith

theorem kuhn_int_20 {x : V3 K} (h : InInterior (kuhn 2 0) x) : x.x < x.z ∧ x.y < x.x := by
  obtain ⟨l, hl, h1, h2, h3, h4⟩ := h
  simp [e3, addV] at h2 h3 h4
  have := hl 0; have := hl 1; have := hl 2; have := hl 3
  constructor <;> linarith

theorem kuhn_int_21 {x : V3 K} (h : InInterior (kuhn 2 1) x) : x.y < x.z ∧ x.x < x.y := by
  obtain ⟨l, hl, h1, h2, h3, h4⟩ := h
  simp [e3, addV] at h2 h3 h4
  have := hl 0; have := hl 1; have := hl 2; have := hl 3
  constructor <;> linarith


/-- the simplex singled out by the strict order of the coordinates -/
def kuhnOf (x : V3 K) : List IV :=
  if x.y < x.x ∧ x.z < x.y then kuhn 0 1
  else if x.z < x.x ∧ x.y < x.z then kuhn 0 2
  else if x.x < x.y ∧ x.z < x.x then kuhn 1 0
  else if x.z < x.y ∧ x.x < x.z then kuhn 1 2
  else if x.x < x.z ∧ x.y < x.x then kuhn 2 0
  else kuhn 2 1

/-- the interiors of the Kuhn simplices are pairwise disjoint -/
theorem kuhn_interiors_disjoint {x : V3 K} {t t' : List IV} (ht : t ∈ kuhnAll) (ht' : t' ∈ kuhnAll)
    (h : InInterior t x) (h' : InInterior t' x) : t = t' := by
  have key : ∀ u ∈ kuhnAll, InInterior u x → u = kuhnOf x := by
    intro u hu hi
    simp only [kuhnAll, List.mem_cons, List.mem_nil_iff, or_false] at hu
    rcases hu with rfl | rfl | rfl | rfl | rfl | rfl
    · obtain ⟨a, b⟩ := kuhn_int_01 hi; simp [kuhnOf, a, b]
    · obtain ⟨a, b⟩ := kuhn_int_02 hi
      simp [kuhnOf, a, b, not_lt_of_gt a, not_lt_of_gt b, not_lt_of_gt (lt_trans b a)]
    · obtain ⟨a, b⟩ := kuhn_int_10 hi
      simp [kuhnOf, a, b, not_lt_of_gt a, not_lt_of_gt b, not_lt_of_gt (lt_trans b a)]
    · obtain ⟨a, b⟩ := kuhn_int_12 hi
      simp [kuhnOf, a, b, not_lt_of_gt a, not_lt_of_gt b, not_lt_of_gt (lt_trans b a)]
    · obtain ⟨a, b⟩ := kuhn_int_20 hi
      simp [kuhnOf, a, b, not_lt_of_gt a, not_lt_of_gt b, not_lt_of_gt (lt_trans b a)]
    · obtain ⟨a, b⟩ := kuhn_int_21 hi
      simp [kuhnOf, a, b, not_lt_of_gt a, not_lt_of_gt b, not_lt_of_gt (lt_trans b a)]
  rw [key t ht h, key t' ht' h']

theorem bary_reflect (d : Fin 4) (a b c e : IV) (l : Fin 4 → K) (x : V3 K) (h : Bary a b c e l x) :
    Bary (reflectD d a) (reflectD d b) (reflectD d c) (reflectD d e) l (reflectQ d x) := by
  obtain ⟨h1, h2, h3, h4⟩ := h
  fin_cases d <;> simp only [reflectD, reflectQ, Bary] <;> refine ⟨h1, ?_, ?_, ?_⟩ <;> push_cast <;>
    first | assumption | linear_combination -h1 - h2 | linear_combination -h1 - h3 | linear_combination -h1 - h4

theorem inTetra_reflect (d : Fin 4) {t : List IV} {x : V3 K} (h : InTetra t x) :
    InTetra (t.map (reflectD d)) (reflectQ d x) := by
  match t, h with
  | [a, b, c, e], ⟨l, hl, hb⟩ => exact ⟨l, hl, bary_reflect d a b c e l x hb⟩

theorem inInterior_reflect (d : Fin 4) {t : List IV} {x : V3 K} (h : InInterior t x) :
    InInterior (t.map (reflectD d)) (reflectQ d x) := by
  match t, h with
  | [a, b, c, e], ⟨l, hl, hb⟩ => exact ⟨l, hl, bary_reflect d a b c e l x hb⟩

theorem reflectD_invol (d : Fin 4) (v : IV) : reflectD d (reflectD d v) = v := by
  fin_cases d <;> simp [reflectD]

/-- **the six tetrahedra of main diagonal `d` cover the cell** -/
theorem six_cover (d : Fin 4) {x : V3 K} (h : InCube x) : ∃ t ∈ sixOf d, InTetra t x := by
  obtain ⟨t, ht, hin⟩ := kuhn_cover (reflectQ_cube d h)
  refine ⟨t.map (reflectD d), List.mem_map_of_mem ht, ?_⟩
  have := inTetra_reflect d hin
  rwa [reflectQ_invol] at this

/-- **their interiors are pairwise disjoint** -/
theorem six_interiors_disjoint (d : Fin 4) {x : V3 K} {t t' : List IV} (ht : t ∈ sixOf d) (ht' : t' ∈ sixOf d)
    (h : InInterior t x) (h' : InInterior t' x) : t = t' := by
  obtain ⟨u, hu, rfl⟩ := List.mem_map.mp ht
  obtain ⟨u', hu', rfl⟩ := List.mem_map.mp ht'
  have a := inInterior_reflect d h
  have b := inInterior_reflect d h'
  simp only [List.map_map] at a b
  have e : (reflectD d ∘ reflectD d) = id := by funext v; exact reflectD_invol d v
  rw [e, List.map_id] at a b
  rw [kuhn_interiors_disjoint hu hu' a b]

end tiling
end PhononModel.TetraMesh
