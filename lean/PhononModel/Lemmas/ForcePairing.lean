import PhononModel.Model.ForcePairing
import Mathlib.Data.List.Basic
/-! Lemmas about `create_FORCE_SETS`' guards (model `ForcePairing.collect`). -/
namespace PhononModel.ForcePairing

theorem firstBad_none {α : Type} (p : α → Bool) : ∀ (l : List α) (i : Nat),
    firstBad p l i = none → ∀ a ∈ l, p a = true
  | [], _, _, a, ha => by simp at ha
  | b :: t, i, h, a, ha => by
    unfold firstBad at h
    split at h
    · next hb =>
      rcases List.mem_cons.mp ha with rfl | h'
      · exact hb
      · exact firstBad_none p t (i + 1) h a h'
    · exact absurd h (by simp)

theorem firstBad_some {α : Type} (p : α → Bool) : ∀ (l : List α) (i k : Nat),
    firstBad p l i = some k → ∃ a ∈ l, p a = false
  | [], _, _, h => by simp [firstBad] at h
  | b :: t, i, k, h => by
    unfold firstBad at h
    split at h
    · obtain ⟨a, ha, hp⟩ := firstBad_some p t (i + 1) k h
      exact ⟨a, List.mem_cons_of_mem _ ha, hp⟩
    · next hb => exact ⟨b, List.mem_cons_self, by simpa using hb⟩

theorem firstBad_of_bad {α : Type} (p : α → Bool) : ∀ (l : List α) (i : Nat),
    (∃ a ∈ l, p a = false) → ∃ k, firstBad p l i = some k
  | [], _, ⟨a, ha, _⟩ => by simp at ha
  | b :: t, i, ⟨a, ha, hp⟩ => by
    unfold firstBad
    split
    · next hb =>
      rcases List.mem_cons.mp ha with rfl | h'
      · rw [hb] at hp; cases hp
      · exact firstBad_of_bad p t (i + 1) ⟨a, h', hp⟩
    · exact ⟨i, rfl⟩

theorem agreeFile_rows (L : Mat3) (tol2 : Rat) (pos disp : List V3) (o : Output)
    (h : agreeFile L tol2 pos disp o.printed = true) : RowsMatchAtoms L tol2 pos disp o := by
  unfold agreeFile at h
  simp only [Bool.and_eq_true, beq_iff_eq, List.all_eq_true] at h
  refine ⟨h.1.1, h.1.2, fun t ht => ?_⟩
  have := h.2 t ht
  unfold agreeRow at this
  exact ⟨rint3 (vsub (vadd t.1 t.2.1) t.2.2), by simpa using this⟩

end PhononModel.ForcePairing
