import PhononModel.Lemmas.DynMat
import Mathlib.Algebra.Order.Field.Basic
import Mathlib.Algebra.Order.BigOperators.Ring.Finset
import Mathlib.Tactic.Positivity
import Mathlib.Tactic.Linarith

/-!
What "Hermitian" buys the user (C03): over an ordered field of real scalars, a matrix of model
complex numbers `Cx R` with `conj (H q p) = H p q` has

* real diagonal entries,
* a real Hermitian form `v† H v` for every vector `v`,
* only real eigenvalues (`H v = λ v`, `v ≠ 0` ⇒ `Im λ = 0`) — the reason `eigvalsh`/`eigh` may be
  used on the output of `dym_get_dynamical_matrix_at_q` and frequencies `sign(λ) sqrt|λ|` make sense,
* eigenvectors of different eigenvalues orthogonal.

Nothing here is about one matrix size: `ι` is any finite index type.
-/
set_option linter.unusedSectionVars false
namespace PhononModel
open Finset

namespace Cx
variable {R : Type} [Field R] {ι : Type} [Fintype ι]

/-- the Hermitian form `Σ_p conj(v p) · Σ_q H p q · w q` -/
def hform (H : ι → ι → Cx R) (v w : ι → Cx R) : Cx R :=
  ∑ p, conj (v p) * ∑ q, H p q * w q

/-- `conj (v† H w) = w† H v` for a Hermitian `H`. -/
theorem hform_conj (H : ι → ι → Cx R) (hH : ∀ p q, conj (H q p) = H p q) (v w : ι → Cx R) :
    conj (hform H v w) = hform H w v := by
  unfold hform
  simp only [conj_sum, conj_mul, conj_conj, Finset.mul_sum]
  rw [Finset.sum_comm]
  apply Finset.sum_congr rfl; intro q _
  apply Finset.sum_congr rfl; intro p _
  rw [← hH q p]
  ring

/-- diagonal entries of a Hermitian matrix are real (needs `2 ≠ 0`). -/
theorem herm_diag_im [CharZero R] (H : ι → ι → Cx R) (hH : ∀ p q, conj (H q p) = H p q) (p : ι) :
    (H p p).im = 0 := by
  have h := congrArg Cx.im (hH p p)
  simp only [conj_im] at h
  have h2 : (2 : R) * (H p p).im = 0 := by linear_combination -h
  rcases mul_eq_zero.mp h2 with h3 | h3
  · exact absurd h3 (by norm_num)
  · exact h3

/-- `v† H v` is real. -/
theorem hform_self_im [CharZero R] (H : ι → ι → Cx R) (hH : ∀ p q, conj (H q p) = H p q) (v : ι → Cx R) :
    (hform H v v).im = 0 := by
  have h := congrArg Cx.im (hform_conj H hH v v)
  simp only [conj_im] at h
  have h2 : (2 : R) * (hform H v v).im = 0 := by linear_combination -h
  rcases mul_eq_zero.mp h2 with h3 | h3
  · exact absurd h3 (by norm_num)
  · exact h3

/-- `v† v = Σ |v_p|²` as a model complex number: imaginary part 0 -/
theorem normSq_sum_im (v : ι → Cx R) : (∑ p, conj (v p) * v p).im = 0 := by
  simp only [sum_im, mul_im, conj_re, conj_im]
  apply Finset.sum_eq_zero; intro p _; ring

theorem normSq_sum_re (v : ι → Cx R) :
    (∑ p, conj (v p) * v p).re = ∑ p, ((v p).re * (v p).re + (v p).im * (v p).im) := by
  simp only [sum_re, mul_re, conj_re, conj_im]
  apply Finset.sum_congr rfl; intro p _; ring

/-- if `H w = μ w` then `v† H w = μ · v† w` -/
theorem hform_eigen (H : ι → ι → Cx R) (v w : ι → Cx R) (mu : Cx R)
    (hw : ∀ p, ∑ q, H p q * w q = mu * w p) :
    hform H v w = mu * ∑ p, conj (v p) * w p := by
  unfold hform
  rw [Finset.mul_sum]
  apply Finset.sum_congr rfl; intro p _
  rw [hw p]; ring

section ordered
variable [LinearOrder R] [IsStrictOrderedRing R]

theorem normSq_sum_pos (v : ι → Cx R) (hv : ∃ p, v p ≠ 0) :
    0 < ∑ p, ((v p).re * (v p).re + (v p).im * (v p).im) := by
  obtain ⟨p0, hp0⟩ := hv
  apply Finset.sum_pos'
  · intro p _; nlinarith [mul_self_nonneg (v p).re, mul_self_nonneg (v p).im]
  · refine ⟨p0, Finset.mem_univ _, ?_⟩
    by_contra hcon
    have h1 : (v p0).re * (v p0).re + (v p0).im * (v p0).im ≤ 0 := not_lt.mp hcon
    have hr : (v p0).re = 0 := by nlinarith [mul_self_nonneg (v p0).re, mul_self_nonneg (v p0).im]
    have hi : (v p0).im = 0 := by nlinarith [mul_self_nonneg (v p0).re, mul_self_nonneg (v p0).im]
    exact hp0 (by ext <;> simp [hr, hi])

/-- **every eigenvalue of a Hermitian matrix is real.** -/
theorem herm_eigenvalue_real (H : ι → ι → Cx R) (hH : ∀ p q, conj (H q p) = H p q)
    (v : ι → Cx R) (lam : Cx R) (hv : ∃ p, v p ≠ 0)
    (hev : ∀ p, ∑ q, H p q * v q = lam * v p) : lam.im = 0 := by
  have hR : CharZero R := inferInstance
  have h1 := hform_eigen H v v lam hev
  have h2 := hform_self_im H hH v
  rw [h1, mul_im, normSq_sum_im, normSq_sum_re] at h2
  have hpos := normSq_sum_pos v hv
  have h3 : lam.im * ∑ p, ((v p).re * (v p).re + (v p).im * (v p).im) = 0 := by
    linear_combination h2
  rcases mul_eq_zero.mp h3 with h | h
  · exact h
  · exact absurd h (ne_of_gt hpos)

/-- **eigenvectors of different eigenvalues are orthogonal**: `H v = λ v`, `H w = μ w`, `λ ≠ μ`
(both real by the theorem above) ⇒ `v† w = 0`. -/
theorem herm_eigenvectors_orthogonal (H : ι → ι → Cx R) (hH : ∀ p q, conj (H q p) = H p q)
    (v w : ι → Cx R) (lam mu : Cx R) (hlam : lam.im = 0)
    (hv : ∀ p, ∑ q, H p q * v q = lam * v p) (hw : ∀ p, ∑ q, H p q * w q = mu * w p)
    (hne : lam ≠ mu) : ∑ p, conj (v p) * w p = 0 := by
  -- v†Hw = μ v†w ; and v†Hw = conj(w†Hv) = conj(λ w†v) = λ v†w
  have h1 := hform_eigen H v w mu hw
  have h2 := hform_eigen H w v lam hv
  have h3 := hform_conj H hH w v
  rw [h2, h1, conj_mul, conj_sum] at h3
  have hcl : conj lam = lam := by ext <;> simp [hlam]
  have h4 : (∑ p, conj (conj (w p) * v p)) = ∑ p, conj (v p) * w p := by
    apply Finset.sum_congr rfl; intro p _; rw [conj_mul, conj_conj]; ring
  rw [hcl, h4] at h3
  have h5 : (lam - mu) * ∑ p, conj (v p) * w p = 0 := by linear_combination h3
  have hsub : lam - mu ≠ 0 := sub_ne_zero.mpr hne
  -- Cx R over an ordered field has no zero divisors
  set S := ∑ p, conj (v p) * w p with hS
  set d := lam - mu with hd
  have hre := congrArg Cx.re h5
  have him := congrArg Cx.im h5
  simp only [mul_re, mul_im, zero_re, zero_im] at hre him
  have hn : 0 < d.re * d.re + d.im * d.im := by
    by_contra hcon
    have h1 : d.re * d.re + d.im * d.im ≤ 0 := not_lt.mp hcon
    have hr : d.re = 0 := by nlinarith [mul_self_nonneg d.re, mul_self_nonneg d.im]
    have hi : d.im = 0 := by nlinarith [mul_self_nonneg d.re, mul_self_nonneg d.im]
    exact hsub (by ext <;> simp [hr, hi])
  have e1 : (d.re * d.re + d.im * d.im) * S.re = 0 := by linear_combination d.re * hre + d.im * him
  have e2 : (d.re * d.re + d.im * d.im) * S.im = 0 := by linear_combination d.re * him - d.im * hre
  have r1 : S.re = 0 := (mul_eq_zero.mp e1).resolve_left (ne_of_gt hn)
  have r2 : S.im = 0 := (mul_eq_zero.mp e2).resolve_left (ne_of_gt hn)
  ext <;> simp [r1, r2]

end ordered
end Cx
end PhononModel
