import PhononModel.Model.ShortestPairs
import PhononModel.Lemmas.Mat3
import Mathlib.Tactic.Ring
import Mathlib.Tactic.Linarith
import Mathlib.Tactic.Positivity
import Mathlib.Algebra.Order.Field.Rat
import Mathlib.Data.Rat.Floor
import Mathlib.Data.Nat.Sqrt
/-!
Lemmas for `Model/ShortestPairs.lean`: the Gram-matrix bound on coordinates of short vectors,
membership in the search box, characterisation of `minList`, `pairShortest`, `specShortestPoints`.
-/
set_option linter.unusedSectionVars false
namespace PhononModel.ShortestPairs
open PhononModel

/-! ### positive definite Gram matrices bound the coordinates -/

structure PD (G : M3 ℚ) : Prop where
  s01 : G.a10 = G.a01
  s02 : G.a20 = G.a02
  s12 : G.a21 = G.a12
  p0 : 0 < G.a00
  p1 : 0 < G.a11
  p2 : 0 < G.a22
  m01 : 0 < G.a00 * G.a11 - G.a01 * G.a01
  m02 : 0 < G.a00 * G.a22 - G.a02 * G.a02
  m12 : 0 < G.a11 * G.a22 - G.a12 * G.a12
  det : 0 < G.det

theorem pd_of_checks (G : M3 ℚ) (hs : isSymm G = true) (hp : isPD G = true) : PD G := by
  unfold isSymm at hs; unfold isPD at hp
  simp only [Bool.and_eq_true, beq_iff_eq, decide_eq_true_eq] at hs hp
  obtain ⟨⟨s1, s2⟩, s3⟩ := hs
  obtain ⟨⟨⟨⟨⟨⟨a, b⟩, c⟩, d⟩, e⟩, f⟩, g⟩ := hp
  exact ⟨s1.symm, s2.symm, s3.symm, a, b, c, d, e, f, g⟩

theorem len2_expand (G : M3 ℚ) (v : V3 ℚ) :
    len2 G v = v.x * (G.a00 * v.x + G.a01 * v.y + G.a02 * v.z) + v.y * (G.a10 * v.x + G.a11 * v.y + G.a12 * v.z)
      + v.z * (G.a20 * v.x + G.a21 * v.y + G.a22 * v.z) := rfl

/-- `z² · det G ≤ |v|² · adj(G)₂₂` -/
theorem gram_bound_z (G : M3 ℚ) (h : PD G) (v : V3 ℚ) : v.z * v.z * G.det ≤ len2 G v * G.adj.a22 := by
  have key : G.a00 * (len2 G v * G.adj.a22 - v.z * v.z * G.det) =
      (G.a00 * G.a11 - G.a01 * G.a01) * (G.a00 * v.x + G.a01 * v.y + G.a02 * v.z) ^ 2 +
      ((G.a00 * G.a11 - G.a01 * G.a01) * v.y + (G.a00 * G.a12 - G.a01 * G.a02) * v.z) ^ 2 := by
    rw [len2_expand]; simp only [M3.adj, M3.det, h.s01, h.s02, h.s12]; ring
  have hpos : 0 ≤ G.a00 * (len2 G v * G.adj.a22 - v.z * v.z * G.det) := by
    rw [key]
    have := h.m01
    positivity
  have := nonneg_of_mul_nonneg_right hpos h.p0
  linarith

/-- `x² · det G ≤ |v|² · adj(G)₀₀` -/
theorem gram_bound_x (G : M3 ℚ) (h : PD G) (v : V3 ℚ) : v.x * v.x * G.det ≤ len2 G v * G.adj.a00 := by
  have key : G.a22 * (len2 G v * G.adj.a00 - v.x * v.x * G.det) =
      (G.a11 * G.a22 - G.a12 * G.a12) * (G.a22 * v.z + G.a12 * v.y + G.a02 * v.x) ^ 2 +
      ((G.a11 * G.a22 - G.a12 * G.a12) * v.y + (G.a22 * G.a01 - G.a12 * G.a02) * v.x) ^ 2 := by
    rw [len2_expand]; simp only [M3.adj, M3.det, h.s01, h.s02, h.s12]; ring
  have hpos : 0 ≤ G.a22 * (len2 G v * G.adj.a00 - v.x * v.x * G.det) := by
    rw [key]
    have := h.m12
    positivity
  have := nonneg_of_mul_nonneg_right hpos h.p2
  linarith

/-- `y² · det G ≤ |v|² · adj(G)₁₁` -/
theorem gram_bound_y (G : M3 ℚ) (h : PD G) (v : V3 ℚ) : v.y * v.y * G.det ≤ len2 G v * G.adj.a11 := by
  have key : G.a00 * (len2 G v * G.adj.a11 - v.y * v.y * G.det) =
      (G.a00 * G.a22 - G.a02 * G.a02) * (G.a00 * v.x + G.a02 * v.z + G.a01 * v.y) ^ 2 +
      ((G.a00 * G.a22 - G.a02 * G.a02) * v.z + (G.a00 * G.a12 - G.a02 * G.a01) * v.y) ^ 2 := by
    rw [len2_expand]; simp only [M3.adj, M3.det, h.s01, h.s02, h.s12]; ring
  have hpos : 0 ≤ G.a00 * (len2 G v * G.adj.a11 - v.y * v.y * G.det) := by
    rw [key]
    have := h.m02
    positivity
  have := nonneg_of_mul_nonneg_right hpos h.p0
  linarith

theorem adj_diag_pos (G : M3 ℚ) (h : PD G) : 0 < G.adj.a00 ∧ 0 < G.adj.a11 ∧ 0 < G.adj.a22 := by
  refine ⟨?_, ?_, ?_⟩
  · have := h.m12; simp only [M3.adj, h.s12]; linarith
  · have := h.m02; simp only [M3.adj, h.s02]; linarith
  · have := h.m01; simp only [M3.adj, h.s01]; linarith

theorem len2_nonneg (G : M3 ℚ) (h : PD G) (v : V3 ℚ) : 0 ≤ len2 G v := by
  have hz := gram_bound_z G h v
  have ha := (adj_diag_pos G h).2.2
  have : 0 ≤ v.z * v.z * G.det := mul_nonneg (mul_self_nonneg _) (le_of_lt h.det)
  by_contra hneg
  have hneg := not_le.mp hneg
  have : len2 G v * G.adj.a22 < 0 := mul_neg_of_neg_of_pos hneg ha
  linarith

/-! ### the box -/

theorem sqrtCeil_spec (n : ℕ) : n ≤ sqrtCeil n * sqrtCeil n := by
  unfold sqrtCeil
  split
  · next h => exact le_of_eq h.symm
  · have := Nat.lt_succ_sqrt' n
    simp only [Nat.succ_eq_add_one, pow_two] at this
    exact le_of_lt this

theorem le_ceilR (q : ℚ) : q ≤ (ceilR q : ℚ) := by
  unfold ceilR
  have : ((-q).floor : ℚ) ≤ -q := Rat.le_floor_iff.mp (le_refl _)
  push_cast
  linarith

theorem ceilR_le {q : ℚ} {z : ℤ} (h : q ≤ z) : ceilR q ≤ z := by
  unfold ceilR
  have : (-z : ℤ) ≤ (-q).floor := Rat.le_floor_iff.mpr (by push_cast; linarith)
  omega

/-- a coordinate whose square is at most `ρ²·aᵢᵢ/det` is at most `radius` in absolute value -/
theorem abs_le_radius (G : M3 ℚ) (rho2 aii t : ℚ) (ht : t * t ≤ rho2 * aii / G.det) :
    -(radius G rho2 aii : ℚ) ≤ t ∧ t ≤ (radius G rho2 aii : ℚ) := by
  set q := rho2 * aii / G.det with hq
  have hq0 : 0 ≤ q := le_trans (mul_self_nonneg t) ht
  have hc : q ≤ (ceilR q : ℚ) := le_ceilR q
  have hc0 : (0 : ℤ) ≤ ceilR q := by
    have : (0 : ℚ) ≤ (ceilR q : ℚ) := le_trans hq0 hc
    exact_mod_cast this
  have hR := sqrtCeil_spec (ceilR q).toNat
  have hR' : (ceilR q : ℚ) ≤ (radius G rho2 aii : ℚ) * (radius G rho2 aii : ℚ) := by
    have e : ((ceilR q).toNat : ℤ) = ceilR q := Int.toNat_of_nonneg hc0
    have : (((ceilR q).toNat : ℕ) : ℚ) ≤ ((sqrtCeil (ceilR q).toNat * sqrtCeil (ceilR q).toNat : ℕ) : ℚ) := by
      exact_mod_cast hR
    have e2 : (((ceilR q).toNat : ℕ) : ℚ) = (ceilR q : ℚ) := by exact_mod_cast e
    rw [e2] at this
    unfold radius
    push_cast at this
    exact this
  have hsq : t * t ≤ (radius G rho2 aii : ℚ) * (radius G rho2 aii : ℚ) := le_trans ht (le_trans hc hR')
  have hRn : (0 : ℚ) ≤ (radius G rho2 aii : ℚ) := Nat.cast_nonneg _
  exact abs_le.mp (abs_le_of_sq_le_sq' (by simpa [pow_two] using hsq) hRn |> fun h => abs_le.mpr h)

theorem mem_range1 (R : ℕ) (x : ℚ) (n : ℤ) (h1 : -(R : ℚ) ≤ x + n) (h2 : x + n ≤ (R : ℚ)) : n ∈ range1 R x := by
  unfold range1
  simp only [List.mem_map, List.mem_range]
  have hlo : ceilR (-(R : ℚ) - x) ≤ n := ceilR_le (by linarith)
  have hhi : n ≤ ((R : ℚ) - x).floor := Rat.le_floor_iff.mpr (by linarith)
  refine ⟨(n - ceilR (-(R : ℚ) - x)).toNat, ?_, ?_⟩
  · omega
  · omega

end PhononModel.ShortestPairs

namespace PhononModel.ShortestPairs
open PhononModel

theorem toRat_add_x (d : V3 ℚ) (n : V3 ℤ) : (d + n.toRat).x = d.x + n.x ∧ (d + n.toRat).y = d.y + n.y ∧ (d + n.toRat).z = d.z + n.z :=
  ⟨rfl, rfl, rfl⟩

/-- every lattice image no longer than `d` itself lies in the box -/
theorem box_complete' (G : M3 ℚ) (h : PD G) (d : V3 ℚ) (n : V3 ℤ) (hn : len2 G (d + n.toRat) ≤ len2 G d) :
    n ∈ boxPoints G d := by
  obtain ⟨a0, a1, a2⟩ := adj_diag_pos G h
  have bnd : ∀ (t aii : ℚ), 0 < aii → t * t * G.det ≤ len2 G (d + n.toRat) * aii → t * t ≤ len2 G d * aii / G.det := by
    intro t aii ha ht
    rw [le_div_iff₀ h.det]
    exact le_trans ht (mul_le_mul_of_nonneg_right hn (le_of_lt ha))
  have bx := abs_le_radius G (len2 G d) G.adj.a00 _ (bnd _ _ a0 (gram_bound_x G h (d + n.toRat)))
  have by' := abs_le_radius G (len2 G d) G.adj.a11 _ (bnd _ _ a1 (gram_bound_y G h (d + n.toRat)))
  have bz := abs_le_radius G (len2 G d) G.adj.a22 _ (bnd _ _ a2 (gram_bound_z G h (d + n.toRat)))
  unfold boxPoints
  simp only [List.mem_flatMap, List.mem_map]
  refine ⟨n.x, mem_range1 _ _ _ bx.1 bx.2, n.y, mem_range1 _ _ _ by'.1 by'.2, n.z, mem_range1 _ _ _ bz.1 bz.2, rfl⟩

theorem toRat_zero (d : V3 ℚ) : d + (⟨0, 0, 0⟩ : V3 ℤ).toRat = d := by
  ext <;> simp [V3.add_def, V3.toRat, V3.map]

theorem zero_mem_box (G : M3 ℚ) (h : PD G) (d : V3 ℚ) : (⟨0, 0, 0⟩ : V3 ℤ) ∈ boxPoints G d :=
  box_complete' G h d _ (by rw [toRat_zero])

/-! ### minimum of a list -/

theorem foldl_min_spec (l : List ℚ) (a : ℚ) :
    (l.foldl (fun m x => if x < m then x else m) a ∈ a :: l) ∧
    (∀ x ∈ a :: l, l.foldl (fun m x => if x < m then x else m) a ≤ x) := by
  induction l generalizing a with
  | nil => simp
  | cons b l ih =>
    simp only [List.foldl_cons]
    obtain ⟨hm, hle⟩ := ih (if b < a then b else a)
    constructor
    · rcases List.mem_cons.mp hm with h | h
      · rw [h]; split <;> simp
      · exact List.mem_cons_of_mem _ (List.mem_cons_of_mem _ h)
    · intro x hx
      have hle0 := hle (if b < a then b else a) (List.mem_cons_self)
      rcases List.mem_cons.mp hx with rfl | hx
      · refine le_trans hle0 ?_
        split
        · next h => exact le_of_lt h
        · exact le_refl _
      · rcases List.mem_cons.mp hx with rfl | hx
        · refine le_trans hle0 ?_
          split
          · exact le_refl _
          · next h => exact not_lt.mp h
        · exact hle x (List.mem_cons_of_mem _ hx)

theorem minList_spec {l : List ℚ} {m : ℚ} (h : minList l = some m) : m ∈ l ∧ ∀ x ∈ l, m ≤ x := by
  cases l with
  | nil => simp [minList] at h
  | cons a l =>
    simp only [minList, Option.some.injEq] at h
    rw [← h]
    exact foldl_min_spec l a

theorem minList_some_of_ne_nil {l : List ℚ} (h : l ≠ []) : ∃ m, minList l = some m := by
  cases l with
  | nil => exact absurd rfl h
  | cons a l => exact ⟨_, rfl⟩

/-- generic "argmin over a list" filter used by both the implementation and the specification -/
theorem mem_argmin {α : Type} (pts : List α) (f : α → ℚ) (m : ℚ) (hm : minList (pts.map f) = some m) (p : α) :
    p ∈ pts.filter (fun p => f p == m) ↔ p ∈ pts ∧ ∀ p' ∈ pts, f p ≤ f p' := by
  obtain ⟨hmem, hle⟩ := minList_spec hm
  simp only [List.mem_filter, beq_iff_eq]
  constructor
  · rintro ⟨hp, he⟩
    exact ⟨hp, fun p' hp' => by rw [he]; exact hle _ (List.mem_map_of_mem hp')⟩
  · rintro ⟨hp, hmin⟩
    refine ⟨hp, le_antisymm ?_ (hle _ (List.mem_map_of_mem hp))⟩
    obtain ⟨p0, hp0, he⟩ := List.mem_map.mp hmem
    rw [← he]; exact hmin p0 hp0

theorem toRat_add_inj (d : V3 ℚ) (n n' : V3 ℤ) (h : d + n.toRat = d + n'.toRat) : n = n' := by
  have hx := congrArg V3.x h
  have hy := congrArg V3.y h
  have hz := congrArg V3.z h
  simp only [V3.add_def, V3.toRat, V3.map] at hx hy hz
  ext
  · exact_mod_cast add_left_cancel hx
  · exact_mod_cast add_left_cancel hy
  · exact_mod_cast add_left_cancel hz

/-- the stored images for one pair: exactly the images over the search points of minimal length -/
theorem mem_pairShortest (G : M3 ℚ) (d : V3 ℚ) (pts : List (V3 ℤ)) (v : V3 ℚ) :
    v ∈ pairShortest G d pts ↔ ∃ p ∈ pts, v = d + p.toRat ∧ ∀ p' ∈ pts, len2 G (d + p.toRat) ≤ len2 G (d + p'.toRat) := by
  unfold pairShortest
  simp only
  cases hm : minList ((pts.map (fun p => d + p.toRat)).map (len2 G)) with
  | none =>
    cases pts with
    | nil => simp
    | cons a l => simp [minList] at hm
  | some m =>
    simp only
    rw [mem_argmin _ _ m hm]
    constructor
    · rintro ⟨hv, hmin⟩
      obtain ⟨p, hp, rfl⟩ := List.mem_map.mp hv
      exact ⟨p, hp, rfl, fun p' hp' => hmin _ (List.mem_map_of_mem hp')⟩
    · rintro ⟨p, hp, rfl, hmin⟩
      refine ⟨List.mem_map_of_mem hp, ?_⟩
      intro v' hv'
      obtain ⟨p', hp', rfl⟩ := List.mem_map.mp hv'
      exact hmin p' hp'

theorem mem_specShortestPoints (G : M3 ℚ) (d : V3 ℚ) (n : V3 ℤ) :
    n ∈ specShortestPoints G d ↔ n ∈ boxPoints G d ∧ ∀ n' ∈ boxPoints G d, len2 G (d + n.toRat) ≤ len2 G (d + n'.toRat) := by
  unfold specShortestPoints
  simp only
  cases hm : minList ((boxPoints G d).map (fun n => len2 G (d + n.toRat))) with
  | none =>
    cases hb : boxPoints G d with
    | nil => simp
    | cons a l => rw [hb] at hm; simp [minList] at hm
  | some m =>
    simp only
    exact mem_argmin _ _ m hm n

/-- a global minimiser: no lattice image is shorter -/
def IsGlobalMin (G : M3 ℚ) (d : V3 ℚ) (n : V3 ℤ) : Prop := ∀ n' : V3 ℤ, len2 G (d + n.toRat) ≤ len2 G (d + n'.toRat)

/-- **the specification ranges over all of ℤ³**: its points are exactly the global minimisers -/
theorem mem_spec_iff_global (G : M3 ℚ) (h : PD G) (d : V3 ℚ) (n : V3 ℤ) :
    n ∈ specShortestPoints G d ↔ IsGlobalMin G d n := by
  rw [mem_specShortestPoints]
  have h0 := zero_mem_box G h d
  constructor
  · rintro ⟨hn, hmin⟩ n'
    by_cases hb : n' ∈ boxPoints G d
    · exact hmin n' hb
    · have hlt : len2 G d < len2 G (d + n'.toRat) := by
        by_contra hle
        exact hb (box_complete' G h d n' (not_lt.mp hle))
      have := hmin _ h0
      rw [toRat_zero] at this
      linarith
  · intro hg
    have hle := hg ⟨0, 0, 0⟩
    rw [toRat_zero] at hle
    exact ⟨box_complete' G h d n hle, fun n' _ => hg n'⟩

theorem exists_global_min (G : M3 ℚ) (h : PD G) (d : V3 ℚ) : ∃ n, IsGlobalMin G d n := by
  have h0 := zero_mem_box G h d
  have hne : (boxPoints G d).map (fun n => len2 G (d + n.toRat)) ≠ [] := by
    intro he
    rw [List.map_eq_nil_iff] at he
    rw [he] at h0; simp at h0
  obtain ⟨m, hm⟩ := minList_some_of_ne_nil hne
  obtain ⟨hmem, _⟩ := minList_spec hm
  obtain ⟨n, hn, he⟩ := List.mem_map.mp hmem
  refine ⟨n, (mem_spec_iff_global G h d n).mp ?_⟩
  unfold specShortestPoints
  simp only [hm]
  exact List.mem_filter.mpr ⟨hn, by simp [he]⟩

end PhononModel.ShortestPairs

namespace PhononModel.ShortestPairs
open PhononModel

/-! ### dense and sparse storage -/

theorem implShortest_length (G : M3 ℚ) (T : M3 ℤ) (pts : List (V3 ℤ)) (a b : V3 ℚ) :
    (implShortest G T pts a b).length = (pairShortest G (a - b) pts).length := by
  simp [implShortest]

theorem take_pad27 (v : List (V3 ℚ)) : (pad27 v).take v.length = v := by
  simp [pad27]

/-- pass 1 and pass 2 agree: entry `k` of the multiplicity table addresses exactly the vectors of pair `k` -/
theorem dense_cells (G : M3 ℚ) (T : M3 ℤ) (pts : List (V3 ℤ)) :
    ∀ (rest : List (V3 ℚ × V3 ℚ)) (pre : List (V3 ℚ)),
      (densePass1 G pts rest pre.length).map
          (fun (ma : ℕ × ℕ) => (((pre ++ densePass2 G T pts rest).drop ma.2).take ma.1, ma.1)) =
        rest.map (fun ab => (implShortest G T pts ab.1 ab.2, (implShortest G T pts ab.1 ab.2).length))
  | [], _ => rfl
  | (a, b) :: rest, pre => by
    simp only [densePass1, densePass2, List.map_cons]
    congr 1
    · rw [← implShortest_length G T pts a b]
      simp
    · have ih := dense_cells G T pts rest (pre ++ implShortest G T pts a b)
      rw [List.length_append, implShortest_length, List.append_assoc] at ih
      exact ih

theorem sparseCells_ok (G : M3 ℚ) (T : M3 ℤ) (pts : List (V3 ℤ)) :
    ∀ (rest : List (V3 ℚ × V3 ℚ)) (r : List (List (V3 ℚ) × ℕ)), sparseCells G T pts rest = .ok r →
      r = rest.map (fun ab => (pad27 (implShortest G T pts ab.1 ab.2), (implShortest G T pts ab.1 ab.2).length))
  | [], r, h => by simp only [sparseCells, Except.ok.injEq] at h; rw [← h]; rfl
  | (a, b) :: rest, r, h => by
    simp only [sparseCells] at h
    split at h
    · cases h
    · cases hr : sparseCells G T pts rest with
      | error e => rw [hr] at h; cases h
      | ok r' =>
        rw [hr] at h
        simp only [Except.ok.injEq] at h
        rw [← h, sparseCells_ok G T pts rest r' hr]
        rfl

end PhononModel.ShortestPairs

namespace PhononModel.ShortestPairs
open PhononModel

/-! ### orthogonal lattices: the window is complete -/

theorem cube_in_window : ∀ a ∈ ([-1, 0, 1] : List Int), ∀ b ∈ ([-1, 0, 1] : List Int), ∀ c ∈ ([-1, 0, 1] : List Int),
    (⟨a, b, c⟩ : V3 Int) ∈ window65 := by decide +kernel

theorem len2_diag (G : M3 ℚ) (h01 : G.a01 = 0) (h02 : G.a02 = 0) (h10 : G.a10 = 0) (h12 : G.a12 = 0)
    (h20 : G.a20 = 0) (h21 : G.a21 = 0) (v : V3 ℚ) :
    len2 G v = G.a00 * (v.x * v.x) + G.a11 * (v.y * v.y) + G.a22 * (v.z * v.z) := by
  rw [len2_expand]; simp only [h01, h02, h10, h12, h20, h21]; ring

/-- an integer `n` that makes `|t+n|` no larger than for `n−1` and `n+1` has `|n| ≤ 1` when `|t| ≤ 1` -/
theorem coord_small {g t : ℚ} {n : ℤ} (hg : 0 < g) (ht : |t| ≤ 1)
    (hm : g * ((t + n) * (t + n)) ≤ g * ((t + (n - 1)) * (t + (n - 1))))
    (hp : g * ((t + n) * (t + n)) ≤ g * ((t + (n + 1)) * (t + (n + 1)))) : n ∈ ([-1, 0, 1] : List Int) := by
  have h1 : (t + n) * (t + n) ≤ (t + (n - 1)) * (t + (n - 1)) := le_of_mul_le_mul_left hm hg
  have h2 : (t + n) * (t + n) ≤ (t + (n + 1)) * (t + (n + 1)) := le_of_mul_le_mul_left hp hg
  have hb := abs_le.mp ht
  have u1 : 2 * (t + n) ≤ 1 := by nlinarith
  have u2 : -1 ≤ 2 * (t + n) := by nlinarith
  have hlo : -1 ≤ n := by
    by_contra hlt
    have h3 : (n : ℚ) ≤ -2 := by exact_mod_cast (by omega : n ≤ -2)
    linarith
  have hhi : n ≤ 1 := by
    by_contra hlt
    have h3 : (2 : ℚ) ≤ n := by exact_mod_cast (by omega : 2 ≤ n)
    linarith
  have : n = -1 ∨ n = 0 ∨ n = 1 := by omega
  rcases this with h | h | h <;> simp [h]

end PhononModel.ShortestPairs
