import PhononModel.Lemmas.GridShift
import Mathlib.Tactic.Ring
import Mathlib.Tactic.Linarith

/-! `length2mesh`: monotone rounding, symmetry alignment (C09). -/
set_option linter.unusedVariables false
set_option linter.unusedSimpArgs false
namespace PhononModel.Grid

theorem rint_bounds' (x : ℚ) : (rint x = x.floor ∨ rint x = x.floor + 1) ∧
    (x - (x.floor : ℚ) < 1 / 2 → rint x = x.floor) ∧ (1 / 2 < x - (x.floor : ℚ) → rint x = x.floor + 1) := by
  unfold rint
  simp only
  refine ⟨?_, ?_, ?_⟩
  · split_ifs
    · left; rfl
    · right; rfl
    · left; rfl
    · right; rfl
  · intro h; rw [if_pos h]
  · intro h; rw [if_neg (by linarith), if_pos h]

theorem rint_bounds (x : ℚ) : (rint x = ⌊x⌋ ∨ rint x = ⌊x⌋ + 1) ∧
    (x - ⌊x⌋ < 1 / 2 → rint x = ⌊x⌋) ∧ (1 / 2 < x - ⌊x⌋ → rint x = ⌊x⌋ + 1) := rint_bounds' x

/-- `np.rint` is non-decreasing -/
theorem rint_mono {a b : ℚ} (h : a ≤ b) : rint a ≤ rint b := by
  have hf : ⌊a⌋ ≤ ⌊b⌋ := Int.floor_le_floor h
  obtain ⟨ha, ha1, ha2⟩ := rint_bounds a
  obtain ⟨hb, hb1, hb2⟩ := rint_bounds b
  rcases lt_or_eq_of_le hf with hlt | heq
  · rcases ha with ha | ha <;> rcases hb with hb | hb <;> omega
  · -- same floor: compare fractional parts
    by_cases hA : a - ⌊a⌋ < 1 / 2
    · rw [ha1 hA]; rcases hb with hb | hb <;> omega
    · by_cases hA2 : 1 / 2 < a - ⌊a⌋
      · have : 1 / 2 < b - ⌊b⌋ := by rw [← heq]; linarith
        rw [ha2 hA2, hb2 this]; omega
      · -- a has fractional part exactly 1/2
        have hAe : a - ⌊a⌋ = 1 / 2 := le_antisymm (not_lt.mp hA2) (not_lt.mp hA)
        by_cases hB2 : 1 / 2 < b - ⌊b⌋
        · rw [hb2 hB2]; rcases ha with ha | ha <;> omega
        · have hBe : b - ⌊b⌋ = 1 / 2 := by
            apply le_antisymm (not_lt.mp hB2)
            rw [← heq]; linarith
          have : a = b := by
            have : (⌊a⌋ : ℚ) = ⌊b⌋ := by exact_mod_cast heq
            linarith
          rw [this]

theorem maxI_eq (a b : Int) : maxI a b = max a b := by
  unfold maxI; split <;> omega

/-- with all three pairs of axes equivalent every mesh number becomes the largest of the three -/
theorem alignMesh_all (m0 : IV) :
    alignMesh ⟨true, true, true⟩ m0 = ⟨max m0.x (max m0.y m0.z), max m0.x (max m0.y m0.z), max m0.x (max m0.y m0.z)⟩ := by
  obtain ⟨a, b, c⟩ := m0
  unfold alignMesh
  simp only [Bool.true_and, maxI_eq]
  split_ifs <;>
    simp only [Bool.not_eq_true', decide_eq_false_iff_not, Bool.not_eq_false', decide_eq_true_eq, Bool.not_eq_eq_eq_not,
      Bool.not_true, Bool.not_false] at * <;>
    (refine (V3.mk.injEq _ _ _ _ _ _).mpr ⟨?_, ?_, ?_⟩ <;> omega)

theorem alignMesh_x (m0 : IV) : alignMesh ⟨true, false, false⟩ m0 = ⟨m0.x, max m0.y m0.z, max m0.y m0.z⟩ := by
  obtain ⟨a, b, c⟩ := m0
  unfold alignMesh
  simp only [Bool.true_and, Bool.false_and, maxI_eq, Bool.false_eq_true, if_false]
  by_cases h0 : b = c <;> simp [h0]

theorem alignMesh_y (m0 : IV) : alignMesh ⟨false, true, false⟩ m0 = ⟨max m0.z m0.x, m0.y, max m0.z m0.x⟩ := by
  obtain ⟨a, b, c⟩ := m0
  unfold alignMesh
  simp only [Bool.true_and, Bool.false_and, maxI_eq, Bool.false_eq_true, if_false]
  by_cases h0 : c = a <;> simp [h0]

theorem alignMesh_z (m0 : IV) : alignMesh ⟨false, false, true⟩ m0 = ⟨max m0.x m0.y, max m0.x m0.y, m0.z⟩ := by
  obtain ⟨a, b, c⟩ := m0
  unfold alignMesh
  simp only [Bool.true_and, Bool.false_and, maxI_eq, Bool.false_eq_true, if_false]
  by_cases h0 : a = b <;> simp [h0]

theorem alignMesh_none (m0 : IV) : alignMesh ⟨false, false, false⟩ m0 = m0 := by
  unfold alignMesh; simp

/-- the equivalence flags of a group are transitive -/
def FlagsTransitive (e : V3 Bool) : Prop :=
  (e.x = true → e.y = true → e.z = true) ∧ (e.y = true → e.z = true → e.x = true) ∧ (e.x = true → e.z = true → e.y = true)

theorem flags_cases {e : V3 Bool} (h : FlagsTransitive e) :
    e = ⟨true, true, true⟩ ∨ e = ⟨true, false, false⟩ ∨ e = ⟨false, true, false⟩ ∨ e = ⟨false, false, true⟩ ∨
      e = ⟨false, false, false⟩ := by
  obtain ⟨x, y, z⟩ := e
  obtain ⟨h1, h2, h3⟩ := h
  cases x <;> cases y <;> cases z <;> simp_all

def IV.le (a b : IV) : Prop := a.x ≤ b.x ∧ a.y ≤ b.y ∧ a.z ≤ b.z

theorem alignMesh_mono {e : V3 Bool} (h : FlagsTransitive e) {a b : IV} (hab : IV.le a b) :
    IV.le (alignMesh e a) (alignMesh e b) := by
  obtain ⟨h1, h2, h3⟩ := hab
  rcases flags_cases h with rfl | rfl | rfl | rfl | rfl
  · rw [alignMesh_all, alignMesh_all]; refine ⟨?_, ?_, ?_⟩ <;> simp only <;> omega
  · rw [alignMesh_x, alignMesh_x]; refine ⟨?_, ?_, ?_⟩ <;> simp only <;> omega
  · rw [alignMesh_y, alignMesh_y]; refine ⟨?_, ?_, ?_⟩ <;> simp only <;> omega
  · rw [alignMesh_z, alignMesh_z]; refine ⟨?_, ?_, ?_⟩ <;> simp only <;> omega
  · rw [alignMesh_none, alignMesh_none]; exact ⟨h1, h2, h3⟩

theorem alignMesh_symmetric {e : V3 Bool} (h : FlagsTransitive e) (m0 : IV) :
    (e.x = true → (alignMesh e m0).y = (alignMesh e m0).z) ∧ (e.y = true → (alignMesh e m0).z = (alignMesh e m0).x) ∧
    (e.z = true → (alignMesh e m0).x = (alignMesh e m0).y) := by
  rcases flags_cases h with rfl | rfl | rfl | rfl | rfl
  · rw [alignMesh_all]; simp
  · rw [alignMesh_x]; simp
  · rw [alignMesh_y]; simp
  · rw [alignMesh_z]; simp
  · simp

end PhononModel.Grid
