import PhononModel.Model.GroupAverage
import PhononModel.Lemmas.Basic
import Mathlib.Algebra.BigOperators.Field
import Mathlib.Algebra.Field.Basic
import Mathlib.Algebra.CharZero.Defs
import Mathlib.Tactic.Ring
import Mathlib.Tactic.FieldSimp
import Mathlib.Logic.Equiv.Fintype
import Mathlib.Data.Fintype.EquivFin

set_option linter.unusedSectionVars false
namespace PhononModel
open Finset
variable {K : Type} [Field K] [CharZero K] [DecidableEq K]

structure PjWF {N n : Nat} (perm : Fin N → Fin n → Fin n) (C Ci : Fin N → Fin 3 → Fin 3 → K)
    (mul : Fin N → Fin N → Fin N) : Prop where
  perm_mul : ∀ g h x, perm (mul g h) x = perm h (perm g x)
  C_mul : ∀ g h k l, C (mul g h) k l = ∑ a, C g k a * C h a l
  Ci_mul : ∀ g h k l, Ci (mul g h) k l = ∑ a, Ci h k a * Ci g a l
  inj : ∀ g, Function.Injective (mul g)

theorem pjWf_sound {N n : Nat} (perm : Fin N → Fin n → Fin n) (C Ci : Fin N → Fin 3 → Fin 3 → K)
    (mul : Fin N → Fin N → Fin N) (h : pjWf perm C Ci mul = true) : PjWF perm C Ci mul := by
  simp only [pjWf, Bool.and_eq_true, List.all_eq_true, List.mem_finRange, forall_const,
    beq_iff_eq, Bool.or_eq_true, bne_iff_ne, ne_eq, decide_eq_true_eq, mul33, sumFin_eq] at h
  refine ⟨fun g h' x => ((h g h').1.1 x), fun g h' k l => ((h g h').1.2 k l).1,
    fun g h' k l => ((h g h').1.2 k l).2, ?_⟩
  intro g a b hab
  rcases (h g a).2 b with h1 | h1
  · exact absurd hab h1
  · exact h1

theorem pjAverage_apply {N n : Nat} (perm : Fin N → Fin n → Fin n) (C Ci : Fin N → Fin 3 → Fin 3 → K)
    (Φ : FC n K) (i j k l) :
    pjAverage perm C Ci Φ i j k l =
      (∑ g, ∑ a, ∑ b, C g k a * Φ (perm g i) (perm g j) a b * Ci g b l) / (N : K) := by
  simp [pjAverage, sumFin_eq]

/-- conjugating the average by one operation of the list gives the average back -/
theorem pj_act {N n : Nat} (hN : 0 < N) {perm : Fin N → Fin n → Fin n} {C Ci : Fin N → Fin 3 → Fin 3 → K}
    {mul : Fin N → Fin N → Fin N} (w : PjWF perm C Ci mul) (Φ : FC n K) (g : Fin N) (i j k l) :
    (∑ a, ∑ b, C g k a * pjAverage perm C Ci Φ (perm g i) (perm g j) a b * Ci g b l)
      = pjAverage perm C Ci Φ i j k l := by
  have hN' : (N : K) ≠ 0 := by exact_mod_cast hN.ne'
  let e : Fin N ≃ Fin N := Equiv.ofBijective (mul g) (Finite.injective_iff_bijective.mp (w.inj g))
  simp only [pjAverage_apply]
  rw [← Equiv.sum_comp e (fun g' => ∑ a, ∑ b, C g' k a * Φ (perm g' i) (perm g' j) a b * Ci g' b l)]
  have he : ∀ h, e h = mul g h := fun h => rfl
  simp only [he, w.perm_mul, w.C_mul, w.Ci_mul]
  -- both sides are finite sums of the same monomials
  simp only [Fin.sum_univ_three, Finset.sum_div, Finset.mul_sum, Finset.sum_mul, mul_div_assoc]
  simp only [← Finset.sum_add_distrib]
  apply Finset.sum_congr rfl
  intro h _
  field_simp
  ring

end PhononModel
