import PhononModel.Model.Supercell
import PhononModel.Lemmas.SNF
import Mathlib.Tactic.Ring
import Mathlib.Tactic.LinearCombination
import Mathlib.Tactic.Linarith
import Mathlib.Algebra.Order.Ring.Int
/-!
Lemmas for the lattice-point part of `Model/Supercell.lean`: membership in the box,
congruence modulo `Sℤ³` via the adjugate, and the residue-system argument through an
SNF certificate.
-/
set_option linter.unusedSectionVars false
namespace PhononModel.Supercell
open PhononModel PhononModel.SNF

theorem mem_latticePoints (d m : V3 Int) :
    m ∈ latticePoints d ↔ (0 ≤ m.x ∧ m.x < d.x) ∧ (0 ≤ m.y ∧ m.y < d.y) ∧ (0 ≤ m.z ∧ m.z < d.z) := by
  unfold latticePoints
  simp only [List.mem_flatMap, List.mem_map, List.mem_range]
  constructor
  · rintro ⟨c, hc, b, hb, a, ha, rfl⟩
    simp only
    omega
  · rintro ⟨⟨hx0, hx1⟩, ⟨hy0, hy1⟩, ⟨hz0, hz1⟩⟩
    refine ⟨m.z.toNat, by omega, m.y.toNat, by omega, m.x.toNat, by omega, ?_⟩
    ext <;> simp only <;> omega

theorem length_latticePoints (d : V3 Int) :
    (latticePoints d).length = d.x.toNat * d.y.toNat * d.z.toNat := by
  unfold latticePoints
  simp only [List.length_flatMap, List.length_map, List.length_range, List.map_const', List.sum_replicate_nat]
  ring

/-- `x ≡ y (mod S ℤ³)` -/
def CongS (S : M3 Int) (x y : V3 Int) : Prop := ∃ k : V3 Int, x = y + S.mulVec k

theorem V3.smul_inj {c : Int} (hc : c ≠ 0) {v w : V3 Int} (h : V3.smul c v = V3.smul c w) : v = w := by
  have hx := congrArg V3.x h
  have hy := congrArg V3.y h
  have hz := congrArg V3.z h
  simp only [V3.smul] at hx hy hz
  ext
  · exact mul_left_cancel₀ hc hx
  · exact mul_left_cancel₀ hc hy
  · exact mul_left_cancel₀ hc hz

theorem eqModS_iff (S : M3 Int) (hS : S.det ≠ 0) (x y : V3 Int) : eqModS S x y = true ↔ CongS S x y := by
  unfold eqModS CongS
  simp only [Bool.and_eq_true, beq_iff_eq]
  constructor
  · rintro ⟨⟨hx, hy⟩, hz⟩
    have dx := Int.dvd_of_emod_eq_zero hx
    have dy := Int.dvd_of_emod_eq_zero hy
    have dz := Int.dvd_of_emod_eq_zero hz
    obtain ⟨kx, hkx⟩ := dx
    obtain ⟨ky, hky⟩ := dy
    obtain ⟨kz, hkz⟩ := dz
    refine ⟨⟨kx, ky, kz⟩, ?_⟩
    have hw : S.adj.mulVec (x - y) = V3.smul S.det ⟨kx, ky, kz⟩ := by
      ext <;> simp only [V3.smul] <;> assumption
    have h2 : S.mulVec (S.adj.mulVec (x - y)) = V3.smul S.det (x - y) := by
      rw [← M3.mulVec_mul, M3.mul_adj, M3.smul_one_mulVec]
    rw [hw] at h2
    have h3 : V3.smul S.det (S.mulVec ⟨kx, ky, kz⟩) = V3.smul S.det (x - y) := by
      rw [← h2]; ext <;> simp only [V3.smul, M3.mulVec] <;> ring
    have h4 := V3.smul_inj hS h3
    rw [h4]; ext <;> simp [V3.add_def, V3.sub_def]
  · rintro ⟨k, rfl⟩
    have : S.adj.mulVec (y + S.mulVec k - y) = V3.smul S.det k := by
      have e : y + S.mulVec k - y = S.mulVec k := by ext <;> simp [V3.add_def, V3.sub_def]
      rw [e, ← M3.mulVec_mul, M3.adj_mul, M3.smul_one_mulVec]
    rw [this]
    simp [V3.smul]

end PhononModel.Supercell

namespace PhononModel.Supercell
open PhononModel PhononModel.SNF

structure SnfCert.Good (S : M3 Int) (c : SnfCert) : Prop where
  eq : c.D = c.P * S * c.Q
  d01 : c.D.a01 = 0
  d02 : c.D.a02 = 0
  d10 : c.D.a10 = 0
  d12 : c.D.a12 = 0
  d20 : c.D.a20 = 0
  d21 : c.D.a21 = 0
  p0 : 0 < c.D.a00
  p1 : 0 < c.D.a11
  p2 : 0 < c.D.a22
  pinvP : c.Pinv * c.P = M3.one
  pPinv : c.P * c.Pinv = M3.one
  qQinv : c.Q * c.Qinv = M3.one
  qinvQ : c.Qinv * c.Q = M3.one

theorem SnfCert.ok_good (S : M3 Int) (c : SnfCert) (h : c.ok S = true) : c.Good S := by
  unfold SnfCert.ok M3.isDiag at h
  simp only [Bool.and_eq_true, decide_eq_true_eq] at h
  obtain ⟨⟨⟨⟨⟨⟨⟨⟨h1, ⟨⟨⟨⟨⟨a, b⟩, c'⟩, d⟩, e⟩, f⟩⟩, h3⟩, h4⟩, h5⟩, h6⟩, h7⟩, h8⟩, h9⟩ := h
  exact ⟨h1, a, b, c', d, e, f, h3, h4, h5, h6, h7, h8, h9⟩

theorem diag_mulVec (D : M3 Int) (h01 : D.a01 = 0) (h02 : D.a02 = 0) (h10 : D.a10 = 0) (h12 : D.a12 = 0)
    (h20 : D.a20 = 0) (h21 : D.a21 = 0) (k : V3 Int) :
    D.mulVec k = ⟨D.a00 * k.x, D.a11 * k.y, D.a22 * k.z⟩ := by
  ext <;> simp [M3.mulVec, h01, h02, h10, h12, h20, h21]

theorem box_unique {d a b k : Int} (ha : 0 ≤ a ∧ a < d) (hb : 0 ≤ b ∧ b < d) (h : a - b = d * k) : a = b := by
  have hk : k = 0 := by
    by_contra hne
    have hd : 0 < d := by omega
    rcases lt_or_gt_of_ne hne with hk | hk
    · have : d * k ≤ d * (-1) := Int.mul_le_mul_of_nonneg_left (by omega) (by omega)
      omega
    · have : d * 1 ≤ d * k := Int.mul_le_mul_of_nonneg_left (by omega) (by omega)
      omega
  rw [hk] at h; omega

/-- **the residue-system theorem**: for a Smith-normal-form certificate `D = P·S·Q` (unimodular
`P`, `Q`, positive diagonal `D`), every integer vector is congruent modulo `Sℤ³` to exactly one
point `P⁻¹·m` with `m` in the box `0 ≤ m_i < d_i`. -/
theorem reps_of_cert (S : M3 Int) (c : SnfCert) (g : c.Good S) (x : V3 Int) :
    ∃ m, (m ∈ boxPoints c.D ∧ CongS S x (c.Pinv.mulVec m)) ∧
      ∀ m', (m' ∈ boxPoints c.D ∧ CongS S x (c.Pinv.mulVec m')) → m' = m := by
  have hD := diag_mulVec c.D g.d01 g.d02 g.d10 g.d12 g.d20 g.d21
  -- existence
  let y := c.P.mulVec x
  let m : V3 Int := ⟨y.x % c.D.a00, y.y % c.D.a11, y.z % c.D.a22⟩
  let k' : V3 Int := ⟨y.x / c.D.a00, y.y / c.D.a11, y.z / c.D.a22⟩
  have hy : y = m + c.D.mulVec k' := by
    rw [hD]
    ext <;> simp only [V3.add_def, m, k']
    · exact (Int.emod_add_mul_ediv _ _).symm
    · exact (Int.emod_add_mul_ediv _ _).symm
    · exact (Int.emod_add_mul_ediv _ _).symm
  have hPD : c.Pinv * c.D = S * c.Q := by
    rw [g.eq, ← M3.mul_assoc', ← M3.mul_assoc', g.pinvP, M3.one_mul']
  have hPS : c.P * S = c.D * c.Qinv := by
    rw [g.eq, M3.mul_assoc', g.qQinv, M3.mul_one']
  refine ⟨m, ⟨?_, ?_⟩, ?_⟩
  · unfold boxPoints
    rw [mem_latticePoints]
    refine ⟨⟨Int.emod_nonneg _ (ne_of_gt g.p0), Int.emod_lt_of_pos _ g.p0⟩,
            ⟨Int.emod_nonneg _ (ne_of_gt g.p1), Int.emod_lt_of_pos _ g.p1⟩,
            ⟨Int.emod_nonneg _ (ne_of_gt g.p2), Int.emod_lt_of_pos _ g.p2⟩⟩
  · refine ⟨c.Q.mulVec k', ?_⟩
    have hx : x = c.Pinv.mulVec y := by
      show x = c.Pinv.mulVec (c.P.mulVec x)
      rw [← M3.mulVec_mul, g.pinvP, M3.one_mulVec]
    rw [hx, hy, M3.mulVec_add, ← M3.mulVec_mul, hPD, M3.mulVec_mul]
  · rintro m' ⟨hm', ⟨k, hk⟩⟩
    obtain ⟨k0, hk0⟩ : CongS S x (c.Pinv.mulVec m) := by
      refine ⟨c.Q.mulVec k', ?_⟩
      have hx : x = c.Pinv.mulVec y := by
        show x = c.Pinv.mulVec (c.P.mulVec x)
        rw [← M3.mulVec_mul, g.pinvP, M3.one_mulVec]
      rw [hx, hy, M3.mulVec_add, ← M3.mulVec_mul, hPD, M3.mulVec_mul]
    -- apply P to both representations
    have e1 : c.P.mulVec x = m' + c.D.mulVec (c.Qinv.mulVec k) := by
      rw [hk, M3.mulVec_add, ← M3.mulVec_mul, g.pPinv, M3.one_mulVec, ← M3.mulVec_mul, hPS, M3.mulVec_mul]
    have e2 : c.P.mulVec x = m + c.D.mulVec (c.Qinv.mulVec k0) := by
      rw [hk0, M3.mulVec_add, ← M3.mulVec_mul, g.pPinv, M3.one_mulVec, ← M3.mulVec_mul, hPS, M3.mulVec_mul]
    rw [e1, hD, hD] at e2
    have hx := congrArg V3.x e2
    have hyy := congrArg V3.y e2
    have hz := congrArg V3.z e2
    simp only [V3.add_def] at hx hyy hz
    unfold boxPoints at hm'
    rw [mem_latticePoints] at hm'
    have bm : (0 ≤ m.x ∧ m.x < c.D.a00) ∧ (0 ≤ m.y ∧ m.y < c.D.a11) ∧ (0 ≤ m.z ∧ m.z < c.D.a22) :=
      ⟨⟨Int.emod_nonneg _ (ne_of_gt g.p0), Int.emod_lt_of_pos _ g.p0⟩,
       ⟨Int.emod_nonneg _ (ne_of_gt g.p1), Int.emod_lt_of_pos _ g.p1⟩,
       ⟨Int.emod_nonneg _ (ne_of_gt g.p2), Int.emod_lt_of_pos _ g.p2⟩⟩
    ext
    · exact box_unique hm'.1 bm.1 (k := (c.Qinv.mulVec k0).x - (c.Qinv.mulVec k).x) (by linear_combination hx)
    · exact box_unique hm'.2.1 bm.2.1 (k := (c.Qinv.mulVec k0).y - (c.Qinv.mulVec k).y) (by linear_combination hyy)
    · exact box_unique hm'.2.2 bm.2.2 (k := (c.Qinv.mulVec k0).z - (c.Qinv.mulVec k).z) (by linear_combination hz)

theorem CongS.symm' {S : M3 Int} {x y : V3 Int} (h : CongS S x y) : CongS S y x := by
  obtain ⟨k, rfl⟩ := h
  refine ⟨⟨-k.x, -k.y, -k.z⟩, ?_⟩
  ext <;> simp only [V3.add_def, M3.mulVec] <;> ring

theorem CongS.trans' {S : M3 Int} {x y z : V3 Int} (h1 : CongS S x y) (h2 : CongS S y z) : CongS S x z := by
  obtain ⟨k, rfl⟩ := h1
  obtain ⟨l, rfl⟩ := h2
  refine ⟨⟨k.x + l.x, k.y + l.y, k.z + l.z⟩, ?_⟩
  ext <;> simp only [V3.add_def, M3.mulVec] <;> ring

theorem filter_length_one {α : Type} (l : List α) (p : α → Bool) (h : (l.filter p).length = 1) :
    ∃ a, a ∈ l ∧ p a = true ∧ ∀ b ∈ l, p b = true → b = a := by
  match hf : l.filter p, h with
  | [a], _ =>
    have ha : a ∈ l.filter p := by rw [hf]; exact List.mem_singleton.mpr rfl
    rw [List.mem_filter] at ha
    refine ⟨a, ha.1, ha.2, ?_⟩
    intro b hb hpb
    have : b ∈ l.filter p := List.mem_filter.mpr ⟨hb, hpb⟩
    rw [hf] at this
    exact List.mem_singleton.mp this

end PhononModel.Supercell

namespace PhononModel.Supercell
open PhononModel PhononModel.SNF

/-! ### what a successful construction guarantees (the rejecting branches, read contrapositively) -/

theorem trim_ok_count (R : M3 Rat) (pos : Array (V3 Rat)) (chk : Bool) (t : Trimmed) (h : trim R pos chk = .ok t) :
    R.det ≠ 0 ∧ (pos.size : Int) = ratRint (1 / R.det * (t.pos.size : Rat)) := by
  unfold trim invRat at h
  simp only [bind, Except.bind, pure, Except.pure] at h
  split at h
  · cases h
  · next Rinv hR =>
    split at hR
    · cases hR
    · next hdet =>
      split at h
      · cases h
      · next t' ht =>
        split at h
        · next hc =>
          simp only [Except.ok.injEq] at h
          subst h
          exact ⟨hdet, hc⟩
        · cases h

theorem perAtom_nonneg (ns nu : Nat) : 0 ≤ perAtom ns nu := by
  unfold perAtom; split
  · exact le_refl _
  · exact Int.natCast_nonneg _

theorem finishSupercell_ok (L : M3 Rat) (upos : Array (V3 Rat)) (S : M3 Int) (simple : Array SimpleAtom) (t : Trimmed)
    (o : SupercellOut) (h : finishSupercell L upos S simple t = .ok o) :
    (o.N : Int) = S.det ∧ o.lattice = (intToRat S).transpose * L ∧ o.atoms.size = t.pos.size ∧
    o.s2u = o.atoms.map (fun a => a.u * o.N) ∧ o.u2s = (Array.range upos.size).map (· * o.N) := by
  unfold finishSupercell at h
  simp only at h
  split at h
  · cases h
  · next hN =>
    simp only [Except.ok.injEq] at h
    subst h
    have hN' := not_not.mp hN
    refine ⟨?_, rfl, by simp, rfl, rfl⟩
    simp only
    rw [← hN']
    exact Int.toNat_of_nonneg (perAtom_nonneg _ _)

theorem supercell_ok (L : M3 Rat) (upos : Array (V3 Rat)) (S : M3 Int) (old : Bool) (o : SupercellOut)
    (h : supercell L upos S old = .ok o) :
    (o.N : Int) = S.det ∧ o.lattice = (intToRat S).transpose * L ∧
    o.s2u = o.atoms.map (fun a => a.u * o.N) ∧ o.u2s = (Array.range upos.size).map (· * o.N) := by
  unfold supercell at h
  simp only [bind, Except.bind] at h
  split at h
  · cases h
  · split at h
    · cases h
    · have := finishSupercell_ok _ _ _ _ _ _ h
      exact ⟨this.1, this.2.1, this.2.2.2⟩

theorem primitive_ok (spos : Array (V3 Rat)) (symbols : Array Nat) (pmat : M3 Rat) (o : PrimitiveOut)
    (h : primitive spos symbols pmat = .ok o) :
    (∀ i, i < spos.size → symbols.getD i 0 = symbols.getD (o.mapping.getD i 0) 0) ∧
    pmat.det ≠ 0 ∧ (spos.size : Int) = ratRint (1 / pmat.det * (o.pos.size : Rat)) := by
  unfold primitive at h
  split at h
  · cases h
  · next t ht =>
    split at h
    · cases h
    · split at h
      · cases h
      · simp only [Except.ok.injEq] at h
        subst h
        simp only
        unfold primTrim at ht
        split at ht
        · cases ht
        · next t' htr =>
          split at ht
          · next hall =>
            simp only [Except.ok.injEq] at ht
            subst ht
            refine ⟨?_, trim_ok_count _ _ _ _ htr⟩
            intro i hi
            have := List.all_eq_true.mp hall i (List.mem_range.mpr hi)
            simpa using this
          · cases ht

end PhononModel.Supercell
