import PhononModel.Model.Basic
import Mathlib.Algebra.BigOperators.Fin

namespace PhononModel
open Finset

theorem sumFin_eq {α : Type} [AddCommMonoid α] (n : Nat) (f : Fin n → α) :
    sumFin n f = ∑ i, f i := by
  unfold sumFin
  rw [Fin.sum_univ_def, List.sum_eq_foldr]

end PhononModel
