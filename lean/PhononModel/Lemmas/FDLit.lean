import PhononModel.Model.FDSolverLit
import PhononModel.Lemmas.FDSolver
import Mathlib.Algebra.BigOperators.Group.List.Basic

/-! The literal loop model of `distribute_fc2` equals the closed form `distribute`. -/
set_option linter.unusedSectionVars false
namespace PhononModel.FD
open PhononModel Finset

/-! ### the `atom_list_reverse` table -/

theorem foldl_rev_eq {M n : Nat} (key : Fin M → Fin n) (p : Fin M → Prop) [DecidablePred p] :
    ∀ (L : List (Fin M)) (init : Fin n → Option (Fin M)) (d : Fin n),
    (L.foldl (fun rev i => if p i then (fun d' => if d' = key i then some i else rev d') else rev) init) d
      = ((L.filter (fun i => key i = d ∧ p i)).getLast?).or (init d)
  | [], init, d => by simp
  | x :: xs, init, d => by
    rw [List.foldl_cons, foldl_rev_eq key p xs]
    by_cases hq : key x = d ∧ p x
    · obtain ⟨hk, hp⟩ := hq
      have : List.filter (fun i => decide (key i = d ∧ p i)) (x :: xs) = x :: List.filter (fun i => decide (key i = d ∧ p i)) xs := by
        rw [List.filter_cons]; simp [hk, hp]
      rw [this, List.getLast?_cons]
      simp only [hp, if_true, hk]
      cases (List.filter (fun i => decide (key i = d ∧ p i)) xs).getLast? <;> simp
    · have : List.filter (fun i => decide (key i = d ∧ p i)) (x :: xs) = List.filter (fun i => decide (key i = d ∧ p i)) xs := by
        rw [List.filter_cons]; simp [hq]
      rw [this]
      congr 1
      by_cases hp : p x
      · have hk : ¬ d = key x := fun h => hq ⟨h.symm, hp⟩
        simp [hp, hk]
      · simp [hp]

theorem revTable_eq {M n : Nat} (targets : Fin M → Fin n) (mapAtoms : Fin n → Fin n) (d : Fin n) :
    revTable targets mapAtoms d = revIdx targets mapAtoms d := by
  unfold revTable revIdx
  have := foldl_rev_eq (fun i => mapAtoms (targets i)) (fun i => mapAtoms (targets i) = targets i)
    (List.finRange M) (fun _ => none) d
  rw [this, Option.or_none]
  congr 1
  apply List.filter_congr
  intro i _
  by_cases h : mapAtoms (targets i) = targets i
  · simp [h]
  · simp [h]

/-! ### sequential accumulation programs -/

variable {K : Type} [Field K]

/-- one `+=`: `fc[wr][wo][wj][wk] += c * fc[rr][ro][rl][rm]` -/
structure Instr (Mr n : Nat) (K : Type) where
  wr : Fin Mr
  wo : Fin n
  wj : Fin 3
  wk : Fin 3
  c : K
  rr : Fin Mr
  ro : Fin n
  rl : Fin 3
  rm : Fin 3

def exec {Mr n : Nat} (s : Rows Mr n K) (a : Instr Mr n K) : Rows Mr n K :=
  setEntry s a.wr a.wo a.wj a.wk (s a.wr a.wo a.wj a.wk + a.c * s a.rr a.ro a.rl a.rm)

def contrib {Mr n : Nat} (s0 : Rows Mr n K) (r : Fin Mr) (o : Fin n) (j k : Fin 3) (a : Instr Mr n K) : K :=
  if a.wr = r ∧ a.wo = o ∧ a.wj = j ∧ a.wk = k then a.c * s0 a.rr a.ro a.rl a.rm else 0

/-- if no row that is read is ever written, a program of `+=` statements computes the initial value plus the
sum of all contributions evaluated on the INITIAL array -/
theorem foldl_exec {Mr n : Nat} : ∀ (prog : List (Instr Mr n K)) (s0 : Rows Mr n K),
    (∀ a ∈ prog, ∀ b ∈ prog, b.rr ≠ a.wr) → ∀ r o j k,
    (prog.foldl exec s0) r o j k = s0 r o j k + (prog.map (contrib s0 r o j k)).sum
  | [], s0, _, r, o, j, k => by simp
  | a :: rest, s0, hsep, r, o, j, k => by
    have hsep' : ∀ a' ∈ rest, ∀ b ∈ rest, b.rr ≠ a'.wr :=
      fun a' ha' b hb => hsep a' (List.mem_cons_of_mem _ ha') b (List.mem_cons_of_mem _ hb)
    rw [List.foldl_cons, foldl_exec rest (exec s0 a) hsep' r o j k]
    have hread : ∀ b ∈ rest, ∀ o' l m, exec s0 a b.rr o' l m = s0 b.rr o' l m := by
      intro b hb o' l m
      have hne : b.rr ≠ a.wr := hsep a List.mem_cons_self b (List.mem_cons_of_mem _ hb)
      simp [exec, setEntry, hne]
    have hmap : rest.map (contrib (exec s0 a) r o j k) = rest.map (contrib s0 r o j k) := by
      apply List.map_congr_left
      intro b hb
      simp only [contrib, hread b hb]
    have haa : s0 a.rr a.ro a.rl a.rm = s0 a.rr a.ro a.rl a.rm := rfl
    rw [hmap, List.map_cons, List.sum_cons]
    by_cases hw : a.wr = r ∧ a.wo = o ∧ a.wj = j ∧ a.wk = k
    · obtain ⟨rfl, rfl, rfl, rfl⟩ := hw
      simp [exec, setEntry, contrib, add_assoc]
    · have : exec s0 a r o j k = s0 r o j k := by
        simp only [exec, setEntry]
        rw [if_neg]
        rintro ⟨h1, h2, h3, h4⟩
        exact hw ⟨h1.symm, h2.symm, h3.symm, h4.symm⟩
      simp [this, contrib, hw]

theorem sum_map_flatMap {ι β : Type} (L : List ι) (f : ι → List β) (g : β → K) :
    ((L.flatMap f).map g).sum = (L.map fun x => ((f x).map g).sum).sum := by
  induction L with
  | nil => simp
  | cons x xs ih => simp [List.flatMap_cons, List.sum_append, ih]

theorem sum_map_finRange {n : Nat} (f : Fin n → K) : ((List.finRange n).map f).sum = ∑ i, f i :=
  (Fin.sum_univ_def f).symm

/-- the instructions of `distributeBody` in C loop order -/
def bodyInstrs {M Mr n nrot : Nat} (fcIdx : Fin M → Fin Mr) (R : Fin nrot → Mat3 K)
    (perms : Fin nrot → Fin n → Fin n) (i ri : Fin M) (sym : Fin nrot) : List (Instr Mr n K) :=
  (List.finRange n).flatMap fun o => (List.finRange 3).flatMap fun j => (List.finRange 3).flatMap fun k =>
    (List.finRange 3).flatMap fun l => (List.finRange 3).flatMap fun m =>
      [⟨fcIdx i, o, j, k, R sym l j * R sym m k, fcIdx ri, perms sym o, l, m⟩]

theorem distributeBody_eq {M Mr n nrot : Nat} (fcIdx : Fin M → Fin Mr) (R : Fin nrot → Mat3 K)
    (perms : Fin nrot → Fin n → Fin n) (i ri : Fin M) (sym : Fin nrot) (fc : Rows Mr n K) :
    distributeBody fcIdx R perms i ri sym fc = (bodyInstrs fcIdx R perms i ri sym).foldl exec fc := by
  simp only [distributeBody, distributeOther, bodyInstrs, List.foldl_flatMap, List.foldl_cons, List.foldl_nil, exec]

theorem mem_bodyInstrs {M Mr n nrot : Nat} {fcIdx : Fin M → Fin Mr} {R : Fin nrot → Mat3 K}
    {perms : Fin nrot → Fin n → Fin n} {i ri : Fin M} {sym : Fin nrot} {a : Instr Mr n K}
    (h : a ∈ bodyInstrs fcIdx R perms i ri sym) : a.wr = fcIdx i ∧ a.rr = fcIdx ri := by
  simp only [bodyInstrs, List.mem_flatMap, List.mem_singleton] at h
  obtain ⟨o, _, j, _, k, _, l, _, m, _, rfl⟩ := h
  exact ⟨rfl, rfl⟩

/-- contributions of one position: `Rᵀ B R` on its own row, nothing elsewhere -/
theorem sum_contrib_body {M Mr n nrot : Nat} (fcIdx : Fin M → Fin Mr) (R : Fin nrot → Mat3 K)
    (perms : Fin nrot → Fin n → Fin n) (i ri : Fin M) (sym : Fin nrot) (s0 : Rows Mr n K)
    (r : Fin Mr) (o : Fin n) (j k : Fin 3) :
    ((bodyInstrs fcIdx R perms i ri sym).map (contrib s0 r o j k)).sum =
      if fcIdx i = r then rotBlock (R sym) (s0 (fcIdx ri) (perms sym o)) j k else 0 := by
  simp only [bodyInstrs, sum_map_flatMap, List.map_cons, List.map_nil, List.sum_cons, List.sum_nil, add_zero,
    sum_map_finRange, contrib]
  by_cases h : fcIdx i = r
  · simp only [h, true_and, if_true]
    rw [Finset.sum_eq_single o]
    · rw [Finset.sum_eq_single j]
      · rw [Finset.sum_eq_single k]
        · simp [rotBlock, sumFin_eq]
        · intro k' _ hk; simp [hk]
        · intro hk; exact absurd (Finset.mem_univ k) hk
      · intro j' _ hj; simp [hj]
      · intro hj; exact absurd (Finset.mem_univ j) hj
    · intro o' _ ho; simp [ho]
    · intro ho; exact absurd (Finset.mem_univ o) ho
  · simp [h]

/-! ### the outer loop -/

theorem foldlM_none_of_step {β ι : Type} (f : β → ι → Option β) :
    ∀ (L : List ι) (s : β), (∃ i ∈ L, ∀ s', f s' i = none) → L.foldlM f s = none
  | [], _, h => by obtain ⟨i, hi, _⟩ := h; simp at hi
  | x :: xs, s, h => by
    rw [List.foldlM_cons]
    cases hx : f s x with
    | none => rfl
    | some s' =>
      obtain ⟨i, hi, hnone⟩ := h
      rcases List.mem_cons.mp hi with rfl | hi'
      · rw [hnone s] at hx; cases hx
      · exact foldlM_none_of_step f xs s' ⟨i, hi', hnone⟩

theorem foldlM_some_of_step {β ι : Type} (f : β → ι → Option β) (g : β → ι → β) :
    ∀ (L : List ι) (s : β), (∀ i ∈ L, ∀ s', f s' i = some (g s' i)) → L.foldlM f s = some (L.foldl g s)
  | [], _, _ => rfl
  | x :: xs, s, h => by
    rw [List.foldlM_cons, h x List.mem_cons_self s]
    exact foldlM_some_of_step f g xs (g s x) (fun i hi => h i (List.mem_cons_of_mem _ hi))

/-- **the literal loops equal the closed form** whenever no row that is read (a row of a position whose atom
maps to itself) is written (a row of a position whose atom does not) — all sizes, all arrays, all tables. -/
theorem distributeLit_eq {M Mr n nrot : Nat} (targets : Fin M → Fin n) (fcIdx : Fin M → Fin Mr)
    (R : Fin nrot → Mat3 K) (perms : Fin nrot → Fin n → Fin n) (mapSyms : Fin n → Fin nrot) (fc : Rows Mr n K)
    (hsep : ∀ i i', perms (mapSyms (targets i)) (targets i) ≠ targets i →
      perms (mapSyms (targets i')) (targets i') = targets i' → fcIdx i' ≠ fcIdx i) :
    distributeLit targets fcIdx R perms mapSyms fc = distribute targets fcIdx R perms mapSyms fc := by
  unfold distributeLit distribute
  simp only
  have hrev : revTable targets (fun a => perms (mapSyms a) a) = revIdx targets (fun a => perms (mapSyms a) a) :=
    funext (revTable_eq targets _)
  rw [hrev]
  by_cases hall : ((List.finRange M).all fun i =>
      decide (perms (mapSyms (targets i)) (targets i) = targets i) ||
        (revIdx targets (fun a => perms (mapSyms a) a) (perms (mapSyms (targets i)) (targets i))).isSome) = true
  · rw [if_pos hall]
    rw [List.all_eq_true] at hall
    -- every needed reverse entry is defined: pick it
    let ri : Fin M → Fin M := fun i =>
      (revIdx targets (fun a => perms (mapSyms a) a) (perms (mapSyms (targets i)) (targets i))).getD i
    have hri : ∀ i, perms (mapSyms (targets i)) (targets i) ≠ targets i →
        revIdx targets (fun a => perms (mapSyms a) a) (perms (mapSyms (targets i)) (targets i)) = some (ri i) := by
      intro i hi
      have := hall i (List.mem_finRange i)
      simp only [Bool.or_eq_true, decide_eq_true_eq, hi, false_or] at this
      obtain ⟨x, hx⟩ := Option.isSome_iff_exists.mp this
      simp [ri, hx]
    let instrsOf : Fin M → List (Instr Mr n K) := fun i =>
      if targets i = perms (mapSyms (targets i)) (targets i) then []
      else bodyInstrs fcIdx R perms i (ri i) (mapSyms (targets i))
    refine (foldlM_some_of_step _ (fun s i => (instrsOf i).foldl exec s) _ _ ?_).trans ?_
    · intro i _ s'
      by_cases hd : targets i = perms (mapSyms (targets i)) (targets i)
      · have h1 : instrsOf i = [] := if_pos hd
        rw [if_pos hd, h1]; rfl
      · have hd' : perms (mapSyms (targets i)) (targets i) ≠ targets i := fun h => hd h.symm
        have h1 : instrsOf i = bodyInstrs fcIdx R perms i (ri i) (mapSyms (targets i)) := if_neg hd
        rw [if_neg hd, h1]
        simp only [hri i hd', distributeBody_eq]
    rw [← List.foldl_flatMap]
    congr 1
    funext r o j k
    have hinstr : ∀ i, ∀ a ∈ instrsOf i, perms (mapSyms (targets i)) (targets i) ≠ targets i ∧
        a ∈ bodyInstrs fcIdx R perms i (ri i) (mapSyms (targets i)) := by
      intro i a ha
      by_cases hd : targets i = perms (mapSyms (targets i)) (targets i)
      · have : instrsOf i = [] := if_pos hd
        rw [this] at ha; cases ha
      · have : instrsOf i = bodyInstrs fcIdx R perms i (ri i) (mapSyms (targets i)) := if_neg hd
        rw [this] at ha
        exact ⟨fun h => hd h.symm, ha⟩
    have hsepP : ∀ a ∈ (List.finRange M).flatMap instrsOf, ∀ b ∈ (List.finRange M).flatMap instrsOf, b.rr ≠ a.wr := by
      intro a ha b hb
      obtain ⟨ia, _, ha'⟩ := List.mem_flatMap.mp ha
      obtain ⟨ib, _, hb'⟩ := List.mem_flatMap.mp hb
      obtain ⟨hda, ha''⟩ := hinstr ia a ha'
      obtain ⟨hdb, hb''⟩ := hinstr ib b hb'
      rw [(mem_bodyInstrs ha'').1, (mem_bodyInstrs hb'').2]
      obtain ⟨_, hself⟩ := revIdx_some (hri ib hdb)
      exact hsep ia (ri ib) hda hself
    rw [foldl_exec _ fc hsepP r o j k, sum_map_flatMap, sum_map_finRange, sumFin_eq]
    congr 1
    apply Finset.sum_congr rfl
    intro i _
    by_cases hd : targets i = perms (mapSyms (targets i)) (targets i)
    · have h1 : instrsOf i = [] := if_pos hd
      have h2 : ¬ (fcIdx i = r ∧ perms (mapSyms (targets i)) (targets i) ≠ targets i) := fun h => h.2 hd.symm
      rw [h1, if_neg h2]; rfl
    · have hd' : perms (mapSyms (targets i)) (targets i) ≠ targets i := fun h => hd h.symm
      have h1 : instrsOf i = bodyInstrs fcIdx R perms i (ri i) (mapSyms (targets i)) := if_neg hd
      rw [h1, sum_contrib_body, hri i hd']
      by_cases hr : fcIdx i = r
      · rw [if_pos hr, if_pos ⟨hr, hd'⟩]
      · rw [if_neg hr, if_neg (fun h => hr h.1)]
  · rw [if_neg hall]
    apply foldlM_none_of_step
    rw [List.all_eq_true] at hall
    simp only [not_forall] at hall
    obtain ⟨i, hi, hbad⟩ := hall
    simp only [Bool.or_eq_true, decide_eq_true_eq, not_or, Bool.not_eq_true, Option.isSome_eq_false_iff,
      Option.isNone_iff_eq_none] at hbad
    refine ⟨i, hi, fun s' => ?_⟩
    have hd : ¬ targets i = perms (mapSyms (targets i)) (targets i) := fun h => hbad.1 h.symm
    rw [if_neg hd, hbad.2]

end PhononModel.FD
