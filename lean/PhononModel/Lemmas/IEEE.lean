import PhononModel.Model.IEEE
import Mathlib.Data.Real.Basic
/-!
Rewrite rules for the special-values arithmetic `X ℝ` (Model/IEEE.lean).
-/
namespace PhononModel.X
open PhononModel

variable {a b : ℝ}

@[simp] theorem one_eq : (1 : X ℝ) = fin 1 := rfl
@[simp] theorem two_eq : (2 : X ℝ) = fin 2 := rfl
@[simp] theorem zero_eq : (0 : X ℝ) = fin 0 := rfl

@[simp] theorem neg_fin : -(fin a : X ℝ) = fin (-a) := rfl
@[simp] theorem neg_pinf : -(pinf : X ℝ) = ninf := rfl
@[simp] theorem neg_ninf : -(ninf : X ℝ) = pinf := rfl
@[simp] theorem neg_nan : -(nan : X ℝ) = nan := rfl

@[simp] theorem fin_add_fin : (fin a : X ℝ) + fin b = fin (a + b) := rfl
@[simp] theorem fin_sub_fin : (fin a : X ℝ) - fin b = fin (a + -b) := rfl
@[simp] theorem pinf_sub_fin : (pinf : X ℝ) - fin b = pinf := rfl
@[simp] theorem pinf_sub_pinf : (pinf : X ℝ) - pinf = nan := rfl
@[simp] theorem fin_sub_pinf : (fin a : X ℝ) - pinf = ninf := rfl
@[simp] theorem nan_sub (x : X ℝ) : (nan : X ℝ) - x = nan := by cases x <;> rfl
@[simp] theorem sub_nan (x : X ℝ) : x - (nan : X ℝ) = nan := by cases x <;> rfl
@[simp] theorem nan_mul (x : X ℝ) : (nan : X ℝ) * x = nan := by cases x <;> rfl
@[simp] theorem mul_nan (x : X ℝ) : x * (nan : X ℝ) = nan := by cases x <;> rfl
@[simp] theorem nan_div (x : X ℝ) : (nan : X ℝ) / x = nan := by cases x <;> rfl
@[simp] theorem div_nan (x : X ℝ) : x / (nan : X ℝ) = nan := by cases x <;> rfl

@[simp] theorem fin_mul_fin : (fin a : X ℝ) * fin b = fin (a * b) := rfl
theorem fin_mul_pinf : (fin a : X ℝ) * pinf = sgnInf a := rfl
theorem pinf_mul_fin : (pinf : X ℝ) * fin b = sgnInf b := rfl
@[simp] theorem pinf_mul_pinf : (pinf : X ℝ) * pinf = pinf := rfl
@[simp] theorem pinf_div_pinf : (pinf : X ℝ) / pinf = nan := rfl
@[simp] theorem fin_div_pinf : (fin a : X ℝ) / pinf = fin 0 := rfl

theorem sgnInf_pos (h : 0 < a) : (sgnInf a : X ℝ) = pinf := by simp [sgnInf, h]
@[simp] theorem sgnInf_zero : (sgnInf (0:ℝ) : X ℝ) = nan := by simp [sgnInf]

theorem fin_div_fin (h : b ≠ 0) : (fin a : X ℝ) / fin b = fin (a / b) := by
  show X.div (fin a) (fin b) = _
  simp [X.div, h]

end PhononModel.X
