import PhononModel.Model.Displacement
import Mathlib.Tactic.Ring
import Mathlib.Tactic.Linarith

/-! Spec lemmas for the search loops of `Model/Displacement.lean`. -/
namespace PhononModel.Disp

theorem rot_one (d : V3) : M3.one.rot d = d := by
  cases d; simp [M3.rot, M3.one, V3.dot]

/-- `oneInner` answers `some` only after it has seen a non-zero determinant of `d` with two
of the rotated directions. -/
theorem oneInner_some (d : V3) : ∀ (rots : List V3) (i k : Nat), oneInner d rots i = some k →
    ∃ a ∈ rots, ∃ b ∈ rots, det3 d a b ≠ 0
  | [], _, _, h => by simp [oneInner] at h
  | ri :: rest, i, k, h => by
    unfold oneInner at h
    split at h
    · next hany =>
      obtain ⟨rj, hrj, hdet⟩ := List.any_eq_true.mp hany
      exact ⟨ri, List.mem_cons_self, rj, List.mem_cons_of_mem _ hrj, by simpa using hdet⟩
    · obtain ⟨a, ha, b, hb, hab⟩ := oneInner_some d rest (i + 1) k h
      exact ⟨a, List.mem_cons_of_mem _ ha, b, List.mem_cons_of_mem _ hb, hab⟩

/-- the index returned by `oneInner` is a valid position (offset by the start index) -/
theorem oneInner_lt (d : V3) : ∀ (rots : List V3) (i k : Nat), oneInner d rots i = some k →
    i ≤ k ∧ k < i + rots.length
  | [], _, _, h => by simp [oneInner] at h
  | ri :: rest, i, k, h => by
    unfold oneInner at h
    split at h
    · cases h; simp
    · have := oneInner_lt d rest (i + 1) k h
      simp only [List.length_cons]; omega

/-- conversely: if some pair (in list order) has a non-zero determinant, `oneInner` finds one. -/
theorem oneInner_none (d : V3) : ∀ (rots : List V3) (i : Nat), oneInner d rots i = none →
    ∀ a b, [a, b].Sublist rots → det3 d a b = 0
  | [], _, _, a, b, hs => by simp at hs
  | ri :: rest, i, h, a, b, hs => by
    unfold oneInner at h
    split at h
    · simp at h
    · next hany =>
      cases hs with
      | cons _ hs' => exact oneInner_none d rest (i + 1) h a b hs'
      | cons_cons _ hs' =>
        have hb : b ∈ rest := by simpa using hs'.subset
        have := List.any_eq_true.not.mp hany
        by_contra hne
        exact this ⟨b, hb, by simpa using hne⟩

theorem displacementOne_some {S : List M3} {dirs : List V3} {i : Nat} {d : V3}
    (h : displacementOne S dirs = some (i, d)) :
    d ∈ dirs ∧ i < S.length ∧ ∃ r₁ ∈ S, ∃ r₂ ∈ S, det3 d (r₁.rot d) (r₂.rot d) ≠ 0 := by
  unfold displacementOne at h
  obtain ⟨d', hd', hf⟩ := List.exists_of_findSome?_eq_some h
  simp only [Option.map_eq_some_iff, Prod.mk.injEq] at hf
  obtain ⟨k, hk, rfl, rfl⟩ := hf
  obtain ⟨a, ha, b, hb, hab⟩ := oneInner_some _ _ _ _ hk
  obtain ⟨r₁, hr₁, rfl⟩ := List.mem_map.mp ha
  obtain ⟨r₂, hr₂, rfl⟩ := List.mem_map.mp hb
  have hlt := (oneInner_lt _ _ _ _ hk).2
  simp only [List.length_map, Nat.zero_add] at hlt
  exact ⟨hd', hlt, r₁, hr₁, r₂, hr₂, hab⟩

theorem twoInner_some (d : V3) (dirs : List V3) : ∀ (S : List M3) (i k : Nat) (r : M3) (d2 : V3),
    twoInner d dirs S i = some (k, r, d2) →
    r ∈ S ∧ d2 ∈ dirs ∧ det3 d (r.rot d) d2 ≠ 0 ∧ S[k - i]? = some r ∧ i ≤ k
  | [], _, _, _, _, h => by simp [twoInner] at h
  | r' :: rest, i, k, r, d2, h => by
    unfold twoInner at h
    split at h
    · next d2' hfind =>
      simp only [Option.some.injEq, Prod.mk.injEq] at h
      obtain ⟨rfl, rfl, rfl⟩ := h
      have hp := List.find?_some hfind
      exact ⟨List.mem_cons_self, List.mem_of_find?_eq_some hfind, by simpa using hp, by simp, Nat.le_refl _⟩
    · obtain ⟨h1, h2, h3, h4, h5⟩ := twoInner_some d dirs rest (i + 1) k r d2 h
      refine ⟨List.mem_cons_of_mem _ h1, h2, h3, ?_, by omega⟩
      have : k - i = (k - (i + 1)) + 1 := by omega
      rw [this, List.getElem?_cons_succ]; exact h4

theorem displacementTwo_some {S : List M3} {dirs : List V3} {i : Nat} {r : M3} {d d2 : V3}
    (h : displacementTwo S dirs = some (i, r, d, d2)) :
    d ∈ dirs ∧ d2 ∈ dirs ∧ r ∈ S ∧ S[i]? = some r ∧ det3 d (r.rot d) d2 ≠ 0 := by
  unfold displacementTwo at h
  obtain ⟨d', hd', hf⟩ := List.exists_of_findSome?_eq_some h
  simp only [Option.map_eq_some_iff, Prod.mk.injEq] at hf
  obtain ⟨⟨k, r', d2'⟩, hk, rfl, rfl, rfl, rfl⟩ := hf
  obtain ⟨h1, h2, h3, h4, _⟩ := twoInner_some _ _ _ _ _ _ _ hk
  exact ⟨hd', h2, h1, by simpa using h4, h3⟩

theorem mem_images {S : List M3} {D : List V3} {v : V3} :
    v ∈ images S D ↔ ∃ d ∈ D, ∃ r ∈ S, r.rot d = v := by
  simp [images, List.mem_flatMap, List.mem_map]

theorem self_mem_images {S : List M3} (hI : M3.one ∈ S) {D : List V3} {d : V3} (hd : d ∈ D) :
    d ∈ images S D := mem_images.mpr ⟨d, hd, M3.one, hI, rot_one d⟩

theorem Rank3.mono {L L' : List V3} (h : ∀ v ∈ L, v ∈ L') : Rank3 L → Rank3 L'
  | ⟨a, ha, b, hb, c, hc, hd⟩ => ⟨a, h a ha, b, h b hb, c, h c hc, hd⟩

theorem images_mono {S : List M3} {D D' : List V3} (h : ∀ d ∈ D, d ∈ D') :
    ∀ v ∈ images S D, v ∈ images S D' := by
  intro v hv
  obtain ⟨d, hd, r, hr, e⟩ := mem_images.mp hv
  exact mem_images.mpr ⟨d, h d hd, r, hr, e⟩

/-- the three return paths of `get_displacement`, for every list of integer matrices containing
the identity and every table whose first three rows are independent. -/
theorem getDisplacement_sufficient (S : List M3) (hI : M3.one ∈ S) (dirs : List V3)
    (a b c : V3) (rest : List V3) (hdirs : dirs = a :: b :: c :: rest) (h3 : det3 a b c ≠ 0)
    (isTrigonal : Bool) :
    ∃ D, getDisplacement S dirs isTrigonal = some D ∧ Rank3 (images S D) := by
  unfold getDisplacement
  split
  · -- path one
    next i d h1 =>
    obtain ⟨hd, _, r₁, hr₁, r₂, hr₂, hdet⟩ := displacementOne_some h1
    exact ⟨[d], rfl, ⟨d, self_mem_images hI (by simp), r₁.rot d, mem_images.mpr ⟨d, by simp, r₁, hr₁, rfl⟩,
      r₂.rot d, mem_images.mpr ⟨d, by simp, r₂, hr₂, rfl⟩, hdet⟩⟩
  · split
    · -- path two
      next i r d d2 h2 =>
      obtain ⟨hd, hd2, hr, _, hdet⟩ := displacementTwo_some h2
      have key : ∀ D : List V3, d ∈ D → d2 ∈ D → Rank3 (images S D) := fun D h h' =>
        ⟨d, self_mem_images hI h, r.rot d, mem_images.mpr ⟨d, h, r, hr, rfl⟩, d2, self_mem_images hI h', hdet⟩
      split
      · exact ⟨_, rfl, key _ (by simp) (by simp)⟩
      · exact ⟨_, rfl, key _ (by simp) (by simp)⟩
    · -- path three
      subst hdirs
      exact ⟨[a, b, c], rfl, ⟨a, self_mem_images hI (by simp), b, self_mem_images hI (by simp), c,
        self_mem_images hI (by simp), h3⟩⟩

theorem needsMinus_false {d : V3} {S : List M3} (h : needsMinus d S = false) :
    ∃ r ∈ S, r.rot d = d.neg := by
  unfold needsMinus at h
  have : ¬ (S.all fun r => (r.rot d).add d != V3.zero) = true := by simp [h]
  rw [List.all_eq_true] at this
  simp only [not_forall] at this
  obtain ⟨r, hr, hz⟩ := this
  refine ⟨r, hr, ?_⟩
  have hz' : (r.rot d).add d = V3.zero := by simpa using hz
  generalize r.rot d = w at hz'
  cases w; cases d
  simp only [V3.add, V3.zero, V3.mk.injEq] at hz'
  simp only [V3.neg, V3.mk.injEq]
  omega

theorem needsMinus_true {d : V3} {S : List M3} (h : needsMinus d S = true) :
    ∀ r ∈ S, r.rot d ≠ d.neg := by
  unfold needsMinus at h
  rw [List.all_eq_true] at h
  intro r hr heq
  have := h r hr
  rw [heq] at this
  cases d
  simp [V3.add, V3.neg, V3.zero] at this

end PhononModel.Disp
