import PhononModel.Lemmas.GridList
import Mathlib.Data.Rat.Defs
import Mathlib.Algebra.Order.Field.Rat
import Mathlib.Tactic.FieldSimp
import Mathlib.Tactic.LinearCombination
import Mathlib.Tactic.Ring
import Mathlib.Tactic.Linarith
import Mathlib.Tactic.Positivity
import Mathlib.Tactic.Push

/-! Arithmetic of grid indices / doubled addresses: what a valid image is (C09). -/
set_option linter.unusedVariables false
namespace PhononModel.Grid

/-! ### index ↔ address -/

theorem decode (mx my p0 p1 p2 : Nat) (h0 : p0 < mx) (h1 : p1 < my) :
    (p0 + mx * (p1 + my * p2)) % mx = p0 ∧ (p0 + mx * (p1 + my * p2)) / mx % my = p1 ∧
    (p0 + mx * (p1 + my * p2)) / (mx * my) = p2 := by
  have hx : 0 < mx := by omega
  have hy : 0 < my := by omega
  have e1 : (p0 + mx * (p1 + my * p2)) / mx = p1 + my * p2 := by
    rw [Nat.add_mul_div_left _ _ hx, Nat.div_eq_of_lt h0, Nat.zero_add]
  refine ⟨?_, ?_, ?_⟩
  · rw [Nat.add_mul_mod_self_left, Nat.mod_eq_of_lt h0]
  · rw [e1, Nat.add_mul_mod_self_left, Nat.mod_eq_of_lt h1]
  · rw [← Nat.div_div_eq_div_mul, e1, Nat.add_mul_div_left _ _ hy, Nat.div_eq_of_lt h1, Nat.zero_add]

theorem encode (mx my i : Nat) : i % mx + mx * (i / mx % my + my * (i / (mx * my))) = i := by
  rw [← Nat.div_div_eq_div_mul, Nat.mod_add_div (i / mx) my, Nat.mod_add_div i mx]

theorem emod_toNat (a : Int) (m : Nat) (hm : 0 < m) :
    ((a % (m : Int)).toNat < m) ∧ (((a % (m : Int)).toNat : Int) = a - (m : Int) * (a / (m : Int))) := by
  have hpos : (0 : Int) < m := by exact_mod_cast hm
  have h0 := Int.emod_nonneg a (ne_of_gt hpos)
  have h1 := Int.emod_lt_of_pos a hpos
  refine ⟨?_, ?_⟩
  · have : ((a % (m : Int)).toNat : Int) < m := by rw [Int.toNat_of_nonneg h0]; exact h1
    exact_mod_cast this
  · rw [Int.toNat_of_nonneg h0, Int.emod_def]

theorem reduce1_eq (m a : Nat) : reduce1 m a = (a : Int) ∨ reduce1 m a = (a : Int) - (m : Int) := by
  unfold reduce1; split <;> simp

theorem Mesh.index_lt (G : Mesh) (hx : 0 < G.m.x) (hy : 0 < G.m.y) (hz : 0 < G.m.z) (a : IV) : G.index a < G.N := by
  unfold Mesh.index Mesh.N
  have h0 := (emod_toNat a.x G.m.x hx).1
  have h1 := (emod_toNat a.y G.m.y hy).1
  have h2 := (emod_toNat a.z G.m.z hz).1
  generalize (a.x % (G.m.x : Int)).toNat = p0 at *
  generalize (a.y % (G.m.y : Int)).toNat = p1 at *
  generalize (a.z % (G.m.z : Int)).toNat = p2 at *
  generalize G.m.x = mx at *
  generalize G.m.y = my at *
  generalize G.m.z = mz at *
  have e1 : p1 + my * p2 + 1 ≤ my * mz := by
    calc p1 + my * p2 + 1 ≤ my + my * p2 := by omega
      _ = my * (p2 + 1) := by ring
      _ ≤ my * mz := Nat.mul_le_mul_left _ (by omega)
  calc p0 + mx * (p1 + my * p2) < mx + mx * (p1 + my * p2) := by omega
    _ = mx * (p1 + my * p2 + 1) := by ring
    _ ≤ mx * (my * mz) := Nat.mul_le_mul_left _ e1
    _ = mx * my * mz := by ring

/-- the address of the grid point `index a` is `a` up to multiples of the mesh numbers -/
theorem Mesh.addr_index (G : Mesh) (hx : 0 < G.m.x) (hy : 0 < G.m.y) (hz : 0 < G.m.z) (a : IV) :
    ∃ t : IV, (G.addr (G.index a)).x = a.x + (G.m.x : Int) * t.x ∧ (G.addr (G.index a)).y = a.y + (G.m.y : Int) * t.y ∧
      (G.addr (G.index a)).z = a.z + (G.m.z : Int) * t.z := by
  obtain ⟨h0, c0⟩ := emod_toNat a.x G.m.x hx
  obtain ⟨h1, c1⟩ := emod_toNat a.y G.m.y hy
  obtain ⟨h2, c2⟩ := emod_toNat a.z G.m.z hz
  obtain ⟨d0, d1, d2⟩ := decode G.m.x G.m.y _ _ (a.z % (G.m.z : Int)).toNat h0 h1
  unfold Mesh.addr Mesh.index
  rw [d0, d1, d2]
  rcases reduce1_eq G.m.x (a.x % (G.m.x : Int)).toNat with e0 | e0 <;>
  rcases reduce1_eq G.m.y (a.y % (G.m.y : Int)).toNat with e1 | e1 <;>
  rcases reduce1_eq G.m.z (a.z % (G.m.z : Int)).toNat with e2 | e2 <;>
  rw [e0, e1, e2, c0, c1, c2]
  · exact ⟨⟨-(a.x / G.m.x), -(a.y / G.m.y), -(a.z / G.m.z)⟩, by ring, by ring, by ring⟩
  · exact ⟨⟨-(a.x / G.m.x), -(a.y / G.m.y), -(a.z / G.m.z) - 1⟩, by ring, by ring, by ring⟩
  · exact ⟨⟨-(a.x / G.m.x), -(a.y / G.m.y) - 1, -(a.z / G.m.z)⟩, by ring, by ring, by ring⟩
  · exact ⟨⟨-(a.x / G.m.x), -(a.y / G.m.y) - 1, -(a.z / G.m.z) - 1⟩, by ring, by ring, by ring⟩
  · exact ⟨⟨-(a.x / G.m.x) - 1, -(a.y / G.m.y), -(a.z / G.m.z)⟩, by ring, by ring, by ring⟩
  · exact ⟨⟨-(a.x / G.m.x) - 1, -(a.y / G.m.y), -(a.z / G.m.z) - 1⟩, by ring, by ring, by ring⟩
  · exact ⟨⟨-(a.x / G.m.x) - 1, -(a.y / G.m.y) - 1, -(a.z / G.m.z)⟩, by ring, by ring, by ring⟩
  · exact ⟨⟨-(a.x / G.m.x) - 1, -(a.y / G.m.y) - 1, -(a.z / G.m.z) - 1⟩, by ring, by ring, by ring⟩

/-! ### a valid image is the rotated q-point, modulo a reciprocal lattice vector -/

/-- one component of the statement, over ℚ -/
theorem comp_q (m w : ℚ) (hm : m ≠ 0) (hw : w ≠ 0) (mx my mz vx vy vz : ℚ) (hx : mx ≠ 0) (hy : my ≠ 0) (hz : mz ≠ 0)
    (hvx : mx * vx = m * w) (hvy : my * vy = m * w) (hvz : mz * vz = m * w)
    (adr a' d' s t R0 R1 R2 dx dy dz : ℚ)
    (E : w * d' = R0 * (dx * vx) + R1 * (dy * vy) + R2 * (dz * vz))
    (hA : adr = a' + m * t) (hP : d' - s = 2 * a') :
    (2 * adr + s) / (2 * m) = R0 * (dx / (2 * mx)) + R1 * (dy / (2 * my)) + R2 * (dz / (2 * mz)) + t := by
  have e1 : vx = m * w / mx := by field_simp; linarith
  have e2 : vy = m * w / my := by field_simp; linarith
  have e3 : vz = m * w / mz := by field_simp; linarith
  have hd : d' = (R0 * (dx * vx) + R1 * (dy * vy) + R2 * (dz * vz)) / w := by
    rw [eq_div_iff hw]; linarith
  have hd' : d' / m = R0 * (dx / mx) + R1 * (dy / my) + R2 * (dz / mz) := by
    rw [hd, e1, e2, e3]
    field_simp
  have e : (2 * adr + s) / (2 * m) = d' / m / 2 + t := by
    have h2 : 2 * adr + s = d' + 2 * m * t := by rw [hA]; linarith
    rw [h2]
    field_simp
  rw [e, hd']
  field_simp

theorem Mesh.N_pos (G : Mesh) (hx : 0 < G.m.x) (hy : 0 < G.m.y) (hz : 0 < G.m.z) : 0 < G.N := by
  unfold Mesh.N; positivity

theorem image_q_aux (G : Mesh) (hx : 0 < G.m.x) (hy : 0 < G.m.y) (hz : 0 < G.m.z) (R : M3) (i g : Nat) (d' a' t : IV)
    (Ex : G.div.x * d'.x = (R.mulVec ⟨(G.dbl i).x * G.div.x, (G.dbl i).y * G.div.y, (G.dbl i).z * G.div.z⟩).x)
    (Ey : G.div.y * d'.y = (R.mulVec ⟨(G.dbl i).x * G.div.x, (G.dbl i).y * G.div.y, (G.dbl i).z * G.div.z⟩).y)
    (Ez : G.div.z * d'.z = (R.mulVec ⟨(G.dbl i).x * G.div.x, (G.dbl i).y * G.div.y, (G.dbl i).z * G.div.z⟩).z)
    (Px : 2 * a'.x = d'.x - b2i G.s.x) (Py : 2 * a'.y = d'.y - b2i G.s.y) (Pz : 2 * a'.z = d'.z - b2i G.s.z)
    (tx : (G.addr g).x = a'.x + (G.m.x : Int) * t.x) (ty : (G.addr g).y = a'.y + (G.m.y : Int) * t.y)
    (tz : (G.addr g).z = a'.z + (G.m.z : Int) * t.z) :
    G.q g = (R.act (G.q i)).addInt t := by
  have hmx : (G.m.x : ℚ) ≠ 0 := by exact_mod_cast (ne_of_gt hx)
  have hmy : (G.m.y : ℚ) ≠ 0 := by exact_mod_cast (ne_of_gt hy)
  have hmz : (G.m.z : ℚ) ≠ 0 := by exact_mod_cast (ne_of_gt hz)
  have gx : (G.dbl g).x = 2 * (G.addr g).x + b2i G.s.x := rfl
  have gy : (G.dbl g).y = 2 * (G.addr g).y + b2i G.s.y := rfl
  have gz : (G.dbl g).z = 2 * (G.addr g).z + b2i G.s.z := rfl
  unfold Mesh.q V3.addInt M3.act
  simp only [V3.mk.injEq]
  rw [gx, gy, gz]
  simp only [Mesh.div, M3.mulVec, dot] at Ex Ey Ez
  generalize G.dbl i = d at *
  generalize G.addr g = adr at *
  have EX := congrArg (fun z : Int => (z : ℚ)) Ex
  have EY := congrArg (fun z : Int => (z : ℚ)) Ey
  have EZ := congrArg (fun z : Int => (z : ℚ)) Ez
  have PX := congrArg (fun z : Int => (z : ℚ)) Px
  have PY := congrArg (fun z : Int => (z : ℚ)) Py
  have PZ := congrArg (fun z : Int => (z : ℚ)) Pz
  have TX := congrArg (fun z : Int => (z : ℚ)) tx
  have TY := congrArg (fun z : Int => (z : ℚ)) ty
  have TZ := congrArg (fun z : Int => (z : ℚ)) tz
  push_cast at EX EY EZ PX PY PZ TX TY TZ ⊢
  refine ⟨?_, ?_, ?_⟩
  · exact comp_q (G.m.x : ℚ) ((G.m.y : ℚ) * G.m.z) hmx (mul_ne_zero hmy hmz) G.m.x G.m.y G.m.z
      ((G.m.y : ℚ) * G.m.z) ((G.m.z : ℚ) * G.m.x) ((G.m.x : ℚ) * G.m.y) hmx hmy hmz (by ring) (by ring) (by ring)
      _ _ _ _ _ _ _ _ _ _ _ EX TX (by linarith)
  · exact comp_q (G.m.y : ℚ) ((G.m.z : ℚ) * G.m.x) hmy (mul_ne_zero hmz hmx) G.m.x G.m.y G.m.z
      ((G.m.y : ℚ) * G.m.z) ((G.m.z : ℚ) * G.m.x) ((G.m.x : ℚ) * G.m.y) hmx hmy hmz (by ring) (by ring) (by ring)
      _ _ _ _ _ _ _ _ _ _ _ EY TY (by linarith)
  · exact comp_q (G.m.z : ℚ) ((G.m.x : ℚ) * G.m.y) hmz (mul_ne_zero hmx hmy) G.m.x G.m.y G.m.z
      ((G.m.y : ℚ) * G.m.z) ((G.m.z : ℚ) * G.m.x) ((G.m.x : ℚ) * G.m.y) hmx hmy hmz (by ring) (by ring) (by ring)
      _ _ _ _ _ _ _ _ _ _ _ EZ TZ (by linarith)

theorem image_spec (G : Mesh) (hx : 0 < G.m.x) (hy : 0 < G.m.y) (hz : 0 < G.m.z) (R : M3) (i g : Nat)
    (h : G.image R i = some g) : g < G.N ∧ ∃ n : IV, G.q g = (R.act (G.q i)).addInt n := by
  unfold Mesh.image at h
  rcases hr : G.rotDbl R i with _ | d'
  · rw [hr] at h; simp at h
  rw [hr] at h
  simp only [Option.map_some, Option.some.injEq] at h
  subst h
  refine ⟨G.index_lt hx hy hz _, ?_⟩
  -- unpack validity
  unfold Mesh.rotDbl at hr
  simp only at hr
  split at hr
  swap
  · simp at hr
  next hdiv =>
  split at hr
  swap
  · simp at hr
  next hpar =>
  simp only [Option.some.injEq] at hr
  obtain ⟨hd0, hd1, hd2⟩ := hdiv
  obtain ⟨hp0, hp1, hp2⟩ := hpar
  have Ex := Int.mul_ediv_cancel' (Int.dvd_of_emod_eq_zero hd0)
  have Ey := Int.mul_ediv_cancel' (Int.dvd_of_emod_eq_zero hd1)
  have Ez := Int.mul_ediv_cancel' (Int.dvd_of_emod_eq_zero hd2)
  have Px := Int.mul_ediv_cancel' (Int.dvd_of_emod_eq_zero hp0)
  have Py := Int.mul_ediv_cancel' (Int.dvd_of_emod_eq_zero hp1)
  have Pz := Int.mul_ediv_cancel' (Int.dvd_of_emod_eq_zero hp2)
  subst hr
  obtain ⟨t, tx, ty, tz⟩ := G.addr_index hx hy hz
    ⟨((R.mulVec ⟨(G.dbl i).x * G.div.x, (G.dbl i).y * G.div.y, (G.dbl i).z * G.div.z⟩).x / G.div.x - b2i G.s.x) / 2,
     ((R.mulVec ⟨(G.dbl i).x * G.div.x, (G.dbl i).y * G.div.y, (G.dbl i).z * G.div.z⟩).y / G.div.y - b2i G.s.y) / 2,
     ((R.mulVec ⟨(G.dbl i).x * G.div.x, (G.dbl i).y * G.div.y, (G.dbl i).z * G.div.z⟩).z / G.div.z - b2i G.s.z) / 2⟩
  exact ⟨t, image_q_aux G hx hy hz R i _
    ⟨(R.mulVec ⟨(G.dbl i).x * G.div.x, (G.dbl i).y * G.div.y, (G.dbl i).z * G.div.z⟩).x / G.div.x,
     (R.mulVec ⟨(G.dbl i).x * G.div.x, (G.dbl i).y * G.div.y, (G.dbl i).z * G.div.z⟩).y / G.div.y,
     (R.mulVec ⟨(G.dbl i).x * G.div.x, (G.dbl i).y * G.div.y, (G.dbl i).z * G.div.z⟩).z / G.div.z⟩
    ⟨((R.mulVec ⟨(G.dbl i).x * G.div.x, (G.dbl i).y * G.div.y, (G.dbl i).z * G.div.z⟩).x / G.div.x - b2i G.s.x) / 2,
     ((R.mulVec ⟨(G.dbl i).x * G.div.x, (G.dbl i).y * G.div.y, (G.dbl i).z * G.div.z⟩).y / G.div.y - b2i G.s.y) / 2,
     ((R.mulVec ⟨(G.dbl i).x * G.div.x, (G.dbl i).y * G.div.y, (G.dbl i).z * G.div.z⟩).z / G.div.z - b2i G.s.z) / 2⟩
    t Ex Ey Ez Px Py Pz tx ty tz⟩

end PhononModel.Grid
