import PhononModel.Lemmas.Cx
import Mathlib.Algebra.BigOperators.Group.Finset.Basic
import Mathlib.Logic.Equiv.Fintype
import Mathlib.Data.Fintype.Card
import Mathlib.Tactic.Ring
import Mathlib.Tactic.LinearCombination
import Mathlib.Tactic.Linarith

/-!
Character orthogonality — the engine of the round trips (C06) and of the commensurate no-op (C08).
-/
set_option linter.unusedSectionVars false
namespace PhononModel.C06
open Finset

variable {K : Type} [Field K]

/-- a faithful unitary character of `ℤ/Nd`: `z t = ζ^t`, `ζ` a primitive `Nd`-th root of unity
(what `t ↦ exp(2πi t/Nd)` is). -/
structure Zeta (K : Type) [Field K] (Nd : Int) where
  z : Int → Cx K
  z_add : ∀ a b, z (a + b) = z a * z b
  z_zero : z 0 = 1
  z_period : z Nd = 1
  z_unit : ∀ a, (z a).conj * z a = 1
  faithful : ∀ t, z t = 1 → Nd ∣ t

namespace Zeta
variable {Nd : Int} (Z : Zeta K Nd)

theorem z_mul_period (a : Int) (k : Int) : Z.z (a + k * Nd) = Z.z a := by
  induction k using Int.induction_on with
  | zero => simp
  | succ k ih =>
    have : a + (↑k + 1) * Nd = (a + ↑k * Nd) + Nd := by ring
    rw [this, Z.z_add, ih, Z.z_period, mul_one]
  | pred k ih =>
    have h : a + (-↑k) * Nd = (a + (-↑k - 1) * Nd) + Nd := by ring
    rw [h, Z.z_add, Z.z_period, mul_one] at ih
    exact ih

theorem congr {a b : Int} (h : Nd ∣ a - b) : Z.z a = Z.z b := by
  obtain ⟨k, hk⟩ := h
  have : a = b + k * Nd := by linarith [hk, mul_comm Nd k]
  rw [this, Z.z_mul_period]

theorem z_neg (a : Int) : Z.z (-a) = (Z.z a).conj := by
  have h1 : Z.z (-a) * Z.z a = 1 := by rw [← Z.z_add]; simp [Z.z_zero]
  have h2 := Z.z_unit a
  calc Z.z (-a) = Z.z (-a) * ((Z.z a).conj * Z.z a) := by rw [h2, mul_one]
    _ = (Z.z a).conj * (Z.z (-a) * Z.z a) := by ring
    _ = (Z.z a).conj := by rw [h1, mul_one]

theorem z_sub (a b : Int) : Z.z (a - b) = Z.z a * (Z.z b).conj := by
  rw [sub_eq_add_neg, Z.z_add, Z.z_neg]

theorem z_of_dvd {t : Int} (h : Nd ∣ t) : Z.z t = 1 := by
  have := Z.congr (a := t) (b := 0) (by simpa using h)
  rw [this, Z.z_zero]

variable [LinearOrder K] [IsStrictOrderedRing K]

/-- a bijection of the index set that shifts the exponent by a non-trivial amount kills the sum -/
theorem sum_zero {ι : Type} [Fintype ι] (t : ι → Int) (σ : ι ≃ ι) (t0 : Int)
    (hσ : ∀ i, Nd ∣ t (σ i) - (t i + t0)) (h0 : ¬ Nd ∣ t0) : ∑ i, Z.z (t i) = 0 := by
  have h1 : ∑ i, Z.z (t i) = Z.z t0 * ∑ i, Z.z (t i) := by
    calc ∑ i, Z.z (t i) = ∑ i, Z.z (t (σ i)) := (Equiv.sum_comp σ _).symm
      _ = ∑ i, Z.z t0 * Z.z (t i) := by
          apply Finset.sum_congr rfl; intro i _
          rw [Z.congr (hσ i), Z.z_add, mul_comm]
      _ = _ := by rw [Finset.mul_sum]
  have h2 : (1 - Z.z t0) * ∑ i, Z.z (t i) = 0 := by linear_combination h1
  have hne : (1 - Z.z t0) ≠ 0 := by
    intro h
    exact h0 (Z.faithful t0 (by linear_combination -h))
  exact Cx.eq_zero_of_mul_eq_zero hne h2

end Zeta

/-! ### the integer certificate, as propositions -/

def P3.Dvd (n : Int) (a : P3) : Prop := n ∣ a.1 ∧ n ∣ a.2.1 ∧ n ∣ a.2.2

instance (n : Int) (a : P3) : Decidable (P3.Dvd n a) := by unfold P3.Dvd; infer_instance

theorem P3.Dvd.dot {n : Int} {a : P3} (h : P3.Dvd n a) (v : P3) : n ∣ a.dot v := by
  obtain ⟨h1, h2, h3⟩ := h
  unfold P3.dot
  exact Dvd.dvd.add (Dvd.dvd.add (Dvd.dvd.mul_right h1 _) (Dvd.dvd.mul_right h2 _)) (Dvd.dvd.mul_right h3 _)

theorem P3.mod_eq_iff {n : Int} {a b : P3} : a.mod n = b.mod n ↔ P3.Dvd n (a.sub b) := by
  obtain ⟨a1, a2, a3⟩ := a
  obtain ⟨b1, b2, b3⟩ := b
  simp only [P3.mod, P3.sub, P3.Dvd, Prod.mk.injEq, Int.emod_eq_emod_iff_emod_sub_eq_zero, Int.dvd_iff_emod_eq_zero]

theorem P3.dot_sub (a b v : P3) : (a.sub b).dot v = a.dot v - b.dot v := by
  simp only [P3.dot, P3.sub]; ring
theorem P3.dot_add (a b v : P3) : (a.add b).dot v = a.dot v + b.dot v := by
  simp only [P3.dot, P3.add]; ring
theorem P3.dot_sub_right (a v w : P3) : a.dot (v.sub w) = a.dot v - a.dot w := by
  simp only [P3.dot, P3.sub]; ring

structure Lat.WF {np ns N : Nat} (L : Lat np ns N) : Prop where
  Nd_pos : 0 < L.Nd
  base_mem : ∀ j, L.s2pp (L.base j) = j
  count : ∀ j, ((List.finRange ns).filter fun k => L.s2pp k == j).length = N
  q_distinct : ∀ q q', q ≠ q' → ¬ P3.Dvd L.Nd ((L.kq q).sub (L.kq q'))
  q_add : ∀ q q', ∃ q'', P3.Dvd L.Nd ((L.kq q'').sub ((L.kq q).add (L.kq q')))
  q_neg : ∀ q, ∃ q', P3.Dvd L.Nd ((L.kq q).add (L.kq q'))
  k_sep : ∀ k k', k ≠ k' → L.s2pp k = L.s2pp k' → ∃ q, ¬ L.Nd ∣ L.ex q k - L.ex q k'
  k_trans : ∀ k t, L.s2pp k = L.s2pp t → ∃ k', L.s2pp k' = L.s2pp k ∧ ∀ q, L.Nd ∣ L.rel q k' - L.rel q k - L.rel q t
  q_sep : ∀ q q', q ≠ q' → ∀ j, ∃ t, L.s2pp t = j ∧ ¬ L.Nd ∣ L.rel q t - L.rel q' t

theorem Lat.wf_sound {np ns N : Nat} (L : Lat np ns N) (h : L.wf = true) : L.WF := by
  simp only [Lat.wf, Bool.and_eq_true, List.all_eq_true, List.any_eq_true, List.mem_finRange, true_and,
    forall_const, decide_eq_true_eq, beq_iff_eq, Bool.or_eq_true, bne_iff_ne, ne_eq] at h
  obtain ⟨⟨⟨⟨⟨⟨⟨⟨h1, h2⟩, h3⟩, h4⟩, h5⟩, h6⟩, h7⟩, h8⟩, h9⟩ := h
  refine ⟨h1, h2, h3, ?_, ?_, ?_, ?_, ?_, ?_⟩
  · intro q q' hne hd
    rcases h4 q q' with h | h
    · exact hne h
    · exact h (P3.mod_eq_iff.mpr hd)
  · intro q q'
    obtain ⟨q'', hq⟩ := h5 q q'
    exact ⟨q'', P3.mod_eq_iff.mp hq⟩
  · intro q
    obtain ⟨q', hq⟩ := h6 q
    refine ⟨q', ?_⟩
    simp only [P3.mod, Prod.mk.injEq] at hq
    exact ⟨Int.dvd_iff_emod_eq_zero.mpr hq.1, Int.dvd_iff_emod_eq_zero.mpr hq.2.1, Int.dvd_iff_emod_eq_zero.mpr hq.2.2⟩
  · intro k k' hne hs
    rcases h7 k k' with (h | h) | h
    · exact absurd h hne
    · exact absurd hs h
    · obtain ⟨q, hq⟩ := h
      exact ⟨q, fun hd => hq (Int.dvd_iff_emod_eq_zero.mp hd)⟩
  · intro k t hs
    rcases h8 k t with h | h
    · exact absurd hs h
    · obtain ⟨k', hk1, hk2⟩ := h
      exact ⟨k', hk1, fun q => Int.dvd_iff_emod_eq_zero.mpr (hk2 q)⟩
  · intro q q' hne j
    rcases h9 q q' with h | h
    · exact absurd h hne
    · obtain ⟨t, ht1, ht2⟩ := h j
      exact ⟨t, ht1, fun hd => ht2 (Int.dvd_iff_emod_eq_zero.mp hd)⟩

theorem P3.Dvd.sub' {n : Int} {a b : P3} (ha : P3.Dvd n a) (hb : P3.Dvd n b) : P3.Dvd n (a.sub b) :=
  ⟨Int.dvd_sub ha.1 hb.1, Int.dvd_sub ha.2.1 hb.2.1, Int.dvd_sub ha.2.2 hb.2.2⟩

theorem P3.ext3 {a b : P3} (h1 : a.1 = b.1) (h2 : a.2.1 = b.2.1) (h3 : a.2.2 = b.2.2) : a = b :=
  Prod.ext h1 (Prod.ext h2 h3)

section orth
variable [LinearOrder K] [IsStrictOrderedRing K]
variable {np ns N : Nat} {L : Lat np ns N}

/-- the shift of the q-index by a member of the list, as a permutation -/
theorem Lat.WF.exists_shift (h : L.WF) (q0 : Fin N) :
    ∃ σ : Fin N ≃ Fin N, ∀ q, P3.Dvd L.Nd ((L.kq (σ q)).sub ((L.kq q).add (L.kq q0))) := by
  classical
  let f : Fin N → Fin N := fun q => Classical.choose (h.q_add q q0)
  have hf : ∀ q, P3.Dvd L.Nd ((L.kq (f q)).sub ((L.kq q).add (L.kq q0))) := fun q => Classical.choose_spec (h.q_add q q0)
  have inj : Function.Injective f := by
    intro q1 q2 he
    by_contra hne
    apply h.q_distinct q1 q2 hne
    have h1 := hf q1
    have h2 := hf q2
    rw [he] at h1
    have := P3.Dvd.sub' h2 h1
    have e : ((L.kq (f q2)).sub ((L.kq q2).add (L.kq q0))).sub ((L.kq (f q2)).sub ((L.kq q1).add (L.kq q0)))
        = (L.kq q1).sub (L.kq q2) := by
      apply P3.ext3 <;> simp only [P3.sub, P3.add] <;> ring
    rw [e] at this
    exact this
  exact ⟨Equiv.ofBijective f (Finite.injective_iff_bijective.mp inj), hf⟩

/-- **character orthogonality** over the commensurate points: `Σ_q ζ^(κ_q·n)` is `N` when `n` is
orthogonal (mod `Nd`) to every point, else `0`. -/
theorem Lat.WF.char_orth (h : L.WF) (Z : Zeta K L.Nd) (n : P3) :
    ∑ q, Z.z ((L.kq q).dot n) = if ∀ q, L.Nd ∣ (L.kq q).dot n then (N : Cx K) else 0 := by
  split
  · next hall =>
    rw [Finset.sum_congr rfl (fun q _ => Z.z_of_dvd (hall q))]
    simp
  · next hne =>
    push Not at hne
    obtain ⟨q0, hq0⟩ := hne
    obtain ⟨σ, hσ⟩ := h.exists_shift q0
    apply Z.sum_zero (fun q => (L.kq q).dot n) σ ((L.kq q0).dot n) _ hq0
    intro q
    have := (hσ q).dot n
    rw [P3.dot_sub, P3.dot_add] at this
    exact this

/-- column orthogonality: two atoms of one sublattice -/
theorem Lat.WF.col_orth (h : L.WF) (Z : Zeta K L.Nd) (k k' : Fin ns) (hs : L.s2pp k = L.s2pp k') :
    ∑ q, Z.z (L.ex q k - L.ex q k') = if k = k' then (N : Cx K) else 0 := by
  have e : ∀ q, L.ex q k - L.ex q k' = (L.kq q).dot ((L.R k).sub (L.R k')) := by
    intro q; rw [P3.dot_sub_right]; rfl
  simp only [e]
  rw [h.char_orth Z]
  by_cases hk : k = k'
  · subst hk
    simp [P3.dot_sub_right]
  · rw [if_neg hk, if_neg]
    intro hall
    obtain ⟨q, hq⟩ := h.k_sep k k' hk hs
    apply hq
    rw [e]; exact hall q

theorem Lat.rel_sub_same (L : Lat np ns N) (q : Fin N) {k k' : Fin ns} (hs : L.s2pp k = L.s2pp k') :
    L.rel q k - L.rel q k' = L.ex q k - L.ex q k' := by
  unfold Lat.rel; rw [hs]; ring

/-- the translation of a sublattice by one of its atoms, as a permutation of the sublattice -/
theorem Lat.WF.exists_trans (h : L.WF) (j : Fin np) (t : Fin ns) (ht : L.s2pp t = j) :
    ∃ σ : {k : Fin ns // L.s2pp k = j} ≃ {k : Fin ns // L.s2pp k = j},
      ∀ k q, L.Nd ∣ L.rel q (σ k).1 - L.rel q k.1 - L.rel q t := by
  classical
  have ex : ∀ k : {k : Fin ns // L.s2pp k = j}, ∃ k' : {k : Fin ns // L.s2pp k = j},
      ∀ q, L.Nd ∣ L.rel q k'.1 - L.rel q k.1 - L.rel q t := by
    intro k
    obtain ⟨k', hk1, hk2⟩ := h.k_trans k.1 t (by rw [k.2, ht])
    exact ⟨⟨k', by rw [hk1, k.2]⟩, hk2⟩
  let f : {k : Fin ns // L.s2pp k = j} → {k : Fin ns // L.s2pp k = j} := fun k => Classical.choose (ex k)
  have hf : ∀ k q, L.Nd ∣ L.rel q (f k).1 - L.rel q k.1 - L.rel q t := fun k => Classical.choose_spec (ex k)
  have inj : Function.Injective f := by
    intro k1 k2 he
    by_contra hne
    have hne' : k1.1 ≠ k2.1 := fun e => hne (Subtype.ext e)
    obtain ⟨q, hq⟩ := h.k_sep k1.1 k2.1 hne' (by rw [k1.2, k2.2])
    apply hq
    have h1 := hf k1 q
    have h2 := hf k2 q
    rw [he] at h1
    have := Int.dvd_sub h2 h1
    rw [← L.rel_sub_same q (by rw [k1.2, k2.2] : L.s2pp k1.1 = L.s2pp k2.1)]
    have e : L.rel q (f k2).1 - L.rel q k2.1 - L.rel q t - (L.rel q (f k2).1 - L.rel q k1.1 - L.rel q t)
        = L.rel q k1.1 - L.rel q k2.1 := by ring
    rw [e] at this
    exact this
  exact ⟨Equiv.ofBijective f (Finite.injective_iff_bijective.mp inj), hf⟩

theorem Lat.WF.card_sub (h : L.WF) (j : Fin np) :
    (Finset.univ.filter fun k : Fin ns => L.s2pp k = j).card = N := by
  refine Eq.trans ?_ (h.count j)
  simp only [Finset.card, Finset.filter, Fin.univ_def, Multiset.filter_coe, Multiset.coe_card]
  congr 1

/-- row orthogonality: two q-points, summed over the atoms of one sublattice -/
theorem Lat.WF.row_orth (h : L.WF) (Z : Zeta K L.Nd) (q q' : Fin N) (j : Fin np) :
    ∑ k : {k : Fin ns // L.s2pp k = j}, Z.z (L.rel q k.1 - L.rel q' k.1) = if q = q' then (N : Cx K) else 0 := by
  by_cases hq : q = q'
  · subst hq
    simp only [sub_self, Z.z_zero, if_true, Finset.sum_const, Finset.card_univ, nsmul_eq_mul, mul_one]
    rw [Fintype.card_subtype, h.card_sub j]
  · rw [if_neg hq]
    obtain ⟨t, ht1, ht2⟩ := h.q_sep q q' hq j
    obtain ⟨σ, hσ⟩ := h.exists_trans j t ht1
    apply Z.sum_zero (fun k => L.rel q k.1 - L.rel q' k.1) σ (L.rel q t - L.rel q' t) _ ht2
    intro k
    have := Int.dvd_sub (hσ k q) (hσ k q')
    have e : L.rel q (σ k).1 - L.rel q k.1 - L.rel q t - (L.rel q' (σ k).1 - L.rel q' k.1 - L.rel q' t)
        = L.rel q (σ k).1 - L.rel q' (σ k).1 - (L.rel q k.1 - L.rel q' k.1 + (L.rel q t - L.rel q' t)) := by ring
    rw [e] at this
    exact this

end orth

end PhononModel.C06
