import PhononModel.Model.SNF
import PhononModel.Lemmas.Mat3
import Mathlib.Tactic.Ring
import Mathlib.Tactic.LinearCombination
import Mathlib.Tactic.Linarith
import Mathlib.Tactic.FinCases
import Mathlib.Algebra.Order.Ring.Int
/-!
Lemmas about `Model/SNF.lean`: the Bezout / gcd invariants of `Xgcd`, determinants of the
elementary matrices, the invariants `A = P·A₀·Q` and unimodularity through every routine.
-/
set_option linter.unusedSectionVars false
namespace PhononModel.SNF
open PhononModel

/-! ### Xgcd -/

/-- what one `_step` does when the divisor is not zero: a Euclid step with *some* quotient -/
theorem xgcdStep_spec (x : XS) (h : x.r1 ≠ 0) :
    ∃ q : Int, xgcdStep x =
      { r0 := x.r1, r1 := x.r0 - q * x.r1, s0 := x.s1, s1 := x.s0 - q * x.s1, t0 := x.t1, t1 := x.t0 - q * x.t1 } := by
  have hm : pyMod x.r0 x.r1 = x.r0 - x.r1 * pyDiv x.r0 x.r1 := by
    simp only [pyMod, pyDiv, if_neg h]; exact Int.fmod_def _ _
  unfold xgcdStep
  simp only
  by_cases hneg : pyMod x.r0 x.r1 < 0
  · simp only [if_pos hneg]
    by_cases hp : x.r1 > 0
    · have hn : ¬ x.r1 < 0 := by omega
      simp only [if_pos hp, if_neg hn]
      refine ⟨pyDiv x.r0 x.r1 - 1, ?_⟩
      congr 1; rw [hm]; ring
    · have hn : x.r1 < 0 := by omega
      simp only [if_neg hp, if_pos hn]
      refine ⟨pyDiv x.r0 x.r1 + 1, ?_⟩
      congr 1; rw [hm]; ring
  · simp only [if_neg hneg]
    refine ⟨pyDiv x.r0 x.r1, ?_⟩
    congr 1; rw [hm]; ring

theorem xgcdStep_zero (x : XS) (h : x.r1 = 0) : (xgcdStep x).r1 = 0 := by
  unfold xgcdStep; simp [pyMod, pyDiv, h]

theorem xgcdStep_r0 (x : XS) : (xgcdStep x).r0 = x.r1 ∧ (xgcdStep x).s0 = x.s1 ∧ (xgcdStep x).t0 = x.t1 := by
  unfold xgcdStep; simp

/-- Bezout invariant -/
def XInv (a b : Int) (x : XS) : Prop := x.r0 = a * x.s0 + b * x.t0 ∧ x.r1 = a * x.s1 + b * x.t1

theorem xgcdStep_inv (a b : Int) (x : XS) (h : x.r1 ≠ 0) (hx : XInv a b x) : XInv a b (xgcdStep x) := by
  obtain ⟨q, hq⟩ := xgcdStep_spec x h
  rw [hq]; obtain ⟨h0, h1⟩ := hx
  refine ⟨h1, ?_⟩
  simp only; rw [h0, h1]; ring

theorem xgcdLoop_bezout (a b : Int) : ∀ (n : Nat) (x : XS), XInv a b x →
    (xgcdLoop n x).r0 = a * (xgcdLoop n x).s0 + b * (xgcdLoop n x).t0
  | 0, x, hx => hx.1
  | n+1, x, hx => by
    simp only [xgcdLoop]
    by_cases h1 : x.r1 = 0
    · rw [if_pos (xgcdStep_zero x h1)]
      obtain ⟨e0, e1, e2⟩ := xgcdStep_r0 x
      rw [e0, e1, e2]; exact hx.2
    · have hs := xgcdStep_inv a b x h1 hx
      split
      · exact hs.1
      · exact xgcdLoop_bezout a b n _ hs

theorem xgcdInit_inv (a b : Int) : XInv a b (xgcdInit a b) := by
  simp [XInv, xgcdInit]

/-- gcd invariant -/
theorem xgcdStep_gcd (x : XS) (h : x.r1 ≠ 0) :
    Int.gcd (xgcdStep x).r0 (xgcdStep x).r1 = Int.gcd x.r0 x.r1 := by
  obtain ⟨q, hq⟩ := xgcdStep_spec x h
  rw [hq]; simp only
  rw [Int.gcd_sub_mul_right_right, Int.gcd_comm]

theorem xgcdLoop_gcd : ∀ (n : Nat) (x : XS), x.r1 ≠ 0 → (xgcdLoop n x).r1 = 0 →
    (xgcdLoop n x).r0.natAbs = Int.gcd x.r0 x.r1
  | 0, x, h, h0 => absurd h0 h
  | n+1, x, h, h0 => by
    simp only [xgcdLoop] at h0 ⊢
    have hg := xgcdStep_gcd x h
    split
    · next hz => rw [← hg, hz]; simp
    · next hz =>
      rw [if_neg hz] at h0
      rw [xgcdLoop_gcd n _ hz h0, hg]

end PhononModel.SNF

namespace PhononModel.SNF
open PhononModel

theorem xgcd_bezout' (a b : Int) : (xgcd a b).r = a * (xgcd a b).s + b * (xgcd a b).t :=
  xgcdLoop_bezout a b 1000 _ (xgcdInit_inv a b)

theorem xgcd_natAbs (a b : Int) (hb : b ≠ 0) (hd : (xgcd a b).done = true) :
    (xgcd a b).r.natAbs = Int.gcd a b := by
  have : (xgcdLoop 1000 (xgcdInit a b)).r1 = 0 := by simpa [xgcd, xgcdFuel] using hd
  exact xgcdLoop_gcd 1000 (xgcdInit a b) hb this

theorem xgcd_facts (a b : Int) (hb : b ≠ 0) (hd : (xgcd a b).done = true) :
    (xgcd a b).r ≠ 0 ∧ (xgcd a b).r ∣ a ∧ (xgcd a b).r ∣ b := by
  have h := xgcd_natAbs a b hb hd
  refine ⟨?_, ?_, ?_⟩
  · intro h0; rw [h0] at h; exact Int.gcd_ne_zero_right hb h.symm
  · apply Int.natAbs_dvd.mp; rw [h]; exact Int.gcd_dvd_left a b
  · apply Int.natAbs_dvd.mp; rw [h]; exact Int.gcd_dvd_right a b

/-! ### elementary matrices -/

theorem swapL_det_sq : ∀ i j : Fin 3, (swapL i j).det * (swapL i j).det = 1 := by decide
theorem flipL_det_sq : ∀ i : Fin 3, (flipL i).det * (flipL i).det = 1 := by decide
theorem disturbL_det : ∀ i j : Fin 3, i ≠ j → (disturbL i j).det = 1 := by decide

theorem setZeroL_01 (a b r s t : Int) : setZeroL 0 1 a b r s t = ⟨s, t, 0, pyDiv (-b) r, pyDiv a r, 0, 0, 0, 1⟩ := by
  simp [setZeroL, SNF.set, M3.ofFn, eye, M3.one, M3.get]
theorem setZeroL_02 (a b r s t : Int) : setZeroL 0 2 a b r s t = ⟨s, 0, t, 0, 1, 0, pyDiv (-b) r, 0, pyDiv a r⟩ := by
  simp [setZeroL, SNF.set, M3.ofFn, eye, M3.one, M3.get]
theorem setZeroL_12 (a b r s t : Int) : setZeroL 1 2 a b r s t = ⟨1, 0, 0, 0, s, t, 0, pyDiv (-b) r, pyDiv a r⟩ := by
  simp [setZeroL, SNF.set, M3.ofFn, eye, M3.one, M3.get]

/-- exact quotients: `a = r·a'`, `b = r·b'`, `r = a s + b t`, `r ≠ 0` ⟹ `s a' + t b' = 1` -/
theorem bezout_quot {a b r s t : Int} (hr : r ≠ 0) (ha : r ∣ a) (hb : r ∣ b) (hz : r = a * s + b * t) :
    pyDiv a r = a / r ∧ pyDiv (-b) r = -(b / r) ∧ s * (a / r) + t * (b / r) = 1 ∧ a = r * (a / r) ∧ b = r * (b / r) := by
  obtain ⟨a', rfl⟩ := ha
  obtain ⟨b', rfl⟩ := hb
  have e1 : r * a' / r = a' := Int.mul_ediv_cancel_left _ hr
  have e2 : r * b' / r = b' := Int.mul_ediv_cancel_left _ hr
  refine ⟨?_, ?_, ?_, ?_, ?_⟩
  · simp only [pyDiv, if_neg hr, e1]; exact Int.mul_fdiv_cancel_left a' hr
  · simp only [pyDiv, if_neg hr, e2]; rw [← mul_neg]; exact Int.mul_fdiv_cancel_left (-b') hr
  · rw [e1, e2]
    have : r * (s * a' + t * b') = r * 1 := by linear_combination -hz
    exact mul_left_cancel₀ hr this
  · rw [e1]
  · rw [e2]

theorem setZeroL_det {a b r s t : Int} (hr : r ≠ 0) (ha : r ∣ a) (hb : r ∣ b) (hz : r = a * s + b * t) :
    (setZeroL 0 1 a b r s t).det = 1 ∧ (setZeroL 0 2 a b r s t).det = 1 ∧ (setZeroL 1 2 a b r s t).det = 1 := by
  obtain ⟨e1, e2, e3, -, -⟩ := bezout_quot hr ha hb hz
  rw [setZeroL_01, setZeroL_02, setZeroL_12]
  simp only [M3.det, e1, e2]
  refine ⟨?_, ?_, ?_⟩ <;> linear_combination e3

/-! ### admissible invariants -/

/-- a pair of state predicates (one for the state, one for the transposed state) that every
unimodular row operation preserves, and every row operation at all once `xok` is dropped -/
structure Adm (I I' : St → Prop) : Prop where
  row : ∀ (L : M3 Int) (s : St), L.det * L.det = 1 → I s → I (rowOp L s)
  rowBad : ∀ (L : M3 Int) (s : St), I s → I (rowOp L { s with xok := false })
  row' : ∀ (L : M3 Int) (s : St), L.det * L.det = 1 → I' s → I' (rowOp L s)
  rowBad' : ∀ (L : M3 Int) (s : St), I' s → I' (rowOp L { s with xok := false })
  trans : ∀ s, I s → I' (tr s)
  trans' : ∀ s, I' s → I (tr s)

theorem Adm.symm {I I' : St → Prop} (h : Adm I I') : Adm I' I :=
  ⟨h.row', h.rowBad', h.row, h.rowBad, h.trans', h.trans⟩

theorem St.xok_and_true (s : St) : ({ s with xok := s.xok && true } : St) = s := by cases s; simp
theorem St.xok_and_false (s : St) : ({ s with xok := s.xok && false } : St) = { s with xok := false } := by simp

variable {I I' : St → Prop}

theorem zeroStep_adm (hA : Adm I I') (s : St) (a b : Int) (hb : b ≠ 0) (L : M3 Int)
    (hL : (xgcd a b).done = true → L.det = 1) (hs : I s) :
    I (rowOp L { s with xok := s.xok && (xgcd a b).done }) := by
  cases hd : (xgcd a b).done
  · rw [St.xok_and_false]; exact hA.rowBad L s hs
  · rw [St.xok_and_true]; exact hA.row L s (by rw [hL hd]; rfl) hs

theorem zeroFirstColumn_adm (hA : Adm I I') (j : Fin 3) (hj : j = 1 ∨ j = 2) (s : St)
    (hb : s.A.get j 0 ≠ 0) (hs : I s) : I (zeroFirstColumn j s) := by
  unfold zeroFirstColumn
  apply zeroStep_adm hA s _ _ hb _ _ hs
  intro hd
  obtain ⟨hr, ha, hb'⟩ := xgcd_facts _ _ hb hd
  have hz := xgcd_bezout' s.A.a00 (s.A.get j 0)
  obtain ⟨d1, d2, -⟩ := setZeroL_det hr ha hb' hz
  rcases hj with rfl | rfl
  · exact d1
  · exact d2

theorem zeroSecondColumn_adm (hA : Adm I I') (s : St) (hb : s.A.a21 ≠ 0) (hs : I s) :
    I (zeroSecondColumn s) := by
  unfold zeroSecondColumn
  apply zeroStep_adm hA s _ _ hb _ _ hs
  intro hd
  obtain ⟨hr, ha, hb'⟩ := xgcd_facts _ _ hb hd
  exact (setZeroL_det hr ha hb' (xgcd_bezout' s.A.a11 s.A.a21)).2.2

theorem firstColumn_adm (hA : Adm I I') (s s' : St) (h : firstColumn s = .ok s') (hs : I s) : I s' := by
  unfold firstColumn at h
  split at h
  · cases h
  · next i _ =>
    simp only [Except.ok.injEq] at h
    subst h
    have h1 : I (if i ≠ 0 then rowOp (swapL 0 i) s else s) := by
      split
      · exact hA.row _ _ (swapL_det_sq 0 i) hs
      · exact hs
    generalize (if i ≠ 0 then rowOp (swapL 0 i) s else s) = s1 at h1 ⊢
    have h2 : I (if s1.A.a10 ≠ 0 then zeroFirstColumn 1 s1 else s1) := by
      split
      · next hne => exact zeroFirstColumn_adm hA 1 (Or.inl rfl) s1 hne h1
      · exact h1
    generalize (if s1.A.a10 ≠ 0 then zeroFirstColumn 1 s1 else s1) = s2 at h2 ⊢
    split
    · next hne => exact zeroFirstColumn_adm hA 2 (Or.inr rfl) s2 hne h2
    · exact h2

theorem firstOneLoop_adm (hA : Adm I I') (s s' : St) (h : firstOneLoop s = .ok s') (hs : I s) : I s' := by
  unfold firstOneLoop at h
  simp only [bind, Except.bind, pure, Except.pure] at h
  split at h
  · cases h
  · next s1 h1 =>
    split at h
    · cases h
    · next s2 h2 =>
      simp only [Except.ok.injEq] at h
      subst h
      exact hA.trans' _ (firstColumn_adm hA.symm _ _ h2 (hA.trans _ (firstColumn_adm hA _ _ h1 hs)))

theorem unitLower_det (x y : Int) : (SNF.set (SNF.set eye 1 0 x) 2 0 y).det = 1 := by
  simp [SNF.set, M3.ofFn, eye, M3.one, M3.get, M3.det]

theorem unitLower21_det (x : Int) : (SNF.set eye 2 1 x).det = 1 := by
  simp [SNF.set, M3.ofFn, eye, M3.one, M3.get, M3.det]

theorem firstFinalize_adm (hA : Adm I I') (s : St) (hs : I s) : I (firstFinalize s) := by
  unfold firstFinalize
  exact hA.row _ _ (by rw [unitLower_det]; rfl) hs

theorem first_adm (hA : Adm I I') (s s' : St) (b : Bool) (h : first s = .ok (s', b)) (hs : I s) : I s' := by
  unfold first at h
  simp only [bind, Except.bind, pure, Except.pure] at h
  split at h
  · cases h
  · next s1 h1 =>
    have i1 := firstOneLoop_adm hA _ _ h1 hs
    split at h
    · simp only [Except.ok.injEq, Prod.mk.injEq] at h; rw [← h.1]; exact i1
    · split at h
      · simp only [Except.ok.injEq, Prod.mk.injEq] at h; rw [← h.1]; exact firstFinalize_adm hA _ i1
      · simp only [Except.ok.injEq, Prod.mk.injEq] at h; rw [← h.1]; exact i1

theorem secondColumn_adm (hA : Adm I I') (s : St) (hs : I s) : I (secondColumn s) := by
  unfold secondColumn
  have h1 : I (if s.A.a11 = 0 ∧ s.A.a21 ≠ 0 then rowOp (swapL 1 2) s else s) := by
    split
    · exact hA.row _ _ (swapL_det_sq 1 2) hs
    · exact hs
  generalize (if s.A.a11 = 0 ∧ s.A.a21 ≠ 0 then rowOp (swapL 1 2) s else s) = s1 at h1 ⊢
  simp only
  split
  · next hne => exact zeroSecondColumn_adm hA s1 hne h1
  · exact h1

theorem secondOneLoop_adm (hA : Adm I I') (s : St) (hs : I s) : I (secondOneLoop s) := by
  unfold secondOneLoop
  exact hA.trans' _ (secondColumn_adm hA.symm _ (hA.trans _ (secondColumn_adm hA _ hs)))

theorem second_adm (hA : Adm I I') (s : St) (hs : I s) : I (second s).1 := by
  unfold second
  have i1 := secondOneLoop_adm hA s hs
  simp only
  split
  · exact i1
  · split
    · unfold secondFinalize; exact hA.row _ _ (by rw [unitLower21_det]; rfl) i1
    · exact i1

theorem swapDiagElems_adm (hA : Adm I I') (i j : Fin 3) (s : St) (hs : I s) : I (swapDiagElems i j s) := by
  unfold swapDiagElems
  exact hA.trans' _ (hA.row' _ _ (swapL_det_sq i j) (hA.trans _ (hA.row _ _ (swapL_det_sq i j) hs)))

theorem ite_adm {c : Prop} [Decidable c] (f : St → St) (hf : ∀ s, I s → I (f s)) (s : St) (hs : I s) :
    I (if c then f s else s) := by
  split
  · exact hf s hs
  · exact hs

theorem finalizeSort_adm (hA : Adm I I') (s : St) (hs : I s) : I (finalizeSort s) := by
  unfold finalizeSort
  simp only
  refine ite_adm (swapDiagElems 0 1) (swapDiagElems_adm hA 0 1) _ ?_
  refine ite_adm (swapDiagElems 1 2) (swapDiagElems_adm hA 1 2) _ ?_
  exact ite_adm (swapDiagElems 0 1) (swapDiagElems_adm hA 0 1) _ hs

theorem finalizeDisturb_adm (hA : Adm I I') (i j : Fin 3) (hij : i ≠ j) (s : St) (hs : I s) :
    I (finalizeDisturb i j s) := by
  unfold finalizeDisturb
  split
  · exact hA.trans' _ (hA.row' _ _ (by rw [disturbL_det i j hij]; rfl) (hA.trans _ hs))
  · exact hs

theorem flipNeg_adm (hA : Adm I I') (i : Fin 3) (s : St) (hs : I s) : I (flipNeg i s) := by
  unfold flipNeg
  split
  · exact hA.row _ _ (flipL_det_sq i) hs
  · exact hs

/-- everything `_finalize` does before `_set_PQ` -/
def preFinalize (s : St) : Except Err (St × Bool) := do
  let s := flipNeg 2 (flipNeg 1 (flipNeg 0 s))
  let s := finalizeSort s
  let s := finalizeDisturb 0 1 s
  let (s, b1) ← first s
  let s := finalizeSort s
  let s := finalizeDisturb 1 2 s
  let (s, b2) := second s
  pure (s, b1 && b2)

theorem finalize_eq (s : St) : finalize s = (preFinalize s).map (fun p => (setPQ p.1, p.2)) := by
  unfold finalize preFinalize
  simp only [bind, Except.bind, pure, Except.pure, Except.map]
  cases first (finalizeDisturb 0 1 (finalizeSort (flipNeg 2 (flipNeg 1 (flipNeg 0 s))))) <;> rfl

theorem preFinalize_adm (hA : Adm I I') (s s' : St) (b : Bool) (h : preFinalize s = .ok (s', b)) (hs : I s) : I s' := by
  unfold preFinalize at h
  simp only [bind, Except.bind, pure, Except.pure] at h
  split at h
  · cases h
  · next p h1 =>
    obtain ⟨s1, b1⟩ := p
    simp only [Except.ok.injEq, Prod.mk.injEq] at h
    rw [← h.1]
    apply second_adm hA
    apply finalizeDisturb_adm hA _ _ (by decide)
    apply finalizeSort_adm hA
    apply first_adm hA _ _ _ h1
    apply finalizeDisturb_adm hA _ _ (by decide)
    apply finalizeSort_adm hA
    exact flipNeg_adm hA _ _ (flipNeg_adm hA _ _ (flipNeg_adm hA _ _ hs))

end PhononModel.SNF

namespace PhononModel.SNF
open PhononModel

/-! ### the two invariants -/

/-- `A_cur = P_acc · A₀ · Q_acc` -/
def InvP (A0 : M3 Int) (s : St) : Prop := s.A = s.P * A0 * s.Q

/-- accumulated transformations are unimodular as long as every `Xgcd` loop finished -/
def Uni (s : St) : Prop := s.xok = true → s.P.det * s.P.det = 1 ∧ s.Q.det * s.Q.det = 1

theorem invP_adm (A0 : M3 Int) : Adm (InvP A0) (InvP A0.transpose) := by
  have row : ∀ (B : M3 Int) (L : M3 Int) (s : St) (b : Bool), InvP B s → InvP B (rowOp L { s with xok := b }) := by
    intro B L s b h
    unfold InvP rowOp at *
    simp only
    rw [h]; simp only [M3.mul_assoc']
  refine ⟨?_, ?_, ?_, ?_, ?_, ?_⟩
  · intro L s _ h; exact row A0 L s s.xok h
  · intro L s h; exact row A0 L s false h
  · intro L s _ h; exact row _ L s s.xok h
  · intro L s h; exact row _ L s false h
  · intro s h
    unfold InvP tr at *
    simp only
    rw [h, M3.transpose_mul, M3.transpose_mul, M3.mul_assoc']
  · intro s h
    unfold InvP tr at *
    simp only
    rw [h, M3.transpose_mul, M3.transpose_mul, M3.mul_assoc', M3.transpose_transpose]

theorem uni_adm : Adm Uni Uni := by
  have row : ∀ (L : M3 Int) (s : St), L.det * L.det = 1 → Uni s → Uni (rowOp L s) := by
    intro L s hL h hx
    obtain ⟨hp, hq⟩ := h hx
    refine ⟨?_, hq⟩
    show (L * s.P).det * (L * s.P).det = 1
    rw [M3.det_mul]
    calc L.det * s.P.det * (L.det * s.P.det) = (L.det * L.det) * (s.P.det * s.P.det) := by ring
      _ = 1 := by rw [hL, hp]; rfl
  have bad : ∀ (L : M3 Int) (s : St), Uni s → Uni (rowOp L { s with xok := false }) := by
    intro L s _ hx; simp [rowOp] at hx
  have trn : ∀ s, Uni s → Uni (tr s) := by
    intro s h hx
    obtain ⟨hp, hq⟩ := h hx
    exact ⟨by show s.Q.transpose.det * s.Q.transpose.det = 1; rw [M3.det_transpose]; exact hq,
           by show s.P.transpose.det * s.P.transpose.det = 1; rw [M3.det_transpose]; exact hp⟩
  exact ⟨row, bad, row, bad, trn, trn⟩

theorem init_invP (A : M3 Int) : InvP A (St.init A) := by
  unfold InvP St.init eye; simp only; rw [M3.one_mul', M3.mul_one']

theorem init_uni (A : M3 Int) : Uni (St.init A) := by
  intro _; simp [St.init, eye, M3.det_one]

theorem setPQ_invP (A0 : M3 Int) (s : St) (h : InvP A0 s) : InvP A0 (setPQ s) := by
  unfold setPQ
  split
  · unfold InvP at *; simp only; rw [M3.neg_mul_neg]; exact h
  · exact h

theorem sq_one_int {x : Int} (h : x * x = 1) : x = 1 ∨ x = -1 := by
  have : (x - 1) * (x + 1) = 0 := by linear_combination h
  rcases mul_eq_zero.mp this with h | h
  · left; omega
  · right; omega

theorem setPQ_uni (s : St) (h : Uni s) (hx : s.xok = true) :
    (setPQ s).P.det = 1 ∧ ((setPQ s).Q.det = 1 ∨ (setPQ s).Q.det = -1) := by
  obtain ⟨hp, hq⟩ := h hx
  unfold setPQ
  split
  · next hneg =>
    simp only [M3.det_neg]
    rcases sq_one_int hp with h1 | h1
    · omega
    · refine ⟨by omega, ?_⟩
      rcases sq_one_int hq with h2 | h2
      · right; omega
      · left; omega
  · next hneg =>
    rcases sq_one_int hp with h1 | h1
    · exact ⟨h1, sq_one_int hq⟩
    · omega

theorem setPQ_A (s : St) : (setPQ s).A = s.A ∧ (setPQ s).xok = s.xok := by
  unfold setPQ; split <;> simp

/-! ### one `__next__`, the whole loop -/

variable {I I' : St → Prop}

theorem next_adm (hA : Adm I I') (s s' : St) (r : Option Bool) (h : next s = .ok (s', r)) (hs : I s) :
    (r = none ∧ I s') ∨ (∃ s'', r ≠ none ∧ s' = setPQ s'' ∧ I s'') := by
  unfold next at h
  simp only [bind, Except.bind, pure, Except.pure] at h
  split at h
  · cases h
  · next p h1 =>
    obtain ⟨s1, b1⟩ := p
    have i1 := first_adm hA _ _ _ h1 hs
    simp only at h
    split at h
    · have i2 := second_adm hA s1 i1
      split at h
      · rw [finalize_eq] at h
        cases hp : preFinalize (second s1).1 with
        | error e => rw [hp] at h; simp [Except.map] at h
        | ok p2 =>
          obtain ⟨s2, ok⟩ := p2
          rw [hp] at h
          simp only [Except.map, Except.ok.injEq, Prod.mk.injEq] at h
          right
          exact ⟨s2, by rw [← h.2]; simp, h.1.symm, preFinalize_adm hA _ _ _ hp i2⟩
      · simp only [Except.ok.injEq, Prod.mk.injEq] at h
        left; exact ⟨h.2.symm, by rw [← h.1]; exact i2⟩
    · simp only [Except.ok.injEq, Prod.mk.injEq] at h
      left; exact ⟨h.2.symm, by rw [← h.1]; exact i1⟩

/-- the result record of a run comes from a state satisfying every admissible invariant that the
initial state satisfies; when `finished`, `_set_PQ` has been applied on top of it -/
theorem runLoop_adm (hA : Adm I I') : ∀ (fuel k : Nat) (s : St) (o : Out), runLoop fuel k s = .ok o → I s →
    ∃ s', I s' ∧ ((o.finished = false ∧ o.D = s'.A ∧ o.P = s'.P ∧ o.Q = s'.Q ∧ o.xok = s'.xok) ∨
      (o.finished = true ∧ o.D = (setPQ s').A ∧ o.P = (setPQ s').P ∧ o.Q = (setPQ s').Q ∧ o.xok = (setPQ s').xok))
  | 0, k, s, o, h, hs => by
    simp only [runLoop, Except.ok.injEq] at h
    subst h
    exact ⟨s, hs, Or.inl ⟨rfl, rfl, rfl, rfl, rfl⟩⟩
  | fuel+1, k, s, o, h, hs => by
    simp only [runLoop] at h
    split at h
    · cases h
    · next s1 ok hn =>
      simp only [Except.ok.injEq] at h
      subst h
      rcases next_adm hA _ _ _ hn hs with ⟨hr, _⟩ | ⟨s2, _, he, i2⟩
      · cases hr
      · exact ⟨s2, i2, Or.inr ⟨rfl, by rw [he], by rw [he], by rw [he], by rw [he]⟩⟩
    · next s1 hn =>
      rcases next_adm hA _ _ _ hn hs with ⟨_, i1⟩ | ⟨s2, hr, _⟩
      · exact runLoop_adm hA fuel (k+1) s1 o h i1
      · exact absurd rfl hr

end PhononModel.SNF

namespace PhononModel.SNF
open PhononModel

/-! ### termination of `Xgcd` within its 1000 iterations (small divisors) -/

theorem fmod_neg_bounds (a b : Int) (hb : b < 0) : b < Int.fmod a b ∧ Int.fmod a b ≤ 0 := by
  have h := Int.neg_fmod_neg (-a) (-b)
  simp only [neg_neg] at h
  have hpos : 0 < -b := by omega
  have h1 := Int.fmod_nonneg_of_pos (-a) hpos
  have h2 := Int.fmod_lt_of_pos (-a) hpos
  omega

/-- a step with non-zero divisor produces a remainder in `[0, |r1|)` -/
theorem xgcdStep_decreases (x : XS) (h : x.r1 ≠ 0) :
    0 ≤ (xgcdStep x).r1 ∧ (xgcdStep x).r1.natAbs < x.r1.natAbs := by
  unfold xgcdStep
  simp only [pyMod, pyDiv, if_neg h]
  by_cases hp : 0 < x.r1
  · have h1 := Int.fmod_nonneg_of_pos x.r0 hp
    have h2 := Int.fmod_lt_of_pos x.r0 hp
    have hn : ¬ Int.fmod x.r0 x.r1 < 0 := by omega
    simp only [if_neg hn]
    omega
  · have hneg : x.r1 < 0 := by omega
    obtain ⟨h1, h2⟩ := fmod_neg_bounds x.r0 x.r1 hneg
    by_cases hm : Int.fmod x.r0 x.r1 < 0
    · have hnp : ¬ x.r1 > 0 := by omega
      simp only [if_pos hm, if_neg hnp, if_pos hneg]
      omega
    · simp only [if_neg hm]
      omega

theorem xgcdLoop_done : ∀ (n : Nat) (x : XS), x.r1 ≠ 0 → x.r1.natAbs ≤ n → (xgcdLoop n x).r1 = 0
  | 0, x, h, hn => by omega
  | n+1, x, h, hn => by
    simp only [xgcdLoop]
    split
    · assumption
    · next hz =>
      have := (xgcdStep_decreases x h).2
      exact xgcdLoop_done n _ hz (by omega)

theorem xgcd_done (a b : Int) (hb : b ≠ 0) (hsmall : b.natAbs ≤ 1000) : (xgcd a b).done = true := by
  have := xgcdLoop_done 1000 (xgcdInit a b) hb hsmall
  simp [xgcd, xgcdFuel, this]

end PhononModel.SNF
