import PhononModel.Lemmas.CommPoints
import Mathlib.Tactic.Ring
import Mathlib.Tactic.Linarith
import Mathlib.Tactic.Positivity
import Mathlib.Data.List.Dedup
import Mathlib.Data.Finset.Card

/-!
The classic route `get_commensurate_points` returns exactly `det S` points: the frame of the
old-style supercell builder contains a representative of every class of `ℤ³ / ℤ³S`
(completeness), and the classes are exactly the points of the Smith-normal-form route.
-/
set_option linter.unusedSectionVars false
namespace PhononModel.C06

def P3.smul (c : Int) (v : P3) : P3 := (c * v.1, c * v.2.1, c * v.2.2)

theorem vecMul_S_adj (S : Mat3) (v : P3) : vecMul (vecMul v S) (adj3 S) = P3.smul (det3 S) v := by
  obtain ⟨⟨a, b, c⟩, ⟨d, e, f⟩, ⟨g, h, i⟩⟩ := S
  obtain ⟨x, y, z⟩ := v
  apply P3.ext3 <;> simp only [vecMul, adj3, det3, P3.smul] <;> ring

theorem vecMul_add (v w : P3) (A : Mat3) : vecMul (v.add w) A = (vecMul v A).add (vecMul w A) := by
  obtain ⟨⟨a, b, c⟩, ⟨d, e, f⟩, ⟨g, h, i⟩⟩ := A
  obtain ⟨x, y, z⟩ := v
  obtain ⟨x', y', z'⟩ := w
  apply P3.ext3 <;> simp only [vecMul, P3.add] <;> ring

theorem vecMul_smul (c : Int) (v : P3) (A : Mat3) : vecMul (P3.smul c v) A = P3.smul c (vecMul v A) := by
  obtain ⟨⟨a, b, c'⟩, ⟨d, e, f⟩, ⟨g, h, i⟩⟩ := A
  obtain ⟨x, y, z⟩ := v
  apply P3.ext3 <;> simp only [vecMul, P3.smul] <;> ring

theorem mulVec_T (S : Mat3) (k : P3) : mulVec S.T k = vecMul k S := by
  obtain ⟨⟨a, b, c⟩, ⟨d, e, f⟩, ⟨g, h, i⟩⟩ := S
  obtain ⟨x, y, z⟩ := k
  apply P3.ext3 <;> simp only [mulVec, vecMul, Mat3.T, P3.dot] <;> ring

theorem mulVec_adj (M : Mat3) (v : P3) : mulVec M (mulVec (adj3 M) v) = P3.smul (det3 M) v := by
  obtain ⟨⟨a, b, c⟩, ⟨d, e, f⟩, ⟨g, h, i⟩⟩ := M
  obtain ⟨x, y, z⟩ := v
  apply P3.ext3 <;> simp only [mulVec, adj3, det3, P3.dot, P3.smul] <;> ring

theorem mulVec_smul (c : Int) (A : Mat3) (v : P3) : mulVec A (P3.smul c v) = P3.smul c (mulVec A v) := by
  obtain ⟨⟨a, b, c'⟩, ⟨d, e, f⟩, ⟨g, h, i⟩⟩ := A
  obtain ⟨x, y, z⟩ := v
  apply P3.ext3 <;> simp only [mulVec, P3.dot, P3.smul] <;> ring

/-- (L4) the point depends only on the class modulo the row lattice of `S` -/
theorem pointOf_add_lattice (S : Mat3) (x n : P3) : pointOf S (x.add (vecMul n S)) = pointOf S x := by
  unfold pointOf
  rw [vecMul_add, vecMul_S_adj]
  obtain ⟨a, b, c⟩ := vecMul x (adj3 S)
  obtain ⟨n1, n2, n3⟩ := n
  simp only [P3.add, P3.smul, P3.mod, Int.add_mul_emod_self_left]

theorem P3.mod_eq_self {p : P3} {n : Int} (h : 0 ≤ p.1 ∧ p.1 < n ∧ 0 ≤ p.2.1 ∧ p.2.1 < n ∧ 0 ≤ p.2.2 ∧ p.2.2 < n) :
    p.mod n = p := by
  obtain ⟨a, b, c⟩ := p
  obtain ⟨h1, h2, h3, h4, h5, h6⟩ := h
  simp only [P3.mod]
  rw [Int.emod_eq_of_lt h1 h2, Int.emod_eq_of_lt h3 h4, Int.emod_eq_of_lt h5 h6]

/-- (L3) a commensurate numerator vector is the image of an integer lattice point -/
theorem exists_pointOf (S : Mat3) (hS : 0 < det3 S) (p : P3)
    (hr : 0 ≤ p.1 ∧ p.1 < det3 S ∧ 0 ≤ p.2.1 ∧ p.2.1 < det3 S ∧ 0 ≤ p.2.2 ∧ p.2.2 < det3 S)
    (hd : P3.Dvd (det3 S) (vecMul p S)) : ∃ lp0, pointOf S lp0 = p := by
  obtain ⟨⟨w1, h1⟩, ⟨w2, h2⟩, ⟨w3, h3⟩⟩ := hd
  refine ⟨(w1, w2, w3), ?_⟩
  have e : vecMul p S = P3.smul (det3 S) (w1, w2, w3) := by
    apply P3.ext3 <;> simp only [P3.smul] <;> assumption
  have h := vecMul_S_adj S p
  rw [e, vecMul_smul] at h
  have hv : vecMul (w1, w2, w3) (adj3 S) = p := by
    have hne : det3 S ≠ 0 := hS.ne'
    generalize vecMul (w1, w2, w3) (adj3 S) = q at h ⊢
    obtain ⟨a, b, c⟩ := q
    obtain ⟨p1, p2, p3⟩ := p
    simp only [P3.smul, Prod.mk.injEq] at h
    obtain ⟨e1, e2, e3⟩ := h
    apply P3.ext3
    · exact Int.eq_of_mul_eq_mul_left hne e1
    · exact Int.eq_of_mul_eq_mul_left hne e2
    · exact Int.eq_of_mul_eq_mul_left hne e3
  unfold pointOf
  rw [hv]
  exact P3.mod_eq_self hr

theorem P3.Dvd.smul {n : Int} {v : P3} (h : P3.Dvd n v) (c : Int) : P3.Dvd n (P3.smul c v) :=
  ⟨Dvd.dvd.mul_left h.1 _, Dvd.dvd.mul_left h.2.1 _, Dvd.dvd.mul_left h.2.2 _⟩

/-- (L1) every commensurate numerator vector in `[0, N)³` is one of the Smith-normal-form points -/
theorem mem_commPointsInt_of_comm (S : Mat3) (d : P3) (P Q : Mat3) (h : snfWf S d P Q = true) (k : P3)
    (hr : 0 ≤ k.1 ∧ k.1 < d.1 * d.2.1 * d.2.2 ∧ 0 ≤ k.2.1 ∧ k.2.1 < d.1 * d.2.1 * d.2.2 ∧
      0 ≤ k.2.2 ∧ k.2.2 < d.1 * d.2.1 * d.2.2)
    (hd : P3.Dvd (d.1 * d.2.1 * d.2.2) (mulVec S.T k)) : k ∈ commPointsInt d Q := by
  have hs := snfWf_sound h
  have h0 := hs.h0; have h1 := hs.h1; have h2 := hs.h2
  -- k' = Q⁻¹ k
  let k' : P3 := P3.smul (det3 Q) (mulVec (adj3 Q) k)
  have hQk : mulVec Q k' = k := by
    show mulVec Q (P3.smul (det3 Q) (mulVec (adj3 Q) k)) = k
    rw [mulVec_smul, mulVec_adj]
    obtain ⟨x, y, z⟩ := k
    rcases hs.hQ with e | e <;> simp [P3.smul, e]
  -- D k' = P Sᵀ k ≡ 0
  have hD : P3.Dvd (d.1 * d.2.1 * d.2.2) (mulVec (diag3 d) k') := by
    rw [← hs.hM, mulVec_matMul, mulVec_matMul, hQk]
    exact hd.mulVec P
  obtain ⟨d0, d1, d2⟩ := d
  simp only at h0 h1 h2 hr hD
  generalize k' = kk at hQk hD
  obtain ⟨x, y, z⟩ := kk
  simp only [mulVec, diag3, P3.dot, P3.Dvd, mul_zero, zero_mul, add_zero, zero_add] at hD
  obtain ⟨hx, hy, hz⟩ := hD
  have hx' : d1 * d2 ∣ x := by
    apply Int.dvd_of_mul_dvd_mul_left h0.ne'
    have e : d0 * (d1 * d2) = d0 * d1 * d2 := by ring
    rw [e]; exact hx
  have hy' : d0 * d2 ∣ y := by
    apply Int.dvd_of_mul_dvd_mul_left h1.ne'
    have e : d1 * (d0 * d2) = d0 * d1 * d2 := by ring
    rw [e]; exact hy
  have hz' : d0 * d1 ∣ z := by
    apply Int.dvd_of_mul_dvd_mul_left h2.ne'
    have e : d2 * (d0 * d1) = d0 * d1 * d2 := by ring
    rw [e]; exact hz
  obtain ⟨a', rfl⟩ := hx'
  obtain ⟨b', rfl⟩ := hy'
  obtain ⟨c', rfl⟩ := hz'
  rw [commPointsInt_eq, List.mem_map]
  have ha := Int.emod_nonneg a' h0.ne'
  have ha2 := Int.emod_lt_of_pos a' h0
  have hb := Int.emod_nonneg b' h1.ne'
  have hb2 := Int.emod_lt_of_pos b' h1
  have hc := Int.emod_nonneg c' h2.ne'
  have hc2 := Int.emod_lt_of_pos c' h2
  refine ⟨(a' % d0, b' % d1, c' % d2), ?_, ?_⟩
  · rw [mem_box]
    refine ⟨(a' % d0).toNat, (b' % d1).toNat, (c' % d2).toNat, ?_, ?_, ?_, ?_⟩
    · simp only; omega
    · simp only; omega
    · simp only; omega
    · simp only [Int.toNat_of_nonneg ha, Int.toNat_of_nonneg hb, Int.toNat_of_nonneg hc]
  · -- the point equals k modulo N
    have hk : k = k.mod (d0 * d1 * d2) := (P3.mod_eq_self hr).symm
    rw [hk, ← hQk]
    apply P3.mod_eq_iff.mpr
    rw [← mulVec_sub]
    apply P3.Dvd.mulVec
    simp only [snfVec, P3.sub, P3.Dvd]
    refine ⟨?_, ?_, ?_⟩
    · refine ⟨-(a' / d0), ?_⟩
      have := Int.emod_add_mul_ediv a' d0
      have e : a' % d0 = a' - d0 * (a' / d0) := by linarith
      rw [e]; ring
    · refine ⟨-(b' / d1), ?_⟩
      have := Int.emod_add_mul_ediv b' d1
      have e : b' % d1 = b' - d1 * (b' / d1) := by linarith
      rw [e]; ring
    · refine ⟨-(c' / d2), ?_⟩
      have := Int.emod_add_mul_ediv c' d2
      have e : c' % d2 = c' - d2 * (c' / d2) := by linarith
      rw [e]; ring

/-! ### completeness of the surrounding frame -/

theorem term_bounds (N r s : Int) (h0 : 0 ≤ r) (h1 : r < N) :
    (N - 1) * min s 0 ≤ r * s ∧ r * s ≤ (N - 1) * max s 0 := by
  rcases le_total 0 s with hs | hs
  · rw [min_eq_right hs, max_eq_left hs]
    constructor
    · have := mul_nonneg h0 hs; linarith
    · have : r ≤ N - 1 := by omega
      exact mul_le_mul_of_nonneg_right this hs
  · rw [min_eq_left hs, max_eq_right hs]
    constructor
    · have : r ≤ N - 1 := by omega
      have := mul_le_mul_of_nonpos_right this hs
      linarith
    · have := mul_nonpos_of_nonneg_of_nonpos h0 hs; linarith

theorem natAbs_eq_max_sub_min (s : Int) : (s.natAbs : Int) = max s 0 - min s 0 := by
  rcases le_total 0 s with hs | hs
  · rw [min_eq_right hs, max_eq_left hs, Int.natAbs_of_nonneg hs]; ring
  · rw [min_eq_left hs, max_eq_right hs, Int.ofNat_natAbs_of_nonpos hs]; ring

/-- one coordinate of the frame argument: the shift `v` depends on the column of `S` only -/
theorem frame_component (N : Int) (hN : 0 < N) (s0 s1 s2 : Int) (hnz : s0 ≠ 0 ∨ s1 ≠ 0 ∨ s2 ≠ 0) :
    ∃ v : Int, ∀ r0 r1 r2 y : Int, 0 ≤ r0 → r0 < N → 0 ≤ r1 → r1 < N → 0 ≤ r2 → r2 < N →
      N * y = r0 * s0 + r1 * s1 + r2 * s2 →
      0 ≤ y + v ∧ y + v < ((s0.natAbs + s1.natAbs + s2.natAbs : Nat) : Int) := by
  set LO := min s0 0 + min s1 0 + min s2 0 with hLO
  set HI := max s0 0 + max s1 0 + max s2 0 with hHI
  have hlo : LO ≤ 0 := by
    have := min_le_right s0 0; have := min_le_right s1 0; have := min_le_right s2 0; omega
  have hhi : 0 ≤ HI := by
    have := le_max_right s0 0; have := le_max_right s1 0; have := le_max_right s2 0; omega
  have hm : ((s0.natAbs + s1.natAbs + s2.natAbs : Nat) : Int) = HI - LO := by
    rw [Nat.cast_add, Nat.cast_add, natAbs_eq_max_sub_min s0, natAbs_eq_max_sub_min s1, natAbs_eq_max_sub_min s2]; ring
  have hz : HI = 0 → LO < 0 := by
    intro h
    have a0 := le_max_right s0 0; have a1 := le_max_right s1 0; have a2 := le_max_right s2 0
    have b0 := le_max_left s0 0; have b1 := le_max_left s1 0; have b2 := le_max_left s2 0
    have c0 := min_le_left s0 0; have c1 := min_le_left s1 0; have c2 := min_le_left s2 0
    have d0 := min_le_right s0 0; have d1 := min_le_right s1 0; have d2 := min_le_right s2 0
    rcases hnz with h' | h' | h' <;> omega
  by_cases hpos : 0 < HI
  · refine ⟨-LO, ?_⟩
    intro r0 r1 r2 y h00 h01 h10 h11 h20 h21 he
    obtain ⟨l0, u0⟩ := term_bounds N r0 s0 h00 h01
    obtain ⟨l1, u1⟩ := term_bounds N r1 s1 h10 h11
    obtain ⟨l2, u2⟩ := term_bounds N r2 s2 h20 h21
    have hl : (N - 1) * LO ≤ N * y := by rw [he, hLO]; linarith
    have hu : N * y ≤ (N - 1) * HI := by rw [he, hHI]; linarith
    rw [hm]
    constructor
    · have : N * 0 ≤ N * (y + -LO) := by linarith
      exact le_of_mul_le_mul_left this hN
    · have : N * (y + -LO) < N * (HI - LO) := by linarith
      exact lt_of_mul_lt_mul_left this hN.le
  · have hHI0 : HI = 0 := le_antisymm (not_lt.mp hpos) hhi
    have hlo' := hz hHI0
    refine ⟨-LO - 1, ?_⟩
    intro r0 r1 r2 y h00 h01 h10 h11 h20 h21 he
    obtain ⟨l0, u0⟩ := term_bounds N r0 s0 h00 h01
    obtain ⟨l1, u1⟩ := term_bounds N r1 s1 h10 h11
    obtain ⟨l2, u2⟩ := term_bounds N r2 s2 h20 h21
    have hl : (N - 1) * LO ≤ N * y := by rw [he, hLO]; linarith
    have hu : N * y ≤ (N - 1) * HI := by rw [he, hHI]; linarith
    rw [hm, hHI0]
    rw [hHI0] at hu
    constructor
    · have h1 : N * LO < N * y := by linarith
      have : LO < y := lt_of_mul_lt_mul_left h1 hN.le
      omega
    · have h1 : N * y ≤ N * 0 := by linarith
      have : y ≤ 0 := le_of_mul_le_mul_left h1 hN
      omega

theorem col_ne_zero (S : Mat3) (hS : 0 < det3 S) :
    (S.1.1 ≠ 0 ∨ S.2.1.1 ≠ 0 ∨ S.2.2.1 ≠ 0) ∧ (S.1.2.1 ≠ 0 ∨ S.2.1.2.1 ≠ 0 ∨ S.2.2.2.1 ≠ 0) ∧
    (S.1.2.2 ≠ 0 ∨ S.2.1.2.2 ≠ 0 ∨ S.2.2.2.2 ≠ 0) := by
  obtain ⟨⟨a, b, c⟩, ⟨d, e, f⟩, ⟨g, h, i⟩⟩ := S
  simp only [det3] at hS ⊢
  refine ⟨?_, ?_, ?_⟩
  · by_contra hc
    push Not at hc
    obtain ⟨rfl, rfl, rfl⟩ := hc
    simp at hS
  · by_contra hc
    push Not at hc
    obtain ⟨rfl, rfl, rfl⟩ := hc
    simp at hS
  · by_contra hc
    push Not at hc
    obtain ⟨rfl, rfl, rfl⟩ := hc
    simp at hS

/-- (L5) **completeness of the frame**: every integer point is congruent, modulo the row lattice
of `S`, to a lattice point of the surrounding frame. -/
theorem frame_complete (S : Mat3) (hS : 0 < det3 S) (x : P3) :
    ∃ lp ∈ box (frame S), ∃ n : P3, lp = x.add (vecMul n S) := by
  obtain ⟨c0, c1, c2⟩ := col_ne_zero S hS
  obtain ⟨v0, hv0⟩ := frame_component (det3 S) hS _ _ _ c0
  obtain ⟨v1, hv1⟩ := frame_component (det3 S) hS _ _ _ c1
  obtain ⟨v2, hv2⟩ := frame_component (det3 S) hS _ _ _ c2
  -- reduce x - v into the half-open parallelepiped
  set x' : P3 := x.sub (v0, v1, v2) with hx'
  set w : P3 := vecMul x' (adj3 S) with hw
  set q : P3 := (w.1 / det3 S, w.2.1 / det3 S, w.2.2 / det3 S) with hq
  set y : P3 := x'.sub (vecMul q S) with hy
  have hr : vecMul y (adj3 S) = w.mod (det3 S) := by
    rw [hy, vecMul_sub, vecMul_S_adj, ← hw]
    apply P3.ext3 <;> simp only [P3.sub, P3.smul, P3.mod, hq] <;> rw [Int.emod_def]
  have hNy := vecMul_adj S y
  rw [hr] at hNy
  have r0 := Int.emod_nonneg w.1 hS.ne'
  have r0' := Int.emod_lt_of_pos w.1 hS
  have r1 := Int.emod_nonneg w.2.1 hS.ne'
  have r1' := Int.emod_lt_of_pos w.2.1 hS
  have r2 := Int.emod_nonneg w.2.2 hS.ne'
  have r2' := Int.emod_lt_of_pos w.2.2 hS
  have e0 := congrArg (fun p : P3 => p.1) hNy
  have e1 := congrArg (fun p : P3 => p.2.1) hNy
  have e2 := congrArg (fun p : P3 => p.2.2) hNy
  simp only [vecMul, P3.mod] at e0 e1 e2
  obtain ⟨b00, b01⟩ := hv0 _ _ _ y.1 r0 r0' r1 r1' r2 r2' e0.symm
  obtain ⟨b10, b11⟩ := hv1 _ _ _ y.2.1 r0 r0' r1 r1' r2 r2' e1.symm
  obtain ⟨b20, b21⟩ := hv2 _ _ _ y.2.2 r0 r0' r1 r1' r2 r2' e2.symm
  refine ⟨y.add (v0, v1, v2), ?_, P3.smul (-1) q, ?_⟩
  · rw [mem_box]
    refine ⟨(y.1 + v0).toNat, (y.2.1 + v1).toNat, (y.2.2 + v2).toNat, ?_, ?_, ?_, ?_⟩
    · simp only [frame]; omega
    · simp only [frame]; omega
    · simp only [frame]; omega
    · simp only [P3.add, Int.toNat_of_nonneg b00, Int.toNat_of_nonneg b10, Int.toNat_of_nonneg b20]
  · rw [vecMul_smul, hy, hx']
    generalize vecMul q S = t
    obtain ⟨x1, x2, x3⟩ := x
    obtain ⟨t1, t2, t3⟩ := t
    apply P3.ext3 <;> simp only [P3.add, P3.sub, P3.smul] <;> ring

theorem snf_det_eq (S : Mat3) (d : P3) (P Q : Mat3) (h : snfWf S d P Q = true) (hS : 0 < det3 S) :
    det3 S = d.1 * d.2.1 * d.2.2 := by
  have hs := snfWf_sound h
  have := hs.det_eq
  have hp : 0 < d.1 * d.2.1 * d.2.2 := by have := hs.h0; have := hs.h1; have := hs.h2; positivity
  have e1 : ((det3 S).natAbs : Int) = det3 S := Int.natAbs_of_nonneg hS.le
  have e2 : ((d.1 * d.2.1 * d.2.2).natAbs : Int) = d.1 * d.2.1 * d.2.2 := Int.natAbs_of_nonneg hp.le
  rw [← e1, ← e2, this]

/-- the classic route and the Smith-normal-form route return the same set of points -/
theorem mem_commPointsK_iff (S : Mat3) (d : P3) (P Q : Mat3) (h : snfWf S d P Q = true) (hS : 0 < det3 S)
    (k : P3) : k ∈ commPointsK S ↔ k ∈ commPointsInt d Q := by
  have hN := snf_det_eq S d P Q h hS
  constructor
  · intro hk
    have hr := commPointsK_range S hS k hk
    have hi := commPointsK_integral S k hk
    rw [hN] at hr hi
    apply mem_commPointsInt_of_comm S d P Q h k hr
    rw [mulVec_T]; exact hi
  · intro hk
    have hr := commPointsInt_range S d P Q h k hk
    have hi := commPointsInt_integral S d P Q h k hk
    rw [mulVec_T, ← hN] at hi
    rw [← hN] at hr
    obtain ⟨lp0, hlp0⟩ := exists_pointOf S hS k hr hi
    obtain ⟨lp, hlp, n, hn⟩ := frame_complete S hS lp0
    rw [commPointsK, mem_dedup, List.mem_map]
    refine ⟨lp, hlp, ?_⟩
    rw [hn, pointOf_add_lattice, hlp0]

/-- **`get_commensurate_points` returns exactly `det S` points** -/
theorem commPointsK_length (S : Mat3) (d : P3) (P Q : Mat3) (h : snfWf S d P Q = true) (hS : 0 < det3 S) :
    (commPointsK S).length = (det3 S).natAbs := by
  rw [← commPointsInt_length S d P Q h]
  apply List.Perm.length_eq
  rw [List.perm_ext_iff_of_nodup (commPointsK_nodup S) (commPointsInt_nodup S d P Q h)]
  exact mem_commPointsK_iff S d P Q h hS

end PhononModel.C06
