import PhononModel.Lemmas.SNF
/-!
Zero patterns through `SNF3x3`: a finished run whose `Xgcd` loops ended regularly and whose two
ignored flags inside `_finalize` were `True` returns a diagonal matrix (for `det A ≠ 0`).
-/
set_option linter.unusedSectionVars false
namespace PhononModel.SNF
open PhononModel

/-! ### explicit results of the three zeroing steps -/

theorem zfc1_A (s : St) : (zeroFirstColumn 1 s).A =
    ⟨(xgcd s.A.a00 s.A.a10).s * s.A.a00 + (xgcd s.A.a00 s.A.a10).t * s.A.a10,
     (xgcd s.A.a00 s.A.a10).s * s.A.a01 + (xgcd s.A.a00 s.A.a10).t * s.A.a11,
     (xgcd s.A.a00 s.A.a10).s * s.A.a02 + (xgcd s.A.a00 s.A.a10).t * s.A.a12,
     pyDiv (-s.A.a10) (xgcd s.A.a00 s.A.a10).r * s.A.a00 + pyDiv s.A.a00 (xgcd s.A.a00 s.A.a10).r * s.A.a10,
     pyDiv (-s.A.a10) (xgcd s.A.a00 s.A.a10).r * s.A.a01 + pyDiv s.A.a00 (xgcd s.A.a00 s.A.a10).r * s.A.a11,
     pyDiv (-s.A.a10) (xgcd s.A.a00 s.A.a10).r * s.A.a02 + pyDiv s.A.a00 (xgcd s.A.a00 s.A.a10).r * s.A.a12,
     s.A.a20, s.A.a21, s.A.a22⟩ := by
  simp [zeroFirstColumn, rowOp, setZeroL_01, M3.mul_def, M3.mul, M3.get]

theorem zfc2_A (s : St) : (zeroFirstColumn 2 s).A =
    ⟨(xgcd s.A.a00 s.A.a20).s * s.A.a00 + (xgcd s.A.a00 s.A.a20).t * s.A.a20,
     (xgcd s.A.a00 s.A.a20).s * s.A.a01 + (xgcd s.A.a00 s.A.a20).t * s.A.a21,
     (xgcd s.A.a00 s.A.a20).s * s.A.a02 + (xgcd s.A.a00 s.A.a20).t * s.A.a22,
     s.A.a10, s.A.a11, s.A.a12,
     pyDiv (-s.A.a20) (xgcd s.A.a00 s.A.a20).r * s.A.a00 + pyDiv s.A.a00 (xgcd s.A.a00 s.A.a20).r * s.A.a20,
     pyDiv (-s.A.a20) (xgcd s.A.a00 s.A.a20).r * s.A.a01 + pyDiv s.A.a00 (xgcd s.A.a00 s.A.a20).r * s.A.a21,
     pyDiv (-s.A.a20) (xgcd s.A.a00 s.A.a20).r * s.A.a02 + pyDiv s.A.a00 (xgcd s.A.a00 s.A.a20).r * s.A.a22⟩ := by
  simp [zeroFirstColumn, rowOp, setZeroL_02, M3.mul_def, M3.mul, M3.get]

theorem zsc_A (s : St) : (zeroSecondColumn s).A =
    ⟨s.A.a00, s.A.a01, s.A.a02,
     (xgcd s.A.a11 s.A.a21).s * s.A.a10 + (xgcd s.A.a11 s.A.a21).t * s.A.a20,
     (xgcd s.A.a11 s.A.a21).s * s.A.a11 + (xgcd s.A.a11 s.A.a21).t * s.A.a21,
     (xgcd s.A.a11 s.A.a21).s * s.A.a12 + (xgcd s.A.a11 s.A.a21).t * s.A.a22,
     pyDiv (-s.A.a21) (xgcd s.A.a11 s.A.a21).r * s.A.a10 + pyDiv s.A.a11 (xgcd s.A.a11 s.A.a21).r * s.A.a20,
     pyDiv (-s.A.a21) (xgcd s.A.a11 s.A.a21).r * s.A.a11 + pyDiv s.A.a11 (xgcd s.A.a11 s.A.a21).r * s.A.a21,
     pyDiv (-s.A.a21) (xgcd s.A.a11 s.A.a21).r * s.A.a12 + pyDiv s.A.a11 (xgcd s.A.a11 s.A.a21).r * s.A.a22⟩ := by
  simp [zeroSecondColumn, rowOp, setZeroL_12, M3.mul_def, M3.mul]

theorem zfc_xok (j : Fin 3) (s : St) :
    (zeroFirstColumn j s).xok = (s.xok && (xgcd s.A.a00 (s.A.get j 0)).done) := rfl

theorem zsc_xok (s : St) : (zeroSecondColumn s).xok = (s.xok && (xgcd s.A.a11 s.A.a21).done) := rfl

/-- the entry that `_set_zero` is meant to clear is cleared -/
theorem zero_entry (a b : Int) (hb : b ≠ 0) (hd : (xgcd a b).done = true) :
    pyDiv (-b) (xgcd a b).r * a + pyDiv a (xgcd a b).r * b = 0 := by
  obtain ⟨hr, ha, hb'⟩ := xgcd_facts a b hb hd
  obtain ⟨e1, e2, -, e4, e5⟩ := bezout_quot hr ha hb' (xgcd_bezout' a b)
  rw [e1, e2]
  linear_combination (-(b / (xgcd a b).r)) * e4 + (a / (xgcd a b).r) * e5

/-! ### first column -/

theorem zfc1_post (s : St) (hb : s.A.a10 ≠ 0) (hx : (zeroFirstColumn 1 s).xok = true) :
    s.xok = true ∧ (zeroFirstColumn 1 s).A.a10 = 0 := by
  rw [zfc_xok] at hx
  simp only [Bool.and_eq_true] at hx
  refine ⟨hx.1, ?_⟩
  rw [zfc1_A]
  exact zero_entry _ _ hb hx.2

theorem zfc2_post (s : St) (hb : s.A.a20 ≠ 0) (hx : (zeroFirstColumn 2 s).xok = true) :
    s.xok = true ∧ (zeroFirstColumn 2 s).A.a20 = 0 ∧ (zeroFirstColumn 2 s).A.a10 = s.A.a10 := by
  rw [zfc_xok] at hx
  simp only [Bool.and_eq_true] at hx
  refine ⟨hx.1, ?_, ?_⟩
  · rw [zfc2_A]; exact zero_entry _ _ hb hx.2
  · rw [zfc2_A]

theorem rowOp_xok (L : M3 Int) (s : St) : (rowOp L s).xok = s.xok := rfl
theorem tr_xok (s : St) : (tr s).xok = s.xok := rfl

theorem firstColumn_post (s s' : St) (h : firstColumn s = .ok s') (hx : s'.xok = true) :
    s.xok = true ∧ s'.A.a10 = 0 ∧ s'.A.a20 = 0 := by
  unfold firstColumn at h
  split at h
  · cases h
  · next i _ =>
    simp only [Except.ok.injEq] at h
    subst h
    have e1 : (if i ≠ 0 then rowOp (swapL 0 i) s else s).xok = s.xok := by split <;> rfl
    generalize (if i ≠ 0 then rowOp (swapL 0 i) s else s) = s1 at e1 hx ⊢
    rw [← e1]
    -- stage 2
    have key2 : ∀ s2 : St, s2 = (if s1.A.a10 ≠ 0 then zeroFirstColumn 1 s1 else s1) →
        (if s2.A.a20 ≠ 0 then zeroFirstColumn 2 s2 else s2).xok = true →
        s1.xok = true ∧ (if s2.A.a20 ≠ 0 then zeroFirstColumn 2 s2 else s2).A.a10 = 0 ∧
          (if s2.A.a20 ≠ 0 then zeroFirstColumn 2 s2 else s2).A.a20 = 0 := by
      intro s2 hs2 hx3
      have h2 : s2.xok = true ∧ (if s2.A.a20 ≠ 0 then zeroFirstColumn 2 s2 else s2).A.a20 = 0 ∧
          (if s2.A.a20 ≠ 0 then zeroFirstColumn 2 s2 else s2).A.a10 = s2.A.a10 := by
        by_cases hb : s2.A.a20 ≠ 0
        · rw [if_pos hb] at hx3 ⊢; exact zfc2_post s2 hb hx3
        · rw [if_neg hb] at hx3 ⊢; exact ⟨hx3, not_not.mp hb, rfl⟩
      obtain ⟨hx2, hz20, hz10⟩ := h2
      have h1 : s1.xok = true ∧ s2.A.a10 = 0 := by
        by_cases hb : s1.A.a10 ≠ 0
        · rw [if_pos hb] at hs2; rw [hs2] at hx2 ⊢; exact zfc1_post s1 hb hx2
        · rw [if_neg hb] at hs2; rw [hs2] at hx2 ⊢; exact ⟨hx2, not_not.mp hb⟩
      exact ⟨h1.1, by rw [hz10]; exact h1.2, hz20⟩
    exact key2 _ rfl hx

/-- the pattern `a02 = a12 = a20 = a21 = 0` (block `{0,1}` ⊕ `{2}`) -/
def B01 (A : M3 Int) : Prop := A.a02 = 0 ∧ A.a12 = 0 ∧ A.a20 = 0 ∧ A.a21 = 0
/-- first row and column cleared -/
def Z1 (A : M3 Int) : Prop := A.a01 = 0 ∧ A.a02 = 0 ∧ A.a10 = 0 ∧ A.a20 = 0
def Diag (A : M3 Int) : Prop := A.a01 = 0 ∧ A.a02 = 0 ∧ A.a10 = 0 ∧ A.a12 = 0 ∧ A.a20 = 0 ∧ A.a21 = 0

theorem B01_transpose {A : M3 Int} (h : B01 A) : B01 A.transpose := ⟨h.2.2.1, h.2.2.2, h.1, h.2.1⟩
theorem Z1_transpose {A : M3 Int} (h : Z1 A) : Z1 A.transpose := ⟨h.2.2.1, h.2.2.2, h.1, h.2.1⟩
theorem Diag_transpose {A : M3 Int} (h : Diag A) : Diag A.transpose :=
  ⟨h.2.2.1, h.2.2.2.2.1, h.1, h.2.2.2.2.2, h.2.1, h.2.2.2.1⟩
theorem diag_of {A : M3 Int} (h1 : Z1 A) (h2 : A.a12 = 0 ∧ A.a21 = 0) : Diag A :=
  ⟨h1.1, h1.2.1, h1.2.2.1, h2.1, h1.2.2.2, h2.2⟩
theorem Diag.toB01 {A : M3 Int} (h : Diag A) : B01 A := ⟨h.2.1, h.2.2.2.1, h.2.2.2.2.1, h.2.2.2.2.2⟩
theorem Diag.toZ1 {A : M3 Int} (h : Diag A) : Z1 A := ⟨h.1, h.2.1, h.2.2.1, h.2.2.2.2.1⟩

theorem swap01_A (s : St) : (rowOp (swapL 0 1) s).A =
    ⟨s.A.a10, s.A.a11, s.A.a12, s.A.a00, s.A.a01, s.A.a02, s.A.a20, s.A.a21, s.A.a22⟩ := by
  have : swapL 0 1 = ⟨0,1,0,1,0,0,0,0,1⟩ := by decide
  simp [rowOp, this, M3.mul_def, M3.mul]
theorem swap12_A (s : St) : (rowOp (swapL 1 2) s).A =
    ⟨s.A.a00, s.A.a01, s.A.a02, s.A.a20, s.A.a21, s.A.a22, s.A.a10, s.A.a11, s.A.a12⟩ := by
  have : swapL 1 2 = ⟨1,0,0,0,0,1,0,1,0⟩ := by decide
  simp [rowOp, this, M3.mul_def, M3.mul]

theorem firstColumn_B01 (s s' : St) (h : firstColumn s = .ok s') (hB : B01 s.A) : B01 s'.A := by
  unfold firstColumn at h
  obtain ⟨b02, b12, b20, b21⟩ := hB
  split at h
  · cases h
  · next i hi =>
    simp only [Except.ok.injEq] at h
    subst h
    have hi2 : i ≠ 2 := by
      intro h2; subst h2
      unfold searchFirstPivot at hi
      split at hi
      · cases hi
      · split at hi
        · cases hi
        · split at hi
          · next h20 => exact h20 b20
          · cases hi
    have h1 : B01 (if i ≠ 0 then rowOp (swapL 0 i) s else s).A := by
      split
      · next hi0 =>
        have hfin : ∀ k : Fin 3, k ≠ 0 → k ≠ 2 → k = 1 := by decide
        have := hfin i hi0 hi2
        subst this
        rw [swap01_A]; exact ⟨b12, b02, b20, b21⟩
      · exact ⟨b02, b12, b20, b21⟩
    generalize (if i ≠ 0 then rowOp (swapL 0 i) s else s) = s1 at h1 ⊢
    have h2 : B01 (if s1.A.a10 ≠ 0 then zeroFirstColumn 1 s1 else s1).A := by
      split
      · rw [zfc1_A]; obtain ⟨c02, c12, c20, c21⟩ := h1
        exact ⟨by simp [c02, c12], by simp [c02, c12], c20, c21⟩
      · exact h1
    generalize (if s1.A.a10 ≠ 0 then zeroFirstColumn 1 s1 else s1) = s2 at h2 ⊢
    rw [if_neg (by rw [h2.2.2.1]; simp)]
    exact h2

end PhononModel.SNF

namespace PhononModel.SNF
open PhononModel

/-- determinant stays non-zero while the `Xgcd` loops are regular -/
def DetNZ (s : St) : Prop := s.xok = true → s.A.det ≠ 0

theorem detNZ_adm : Adm DetNZ DetNZ := by
  have row : ∀ (L : M3 Int) (s : St), L.det * L.det = 1 → DetNZ s → DetNZ (rowOp L s) := by
    intro L s hL h hx
    show (L * s.A).det ≠ 0
    rw [M3.det_mul]
    have hl : L.det ≠ 0 := by intro h0; rw [h0] at hL; simp at hL
    exact mul_ne_zero hl (h hx)
  have bad : ∀ (L : M3 Int) (s : St), DetNZ s → DetNZ (rowOp L { s with xok := false }) := by
    intro L s _ hx; simp [rowOp] at hx
  have trn : ∀ s, DetNZ s → DetNZ (tr s) := by
    intro s h hx
    show s.A.transpose.det ≠ 0
    rw [M3.det_transpose]; exact h hx
  exact ⟨row, bad, row, bad, trn, trn⟩

theorem firstOneLoop_split (s s' : St) (h : firstOneLoop s = .ok s') :
    ∃ s1 s2, firstColumn s = .ok s1 ∧ firstColumn (tr s1) = .ok s2 ∧ s' = tr s2 := by
  unfold firstOneLoop at h
  simp only [bind, Except.bind, pure, Except.pure] at h
  split at h
  · cases h
  · next s1 h1 =>
    split at h
    · cases h
    · next s2 h2 =>
      simp only [Except.ok.injEq] at h
      exact ⟨s1, s2, h1, h2, h.symm⟩

theorem firstOneLoop_post (s s' : St) (h : firstOneLoop s = .ok s') (hx : s'.xok = true) :
    s.xok = true ∧ s'.A.a01 = 0 ∧ s'.A.a02 = 0 := by
  obtain ⟨s1, s2, h1, h2, rfl⟩ := firstOneLoop_split s s' h
  obtain ⟨hx1, z10, z20⟩ := firstColumn_post _ _ h2 hx
  obtain ⟨hx0, -, -⟩ := firstColumn_post _ _ h1 hx1
  exact ⟨hx0, z10, z20⟩

theorem firstOneLoop_B01 (s s' : St) (h : firstOneLoop s = .ok s') (hB : B01 s.A) : B01 s'.A := by
  obtain ⟨s1, s2, h1, h2, rfl⟩ := firstOneLoop_split s s' h
  exact B01_transpose (firstColumn_B01 _ _ h2 (B01_transpose (firstColumn_B01 _ _ h1 hB)))

theorem firstFinalize_A (s : St) : (firstFinalize s).A =
    ⟨s.A.a00, s.A.a01, s.A.a02,
     pyDiv (-s.A.a10) s.A.a00 * s.A.a00 + s.A.a10, pyDiv (-s.A.a10) s.A.a00 * s.A.a01 + s.A.a11,
     pyDiv (-s.A.a10) s.A.a00 * s.A.a02 + s.A.a12,
     pyDiv (-s.A.a20) s.A.a00 * s.A.a00 + s.A.a20, pyDiv (-s.A.a20) s.A.a00 * s.A.a01 + s.A.a21,
     pyDiv (-s.A.a20) s.A.a00 * s.A.a02 + s.A.a22⟩ := by
  simp [firstFinalize, rowOp, SNF.set, M3.ofFn, eye, M3.one, M3.get, M3.mul_def, M3.mul]

/-- exact quotient from the `%` test of `_first` / `_second` -/
theorem pyDiv_exact (a b : Int) (hb : b ≠ 0) (hm : pyMod a b = 0) : pyDiv (-a) b * b + a = 0 := by
  simp only [pyMod, if_neg hb] at hm
  obtain ⟨k, rfl⟩ := Int.dvd_of_fmod_eq_zero hm
  simp only [pyDiv, if_neg hb]
  rw [← mul_neg, Int.mul_fdiv_cancel_left _ hb]; ring

theorem pyDiv_zero (b : Int) : pyDiv (-0) b = 0 := by
  simp [pyDiv, Int.zero_fdiv]

theorem first_split (s s' : St) (b : Bool) (h : first s = .ok (s', b)) :
    ∃ s1, firstOneLoop s = .ok s1 ∧
      ((s1.A.a10 = 0 ∧ s1.A.a20 = 0 ∧ s' = s1 ∧ b = true) ∨
       (¬(s1.A.a10 = 0 ∧ s1.A.a20 = 0) ∧ pyMod s1.A.a10 s1.A.a00 = 0 ∧ pyMod s1.A.a20 s1.A.a00 = 0 ∧
          s' = firstFinalize s1 ∧ b = true) ∨
       (s' = s1 ∧ b = false)) := by
  unfold first at h
  simp only [bind, Except.bind, pure, Except.pure] at h
  split at h
  · cases h
  · next s1 h1 =>
    refine ⟨s1, h1, ?_⟩
    split at h
    · next hc =>
      simp only [Except.ok.injEq, Prod.mk.injEq] at h
      exact Or.inl ⟨hc.1, hc.2, h.1.symm, h.2.symm⟩
    · next hc =>
      split at h
      · next hm =>
        simp only [Except.ok.injEq, Prod.mk.injEq] at h
        exact Or.inr (Or.inl ⟨hc, hm.1, hm.2, h.1.symm, h.2.symm⟩)
      · simp only [Except.ok.injEq, Prod.mk.injEq] at h
        exact Or.inr (Or.inr ⟨h.1.symm, h.2.symm⟩)

theorem firstFinalize_xok (s : St) : (firstFinalize s).xok = s.xok := rfl

theorem first_xok_mono (s s' : St) (b : Bool) (h : first s = .ok (s', b)) (hx : s'.xok = true) : s.xok = true := by
  obtain ⟨s1, h1, hc⟩ := first_split s s' b h
  have : s1.xok = true := by
    rcases hc with ⟨_, _, rfl, _⟩ | ⟨_, _, _, rfl, _⟩ | ⟨rfl, _⟩
    · exact hx
    · exact hx
    · exact hx
  exact (firstOneLoop_post s s1 h1 this).1

theorem det_of_row0 (A : M3 Int) (h1 : A.a01 = 0) (h2 : A.a02 = 0) :
    A.det = A.a00 * (A.a11 * A.a22 - A.a12 * A.a21) := by
  simp only [M3.det, h1, h2]; ring

/-- `_first()` returning `True` (with regular `Xgcd` loops, non-singular matrix) has cleared the first row and column -/
theorem first_post (s s' : St) (h : first s = .ok (s', true)) (hd : DetNZ s) (hx : s'.xok = true) : Z1 s'.A := by
  obtain ⟨s1, h1, hc⟩ := first_split s s' true h
  have hd1 : DetNZ s1 := firstOneLoop_adm detNZ_adm _ _ h1 hd
  rcases hc with ⟨c10, c20, rfl, _⟩ | ⟨_, m1, m2, rfl, _⟩ | ⟨_, hb⟩
  · obtain ⟨_, z01, z02⟩ := firstOneLoop_post s s' h1 hx
    exact ⟨z01, z02, c10, c20⟩
  · have hx1 : s1.xok = true := hx
    obtain ⟨_, z01, z02⟩ := firstOneLoop_post s s1 h1 hx1
    have hdet := hd1 hx1
    rw [det_of_row0 _ z01 z02] at hdet
    have h00 : s1.A.a00 ≠ 0 := left_ne_zero_of_mul hdet
    rw [firstFinalize_A]
    exact ⟨z01, z02, pyDiv_exact _ _ h00 m1, pyDiv_exact _ _ h00 m2⟩
  · cases hb

theorem first_B01 (s s' : St) (b : Bool) (h : first s = .ok (s', b)) (hB : B01 s.A) : B01 s'.A := by
  obtain ⟨s1, h1, hc⟩ := first_split s s' b h
  have hB1 := firstOneLoop_B01 s s1 h1 hB
  rcases hc with ⟨_, _, rfl, _⟩ | ⟨_, _, _, rfl, _⟩ | ⟨rfl, _⟩
  · exact hB1
  · obtain ⟨b02, b12, b20, b21⟩ := hB1
    rw [firstFinalize_A]
    refine ⟨b02, by simp [b02, b12], ?_, ?_⟩
    · simp only [b20]; rw [pyDiv_zero]; simp
    · simp only [b20, b21]; rw [pyDiv_zero]; simp
  · exact hB1

/-! ### second column -/

theorem blockL_Z1 (L A : M3 Int) (hL : L.a01 = 0 ∧ L.a02 = 0 ∧ L.a10 = 0 ∧ L.a20 = 0) (hA : Z1 A) : Z1 (L * A) := by
  obtain ⟨l1, l2, l3, l4⟩ := hL
  obtain ⟨a1, a2, a3, a4⟩ := hA
  simp [Z1, M3.mul_def, M3.mul, l1, l2, l3, l4, a1, a2, a3, a4]

theorem secondColumn_Z1 (s : St) (h : Z1 s.A) : Z1 (secondColumn s).A := by
  unfold secondColumn
  have h1 : Z1 (if s.A.a11 = 0 ∧ s.A.a21 ≠ 0 then rowOp (swapL 1 2) s else s).A := by
    split
    · rw [swap12_A]; exact ⟨h.1, h.2.1, h.2.2.2, h.2.2.1⟩
    · exact h
  generalize (if s.A.a11 = 0 ∧ s.A.a21 ≠ 0 then rowOp (swapL 1 2) s else s) = s1 at h1 ⊢
  simp only
  split
  · rw [zsc_A]; obtain ⟨a1, a2, a3, a4⟩ := h1
    exact ⟨a1, a2, by simp [a3, a4], by simp [a3, a4]⟩
  · exact h1

theorem secondColumn_post (s : St) (hx : (secondColumn s).xok = true) :
    s.xok = true ∧ (secondColumn s).A.a21 = 0 := by
  unfold secondColumn at hx ⊢
  by_cases hc : s.A.a11 = 0 ∧ s.A.a21 ≠ 0
  · simp only [if_pos hc] at hx ⊢
    have e : (rowOp (swapL 1 2) s).A.a21 = 0 := by rw [swap12_A]; exact hc.1
    rw [if_neg (by rw [e]; simp)] at hx ⊢
    exact ⟨hx, e⟩
  · simp only [if_neg hc] at hx ⊢
    by_cases hb : s.A.a21 ≠ 0
    · rw [if_pos hb] at hx ⊢
      rw [zsc_xok] at hx
      simp only [Bool.and_eq_true] at hx
      refine ⟨hx.1, ?_⟩
      rw [zsc_A]; exact zero_entry _ _ hb hx.2
    · rw [if_neg hb] at hx ⊢
      exact ⟨hx, not_not.mp hb⟩

theorem secondOneLoop_post (s : St) (hx : (secondOneLoop s).xok = true) :
    s.xok = true ∧ (secondOneLoop s).A.a12 = 0 := by
  unfold secondOneLoop at hx ⊢
  obtain ⟨hx1, z⟩ := secondColumn_post (tr (secondColumn s)) hx
  obtain ⟨hx0, -⟩ := secondColumn_post s hx1
  exact ⟨hx0, z⟩

theorem secondOneLoop_Z1 (s : St) (h : Z1 s.A) : Z1 (secondOneLoop s).A := by
  unfold secondOneLoop
  exact Z1_transpose (secondColumn_Z1 _ (Z1_transpose (secondColumn_Z1 s h)))

theorem secondFinalize_A (s : St) : (secondFinalize s).A =
    ⟨s.A.a00, s.A.a01, s.A.a02, s.A.a10, s.A.a11, s.A.a12,
     pyDiv (-s.A.a21) s.A.a11 * s.A.a10 + s.A.a20, pyDiv (-s.A.a21) s.A.a11 * s.A.a11 + s.A.a21,
     pyDiv (-s.A.a21) s.A.a11 * s.A.a12 + s.A.a22⟩ := by
  simp [secondFinalize, rowOp, SNF.set, M3.ofFn, eye, M3.one, M3.get, M3.mul_def, M3.mul]

theorem second_Z1 (s : St) (h : Z1 s.A) : Z1 (second s).1.A := by
  unfold second
  have h1 := secondOneLoop_Z1 s h
  simp only
  split
  · exact h1
  · split
    · rw [secondFinalize_A]; obtain ⟨a1, a2, a3, a4⟩ := h1
      exact ⟨a1, a2, a3, by simp [a3, a4]⟩
    · exact h1

theorem second_xok_mono (s : St) (hx : (second s).1.xok = true) : s.xok = true := by
  unfold second at hx
  simp only at hx
  have : (secondOneLoop s).xok = true := by
    split at hx
    · exact hx
    · split at hx
      · exact hx
      · exact hx
  exact (secondOneLoop_post s this).1

/-- `_second()` returning `True` on a matrix with cleared first row/column leaves it diagonal -/
theorem second_post (s : St) (hZ : Z1 s.A) (hd : DetNZ s) (hb : (second s).2 = true) (hx : (second s).1.xok = true) :
    Diag (second s).1.A := by
  have hd1 : DetNZ (secondOneLoop s) := secondOneLoop_adm detNZ_adm s hd
  have hZ1 := secondOneLoop_Z1 s hZ
  unfold second at hb hx ⊢
  simp only at hb hx ⊢
  split
  · next c21 =>
    rw [if_pos c21] at hx
    obtain ⟨_, z12⟩ := secondOneLoop_post s hx
    exact diag_of hZ1 ⟨z12, c21⟩
  · next c21 =>
    rw [if_neg c21] at hx hb
    split
    · next hm =>
      rw [if_pos hm] at hx
      have hx1 : (secondOneLoop s).xok = true := hx
      obtain ⟨_, z12⟩ := secondOneLoop_post s hx1
      have hdet := hd1 hx1
      rw [det_of_row0 _ hZ1.1 hZ1.2.1, z12] at hdet
      have h11 : (secondOneLoop s).A.a11 ≠ 0 := by
        intro h0; apply hdet; rw [h0]; ring
      rw [secondFinalize_A]
      obtain ⟨a1, a2, a3, a4⟩ := hZ1
      exact ⟨a1, a2, a3, z12, by simp [a3, a4], pyDiv_exact _ _ h11 hm⟩
    · next hm => rw [if_neg hm] at hb; cases hb

end PhononModel.SNF

namespace PhononModel.SNF
open PhononModel

/-! ### `_finalize` -/

theorem rowOp_A (L : M3 Int) (s : St) : (rowOp L s).A = L * s.A := rfl
theorem tr_A (s : St) : (tr s).A = s.A.transpose := rfl

theorem flipL_diag : ∀ i : Fin 3, Diag (flipL i) := by unfold Diag; decide

theorem diagL_Diag (L A : M3 Int) (hL : Diag L) (hA : Diag A) : Diag (L * A) := by
  obtain ⟨l1, l2, l3, l4, l5, l6⟩ := hL
  obtain ⟨a1, a2, a3, a4, a5, a6⟩ := hA
  simp [Diag, M3.mul_def, M3.mul, l1, l2, l3, l4, l5, l6, a1, a2, a3, a4, a5, a6]

theorem flipNeg_Diag (i : Fin 3) (s : St) (h : Diag s.A) : Diag (flipNeg i s).A := by
  unfold flipNeg
  split
  · rw [rowOp_A]; exact diagL_Diag _ _ (flipL_diag i) h
  · exact h

theorem flipNeg_xok (i : Fin 3) (s : St) : (flipNeg i s).xok = s.xok := by
  unfold flipNeg; split <;> rfl

theorem swapDiag01_A (s : St) : (swapDiagElems 0 1 s).A =
    ⟨s.A.a11, s.A.a10, s.A.a12, s.A.a01, s.A.a00, s.A.a02, s.A.a21, s.A.a20, s.A.a22⟩ := by
  simp [swapDiagElems, tr_A, swap01_A, M3.transpose]

theorem swapDiag12_A (s : St) : (swapDiagElems 1 2 s).A =
    ⟨s.A.a00, s.A.a02, s.A.a01, s.A.a20, s.A.a22, s.A.a21, s.A.a10, s.A.a12, s.A.a11⟩ := by
  simp [swapDiagElems, tr_A, swap12_A, M3.transpose]

theorem swapDiag_xok (i j : Fin 3) (s : St) : (swapDiagElems i j s).xok = s.xok := rfl

theorem swapDiag01_Diag (s : St) (h : Diag s.A) : Diag (swapDiagElems 0 1 s).A := by
  rw [swapDiag01_A]; obtain ⟨a1, a2, a3, a4, a5, a6⟩ := h; exact ⟨a3, a4, a1, a2, a6, a5⟩

theorem swapDiag12_Diag (s : St) (h : Diag s.A) : Diag (swapDiagElems 1 2 s).A := by
  rw [swapDiag12_A]; obtain ⟨a1, a2, a3, a4, a5, a6⟩ := h; exact ⟨a2, a1, a5, a6, a3, a4⟩

theorem ite_prop {P : St → Prop} {c : Prop} [Decidable c] (f : St → St) (hf : ∀ s, P s → P (f s)) (s : St) (hs : P s) :
    P (if c then f s else s) := by
  split
  · exact hf s hs
  · exact hs

theorem finalizeSort_Diag (s : St) (h : Diag s.A) : Diag (finalizeSort s).A := by
  unfold finalizeSort
  simp only
  refine ite_prop (P := fun s => Diag s.A) (swapDiagElems 0 1) swapDiag01_Diag _ ?_
  refine ite_prop (P := fun s => Diag s.A) (swapDiagElems 1 2) swapDiag12_Diag _ ?_
  exact ite_prop (P := fun s => Diag s.A) (swapDiagElems 0 1) swapDiag01_Diag _ h

theorem finalizeSort_xok (s : St) (b : Bool) (h : s.xok = b) : (finalizeSort s).xok = b := by
  unfold finalizeSort
  simp only
  refine ite_prop (P := fun s => s.xok = b) (swapDiagElems 0 1) (fun s hs => hs) _ ?_
  refine ite_prop (P := fun s => s.xok = b) (swapDiagElems 1 2) (fun s hs => hs) _ ?_
  exact ite_prop (P := fun s => s.xok = b) (swapDiagElems 0 1) (fun s hs => hs) _ h

theorem finalizeDisturb_xok (i j : Fin 3) (s : St) : (finalizeDisturb i j s).xok = s.xok := by
  unfold finalizeDisturb; split <;> rfl

theorem finalizeDisturb01_B01 (s : St) (h : Diag s.A) : B01 (finalizeDisturb 0 1 s).A := by
  unfold finalizeDisturb
  split
  · have : disturbL 0 1 = ⟨1,1,0,0,1,0,0,0,1⟩ := by decide
    obtain ⟨a1, a2, a3, a4, a5, a6⟩ := h
    simp [B01, tr_A, rowOp_A, this, M3.mul_def, M3.mul, M3.transpose, a1, a2, a3, a4, a5, a6]
  · exact h.toB01

theorem finalizeDisturb12_Z1 (s : St) (h : Diag s.A) : Z1 (finalizeDisturb 1 2 s).A := by
  unfold finalizeDisturb
  split
  · have : disturbL 1 2 = ⟨1,0,0,0,1,1,0,0,1⟩ := by decide
    obtain ⟨a1, a2, a3, a4, a5, a6⟩ := h
    simp [Z1, tr_A, rowOp_A, this, M3.mul_def, M3.mul, M3.transpose, a1, a2, a3, a4, a5, a6]
  · exact h.toZ1

theorem preFinalize_split (s s' : St) (b : Bool) (h : preFinalize s = .ok (s', b)) :
    ∃ s1 b1, first (finalizeDisturb 0 1 (finalizeSort (flipNeg 2 (flipNeg 1 (flipNeg 0 s))))) = .ok (s1, b1) ∧
      s' = (second (finalizeDisturb 1 2 (finalizeSort s1))).1 ∧
      b = (b1 && (second (finalizeDisturb 1 2 (finalizeSort s1))).2) := by
  unfold preFinalize at h
  simp only [bind, Except.bind, pure, Except.pure] at h
  split at h
  · cases h
  · next p h1 =>
    obtain ⟨s1, b1⟩ := p
    simp only [Except.ok.injEq, Prod.mk.injEq] at h
    exact ⟨s1, b1, h1, h.1.symm, h.2.symm⟩

theorem preFinalize_post (s s' : St) (b : Bool) (h : preFinalize s = .ok (s', b)) (hD : Diag s.A) (hd : DetNZ s)
    (hx : s'.xok = true) (hb : b = true) : Diag s'.A ∧ s.xok = true := by
  obtain ⟨s1, b1, h1, rfl, rfl⟩ := preFinalize_split s s' b h
  simp only [Bool.and_eq_true] at hb
  obtain ⟨hb1, hb2⟩ := hb
  subst hb1
  -- xok backwards
  have hx2 : (finalizeDisturb 1 2 (finalizeSort s1)).xok = true := second_xok_mono _ hx
  have hx1 : s1.xok = true := by
    rw [finalizeDisturb_xok] at hx2
    by_contra hne
    have hf : s1.xok = false := by simpa using hne
    rw [finalizeSort_xok s1 false hf] at hx2; cases hx2
  set s0 := finalizeDisturb 0 1 (finalizeSort (flipNeg 2 (flipNeg 1 (flipNeg 0 s)))) with hs0
  have hx0 : s0.xok = true := first_xok_mono _ _ _ h1 hx1
  have hxs : s.xok = true := by
    rw [hs0, finalizeDisturb_xok] at hx0
    by_contra hne
    have hf : s.xok = false := by simpa using hne
    have : (flipNeg 2 (flipNeg 1 (flipNeg 0 s))).xok = false := by
      rw [flipNeg_xok, flipNeg_xok, flipNeg_xok]; exact hf
    rw [finalizeSort_xok _ false this] at hx0; cases hx0
  -- forwards
  have hDf : Diag (flipNeg 2 (flipNeg 1 (flipNeg 0 s))).A := flipNeg_Diag _ _ (flipNeg_Diag _ _ (flipNeg_Diag _ _ hD))
  have hB0 : B01 s0.A := finalizeDisturb01_B01 _ (finalizeSort_Diag _ hDf)
  have hd0 : DetNZ s0 := by
    apply finalizeDisturb_adm detNZ_adm _ _ (by decide)
    apply finalizeSort_adm detNZ_adm
    exact flipNeg_adm detNZ_adm _ _ (flipNeg_adm detNZ_adm _ _ (flipNeg_adm detNZ_adm _ _ hd))
  have hB1 : B01 s1.A := first_B01 _ _ _ h1 hB0
  have hZ1 : Z1 s1.A := first_post _ _ h1 hd0 hx1
  have hD1 : Diag s1.A := diag_of hZ1 ⟨hB1.2.1, hB1.2.2.2⟩
  have hd1 : DetNZ s1 := first_adm detNZ_adm _ _ _ h1 hd0
  have hZ2 : Z1 (finalizeDisturb 1 2 (finalizeSort s1)).A := finalizeDisturb12_Z1 _ (finalizeSort_Diag _ hD1)
  have hd2 : DetNZ (finalizeDisturb 1 2 (finalizeSort s1)) :=
    finalizeDisturb_adm detNZ_adm _ _ (by decide) _ (finalizeSort_adm detNZ_adm _ hd1)
  exact ⟨second_post _ hZ2 hd2 hb2 hx, hxs⟩

theorem next_split (s s' : St) (r : Option Bool) (h : next s = .ok (s', r)) :
    (∃ s1 s2 ok, first s = .ok (s1, true) ∧ (second s1).2 = true ∧ preFinalize (second s1).1 = .ok (s2, ok) ∧
        s' = setPQ s2 ∧ r = some ok) ∨ r = none := by
  unfold next at h
  simp only [bind, Except.bind, pure, Except.pure] at h
  split at h
  · cases h
  · next p h1 =>
    obtain ⟨s1, b1⟩ := p
    simp only at h
    split at h
    · next hb1 =>
      subst hb1
      split at h
      · next hb2 =>
        rw [finalize_eq] at h
        cases hp : preFinalize (second s1).1 with
        | error e => rw [hp] at h; simp [Except.map] at h
        | ok p2 =>
          obtain ⟨s2, ok⟩ := p2
          rw [hp] at h
          simp only [Except.map, Except.ok.injEq, Prod.mk.injEq] at h
          exact Or.inl ⟨s1, s2, ok, h1, hb2, hp, h.1.symm, h.2.symm⟩
      · simp only [Except.ok.injEq, Prod.mk.injEq] at h
        exact Or.inr h.2.symm
    · simp only [Except.ok.injEq, Prod.mk.injEq] at h
      exact Or.inr h.2.symm

/-- a `__next__` that raises `StopIteration` leaves a diagonal matrix -/
theorem next_diag (s s' : St) (ok : Bool) (h : next s = .ok (s', some ok)) (hd : DetNZ s)
    (hx : s'.xok = true) (hok : ok = true) : Diag s'.A := by
  rcases next_split s s' _ h with ⟨s1, s2, ok', h1, hb2, hp, rfl, hr⟩ | hr
  · simp only [Option.some.injEq] at hr
    subst hr
    have hx2 : s2.xok = true := by rw [← (setPQ_A s2).2]; exact hx
    rw [(setPQ_A s2).1]
    have hd1 : DetNZ s1 := first_adm detNZ_adm _ _ _ h1 hd
    have hds : DetNZ (second s1).1 := second_adm detNZ_adm _ hd1
    -- xok of the state entering `_finalize`, by running preFinalize_post's backward part on a diagonal input:
    -- first establish diagonality assuming xok, which itself follows from the run being regular
    have hxs : (second s1).1.xok = true := by
      -- xok only decreases along preFinalize
      obtain ⟨t1, c1, g1, rfl, _⟩ := preFinalize_split _ _ _ hp
      have g2 : (finalizeDisturb 1 2 (finalizeSort t1)).xok = true := second_xok_mono _ hx2
      have g3 : t1.xok = true := by
        rw [finalizeDisturb_xok] at g2
        by_contra hne
        have hf : t1.xok = false := by simpa using hne
        rw [finalizeSort_xok t1 false hf] at g2; cases g2
      have g4 := first_xok_mono _ _ _ g1 g3
      rw [finalizeDisturb_xok] at g4
      by_contra hne
      have hf : (second s1).1.xok = false := by simpa using hne
      have : (flipNeg 2 (flipNeg 1 (flipNeg 0 (second s1).1))).xok = false := by
        rw [flipNeg_xok, flipNeg_xok, flipNeg_xok]; exact hf
      rw [finalizeSort_xok _ false this] at g4; cases g4
    have hx1 : s1.xok = true := second_xok_mono _ hxs
    have hZ1 : Z1 s1.A := first_post _ _ h1 hd hx1
    have hD2 : Diag (second s1).1.A := second_post _ hZ1 hd1 hb2 hxs
    exact (preFinalize_post _ _ _ hp hD2 hds hx2 hok).1
  · cases hr

theorem runLoop_diag : ∀ (fuel k : Nat) (s : St) (o : Out), runLoop fuel k s = .ok o → DetNZ s →
    o.finished = true → o.xok = true → o.finOk = true → Diag o.D
  | 0, k, s, o, h, _, hf, _, _ => by
    simp only [runLoop, Except.ok.injEq] at h
    subst h; cases hf
  | fuel+1, k, s, o, h, hd, hf, hx, hok => by
    simp only [runLoop] at h
    split at h
    · cases h
    · next s1 ok hn =>
      simp only [Except.ok.injEq] at h
      subst h
      exact next_diag s s1 ok hn hd hx hok
    · next s1 hn =>
      have hd1 : DetNZ s1 := by
        rcases next_adm detNZ_adm _ _ _ hn hd with ⟨_, i1⟩ | ⟨_, hr, _⟩
        · exact i1
        · exact absurd rfl hr
      exact runLoop_diag fuel (k+1) s1 o h hd1 hf hx hok

theorem run_diag (fuel : Nat) (A : M3 Int) (o : Out) (hA : A.det ≠ 0) (h : run fuel A = .ok o)
    (hf : o.finished = true) (hx : o.xok = true) (hok : o.finOk = true) : o.D.isDiag = true := by
  have hd : DetNZ (St.init A) := fun _ => hA
  obtain ⟨a1, a2, a3, a4, a5, a6⟩ := runLoop_diag fuel 0 _ o h hd hf hx hok
  simp [M3.isDiag, a1, a2, a3, a4, a5, a6]

end PhononModel.SNF
