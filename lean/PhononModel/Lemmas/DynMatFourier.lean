import PhononModel.Lemmas.DynMatSym
import Mathlib.Algebra.Group.Subgroup.Defs
import Mathlib.Algebra.Order.Group.Defs
import Mathlib.Tactic.Abel
set_option linter.unusedSectionVars false
namespace PhononModel
open Finset
open scoped Classical

variable {R : Type} [Field R] [CharZero R] {V : Type} [AddCommGroup V]
variable {np nf ns nsv : Nat}

/-- The infinite harmonic crystal as seen from a supercell calculation.

Supercell atom `k` is the atom of sublattice `sub k` at position `xs k`; two positions that differ
by a vector of the supercell lattice `S` are the same supercell atom.  `Ψ i j r` is the force-constant
block `Φ(i0, j l)` of the infinite crystal as a function of the displacement `r = r(j l) − r(i 0)`;
it vanishes outside the finite set `supp i j`.  `tiling`: every such displacement ends on exactly one
supercell atom modulo `S` (supercell atoms = primitive atoms × lattice points mod `S`, property C04).
`sv` are the stored shortest vectors; each is an image of the pair it is stored for (property C05). -/
structure LatticeModel (V R : Type) [AddCommGroup V] [Field R] {np nf ns nsv : Nat}
    (T : DTables np nf ns nsv) where
  S : AddSubgroup V
  x : Fin np → V
  xs : Fin ns → V
  sub : Fin ns → Fin np
  hsub : ∀ k j, T.s2p k = T.p2s j ↔ sub k = j
  supp : Fin np → Fin np → Finset V
  Ψ : Fin np → Fin np → V → Fin 3 → Fin 3 → R
  tiling : ∀ i j r, r ∈ supp i j → ∃! k, sub k = j ∧ r - (xs k - x i) ∈ S
  sv : Fin nsv → V
  hsv : ∀ k i l, sv (T.svIdx k i l) - (xs k - x i) ∈ S

variable {T : DTables np nf ns nsv}

/-- supercell force constants of the infinite crystal: the periodic-image sum
`Φ_super(i, k) = Σ_{r ≡ x_k − x_i (mod S)} Ψ(i, sub k, r)`. -/
noncomputable def LatticeModel.superFC (L : LatticeModel V R T) : Fin np → Fin ns → Fin 3 → Fin 3 → R :=
  fun i k a b => ∑ r ∈ L.supp i (L.sub k), if r - (L.xs k - L.x i) ∈ L.S then L.Ψ i (L.sub k) r a b else 0

/-- **the lattice Fourier sum** `D(jj',q) = (m_j m_j')^{-1/2} Σ_l Φ(j0,j'l) e(r(j'l) − r(j0))`. -/
def LatticeModel.fourier (L : LatticeModel V R T) (e : V → Cx R) (s : Fin np → R) : DM np (Cx R) :=
  fun i a j b => Cx.ofR (s i * s j)⁻¹ * ∑ r ∈ L.supp i j, Cx.ofR (L.Ψ i j r a b) * e r

theorem Cx.ofR_sum {ι : Type} (t : Finset ι) (f : ι → R) : Cx.ofR (∑ i ∈ t, f i) = ∑ i ∈ t, Cx.ofR (f i) := by
  ext <;> simp

theorem Cx.ofR_ite (c : Prop) [Decidable c] (r : R) : Cx.ofR (if c then r else 0) = if c then Cx.ofR r else 0 := by
  split <;> simp

/-- core: if on every image carrying a non-zero force constant the averaged stored phase equals the
true phase, the computed block is the lattice Fourier sum. -/
theorem raw_eq_fourier (L : LatticeModel V R T) (e : V → Cx R) (s : Fin np → R)
    (fc : Fin nf → Fin ns → Fin 3 → Fin 3 → R) (hfc : ∀ i k a b, fc (T.p2s i) k a b = L.superFC i k a b)
    (havg : ∀ i k r a b, r ∈ L.supp i (L.sub k) → r - (L.xs k - L.x i) ∈ L.S →
      Cx.ofR (L.Ψ i (L.sub k) r a b) * phaseAvgC T (fun l => e (L.sv l)) k i = Cx.ofR (L.Ψ i (L.sub k) r a b) * e r) :
    dynmatRawC T (fun l => e (L.sv l)) (fun i j => s i * s j) fc = L.fourier e s := by
  funext i a j b
  rw [dynmatRawC_eq]
  unfold LatticeModel.fourier
  congr 1
  have step : ∀ k, (if T.s2p k = T.p2s j then Cx.ofR (fc (T.p2s i) k a b) * phaseAvgC T (fun l => e (L.sv l)) k i else 0)
      = ∑ r ∈ L.supp i j, if (L.sub k = j ∧ r - (L.xs k - L.x i) ∈ L.S) then Cx.ofR (L.Ψ i j r a b) * e r else 0 := by
    intro k
    by_cases hk : L.sub k = j
    · subst hk
      rw [if_pos ((L.hsub k _).mpr rfl), hfc, LatticeModel.superFC, Cx.ofR_sum, Finset.sum_mul]
      apply Finset.sum_congr rfl
      intro r hr
      by_cases hr2 : r - (L.xs k - L.x i) ∈ L.S
      · simp only [hr2, if_true, and_self, havg i k r a b hr hr2]
      · simp [hr2]
    · rw [if_neg (fun h => hk ((L.hsub k j).mp h))]
      simp [hk]
  simp only [step]
  rw [Finset.sum_comm]
  apply Finset.sum_congr rfl
  intro r hr
  obtain ⟨k0, ⟨hk1, hk2⟩, huniq⟩ := L.tiling i j r hr
  rw [Finset.sum_eq_single_of_mem k0 (Finset.mem_univ _)]
  · simp [hk1, hk2]
  · intro k _ hne
    rw [if_neg]
    intro hh
    exact hne (huniq k hh)


/-- a (not necessarily unitary) character of the vector group -/
structure IsChar (e : V → Cx R) : Prop where
  add : ∀ a b, e (a + b) = e a * e b
  zero : e 0 = 1

/-- unitary: `star (e a) = e (−a)` -/
def IsUnitaryChar (e : V → Cx R) : Prop := IsChar e ∧ ∀ a, Cx.conj (e a) = e (-a)

theorem IsChar.eq_of_sub_mem {e : V → Cx R} (he : IsChar e) (S : AddSubgroup V) (hS : ∀ n ∈ S, e n = 1)
    {a b : V} (h : a - b ∈ S) : e a = e b := by
  have : a = b + (a - b) := by abel
  rw [this, he.add, hS _ h, mul_one]

theorem phaseAvgC_const (T : DTables np nf ns nsv) (ph : Fin nsv → Cx R) (k : Fin ns) (i : Fin np) (z : Cx R)
    (h : ∀ l, ph (T.svIdx k i l) = z) : phaseAvgC T ph k i = z := by
  rw [phaseAvgC_eq]
  simp only [h, Finset.sum_const, Finset.card_univ, Fintype.card_fin, nsmul_eq_mul]
  have hm : ((T.mult k i : Nat) : R) ≠ 0 := by
    have := T.hpos k i
    exact_mod_cast (by omega : T.mult k i ≠ 0)
  rw [← Cx.ofR_natCast, ← mul_assoc, ← Cx.ofR_mul, inv_mul_cancel₀ hm, Cx.ofR_one, one_mul]

/-- **commensurate q** (`e` trivial on the supercell lattice): all images of a pair carry the same phase,
so the un-Hermitised block is the Fourier sum for any interaction range. -/
theorem raw_eq_fourier_commensurate (L : LatticeModel V R T) (e : V → Cx R) (he : IsChar e)
    (hcomm : ∀ n ∈ L.S, e n = 1) (s : Fin np → R)
    (fc : Fin nf → Fin ns → Fin 3 → Fin 3 → R) (hfc : ∀ i k a b, fc (T.p2s i) k a b = L.superFC i k a b) :
    dynmatRawC T (fun l => e (L.sv l)) (fun i j => s i * s j) fc = L.fourier e s := by
  apply raw_eq_fourier L e s fc hfc
  intro i k r a b _ hr2
  congr 1
  rw [phaseAvgC_const T _ k i (e (L.xs k - L.x i))]
  · exact (he.eq_of_sub_mem L.S hcomm hr2).symm
  · intro l; exact he.eq_of_sub_mem L.S hcomm (L.hsv k i l)

/-- **short range**: every displacement with a non-zero force constant is the only stored image of its pair. -/
def ShortRange (L : LatticeModel V R T) : Prop :=
  ∀ i k r, r ∈ L.supp i (L.sub k) → r - (L.xs k - L.x i) ∈ L.S →
    (∀ a b, L.Ψ i (L.sub k) r a b = 0) ∨ (∀ l, L.sv (T.svIdx k i l) = r)

theorem raw_eq_fourier_short_range (L : LatticeModel V R T) (hshort : ShortRange L) (e : V → Cx R) (s : Fin np → R)
    (fc : Fin nf → Fin ns → Fin 3 → Fin 3 → R) (hfc : ∀ i k a b, fc (T.p2s i) k a b = L.superFC i k a b) :
    dynmatRawC T (fun l => e (L.sv l)) (fun i j => s i * s j) fc = L.fourier e s := by
  apply raw_eq_fourier L e s fc hfc
  intro i k r a b hr hr2
  rcases hshort i k r hr hr2 with h0 | hall
  · simp [h0 a b]
  · congr 1
    apply phaseAvgC_const
    intro l; rw [hall l]

/-- index-permutation symmetry of the infinite crystal: `Φ(j l, i 0)ᵀ = Φ(i 0, j l)`. -/
structure LatticeModel.PermSym (L : LatticeModel V R T) : Prop where
  supp : ∀ i j r, r ∈ L.supp i j → -r ∈ L.supp j i
  psi : ∀ i j r a b, L.Ψ j i (-r) b a = L.Ψ i j r a b

/-- the Fourier sum of an index-permutation symmetric crystal is Hermitian (unitary character) -/
theorem fourier_hermitian (L : LatticeModel V R T) (hL : L.PermSym) (e : V → Cx R)
    (he : ∀ a, Cx.conj (e a) = e (-a)) (s : Fin np → R) (i a j b) :
    Cx.conj (L.fourier e s j b i a) = L.fourier e s i a j b := by
  unfold LatticeModel.fourier
  rw [Cx.conj_mul, Cx.conj_ofR, Cx.conj_sum, mul_comm (s j) (s i)]
  congr 1
  refine Finset.sum_nbij' (fun r => -r) (fun r => -r) ?_ ?_ ?_ ?_ ?_
  · intro r hr; exact hL.supp j i r hr
  · intro r hr; exact hL.supp i j r hr
  · intro r _; simp
  · intro r _; simp
  · intro r _
    rw [Cx.conj_mul, Cx.conj_ofR, he, ← hL.psi j i r b a]


/-- **range shorter than half the shortest supercell lattice vector ⇒ `ShortRange`.**
`N` is any length function (symmetric, triangle inequality) with values in an ordered group;
the stored vectors are minimal-length images (what the shortest-vector table is, C05);
every displacement with a non-zero force constant is shorter than half of every non-zero
supercell lattice vector. -/
theorem shortRange_of_length {Ω : Type} [AddCommGroup Ω] [LinearOrder Ω] [IsOrderedAddMonoid Ω]
    (L : LatticeModel V R T) (N : V → Ω) (hneg : ∀ v, N (-v) = N v) (htri : ∀ a b, N (a + b) ≤ N a + N b)
    (hmin : ∀ k i l, ∀ n ∈ L.S, N (L.sv (T.svIdx k i l)) ≤ N (L.sv (T.svIdx k i l) + n))
    (hrange : ∀ i j r, r ∈ L.supp i j → (∃ a b, L.Ψ i j r a b ≠ 0) → ∀ n ∈ L.S, n ≠ 0 → N r + N r < N n) :
    ShortRange L := by
  intro i k r hr hr2
  by_cases h0 : ∀ a b, L.Ψ i (L.sub k) r a b = 0
  · exact Or.inl h0
  · right
    have hex : ∃ a b, L.Ψ i (L.sub k) r a b ≠ 0 := by
      by_contra hc
      apply h0; intro a b; by_contra hab; exact hc ⟨a, b, hab⟩
    intro l
    by_contra hne
    set v := L.sv (T.svIdx k i l) with hv
    have hn : v - r ∈ L.S := by
      have := L.S.sub_mem (L.hsv k i l) hr2
      have e : v - r = (v - (L.xs k - L.x i)) - (r - (L.xs k - L.x i)) := by abel
      rw [e]; exact this
    have hn0 : v - r ≠ 0 := fun h => hne (sub_eq_zero.mp h)
    have h1 := hrange i (L.sub k) r hr hex (v - r) hn hn0
    have h2 : N (v - r) ≤ N v + N r := by
      have := htri v (-r); rwa [hneg, ← sub_eq_add_neg] at this
    have h3 : N v ≤ N r := by
      have := hmin k i l (-(v - r)) (L.S.neg_mem hn)
      have e : v + -(v - r) = r := by abel
      rwa [← hv, e] at this
    have h4 : N r + N r < N r + N r := by
      calc N r + N r < N (v - r) := h1
        _ ≤ N v + N r := h2
        _ ≤ N r + N r := by gcongr
    exact lt_irrefl _ h4


/-- if the stored images of the reversed pair are the negated images, the averaged phases are conjugate -/
theorem phaseAvgC_conj_of_neg (T : DTables np nf ns nsv) (sv : Fin nsv → V) (e : V → Cx R)
    (he : ∀ a, Cx.conj (e a) = e (-a)) (k k' : Fin ns) (i j : Fin np)
    (π : Fin (T.mult k i) ≃ Fin (T.mult k' j))
    (hπ : ∀ l, sv (T.svIdx k' j (π l)) = - sv (T.svIdx k i l)) :
    phaseAvgC T (fun l => e (sv l)) k' j = Cx.conj (phaseAvgC T (fun l => e (sv l)) k i) := by
  have hm : T.mult k' j = T.mult k i := by
    have := Fintype.card_congr π; simpa using this.symm
  have h1 : Cx.ofR ((T.mult k' j : Nat) : R)⁻¹ = Cx.ofR ((T.mult k i : Nat) : R)⁻¹ := by rw [hm]
  rw [phaseAvgC_eq, phaseAvgC_eq, Cx.conj_mul, Cx.conj_ofR, Cx.conj_sum, h1]
  congr 1
  rw [← Equiv.sum_comp π]
  apply Finset.sum_congr rfl
  intro l _
  rw [hπ, he]

/-- the Hermitised matrix is the Fourier sum: commensurate character, any range -/
theorem dynmatC_eq_fourier_comm (L : LatticeModel V R T) (hL : L.PermSym) (e : V → Cx R)
    (he : IsUnitaryChar e) (hcomm : ∀ n ∈ L.S, e n = 1) (s : Fin np → R)
    (fc : Fin nf → Fin ns → Fin 3 → Fin 3 → R) (hfc : ∀ i k a b, fc (T.p2s i) k a b = L.superFC i k a b) :
    dynmatC T (fun l => e (L.sv l)) (fun i j => s i * s j) fc = L.fourier e s := by
  unfold dynmatC
  rw [raw_eq_fourier_commensurate L e he.1 hcomm s fc hfc]
  exact hermC_fixed _ (fourier_hermitian L hL e he.2 s)

/-- the Hermitised matrix is the Fourier sum: any unitary character, short range -/
theorem dynmatC_eq_fourier_short (L : LatticeModel V R T) (hL : L.PermSym) (hshort : ShortRange L)
    (e : V → Cx R) (he : ∀ a, Cx.conj (e a) = e (-a)) (s : Fin np → R)
    (fc : Fin nf → Fin ns → Fin 3 → Fin 3 → R) (hfc : ∀ i k a b, fc (T.p2s i) k a b = L.superFC i k a b) :
    dynmatC T (fun l => e (L.sv l)) (fun i j => s i * s j) fc = L.fourier e s := by
  unfold dynmatC
  rw [raw_eq_fourier_short_range L hshort e s fc hfc]
  exact hermC_fixed _ (fourier_hermitian L hL e he s)

end PhononModel
