import PhononModel.Model.Mat3
import Mathlib.Tactic.Ring
import Mathlib.Tactic.LinearCombination
/-!
Algebra of the record matrices `M3`/`V3` over a commutative ring (used at `ℤ`, `ℚ`).
-/
set_option linter.unusedSectionVars false
namespace PhononModel
variable {R : Type} [CommRing R]

namespace V3
theorem add_def (a b : V3 R) : a + b = ⟨a.x + b.x, a.y + b.y, a.z + b.z⟩ := rfl
theorem sub_def (a b : V3 R) : a - b = ⟨a.x - b.x, a.y - b.y, a.z - b.z⟩ := rfl
theorem sub_add_cancel' (a b : V3 R) : a - b + b = a := by ext <;> simp [add_def, sub_def]
theorem add_sub_cancel' (a b : V3 R) : a + b - b = a := by ext <;> simp [add_def, sub_def]
end V3

namespace M3

theorem mul_def (a b : M3 R) : a * b = M3.mul a b := rfl

theorem mul_assoc' (a b c : M3 R) : a * b * c = a * (b * c) := by
  ext <;> simp only [mul_def, M3.mul] <;> ring

theorem one_mul' (a : M3 R) : (M3.one : M3 R) * a = a := by
  ext <;> simp [mul_def, M3.mul, M3.one]

theorem mul_one' (a : M3 R) : a * (M3.one : M3 R) = a := by
  ext <;> simp [mul_def, M3.mul, M3.one]

theorem transpose_mul (a b : M3 R) : (a * b).transpose = b.transpose * a.transpose := by
  ext <;> simp only [mul_def, M3.mul, M3.transpose] <;> ring

theorem transpose_transpose (a : M3 R) : a.transpose.transpose = a := rfl

theorem transpose_one : (M3.one : M3 R).transpose = M3.one := rfl

theorem det_mul (a b : M3 R) : (a * b).det = a.det * b.det := by
  simp only [mul_def, M3.mul, M3.det]; ring

theorem det_one : (M3.one : M3 R).det = 1 := by simp [M3.det, M3.one]

theorem det_transpose (a : M3 R) : a.transpose.det = a.det := by
  simp only [M3.det, M3.transpose]; ring

theorem det_neg (a : M3 R) : a.neg.det = - a.det := by
  simp only [M3.det, M3.neg, M3.map]; ring

theorem neg_mul_neg (a b c : M3 R) : a.neg * b * c.neg = a * b * c := by
  ext <;> simp only [mul_def, M3.mul, M3.neg, M3.map] <;> ring

theorem mul_adj (a : M3 R) : a * a.adj = M3.smul a.det M3.one := by
  ext <;> simp only [mul_def, M3.mul, M3.adj, M3.smul, M3.map, M3.one, M3.det] <;> ring

theorem adj_mul (a : M3 R) : a.adj * a = M3.smul a.det M3.one := by
  ext <;> simp only [mul_def, M3.mul, M3.adj, M3.smul, M3.map, M3.one, M3.det] <;> ring

theorem mulVec_mul (a b : M3 R) (v : V3 R) : (a * b).mulVec v = a.mulVec (b.mulVec v) := by
  ext <;> simp only [mul_def, M3.mul, M3.mulVec] <;> ring

theorem one_mulVec (v : V3 R) : (M3.one : M3 R).mulVec v = v := by
  ext <;> simp [M3.mulVec, M3.one]

theorem mulVec_add (a : M3 R) (v w : V3 R) : a.mulVec (v + w) = a.mulVec v + a.mulVec w := by
  ext <;> simp only [M3.mulVec, V3.add_def] <;> ring

theorem mulVec_sub (a : M3 R) (v w : V3 R) : a.mulVec (v - w) = a.mulVec v - a.mulVec w := by
  ext <;> simp only [M3.mulVec, V3.sub_def] <;> ring

theorem smul_one_mulVec (c : R) (v : V3 R) : (M3.smul c M3.one).mulVec v = V3.smul c v := by
  ext <;> simp [M3.mulVec, M3.smul, M3.map, M3.one, V3.smul]

end M3


end PhononModel
