import PhononModel.Lemmas.SymmetrizeCompact

/-!
`get_nsym_list_and_s2pp` (model: `mkTables`): from a free group of translations that preserves the
sublattice map, the computed tables satisfy the certificate `CTables.wf` the compact-layout theorems assume.
-/
set_option linter.unusedSectionVars false
namespace PhononModel

variable {np ns nt : Nat}

/-- Propositional reading of `transGroupCert`. -/
structure TransGroup (p2s : Fin np → Fin ns) (s2p : Fin ns → Fin ns) (perms : Fin nt → Fin ns → Fin ns) : Prop where
  rep_prim : ∀ i, ∃ ip, p2s ip = s2p i
  prim_self : ∀ ip, s2p (p2s ip) = p2s ip
  p2s_inj : Function.Injective p2s
  one : ∃ e, ∀ x, perms e x = x
  free : ∀ a b j, perms a j = perms b j → ∀ x, perms a x = perms b x
  sub : ∀ t i, s2p (perms t i) = s2p i
  inj : ∀ t, Function.Injective (perms t)
  closed : ∀ a b, ∃ c, ∀ x, perms c x = perms a (perms b x)
  reach : ∀ i, ∃ t, perms t i = s2p i

theorem transGroupCert_sound (p2s : Fin np → Fin ns) (s2p : Fin ns → Fin ns) (perms : Fin nt → Fin ns → Fin ns)
    (h : transGroupCert p2s s2p perms = true) : TransGroup p2s s2p perms := by
  simp only [transGroupCert, Bool.and_eq_true, List.all_eq_true, List.any_eq_true, List.mem_finRange,
    forall_const, true_and, beq_iff_eq, Bool.or_eq_true, bne_iff_ne, ne_eq] at h
  obtain ⟨⟨⟨⟨⟨⟨⟨⟨h1, h2⟩, h3⟩, h4⟩, h5⟩, h6⟩, h7⟩, h8⟩, h9⟩ := h
  refine ⟨h1, h2, ?_, h4, ?_, h6, ?_, h8, h9⟩
  · intro a b hab
    rcases h3 a b with h | h
    · exact absurd hab h
    · exact h
  · intro a b j hj
    rcases h5 a b j with h | h
    · exact absurd hj h
    · exact h
  · intro t i j hij
    rcases h7 t i j with h | h
    · exact absurd hij h
    · exact h

theorem firstTrans_some_of_exists (perms : Fin nt → Fin ns → Fin ns) (i target : Fin ns)
    (h : ∃ t, perms t i = target) : ∃ t, firstTrans perms i target = some t ∧ perms t i = target := by
  obtain ⟨t0, ht0⟩ := h
  have hs : ((List.finRange nt).find? (fun t => perms t i == target)).isSome = true := by
    rw [List.find?_isSome]
    exact ⟨t0, List.mem_finRange t0, by simpa using ht0⟩
  obtain ⟨t, ht⟩ := Option.isSome_iff_exists.mp hs
  refine ⟨t, ht, ?_⟩
  have := List.find?_some ht
  simpa using this

theorem p2pLookup_some_of_exists (p2s : Fin np → Fin ns) (s : Fin ns)
    (h : ∃ ip, p2s ip = s) : ∃ ip, p2pLookup p2s s = some ip ∧ p2s ip = s := by
  obtain ⟨a, ha⟩ := h
  have hs : ((List.finRange np).find? (fun ip => p2s ip == s)).isSome = true := by
    rw [List.find?_isSome]
    exact ⟨a, List.mem_finRange a, by simpa using ha⟩
  obtain ⟨ip, hip⟩ := Option.isSome_iff_exists.mp hs
  refine ⟨ip, hip, ?_⟩
  have := List.find?_some hip
  simpa using this

section
variable {p2s : Fin np → Fin ns} {s2p : Fin ns → Fin ns} {perms : Fin nt → Fin ns → Fin ns}

/-- `get_nsym_list_and_s2pp` returns on such inputs. -/
theorem TransGroup.tablesDefined (G : TransGroup p2s s2p perms) : tablesDefined p2s s2p perms = true := by
  simp only [PhononModel.tablesDefined, List.all_eq_true, List.mem_finRange, forall_const, Bool.and_eq_true]
  intro i
  obtain ⟨ip, hip, _⟩ := p2pLookup_some_of_exists p2s (s2p i) (G.rep_prim i)
  obtain ⟨t, ht, _⟩ := firstTrans_some_of_exists perms i (s2p i) (G.reach i)
  simp [hip, ht]

theorem TransGroup.nsym_spec (G : TransGroup p2s s2p perms) (hnp : 0 < np) (hnt : 0 < nt) (i : Fin ns) :
    perms ((mkTables hnp hnt p2s s2p perms).nsym i) i = s2p i := by
  obtain ⟨t, ht, hti⟩ := firstTrans_some_of_exists perms i (s2p i) (G.reach i)
  simp [mkTables, ht, hti]

theorem TransGroup.s2pp_spec (G : TransGroup p2s s2p perms) (hnp : 0 < np) (hnt : 0 < nt) (i : Fin ns) :
    p2s ((mkTables hnp hnt p2s s2p perms).s2pp i) = s2p i := by
  obtain ⟨ip, hip, hpi⟩ := p2pLookup_some_of_exists p2s (s2p i) (G.rep_prim i)
  simp [mkTables, hip, hpi]

/-- The tables computed by `get_nsym_list_and_s2pp` satisfy what the compact routines need. -/
theorem TransGroup.mkTables_WF (G : TransGroup p2s s2p perms) (hnp : 0 < np) (hnt : 0 < nt) :
    (mkTables hnp hnt p2s s2p perms).WF := by
  have hn := G.nsym_spec hnp hnt
  have hs := G.s2pp_spec hnp hnt
  have hperms : (mkTables hnp hnt p2s s2p perms).perms = perms := rfl
  have hp2s : (mkTables hnp hnt p2s s2p perms).p2s = p2s := rfl
  obtain ⟨e, he⟩ := G.one
  refine ⟨?_, ?_, ?_, ?_, ?_, ?_⟩
  · intro i
    rw [hperms, hp2s, hn, hs]
  · intro ip
    rw [hp2s]
    apply G.p2s_inj
    rw [hs, G.prim_self]
  · intro ip j
    rw [hperms, hp2s]
    have h1 : perms ((mkTables hnp hnt p2s s2p perms).nsym (p2s ip)) (p2s ip) = perms e (p2s ip) := by
      rw [hn, G.prim_self, he]
    rw [G.free _ _ _ h1 j, he]
  · intro t i
    rw [hperms]
    apply G.p2s_inj
    rw [hs, hs, G.sub]
  · intro t
    exact G.inj t
  · intro t j x
    rw [hperms]
    obtain ⟨c, hc⟩ := G.closed ((mkTables hnp hnt p2s s2p perms).nsym (perms t j)) t
    have h1 : perms c j = perms ((mkTables hnp hnt p2s s2p perms).nsym j) j := by
      rw [hc, hn, hn, G.sub]
    rw [← hc, G.free _ _ _ h1 x]

end

/-- completeness of the executable certificate (the converse of `CTables.wf_sound`) -/
theorem CTables.wf_complete (T : CTables np ns nt) (h : T.WF) : T.wf = true := by
  simp only [CTables.wf, Bool.and_eq_true, List.all_eq_true, List.mem_finRange, forall_const,
    beq_iff_eq, Bool.or_eq_true, bne_iff_ne, ne_eq]
  refine ⟨⟨⟨⟨h.rep, fun ip => ⟨h.sp ip, h.idp ip⟩⟩, h.sub⟩, ?_⟩, h.reg⟩
  intro t i j
  by_cases hij : T.perms t i = T.perms t j
  · exact Or.inr (h.inj t hij)
  · exact Or.inl hij

end PhononModel
