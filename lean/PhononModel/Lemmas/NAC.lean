import PhononModel.Model.NAC
import PhononModel.Lemmas.Roundtrip
import Mathlib.Algebra.BigOperators.Fin
import Mathlib.Tactic.FieldSimp
import Mathlib.Tactic.Ring
import Mathlib.Data.Matrix.Basic
import Mathlib.Data.Matrix.Mul
import Mathlib.LinearAlgebra.Matrix.NonsingularInverse

/-!
Lemmas for the non-analytical term correction (C08).
-/
set_option linter.unusedSectionVars false
namespace PhononModel.C08
open Finset PhononModel PhononModel.C06

variable {K : Type} [Field K] [LinearOrder K] [IsStrictOrderedRing K]
variable {np ns nr : Nat}

/-! ### Wang -/

theorem qBorn_zero (v : V3 K) (i : Fin np) : qBorn v (fun (_ : Fin np) _ _ => (0 : K)) i = fun _ => 0 := by
  funext a; simp [qBorn, sumFin_eq]

theorem chargeSum_zero_born (f : K) (v : V3 K) :
    chargeSum (np := np) f v (fun _ _ _ => 0) = fun _ _ _ _ => 0 := by
  funext i j a b; simp [chargeSum, qBorn_zero]

theorem dynmatRawCS_zero (T : FTables np ns nr) (fc : Fin nr → Fin ns → Fin 3 → Fin 3 → K)
    (ms : Fin np → Fin np → K) (ph : Phases np ns K) :
    dynmatRawCS T fc ms ph (fun _ _ _ _ => 0) = dynmatRaw T fc ms ph := by
  funext i a j b; simp [dynmatRawCS, dynmatRaw]

theorem dielectricPart_smul (c : K) (v : V3 K) (eps : T3 K) :
    dielectricPart (fun i => c * v i) eps = c * c * dielectricPart v eps := by
  simp only [dielectricPart, sumFin_eq, Fin.sum_univ_three]; ring

theorem qBorn_smul (c : K) (v : V3 K) (born : Fin np → T3 K) (i : Fin np) (a : Fin 3) :
    qBorn (fun i => c * v i) born i a = c * qBorn v born i a := by
  simp only [qBorn, sumFin_eq, Fin.sum_univ_three]; ring

/-- the constant of Wang's method does not depend on the length of the vector -/
theorem wangChargeSum_smul (f : K) (n : Nat) (c : K) (hc : c ≠ 0) (v : V3 K) (eps : T3 K)
    (born : Fin np → T3 K) :
    wangChargeSum f n (fun i => c * v i) eps born = wangChargeSum f n v eps born := by
  funext i j a b
  simp only [wangChargeSum, chargeSum, dielectricPart_smul, qBorn_smul]
  by_cases hd : dielectricPart v eps = 0
  · simp [hd]
  · by_cases hn : (n : K) = 0
    · simp [hn]
    · field_simp

/-- the lattice sum of the phase averages over one sublattice -/
def phaseSum (T : FTables np ns nr) (ph : Phases np ns K) (i j : Fin np) : Cx K :=
  ⟨∑ k, if T.s2p k = (T.p2s j).1 then (avgDivEach (ph k i)).re else 0,
   ∑ k, if T.s2p k = (T.p2s j).1 then (avgDivEach (ph k i)).im else 0⟩

/-- the constant added to every block factors out of the lattice sum -/
theorem dynmatRawCS_eq (T : FTables np ns nr) (fc : Fin nr → Fin ns → Fin 3 → Fin 3 → K)
    (ms : Fin np → Fin np → K) (ph : Phases np ns K) (cs : Fin np → Fin np → T3 K)
    (i : Fin np) (a : Fin 3) (j : Fin np) (b : Fin 3) :
    dynmatRawCS T fc ms ph cs i a j b =
      ⟨(dynmatRaw T fc ms ph i a j b).re + cs i j a b * (phaseSum T ph i j).re / ms i j,
       (dynmatRaw T fc ms ph i a j b).im + cs i j a b * (phaseSum T ph i j).im / ms i j⟩ := by
  simp only [dynmatRawCS, dynmatRaw, phaseSum, sumFin_eq]
  congr 1
  · rw [← add_div, Finset.mul_sum, ← Finset.sum_add_distrib]
    congr 1; apply Finset.sum_congr rfl; intro k _; split <;> ring
  · rw [← add_div, Finset.mul_sum, ← Finset.sum_add_distrib]
    congr 1; apply Finset.sum_congr rfl; intro k _; split <;> ring

theorem hermitize_add_real_sym (D : DM np K) (C : Fin np → Fin 3 → Fin np → Fin 3 → K)
    (hC : ∀ i a j b, C j b i a = C i a j b) :
    hermitize (fun i a j b => ⟨(D i a j b).re + C i a j b, (D i a j b).im⟩) =
      fun i a j b => ⟨(hermitize D i a j b).re + C i a j b, (hermitize D i a j b).im⟩ := by
  funext i a j b
  simp only [hermitize, hC i a j b]
  congr 1; ring

/-- at a commensurate point that is not a reciprocal lattice point the phases of one
sublattice sum to zero (character orthogonality over the lattice points of the supercell) -/
theorem phaseSum_commensurate {N : Nat} {L : Lat np ns N} (h : L.WF) (Z : Zeta K L.Nd)
    (ψ : Fin N → Fin np → Fin np → Cx K) (mult : Fin ns → Fin np → Nat) (hm : ∀ k i, 0 < mult k i)
    (q q0 : Fin N) (hq0 : P3.Dvd L.Nd (L.kq q0)) (hq : q ≠ q0) (i j : Fin np) :
    phaseSum (cT L) (phF L Z ψ mult q) i j = 0 := by
  have hrel0 : ∀ k, L.Nd ∣ L.rel q0 k := by
    intro k
    unfold Lat.rel Lat.ex
    exact Int.dvd_sub (hq0.dot _) (hq0.dot _)
  have key : ∑ k, (if L.s2pp k = j then phaseAt L Z ψ q k i else 0) = 0 := by
    rw [sum_ite_subtype]
    have e : ∀ k : {k : Fin ns // L.s2pp k = j}, phaseAt L Z ψ q k.1 i = ψ q j i * Z.z (L.rel q k.1 - L.rel q0 k.1) := by
      intro k
      unfold phaseAt
      rw [k.2]
      congr 1
      apply Z.congr
      have : L.rel q k.1 - (L.rel q k.1 - L.rel q0 k.1) = L.rel q0 k.1 := by ring
      rw [this]; exact hrel0 k.1
    simp only [e]
    rw [← Finset.mul_sum, h.row_orth Z q q0 j, if_neg hq, mul_zero]
  have hre : ∑ k, (if L.s2pp k = j then phaseAt L Z ψ q k i else 0).re = 0 := by
    rw [← Cx.re_sum, key]; rfl
  have him : ∑ k, (if L.s2pp k = j then phaseAt L Z ψ q k i else 0).im = 0 := by
    rw [← Cx.im_sum, key]; rfl
  ext
  · simp only [phaseSum, cT, phF, avgDivEach_replicate (hm _ _), id, Fin.val_inj, Cx.zero_re]
    refine Eq.trans (Finset.sum_congr rfl ?_) hre
    intro k _; split <;> simp
  · simp only [phaseSum, cT, phF, avgDivEach_replicate (hm _ _), id, Fin.val_inj, Cx.zero_im]
    refine Eq.trans (Finset.sum_congr rfl ?_) him
    intro k _; split <;> simp

/-! ### Gonze–Lee -/

theorem multiplyBorns_zero_born (dd : DM np K) :
    multiplyBorns (fun (_ : Fin np) _ _ => (0 : K)) dd = fun _ _ _ _ => ⟨0, 0⟩ := by
  funext i a j b; simp [multiplyBorns, sumFin_eq]

theorem multiplyBorns_add_real (born : Fin np → T3 K) (dd : DM np K) (X : T3 K) (i : Fin np) (a : Fin 3)
    (j : Fin np) (b : Fin 3) :
    multiplyBorns born (fun i a j b => ⟨(dd i a j b).re + X a b, (dd i a j b).im⟩) i a j b =
      ⟨(multiplyBorns born dd i a j b).re + ∑ a', ∑ b', X a' b' * (born i a' a * born j b' b),
       (multiplyBorns born dd i a j b).im⟩ := by
  simp only [multiplyBorns, sumFin_eq]
  congr 1
  rw [← Finset.sum_add_distrib]
  apply Finset.sum_congr rfl; intro a' _
  rw [← Finset.sum_add_distrib]
  apply Finset.sum_congr rfl; intro b' _
  ring

theorem rank_one_born (d : V3 K) (D : K) (born : Fin np → T3 K) (i j : Fin np) (a b : Fin 3) :
    ∑ a', ∑ b', (d a' * d b' / D) * (born i a' a * born j b' b) = qBorn d born i a * qBorn d born j b / D := by
  simp only [qBorn, sumFin_eq, Fin.sum_univ_three]; ring

/-! ### symmetrisation of Born charges: matrices -/

abbrev M3 (K : Type) := Matrix (Fin 3) (Fin 3) K

theorem matMul3_eq (A B : T3 K) : (Matrix.of (matMul3 A B) : M3 K) = Matrix.of A * Matrix.of B := by
  ext a b; simp [matMul3, sumFin_eq, Matrix.mul_apply]

theorem similarity_eq (R Rinv Z : T3 K) :
    (Matrix.of (similarity R Rinv Z) : M3 K) = Matrix.of R * Matrix.of Z * Matrix.of Rinv := by
  simp only [similarity, matMul3_eq]

variable {n ng : Nat}

/-- the group average as a matrix expression -/
def avgM (R Rinv : Fin ng → M3 K) (perm : Fin ng → Fin n → Fin n) (Z : Fin n → M3 K) (i : Fin n) : M3 K :=
  ((ng : K)⁻¹) • ∑ g, R g * Z (perm g i) * Rinv g

theorem avgBorns_eq (R Rinv : Fin ng → T3 K) (perm : Fin ng → Fin n → Fin n) (Z : Fin n → T3 K) :
    (fun i => (Matrix.of (avgBorns R Rinv perm Z i) : M3 K)) =
      avgM (fun g => Matrix.of (R g)) (fun g => Matrix.of (Rinv g)) perm (fun i => Matrix.of (Z i)) := by
  funext i
  ext a b
  simp only [avgBorns, avgM, sumFin_eq, Matrix.of_apply, Matrix.smul_apply, Matrix.sum_apply, smul_eq_mul,
    ← similarity_eq]
  rw [div_eq_inv_mul]

theorem sumRule_eq (Z : Fin n → T3 K) :
    (fun i => (Matrix.of (sumRule Z i) : M3 K)) =
      fun i => (Matrix.of (Z i) : M3 K) - ((n : K)⁻¹) • ∑ j, (Matrix.of (Z j) : M3 K) := by
  funext i
  ext a b
  simp only [sumRule, sumFin_eq, Matrix.of_apply, Matrix.sub_apply, Matrix.smul_apply, Matrix.sum_apply, smul_eq_mul]
  rw [div_eq_inv_mul]

structure GroupRep (R Rinv : Fin ng → M3 K) (perm : Fin ng → Fin n → Fin n) (mul : Fin ng → Fin ng → Fin ng) : Prop where
  hR : ∀ h g, R (mul h g) = R h * R g
  hinv : ∀ g, R g * Rinv g = 1 ∧ Rinv g * R g = 1
  hperm : ∀ h g i, perm (mul h g) i = perm g (perm h i)
  hinj : ∀ h, Function.Injective (mul h)

theorem GroupRep.inv_mul {R Rinv : Fin ng → M3 K} {perm : Fin ng → Fin n → Fin n} {mul : Fin ng → Fin ng → Fin ng}
    (G : GroupRep R Rinv perm mul) (h g : Fin ng) : Rinv (mul h g) = Rinv g * Rinv h := by
  have h1 : (Rinv g * Rinv h) * R (mul h g) = 1 := by
    rw [G.hR]
    calc Rinv g * Rinv h * (R h * R g) = Rinv g * (Rinv h * R h) * R g := by simp only [Matrix.mul_assoc]
      _ = 1 := by rw [(G.hinv h).2, Matrix.mul_one, (G.hinv g).2]
  calc Rinv (mul h g) = (Rinv g * Rinv h * R (mul h g)) * Rinv (mul h g) := by rw [h1, Matrix.one_mul]
    _ = Rinv g * Rinv h * (R (mul h g) * Rinv (mul h g)) := by simp only [Matrix.mul_assoc]
    _ = Rinv g * Rinv h := by rw [(G.hinv _).1, Matrix.mul_one]

/-- the averaged family is equivariant -/
theorem GroupRep.avg_equivariant {R Rinv : Fin ng → M3 K} {perm : Fin ng → Fin n → Fin n}
    {mul : Fin ng → Fin ng → Fin ng} (G : GroupRep R Rinv perm mul) (Z : Fin n → M3 K) (h : Fin ng) (i : Fin n) :
    R h * avgM R Rinv perm Z (perm h i) * Rinv h = avgM R Rinv perm Z i := by
  unfold avgM
  rw [Matrix.mul_smul, Matrix.smul_mul, Finset.mul_sum, Finset.sum_mul]
  congr 1
  let σ : Fin ng ≃ Fin ng := Equiv.ofBijective (mul h) (Finite.injective_iff_bijective.mp (G.hinj h))
  rw [← Equiv.sum_comp σ (fun g => R g * Z (perm g i) * Rinv g)]
  apply Finset.sum_congr rfl
  intro g _
  show R h * (R g * Z (perm g (perm h i)) * Rinv g) * Rinv h = R (mul h g) * Z (perm (mul h g) i) * Rinv (mul h g)
  rw [G.hR, G.inv_mul, G.hperm]
  simp only [Matrix.mul_assoc]

theorem GroupRep.avg_idem {R Rinv : Fin ng → M3 K} {perm : Fin ng → Fin n → Fin n}
    {mul : Fin ng → Fin ng → Fin ng} (G : GroupRep R Rinv perm mul) (hng : 0 < ng) (Z : Fin n → M3 K) :
    avgM R Rinv perm (avgM R Rinv perm Z) = avgM R Rinv perm Z := by
  funext i
  have hng' : (ng : K) ≠ 0 := Nat.cast_ne_zero.mpr (Nat.pos_iff_ne_zero.mp hng)
  show ((ng : K)⁻¹) • ∑ g, R g * avgM R Rinv perm Z (perm g i) * Rinv g = _
  simp only [G.avg_equivariant Z]
  rw [Finset.sum_const, Finset.card_univ, Fintype.card_fin, ← Nat.cast_smul_eq_nsmul K, smul_smul,
    inv_mul_cancel₀ hng', one_smul]

theorem avgM_sub_const (R Rinv : Fin ng → M3 K) (perm : Fin ng → Fin n → Fin n) (X : Fin n → M3 K) (c : M3 K) :
    avgM R Rinv perm (fun i => X i - c) = fun i => avgM R Rinv perm X i - ((ng : K)⁻¹) • ∑ g, R g * c * Rinv g := by
  funext i
  unfold avgM
  rw [← smul_sub, ← Finset.sum_sub_distrib]
  congr 1
  apply Finset.sum_congr rfl
  intro g _
  rw [Matrix.mul_sub, Matrix.sub_mul]

/-- **group average followed by the sum rule is a projection** -/
theorem GroupRep.sym_idem {R Rinv : Fin ng → M3 K} {perm : Fin ng → Fin n → Fin n}
    {mul : Fin ng → Fin ng → Fin ng} (G : GroupRep R Rinv perm mul) (hng : 0 < ng) (hn : 0 < n) (Z : Fin n → M3 K) :
    let P : (Fin n → M3 K) → (Fin n → M3 K) := fun Z i =>
      avgM R Rinv perm Z i - ((n : K)⁻¹) • ∑ j, avgM R Rinv perm Z j
    P (P Z) = P Z := by
  intro P
  have hn' : (n : K) ≠ 0 := Nat.cast_ne_zero.mpr (Nat.pos_iff_ne_zero.mp hn)
  funext i
  show avgM R Rinv perm (P Z) i - ((n : K)⁻¹) • ∑ j, avgM R Rinv perm (P Z) j = P Z i
  have e : avgM R Rinv perm (P Z) = fun i => avgM R Rinv perm Z i
      - ((ng : K)⁻¹) • ∑ g, R g * (((n : K)⁻¹) • ∑ j, avgM R Rinv perm Z j) * Rinv g := by
    have := avgM_sub_const R Rinv perm (avgM R Rinv perm Z) (((n : K)⁻¹) • ∑ j, avgM R Rinv perm Z j)
    rw [G.avg_idem hng] at this
    exact this
  rw [e]
  simp only [Finset.sum_sub_distrib, Finset.sum_const, Finset.card_univ, Fintype.card_fin, smul_sub]
  rw [← Nat.cast_smul_eq_nsmul K, smul_smul, inv_mul_cancel₀ hn', one_smul]
  show _ = avgM R Rinv perm Z i - ((n : K)⁻¹) • ∑ j, avgM R Rinv perm Z j
  abel

end PhononModel.C08
