import PhononModel.Model.ApiState
/-!
Helper lemmas for property C15 (state machine of `Phonopy`): the coherence invariant and
its preservation by `_set_dynamical_matrix`, heap extension and unreachable writes.
-/
namespace PhononModel.C15
open PhononModel.Api

/-- cache coherence: every derived object was built from the *current* parameters.
* the dynamical-matrix object exists exactly when force constants and masses are set; it
  holds the current force-constant array, the class and the symmetrised NAC values of the
  current NAC dict; a Gonze–Lee short-range cache, if built, was built from the current
  force-constant values;
* the group-velocity object holds the current dynamical-matrix object;
* the displaced-supercell cache, if built, was built from the current dataset. -/
structure Coherent (F : Fns) (s : St) : Prop where
  allocFc : ∀ a, s.o.fc = some a → a < s.h.next
  allocNac : ∀ a, s.o.nac = some a → a < s.h.next
  allocDs : ∀ a, s.o.dataset = some a → a < s.h.next
  kindFc : ∀ a, s.o.fc = some a → s.h.kind a = .fc
  kindNac : ∀ a, s.o.nac = some a → s.h.kind a = .nac
  kindDs : ∀ a, s.o.dataset = some a → s.h.kind a = .ds
  dmNone : (s.o.fc = none ∨ s.o.masses = none) → s.o.dm = none
  dmSome : ∀ a m, s.o.fc = some a → s.o.masses = some m →
    ∃ d, s.o.dm = some d ∧ d.fcRef = a ∧ d.cls = clsOf F (s.o.nac.map s.h.cells) ∧
      d.nac = (s.o.nac.map s.h.cells).map F.symNac ∧
      (d.gonze = none ∨ d.gonze = some (s.h.cells a))
  gv : ∀ g, s.o.gv = some g → s.o.dm = some g.dm
  disps : ∀ v, s.o.disps = some v → ∃ a, s.o.dataset = some a ∧ v = F.dispOf (s.h.cells a)

theorem kc_next (F : Fns) (fsf : Bool) (h : Heap) (a : ArrRef) : h.next ≤ (keepOrCopy F fsf h a).1.next := by
  unfold keepOrCopy; split <;> (try split) <;> simp [Heap.alloc]
theorem kc_cells_old {F : Fns} {fsf : Bool} {h : Heap} {a r : ArrRef} (hr : r < h.next) :
    (keepOrCopy F fsf h a).1.cells r = h.cells r := by
  unfold keepOrCopy; split <;> (try split) <;> simp [Heap.alloc] <;>
    (intro hh; subst hh; exact absurd hr (Nat.lt_irrefl _))
theorem kc_kind_old {F : Fns} {fsf : Bool} {h : Heap} {a r : ArrRef} (hr : r < h.next) :
    (keepOrCopy F fsf h a).1.kind r = h.kind r := by
  unfold keepOrCopy; split <;> (try split) <;> simp [Heap.alloc] <;>
    (intro hh; subst hh; exact absurd hr (Nat.lt_irrefl _))
theorem kc_ref_lt {F : Fns} {fsf : Bool} {h : Heap} {a : ArrRef} (ha : a < h.next) :
    (keepOrCopy F fsf h a).2 < (keepOrCopy F fsf h a).1.next := by
  unfold keepOrCopy; split <;> (try split) <;> simp [Heap.alloc] <;> omega
theorem kc_kind_ref {F : Fns} {fsf : Bool} {h : Heap} {a : ArrRef} (hk : h.kind a = .fc) :
    (keepOrCopy F fsf h a).1.kind (keepOrCopy F fsf h a).2 = .fc := by
  unfold keepOrCopy; split <;> (try split) <;> simp [Heap.alloc, hk]
/-- without the deprecated scale factor the array the dynamical matrix holds has the values
of the array it was given -/
theorem kc_cells_ref {F : Fns} {h : Heap} {a : ArrRef} :
    (keepOrCopy F false h a).1.cells (keepOrCopy F false h a).2 = h.cells a := by
  unfold keepOrCopy; simp only [Bool.false_eq_true, if_false]; split <;> simp [Heap.alloc]

theorem alloc_cells_old {h : Heap} {v : Val} {b : Bool} {k : Kind} {r : ArrRef} (hr : r < h.next) :
    (h.alloc v b k).cells r = h.cells r := by
  simp [Heap.alloc]; intro hh; subst hh; exact absurd hr (Nat.lt_irrefl _)
theorem alloc_kind_old {h : Heap} {v : Val} {b : Bool} {k : Kind} {r : ArrRef} (hr : r < h.next) :
    (h.alloc v b k).kind r = h.kind r := by
  simp [Heap.alloc]; intro hh; subst hh; exact absurd hr (Nat.lt_irrefl _)

theorem map_cells_congr {h h' : Heap} (x : Option ArrRef)
    (hc : ∀ a, x = some a → h'.cells a = h.cells a) : x.map h'.cells = x.map h.cells := by
  cases x with
  | none => rfl
  | some a => simp [hc a rfl]

/-- preconditions under which `_set_dynamical_matrix` (re-)establishes coherence -/
structure Pre (F : Fns) (h : Heap) (o : Obj) : Prop where
  allocFc : ∀ a, o.fc = some a → a < h.next
  allocNac : ∀ a, o.nac = some a → a < h.next
  allocDs : ∀ a, o.dataset = some a → a < h.next
  kindFc : ∀ a, o.fc = some a → h.kind a = .fc
  kindNac : ∀ a, o.nac = some a → h.kind a = .nac
  kindDs : ∀ a, o.dataset = some a → h.kind a = .ds
  gv : o.gv ≠ none → o.fc ≠ none ∧ o.masses ≠ none
  disps : ∀ v, o.disps = some v → ∃ a, o.dataset = some a ∧ v = F.dispOf (h.cells a)

theorem gv_none_of {o : Obj} (p7 : o.gv ≠ none → o.fc ≠ none ∧ o.masses ≠ none)
    (h : o.fc = none ∨ o.masses = none) : o.gv = none := by
  cases hgv : o.gv with
  | none => rfl
  | some g =>
    have := p7 (by simp [hgv])
    cases h with
    | inl h => exact absurd h this.1
    | inr h => exact absurd h this.2

theorem setDM_coherent (F : Fns) (h : Heap) (o : Obj) (hp : Pre F h o) :
    Coherent F ⟨(setDM F h o).1, (setDM F h o).2.1⟩ := by
  obtain ⟨p1, p2, p3, p4, p5, p6, p7, p8⟩ := hp
  unfold setDM
  cases hfc : o.fc with
  | none =>
    simp only
    have hg : o.gv = none := gv_none_of p7 (Or.inl hfc)
    constructor <;> simp_all
  | some a =>
    cases hm : o.masses with
    | none =>
      simp only
      have hg : o.gv = none := gv_none_of p7 (Or.inr hm)
      constructor <;> simp_all
    | some m =>
      simp only
      have ha := p1 a hfc
      have hcells : ∀ r, r < h.next → (keepOrCopy F o.fsf h a).1.bumpId.cells r = h.cells r :=
        fun r hr => kc_cells_old hr
      have hnac := map_cells_congr (h := h) (h' := (keepOrCopy F o.fsf h a).1.bumpId) o.nac
        (fun r hr => hcells r (p2 r hr))
      constructor
      · intro a' h'; simp only [Option.some.injEq] at h'; subst h'; exact kc_ref_lt ha
      · intro a' h'; exact Nat.lt_of_lt_of_le (p2 a' h') (kc_next F o.fsf h a)
      · intro a' h'; exact Nat.lt_of_lt_of_le (p3 a' h') (kc_next F o.fsf h a)
      · intro a' h'; simp only [Option.some.injEq] at h'; subst h'; exact kc_kind_ref (p4 a hfc)
      · intro a' h'; exact (kc_kind_old (p2 a' h')).trans (p5 a' h')
      · intro a' h'; exact (kc_kind_old (p3 a' h')).trans (p6 a' h')
      · intro h'; simp at h'
      · intro a' m' h1 h2
        simp only [Option.some.injEq] at h1; subst h1
        refine ⟨_, rfl, rfl, ?_, ?_, Or.inl rfl⟩
        · simp only; rw [hnac]
        · simp only; rw [hnac]
      · intro g hg
        simp only [Option.map_eq_some_iff] at hg
        obtain ⟨_, _, rfl⟩ := hg; rfl
      · intro v hv
        obtain ⟨r, hr1, hr2⟩ := p8 v hv
        exact ⟨r, hr1, by rw [hr2]; exact congrArg F.dispOf (hcells r (p3 r hr1)).symm⟩

/-- the guarded call `if masses is not None: _set_dynamical_matrix()` -/
theorem setDMIfMasses_coherent (F : Fns) (h : Heap) (o : Obj) (hp : Pre F h o)
    (hn : o.masses = none → o.dm = none) : Coherent F (fin (setDMIfMasses F h o)).1 := by
  unfold setDMIfMasses fin
  cases hm : o.masses with
  | some m => simp only; exact setDM_coherent F h o hp
  | none =>
    simp only
    have hg : o.gv = none := gv_none_of hp.gv (Or.inr hm)
    obtain ⟨p1, p2, p3, p4, p5, p6, p7, p8⟩ := hp
    exact ⟨p1, p2, p3, p4, p5, p6, fun _ => hn hm, fun a m _ h2 => by simp [hm] at h2,
      fun g h' => by simp [hg] at h', p8⟩

/-- the guarded call `if force_constants is not None: _set_dynamical_matrix()` -/
theorem setDMIfFc_coherent (F : Fns) (h : Heap) (o : Obj) (hp : Pre F h o)
    (hn : o.fc = none → o.dm = none) : Coherent F (fin (setDMIfFc F h o)).1 := by
  unfold setDMIfFc fin
  cases hm : o.fc with
  | some m => simp only; exact setDM_coherent F h o hp
  | none =>
    simp only
    have hg : o.gv = none := gv_none_of hp.gv (Or.inl hm)
    obtain ⟨p1, p2, p3, p4, p5, p6, p7, p8⟩ := hp
    exact ⟨p1, p2, p3, p4, p5, p6, fun _ => hn hm, fun a m h1 _ => by simp [hm] at h1,
      fun g h' => by simp [hg] at h', p8⟩

theorem Coherent.gv_imp {F : Fns} {s : St} (hc : Coherent F s) :
    s.o.gv ≠ none → s.o.fc ≠ none ∧ s.o.masses ≠ none := by
  intro hg
  cases hgv : s.o.gv with
  | none => exact absurd hgv hg
  | some g =>
    have hd := hc.gv g hgv
    constructor
    · intro hf; have := hc.dmNone (Or.inl hf); simp [hd] at this
    · intro hf; have := hc.dmNone (Or.inr hf); simp [hd] at this

theorem Coherent.pre {F : Fns} {s : St} (hc : Coherent F s) : Pre F s.h s.o :=
  ⟨hc.allocFc, hc.allocNac, hc.allocDs, hc.kindFc, hc.kindNac, hc.kindDs, hc.gv_imp, hc.disps⟩

/-- coherence only looks at the cells the object references -/
theorem Coherent.heap_congr {F : Fns} {h h' : Heap} {o : Obj} (hc : Coherent F ⟨h, o⟩)
    (hn : h.next ≤ h'.next)
    (hfc : ∀ a, o.fc = some a → h'.cells a = h.cells a ∧ h'.kind a = h.kind a)
    (hnac : ∀ a, o.nac = some a → h'.cells a = h.cells a ∧ h'.kind a = h.kind a)
    (hds : ∀ a, o.dataset = some a → h'.cells a = h.cells a ∧ h'.kind a = h.kind a) :
    Coherent F ⟨h', o⟩ := by
  obtain ⟨c1, c2, c3, c4, c5, c6, c7, c8, c9, c10⟩ := hc
  simp only at c1 c2 c3 c4 c5 c6 c7 c8 c9 c10
  have hnacv : o.nac.map h'.cells = o.nac.map h.cells := map_cells_congr o.nac (fun a ha => (hnac a ha).1)
  refine ⟨fun a ha => Nat.lt_of_lt_of_le (c1 a ha) hn, fun a ha => Nat.lt_of_lt_of_le (c2 a ha) hn,
    fun a ha => Nat.lt_of_lt_of_le (c3 a ha) hn, fun a ha => (hfc a ha).2.trans (c4 a ha),
    fun a ha => (hnac a ha).2.trans (c5 a ha), fun a ha => (hds a ha).2.trans (c6 a ha), c7, ?_, c9, ?_⟩
  · intro a m h1 h2
    obtain ⟨d, d1, d2, d3, d4, d5⟩ := c8 a m h1 h2
    refine ⟨d, d1, d2, ?_, ?_, ?_⟩
    · simp only; rw [hnacv]; exact d3
    · simp only; rw [hnacv]; exact d4
    · simp only; rw [(hfc a h1).1]; exact d5
  · intro v hv
    obtain ⟨a, a1, a2⟩ := c10 v hv
    exact ⟨a, a1, by simp only; rw [(hds a a1).1]; exact a2⟩

theorem touchGonze_fcRef (h : Heap) (d : DMObj) : (touchGonze h d).fcRef = d.fcRef := by
  unfold touchGonze; split <;> rfl
theorem touchGonze_cls (h : Heap) (d : DMObj) : (touchGonze h d).cls = d.cls := by
  unfold touchGonze; split <;> rfl
theorem touchGonze_nac (h : Heap) (d : DMObj) : (touchGonze h d).nac = d.nac := by
  unfold touchGonze; split <;> rfl
theorem touchGonze_id (h : Heap) (d : DMObj) : (touchGonze h d).id = d.id := by
  unfold touchGonze; split <;> rfl
theorem touchGonze_gonze (h : Heap) (d : DMObj)
    (hd : d.gonze = none ∨ d.gonze = some (h.cells d.fcRef)) :
    (touchGonze h d).gonze = none ∨ (touchGonze h d).gonze = some (h.cells d.fcRef) := by
  unfold touchGonze; split
  · exact Or.inr rfl
  · exact hd

/-- whatever the cache state, a coherent dynamical-matrix object computes with the current values -/
theorem usedFc_touch (h : Heap) (d : DMObj)
    (hd : d.gonze = none ∨ d.gonze = some (h.cells d.fcRef)) :
    usedFc h (touchGonze h d) = h.cells d.fcRef := by
  unfold usedFc touchGonze
  cases hcls : d.cls <;> cases hg : d.gonze <;> simp_all

theorem inPlace_coherent (F : Fns) (s : St) (f : Val → Val) (hc : Coherent F s) :
    Coherent F (inPlace F s f).1 := by
  unfold inPlace
  cases hfc : s.o.fc with
  | none => exact hc
  | some a =>
    simp only
    have hk := hc.kindFc a hfc
    apply setDMIfMasses_coherent
    · refine ⟨hc.allocFc, hc.allocNac, hc.allocDs, hc.kindFc, hc.kindNac, hc.kindDs, hc.gv_imp, ?_⟩
      intro v hv
      obtain ⟨r, r1, r2⟩ := hc.disps v hv
      refine ⟨r, r1, ?_⟩
      have : r ≠ a := by
        intro e; subst e; have := hc.kindDs r r1; rw [hk] at this; cases this
      simp [Heap.write, this, r2]
    · intro hm; exact hc.dmNone (Or.inr hm)

/-- building the Gonze–Lee cache on first use keeps coherence -/
theorem coherent_touch (F : Fns) (s : St) (d : DMObj) (hc : Coherent F s) (hd : s.o.dm = some d)
    {gv' : Option GVObj} (hgv : ∀ g, gv' = some g → g.dm = touchGonze s.h d) :
    Coherent F ⟨s.h, { s.o with dm := some (touchGonze s.h d), gv := gv' }⟩ := by
  obtain ⟨c1, c2, c3, c4, c5, c6, c7, c8, c9, c10⟩ := hc
  refine ⟨c1, c2, c3, c4, c5, c6, ?_, ?_, ?_, c10⟩
  · intro h'; have := c7 h'; simp [hd] at this
  · intro a m' h1 h2
    obtain ⟨d0, e1, e2, e3, e4, e5⟩ := c8 a m' h1 h2
    have : d0 = d := by rw [hd] at e1; exact (Option.some.inj e1).symm
    subst this
    refine ⟨_, rfl, by rw [touchGonze_fcRef]; exact e2, by rw [touchGonze_cls]; exact e3,
      by rw [touchGonze_nac]; exact e4, ?_⟩
    have := touchGonze_gonze s.h d0 (by rw [e2]; exact e5)
    rw [e2] at this; exact this
  · intro g hg
    have := hgv g hg
    simp only [this]

/-- coherence does not look at the stored result objects -/
theorem Coherent.of_fields {F : Fns} {h : Heap} {o o' : Obj} (hc : Coherent F ⟨h, o⟩)
    (h1 : o'.fc = o.fc) (h2 : o'.nac = o.nac) (h3 : o'.masses = o.masses) (h4 : o'.dataset = o.dataset)
    (h5 : o'.disps = o.disps) (h6 : o'.dm = o.dm) (h7 : o'.gv = o.gv) : Coherent F ⟨h, o'⟩ := by
  obtain ⟨c1, c2, c3, c4, c5, c6, c7, c8, c9, c10⟩ := hc
  simp only at c1 c2 c3 c4 c5 c6 c7 c8 c9 c10
  constructor <;> simp only [h1, h2, h3, h4, h5, h6, h7] <;> assumption

/-- the synchronised group-velocity object holds the touched dynamical-matrix object -/
theorem sync_gv_coherent {F : Fns} {s : St} {d : DMObj} (hc : Coherent F s) (hd : s.o.dm = some d) (g : GVObj)
    (hg : (s.o.gv.map fun g => if g.dm.id = d.id then ({ g with dm := touchGonze s.h d } : GVObj) else g) = some g) :
    g.dm = touchGonze s.h d := by
  simp only [Option.map_eq_some_iff] at hg
  obtain ⟨g0, g1, g2⟩ := hg
  have := hc.gv g0 g1
  rw [hd] at this
  have : g0.dm = d := (Option.some.inj this).symm
  simp only [this, if_true] at g2
  subst g2; rfl

theorem phonons_eq_spec (F : Fns) (s : St) (hc : Coherent F s) (a : ArrRef) (m : Val) (d : DMObj)
    (hfc : s.o.fc = some a) (hm : s.o.masses = some m) (hd : s.o.dm = some d) :
    phononsOf s.h (touchGonze s.h d) m = specPhonons F false (s.h.cells a) (s.o.nac.map s.h.cells) m := by
  obtain ⟨d0, e1, e2, e3, e4, e5⟩ := hc.dmSome a m hfc hm
  have : d0 = d := by rw [hd] at e1; exact (Option.some.inj e1).symm
  subst this
  unfold phononsOf specPhonons
  rw [touchGonze_cls, touchGonze_nac, usedFc_touch _ _ (by rw [e2]; exact e5), e2, e3, e4]
  simp

/-! ### frame lemmas: what an operation can write and what it can make reachable -/

def Reach (o : Obj) (r : ArrRef) : Prop :=
  o.fc = some r ∨ o.nac = some r ∨ o.dataset = some r ∨ (∃ d, o.dm = some d ∧ d.fcRef = r) ∨
    (∃ g, o.gv = some g ∧ g.dm.fcRef = r)

theorem mem_refs {o : Obj} {r : ArrRef} : r ∈ o.refs ↔ Reach o r := by
  simp [Obj.refs, Reach]

theorem kc_ref (F : Fns) (fsf : Bool) (h : Heap) (a : ArrRef) :
    (keepOrCopy F fsf h a).2 = a ∨ (keepOrCopy F fsf h a).2 = h.next := by
  unfold keepOrCopy; split <;> (try split) <;> simp

theorem setDM_cells_old (F : Fns) (h : Heap) (o : Obj) {r : ArrRef} (hr : r < h.next) :
    (setDM F h o).1.cells r = h.cells r := by
  unfold setDM; split <;> simp [Heap.bumpId, kc_cells_old hr]

theorem setDM_next (F : Fns) (h : Heap) (o : Obj) : h.next ≤ (setDM F h o).1.next := by
  unfold setDM; split <;> simp [Heap.bumpId, kc_next]

theorem setDM_reach (F : Fns) (h : Heap) (o : Obj) {r : ArrRef} (hr : Reach (setDM F h o).2.1 r) :
    Reach o r ∨ r = h.next := by
  unfold setDM at hr
  split at hr
  · left; unfold Reach at *; simp at hr; grind
  · left; unfold Reach at *; simp at hr; grind
  · next a m hfc hm =>
    have := kc_ref F o.fsf h a
    unfold Reach at *; simp at hr; grind

theorem setDMIfMasses_cells_old (F : Fns) (h : Heap) (o : Obj) {r : ArrRef} (hr : r < h.next) :
    (fin (setDMIfMasses F h o)).1.h.cells r = h.cells r := by
  unfold setDMIfMasses fin; split <;> simp [setDM_cells_old F h o hr]
theorem setDMIfFc_cells_old (F : Fns) (h : Heap) (o : Obj) {r : ArrRef} (hr : r < h.next) :
    (fin (setDMIfFc F h o)).1.h.cells r = h.cells r := by
  unfold setDMIfFc fin; split <;> simp [setDM_cells_old F h o hr]
theorem setDMIfMasses_next (F : Fns) (h : Heap) (o : Obj) : h.next ≤ (fin (setDMIfMasses F h o)).1.h.next := by
  unfold setDMIfMasses fin; split <;> simp [setDM_next]
theorem setDMIfFc_next (F : Fns) (h : Heap) (o : Obj) : h.next ≤ (fin (setDMIfFc F h o)).1.h.next := by
  unfold setDMIfFc fin; split <;> simp [setDM_next]
theorem setDMIfMasses_reach (F : Fns) (h : Heap) (o : Obj) {r : ArrRef}
    (hr : Reach (fin (setDMIfMasses F h o)).1.o r) : Reach o r ∨ r = h.next := by
  unfold setDMIfMasses fin at hr; split at hr
  · exact Or.inl hr
  · exact setDM_reach F h o hr
theorem setDMIfFc_reach (F : Fns) (h : Heap) (o : Obj) {r : ArrRef}
    (hr : Reach (fin (setDMIfFc F h o)).1.o r) : Reach o r ∨ r = h.next := by
  unfold setDMIfFc fin at hr; split at hr
  · exact Or.inl hr
  · exact setDM_reach F h o hr

/-! ### queries (and the `run_*` of result objects) never touch the heap or the parameters -/
theorem query_heap (F : Fns) (s : St) (q : Query) : (step F s (.query q)).1.h = s.h := by
  cases q with
  | run d => cases d <;> simp only [step] <;> (repeat' split) <;> rfl
  | get d => rfl
  | freq => simp only [step]; split <;> rfl
  | freqGV => simp only [step]; split <;> rfl
  | getFc => rfl
  | getNac => rfl
  | getMasses => rfl
  | getDataset => rfl
  | getDisps => simp only [step]; (repeat' split) <;> rfl

theorem query_params (F : Fns) (s : St) (q : Query) :
    (step F s (.query q)).1.o.fc = s.o.fc ∧ (step F s (.query q)).1.o.nac = s.o.nac ∧
    (step F s (.query q)).1.o.masses = s.o.masses ∧ (step F s (.query q)).1.o.dataset = s.o.dataset ∧
    (step F s (.query q)).1.o.fsf = s.o.fsf := by
  cases q with
  | run d => cases d <;> simp only [step] <;> (repeat' split) <;> exact ⟨rfl, rfl, rfl, rfl, rfl⟩
  | get d => exact ⟨rfl, rfl, rfl, rfl, rfl⟩
  | freq => simp only [step]; split <;> exact ⟨rfl, rfl, rfl, rfl, rfl⟩
  | freqGV => simp only [step]; split <;> exact ⟨rfl, rfl, rfl, rfl, rfl⟩
  | getFc => exact ⟨rfl, rfl, rfl, rfl, rfl⟩
  | getNac => exact ⟨rfl, rfl, rfl, rfl, rfl⟩
  | getMasses => exact ⟨rfl, rfl, rfl, rfl, rfl⟩
  | getDataset => exact ⟨rfl, rfl, rfl, rfl, rfl⟩
  | getDisps => simp only [step]; (repeat' split) <;> exact ⟨rfl, rfl, rfl, rfl, rfl⟩

/-- the only pre-existing cell an API operation writes is the object's current force-constant array -/
theorem step_writes_only_fc (F : Fns) (s : St) (op : Op) (r : ArrRef) (hr : r < s.h.next)
    (hfc : s.o.fc ≠ some r) (hds : s.o.dataset ≠ some r) (hop : ∀ v, op ≠ .callerMutates r v) :
    (step F s op).1.h.cells r = s.h.cells r := by
  cases op with
  | setForces f =>
    simp only [step]; split
    · rfl
    · next ds hd =>
      have : r ≠ ds := fun e => hds (e ▸ hd)
      simp [Heap.write, this]
  | setEnergies f =>
    simp only [step]; split
    · rfl
    · next ds hd =>
      have : r ≠ ds := fun e => hds (e ▸ hd)
      simp [Heap.write, this]
  | produceFcWith f =>
    simp only [step]; split
    · rfl
    · next ds hd =>
      refine Eq.trans (setDMIfMasses_cells_old F _ _ (r := r) (Nat.lt_succ_of_lt hr)) ?_
      refine Eq.trans (alloc_cells_old (h := s.h.write ds _) hr) ?_
      have : r ≠ ds := fun e => hds (e ▸ hd)
      simp [Heap.write, this]
  | newArr v own k => exact alloc_cells_old hr
  | setFc a => simp only [step]; split <;> simp [setDMIfMasses_cells_old F _ _ hr]
  | produceFc c =>
    simp only [step]; split
    · rfl
    · split
      · rw [setDMIfMasses_cells_old F _ _ (Nat.lt_succ_of_lt hr)]; exact alloc_cells_old hr
      · rfl
  | generate k => exact alloc_cells_old hr
  | symmetrizeFc level =>
    simp only [step, inPlace]; split
    · rfl
    · next a ha =>
      refine Eq.trans (setDMIfMasses_cells_old F _ _ (r := r) (by exact hr)) ?_
      have : r ≠ a := fun e => hfc (e ▸ ha)
      simp [Heap.write, this]
  | symmetrizeFcSpaceGroup =>
    simp only [step]; split
    · rfl
    · next a ha =>
      split
      · rfl
      · simp only [inPlace, ha]
        refine Eq.trans (setDMIfMasses_cells_old F _ _ (r := r) (by exact hr)) ?_
        have : r ≠ a := fun e => hfc (e ▸ ha)
        simp [Heap.write, this]
  | cutoff c =>
    simp only [step, inPlace]; split
    · rfl
    · next a ha =>
      refine Eq.trans (setDMIfMasses_cells_old F _ _ (r := r) (by exact hr)) ?_
      have : r ≠ a := fun e => hfc (e ▸ ha)
      simp [Heap.write, this]
  | setNac a =>
    simp only [step]; split
    · exact setDMIfFc_cells_old F _ _ hr
    · split
      · exact setDMIfFc_cells_old F _ _ hr
      · rfl
  | setMasses m => simp only [step]; exact setDMIfFc_cells_old F _ _ hr
  | setDataset a =>
    simp only [step]; split
    · rfl
    · split
      · exact alloc_cells_old hr
      · rfl
  | copy => rfl
  | callerMutates a v =>
    simp only [step]; split
    · have : r ≠ a := fun e => hop v (by rw [e])
      simp [Heap.write, this]
    · rfl
  | query q => rw [query_heap]

theorem step_next (F : Fns) (s : St) (op : Op) : s.h.next ≤ (step F s op).1.h.next := by
  cases op with
  | setForces f => simp only [step]; split <;> exact Nat.le_refl _
  | setEnergies f => simp only [step]; split <;> exact Nat.le_refl _
  | produceFcWith f =>
    simp only [step]; split
    · exact Nat.le_refl _
    · next ds hd =>
      exact Nat.le_trans (Nat.le_succ _) (setDMIfMasses_next F ((s.h.write ds _).alloc _ true .fc) _)
  | newArr v own k => exact Nat.le_succ _
  | setFc a => simp only [step]; split <;> simp [setDMIfMasses_next]
  | produceFc c =>
    simp only [step]; split
    · exact Nat.le_refl _
    · split
      · exact Nat.le_trans (Nat.le_succ _) (setDMIfMasses_next F (s.h.alloc _ true .fc) _)
      · exact Nat.le_refl _
  | generate k => exact Nat.le_succ _
  | symmetrizeFc level =>
    simp only [step, inPlace]; split
    · exact Nat.le_refl _
    · exact setDMIfMasses_next F (s.h.write _ _) _
  | symmetrizeFcSpaceGroup =>
    simp only [step]; split
    · exact Nat.le_refl _
    · next a ha =>
      split
      · exact Nat.le_refl _
      · simp only [inPlace, ha]; exact setDMIfMasses_next F (s.h.write _ _) _
  | cutoff c =>
    simp only [step, inPlace]; split
    · exact Nat.le_refl _
    · exact setDMIfMasses_next F (s.h.write _ _) _
  | setNac a =>
    simp only [step]; split
    · exact setDMIfFc_next F _ _
    · split
      · exact setDMIfFc_next F _ _
      · exact Nat.le_refl _
  | setMasses m => simp only [step]; exact setDMIfFc_next F _ _
  | setDataset a =>
    simp only [step]; split
    · exact Nat.le_refl _
    · split
      · exact Nat.le_succ _
      · exact Nat.le_refl _
  | copy => exact Nat.le_refl _
  | callerMutates a v => simp only [step]; split <;> simp [Heap.write]
  | query q => rw [query_heap]; exact Nat.le_refl _

theorem touch_reach {h : Heap} {o o' : Obj} {d : DMObj} {r : ArrRef} (hd : o.dm = some d)
    (h1 : o'.fc = o.fc) (h2 : o'.nac = o.nac) (h3 : o'.dataset = o.dataset) (h4 : o'.dm = some (touchGonze h d))
    (hg : ∀ g, o'.gv = some g → g.dm.fcRef = d.fcRef ∨ o.gv = some g)
    (hr : Reach o' r) : Reach o r := by
  unfold Reach at *
  rw [h1, h2, h3, h4] at hr
  simp only [Option.some.injEq, exists_eq_left'] at hr
  rcases hr with hr | hr | hr | hr | ⟨g, g1, g2⟩
  · exact Or.inl hr
  · exact Or.inr (Or.inl hr)
  · exact Or.inr (Or.inr (Or.inl hr))
  · rw [touchGonze_fcRef] at hr; exact Or.inr (Or.inr (Or.inr (Or.inl ⟨d, hd, hr⟩)))
  · rcases hg g g1 with h1 | h1
    · exact Or.inr (Or.inr (Or.inr (Or.inl ⟨d, hd, h1 ▸ g2⟩)))
    · exact Or.inr (Or.inr (Or.inr (Or.inr ⟨g, h1, g2⟩)))

theorem sync_gv {h : Heap} {o : Obj} {d : DMObj} (g : GVObj)
    (hg : (o.gv.map fun g => if g.dm.id = d.id then ({ g with dm := touchGonze h d } : GVObj) else g) = some g) :
    g.dm.fcRef = d.fcRef ∨ o.gv = some g := by
  simp only [Option.map_eq_some_iff] at hg
  obtain ⟨g0, g1, g2⟩ := hg
  split at g2
  · left; rw [← g2]; exact touchGonze_fcRef _ _
  · right; rw [← g2]; exact g1

/-- an operation makes reachable only what was reachable, what the caller names, or fresh cells -/
theorem step_reach (F : Fns) (s : St) (op : Op) (r : ArrRef) (hr : Reach (step F s op).1.o r) :
    Reach s.o r ∨ r ∈ op.named ∨ s.h.next ≤ r := by
  cases op with
  | setForces f => simp only [step] at hr; split at hr <;> exact Or.inl hr
  | setEnergies f => simp only [step] at hr; split at hr <;> exact Or.inl hr
  | produceFcWith f =>
    simp only [step] at hr; split at hr
    · exact Or.inl hr
    · rcases setDMIfMasses_reach F _ _ hr with h | h
      · unfold Reach at h ⊢; simp only [Heap.write] at h; grind
      · right; right; rw [h]; exact Nat.le_succ _
  | newArr v own k => exact Or.inl hr
  | setFc a =>
    simp only [step] at hr; split at hr
    · rcases setDMIfMasses_reach F _ _ hr with h | h
      · unfold Reach at h ⊢; simp only [Op.named, List.mem_singleton]; grind
      · exact Or.inr (Or.inr (Nat.le_of_eq h.symm))
    · exact Or.inl hr
  | produceFc c =>
    simp only [step] at hr; split at hr
    · exact Or.inl hr
    · split at hr
      · rcases setDMIfMasses_reach F _ _ hr with h | h
        · unfold Reach at h ⊢; grind
        · right; right; rw [h]; exact Nat.le_succ _
      · exact Or.inl hr
  | generate k =>
    simp only [step] at hr
    unfold Reach at hr ⊢; grind
  | symmetrizeFc level =>
    simp only [step, inPlace] at hr; split at hr
    · exact Or.inl hr
    · rcases setDMIfMasses_reach F _ _ hr with h | h
      · exact Or.inl h
      · exact Or.inr (Or.inr (Nat.le_of_eq h.symm))
  | symmetrizeFcSpaceGroup =>
    simp only [step] at hr; split at hr
    · exact Or.inl hr
    · next a ha =>
      split at hr
      · exact Or.inl hr
      · simp only [inPlace, ha] at hr
        rcases setDMIfMasses_reach F _ _ hr with h | h
        · exact Or.inl h
        · exact Or.inr (Or.inr (Nat.le_of_eq h.symm))
  | cutoff c =>
    simp only [step, inPlace] at hr; split at hr
    · exact Or.inl hr
    · rcases setDMIfMasses_reach F _ _ hr with h | h
      · exact Or.inl h
      · exact Or.inr (Or.inr (Nat.le_of_eq h.symm))
  | setNac a =>
    simp only [step] at hr; split at hr
    · rcases setDMIfFc_reach F _ _ hr with h | h
      · unfold Reach at h ⊢; grind
      · exact Or.inr (Or.inr (Nat.le_of_eq h.symm))
    · split at hr
      · rcases setDMIfFc_reach F _ _ hr with h | h
        · unfold Reach at h ⊢; simp only [Op.named, List.mem_singleton]; grind
        · exact Or.inr (Or.inr (Nat.le_of_eq h.symm))
      · exact Or.inl hr
  | setMasses m =>
    simp only [step] at hr
    rcases setDMIfFc_reach F _ _ hr with h | h
    · unfold Reach at h ⊢; grind
    · exact Or.inr (Or.inr (Nat.le_of_eq h.symm))
  | setDataset a =>
    simp only [step] at hr; split at hr
    · unfold Reach at hr ⊢; grind
    · split at hr
      · unfold Reach at hr ⊢; grind
      · exact Or.inl hr
  | copy => exact Or.inl hr
  | callerMutates a v =>
    simp only [step] at hr; split at hr <;> exact Or.inl hr
  | query q =>
    left
    have touch : ∀ (d : DMObj) (o' : Obj), s.o.dm = some d → o'.fc = s.o.fc → o'.nac = s.o.nac →
        o'.dataset = s.o.dataset → o'.dm = some (touchGonze s.h d) →
        o'.gv = (s.o.gv.map fun g => if g.dm.id = d.id then ({ g with dm := touchGonze s.h d } : GVObj) else g) →
        Reach o' r → Reach s.o r := by
      intro d o' hd h1 h2 h3 h4 h5 hr'
      exact touch_reach hd h1 h2 h3 h4 (fun g hg => sync_gv g (h5 ▸ hg)) hr'
    have same : ∀ (o' : Obj), o'.fc = s.o.fc → o'.nac = s.o.nac → o'.dataset = s.o.dataset → o'.dm = s.o.dm →
        o'.gv = s.o.gv → Reach o' r → Reach s.o r := by
      intro o' h1 h2 h3 h4 h5 hr'
      unfold Reach at hr' ⊢; rw [h1, h2, h3, h4, h5] at hr'; exact hr'
    cases q with
    | freq =>
      simp only [step] at hr; split at hr
      · next d m hd hm => refine touch d _ hd ?_ ?_ ?_ ?_ ?_ hr <;> rfl
      · exact hr
    | run dv =>
      cases dv with
      | mesh =>
        simp only [step] at hr; split at hr
        · next d m hd hm => refine touch d _ hd ?_ ?_ ?_ ?_ ?_ hr <;> rfl
        · exact hr
      | band =>
        simp only [step] at hr; split at hr
        · next d m hd hm => refine touch d _ hd ?_ ?_ ?_ ?_ ?_ hr <;> rfl
        · exact hr
      | tp => simp only [step] at hr; split at hr <;> first | exact hr | (refine same _ ?_ ?_ ?_ ?_ ?_ hr <;> rfl)
      | dos => simp only [step] at hr; split at hr <;> first | exact hr | (refine same _ ?_ ?_ ?_ ?_ ?_ hr <;> rfl)
    | get dv => exact hr
    | freqGV =>
      simp only [step] at hr; split at hr
      · next d m hd hm =>
        cases hgv : s.o.gv with
        | none =>
          simp only [hgv, gvOr, if_true] at hr
          refine touch_reach (h := s.h) hd ?_ ?_ ?_ ?_ ?_ hr
          · rfl
          · rfl
          · rfl
          · rfl
          · intro g hg; simp only [Option.some.injEq] at hg; left; rw [← hg]; exact touchGonze_fcRef _ _
        | some g =>
          simp only [hgv, gvOr] at hr
          unfold Reach at hr ⊢
          simp only [Option.some.injEq, exists_eq_left'] at hr
          rcases hr with hr | hr | hr | hr | hr
          · exact Or.inl hr
          · exact Or.inr (Or.inl hr)
          · exact Or.inr (Or.inr (Or.inl hr))
          · split at hr
            · rw [touchGonze_fcRef] at hr; exact Or.inr (Or.inr (Or.inr (Or.inr ⟨g, hgv, hr⟩)))
            · rw [touchGonze_fcRef] at hr; exact Or.inr (Or.inr (Or.inr (Or.inl ⟨d, hd, hr⟩)))
          · rw [touchGonze_fcRef] at hr; exact Or.inr (Or.inr (Or.inr (Or.inr ⟨g, hgv, hr⟩)))
      · exact hr
    | getFc => exact hr
    | getNac => exact hr
    | getMasses => exact hr
    | getDataset => exact hr
    | getDisps =>
      simp only [step] at hr; split at hr
      · exact hr
      · split at hr
        · exact hr
        · refine same _ ?_ ?_ ?_ ?_ ?_ hr <;> rfl

/-! ### kinds of existing cells never change -/
theorem setDM_kind_old (F : Fns) (h : Heap) (o : Obj) {r : ArrRef} (hr : r < h.next) :
    (setDM F h o).1.kind r = h.kind r := by
  unfold setDM; split <;> simp [Heap.bumpId, kc_kind_old hr]
theorem setDMIfMasses_kind_old (F : Fns) (h : Heap) (o : Obj) {r : ArrRef} (hr : r < h.next) :
    (fin (setDMIfMasses F h o)).1.h.kind r = h.kind r := by
  unfold setDMIfMasses fin; split <;> simp [setDM_kind_old F h o hr]
theorem setDMIfFc_kind_old (F : Fns) (h : Heap) (o : Obj) {r : ArrRef} (hr : r < h.next) :
    (fin (setDMIfFc F h o)).1.h.kind r = h.kind r := by
  unfold setDMIfFc fin; split <;> simp [setDM_kind_old F h o hr]

theorem step_kind_old (F : Fns) (s : St) (op : Op) (r : ArrRef) (hr : r < s.h.next) :
    (step F s op).1.h.kind r = s.h.kind r := by
  cases op with
  | setForces f => simp only [step]; split <;> rfl
  | setEnergies f => simp only [step]; split <;> rfl
  | produceFcWith f =>
    simp only [step]; split
    · rfl
    · next ds hd =>
      refine Eq.trans (setDMIfMasses_kind_old F _ _ (r := r) (Nat.lt_succ_of_lt hr)) ?_
      exact alloc_kind_old (h := s.h.write ds _) hr
  | newArr v own k => exact alloc_kind_old hr
  | setFc a => simp only [step]; split <;> simp [setDMIfMasses_kind_old F _ _ hr]
  | produceFc c =>
    simp only [step]; split
    · rfl
    · split
      · refine Eq.trans (setDMIfMasses_kind_old F _ _ (r := r) (Nat.lt_succ_of_lt hr)) ?_
        exact alloc_kind_old hr
      · rfl
  | generate k => exact alloc_kind_old hr
  | symmetrizeFc level =>
    simp only [step, inPlace]; split
    · rfl
    · exact setDMIfMasses_kind_old F (s.h.write _ _) _ (r := r) hr
  | symmetrizeFcSpaceGroup =>
    simp only [step]; split
    · rfl
    · next a ha =>
      split
      · rfl
      · simp only [inPlace, ha]; exact setDMIfMasses_kind_old F (s.h.write _ _) _ (r := r) hr
  | cutoff c =>
    simp only [step, inPlace]; split
    · rfl
    · exact setDMIfMasses_kind_old F (s.h.write _ _) _ (r := r) hr
  | setNac a =>
    simp only [step]; split
    · exact setDMIfFc_kind_old F _ _ hr
    · split
      · exact setDMIfFc_kind_old F _ _ hr
      · rfl
  | setMasses m => simp only [step]; exact setDMIfFc_kind_old F _ _ hr
  | setDataset a =>
    simp only [step]; split
    · rfl
    · split
      · exact alloc_kind_old hr
      · rfl
  | copy => rfl
  | callerMutates a v => simp only [step]; split <;> rfl
  | query q => rw [query_heap]

theorem Coherent.reach_lt {F : Fns} {s : St} (hc : Coherent F s) {r : ArrRef} (hr : Reach s.o r) :
    r < s.h.next := by
  have hdm : ∀ d, s.o.dm = some d → d.fcRef < s.h.next := by
    intro d hd
    cases hfc : s.o.fc with
    | none => have := hc.dmNone (Or.inl hfc); rw [hd] at this; cases this
    | some a =>
      cases hm : s.o.masses with
      | none => have := hc.dmNone (Or.inr hm); rw [hd] at this; cases this
      | some m =>
        obtain ⟨d0, e1, e2, _⟩ := hc.dmSome a m hfc hm
        rw [hd] at e1; cases e1
        rw [e2]; exact hc.allocFc a hfc
  rcases hr with h | h | h | ⟨d, d1, d2⟩ | ⟨g, g1, g2⟩
  · exact hc.allocFc r h
  · exact hc.allocNac r h
  · exact hc.allocDs r h
  · rw [← d2]; exact hdm d d1
  · rw [← g2]; exact hdm g.dm (hc.gv g g1)

/-- running any history on one object leaves every cell in `R` untouched, provided `R` is
allocated, not reachable from the object, and never named by the caller in that history -/
theorem frame_run (F : Fns) (R : List ArrRef) (n0 : Nat) (hR : ∀ r ∈ R, r < n0) (ops : List Op) :
    ∀ s : St, n0 ≤ s.h.next → (∀ r ∈ R, ¬ Reach s.o r) → (∀ op ∈ ops, ∀ a ∈ op.named, a ∉ R) →
      (∀ r ∈ R, (run F s ops).h.cells r = s.h.cells r ∧ (run F s ops).h.kind r = s.h.kind r) ∧
        s.h.next ≤ (run F s ops).h.next := by
  induction ops with
  | nil => intro s _ _ _; exact ⟨fun r _ => ⟨rfl, rfl⟩, Nat.le_refl _⟩
  | cons op ops ih =>
    intro s hn hreach hnamed
    have hn' : n0 ≤ (step F s op).1.h.next := Nat.le_trans hn (step_next F s op)
    have hreach' : ∀ r ∈ R, ¬ Reach (step F s op).1.o r := by
      intro r hr h
      rcases step_reach F s op r h with h | h | h
      · exact hreach r hr h
      · exact hnamed op (List.mem_cons_self) r h hr
      · exact absurd (Nat.lt_of_lt_of_le (hR r hr) hn) (Nat.not_lt.mpr h)
    obtain ⟨ih1, ih2⟩ := ih (step F s op).1 hn' hreach' (fun op' h' => hnamed op' (List.mem_cons_of_mem _ h'))
    refine ⟨fun r hr => ?_, Nat.le_trans (step_next F s op) ih2⟩
    have hlt : r < s.h.next := Nat.lt_of_lt_of_le (hR r hr) hn
    have hc := step_writes_only_fc F s op r hlt (fun h => hreach r hr (Or.inl h))
      (fun h => hreach r hr (Or.inr (Or.inr (Or.inl h))))
      (fun v h => hnamed op (List.mem_cons_self) r (by rw [h]; simp [Op.named]) hr)
    have hk := step_kind_old F s op r hlt
    exact ⟨(ih1 r hr).1.trans hc, (ih1 r hr).2.trans hk⟩

/-! ### where the object's force-constant reference can come from -/
theorem setDM_fc (F : Fns) (h : Heap) (o : Obj) {r : ArrRef} (hr : (setDM F h o).2.1.fc = some r) :
    o.fc = some r ∨ r = h.next := by
  unfold setDM at hr
  split at hr
  · next hfc => simp [hfc] at hr
  · next a hfc hm => left; simpa using hr
  · next a m hfc hm =>
    have := kc_ref F o.fsf h a
    simp only [Option.some.injEq] at hr
    rcases this with h1 | h1
    · left; rw [hfc, ← hr, h1]
    · right; rw [← hr, h1]
theorem setDMIfMasses_fc (F : Fns) (h : Heap) (o : Obj) {r : ArrRef}
    (hr : (fin (setDMIfMasses F h o)).1.o.fc = some r) : o.fc = some r ∨ r = h.next := by
  unfold setDMIfMasses fin at hr; split at hr
  · exact Or.inl hr
  · exact setDM_fc F h o hr
theorem setDMIfFc_fc (F : Fns) (h : Heap) (o : Obj) {r : ArrRef}
    (hr : (fin (setDMIfFc F h o)).1.o.fc = some r) : o.fc = some r ∨ r = h.next := by
  unfold setDMIfFc fin at hr; split at hr
  · exact Or.inl hr
  · exact setDM_fc F h o hr

/-- after an operation the object's force-constant array is the one it had, the one the caller
just handed to the setter, or a fresh one -/
theorem step_fc (F : Fns) (s : St) (op : Op) (r : ArrRef) (hr : (step F s op).1.o.fc = some r) :
    s.o.fc = some r ∨ op = .setFc r ∨ s.h.next ≤ r := by
  cases op with
  | setForces f => simp only [step] at hr; split at hr <;> exact Or.inl hr
  | setEnergies f => simp only [step] at hr; split at hr <;> exact Or.inl hr
  | produceFcWith f =>
    simp only [step] at hr; split at hr
    · exact Or.inl hr
    · rcases setDMIfMasses_fc F _ _ hr with h | h
      · simp only [Option.some.injEq] at h; exact Or.inr (Or.inr (Nat.le_of_eq h))
      · right; right; rw [h]; exact Nat.le_succ _
  | newArr v own k => exact Or.inl hr
  | setFc a =>
    simp only [step] at hr; split at hr
    · rcases setDMIfMasses_fc F _ _ hr with h | h
      · simp only [Option.some.injEq] at h; right; left; rw [h]
      · exact Or.inr (Or.inr (Nat.le_of_eq h.symm))
    · exact Or.inl hr
  | produceFc c =>
    simp only [step] at hr; split at hr
    · exact Or.inl hr
    · split at hr
      · rcases setDMIfMasses_fc F _ _ hr with h | h
        · simp only [Option.some.injEq] at h; exact Or.inr (Or.inr (Nat.le_of_eq h))
        · right; right; rw [h]; exact Nat.le_succ _
      · exact Or.inl hr
  | generate k => exact Or.inl hr
  | symmetrizeFc level =>
    simp only [step, inPlace] at hr; split at hr
    · exact Or.inl hr
    · rcases setDMIfMasses_fc F _ _ hr with h | h
      · exact Or.inl h
      · exact Or.inr (Or.inr (Nat.le_of_eq h.symm))
  | symmetrizeFcSpaceGroup =>
    simp only [step] at hr; split at hr
    · exact Or.inl hr
    · next a ha =>
      split at hr
      · exact Or.inl hr
      · simp only [inPlace, ha] at hr
        rcases setDMIfMasses_fc F _ _ hr with h | h
        · exact Or.inl h
        · exact Or.inr (Or.inr (Nat.le_of_eq h.symm))
  | cutoff c =>
    simp only [step, inPlace] at hr; split at hr
    · exact Or.inl hr
    · rcases setDMIfMasses_fc F _ _ hr with h | h
      · exact Or.inl h
      · exact Or.inr (Or.inr (Nat.le_of_eq h.symm))
  | setNac a =>
    simp only [step] at hr; split at hr
    · rcases setDMIfFc_fc F _ _ hr with h | h
      · exact Or.inl h
      · exact Or.inr (Or.inr (Nat.le_of_eq h.symm))
    · split at hr
      · rcases setDMIfFc_fc F _ _ hr with h | h
        · exact Or.inl h
        · exact Or.inr (Or.inr (Nat.le_of_eq h.symm))
      · exact Or.inl hr
  | setMasses m =>
    simp only [step] at hr
    rcases setDMIfFc_fc F _ _ hr with h | h
    · exact Or.inl h
    · exact Or.inr (Or.inr (Nat.le_of_eq h.symm))
  | setDataset a =>
    simp only [step] at hr; split at hr
    · exact Or.inl hr
    · split at hr <;> exact Or.inl hr
  | copy => exact Or.inl hr
  | callerMutates a v => simp only [step] at hr; split at hr <;> exact Or.inl hr
  | query q => left; rw [(query_params F s q).1] at hr; exact hr

/-! ### the constructor option is never changed -/
theorem setDM_fsf (F : Fns) (h : Heap) (o : Obj) : (setDM F h o).2.1.fsf = o.fsf := by
  unfold setDM; split <;> rfl
theorem setDMIfMasses_fsf (F : Fns) (h : Heap) (o : Obj) : (fin (setDMIfMasses F h o)).1.o.fsf = o.fsf := by
  unfold setDMIfMasses fin; split
  · rfl
  · exact setDM_fsf F h o
theorem setDMIfFc_fsf (F : Fns) (h : Heap) (o : Obj) : (fin (setDMIfFc F h o)).1.o.fsf = o.fsf := by
  unfold setDMIfFc fin; split
  · rfl
  · exact setDM_fsf F h o

theorem step_fsf (F : Fns) (s : St) (op : Op) : (step F s op).1.o.fsf = s.o.fsf := by
  cases op with
  | setForces f => simp only [step]; split <;> rfl
  | setEnergies f => simp only [step]; split <;> rfl
  | produceFcWith f => simp only [step]; split <;> simp [setDMIfMasses_fsf]
  | newArr v own k => rfl
  | setFc a => simp only [step]; split <;> simp [setDMIfMasses_fsf]
  | produceFc c => simp only [step]; split <;> (try split) <;> simp [setDMIfMasses_fsf]
  | generate k => rfl
  | symmetrizeFc level => simp only [step, inPlace]; split <;> simp [setDMIfMasses_fsf]
  | symmetrizeFcSpaceGroup =>
    simp only [step]; split
    · rfl
    · next a ha => split <;> simp [inPlace, ha, setDMIfMasses_fsf]
  | cutoff c => simp only [step, inPlace]; split <;> simp [setDMIfMasses_fsf]
  | setNac a =>
    simp only [step]; split
    · simp [setDMIfFc_fsf]
    · split <;> simp [setDMIfFc_fsf]
  | setMasses m => simp only [step]; simp [setDMIfFc_fsf]
  | setDataset a =>
    simp only [step]; split
    · rfl
    · split <;> rfl
  | copy => rfl
  | callerMutates a v => simp only [step]; split <;> rfl
  | query q => exact (query_params F s q).2.2.2.2

theorem run_fsf (F : Fns) (ops : List Op) : ∀ s : St, (run F s ops).o.fsf = s.o.fsf := by
  induction ops with
  | nil => intro s; rfl
  | cons op ops ih => intro s; exact (ih _).trans (step_fsf F s op)

/-- `_set_dynamical_matrix` without the deprecated scale factor leaves the values of all
current parameters as they are -/
theorem setDM_abs (F : Fns) (h : Heap) (o : Obj) (hf : o.fsf = false)
    (_h1 : ∀ a, o.fc = some a → a < h.next) (h2 : ∀ a, o.nac = some a → a < h.next)
    (h3 : ∀ a, o.dataset = some a → a < h.next) :
    abs ⟨(setDM F h o).1, (setDM F h o).2.1⟩ = abs ⟨h, o⟩ := by
  unfold setDM
  split
  · next hfc =>
    simp only [abs, hfc, Option.map_none, Spec.mk.injEq, true_and]
    funext d; cases d <;> rfl
  · next a hfc hm =>
    simp only [abs, Spec.mk.injEq, true_and]
    funext d; cases d <;> rfl
  · next a m hfc hm =>
    have hcells : ∀ r, r < h.next → (keepOrCopy F o.fsf h a).1.bumpId.cells r = h.cells r :=
      fun r hr => kc_cells_old hr
    have e1 := map_cells_congr (h := h) (h' := (keepOrCopy F o.fsf h a).1.bumpId) o.nac (fun r hr => hcells r (h2 r hr))
    have e2 := map_cells_congr (h := h) (h' := (keepOrCopy F o.fsf h a).1.bumpId) o.dataset (fun r hr => hcells r (h3 r hr))
    have e3 : (keepOrCopy F o.fsf h a).1.bumpId.cells (keepOrCopy F o.fsf h a).2 = h.cells a := by
      rw [hf]; exact kc_cells_ref
    simp only [abs, Option.map_some, e1, e2, e3, hfc, Spec.mk.injEq, true_and]
    funext d; cases d <;> rfl

/-! ### the object's dataset is always its own deep copy -/
theorem setDM_ds (F : Fns) (h : Heap) (o : Obj) : (setDM F h o).2.1.dataset = o.dataset := by
  unfold setDM; split <;> rfl
theorem setDMIfMasses_ds (F : Fns) (h : Heap) (o : Obj) : (fin (setDMIfMasses F h o)).1.o.dataset = o.dataset := by
  unfold setDMIfMasses fin; split
  · rfl
  · exact setDM_ds F h o
theorem setDMIfFc_ds (F : Fns) (h : Heap) (o : Obj) : (fin (setDMIfFc F h o)).1.o.dataset = o.dataset := by
  unfold setDMIfFc fin; split
  · rfl
  · exact setDM_ds F h o

/-- after an operation the stored dataset is the one the object had or a fresh copy — never an
object of the caller (`dataset.setter` deep-copies) -/
theorem step_ds (F : Fns) (s : St) (op : Op) (r : ArrRef) (hr : (step F s op).1.o.dataset = some r) :
    s.o.dataset = some r ∨ s.h.next ≤ r := by
  cases op with
  | setForces f => simp only [step] at hr; split at hr <;> exact Or.inl hr
  | setEnergies f => simp only [step] at hr; split at hr <;> exact Or.inl hr
  | produceFcWith f =>
    simp only [step] at hr; split at hr
    · exact Or.inl hr
    · rw [setDMIfMasses_ds] at hr; exact Or.inl (by simpa using hr)
  | newArr v own k => exact Or.inl hr
  | setFc a =>
    simp only [step] at hr; split at hr
    · rw [setDMIfMasses_ds] at hr; exact Or.inl hr
    · exact Or.inl hr
  | produceFc c =>
    simp only [step] at hr; split at hr
    · exact Or.inl hr
    · split at hr
      · rw [setDMIfMasses_ds] at hr; exact Or.inl (by simpa using hr)
      · exact Or.inl hr
  | generate k =>
    simp only [step, Option.some.injEq] at hr; exact Or.inr (Nat.le_of_eq hr)
  | symmetrizeFc level =>
    simp only [step, inPlace] at hr; split at hr
    · exact Or.inl hr
    · rw [setDMIfMasses_ds] at hr; exact Or.inl hr
  | symmetrizeFcSpaceGroup =>
    simp only [step] at hr; split at hr
    · exact Or.inl hr
    · next a ha =>
      split at hr
      · exact Or.inl hr
      · simp only [inPlace, ha] at hr; rw [setDMIfMasses_ds] at hr; exact Or.inl hr
  | cutoff c =>
    simp only [step, inPlace] at hr; split at hr
    · exact Or.inl hr
    · rw [setDMIfMasses_ds] at hr; exact Or.inl hr
  | setNac a =>
    simp only [step] at hr; split at hr
    · rw [setDMIfFc_ds] at hr; exact Or.inl hr
    · split at hr
      · rw [setDMIfFc_ds] at hr; exact Or.inl hr
      · exact Or.inl hr
  | setMasses m => simp only [step] at hr; rw [setDMIfFc_ds] at hr; exact Or.inl hr
  | setDataset a =>
    simp only [step] at hr; split at hr
    · simp at hr
    · split at hr
      · simp only [Option.some.injEq] at hr; exact Or.inr (Nat.le_of_eq hr)
      · exact Or.inl hr
  | copy => exact Or.inl hr
  | callerMutates a v => simp only [step] at hr; split at hr <;> exact Or.inl hr
  | query q => left; rw [(query_params F s q).2.2.2.1] at hr; exact hr

/-! ### stored result objects are never reset -/
theorem setDM_derived (F : Fns) (h : Heap) (o : Obj) (d : Derived) :
    (setDM F h o).2.1.derivedGet d = o.derivedGet d := by
  unfold setDM; split <;> cases d <;> rfl
theorem setDMIfMasses_derived (F : Fns) (h : Heap) (o : Obj) (d : Derived) :
    (fin (setDMIfMasses F h o)).1.o.derivedGet d = o.derivedGet d := by
  unfold setDMIfMasses fin; split
  · rfl
  · exact setDM_derived F h o d
theorem setDMIfFc_derived (F : Fns) (h : Heap) (o : Obj) (d : Derived) :
    (fin (setDMIfFc F h o)).1.o.derivedGet d = o.derivedGet d := by
  unfold setDMIfFc fin; split
  · rfl
  · exact setDM_derived F h o d

/-- no operation other than the `run_*` of a result object changes that stored result object:
no setter invalidates `mesh`, `band_structure`, `thermal_properties`, `total_dos` -/
theorem step_derived (F : Fns) (s : St) (op : Op) (d : Derived) (hop : op ≠ .query (.run d)) :
    (step F s op).1.o.derivedGet d = s.o.derivedGet d := by
  cases op with
  | newArr v own k => rfl
  | setFc a => simp only [step]; split <;> simp [setDMIfMasses_derived] <;> cases d <;> rfl
  | produceFc c =>
    simp only [step]; split
    · rfl
    · split
      · rw [setDMIfMasses_derived]; cases d <;> rfl
      · rfl
  | generate k => cases d <;> rfl
  | setForces f => simp only [step]; split <;> rfl
  | setEnergies f => simp only [step]; split <;> rfl
  | produceFcWith f =>
    simp only [step]; split
    · rfl
    · rw [setDMIfMasses_derived]; cases d <;> rfl
  | symmetrizeFc level => simp only [step, inPlace]; split <;> simp [setDMIfMasses_derived]
  | symmetrizeFcSpaceGroup =>
    simp only [step]; split
    · rfl
    · next a ha => split <;> simp [inPlace, ha, setDMIfMasses_derived]
  | cutoff c => simp only [step, inPlace]; split <;> simp [setDMIfMasses_derived]
  | setNac a =>
    simp only [step]; split
    · rw [setDMIfFc_derived]; cases d <;> rfl
    · split
      · rw [setDMIfFc_derived]; cases d <;> rfl
      · rfl
  | setMasses m => simp only [step]; rw [setDMIfFc_derived]; cases d <;> rfl
  | setDataset a =>
    simp only [step]; split
    · cases d <;> rfl
    · split
      · cases d <;> rfl
      · rfl
  | copy => rfl
  | callerMutates a v => simp only [step]; split <;> rfl
  | query q =>
    cases q with
    | run d' =>
      have hne : d' ≠ d := fun e => hop (by rw [e])
      cases d' <;> cases d <;> first | exact absurd rfl hne | (simp only [step]; (repeat' split) <;> rfl)
    | get d' => rfl
    | freq => simp only [step]; split <;> cases d <;> rfl
    | freqGV => simp only [step]; split <;> cases d <;> rfl
    | getFc => rfl
    | getNac => rfl
    | getMasses => rfl
    | getDataset => rfl
    | getDisps => simp only [step]; (repeat' split) <;> cases d <;> rfl

/-- what `run_mesh` / `run_band_structure` / `run_thermal_properties` / `run_total_dos` store -/
theorem run_snapshot (F : Fns) (s : St) (d : Derived) :
    (step F s (.query (.run d))).1.o.derivedGet d =
      match d with
      | .mesh | .band =>
        (match s.o.dm, s.o.masses with
          | some d0, some m => some (phononsOf s.h (touchGonze s.h d0) m)
          | _, _ => s.o.derivedGet d)
      | .tp | .dos =>
        (match s.o.mesh with
          | some pm => some pm
          | none => s.o.derivedGet d) := by
  cases d
  · simp only [step]; cases s.o.dm <;> cases s.o.masses <;> rfl
  · simp only [step]; cases s.o.dm <;> cases s.o.masses <;> rfl
  · simp only [step]; cases s.o.mesh <;> rfl
  · simp only [step]; cases s.o.mesh <;> rfl

/-! ### the hidden configuration of group velocities (`Phonopy._gv_delta_q`) -/

/-- the group-velocity object was constructed with the object's `group_velocity_delta_q` -/
def GvConfigO (o : Obj) : Prop := ∀ g, o.gv = some g → g.qLength = o.gvDeltaQ

theorem setDM_gvdq (F : Fns) (h : Heap) (o : Obj) : (setDM F h o).2.1.gvDeltaQ = o.gvDeltaQ := by
  unfold setDM; split <;> rfl
theorem setDM_gvconfig (F : Fns) (h : Heap) (o : Obj) (hg : GvConfigO o) : GvConfigO (setDM F h o).2.1 := by
  unfold setDM; split
  · exact hg
  · exact hg
  · intro g hgv
    simp only [Option.map_eq_some_iff] at hgv
    obtain ⟨_, _, rfl⟩ := hgv; rfl
theorem setDMIfMasses_gvdq (F : Fns) (h : Heap) (o : Obj) : (fin (setDMIfMasses F h o)).1.o.gvDeltaQ = o.gvDeltaQ := by
  unfold setDMIfMasses fin; split
  · rfl
  · exact setDM_gvdq F h o
theorem setDMIfFc_gvdq (F : Fns) (h : Heap) (o : Obj) : (fin (setDMIfFc F h o)).1.o.gvDeltaQ = o.gvDeltaQ := by
  unfold setDMIfFc fin; split
  · rfl
  · exact setDM_gvdq F h o
theorem setDMIfMasses_gvconfig (F : Fns) (h : Heap) (o : Obj) (hg : GvConfigO o) :
    GvConfigO (fin (setDMIfMasses F h o)).1.o := by
  unfold setDMIfMasses fin; split
  · exact hg
  · exact setDM_gvconfig F h o hg
theorem setDMIfFc_gvconfig (F : Fns) (h : Heap) (o : Obj) (hg : GvConfigO o) :
    GvConfigO (fin (setDMIfFc F h o)).1.o := by
  unfold setDMIfFc fin; split
  · exact hg
  · exact setDM_gvconfig F h o hg

/-- no operation writes `_gv_delta_q` -/
theorem step_gvdq (F : Fns) (s : St) (op : Op) : (step F s op).1.o.gvDeltaQ = s.o.gvDeltaQ := by
  cases op with
  | setForces f => simp only [step]; split <;> rfl
  | setEnergies f => simp only [step]; split <;> rfl
  | produceFcWith f => simp only [step]; split <;> simp [setDMIfMasses_gvdq]
  | newArr v own k => rfl
  | setFc a => simp only [step]; split <;> simp [setDMIfMasses_gvdq]
  | produceFc c => simp only [step]; split <;> (try split) <;> simp [setDMIfMasses_gvdq]
  | generate k => rfl
  | symmetrizeFc level => simp only [step, inPlace]; split <;> simp [setDMIfMasses_gvdq]
  | symmetrizeFcSpaceGroup =>
    simp only [step]; split
    · rfl
    · next a ha => split <;> simp [inPlace, ha, setDMIfMasses_gvdq]
  | cutoff c => simp only [step, inPlace]; split <;> simp [setDMIfMasses_gvdq]
  | setNac a =>
    simp only [step]; split
    · simp [setDMIfFc_gvdq]
    · split <;> simp [setDMIfFc_gvdq]
  | setMasses m => simp only [step]; simp [setDMIfFc_gvdq]
  | setDataset a =>
    simp only [step]; split
    · rfl
    · split <;> rfl
  | copy => rfl
  | callerMutates a v => simp only [step]; split <;> rfl
  | query q =>
    cases q with
    | run d => cases d <;> simp only [step] <;> (repeat' split) <;> rfl
    | get d => rfl
    | freq => simp only [step]; split <;> rfl
    | freqGV => simp only [step]; split <;> rfl
    | getFc => rfl
    | getNac => rfl
    | getMasses => rfl
    | getDataset => rfl
    | getDisps => simp only [step]; (repeat' split) <;> rfl

theorem sync_gvconfig {o : Obj} {d d' : DMObj} {q : Option Val} (hg : ∀ g, o.gv = some g → g.qLength = q) :
    ∀ g, (o.gv.map fun g => if g.dm.id = d.id then ({ g with dm := d' } : GVObj) else g) = some g → g.qLength = q := by
  intro g hgv
  simp only [Option.map_eq_some_iff] at hgv
  obtain ⟨g0, g1, g2⟩ := hgv
  split at g2
  · rw [← g2]; exact hg g0 g1
  · rw [← g2]; exact hg g0 g1

/-- every group-velocity object the object holds was constructed with the object's
`group_velocity_delta_q` — in every state, after every operation -/
theorem step_gvconfig (F : Fns) (s : St) (op : Op) (hg : GvConfigO s.o) : GvConfigO (step F s op).1.o := by
  have keep : ∀ o' : Obj, o'.gv = s.o.gv → o'.gvDeltaQ = s.o.gvDeltaQ → GvConfigO o' := by
    intro o' h1 h2 g hgv; rw [h1] at hgv; rw [h2]; exact hg g hgv
  cases op with
  | setForces f => simp only [step]; split <;> exact hg
  | setEnergies f => simp only [step]; split <;> exact hg
  | produceFcWith f =>
    simp only [step]; split
    · exact hg
    · exact setDMIfMasses_gvconfig F _ _ (keep _ rfl rfl)
  | newArr v own k => exact hg
  | setFc a =>
    simp only [step]; split
    · exact setDMIfMasses_gvconfig F _ _ (keep _ rfl rfl)
    · exact hg
  | produceFc c =>
    simp only [step]; split
    · exact hg
    · split
      · exact setDMIfMasses_gvconfig F _ _ (keep _ rfl rfl)
      · exact hg
  | generate k => exact keep _ rfl rfl
  | symmetrizeFc level =>
    simp only [step, inPlace]; split
    · exact hg
    · exact setDMIfMasses_gvconfig F _ _ hg
  | symmetrizeFcSpaceGroup =>
    simp only [step]; split
    · exact hg
    · next a ha =>
      split
      · exact hg
      · simp only [inPlace, ha]; exact setDMIfMasses_gvconfig F _ _ hg
  | cutoff c =>
    simp only [step, inPlace]; split
    · exact hg
    · exact setDMIfMasses_gvconfig F _ _ hg
  | setNac a =>
    simp only [step]; split
    · exact setDMIfFc_gvconfig F _ _ (keep _ rfl rfl)
    · split
      · exact setDMIfFc_gvconfig F _ _ (keep _ rfl rfl)
      · exact hg
  | setMasses m => simp only [step]; exact setDMIfFc_gvconfig F _ _ (keep _ rfl rfl)
  | setDataset a =>
    simp only [step]; split
    · exact keep _ rfl rfl
    · split
      · exact keep _ rfl rfl
      · exact hg
  | copy => exact hg
  | callerMutates a v => simp only [step]; split <;> exact hg
  | query q =>
    cases q with
    | run d =>
      cases d with
      | mesh => simp only [step]; split <;> first | exact hg | exact sync_gvconfig hg
      | band => simp only [step]; split <;> first | exact hg | exact sync_gvconfig hg
      | tp => simp only [step]; split <;> first | exact hg | exact keep _ rfl rfl
      | dos => simp only [step]; split <;> first | exact hg | exact keep _ rfl rfl
    | get d => exact hg
    | freq => simp only [step]; split <;> first | exact hg | exact sync_gvconfig hg
    | freqGV =>
      simp only [step]; split
      · intro g hgv
        simp only [Option.some.injEq] at hgv
        rw [← hgv]
        cases hgv' : s.o.gv with
        | none => rfl
        | some g0 => simp only [gvOr]; exact hg g0 hgv'
      · exact hg
    | getFc => exact hg
    | getNac => exact hg
    | getMasses => exact hg
    | getDataset => exact hg
    | getDisps => simp only [step]; (repeat' split) <;> first | exact hg | exact keep _ rfl rfl

end PhononModel.C15
