import PhononModel.Model.YamlAst
/-!
Helper lemmas for property C16 (yaml abstract syntax): lists of three numbers ↔ vectors.
-/
namespace PhononModel.C16
open PhononModel.DS PhononModel.YA
variable {α : Type} {n : Nat}

theorem listToVec_vecToList (v : Vec3 α) : listToVec (vecToList v) = some v := by
  unfold listToVec vecToList
  simp only [List.length_ofFn, dite_true]
  congr 1
  funext i
  rw [List.getElem_ofFn]

theorem rowsToVecs_map (vs : List (Vec3 α)) : rowsToVecs (vs.map vecToList) = some vs := by
  induction vs with
  | nil => rfl
  | cons v vs ih => simp only [List.map_cons, rowsToVecs, listToVec_vecToList, ih]

theorem listToField_fieldToList (f : Field3 n α) : listToField n (fieldToList f) = some f := by
  unfold listToField fieldToList
  have h : List.ofFn (fun i => vecToList (f i)) = (List.ofFn f).map vecToList := by
    rw [List.map_ofFn]; rfl
  rw [h, rowsToVecs_map]
  simp only [List.length_ofFn, dite_true]
  congr 1
  funext i
  simp [List.getElem_ofFn]

theorem fieldsOf_map (fs : List (Field3 n α)) : fieldsOf n (fs.map fieldToList) = some fs := by
  induction fs with
  | nil => rfl
  | cons f fs ih => simp only [List.map_cons, fieldsOf, listToField_fieldToList, ih]

end PhononModel.C16
