import PhononModel.Model.UnitAlgebra
import Mathlib.Analysis.SpecialFunctions.Pow.Real
import Mathlib.Analysis.SpecialFunctions.Sqrt
/-!
Real-number semantics of unit expressions and soundness of the normal form:
for every positive valuation of the symbols that sends the primes 2, 3, 5 to themselves,
`norm e = some m → e.eval ρ = m.eval ρ`.  Hence `normEq a b = true` implies that `a` and `b`
denote the same real number whatever the values of the fundamental constants are.
-/
namespace PhononModel.Units
open Real

/-- value of a unit expression under a valuation of the symbols -/
noncomputable def UExpr.eval (ρ : ℕ → ℝ) : UExpr → ℝ
  | .sym k => ρ k
  | .num n e => (n : ℝ) * (10 : ℝ) ^ e
  | .mul a b => a.eval ρ * b.eval ρ
  | .div a b => a.eval ρ / b.eval ρ
  | .pow a k => (a.eval ρ) ^ k
  | .sqrt a => Real.sqrt (a.eval ρ)

/-- value of a monomial -/
noncomputable def Mono.eval (ρ : ℕ → ℝ) (m : Mono) : ℝ :=
  (m.map (fun p => ρ p.1 ^ ((p.2 : ℚ) : ℝ))).prod

/-- valuations under which the normal form is sound -/
structure Admissible (ρ : ℕ → ℝ) : Prop where
  pos : ∀ k, 0 < ρ k
  two : ρ 2 = 2
  three : ρ 3 = 3
  five : ρ 5 = 5

variable {ρ : ℕ → ℝ}

@[simp] theorem Mono.eval_nil : Mono.eval ρ [] = 1 := rfl

@[simp] theorem Mono.eval_cons (k : ℕ) (q : ℚ) (t : Mono) :
    Mono.eval ρ ((k, q) :: t) = ρ k ^ (q : ℝ) * Mono.eval ρ t := by
  simp [Mono.eval]

theorem Mono.eval_pos (h : Admissible ρ) (m : Mono) : 0 < Mono.eval ρ m := by
  induction m with
  | nil => simp
  | cons p t ih =>
    obtain ⟨k, q⟩ := p
    rw [Mono.eval_cons]
    exact mul_pos (Real.rpow_pos_of_pos (h.pos k) _) ih

theorem Mono.eval_insert (h : Admissible ρ) (k : ℕ) (q : ℚ) (m : Mono) :
    Mono.eval ρ (Mono.insert k q m) = ρ k ^ (q : ℝ) * Mono.eval ρ m := by
  induction m with
  | nil =>
    unfold Mono.insert
    split
    · next hq => subst hq; simp
    · simp
  | cons p t ih =>
    obtain ⟨k', q'⟩ := p
    unfold Mono.insert
    split
    · split
      · next hq => subst hq; simp
      · simp
    · split
      · next hk =>
        subst hk
        split
        · next hq =>
          have : ((q : ℝ) + (q' : ℝ)) = 0 := by exact_mod_cast hq
          rw [Mono.eval_cons, ← mul_assoc, ← Real.rpow_add (h.pos k), this, Real.rpow_zero, one_mul]
        · rw [Mono.eval_cons, Mono.eval_cons, ← mul_assoc, ← Real.rpow_add (h.pos k)]
          push_cast; rfl
      · rw [Mono.eval_cons, Mono.eval_cons, ih]; ring

theorem Mono.eval_mul (h : Admissible ρ) (a b : Mono) :
    Mono.eval ρ (Mono.mul a b) = Mono.eval ρ a * Mono.eval ρ b := by
  induction a with
  | nil => simp [Mono.mul]
  | cons p t ih =>
    obtain ⟨k, q⟩ := p
    have : Mono.mul ((k, q) :: t) b = Mono.insert k q (Mono.mul t b) := rfl
    rw [this, Mono.eval_insert h, ih, Mono.eval_cons]; ring

theorem Mono.eval_scale (h : Admissible ρ) (c : ℚ) (a : Mono) :
    Mono.eval ρ (Mono.scale c a) = Mono.eval ρ a ^ (c : ℝ) := by
  induction a with
  | nil => simp [Mono.scale]
  | cons p t ih =>
    obtain ⟨k, q⟩ := p
    have : Mono.scale c ((k, q) :: t) = Mono.insert k (c * q) (Mono.scale c t) := rfl
    rw [this, Mono.eval_insert h, ih, Mono.eval_cons,
      Real.mul_rpow (Real.rpow_pos_of_pos (h.pos k) _).le (Mono.eval_pos h t).le,
      ← Real.rpow_mul (h.pos k).le]
    push_cast; ring_nf

theorem Mono.eval_inv (h : Admissible ρ) (a : Mono) :
    Mono.eval ρ (Mono.inv a) = (Mono.eval ρ a)⁻¹ := by
  unfold Mono.inv
  rw [Mono.eval_scale h]
  have : (((-1 : ℚ)) : ℝ) = -1 := by norm_num
  rw [this, Real.rpow_neg_one]

theorem factorOut_spec (p : ℕ) : ∀ (fuel n : ℕ),
    n = p ^ (factorOut p fuel n).1 * (factorOut p fuel n).2
  | 0, n => by simp [factorOut]
  | fuel + 1, n => by
    unfold factorOut
    split
    · next hc =>
      have ih := factorOut_spec p fuel (n / p)
      have hdiv : p * (n / p) = n := Nat.mul_div_cancel' (Nat.dvd_of_mod_eq_zero hc.1)
      simp only
      calc n = p * (n / p) := hdiv.symm
        _ = p * (p ^ (factorOut p fuel (n / p)).1 * (factorOut p fuel (n / p)).2) := by rw [← ih]
        _ = _ := by rw [pow_succ]; ring
    · simp

theorem numMono_sound (h : Admissible ρ) (n : ℕ) (e : ℤ) (m : Mono) (hm : numMono n e = some m) :
    (n : ℝ) * (10 : ℝ) ^ e = Mono.eval ρ m := by
  unfold numMono at hm
  simp only at hm
  split at hm
  · next h1 =>
    injection hm with hm
    subst hm
    set f2 := factorOut 2 (n.log2 + 1) n with hf2
    set f3 := factorOut 3 (n.log2 + 1) f2.2 with hf3
    set f5 := factorOut 5 (n.log2 + 1) f3.2 with hf5
    have e2 : n = 2 ^ f2.1 * f2.2 := factorOut_spec 2 _ n
    have e3 : f2.2 = 3 ^ f3.1 * f3.2 := factorOut_spec 3 _ f2.2
    have e5 : f3.2 = 5 ^ f5.1 * f5.2 := factorOut_spec 5 _ f3.2
    rw [h1, mul_one] at e5
    have hn : (n : ℝ) = 2 ^ f2.1 * (3 ^ f3.1 * 5 ^ f5.1) := by
      rw [e2, e3, e5]; push_cast; ring
    rw [Mono.eval_insert h, Mono.eval_insert h, Mono.eval_insert h, Mono.eval_nil, h.two, h.three, h.five, hn]
    have c2 : (((((f2.1 : ℤ) + e : ℤ) : ℚ)) : ℝ) = (((f2.1 : ℤ) + e : ℤ) : ℝ) := by norm_cast
    have c3 : ((((f3.1 : ℤ) : ℚ)) : ℝ) = ((f3.1 : ℤ) : ℝ) := by norm_cast
    have c5 : (((((f5.1 : ℤ) + e : ℤ) : ℚ)) : ℝ) = (((f5.1 : ℤ) + e : ℤ) : ℝ) := by norm_cast
    rw [c2, c3, c5, Real.rpow_intCast, Real.rpow_intCast, Real.rpow_intCast,
      zpow_add₀ (by norm_num : (2 : ℝ) ≠ 0), zpow_add₀ (by norm_num : (5 : ℝ) ≠ 0)]
    have h10 : (10 : ℝ) ^ e = 2 ^ e * 5 ^ e := by
      rw [← mul_zpow]; norm_num
    rw [h10]
    simp only [zpow_natCast]
    ring
  · exact absurd hm (by simp)

/-- **soundness of the normal form** -/
theorem norm_sound (h : Admissible ρ) : ∀ (e : UExpr) (m : Mono), norm e = some m →
    e.eval ρ = Mono.eval ρ m
  | .sym k, m, hm => by
    simp only [norm, Option.some.injEq] at hm
    subst hm
    simp [UExpr.eval]
  | .num n e, m, hm => numMono_sound h n e m hm
  | .mul a b, m, hm => by
    simp only [norm] at hm
    split at hm
    · next x y hx hy =>
      injection hm with hm
      subst hm
      rw [Mono.eval_mul h, ← norm_sound h a x hx, ← norm_sound h b y hy]; rfl
    · exact absurd hm (by simp)
  | .div a b, m, hm => by
    simp only [norm] at hm
    split at hm
    · next x y hx hy =>
      injection hm with hm
      subst hm
      rw [Mono.eval_mul h, Mono.eval_inv h, ← norm_sound h a x hx, ← norm_sound h b y hy]; rfl
    · exact absurd hm (by simp)
  | .pow a k, m, hm => by
    simp only [norm] at hm
    split at hm
    · next x hx =>
      injection hm with hm
      subst hm
      have c : (((k : ℚ)) : ℝ) = ((k : ℤ) : ℝ) := by norm_cast
      rw [Mono.eval_scale h, c, Real.rpow_intCast, ← norm_sound h a x hx]; rfl
    · exact absurd hm (by simp)
  | .sqrt a, m, hm => by
    simp only [norm] at hm
    split at hm
    · next x hx =>
      injection hm with hm
      subst hm
      have c : (((1 / 2 : ℚ)) : ℝ) = 1 / 2 := by norm_num
      rw [Mono.eval_scale h, c, ← Real.sqrt_eq_rpow, ← norm_sound h a x hx]; rfl
    · exact absurd hm (by simp)

theorem norm_pos (h : Admissible ρ) (e : UExpr) (m : Mono) (hm : norm e = some m) : 0 < e.eval ρ := by
  rw [norm_sound h e m hm]; exact Mono.eval_pos h m

/-- equal normal forms ⇒ equal values, for every admissible valuation -/
theorem normEq_sound (h : Admissible ρ) (a b : UExpr) (hab : normEq a b = true) :
    a.eval ρ = b.eval ρ := by
  unfold normEq at hab
  split at hab
  · next x y hx hy =>
    have : x = y := by simpa using hab
    rw [norm_sound h a x hx, norm_sound h b y hy, this]
  · exact absurd hab (by simp)

theorem normEq_pos (h : Admissible ρ) (a b : UExpr) (hab : normEq a b = true) :
    0 < a.eval ρ ∧ 0 < b.eval ρ := by
  unfold normEq at hab
  split at hab
  · next x y hx hy => exact ⟨norm_pos h a x hx, norm_pos h b y hy⟩
  · exact absurd hab (by simp)

end PhononModel.Units
