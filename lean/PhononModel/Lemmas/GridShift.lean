import PhononModel.Model.Grid
import Mathlib.Data.Rat.Floor
import Mathlib.Tactic.NormNum
import Mathlib.Tactic.Linarith
import Mathlib.Tactic.Ring

/-! `np.rint` on rationals and the half-shift detection of `_shift2boolean`. -/
namespace PhononModel.Grid

theorem floor_eq (x : ℚ) : x.floor = ⌊x⌋ := rfl

theorem rint_int (n : ℤ) : rint (n : ℚ) = n := by
  unfold rint
  have : (n : ℚ).floor = n := by rw [floor_eq, Int.floor_intCast]
  simp only [this]
  norm_num

theorem rint_half (n : ℤ) : rint ((n : ℚ) + 1 / 2) = n ∨ rint ((n : ℚ) + 1 / 2) = n + 1 := by
  unfold rint
  have : ((n : ℚ) + 1 / 2).floor = n := by
    rw [floor_eq, Int.floor_eq_iff]
    constructor <;> linarith
  simp only [this]
  have h2 : (n : ℚ) + 1 / 2 - (n : ℚ) = 1 / 2 := by ring
  rw [h2]
  simp only [lt_self_iff_false, if_false]
  split
  · left; rfl
  · right; rfl

theorem rabs_zero : rabs 0 = 0 := by unfold rabs; simp

theorem zeroOrHalf_cases (n : ℤ) (half : Bool) :
    zeroOrHalf ((n : ℚ) + (if half then 1 / 2 else 0)) = true := by
  unfold zeroOrHalf
  have : ((n : ℚ) + (if half then 1 / 2 else 0)) * 2 = ((2 * n + (if half then 1 else 0) : ℤ) : ℚ) := by
    cases half <;> push_cast <;> simp <;> ring
  rw [this, rint_int, sub_self, rabs_zero]
  norm_num

theorem isHalf_int (n : ℤ) : isHalf (n : ℚ) = false := by
  unfold isHalf
  rw [rint_int, sub_self, rabs_zero]
  norm_num

theorem isHalf_half (n : ℤ) : isHalf ((n : ℚ) + 1 / 2) = true := by
  unfold isHalf
  rcases rint_half n with h | h <;> rw [h]
  · have : (n : ℚ) + 1 / 2 - (n : ℚ) = 1 / 2 := by ring
    rw [this]; unfold rabs; norm_num
  · have : (n : ℚ) + 1 / 2 - ((n + 1 : ℤ) : ℚ) = -(1 / 2) := by push_cast; ring
    rw [this]; unfold rabs; norm_num

theorem isShift1_cases (gamma : Bool) (m : Nat) (n : ℤ) (half : Bool) :
    isShift1 gamma m ((n : ℚ) + (if half then 1 / 2 else 0)) =
      (if gamma then half else xor half (m % 2 == 0)) := by
  unfold isShift1
  cases half
  · simp only [Bool.false_eq_true, if_false, add_zero, isHalf_int]
  · simp only [if_true, isHalf_half]

end PhononModel.Grid
