import PhononModel.Lemmas.TetraSort

/-! Above the spectrum the cumulative integration weight of a grid point is exactly 1 (C11). -/
set_option linter.unusedSectionVars false
set_option linter.unusedVariables false
set_option linter.unusedSimpArgs false
namespace PhononModel.TetraLemmas
open PhononModel PhononModel.TetraC

variable {K : Type} [Field K] [LinearOrder K] [IsStrictOrderedRing K]

theorem foldl_add_const {β : Type} (l : List β) (q a : K) (c : β → K) (h : ∀ t, c t = q) :
    l.foldl (fun acc t => acc + c t) a = a + l.length * q := by
  induction l generalizing a with
  | nil => simp
  | cons x l ih => rw [List.foldl_cons, ih, List.length_cons, h]; push_cast; ring

/-! ### Python model -/

theorem interval_above (closed : Bool) (ω : K) (s : Fin 4 → K) (h : ∀ k, s k < ω) :
    TetraPy.interval closed ω s = some 4 := by
  have n0 := not_lt.mpr (le_of_lt (h 0))
  have n1 := not_lt.mpr (le_of_lt (h 1))
  have n2 := not_lt.mpr (le_of_lt (h 2))
  have n3 := not_lt.mpr (le_of_lt (h 3))
  unfold TetraPy.interval
  cases closed <;> simp [h 0, h 1, h 2, h 3, n0, n1, n2, n3]

theorem tetraContribution_above (closed : Bool) (ω : K) (v : Fin 4 → K) (c : Fin 4) (h : ∀ k, v k < ω) :
    TetraPy.tetraContribution false closed ω v c = 1 / 4 := by
  unfold TetraPy.tetraContribution
  simp only
  rw [interval_above closed ω _ (fun k => h _)]
  simp [TetraPy.J, TetraPy.n, TetraPy.J_4, TetraPy.n_4]

theorem integrationWeight_above_top (closed : Bool) (ω : K) (tet : Fin 24 → Fin 4 → K) (central : Fin 24 → Fin 4)
    (h : ∀ t k, tet t k < ω) : TetraPy.integrationWeight false closed ω tet central = 1 := by
  unfold TetraPy.integrationWeight
  rw [foldl_add_const (List.finRange 24) (1 / 4 : K) _ _ (fun t => tetraContribution_above closed ω (tet t) (central t) (h t))]
  simp only [List.length_finRange]
  norm_num

/-! ### translated C -/

theorem loop_copy (v0 g : Fin 4 → K) : loopFin 4 v0 (fun j v => upd v j (g j)) = g := by
  funext k
  fin_cases k <;> simp [loopFin, List.finRange_succ, upd]

theorem J4 (eps : Option K) (ci : Nat) (ω : K) (v : Fin 4 → K) : TetraC.J eps 4 ci ω v = 1 / 4 := by
  show TetraC.J_4 eps = 1 / 4
  simp [TetraC.J_4]

theorem n4 (eps : Option K) (ω : K) (v : Fin 4 → K) : TetraC.n eps 4 ω v = 1 := by
  show TetraC.n_4 eps = 1
  simp [TetraC.n_4]

/-- every value of the sorted output is one of the inputs -/
theorem sort_mem (v : Fin 4 → K) (k : Fin 4) : ∃ j, (sort_omegas (none : Option K) v).2 k = v j := by
  obtain ⟨_, hp, _⟩ := sort_omegas_spec v
  have hm : (sort_omegas (none : Option K) v).2 k ∈ [v 0, v 1, v 2, v 3] := by
    apply hp.subset
    fin_cases k <;> simp
  simp only [List.mem_cons, List.mem_nil_iff, or_false] at hm
  rcases hm with h | h | h | h
  exacts [⟨0, h⟩, ⟨1, h⟩, ⟨2, h⟩, ⟨3, h⟩]

theorem loopFin_third {σ τ : Type} (n : Nat) (init : σ × τ × K) (body : Fin n → σ × τ × K → σ × τ × K) (q : K)
    (h : ∀ i st, (body i st).2.2 = st.2.2 + q) : (loopFin n init body).2.2 = init.2.2 + n * q := by
  unfold loopFin
  have : ∀ (l : List (Fin n)) (st : σ × τ × K),
      (l.foldl (fun st i => body i st) st).2.2 = st.2.2 + l.length * q := by
    intro l
    induction l with
    | nil => intro st; simp
    | cons x l ih => intro st; rw [List.foldl_cons, ih, List.length_cons, h]; push_cast; ring
  rw [this, List.length_finRange]

theorem c_weight_above_top (eps : Option K) (ω : K) (tet : Fin 24 → Fin 4 → K) (h : ∀ t k, tet t k < ω) :
    TetraC.thm_get_integration_weight eps ω tet 'J' = 1 := by
  unfold TetraC.thm_get_integration_weight
  rw [if_neg (by decide)]
  unfold TetraC.get_integration_weight
  simp only
  show (loopFin 24 (_ : (Fin 4 → K) × Nat × K) _).2.2 / _ = 1
  rw [loopFin_third 24 _ _ (1 / 4 : K)]
  · simp only; norm_num
  · intro i st
    obtain ⟨v0, ci0, sum0⟩ := st
    simp only
    rw [loop_copy v0 (tet i)]
    have hm : ∀ k, (sort_omegas eps (tet i)).2 k < ω := by
      intro k
      obtain ⟨j, hj⟩ := sort_mem (tet i) k
      have e : sort_omegas eps (tet i) = sort_omegas none (tet i) := rfl
      rw [e, hj]
      exact h i j
    generalize sort_omegas eps (tet i) = p at hm
    obtain ⟨ci, s⟩ := p
    simp only at hm ⊢
    have n0 := not_lt.mpr (le_of_lt (hm 0))
    have n1 := not_lt.mpr (le_of_lt (hm 1))
    have n2 := not_lt.mpr (le_of_lt (hm 2))
    have n3 := not_lt.mpr (le_of_lt (hm 3))
    simp [hm 0, hm 1, hm 2, hm 3, n0, n1, n2, n3, J4, n4]

end PhononModel.TetraLemmas
