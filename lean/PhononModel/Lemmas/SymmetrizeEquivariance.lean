import PhononModel.Lemmas.Symmetrize
import Mathlib.Logic.Equiv.Fintype
import Mathlib.Algebra.BigOperators.Group.Finset.Basic

/-!
Description invariance of the full-layout symmetriser: it commutes with every relabelling of the atoms and with
every change of the Cartesian frame (congruence `Φ(i,j) ↦ C Φ(i,j) Cᵀ`, any 3×3 matrix `C`).  This is what the
"same crystal in another description" stream of `./check C07` relies on.
-/
set_option linter.unusedSectionVars false
namespace PhononModel
open Finset

variable {K : Type} [Field K] [CharZero K]

/-- relabel the atoms by a permutation -/
def relabel {n : Nat} (σ : Fin n ≃ Fin n) (Φ : FC n K) : FC n K := fun i j k l => Φ (σ i) (σ j) k l

/-- change of the Cartesian frame: every 3×3 block `B` becomes `C B Cᵀ` -/
def congr3 {n : Nat} (C : Fin 3 → Fin 3 → K) (Φ : FC n K) : FC n K :=
  fun i j k l => ∑ a, ∑ b, C k a * Φ i j a b * C l b

section relabel
variable {n : Nat} (σ : Fin n ≃ Fin n)

theorem colDrift_relabel (Φ : FC n K) : colDrift (relabel σ Φ) = relabel σ (colDrift Φ) := by
  funext i j k l
  simp only [colDrift_apply, relabel]
  rw [Equiv.sum_comp σ (fun i' => Φ i' (σ j) k l)]

theorem rowDrift_relabel (Φ : FC n K) : rowDrift (relabel σ Φ) = relabel σ (rowDrift Φ) := by
  funext i j k l
  simp only [rowDrift_apply, relabel]
  rw [Equiv.sum_comp σ (fun j' => Φ (σ i) j' k l)]

theorem permSym_relabel (Φ : FC n K) : permSym (relabel σ Φ) = relabel σ (permSym Φ) := by
  funext i j k l
  simp [relabel]

theorem transDiag_relabel (Φ : FC n K) : transDiag (relabel σ Φ) = relabel σ (transDiag Φ) := by
  funext i j k l
  simp only [transDiag_apply, relabel, sum_off_diag]
  rw [Equiv.sum_comp σ (fun j' => Φ (σ i) j' k l), Equiv.sum_comp σ (fun j' => Φ (σ i) j' l k)]
  simp [σ.injective.eq_iff]

theorem symStep_relabel (Φ : FC n K) : symStep (relabel σ Φ) = relabel σ (symStep Φ) := by
  unfold symStep
  rw [colDrift_relabel, rowDrift_relabel, permSym_relabel]

theorem iter_symStep_relabel (L : Nat) (Φ : FC n K) :
    iter symStep L (relabel σ Φ) = relabel σ (iter symStep L Φ) := by
  induction L generalizing Φ with
  | zero => rfl
  | succ L ih => simp only [iter]; rw [symStep_relabel, ih]

theorem fullSym_relabel (L : Nat) (Φ : FC n K) : fullSym L (relabel σ Φ) = relabel σ (fullSym L Φ) := by
  unfold fullSym
  rw [iter_symStep_relabel, transDiag_relabel]

end relabel

section congr
variable {n : Nat} (C : Fin 3 → Fin 3 → K)

theorem colDrift_congr3 (Φ : FC n K) : colDrift (congr3 C Φ) = congr3 C (colDrift Φ) := by
  funext i j k l
  simp only [colDrift_apply, congr3, Fin.sum_univ_three, Finset.sum_add_distrib, ← Finset.mul_sum, ← Finset.sum_mul]
  ring

theorem rowDrift_congr3 (Φ : FC n K) : rowDrift (congr3 C Φ) = congr3 C (rowDrift Φ) := by
  funext i j k l
  simp only [rowDrift_apply, congr3, Fin.sum_univ_three, Finset.sum_add_distrib, ← Finset.mul_sum, ← Finset.sum_mul]
  ring

theorem permSym_congr3 (Φ : FC n K) : permSym (congr3 C Φ) = congr3 C (permSym Φ) := by
  funext i j k l
  simp only [permSym_apply, congr3, Fin.sum_univ_three]
  ring

theorem transDiag_congr3 (Φ : FC n K) : transDiag (congr3 C Φ) = congr3 C (transDiag Φ) := by
  funext i j k l
  simp only [transDiag_apply, congr3, sum_off_diag]
  by_cases h : i = j
  · subst h
    simp only [if_true, Fin.sum_univ_three, Finset.sum_add_distrib, ← Finset.mul_sum, ← Finset.sum_mul]
    ring
  · simp only [if_neg h]

theorem symStep_congr3 (Φ : FC n K) : symStep (congr3 C Φ) = congr3 C (symStep Φ) := by
  unfold symStep
  rw [colDrift_congr3, rowDrift_congr3, permSym_congr3]

theorem iter_symStep_congr3 (L : Nat) (Φ : FC n K) :
    iter symStep L (congr3 C Φ) = congr3 C (iter symStep L Φ) := by
  induction L generalizing Φ with
  | zero => rfl
  | succ L ih => simp only [iter]; rw [symStep_congr3, ih]

theorem fullSym_congr3 (L : Nat) (Φ : FC n K) : fullSym L (congr3 C Φ) = congr3 C (fullSym L Φ) := by
  unfold fullSym
  rw [iter_symStep_congr3, transDiag_congr3]

end congr

end PhononModel
