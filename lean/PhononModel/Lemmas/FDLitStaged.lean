import PhononModel.Model.FDSolverLit
import PhononModel.Lemmas.FDStaged

/-! The driver's staged literal evaluator computes exactly the literal model (core Lean only). -/
set_option linter.unusedSectionVars false
namespace PhononModel.FD

theorem foldlM_read {β γ ι : Type} (rd : γ → β) (f : β → ι → Option β) (g : γ → ι → Option γ)
    (h : ∀ s i, (g s i).map rd = f (rd s) i) :
    ∀ (L : List ι) (s : γ), (L.foldlM g s).map rd = L.foldlM f (rd s)
  | [], _ => rfl
  | x :: xs, s => by
    rw [List.foldlM_cons, List.foldlM_cons, ← h s x]
    cases g s x with
    | none => rfl
    | some s' => exact foldlM_read rd f g h xs s'

variable {α : Type} [Add α] [Sub α] [Neg α] [Mul α] [Div α] [OfNat α 0] [DecidableEq α]

theorem distributeLitT_spec {M Mr n nrot : Nat} (targets : Fin M → Fin n) (fcIdx : Fin M → Fin Mr)
    (R : Fin nrot → Mat3 α) (perms : Fin nrot → Fin n → Fin n) (mapSyms : Fin n → Fin nrot)
    (fc : Tab4 Mr n 3 3 α) :
    (distributeLitT targets fcIdx R perms mapSyms fc).map Tab4.read =
      distributeLit targets fcIdx R perms mapSyms fc.read := by
  unfold distributeLitT distributeLit
  simp only [read_tab]
  apply foldlM_read
  intro s i
  split
  · rfl
  · split <;> simp [read_tab4]

theorem runDirectLitT_spec {M n nrot : Nat} (atomList : Fin M → Fin n) (R : Fin nrot → Mat3 α)
    (perms : Fin nrot → Fin n → Fin n) (data : List (AtomData n α)) :
    (runDirectLitT atomList R perms data).map Tab4.read = runDirectLit atomList R perms data := by
  have h0 := fcDispsT_spec atomList data (tab4 fun _ _ _ _ => (0 : α))
  rw [read_tab4] at h0
  unfold runDirectLitT runDirectLit
  rw [← h0]
  cases fcDispsT atomList data (tab4 fun _ _ _ _ => (0 : α)) with
  | none => rfl
  | some fc0 =>
    simp only [Option.map_some]
    cases symMappings perms (data.map (·.atom)) with
    | none => rfl
    | some ms => exact distributeLitT_spec _ _ _ _ _ _

end PhononModel.FD
