import PhononModel.Model.FDSolverLit
import PhononModel.Lemmas.FDStaged

/-! The driver's staged literal evaluator computes exactly the literal model (core Lean only). -/
set_option linter.unusedSectionVars false
namespace PhononModel.FD

theorem foldlM_read {β γ ι : Type} (rd : γ → β) (f : β → ι → Option β) (g : γ → ι → Option γ)
    (h : ∀ s i, (g s i).map rd = f (rd s) i) :
    ∀ (L : List ι) (s : γ), (L.foldlM g s).map rd = L.foldlM f (rd s)
  | [], _ => rfl
  | x :: xs, s => by
    rw [List.foldlM_cons, List.foldlM_cons, ← h s x]
    cases g s x with
    | none => rfl
    | some s' => exact foldlM_read rd f g h xs s'

theorem foldl_read {β γ ι : Type} (rd : γ → β) (f : β → ι → β) (g : γ → ι → γ)
    (h : ∀ s i, rd (g s i) = f (rd s) i) : ∀ (L : List ι) (s : γ), rd (L.foldl g s) = L.foldl f (rd s)
  | [], _ => rfl
  | x :: xs, s => by rw [List.foldl_cons, List.foldl_cons, foldl_read rd f g h xs, h]

variable {α : Type} [Add α] [Sub α] [Neg α] [Mul α] [Div α] [OfNat α 0] [DecidableEq α]

omit [Add α] [Mul α] [OfNat α 0] [Sub α] [Neg α] [Div α] [DecidableEq α] in
theorem read_setEntryT {Mr n : Nat} (A : Tab4 Mr n 3 3 α) (r : Fin Mr) (o : Fin n) (j k : Fin 3) (v : α) :
    (setEntryT A r o j k v).read = setEntry A.read r o j k v := by
  funext r' o' j' k'
  by_cases h1 : r' = r
  · by_cases h2 : o' = o
    · by_cases h3 : j' = j
      · by_cases h4 : k' = k
        · simp [setEntryT, setEntry, Tab4.read, Tab3.read, Tab2.read, Tab.read_set, h1, h2, h3, h4]
        · simp [setEntryT, setEntry, Tab4.read, Tab3.read, Tab2.read, Tab.read_set, h1, h2, h3, h4]
      · simp [setEntryT, setEntry, Tab4.read, Tab3.read, Tab2.read, Tab.read_set, h1, h2, h3]
    · simp [setEntryT, setEntry, Tab4.read, Tab3.read, Tab2.read, Tab.read_set, h1, h2]
  · simp [setEntryT, setEntry, Tab4.read, Tab3.read, Tab2.read, Tab.read_set, h1]

omit [Sub α] [Neg α] [Div α] [DecidableEq α] in
theorem distributeOtherT_spec {M Mr n nrot : Nat} (fcIdx : Fin M → Fin Mr) (R : Fin nrot → Mat3 α)
    (perms : Fin nrot → Fin n → Fin n) (i ri : Fin M) (sym : Fin nrot) (o : Fin n) (fc : Tab4 Mr n 3 3 α) :
    (distributeOtherT fcIdx R perms i ri sym o fc).read = distributeOther fcIdx R perms i ri sym o fc.read := by
  unfold distributeOtherT distributeOther
  refine foldl_read Tab4.read _ _ (fun s j => ?_) _ _
  refine foldl_read Tab4.read _ _ (fun s k => ?_) _ _
  refine foldl_read Tab4.read _ _ (fun s l => ?_) _ _
  refine foldl_read Tab4.read _ _ (fun s m => ?_) _ _
  exact read_setEntryT _ _ _ _ _ _

omit [Sub α] [Neg α] [Div α] [DecidableEq α] in
theorem distributeBodyT_spec {M Mr n nrot : Nat} (fcIdx : Fin M → Fin Mr) (R : Fin nrot → Mat3 α)
    (perms : Fin nrot → Fin n → Fin n) (i ri : Fin M) (sym : Fin nrot) (fc : Tab4 Mr n 3 3 α) :
    (distributeBodyT fcIdx R perms i ri sym fc).read = distributeBody fcIdx R perms i ri sym fc.read := by
  unfold distributeBodyT distributeBody
  exact foldl_read Tab4.read _ _ (fun s o => distributeOtherT_spec _ _ _ _ _ _ _ _) _ _

theorem distributeLitT_spec {M Mr n nrot : Nat} (targets : Fin M → Fin n) (fcIdx : Fin M → Fin Mr)
    (R : Fin nrot → Mat3 α) (perms : Fin nrot → Fin n → Fin n) (mapSyms : Fin n → Fin nrot)
    (fc : Tab4 Mr n 3 3 α) :
    (distributeLitT targets fcIdx R perms mapSyms fc).map Tab4.read =
      distributeLit targets fcIdx R perms mapSyms fc.read := by
  unfold distributeLitT distributeLit
  simp only [read_tab]
  apply foldlM_read
  intro s i
  split
  · rfl
  · split <;> simp [distributeBodyT_spec]

theorem runDirectLitT_spec {M n nrot : Nat} (atomList : Fin M → Fin n) (R : Fin nrot → Mat3 α)
    (perms : Fin nrot → Fin n → Fin n) (data : List (AtomData n α)) :
    (runDirectLitT atomList R perms data).map Tab4.read = runDirectLit atomList R perms data := by
  have h0 := fcDispsT_spec atomList data (tab4 fun _ _ _ _ => (0 : α))
  rw [read_tab4] at h0
  unfold runDirectLitT runDirectLit
  rw [← h0]
  cases fcDispsT atomList data (tab4 fun _ _ _ _ => (0 : α)) with
  | none => rfl
  | some fc0 =>
    simp only [Option.map_some]
    cases symMappings perms (data.map (·.atom)) with
    | none => rfl
    | some ms => exact distributeLitT_spec _ _ _ _ _ _

end PhononModel.FD
