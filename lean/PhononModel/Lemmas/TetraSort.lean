import PhononModel.Lemmas.TetraOrder
import Mathlib.Order.Lattice
import Mathlib.Data.List.Perm.Basic

/-! `sort_omegas` of the translated C is a five-comparator sorting network that also tracks vertex 0 (C11).
The generated definition is cut into its five stages (`sort_eq` is `rfl`), each stage is specified with
`min`/`max`, and the specification is assembled without unfolding the network again. -/
set_option linter.unusedSectionVars false
set_option linter.unusedVariables false
set_option linter.unusedSimpArgs false
namespace PhononModel.TetraLemmas
open PhononModel PhononModel.TetraC

variable {K : Type} [Field K] [LinearOrder K] [IsStrictOrderedRing K]

def zero4 : Fin 4 → K := fun _ => ((0 : Nat) : K)

def stA (v : Fin 4 → K) : (Fin 4 → K) × Nat :=
  if v 0 > v 1 then (upd (upd zero4 0 (v 1)) 1 (v 0), 1) else (upd (upd zero4 0 (v 0)) 1 (v 1), 0)

def stB (v w : Fin 4 → K) : Fin 4 → K :=
  if v 2 > v 3 then upd (upd w 2 (v 3)) 3 (v 2) else upd (upd w 2 (v 2)) 3 (v 3)

def stC (v w : Fin 4 → K) (i : Nat) : (Fin 4 → K) × Nat :=
  if w 0 > w 2 then (if i = 0 then (upd (upd v 0 (w 2)) 1 (w 0), 4) else (upd (upd v 0 (w 2)) 1 (w 0), i))
  else (upd (upd v 0 (w 0)) 1 (w 2), i)

def stD (v w : Fin 4 → K) (i : Nat) : (Fin 4 → K) × Nat :=
  if w 1 > w 3 then (if i = 1 then (upd (upd v 3 (w 1)) 2 (w 3), 3) else (upd (upd v 3 (w 1)) 2 (w 3), i))
  else (if i = 1 then (upd (upd v 3 (w 3)) 2 (w 1), 5) else (upd (upd v 3 (w 3)) 2 (w 1), i))

def stE (v w : Fin 4 → K) (i : Nat) : (Fin 4 → K) × (Fin 4 → K) × Nat :=
  if v 1 > v 2 then
    (let w := upd w 1 (v 1)
     let v := upd v 1 (v 2)
     let v := upd v 2 (w 1)
     let i := if i = 4 then 2 else i
     if i = 5 then (w, v, 1) else (w, v, i))
  else
    (let i := if i = 4 then 1 else i
     if i = 5 then (w, v, 2) else (w, v, i))

/-- the generated `sort_omegas` is literally the composition of the five stages -/
theorem sort_eq (v : Fin 4 → K) :
    sort_omegas (none : Option K) v =
      (match stA v with
       | (w, i) =>
         let w := stB v w
         match stC v w i with
         | (v, i) =>
           match stD v w i with
           | (v, i) =>
             match stE v w i with
             | (w, v, i) => (i, v)) := rfl

theorem upd_same {n : Nat} (a : Fin n → K) (k : Fin n) (x : K) : upd a k x k = x := by simp [upd]
theorem upd_other {n : Nat} (a : Fin n → K) (k j : Fin n) (x : K) (h : j ≠ k) : upd a k x j = a j := by
  simp [upd, h]

theorem stA_spec (v : Fin 4 → K) :
    (stA v).1 0 = min (v 0) (v 1) ∧ (stA v).1 1 = max (v 0) (v 1) ∧
    (((stA v).2 = 0 ∧ (stA v).1 0 = v 0) ∨ ((stA v).2 = 1 ∧ (stA v).1 1 = v 0)) := by
  unfold stA
  split
  · next h =>
    have h' : v 1 < v 0 := h
    simp [upd, min_eq_right (le_of_lt h'), max_eq_left (le_of_lt h')]
  · next h =>
    have h' : v 0 ≤ v 1 := not_lt.mp h
    simp [upd, min_eq_left h', max_eq_right h']

theorem stB_spec (v w : Fin 4 → K) :
    (stB v w) 0 = w 0 ∧ (stB v w) 1 = w 1 ∧ (stB v w) 2 = min (v 2) (v 3) ∧ (stB v w) 3 = max (v 2) (v 3) := by
  unfold stB
  split
  · next h =>
    have h' : v 3 < v 2 := h
    simp [upd, min_eq_right (le_of_lt h'), max_eq_left (le_of_lt h')]
  · next h =>
    have h' : v 2 ≤ v 3 := not_lt.mp h
    simp [upd, min_eq_left h', max_eq_right h']

theorem stC_spec (v w : Fin 4 → K) (i : Nat) :
    (stC v w i).1 0 = min (w 0) (w 2) ∧ (stC v w i).1 1 = max (w 0) (w 2) ∧
    (stC v w i).1 2 = v 2 ∧ (stC v w i).1 3 = v 3 ∧
    ((w 2 < w 0 ∧ (stC v w i).2 = if i = 0 then 4 else i) ∨ (w 0 ≤ w 2 ∧ (stC v w i).2 = i)) := by
  unfold stC
  split
  · next h =>
    have h' : w 2 < w 0 := h
    split <;> simp [upd, min_eq_right (le_of_lt h'), max_eq_left (le_of_lt h'), h', *]
  · next h =>
    have h' : w 0 ≤ w 2 := not_lt.mp h
    simp [upd, min_eq_left h', max_eq_right h', h']

theorem stD_spec (v w : Fin 4 → K) (i : Nat) :
    (stD v w i).1 0 = v 0 ∧ (stD v w i).1 1 = v 1 ∧
    (stD v w i).1 2 = min (w 1) (w 3) ∧ (stD v w i).1 3 = max (w 1) (w 3) ∧
    ((w 3 < w 1 ∧ (stD v w i).2 = if i = 1 then 3 else i) ∨ (w 1 ≤ w 3 ∧ (stD v w i).2 = if i = 1 then 5 else i)) := by
  unfold stD
  split
  · next h =>
    have h' : w 3 < w 1 := h
    split <;> simp [upd, min_eq_right (le_of_lt h'), max_eq_left (le_of_lt h'), h', *]
  · next h =>
    have h' : w 1 ≤ w 3 := not_lt.mp h
    split <;> simp [upd, min_eq_left h', max_eq_right h', h', *]

theorem stE_spec (v w : Fin 4 → K) (i : Nat) :
    (stE v w i).2.1 0 = v 0 ∧ (stE v w i).2.1 1 = min (v 1) (v 2) ∧ (stE v w i).2.1 2 = max (v 1) (v 2) ∧
    (stE v w i).2.1 3 = v 3 ∧
    ((v 2 < v 1 ∧ (stE v w i).2.2 = if i = 4 then 2 else if i = 5 then 1 else i) ∨
     (v 1 ≤ v 2 ∧ (stE v w i).2.2 = if i = 4 then 1 else if i = 5 then 2 else i)) := by
  unfold stE
  split
  · next h =>
    have h' : v 2 < v 1 := h
    by_cases h4 : i = 4
    · subst h4; simp [upd, min_eq_right (le_of_lt h'), max_eq_left (le_of_lt h'), h']
    · by_cases h5 : i = 5
      · subst h5; simp [upd, min_eq_right (le_of_lt h'), max_eq_left (le_of_lt h'), h']
      · simp [upd, min_eq_right (le_of_lt h'), max_eq_left (le_of_lt h'), h', h4, h5]
  · next h =>
    have h' : v 1 ≤ v 2 := not_lt.mp h
    by_cases h4 : i = 4
    · subst h4; simp [upd, min_eq_left h', max_eq_right h', h']
    · by_cases h5 : i = 5
      · subst h5; simp [upd, min_eq_left h', max_eq_right h', h']
      · simp [upd, min_eq_left h', max_eq_right h', h', h4, h5]

theorem perm_minmax (a b : K) : [min a b, max a b].Perm [a, b] := by
  rcases le_total a b with h | h
  · rw [min_eq_left h, max_eq_right h]
  · rw [min_eq_right h, max_eq_left h]; exact List.Perm.swap _ _ _

/-- specification of `sort_omegas`: sorted, a permutation of the input, index of the original vertex 0 -/
theorem sort_omegas_spec (v : Fin 4 → K) :
    let r := TetraC.sort_omegas (none : Option K) v
    (r.2 0 ≤ r.2 1 ∧ r.2 1 ≤ r.2 2 ∧ r.2 2 ≤ r.2 3) ∧
    [r.2 0, r.2 1, r.2 2, r.2 3].Perm [v 0, v 1, v 2, v 3] ∧
    ∃ h : r.1 < 4, r.2 ⟨r.1, h⟩ = v 0 := by
  intro r
  have hr : r = _ := sort_eq v
  -- name the stage outputs
  obtain ⟨a0, a1, aI⟩ := stA_spec v
  generalize hA : stA v = pA at hr a0 a1 aI
  obtain ⟨wA, iA⟩ := pA
  simp only at hr a0 a1 aI
  obtain ⟨b0, b1, b2, b3⟩ := stB_spec v wA
  generalize hB : stB v wA = w at hr b0 b1 b2 b3
  obtain ⟨c0, c1, c2, c3, cI⟩ := stC_spec v w iA
  generalize hC : stC v w iA = pC at hr c0 c1 c2 c3 cI
  obtain ⟨vC, iC⟩ := pC
  simp only at hr c0 c1 c2 c3 cI
  obtain ⟨d0, d1, d2, d3, dI⟩ := stD_spec vC w iC
  generalize hD : stD vC w iC = pD at hr d0 d1 d2 d3 dI
  obtain ⟨vD, iD⟩ := pD
  simp only at hr d0 d1 d2 d3 dI
  obtain ⟨e0, e1, e2, e3, eI⟩ := stE_spec vD w iD
  generalize hE : stE vD w iD = pE at hr e0 e1 e2 e3 eI
  obtain ⟨wE, vE, iE⟩ := pE
  simp only at hr e0 e1 e2 e3 eI
  rw [hr]
  simp only
  -- abbreviations for the intermediate values
  have w0 : w 0 = min (v 0) (v 1) := by rw [b0, a0]
  have w1 : w 1 = max (v 0) (v 1) := by rw [b1, a1]
  have w01 : w 0 ≤ w 1 := by rw [w0, w1]; exact le_trans (min_le_left _ _) (le_max_left _ _)
  have w23 : w 2 ≤ w 3 := by rw [b2, b3]; exact le_trans (min_le_left _ _) (le_max_left _ _)
  have s0 : vE 0 = min (w 0) (w 2) := by rw [e0, d0, c0]
  have t1 : vD 1 = max (w 0) (w 2) := by rw [d1, c1]
  have t2 : vD 2 = min (w 1) (w 3) := d2
  have s3 : vE 3 = max (w 1) (w 3) := by rw [e3, d3]
  refine ⟨⟨?_, ?_, ?_⟩, ?_, ?_⟩
  · rw [s0, e1, t1, t2]
    apply le_min
    · exact le_trans (min_le_left _ _) (le_max_left _ _)
    · exact le_min (le_trans (min_le_left _ _) w01) (le_trans (min_le_right _ _) w23)
  · rw [e1, e2]; exact le_trans (min_le_left _ _) (le_max_left _ _)
  · rw [e2, s3, t1, t2]
    apply max_le
    · exact max_le (le_trans w01 (le_max_left _ _)) (le_trans w23 (le_max_right _ _))
    · exact le_trans (min_le_left _ _) (le_max_left _ _)
  · -- permutation
    rw [s0, e1, e2, s3, t1, t2]
    have p1 : [min (w 0) (w 2), min (max (w 0) (w 2)) (min (w 1) (w 3)), max (max (w 0) (w 2)) (min (w 1) (w 3)),
        max (w 1) (w 3)].Perm [min (w 0) (w 2), max (w 0) (w 2), min (w 1) (w 3), max (w 1) (w 3)] :=
      List.Perm.cons _ ((perm_minmax _ _).append_right [max (w 1) (w 3)])
    have p2 : [min (w 0) (w 2), max (w 0) (w 2), min (w 1) (w 3), max (w 1) (w 3)].Perm [w 0, w 2, w 1, w 3] :=
      (perm_minmax (w 0) (w 2)).append (perm_minmax (w 1) (w 3))
    have p3 : [w 0, w 2, w 1, w 3].Perm [w 0, w 1, w 2, w 3] := List.Perm.cons _ (List.Perm.swap _ _ _)
    have p4 : [w 0, w 1, w 2, w 3].Perm [v 0, v 1, v 2, v 3] := by
      rw [w0, w1, b2, b3]
      exact (perm_minmax (v 0) (v 1)).append (perm_minmax (v 2) (v 3))
    exact ((p1.trans p2).trans p3).trans p4
  · -- the returned index points at the original vertex 0
    have hv1 : vE 1 = min (vD 1) (vD 2) := e1
    have hv2 : vE 2 = max (vD 1) (vD 2) := e2
    rcases aI with ⟨hi, ha⟩ | ⟨hi, ha⟩
    · -- vertex 0 sits in w 0
      have hw0 : w 0 = v 0 := by rw [b0, ha]
      rcases cI with ⟨hlt, hc⟩ | ⟨hle, hc⟩
      · -- moved to slot 1, index 4
        rw [hi] at hc; simp only [if_true] at hc
        have hd : iD = 4 := by
          rcases dI with ⟨_, hd⟩ | ⟨_, hd⟩ <;> rw [hd, hc] <;> simp
        have hvD1 : vD 1 = v 0 := by rw [t1, max_eq_left (le_of_lt hlt), hw0]
        rcases eI with ⟨hsw, he⟩ | ⟨hns, he⟩
        · rw [hd] at he; simp only [if_true] at he
          refine ⟨by omega, ?_⟩
          subst he
          show vE 2 = v 0
          rw [hv2, max_eq_left (le_of_lt hsw), hvD1]
        · rw [hd] at he; simp only [if_true] at he
          refine ⟨by omega, ?_⟩
          subst he
          show vE 1 = v 0
          rw [hv1, min_eq_left hns, hvD1]
      · -- stays in slot 0
        rw [hi] at hc
        have hd : iD = 0 := by
          rcases dI with ⟨_, hd⟩ | ⟨_, hd⟩ <;> rw [hd, hc] <;> simp
        have he : iE = 0 := by
          rcases eI with ⟨_, he⟩ | ⟨_, he⟩ <;> rw [he, hd] <;> simp
        refine ⟨by omega, ?_⟩
        subst he
        show vE 0 = v 0
        rw [s0, min_eq_left hle, hw0]
    · -- vertex 0 sits in w 1
      have hw1 : w 1 = v 0 := by rw [b1, ha]
      have hc : iC = 1 := by
        rcases cI with ⟨_, hc⟩ | ⟨_, hc⟩ <;> rw [hc, hi] <;> simp
      rcases dI with ⟨hlt, hd⟩ | ⟨hle, hd⟩
      · rw [hc] at hd; simp only [if_true] at hd
        have he : iE = 3 := by
          rcases eI with ⟨_, he⟩ | ⟨_, he⟩ <;> rw [he, hd] <;> simp
        refine ⟨by omega, ?_⟩
        subst he
        show vE 3 = v 0
        rw [s3, max_eq_left (le_of_lt hlt), hw1]
      · rw [hc] at hd; simp only [if_true] at hd
        have hvD2 : vD 2 = v 0 := by rw [t2, min_eq_left hle, hw1]
        rcases eI with ⟨hsw, he⟩ | ⟨hns, he⟩
        · rw [hd] at he; simp at he
          refine ⟨by omega, ?_⟩
          subst he
          show vE 1 = v 0
          rw [hv1, min_eq_right (le_of_lt hsw), hvD2]
        · rw [hd] at he; simp at he
          refine ⟨by omega, ?_⟩
          subst he
          show vE 2 = v 0
          rw [hv2, max_eq_right hns, hvD2]

end PhononModel.TetraLemmas
