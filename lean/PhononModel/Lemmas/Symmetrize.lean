import PhononModel.Model.Symmetrize
import PhononModel.Lemmas.Basic
import Mathlib.Algebra.BigOperators.Field
import Mathlib.Algebra.Field.Basic
import Mathlib.Algebra.CharZero.Defs
import Mathlib.Tactic.Ring
import Mathlib.Tactic.FieldSimp
import Mathlib.Tactic.LinearCombination
import Mathlib.Data.Fintype.BigOperators

set_option linter.unusedSectionVars false
namespace PhononModel
open Finset

variable {K : Type} [Field K] [CharZero K]

/-- index-permutation symmetry -/
def PermSymmetric {n : Nat} (Φ : FC n K) : Prop := ∀ i j k l, Φ i j k l = Φ j i l k
/-- acoustic sum rule along the second index -/
def RowSumZero {m n : Nat} (Φ : Fin m → Fin n → Fin 3 → Fin 3 → K) : Prop := ∀ i k l, ∑ j, Φ i j k l = 0
/-- acoustic sum rule along the first index -/
def ColSumZero {n : Nat} (Φ : FC n K) : Prop := ∀ j k l, ∑ i, Φ i j k l = 0

@[simp] theorem colDrift_apply {n : Nat} (Φ : FC n K) (i j k l) :
    colDrift Φ i j k l = Φ i j k l - (∑ i', Φ i' j k l) / (n : K) := by
  simp [colDrift, sumFin_eq]

@[simp] theorem rowDrift_apply {m n : Nat} (Φ : Fin m → Fin n → Fin 3 → Fin 3 → K) (i j k l) :
    rowDrift Φ i j k l = Φ i j k l - (∑ j', Φ i j' k l) / (n : K) := by
  simp [rowDrift, sumFin_eq]

@[simp] theorem permSym_apply {n : Nat} (Φ : FC n K) (i j k l) :
    permSym Φ i j k l = (Φ i j k l + Φ j i l k) / 2 := by
  simp [permSym]

theorem transDiag_apply {n : Nat} (Φ : FC n K) (i j k l) :
    transDiag Φ i j k l =
      if i = j then -((∑ j', if i = j' then 0 else Φ i j' k l) + (∑ j', if i = j' then 0 else Φ i j' l k)) / 2
      else Φ i j k l := by
  simp [transDiag, sumFin_eq]

theorem sum_off_diag {n : Nat} (f : Fin n → K) (i : Fin n) :
    (∑ j, if i = j then 0 else f j) = (∑ j, f j) - f i := by
  have : ∀ j, (if i = j then 0 else f j) = f j - (if i = j then f j else 0) := by
    intro j; split <;> simp
  simp only [this, Finset.sum_sub_distrib, Finset.sum_ite_eq, Finset.mem_univ, if_true]

theorem rowDrift_rowSumZero {m n : Nat} (hn : 0 < n) (Φ : Fin m → Fin n → Fin 3 → Fin 3 → K) :
    RowSumZero (rowDrift Φ) := by
  intro i k l
  have : (n : K) ≠ 0 := by exact_mod_cast hn.ne'
  simp only [rowDrift_apply, Finset.sum_sub_distrib, Finset.sum_const, Finset.card_univ, Fintype.card_fin,
    nsmul_eq_mul]
  field_simp; ring

theorem colDrift_colSumZero {n : Nat} (hn : 0 < n) (Φ : FC n K) : ColSumZero (colDrift Φ) := by
  intro j k l
  have : (n : K) ≠ 0 := by exact_mod_cast hn.ne'
  simp only [colDrift_apply, Finset.sum_sub_distrib, Finset.sum_const, Finset.card_univ, Fintype.card_fin,
    nsmul_eq_mul]
  field_simp; ring

/-- the row pass does not destroy a vanishing column sum -/
theorem rowDrift_keeps_colSumZero {n : Nat} (Φ : FC n K) (h : ColSumZero Φ) :
    ColSumZero (rowDrift Φ) := by
  intro j k l
  simp only [rowDrift_apply, Finset.sum_sub_distrib, h j k l, zero_sub, neg_eq_zero]
  rw [← Finset.sum_div, Finset.sum_comm]
  simp [fun y => h y k l]

theorem permSym_permSymmetric {n : Nat} (Φ : FC n K) : PermSymmetric (permSym Φ) := by
  intro i j k l; simp only [permSym_apply]; ring

theorem permSym_rowSumZero {n : Nat} (Φ : FC n K) (hr : RowSumZero Φ) (hc : ColSumZero Φ) :
    RowSumZero (permSym Φ) := by
  intro i k l
  simp only [permSym_apply, ← Finset.sum_div, Finset.sum_add_distrib, hr i k l, hc i l k]
  simp

theorem permSym_fixes {n : Nat} (Φ : FC n K) (h : PermSymmetric Φ) : permSym Φ = Φ := by
  funext i j k l; simp only [permSym_apply]; rw [← h i j k l]; ring

theorem rowDrift_fixes {m n : Nat} (Φ : Fin m → Fin n → Fin 3 → Fin 3 → K) (h : RowSumZero Φ) :
    rowDrift Φ = Φ := by
  funext i j k l; simp [h i k l]

theorem colDrift_fixes {n : Nat} (Φ : FC n K) (h : ColSumZero Φ) : colDrift Φ = Φ := by
  funext i j k l; simp [h j k l]

theorem colSumZero_of_perm_row {n : Nat} (Φ : FC n K) (hp : PermSymmetric Φ) (hr : RowSumZero Φ) :
    ColSumZero Φ := by
  intro j k l
  have := hr j l k
  rw [← this]; exact Finset.sum_congr rfl (fun i _ => hp i j k l)

theorem transDiag_fixes {n : Nat} (Φ : FC n K) (hp : PermSymmetric Φ) (hr : RowSumZero Φ) :
    transDiag Φ = Φ := by
  funext i j k l
  rw [transDiag_apply]
  split
  · next h =>
    subst h
    rw [sum_off_diag (fun j' => Φ i j' k l), sum_off_diag (fun j' => Φ i j' l k), hr i k l, hr i l k,
      ← hp i i k l]
    ring
  · rfl

theorem symStep_props {n : Nat} (hn : 0 < n) (Φ : FC n K) :
    PermSymmetric (symStep Φ) ∧ RowSumZero (symStep Φ) := by
  refine ⟨permSym_permSymmetric _, permSym_rowSumZero _ (rowDrift_rowSumZero hn _) ?_⟩
  exact rowDrift_keeps_colSumZero _ (colDrift_colSumZero hn _)

theorem symStep_fixes {n : Nat} (Φ : FC n K) (hp : PermSymmetric Φ) (hr : RowSumZero Φ) :
    symStep Φ = Φ := by
  unfold symStep
  rw [colDrift_fixes Φ (colSumZero_of_perm_row Φ hp hr), rowDrift_fixes Φ hr, permSym_fixes Φ hp]

theorem iter_fixes {β : Type} (f : β → β) (x : β) (h : f x = x) : ∀ k, iter f k x = x
  | 0 => rfl
  | k+1 => by simp [iter, h, iter_fixes f x h k]

theorem iter_succ_props {β : Type} (f : β → β) (P : β → Prop) (hP : ∀ x, P (f x)) (hfix : ∀ x, P x → f x = x) :
    ∀ k x, P (iter f (k+1) x) ∧ iter f (k+1) x = f x := by
  intro k
  induction k with
  | zero => intro x; exact ⟨hP x, rfl⟩
  | succ k ih =>
    intro x
    have h1 := ih (f x)
    have : iter f (k+1+1) x = iter f (k+1) (f x) := rfl
    rw [this, h1.2, hfix _ (hP x)]
    exact ⟨hP x, rfl⟩

end PhononModel
