import PhononModel.Model.FDSolver

/-! The driver's staged evaluators compute exactly the model (core Lean only). -/
set_option linter.unusedSectionVars false
namespace PhononModel.FD

variable {α : Type} [Add α] [Sub α] [Neg α] [Mul α] [Div α] [OfNat α 0] [DecidableEq α]

theorem solveRowsT_spec {n nd m : Nat} (R : Fin m → Mat3 α) (rho : Fin m → Fin n → Fin n)
    (u : Fin nd → Vec3 α) (F : Fin nd → Fin n → Vec3 α) :
    (solveRowsT R rho u F).map Tab3.read = solveRows R rho u F := by
  simp only [solveRowsT, solveRows, read_tab3, read_tab2]
  split <;> simp [read_tab3]

theorem fcDispsT_spec {M n : Nat} (atomList : Fin M → Fin n) :
    ∀ (data : List (AtomData n α)) (fc : Tab4 M n 3 3 α),
      (fcDispsT atomList data fc).map Tab4.read = fcDisps atomList data fc.read
  | [], fc => rfl
  | D :: rest, fc => by
    have hs := solveRowsT_spec D.R D.rho D.u D.F
    unfold fcDispsT fcDisps
    cases hr : rowIndex atomList D.atom with
    | none => simp
    | some r =>
      cases hT : solveRowsT D.R D.rho D.u D.F with
      | none =>
        rw [hT] at hs
        simp only [Option.map_none] at hs
        simp [← hs]
      | some rows =>
        rw [hT] at hs
        simp only [Option.map_some] at hs
        simp only [← hs]
        rw [fcDispsT_spec atomList rest, read_tab4]

theorem distributeT_spec {M Mr n nrot : Nat} (targets : Fin M → Fin n) (fcIdx : Fin M → Fin Mr)
    (R : Fin nrot → Mat3 α) (perms : Fin nrot → Fin n → Fin n) (mapSyms : Fin n → Fin nrot)
    (fc : Tab4 Mr n 3 3 α) :
    (distributeT targets fcIdx R perms mapSyms fc).map Tab4.read = distribute targets fcIdx R perms mapSyms fc.read := by
  simp only [distributeT, read_tab, Option.map_map]
  cases distribute targets fcIdx R perms mapSyms fc.read with
  | none => rfl
  | some out => simp [read_tab4]

theorem runDirectT_spec {M n nrot : Nat} (atomList : Fin M → Fin n) (R : Fin nrot → Mat3 α)
    (perms : Fin nrot → Fin n → Fin n) (data : List (AtomData n α)) :
    (runDirectT atomList R perms data).map Tab4.read = runDirect atomList R perms data := by
  have h0 := fcDispsT_spec atomList data (tab4 fun _ _ _ _ => (0 : α))
  rw [read_tab4] at h0
  unfold runDirectT runDirect
  rw [← h0]
  cases fcDispsT atomList data (tab4 fun _ _ _ _ => (0 : α)) with
  | none => rfl
  | some fc0 =>
    simp only [Option.map_some]
    cases symMappings perms (data.map (·.atom)) with
    | none => rfl
    | some ms => exact distributeT_spec _ _ _ _ _ _

theorem runTwoStageT_spec {np n nrot nt : Nat} (p2s : Fin np → Fin n) (R : Fin nrot → Mat3 α)
    (perms : Fin nrot → Fin n → Fin n) (RT : Fin nt → Mat3 α) (permsT : Fin nt → Fin n → Fin n)
    (data : List (AtomData n α)) :
    (runTwoStageT p2s R perms RT permsT data).map Tab4.read = runTwoStage p2s R perms RT permsT data := by
  have h0 := fcDispsT_spec (id : Fin n → Fin n) data (tab4 fun _ _ _ _ => (0 : α))
  rw [read_tab4] at h0
  unfold runTwoStageT runTwoStage
  rw [← h0]
  cases fcDispsT (id : Fin n → Fin n) data (tab4 fun _ _ _ _ => (0 : α)) with
  | none => rfl
  | some fc0 =>
    simp only [Option.map_some]
    cases symMappings perms (data.map (·.atom)) with
    | none => rfl
    | some ms =>
      have h1 := distributeT_spec p2s p2s R perms ms fc0
      simp only
      rw [← h1]
      cases distributeT p2s p2s R perms ms fc0 with
      | none => rfl
      | some fc1 =>
        simp only [Option.map_some]
        cases symMappings permsT ((List.finRange np).map p2s) with
        | none => rfl
        | some mt => exact distributeT_spec _ _ _ _ _ _

end PhononModel.FD
