import PhononModel.Lemmas.SNFTerm
/-!
Positivity of the diagonal returned by `SNF3x3`: the sign fix-up of `_finalize` makes the diagonal
positive, and the two disturb-and-reduce rounds that follow keep it positive.
-/
set_option linter.unusedSectionVars false
namespace PhononModel.SNF
open PhononModel

/-! ### sign of the `Xgcd` result -/

theorem xgcdLoop_pos : ∀ (n : Nat) (x : XS), 0 < x.r1 → (xgcdLoop n x).r1 = 0 → 0 < (xgcdLoop n x).r0
  | 0, x, h, h0 => by simp only [xgcdLoop] at h0; omega
  | n+1, x, h, h0 => by
    simp only [xgcdLoop] at h0 ⊢
    have hne : x.r1 ≠ 0 := by omega
    have hr0 : (xgcdStep x).r0 = x.r1 := (xgcdStep_r0 x).1
    have hdec := (xgcdStep_decreases x hne).1
    split
    · rw [hr0]; exact h
    · next hz =>
      rw [if_neg hz] at h0
      exact xgcdLoop_pos n _ (by omega) h0

/-- the "gcd" returned is positive, except that it is `b` itself when `b` divides `a` -/
theorem xgcd_sign (a b : Int) (hb : b ≠ 0) (hd : (xgcd a b).done = true) :
    0 < (xgcd a b).r ∨ ((xgcd a b).r = b ∧ b ∣ a) := by
  have hd' : (xgcdLoop 1000 (xgcdInit a b)).r1 = 0 := by simpa [xgcd, xgcdFuel] using hd
  show 0 < (xgcdLoop 1000 (xgcdInit a b)).r0 ∨ ((xgcdLoop 1000 (xgcdInit a b)).r0 = b ∧ b ∣ a)
  have hi : (xgcdInit a b).r1 = b := rfl
  have hne : (xgcdInit a b).r1 ≠ 0 := by rw [hi]; exact hb
  have e : xgcdLoop 1000 (xgcdInit a b) =
      (if (xgcdStep (xgcdInit a b)).r1 = 0 then xgcdStep (xgcdInit a b) else xgcdLoop 999 (xgcdStep (xgcdInit a b))) := rfl
  rw [e] at hd' ⊢
  split
  · next hz =>
    right
    refine ⟨by rw [(xgcdStep_r0 _).1]; exact hi, ?_⟩
    obtain ⟨q, hq⟩ := xgcdStep_spec (xgcdInit a b) hne
    rw [hq] at hz
    simp only [xgcdInit] at hz
    exact ⟨q, by linarith⟩
  · next hz =>
    rw [if_neg hz] at hd'
    left
    have hdec := (xgcdStep_decreases (xgcdInit a b) hne).1
    exact xgcdLoop_pos 999 _ (by omega) hd'

theorem xgcd_pos_of_pos (a b : Int) (hb : 0 < b) (hd : (xgcd a b).done = true) : 0 < (xgcd a b).r := by
  rcases xgcd_sign a b (by omega) hd with h | ⟨h, _⟩
  · exact h
  · rw [h]; exact hb

/-! ### the diagonal after the sign fix-up and sorting -/

def Pos3 (A : M3 Int) : Prop := 0 < A.a00 ∧ 0 < A.a11 ∧ 0 < A.a22

theorem flip_A (i : Fin 3) (s : St) : (rowOp (flipL i) s).A =
    ⟨(if i = 0 then -1 else 1) * s.A.a00, (if i = 0 then -1 else 1) * s.A.a01, (if i = 0 then -1 else 1) * s.A.a02,
     (if i = 1 then -1 else 1) * s.A.a10, (if i = 1 then -1 else 1) * s.A.a11, (if i = 1 then -1 else 1) * s.A.a12,
     (if i = 2 then -1 else 1) * s.A.a20, (if i = 2 then -1 else 1) * s.A.a21, (if i = 2 then -1 else 1) * s.A.a22⟩ := by
  have h0 : flipL 0 = ⟨-1,0,0,0,1,0,0,0,1⟩ := by decide
  have h1 : flipL 1 = ⟨1,0,0,0,-1,0,0,0,1⟩ := by decide
  have h2 : flipL 2 = ⟨1,0,0,0,1,0,0,0,-1⟩ := by decide
  have hc : ∀ k : Fin 3, k = 0 ∨ k = 1 ∨ k = 2 := by decide
  rcases hc i with rfl | rfl | rfl
  · simp [rowOp, h0, M3.mul_def, M3.mul]
  · simp [rowOp, h1, M3.mul_def, M3.mul]
  · simp [rowOp, h2, M3.mul_def, M3.mul]

theorem flipNeg_entries (i : Fin 3) (t : St) :
    (flipNeg i t).A.a00 = (if i = 0 ∧ t.A.a00 < 0 then -t.A.a00 else t.A.a00) ∧
    (flipNeg i t).A.a11 = (if i = 1 ∧ t.A.a11 < 0 then -t.A.a11 else t.A.a11) ∧
    (flipNeg i t).A.a22 = (if i = 2 ∧ t.A.a22 < 0 then -t.A.a22 else t.A.a22) := by
  have hc : ∀ k : Fin 3, k = 0 ∨ k = 1 ∨ k = 2 := by decide
  unfold flipNeg
  rcases hc i with rfl | rfl | rfl
  · simp only [M3.get]
    by_cases h : t.A.a00 < 0
    · simp [h, flip_A]
    · simp [h]
  · simp only [M3.get]
    by_cases h : t.A.a11 < 0
    · simp [h, flip_A]
    · simp [h]
  · simp only [M3.get]
    by_cases h : t.A.a22 < 0
    · simp [h, flip_A]
    · simp [h]

theorem flips_pos (s : St) (h0 : s.A.a00 ≠ 0) (h1 : s.A.a11 ≠ 0) (h2 : s.A.a22 ≠ 0) :
    Pos3 (flipNeg 2 (flipNeg 1 (flipNeg 0 s))).A := by
  obtain ⟨a0, a1, a2⟩ := flipNeg_entries 0 s
  obtain ⟨b0, b1, b2⟩ := flipNeg_entries 1 (flipNeg 0 s)
  obtain ⟨c0, c1, c2⟩ := flipNeg_entries 2 (flipNeg 1 (flipNeg 0 s))
  simp only [Fin.reduceEq, false_and, if_false, true_and] at a0 a1 a2 b0 b1 b2 c0 c1 c2
  refine ⟨?_, ?_, ?_⟩
  · rw [c0, b0, a0]; split <;> omega
  · rw [c1, b1, a1]; split <;> omega
  · rw [c2, b2, a2]; split <;> omega

end PhononModel.SNF

namespace PhononModel.SNF
open PhononModel

theorem sort01_entries (t : St) :
    (if t.A.a00 > t.A.a11 then swapDiagElems 0 1 t else t).A.a00 = min t.A.a00 t.A.a11 ∧
    (if t.A.a00 > t.A.a11 then swapDiagElems 0 1 t else t).A.a11 = max t.A.a00 t.A.a11 ∧
    (if t.A.a00 > t.A.a11 then swapDiagElems 0 1 t else t).A.a22 = t.A.a22 := by
  by_cases h : t.A.a00 > t.A.a11
  · simp only [if_pos h, swapDiag01_A]; exact ⟨(min_eq_right (by omega)).symm, (max_eq_left (by omega)).symm, trivial⟩
  · simp only [if_neg h]; exact ⟨(min_eq_left (by omega)).symm, (max_eq_right (by omega)).symm, trivial⟩

theorem sort12_entries (t : St) :
    (if t.A.a11 > t.A.a22 then swapDiagElems 1 2 t else t).A.a00 = t.A.a00 ∧
    (if t.A.a11 > t.A.a22 then swapDiagElems 1 2 t else t).A.a11 = min t.A.a11 t.A.a22 ∧
    (if t.A.a11 > t.A.a22 then swapDiagElems 1 2 t else t).A.a22 = max t.A.a11 t.A.a22 := by
  by_cases h : t.A.a11 > t.A.a22
  · simp only [if_pos h, swapDiag12_A]; exact ⟨trivial, (min_eq_right (by omega)).symm, (max_eq_left (by omega)).symm⟩
  · simp only [if_neg h]; exact ⟨trivial, (min_eq_left (by omega)).symm, (max_eq_right (by omega)).symm⟩

theorem finalizeSort_pos_sorted (s : St) (h : Pos3 s.A) :
    Pos3 (finalizeSort s).A ∧ (finalizeSort s).A.a00 ≤ (finalizeSort s).A.a11 ∧
      (finalizeSort s).A.a11 ≤ (finalizeSort s).A.a22 := by
  unfold finalizeSort
  simp only
  obtain ⟨p0, p1, p2⟩ := h
  obtain ⟨a0, a1, a2⟩ := sort01_entries s
  generalize (if s.A.a00 > s.A.a11 then swapDiagElems 0 1 s else s) = s1 at a0 a1 a2 ⊢
  obtain ⟨b0, b1, b2⟩ := sort12_entries s1
  generalize (if s1.A.a11 > s1.A.a22 then swapDiagElems 1 2 s1 else s1) = s2 at b0 b1 b2 ⊢
  obtain ⟨c0, c1, c2⟩ := sort01_entries s2
  generalize (if s2.A.a00 > s2.A.a11 then swapDiagElems 0 1 s2 else s2) = s3 at c0 c1 c2 ⊢
  unfold Pos3
  omega

end PhononModel.SNF

namespace PhononModel.SNF
open PhononModel

/-! ### one zeroing step keeps the two diagonal entries it touches positive -/

theorem quot_pos {a r : Int} (ha : 0 < a) (hr : 0 < r) (hd : r ∣ a) : pyDiv a r = a / r ∧ 0 < a / r := by
  obtain ⟨k, rfl⟩ := hd
  have hr' : r ≠ 0 := by omega
  have e : r * k / r = k := Int.mul_ediv_cancel_left _ hr'
  refine ⟨?_, ?_⟩
  · simp only [pyDiv, if_neg hr', e]; exact Int.mul_fdiv_cancel_left k hr'
  · rw [e]
    by_contra hk
    have : k ≤ 0 := by omega
    have : r * k ≤ 0 := Int.mul_nonpos_of_nonneg_of_nonpos (by omega) this
    omega

theorem zfc1_pos (t : St) (ha : 0 < t.A.a00) (hc : t.A.a10 ≠ 0) (h01 : t.A.a01 = 0) (hd : 0 < t.A.a11)
    (hdone : (xgcd t.A.a00 t.A.a10).done = true) (hsign : 0 < (xgcd t.A.a00 t.A.a10).r) :
    0 < (zeroFirstColumn 1 t).A.a00 ∧ 0 < (zeroFirstColumn 1 t).A.a11 ∧ (zeroFirstColumn 1 t).A.a22 = t.A.a22 ∧
    (zeroFirstColumn 1 t).A.a10 = 0 ∧ (zeroFirstColumn 1 t).A.a20 = t.A.a20 := by
  obtain ⟨_, hra, _⟩ := xgcd_facts _ _ hc hdone
  obtain ⟨e, hq⟩ := quot_pos ha hsign hra
  refine ⟨by rw [zfc1_a00]; exact hsign, ?_, by rw [zfc1_A], ?_, by rw [zfc1_A]⟩
  · rw [zfc1_A]; simp only [h01, mul_zero, zero_add, e]
    exact Int.mul_pos hq hd
  · rw [zfc1_A]; exact zero_entry _ _ hc hdone

theorem zsc_pos (t : St) (ha : 0 < t.A.a11) (hc : t.A.a21 ≠ 0) (h12 : t.A.a12 = 0) (hd : 0 < t.A.a22)
    (hdone : (xgcd t.A.a11 t.A.a21).done = true) (hsign : 0 < (xgcd t.A.a11 t.A.a21).r) :
    (zeroSecondColumn t).A.a00 = t.A.a00 ∧ 0 < (zeroSecondColumn t).A.a11 ∧ 0 < (zeroSecondColumn t).A.a22 ∧
    (zeroSecondColumn t).A.a21 = 0 := by
  obtain ⟨_, hra, _⟩ := xgcd_facts _ _ hc hdone
  obtain ⟨e, hq⟩ := quot_pos ha hsign hra
  refine ⟨by rw [zsc_A], by rw [zsc_a11]; exact hsign, ?_, ?_⟩
  · rw [zsc_A]; simp only [h12, mul_zero, zero_add, e]
    exact Int.mul_pos hq hd
  · rw [zsc_A]; exact zero_entry _ _ hc hdone

/-- `_first_column` when the pivot is in place and `A[2,0]` is already zero -/
theorem firstColumn_simple (t : St) (h0 : t.A.a00 ≠ 0) (h20 : t.A.a20 = 0) :
    firstColumn t = .ok (if t.A.a10 ≠ 0 then zeroFirstColumn 1 t else t) := by
  unfold firstColumn
  have hp : searchFirstPivot t.A = some 0 := by simp [searchFirstPivot, h0]
  rw [hp]
  simp only [ne_eq, not_true_eq_false, if_false]
  by_cases hb : t.A.a10 = 0
  · simp [hb, h20]
  · have e : (zeroFirstColumn 1 t).A.a20 = 0 := by rw [zfc1_A]; exact h20
    simp [hb, e]

/-- `_second_column` when the pivot is in place -/
theorem secondColumn_simple (t : St) (h1 : t.A.a11 ≠ 0) :
    secondColumn t = (if t.A.a21 ≠ 0 then zeroSecondColumn t else t) := by
  unfold secondColumn
  have hc : ¬(t.A.a11 = 0 ∧ t.A.a21 ≠ 0) := fun h => h1 h.1
  simp only [if_neg hc]

/-- the sign condition of the second `Xgcd` call of a disturb-and-reduce round -/
theorem second_xgcd_pos (a c : Int) (ha : 0 < a) (hc : 0 < c) (hle : a ≤ c) (hnd : ¬ a ∣ c)
    (hdone : (xgcd a c).done = true) (hu : (xgcd a c).t * c ≠ 0)
    (hdone' : (xgcd (xgcd a c).r ((xgcd a c).t * c)).done = true) :
    0 < (xgcd (xgcd a c).r ((xgcd a c).t * c)).r := by
  have hr := xgcd_pos_of_pos a c hc hdone
  obtain ⟨_, hra, hrc⟩ := xgcd_facts a c (by omega) hdone
  rcases xgcd_sign _ _ hu hdone' with h | ⟨h, hdv⟩
  · exact h
  · rw [h]
    by_contra hneg
    have hlt : (xgcd a c).t * c < 0 := by omega
    -- |t c| ≥ c, and it divides r > 0, so c ≤ r; r ∣ c gives r = c; r ∣ a gives c ≤ a; so a = c, a ∣ c
    have h1 : ((xgcd a c).t * c).natAbs ≤ (xgcd a c).r.natAbs := Int.natAbs_le_of_dvd_ne_zero hdv (by omega)
    have h2 : c.natAbs ≤ ((xgcd a c).t * c).natAbs := by
      rw [Int.natAbs_mul]
      have : 1 ≤ (xgcd a c).t.natAbs := by
        have : (xgcd a c).t ≠ 0 := fun h0 => hu (by rw [h0]; ring)
        omega
      exact Nat.le_mul_of_pos_left _ this
    have h3 : (xgcd a c).r.natAbs ≤ c.natAbs := Int.natAbs_le_of_dvd_ne_zero hrc (by omega)
    have h4 : (xgcd a c).r = c := by omega
    rw [h4] at hra
    have h5 : c.natAbs ≤ a.natAbs := Int.natAbs_le_of_dvd_ne_zero hra (by omega)
    have : a = c := by omega
    exact hnd (by rw [this])

end PhononModel.SNF

namespace PhononModel.SNF
open PhononModel

theorem firstFinalize_pos (sl : St) (h : Pos3 sl.A) (h01 : sl.A.a01 = 0) (h02 : sl.A.a02 = 0) : Pos3 (firstFinalize sl).A := by
  obtain ⟨p0, p1, p2⟩ := h
  rw [firstFinalize_A]
  simp only [Pos3, h01, h02, mul_zero, zero_add]
  exact ⟨p0, p1, p2⟩

/-- after `first`, positivity of the looped state carries over to whatever `first` returns -/
theorem first_pos_of_loop (s0 s1 : St) (b : Bool) (h : first s0 = .ok (s1, b)) (hx : s1.xok = true)
    (hloop : ∀ sl, firstOneLoop s0 = .ok sl → sl.xok = true → Pos3 sl.A) : Pos3 s1.A := by
  obtain ⟨sl, hl, hc⟩ := first_split s0 s1 b h
  rcases hc with ⟨_, _, rfl, _⟩ | ⟨_, _, _, rfl, _⟩ | ⟨rfl, _⟩
  · exact hloop _ hl hx
  · have hxl : sl.xok = true := hx
    obtain ⟨_, z01, z02⟩ := firstOneLoop_post s0 sl hl hxl
    exact firstFinalize_pos sl (hloop _ hl hxl) z01 z02
  · exact hloop _ hl hx

/-- the first disturb-and-reduce round of `_finalize` keeps the diagonal positive -/
theorem round01_pos (s s1 : St) (b : Bool) (hD : Diag s.A) (hP : Pos3 s.A) (hle : s.A.a00 ≤ s.A.a11)
    (h : first (finalizeDisturb 0 1 s) = .ok (s1, b)) (hx : s1.xok = true) : Pos3 s1.A := by
  obtain ⟨p0, p1, p2⟩ := hP
  obtain ⟨a1, a2, a3, a4, a5, a6⟩ := hD
  unfold finalizeDisturb at h
  by_cases hc : pyMod (s.A.get 1 1) (s.A.get 0 0) ≠ 0
  · rw [if_pos hc] at h
    simp only [M3.get] at hc
    have hnd : ¬ s.A.a00 ∣ s.A.a11 := fun hd => hc ((pyMod_zero_iff _ _ (by omega)).mpr hd)
    set s0 := tr (rowOp (disturbL 0 1) (tr s)) with hs0
    have hA0 : s0.A = ⟨s.A.a00, 0, 0, s.A.a11, s.A.a11, 0, 0, 0, s.A.a22⟩ := by
      have : disturbL 0 1 = ⟨1,1,0,0,1,0,0,0,1⟩ := by decide
      rw [hs0]
      ext <;> simp [tr_A, rowOp_A, this, M3.mul_def, M3.mul, M3.transpose, a1, a2, a3, a4, a5, a6]
    apply first_pos_of_loop s0 s1 b h hx
    intro sl hl hxl
    obtain ⟨sa, sb, ha, hb, rfl⟩ := firstOneLoop_split s0 sl hl
    have hxb : sb.xok = true := hxl
    have hxa : sa.xok = true := (firstColumn_post _ _ hb hxb).1
    -- first half
    have e00 : s0.A.a00 = s.A.a00 := by rw [hA0]
    have e10 : s0.A.a10 = s.A.a11 := by rw [hA0]
    have e01 : s0.A.a01 = 0 := by rw [hA0]
    have e11 : s0.A.a11 = s.A.a11 := by rw [hA0]
    have e20 : s0.A.a20 = 0 := by rw [hA0]
    have e22 : s0.A.a22 = s.A.a22 := by rw [hA0]
    have e02 : s0.A.a02 = 0 := by rw [hA0]
    have e12 : s0.A.a12 = 0 := by rw [hA0]
    have hsa : sa = zeroFirstColumn 1 s0 := by
      have := firstColumn_simple s0 (by rw [e00]; omega) e20
      rw [this, if_pos (by rw [e10]; omega)] at ha
      exact (Except.ok.inj ha).symm
    have hdone : (xgcd s0.A.a00 s0.A.a10).done = true := by
      rw [hsa, zfc_xok] at hxa
      simp only [Bool.and_eq_true] at hxa
      exact hxa.2
    have hsign : 0 < (xgcd s0.A.a00 s0.A.a10).r := xgcd_pos_of_pos _ _ (by rw [e10]; exact p1) hdone
    obtain ⟨q0, q1, q2, q10, q20⟩ := zfc1_pos s0 (by rw [e00]; exact p0) (by rw [e10]; omega) e01 (by rw [e11]; exact p1) hdone hsign
    rw [← hsa] at q0 q1 q2 q10 q20
    have hsa01 : sa.A.a01 = (xgcd s0.A.a00 s0.A.a10).t * s0.A.a11 := by
      rw [hsa, zfc1_A]; simp only [e01, mul_zero, zero_add]
    have hsa02 : sa.A.a02 = 0 := by rw [hsa, zfc1_A]; simp only [e02, e12, mul_zero, add_zero]
    -- second half, on the transposed state
    have t00 : (tr sa).A.a00 = sa.A.a00 := rfl
    have t10 : (tr sa).A.a10 = sa.A.a01 := rfl
    have t01 : (tr sa).A.a01 = sa.A.a10 := rfl
    have t11 : (tr sa).A.a11 = sa.A.a11 := rfl
    have t20 : (tr sa).A.a20 = sa.A.a02 := rfl
    have t22 : (tr sa).A.a22 = sa.A.a22 := rfl
    have hsb : sb = (if (tr sa).A.a10 ≠ 0 then zeroFirstColumn 1 (tr sa) else tr sa) := by
      have := firstColumn_simple (tr sa) (by rw [t00]; omega) (by rw [t20]; exact hsa02)
      rw [this] at hb
      exact (Except.ok.inj hb).symm
    have hfin : Pos3 sb.A := by
      by_cases hu : (tr sa).A.a10 ≠ 0
      · rw [if_pos hu] at hsb
        have hdone' : (xgcd (tr sa).A.a00 (tr sa).A.a10).done = true := by
          rw [hsb, zfc_xok] at hxb
          simp only [Bool.and_eq_true] at hxb
          exact hxb.2
        have hsign' : 0 < (xgcd (tr sa).A.a00 (tr sa).A.a10).r := by
          have e1 : (tr sa).A.a00 = (xgcd s.A.a00 s.A.a11).r := by
            rw [t00, hsa, zfc1_a00, e00, e10]
          have e2 : (tr sa).A.a10 = (xgcd s.A.a00 s.A.a11).t * s.A.a11 := by
            rw [t10, hsa01, e00, e10, e11]
          rw [e1, e2] at hdone' ⊢
          rw [e00, e10] at hdone
          exact second_xgcd_pos s.A.a00 s.A.a11 p0 p1 hle hnd hdone (by rw [← e2]; exact hu) hdone'
        obtain ⟨r0, r1, r2, _, _⟩ := zfc1_pos (tr sa) (by rw [t00]; exact q0) hu (by rw [t01]; exact q10)
          (by rw [t11]; exact q1) hdone' hsign'
        rw [hsb]
        exact ⟨r0, r1, by rw [r2, t22, q2, e22]; exact p2⟩
      · rw [if_neg hu] at hsb
        rw [hsb]
        exact ⟨by rw [t00]; exact q0, by rw [t11]; exact q1, by rw [t22, q2, e22]; exact p2⟩
    exact hfin
  · rw [if_neg hc] at h
    have hno := first_noop s ⟨a1, a2, a3, a5⟩ (by omega)
    rw [hno] at h
    simp only [Except.ok.injEq, Prod.mk.injEq] at h
    rw [← h.1]
    exact ⟨p0, p1, p2⟩

end PhononModel.SNF

namespace PhononModel.SNF
open PhononModel

theorem second_noop (s : St) (hD : Diag s.A) (h11 : s.A.a11 ≠ 0) : second s = (s, true) := by
  obtain ⟨a1, a2, a3, a4, a5, a6⟩ := hD
  have e1 : secondColumn s = s := by rw [secondColumn_simple s h11, if_neg (by rw [a6]; simp)]
  have e2 : secondColumn (tr s) = tr s := by
    rw [secondColumn_simple (tr s) h11, if_neg (by show ¬ s.A.transpose.a21 ≠ 0; simp [M3.transpose, a4])]
  have e3 : secondOneLoop s = s := by unfold secondOneLoop; rw [e1, e2]; rfl
  unfold second
  simp only [e3, a6, if_true]

theorem secondFinalize_pos (sl : St) (h : Pos3 sl.A) (h12 : sl.A.a12 = 0) : Pos3 (secondFinalize sl).A := by
  obtain ⟨p0, p1, p2⟩ := h
  rw [secondFinalize_A]
  simp only [Pos3, h12, mul_zero, zero_add]
  exact ⟨p0, p1, p2⟩

/-- the second disturb-and-reduce round of `_finalize` keeps the diagonal positive -/
theorem round12_pos (s : St) (hD : Diag s.A) (hP : Pos3 s.A) (hle : s.A.a11 ≤ s.A.a22)
    (hx : (second (finalizeDisturb 1 2 s)).1.xok = true) : Pos3 (second (finalizeDisturb 1 2 s)).1.A := by
  obtain ⟨p0, p1, p2⟩ := hP
  obtain ⟨a1, a2, a3, a4, a5, a6⟩ := hD
  unfold finalizeDisturb at hx ⊢
  by_cases hc : pyMod (s.A.get 2 2) (s.A.get 1 1) ≠ 0
  · rw [if_pos hc] at hx ⊢
    simp only [M3.get] at hc
    have hnd : ¬ s.A.a11 ∣ s.A.a22 := fun hd => hc ((pyMod_zero_iff _ _ (by omega)).mpr hd)
    set s0 := tr (rowOp (disturbL 1 2) (tr s)) with hs0
    have hA0 : s0.A = ⟨s.A.a00, 0, 0, 0, s.A.a11, 0, 0, s.A.a22, s.A.a22⟩ := by
      have : disturbL 1 2 = ⟨1,0,0,0,1,1,0,0,1⟩ := by decide
      rw [hs0]
      ext <;> simp [tr_A, rowOp_A, this, M3.mul_def, M3.mul, M3.transpose, a1, a2, a3, a4, a5, a6]
    have e00 : s0.A.a00 = s.A.a00 := by rw [hA0]
    have e11 : s0.A.a11 = s.A.a11 := by rw [hA0]
    have e21 : s0.A.a21 = s.A.a22 := by rw [hA0]
    have e12 : s0.A.a12 = 0 := by rw [hA0]
    have e22 : s0.A.a22 = s.A.a22 := by rw [hA0]
    -- reduce to the looped state
    have hloop : (secondOneLoop s0).xok = true → Pos3 (secondOneLoop s0).A := by
      intro hxl
      unfold secondOneLoop at hxl ⊢
      set sa := secondColumn s0 with hsa'
      have hxb : (secondColumn (tr sa)).xok = true := hxl
      have hxa : sa.xok = true := (secondColumn_post (tr sa) hxb).1
      have hsa : sa = zeroSecondColumn s0 := by
        rw [hsa', secondColumn_simple s0 (by rw [e11]; omega), if_pos (by rw [e21]; omega)]
      have hdone : (xgcd s0.A.a11 s0.A.a21).done = true := by
        rw [hsa, zsc_xok] at hxa
        simp only [Bool.and_eq_true] at hxa
        exact hxa.2
      have hsign : 0 < (xgcd s0.A.a11 s0.A.a21).r := xgcd_pos_of_pos _ _ (by rw [e21]; exact p2) hdone
      obtain ⟨q0, q1, q2, q21⟩ := zsc_pos s0 (by rw [e11]; exact p1) (by rw [e21]; omega) e12 (by rw [e22]; exact p2) hdone hsign
      rw [← hsa] at q0 q1 q2 q21
      have hsa12 : sa.A.a12 = (xgcd s0.A.a11 s0.A.a21).t * s0.A.a22 := by
        rw [hsa, zsc_A]; simp only [e12, mul_zero, zero_add]
      have t00 : (tr sa).A.a00 = sa.A.a00 := rfl
      have t11 : (tr sa).A.a11 = sa.A.a11 := rfl
      have t21 : (tr sa).A.a21 = sa.A.a12 := rfl
      have t12 : (tr sa).A.a12 = sa.A.a21 := rfl
      have t22 : (tr sa).A.a22 = sa.A.a22 := rfl
      have hsb : secondColumn (tr sa) = (if (tr sa).A.a21 ≠ 0 then zeroSecondColumn (tr sa) else tr sa) :=
        secondColumn_simple (tr sa) (by rw [t11]; omega)
      have hfin : Pos3 (secondColumn (tr sa)).A := by
        by_cases hu : (tr sa).A.a21 ≠ 0
        · rw [hsb, if_pos hu] at hxb ⊢
          have hdone' : (xgcd (tr sa).A.a11 (tr sa).A.a21).done = true := by
            rw [zsc_xok] at hxb
            simp only [Bool.and_eq_true] at hxb
            exact hxb.2
          have hsign' : 0 < (xgcd (tr sa).A.a11 (tr sa).A.a21).r := by
            have f1 : (tr sa).A.a11 = (xgcd s.A.a11 s.A.a22).r := by
              rw [t11, hsa, zsc_a11, e11, e21]
            have f2 : (tr sa).A.a21 = (xgcd s.A.a11 s.A.a22).t * s.A.a22 := by
              rw [t21, hsa12, e11, e21, e22]
            rw [f1, f2] at hdone' ⊢
            rw [e11, e21] at hdone
            exact second_xgcd_pos s.A.a11 s.A.a22 p1 p2 hle hnd hdone (by rw [← f2]; exact hu) hdone'
          obtain ⟨r0, r1, r2, _⟩ := zsc_pos (tr sa) (by rw [t11]; exact q1) hu (by rw [t12]; exact q21)
            (by rw [t22]; exact q2) hdone' hsign'
          exact ⟨by rw [r0, t00, q0, e00]; exact p0, r1, r2⟩
        · rw [hsb, if_neg hu]
          exact ⟨by rw [t00, q0, e00]; exact p0, by rw [t11]; exact q1, by rw [t22]; exact q2⟩
      exact hfin
    have hxl : (secondOneLoop s0).xok = true := by
      rcases (second_cases s0).1 with e | e
      · rw [e] at hx; exact hx
      · rw [e] at hx; exact hx
    rcases (second_cases s0).1 with e | e
    · rw [e]; exact hloop hxl
    · rw [e]
      exact secondFinalize_pos _ (hloop hxl) (secondOneLoop_post s0 hxl).2
  · rw [if_neg hc] at hx ⊢
    rw [second_noop s ⟨a1, a2, a3, a4, a5, a6⟩ (by omega)]
    exact ⟨p0, p1, p2⟩

end PhononModel.SNF

namespace PhononModel.SNF
open PhononModel

theorem det_of_Diag (A : M3 Int) (h : Diag A) : A.det = A.a00 * A.a11 * A.a22 := by
  obtain ⟨a1, a2, a3, a4, a5, a6⟩ := h
  simp only [M3.det, a1, a2, a3, a4, a5, a6]; ring

theorem preFinalize_pos (s s' : St) (b : Bool) (h : preFinalize s = .ok (s', b)) (hD : Diag s.A) (hd : DetNZ s)
    (hx : s'.xok = true) (hb : b = true) : Pos3 s'.A := by
  have hxs : s.xok = true := (preFinalize_post s s' b h hD hd hx hb).2
  obtain ⟨s1, b1, h1, rfl, rfl⟩ := preFinalize_split s s' b h
  simp only [Bool.and_eq_true] at hb
  obtain ⟨hb1, hb2⟩ := hb
  subst hb1
  have hx2 : (finalizeDisturb 1 2 (finalizeSort s1)).xok = true := second_xok_mono _ hx
  have hx1 : s1.xok = true := by
    rw [finalizeDisturb_xok] at hx2
    by_contra hne
    have hf : s1.xok = false := by simpa using hne
    rw [finalizeSort_xok s1 false hf] at hx2; cases hx2
  -- non-zero diagonal
  have hdet := hd hxs
  rw [det_of_Diag _ hD] at hdet
  have n0 : s.A.a00 ≠ 0 := fun h0 => hdet (by rw [h0]; ring)
  have n1 : s.A.a11 ≠ 0 := fun h0 => hdet (by rw [h0]; ring)
  have n2 : s.A.a22 ≠ 0 := fun h0 => hdet (by rw [h0]; ring)
  set sf := flipNeg 2 (flipNeg 1 (flipNeg 0 s)) with hsf
  have hDf : Diag sf.A := flipNeg_Diag _ _ (flipNeg_Diag _ _ (flipNeg_Diag _ _ hD))
  have hPf : Pos3 sf.A := flips_pos s n0 n1 n2
  have hDs : Diag (finalizeSort sf).A := finalizeSort_Diag _ hDf
  obtain ⟨hPs, hle01, _⟩ := finalizeSort_pos_sorted sf hPf
  have hP1 : Pos3 s1.A := round01_pos (finalizeSort sf) s1 true hDs hPs hle01 h1 hx1
  -- s1 is diagonal
  have hB0 : B01 (finalizeDisturb 0 1 (finalizeSort sf)).A := finalizeDisturb01_B01 _ hDs
  have hd0 : DetNZ (finalizeDisturb 0 1 (finalizeSort sf)) := by
    apply finalizeDisturb_adm detNZ_adm _ _ (by decide)
    apply finalizeSort_adm detNZ_adm
    exact flipNeg_adm detNZ_adm _ _ (flipNeg_adm detNZ_adm _ _ (flipNeg_adm detNZ_adm _ _ hd))
  have hB1 : B01 s1.A := first_B01 _ _ _ h1 hB0
  have hZ1 : Z1 s1.A := first_post _ _ h1 hd0 hx1
  have hD1 : Diag s1.A := diag_of hZ1 ⟨hB1.2.1, hB1.2.2.2⟩
  have hDs1 : Diag (finalizeSort s1).A := finalizeSort_Diag _ hD1
  obtain ⟨hPs1, _, hle12⟩ := finalizeSort_pos_sorted s1 hP1
  exact round12_pos (finalizeSort s1) hDs1 hPs1 hle12 hx

theorem next_pos (s s' : St) (ok : Bool) (h : next s = .ok (s', some ok)) (hd : DetNZ s)
    (hx : s'.xok = true) (hok : ok = true) : Pos3 s'.A := by
  rcases next_split s s' _ h with ⟨s1, s2, ok', h1, hb2, hp, rfl, hr⟩ | hr
  · simp only [Option.some.injEq] at hr
    subst hr
    have hx2 : s2.xok = true := by rw [← (setPQ_A s2).2]; exact hx
    rw [(setPQ_A s2).1]
    have hxs : s.xok = true := next_xok_mono _ _ _ h hx
    have hd1 : DetNZ s1 := first_adm detNZ_adm _ _ _ h1 hd
    have hds : DetNZ (second s1).1 := second_adm detNZ_adm _ hd1
    -- xok of the intermediate states
    have hxm : (second s1).1.xok = true := by
      obtain ⟨t1, c1, g1, rfl, _⟩ := preFinalize_split _ _ _ hp
      have g2 : (finalizeDisturb 1 2 (finalizeSort t1)).xok = true := second_xok_mono _ hx2
      have g3 : t1.xok = true := by
        rw [finalizeDisturb_xok] at g2
        by_contra hne
        have hf : t1.xok = false := by simpa using hne
        rw [finalizeSort_xok t1 false hf] at g2; cases g2
      have g4 := first_xok_mono _ _ _ g1 g3
      rw [finalizeDisturb_xok] at g4
      by_contra hne
      have hf : (second s1).1.xok = false := by simpa using hne
      have : (flipNeg 2 (flipNeg 1 (flipNeg 0 (second s1).1))).xok = false := by
        rw [flipNeg_xok, flipNeg_xok, flipNeg_xok]; exact hf
      rw [finalizeSort_xok _ false this] at g4; cases g4
    have hx1 : s1.xok = true := second_xok_mono _ hxm
    have hZ1 : Z1 s1.A := first_post _ _ h1 hd hx1
    have hD2 : Diag (second s1).1.A := second_post _ hZ1 hd1 hb2 hxm
    exact preFinalize_pos _ _ _ hp hD2 hds hx2 hok
  · cases hr

theorem runLoop_pos : ∀ (fuel k : Nat) (s : St) (o : Out), runLoop fuel k s = .ok o → DetNZ s →
    o.finished = true → o.xok = true → o.finOk = true → Pos3 o.D
  | 0, k, s, o, h, _, hf, _, _ => by
    simp only [runLoop, Except.ok.injEq] at h
    subst h; cases hf
  | fuel+1, k, s, o, h, hd, hf, hx, hok => by
    simp only [runLoop] at h
    split at h
    · cases h
    · next s1 ok hn =>
      simp only [Except.ok.injEq] at h
      subst h
      exact next_pos s s1 ok hn hd hx hok
    · next s1 hn =>
      exact runLoop_pos fuel (k+1) s1 o h (next_none_detNZ s s1 hn hd) hf hx hok

theorem run_pos (fuel : Nat) (A : M3 Int) (o : Out) (hA : A.det ≠ 0) (h : run fuel A = .ok o)
    (hf : o.finished = true) (hx : o.xok = true) (hok : o.finOk = true) :
    0 < o.D.a00 ∧ 0 < o.D.a11 ∧ 0 < o.D.a22 :=
  runLoop_pos fuel 0 _ o h (fun _ => hA) hf hx hok

end PhononModel.SNF
