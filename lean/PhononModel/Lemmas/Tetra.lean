import PhononModel.Gen.TetraC
import PhononModel.Model.TetraPy
import Mathlib.Algebra.Order.Field.Basic
import Mathlib.Tactic.FieldSimp
import Mathlib.Tactic.Ring
import Mathlib.Tactic.LinearCombination
import Mathlib.Tactic.Linarith
import Mathlib.Tactic.Positivity
import Mathlib.Tactic.FinCases
import Mathlib.Tactic.IntervalCases

/-! Algebra of the tetrahedron-method formulas (C11). -/
set_option linter.unusedSectionVars false
set_option linter.unusedVariables false
set_option linter.unusedSimpArgs false
set_option linter.unusedTactic false
set_option linter.unreachableTactic false
namespace PhononModel.TetraLemmas
open PhononModel

section field
variable {K : Type} [Field K] [LinearOrder K] [IsStrictOrderedRing K]

/-- `f n m + f m n = 1` — the engine of all sum rules -/
theorem f_swap (ω : K) (v : Fin 4 → K) (n m : Fin 4) (h : v n ≠ v m) :
    TetraPy.f ω v n m + TetraPy.f ω v m n = 1 := by
  unfold TetraPy.f
  have h1 : v n - v m ≠ 0 := sub_ne_zero.mpr h
  have h2 : v m - v n ≠ 0 := sub_ne_zero.mpr (Ne.symm h)
  field_simp
  ring

/-- all four vertex values distinct -/
def Distinct (v : Fin 4 → K) : Prop :=
  v 0 ≠ v 1 ∧ v 0 ≠ v 2 ∧ v 0 ≠ v 3 ∧ v 1 ≠ v 2 ∧ v 1 ≠ v 3 ∧ v 2 ≠ v 3

theorem J_sum_1 (ω : K) (v : Fin 4 → K) (hd : Distinct v) :
    TetraPy.J_10 ω v + TetraPy.J_11 ω v + TetraPy.J_12 ω v + TetraPy.J_13 ω v = 1 := by
  obtain ⟨h01, h02, h03, _, _, _⟩ := hd
  have s1 := f_swap ω v 0 1 h01
  have s2 := f_swap ω v 0 2 h02
  have s3 := f_swap ω v 0 3 h03
  unfold TetraPy.J_10 TetraPy.J_11 TetraPy.J_12 TetraPy.J_13
  push_cast
  linear_combination (1 / 4 : K) * (s1 + s2 + s3)

theorem J_sum_2 (ω : K) (v : Fin 4 → K) (hd : Distinct v) (hn : TetraPy.n_2 ω v ≠ 0) :
    TetraPy.J_20 ω v + TetraPy.J_21 ω v + TetraPy.J_22 ω v + TetraPy.J_23 ω v = 1 := by
  obtain ⟨h01, h02, h03, h12, h13, h23⟩ := hd
  have s03 := f_swap ω v 0 3 h03
  have s02 := f_swap ω v 0 2 h02
  have s13 := f_swap ω v 1 3 h13
  have s12 := f_swap ω v 1 2 h12
  unfold TetraPy.J_20 TetraPy.J_21 TetraPy.J_22 TetraPy.J_23
  rw [div_div, div_div, div_div, div_div, ← add_div, ← add_div, ← add_div, div_eq_one_iff_eq (by
    push_cast; exact mul_ne_zero (by norm_num) hn)]
  unfold TetraPy.n_2 at hn ⊢
  push_cast
  generalize TetraPy.f ω v 0 3 = f03 at *
  generalize TetraPy.f ω v 3 0 = f30 at *
  generalize TetraPy.f ω v 0 2 = f02 at *
  generalize TetraPy.f ω v 2 0 = f20 at *
  generalize TetraPy.f ω v 1 3 = f13 at *
  generalize TetraPy.f ω v 3 1 = f31 at *
  generalize TetraPy.f ω v 1 2 = f12 at *
  generalize TetraPy.f ω v 2 1 = f21 at *
  linear_combination (f31 * f21) * (s13 + s12) + (f30 * f13 * f21) * (s03 + s13 + s12) +
    (f30 * f20 * f12) * (s03 + s02 + s12)

theorem J_sum_3 (ω : K) (v : Fin 4 → K) (hd : Distinct v) (hn : TetraPy.n_3 ω v ≠ 0) :
    TetraPy.J_30 ω v + TetraPy.J_31 ω v + TetraPy.J_32 ω v + TetraPy.J_33 ω v = 1 := by
  obtain ⟨h01, h02, h03, h12, h13, h23⟩ := hd
  have s03 := f_swap ω v 0 3 h03
  have s13 := f_swap ω v 1 3 h13
  have s23 := f_swap ω v 2 3 h23
  unfold TetraPy.J_30 TetraPy.J_31 TetraPy.J_32 TetraPy.J_33 TetraPy.sq
  rw [div_div, div_div, div_div, div_div, ← add_div, ← add_div, ← add_div, div_eq_one_iff_eq (by
    push_cast; exact mul_ne_zero (by norm_num) hn)]
  unfold TetraPy.n_3 at hn ⊢
  push_cast
  generalize TetraPy.f ω v 0 3 = f03 at *
  generalize TetraPy.f ω v 3 0 = f30 at *
  generalize TetraPy.f ω v 1 3 = f13 at *
  generalize TetraPy.f ω v 3 1 = f31 at *
  generalize TetraPy.f ω v 2 3 = f23 at *
  generalize TetraPy.f ω v 3 2 = f32 at *
  linear_combination (-(f03 * f13 * f23)) * (s03 + s13 + s23)

theorem I_sum_1 (ω : K) (v : Fin 4 → K) (hd : Distinct v) :
    TetraPy.I_10 ω v + TetraPy.I_11 ω v + TetraPy.I_12 ω v + TetraPy.I_13 ω v = 1 := by
  obtain ⟨h01, h02, h03, _, _, _⟩ := hd
  have s1 := f_swap ω v 0 1 h01
  have s2 := f_swap ω v 0 2 h02
  have s3 := f_swap ω v 0 3 h03
  unfold TetraPy.I_10 TetraPy.I_11 TetraPy.I_12 TetraPy.I_13
  push_cast
  linear_combination (1 / 3 : K) * (s1 + s2 + s3)

theorem I_sum_2 (ω : K) (v : Fin 4 → K) (hd : Distinct v) (hg : TetraPy.gden ω v ≠ 0) :
    TetraPy.I_20 ω v + TetraPy.I_21 ω v + TetraPy.I_22 ω v + TetraPy.I_23 ω v = 1 := by
  obtain ⟨h01, h02, h03, h12, h13, h23⟩ := hd
  have s03 := f_swap ω v 0 3 h03
  have s02 := f_swap ω v 0 2 h02
  have s13 := f_swap ω v 1 3 h13
  have s12 := f_swap ω v 1 2 h12
  unfold TetraPy.I_20 TetraPy.I_21 TetraPy.I_22 TetraPy.I_23 TetraPy.sq
  generalize hG : TetraPy.gden ω v = G at *
  unfold TetraPy.gden at hG
  push_cast
  generalize TetraPy.f ω v 0 3 = f03 at *
  generalize TetraPy.f ω v 3 0 = f30 at *
  generalize TetraPy.f ω v 0 2 = f02 at *
  generalize TetraPy.f ω v 2 0 = f20 at *
  generalize TetraPy.f ω v 1 3 = f13 at *
  generalize TetraPy.f ω v 3 1 = f31 at *
  generalize TetraPy.f ω v 1 2 = f12 at *
  generalize TetraPy.f ω v 2 1 = f21 at *
  field_simp
  linear_combination (G + f20 * f12) * s03 - (f20 * f12) * s03 + G * s12 + (f20 * f12) * s02 + (f13 * f21) * s13 + hG

theorem I_sum_3 (ω : K) (v : Fin 4 → K) (hd : Distinct v) :
    TetraPy.I_30 ω v + TetraPy.I_31 ω v + TetraPy.I_32 ω v + TetraPy.I_33 ω v = 1 := by
  obtain ⟨h01, h02, h03, h12, h13, h23⟩ := hd
  have s03 := f_swap ω v 0 3 h03
  have s13 := f_swap ω v 1 3 h13
  have s23 := f_swap ω v 2 3 h23
  unfold TetraPy.I_30 TetraPy.I_31 TetraPy.I_32 TetraPy.I_33
  push_cast
  linear_combination (1 / 3 : K) * (s03 + s13 + s23)

end field

/-! ### the translated C (without THM_EPSILON) and the Python model are the same rational functions -/
section ceq
variable {K : Type} [Field K] [LinearOrder K] [IsStrictOrderedRing K]

theorem c_f (ω : K) (v : Fin 4 → K) (n m : Fin 4) : TetraC.f none n m ω v = TetraPy.f ω v n m := by
  simp only [TetraC.f, TetraPy.f]

theorem c_n_1 (ω : K) (v : Fin 4 → K) : TetraC.n_1 none ω v = TetraPy.n_1 ω v := by
  simp only [TetraC.n_1, TetraPy.n_1, c_f]

theorem c_n_2 (ω : K) (v : Fin 4 → K) : TetraC.n_2 none ω v = TetraPy.n_2 ω v := by
  simp only [TetraC.n_2, TetraPy.n_2, c_f]

theorem c_n_3 (ω : K) (v : Fin 4 → K) : TetraC.n_3 none ω v = TetraPy.n_3 ω v := by
  simp only [TetraC.n_3, TetraPy.n_3, c_f]

theorem c_J_10 (ω : K) (v : Fin 4 → K) : TetraC.J_10 none ω v = TetraPy.J_10 ω v := by
  simp only [TetraC.J_10, TetraPy.J_10, TetraPy.sq, TetraPy.gden, c_f, c_n_2, c_n_3]
  try ring

theorem c_J_11 (ω : K) (v : Fin 4 → K) : TetraC.J_11 none ω v = TetraPy.J_11 ω v := by
  simp only [TetraC.J_11, TetraPy.J_11, TetraPy.sq, TetraPy.gden, c_f, c_n_2, c_n_3]
  try ring

theorem c_J_12 (ω : K) (v : Fin 4 → K) : TetraC.J_12 none ω v = TetraPy.J_12 ω v := by
  simp only [TetraC.J_12, TetraPy.J_12, TetraPy.sq, TetraPy.gden, c_f, c_n_2, c_n_3]
  try ring

theorem c_J_13 (ω : K) (v : Fin 4 → K) : TetraC.J_13 none ω v = TetraPy.J_13 ω v := by
  simp only [TetraC.J_13, TetraPy.J_13, TetraPy.sq, TetraPy.gden, c_f, c_n_2, c_n_3]
  try ring

theorem c_J_20 (ω : K) (v : Fin 4 → K) : TetraC.J_20 none ω v = TetraPy.J_20 ω v := by
  simp only [TetraC.J_20, TetraPy.J_20, TetraPy.sq, TetraPy.gden, c_f, c_n_2, c_n_3]
  try ring

theorem c_J_21 (ω : K) (v : Fin 4 → K) : TetraC.J_21 none ω v = TetraPy.J_21 ω v := by
  simp only [TetraC.J_21, TetraPy.J_21, TetraPy.sq, TetraPy.gden, c_f, c_n_2, c_n_3]
  try ring

theorem c_J_22 (ω : K) (v : Fin 4 → K) : TetraC.J_22 none ω v = TetraPy.J_22 ω v := by
  simp only [TetraC.J_22, TetraPy.J_22, TetraPy.sq, TetraPy.gden, c_f, c_n_2, c_n_3]
  try ring

theorem c_J_23 (ω : K) (v : Fin 4 → K) : TetraC.J_23 none ω v = TetraPy.J_23 ω v := by
  simp only [TetraC.J_23, TetraPy.J_23, TetraPy.sq, TetraPy.gden, c_f, c_n_2, c_n_3]
  try ring

theorem c_J_30 (ω : K) (v : Fin 4 → K) : TetraC.J_30 none ω v = TetraPy.J_30 ω v := by
  simp only [TetraC.J_30, TetraPy.J_30, TetraPy.sq, TetraPy.gden, c_f, c_n_2, c_n_3]
  try ring

theorem c_J_31 (ω : K) (v : Fin 4 → K) : TetraC.J_31 none ω v = TetraPy.J_31 ω v := by
  simp only [TetraC.J_31, TetraPy.J_31, TetraPy.sq, TetraPy.gden, c_f, c_n_2, c_n_3]
  try ring

theorem c_J_32 (ω : K) (v : Fin 4 → K) : TetraC.J_32 none ω v = TetraPy.J_32 ω v := by
  simp only [TetraC.J_32, TetraPy.J_32, TetraPy.sq, TetraPy.gden, c_f, c_n_2, c_n_3]
  try ring

theorem c_J_33 (ω : K) (v : Fin 4 → K) : TetraC.J_33 none ω v = TetraPy.J_33 ω v := by
  simp only [TetraC.J_33, TetraPy.J_33, TetraPy.sq, TetraPy.gden, c_f, c_n_2, c_n_3]
  try ring

theorem c_I_10 (ω : K) (v : Fin 4 → K) : TetraC.I_10 none ω v = TetraPy.I_10 ω v := by
  simp only [TetraC.I_10, TetraPy.I_10, TetraPy.sq, TetraPy.gden, c_f, c_n_2, c_n_3]
  try ring

theorem c_I_11 (ω : K) (v : Fin 4 → K) : TetraC.I_11 none ω v = TetraPy.I_11 ω v := by
  simp only [TetraC.I_11, TetraPy.I_11, TetraPy.sq, TetraPy.gden, c_f, c_n_2, c_n_3]
  try ring

theorem c_I_12 (ω : K) (v : Fin 4 → K) : TetraC.I_12 none ω v = TetraPy.I_12 ω v := by
  simp only [TetraC.I_12, TetraPy.I_12, TetraPy.sq, TetraPy.gden, c_f, c_n_2, c_n_3]
  try ring

theorem c_I_13 (ω : K) (v : Fin 4 → K) : TetraC.I_13 none ω v = TetraPy.I_13 ω v := by
  simp only [TetraC.I_13, TetraPy.I_13, TetraPy.sq, TetraPy.gden, c_f, c_n_2, c_n_3]
  try ring

theorem c_I_20 (ω : K) (v : Fin 4 → K) : TetraC.I_20 none ω v = TetraPy.I_20 ω v := by
  simp only [TetraC.I_20, TetraPy.I_20, TetraPy.sq, TetraPy.gden, c_f, c_n_2, c_n_3]
  try ring

theorem c_I_21 (ω : K) (v : Fin 4 → K) : TetraC.I_21 none ω v = TetraPy.I_21 ω v := by
  simp only [TetraC.I_21, TetraPy.I_21, TetraPy.sq, TetraPy.gden, c_f, c_n_2, c_n_3]
  try ring

theorem c_I_22 (ω : K) (v : Fin 4 → K) : TetraC.I_22 none ω v = TetraPy.I_22 ω v := by
  simp only [TetraC.I_22, TetraPy.I_22, TetraPy.sq, TetraPy.gden, c_f, c_n_2, c_n_3]
  try ring

theorem c_I_23 (ω : K) (v : Fin 4 → K) : TetraC.I_23 none ω v = TetraPy.I_23 ω v := by
  simp only [TetraC.I_23, TetraPy.I_23, TetraPy.sq, TetraPy.gden, c_f, c_n_2, c_n_3]
  try ring

theorem c_I_30 (ω : K) (v : Fin 4 → K) : TetraC.I_30 none ω v = TetraPy.I_30 ω v := by
  simp only [TetraC.I_30, TetraPy.I_30, TetraPy.sq, TetraPy.gden, c_f, c_n_2, c_n_3]
  try ring

theorem c_I_31 (ω : K) (v : Fin 4 → K) : TetraC.I_31 none ω v = TetraPy.I_31 ω v := by
  simp only [TetraC.I_31, TetraPy.I_31, TetraPy.sq, TetraPy.gden, c_f, c_n_2, c_n_3]
  try ring

theorem c_I_32 (ω : K) (v : Fin 4 → K) : TetraC.I_32 none ω v = TetraPy.I_32 ω v := by
  simp only [TetraC.I_32, TetraPy.I_32, TetraPy.sq, TetraPy.gden, c_f, c_n_2, c_n_3]
  try ring

theorem c_I_33 (ω : K) (v : Fin 4 → K) : TetraC.I_33 none ω v = TetraPy.I_33 ω v := by
  simp only [TetraC.I_33, TetraPy.I_33, TetraPy.sq, TetraPy.gden, c_f, c_n_2, c_n_3]
  try ring

theorem c_g_1 (ω : K) (v : Fin 4 → K) : TetraC.g_1 none ω v = TetraPy.g_1 ω v := by
  simp only [TetraC.g_1, TetraPy.g_1, TetraPy.sq, TetraPy.gden, c_f, c_n_2, c_n_3]
  try ring

theorem c_g_2 (ω : K) (v : Fin 4 → K) : TetraC.g_2 none ω v = TetraPy.g_2 ω v := by
  simp only [TetraC.g_2, TetraPy.g_2, TetraPy.sq, TetraPy.gden, c_f, c_n_2, c_n_3]
  try ring

theorem c_g_3 (ω : K) (v : Fin 4 → K) : TetraC.g_3 none ω v = TetraPy.g_3 ω v := by
  simp only [TetraC.g_3, TetraPy.g_3, TetraPy.sq, TetraPy.gden, c_f, c_n_2, c_n_3]
  try ring

theorem c_J_0 : TetraC.J_0 (none : Option K) = TetraPy.J_0 := by
  simp only [TetraC.J_0, TetraPy.J_0]
  try push_cast
  try ring

theorem c_J_4 : TetraC.J_4 (none : Option K) = TetraPy.J_4 := by
  simp only [TetraC.J_4, TetraPy.J_4]
  try push_cast
  try ring

theorem c_I_0 : TetraC.I_0 (none : Option K) = TetraPy.I_0 := by
  simp only [TetraC.I_0, TetraPy.I_0]
  try push_cast
  try ring

theorem c_I_4 : TetraC.I_4 (none : Option K) = TetraPy.I_4 := by
  simp only [TetraC.I_4, TetraPy.I_4]
  try push_cast
  try ring

theorem c_n_0 : TetraC.n_0 (none : Option K) = TetraPy.n_0 := by
  simp only [TetraC.n_0, TetraPy.n_0]
  try push_cast
  try ring

theorem c_n_4 : TetraC.n_4 (none : Option K) = TetraPy.n_4 := by
  simp only [TetraC.n_4, TetraPy.n_4]
  try push_cast
  try ring

theorem c_g_0 : TetraC.g_0 (none : Option K) = TetraPy.g_0 := by
  simp only [TetraC.g_0, TetraPy.g_0]
  try push_cast
  try ring

theorem c_g_4 : TetraC.g_4 (none : Option K) = TetraPy.g_4 := by
  simp only [TetraC.g_4, TetraPy.g_4]
  try push_cast
  try ring

theorem c_J (ω : K) (v : Fin 4 → K) (i : Fin 5) (ci : Fin 4) : TetraC.J none i.1 ci.1 ω v = TetraPy.J ω v i ci := by
  fin_cases i <;> fin_cases ci
  · exact c_J_0
  · exact c_J_0
  · exact c_J_0
  · exact c_J_0
  · exact c_J_10 ω v
  · exact c_J_11 ω v
  · exact c_J_12 ω v
  · exact c_J_13 ω v
  · exact c_J_20 ω v
  · exact c_J_21 ω v
  · exact c_J_22 ω v
  · exact c_J_23 ω v
  · exact c_J_30 ω v
  · exact c_J_31 ω v
  · exact c_J_32 ω v
  · exact c_J_33 ω v
  · exact c_J_4
  · exact c_J_4
  · exact c_J_4
  · exact c_J_4

theorem c_I (ω : K) (v : Fin 4 → K) (i : Fin 5) (ci : Fin 4) : TetraC.I none i.1 ci.1 ω v = TetraPy.I ω v i ci := by
  fin_cases i <;> fin_cases ci
  · exact c_I_0
  · exact c_I_0
  · exact c_I_0
  · exact c_I_0
  · exact c_I_10 ω v
  · exact c_I_11 ω v
  · exact c_I_12 ω v
  · exact c_I_13 ω v
  · exact c_I_20 ω v
  · exact c_I_21 ω v
  · exact c_I_22 ω v
  · exact c_I_23 ω v
  · exact c_I_30 ω v
  · exact c_I_31 ω v
  · exact c_I_32 ω v
  · exact c_I_33 ω v
  · exact c_I_4
  · exact c_I_4
  · exact c_I_4
  · exact c_I_4

theorem c_n (ω : K) (v : Fin 4 → K) (i : Fin 5) : TetraC.n none i.1 ω v = TetraPy.n ω v i := by
  fin_cases i
  · exact c_n_0
  · exact c_n_1 ω v
  · exact c_n_2 ω v
  · exact c_n_3 ω v
  · exact c_n_4

theorem c_g (ω : K) (v : Fin 4 → K) (i : Fin 5) : TetraC.g none i.1 ω v = TetraPy.g ω v i := by
  fin_cases i
  · exact c_g_0
  · exact c_g_1 ω v
  · exact c_g_2 ω v
  · exact c_g_3 ω v
  · exact c_g_4

end ceq

/-! ### with `-DTHM_EPSILON=e`: when no guard fires the translated C is again the Python model -/
section ceps
variable {K : Type} [Field K] [LinearOrder K] [IsStrictOrderedRing K]

/-- no guard of the C code fires: vertex values at least `e` apart, the three guarded denominators at least `e` -/
structure NoGuard (e ω : K) (v : Fin 4 → K) : Prop where
  gap : ∀ n m : Fin 4, n ≠ m → ¬ (TetraC.fabs (v n - v m) < e)
  n2 : ¬ (TetraPy.n_2 ω v < e)
  n3 : ¬ (TetraPy.n_3 ω v < e)
  gd : ¬ (TetraPy.gden ω v < e)

theorem c_f_eps {e ω : K} {v : Fin 4 → K} (h : NoGuard e ω v) (n m : Fin 4) (hnm : n ≠ m) :
    TetraC.f (some e) n m ω v = TetraPy.f ω v n m := by
  simp only [TetraC.f, TetraPy.f, if_neg (h.gap n m hnm)]

theorem c_n_1_eps {e ω : K} {v : Fin 4 → K} (h : NoGuard e ω v) : TetraC.n_1 (some e) ω v = TetraPy.n_1 ω v := by
  simp only [TetraC.n_1, TetraPy.n_1]
  repeat rw [c_f_eps h _ _ (by decide)]

theorem c_n_2_eps {e ω : K} {v : Fin 4 → K} (h : NoGuard e ω v) : TetraC.n_2 (some e) ω v = TetraPy.n_2 ω v := by
  simp only [TetraC.n_2, TetraPy.n_2]
  repeat rw [c_f_eps h _ _ (by decide)]

theorem c_n_3_eps {e ω : K} {v : Fin 4 → K} (h : NoGuard e ω v) : TetraC.n_3 (some e) ω v = TetraPy.n_3 ω v := by
  simp only [TetraC.n_3, TetraPy.n_3]
  repeat rw [c_f_eps h _ _ (by decide)]

theorem c_J_10_eps {e ω : K} {v : Fin 4 → K} (h : NoGuard e ω v) : TetraC.J_10 (some e) ω v = TetraPy.J_10 ω v := by
  have hg := h.gd
  unfold TetraPy.gden at hg
  simp only [TetraC.J_10, TetraPy.J_10, TetraPy.sq, TetraPy.gden, c_n_2_eps h, c_n_3_eps h]
  repeat rw [c_f_eps h _ _ (by decide)]
  try first
    | rfl
    | (simp only [if_neg h.n2, if_neg h.n3]; done)
    | (simp only [if_neg h.n2, if_neg h.n3]; ring)
    | (rw [if_neg (by first | exact hg | (rw [add_comm]; exact hg))]; ring)
    | (rw [if_neg (by rw [mul_comm (TetraPy.f ω v 1 3) (TetraPy.f ω v 2 1)]; exact hg)]; ring)
    | ring

theorem c_J_11_eps {e ω : K} {v : Fin 4 → K} (h : NoGuard e ω v) : TetraC.J_11 (some e) ω v = TetraPy.J_11 ω v := by
  have hg := h.gd
  unfold TetraPy.gden at hg
  simp only [TetraC.J_11, TetraPy.J_11, TetraPy.sq, TetraPy.gden, c_n_2_eps h, c_n_3_eps h]
  repeat rw [c_f_eps h _ _ (by decide)]
  try first
    | rfl
    | (simp only [if_neg h.n2, if_neg h.n3]; done)
    | (simp only [if_neg h.n2, if_neg h.n3]; ring)
    | (rw [if_neg (by first | exact hg | (rw [add_comm]; exact hg))]; ring)
    | (rw [if_neg (by rw [mul_comm (TetraPy.f ω v 1 3) (TetraPy.f ω v 2 1)]; exact hg)]; ring)
    | ring

theorem c_J_12_eps {e ω : K} {v : Fin 4 → K} (h : NoGuard e ω v) : TetraC.J_12 (some e) ω v = TetraPy.J_12 ω v := by
  have hg := h.gd
  unfold TetraPy.gden at hg
  simp only [TetraC.J_12, TetraPy.J_12, TetraPy.sq, TetraPy.gden, c_n_2_eps h, c_n_3_eps h]
  repeat rw [c_f_eps h _ _ (by decide)]
  try first
    | rfl
    | (simp only [if_neg h.n2, if_neg h.n3]; done)
    | (simp only [if_neg h.n2, if_neg h.n3]; ring)
    | (rw [if_neg (by first | exact hg | (rw [add_comm]; exact hg))]; ring)
    | (rw [if_neg (by rw [mul_comm (TetraPy.f ω v 1 3) (TetraPy.f ω v 2 1)]; exact hg)]; ring)
    | ring

theorem c_J_13_eps {e ω : K} {v : Fin 4 → K} (h : NoGuard e ω v) : TetraC.J_13 (some e) ω v = TetraPy.J_13 ω v := by
  have hg := h.gd
  unfold TetraPy.gden at hg
  simp only [TetraC.J_13, TetraPy.J_13, TetraPy.sq, TetraPy.gden, c_n_2_eps h, c_n_3_eps h]
  repeat rw [c_f_eps h _ _ (by decide)]
  try first
    | rfl
    | (simp only [if_neg h.n2, if_neg h.n3]; done)
    | (simp only [if_neg h.n2, if_neg h.n3]; ring)
    | (rw [if_neg (by first | exact hg | (rw [add_comm]; exact hg))]; ring)
    | (rw [if_neg (by rw [mul_comm (TetraPy.f ω v 1 3) (TetraPy.f ω v 2 1)]; exact hg)]; ring)
    | ring

theorem c_J_20_eps {e ω : K} {v : Fin 4 → K} (h : NoGuard e ω v) : TetraC.J_20 (some e) ω v = TetraPy.J_20 ω v := by
  have hg := h.gd
  unfold TetraPy.gden at hg
  simp only [TetraC.J_20, TetraPy.J_20, TetraPy.sq, TetraPy.gden, c_n_2_eps h, c_n_3_eps h]
  repeat rw [c_f_eps h _ _ (by decide)]
  try first
    | rfl
    | (simp only [if_neg h.n2, if_neg h.n3]; done)
    | (simp only [if_neg h.n2, if_neg h.n3]; ring)
    | (rw [if_neg (by first | exact hg | (rw [add_comm]; exact hg))]; ring)
    | (rw [if_neg (by rw [mul_comm (TetraPy.f ω v 1 3) (TetraPy.f ω v 2 1)]; exact hg)]; ring)
    | ring

theorem c_J_21_eps {e ω : K} {v : Fin 4 → K} (h : NoGuard e ω v) : TetraC.J_21 (some e) ω v = TetraPy.J_21 ω v := by
  have hg := h.gd
  unfold TetraPy.gden at hg
  simp only [TetraC.J_21, TetraPy.J_21, TetraPy.sq, TetraPy.gden, c_n_2_eps h, c_n_3_eps h]
  repeat rw [c_f_eps h _ _ (by decide)]
  try first
    | rfl
    | (simp only [if_neg h.n2, if_neg h.n3]; done)
    | (simp only [if_neg h.n2, if_neg h.n3]; ring)
    | (rw [if_neg (by first | exact hg | (rw [add_comm]; exact hg))]; ring)
    | (rw [if_neg (by rw [mul_comm (TetraPy.f ω v 1 3) (TetraPy.f ω v 2 1)]; exact hg)]; ring)
    | ring

theorem c_J_22_eps {e ω : K} {v : Fin 4 → K} (h : NoGuard e ω v) : TetraC.J_22 (some e) ω v = TetraPy.J_22 ω v := by
  have hg := h.gd
  unfold TetraPy.gden at hg
  simp only [TetraC.J_22, TetraPy.J_22, TetraPy.sq, TetraPy.gden, c_n_2_eps h, c_n_3_eps h]
  repeat rw [c_f_eps h _ _ (by decide)]
  try first
    | rfl
    | (simp only [if_neg h.n2, if_neg h.n3]; done)
    | (simp only [if_neg h.n2, if_neg h.n3]; ring)
    | (rw [if_neg (by first | exact hg | (rw [add_comm]; exact hg))]; ring)
    | (rw [if_neg (by rw [mul_comm (TetraPy.f ω v 1 3) (TetraPy.f ω v 2 1)]; exact hg)]; ring)
    | ring

theorem c_J_23_eps {e ω : K} {v : Fin 4 → K} (h : NoGuard e ω v) : TetraC.J_23 (some e) ω v = TetraPy.J_23 ω v := by
  have hg := h.gd
  unfold TetraPy.gden at hg
  simp only [TetraC.J_23, TetraPy.J_23, TetraPy.sq, TetraPy.gden, c_n_2_eps h, c_n_3_eps h]
  repeat rw [c_f_eps h _ _ (by decide)]
  try first
    | rfl
    | (simp only [if_neg h.n2, if_neg h.n3]; done)
    | (simp only [if_neg h.n2, if_neg h.n3]; ring)
    | (rw [if_neg (by first | exact hg | (rw [add_comm]; exact hg))]; ring)
    | (rw [if_neg (by rw [mul_comm (TetraPy.f ω v 1 3) (TetraPy.f ω v 2 1)]; exact hg)]; ring)
    | ring

theorem c_J_30_eps {e ω : K} {v : Fin 4 → K} (h : NoGuard e ω v) : TetraC.J_30 (some e) ω v = TetraPy.J_30 ω v := by
  have hg := h.gd
  unfold TetraPy.gden at hg
  simp only [TetraC.J_30, TetraPy.J_30, TetraPy.sq, TetraPy.gden, c_n_2_eps h, c_n_3_eps h]
  repeat rw [c_f_eps h _ _ (by decide)]
  try first
    | rfl
    | (simp only [if_neg h.n2, if_neg h.n3]; done)
    | (simp only [if_neg h.n2, if_neg h.n3]; ring)
    | (rw [if_neg (by first | exact hg | (rw [add_comm]; exact hg))]; ring)
    | (rw [if_neg (by rw [mul_comm (TetraPy.f ω v 1 3) (TetraPy.f ω v 2 1)]; exact hg)]; ring)
    | ring

theorem c_J_31_eps {e ω : K} {v : Fin 4 → K} (h : NoGuard e ω v) : TetraC.J_31 (some e) ω v = TetraPy.J_31 ω v := by
  have hg := h.gd
  unfold TetraPy.gden at hg
  simp only [TetraC.J_31, TetraPy.J_31, TetraPy.sq, TetraPy.gden, c_n_2_eps h, c_n_3_eps h]
  repeat rw [c_f_eps h _ _ (by decide)]
  try first
    | rfl
    | (simp only [if_neg h.n2, if_neg h.n3]; done)
    | (simp only [if_neg h.n2, if_neg h.n3]; ring)
    | (rw [if_neg (by first | exact hg | (rw [add_comm]; exact hg))]; ring)
    | (rw [if_neg (by rw [mul_comm (TetraPy.f ω v 1 3) (TetraPy.f ω v 2 1)]; exact hg)]; ring)
    | ring

theorem c_J_32_eps {e ω : K} {v : Fin 4 → K} (h : NoGuard e ω v) : TetraC.J_32 (some e) ω v = TetraPy.J_32 ω v := by
  have hg := h.gd
  unfold TetraPy.gden at hg
  simp only [TetraC.J_32, TetraPy.J_32, TetraPy.sq, TetraPy.gden, c_n_2_eps h, c_n_3_eps h]
  repeat rw [c_f_eps h _ _ (by decide)]
  try first
    | rfl
    | (simp only [if_neg h.n2, if_neg h.n3]; done)
    | (simp only [if_neg h.n2, if_neg h.n3]; ring)
    | (rw [if_neg (by first | exact hg | (rw [add_comm]; exact hg))]; ring)
    | (rw [if_neg (by rw [mul_comm (TetraPy.f ω v 1 3) (TetraPy.f ω v 2 1)]; exact hg)]; ring)
    | ring

theorem c_J_33_eps {e ω : K} {v : Fin 4 → K} (h : NoGuard e ω v) : TetraC.J_33 (some e) ω v = TetraPy.J_33 ω v := by
  have hg := h.gd
  unfold TetraPy.gden at hg
  simp only [TetraC.J_33, TetraPy.J_33, TetraPy.sq, TetraPy.gden, c_n_2_eps h, c_n_3_eps h]
  repeat rw [c_f_eps h _ _ (by decide)]
  try first
    | rfl
    | (simp only [if_neg h.n2, if_neg h.n3]; done)
    | (simp only [if_neg h.n2, if_neg h.n3]; ring)
    | (rw [if_neg (by first | exact hg | (rw [add_comm]; exact hg))]; ring)
    | (rw [if_neg (by rw [mul_comm (TetraPy.f ω v 1 3) (TetraPy.f ω v 2 1)]; exact hg)]; ring)
    | ring

theorem c_I_10_eps {e ω : K} {v : Fin 4 → K} (h : NoGuard e ω v) : TetraC.I_10 (some e) ω v = TetraPy.I_10 ω v := by
  have hg := h.gd
  unfold TetraPy.gden at hg
  simp only [TetraC.I_10, TetraPy.I_10, TetraPy.sq, TetraPy.gden, c_n_2_eps h, c_n_3_eps h]
  repeat rw [c_f_eps h _ _ (by decide)]
  try first
    | rfl
    | (simp only [if_neg h.n2, if_neg h.n3]; done)
    | (simp only [if_neg h.n2, if_neg h.n3]; ring)
    | (rw [if_neg (by first | exact hg | (rw [add_comm]; exact hg))]; ring)
    | (rw [if_neg (by rw [mul_comm (TetraPy.f ω v 1 3) (TetraPy.f ω v 2 1)]; exact hg)]; ring)
    | ring

theorem c_I_11_eps {e ω : K} {v : Fin 4 → K} (h : NoGuard e ω v) : TetraC.I_11 (some e) ω v = TetraPy.I_11 ω v := by
  have hg := h.gd
  unfold TetraPy.gden at hg
  simp only [TetraC.I_11, TetraPy.I_11, TetraPy.sq, TetraPy.gden, c_n_2_eps h, c_n_3_eps h]
  repeat rw [c_f_eps h _ _ (by decide)]
  try first
    | rfl
    | (simp only [if_neg h.n2, if_neg h.n3]; done)
    | (simp only [if_neg h.n2, if_neg h.n3]; ring)
    | (rw [if_neg (by first | exact hg | (rw [add_comm]; exact hg))]; ring)
    | (rw [if_neg (by rw [mul_comm (TetraPy.f ω v 1 3) (TetraPy.f ω v 2 1)]; exact hg)]; ring)
    | ring

theorem c_I_12_eps {e ω : K} {v : Fin 4 → K} (h : NoGuard e ω v) : TetraC.I_12 (some e) ω v = TetraPy.I_12 ω v := by
  have hg := h.gd
  unfold TetraPy.gden at hg
  simp only [TetraC.I_12, TetraPy.I_12, TetraPy.sq, TetraPy.gden, c_n_2_eps h, c_n_3_eps h]
  repeat rw [c_f_eps h _ _ (by decide)]
  try first
    | rfl
    | (simp only [if_neg h.n2, if_neg h.n3]; done)
    | (simp only [if_neg h.n2, if_neg h.n3]; ring)
    | (rw [if_neg (by first | exact hg | (rw [add_comm]; exact hg))]; ring)
    | (rw [if_neg (by rw [mul_comm (TetraPy.f ω v 1 3) (TetraPy.f ω v 2 1)]; exact hg)]; ring)
    | ring

theorem c_I_13_eps {e ω : K} {v : Fin 4 → K} (h : NoGuard e ω v) : TetraC.I_13 (some e) ω v = TetraPy.I_13 ω v := by
  have hg := h.gd
  unfold TetraPy.gden at hg
  simp only [TetraC.I_13, TetraPy.I_13, TetraPy.sq, TetraPy.gden, c_n_2_eps h, c_n_3_eps h]
  repeat rw [c_f_eps h _ _ (by decide)]
  try first
    | rfl
    | (simp only [if_neg h.n2, if_neg h.n3]; done)
    | (simp only [if_neg h.n2, if_neg h.n3]; ring)
    | (rw [if_neg (by first | exact hg | (rw [add_comm]; exact hg))]; ring)
    | (rw [if_neg (by rw [mul_comm (TetraPy.f ω v 1 3) (TetraPy.f ω v 2 1)]; exact hg)]; ring)
    | ring

theorem c_I_20_eps {e ω : K} {v : Fin 4 → K} (h : NoGuard e ω v) : TetraC.I_20 (some e) ω v = TetraPy.I_20 ω v := by
  have hg := h.gd
  unfold TetraPy.gden at hg
  simp only [TetraC.I_20, TetraPy.I_20, TetraPy.sq, TetraPy.gden, c_n_2_eps h, c_n_3_eps h]
  repeat rw [c_f_eps h _ _ (by decide)]
  try first
    | rfl
    | (simp only [if_neg h.n2, if_neg h.n3]; done)
    | (simp only [if_neg h.n2, if_neg h.n3]; ring)
    | (rw [if_neg (by first | exact hg | (rw [add_comm]; exact hg))]; ring)
    | (rw [if_neg (by rw [mul_comm (TetraPy.f ω v 1 3) (TetraPy.f ω v 2 1)]; exact hg)]; ring)
    | ring

theorem c_I_21_eps {e ω : K} {v : Fin 4 → K} (h : NoGuard e ω v) : TetraC.I_21 (some e) ω v = TetraPy.I_21 ω v := by
  have hg := h.gd
  unfold TetraPy.gden at hg
  simp only [TetraC.I_21, TetraPy.I_21, TetraPy.sq, TetraPy.gden, c_n_2_eps h, c_n_3_eps h]
  repeat rw [c_f_eps h _ _ (by decide)]
  try first
    | rfl
    | (simp only [if_neg h.n2, if_neg h.n3]; done)
    | (simp only [if_neg h.n2, if_neg h.n3]; ring)
    | (rw [if_neg (by first | exact hg | (rw [add_comm]; exact hg))]; ring)
    | (rw [if_neg (by rw [mul_comm (TetraPy.f ω v 1 3) (TetraPy.f ω v 2 1)]; exact hg)]; ring)
    | ring

theorem c_I_22_eps {e ω : K} {v : Fin 4 → K} (h : NoGuard e ω v) : TetraC.I_22 (some e) ω v = TetraPy.I_22 ω v := by
  have hg := h.gd
  unfold TetraPy.gden at hg
  simp only [TetraC.I_22, TetraPy.I_22, TetraPy.sq, TetraPy.gden, c_n_2_eps h, c_n_3_eps h]
  repeat rw [c_f_eps h _ _ (by decide)]
  try first
    | rfl
    | (simp only [if_neg h.n2, if_neg h.n3]; done)
    | (simp only [if_neg h.n2, if_neg h.n3]; ring)
    | (rw [if_neg (by first | exact hg | (rw [add_comm]; exact hg))]; ring)
    | (rw [if_neg (by rw [mul_comm (TetraPy.f ω v 1 3) (TetraPy.f ω v 2 1)]; exact hg)]; ring)
    | ring

theorem c_I_23_eps {e ω : K} {v : Fin 4 → K} (h : NoGuard e ω v) : TetraC.I_23 (some e) ω v = TetraPy.I_23 ω v := by
  have hg := h.gd
  unfold TetraPy.gden at hg
  simp only [TetraC.I_23, TetraPy.I_23, TetraPy.sq, TetraPy.gden, c_n_2_eps h, c_n_3_eps h]
  repeat rw [c_f_eps h _ _ (by decide)]
  try first
    | rfl
    | (simp only [if_neg h.n2, if_neg h.n3]; done)
    | (simp only [if_neg h.n2, if_neg h.n3]; ring)
    | (rw [if_neg (by first | exact hg | (rw [add_comm]; exact hg))]; ring)
    | (rw [if_neg (by rw [mul_comm (TetraPy.f ω v 1 3) (TetraPy.f ω v 2 1)]; exact hg)]; ring)
    | ring

theorem c_I_30_eps {e ω : K} {v : Fin 4 → K} (h : NoGuard e ω v) : TetraC.I_30 (some e) ω v = TetraPy.I_30 ω v := by
  have hg := h.gd
  unfold TetraPy.gden at hg
  simp only [TetraC.I_30, TetraPy.I_30, TetraPy.sq, TetraPy.gden, c_n_2_eps h, c_n_3_eps h]
  repeat rw [c_f_eps h _ _ (by decide)]
  try first
    | rfl
    | (simp only [if_neg h.n2, if_neg h.n3]; done)
    | (simp only [if_neg h.n2, if_neg h.n3]; ring)
    | (rw [if_neg (by first | exact hg | (rw [add_comm]; exact hg))]; ring)
    | (rw [if_neg (by rw [mul_comm (TetraPy.f ω v 1 3) (TetraPy.f ω v 2 1)]; exact hg)]; ring)
    | ring

theorem c_I_31_eps {e ω : K} {v : Fin 4 → K} (h : NoGuard e ω v) : TetraC.I_31 (some e) ω v = TetraPy.I_31 ω v := by
  have hg := h.gd
  unfold TetraPy.gden at hg
  simp only [TetraC.I_31, TetraPy.I_31, TetraPy.sq, TetraPy.gden, c_n_2_eps h, c_n_3_eps h]
  repeat rw [c_f_eps h _ _ (by decide)]
  try first
    | rfl
    | (simp only [if_neg h.n2, if_neg h.n3]; done)
    | (simp only [if_neg h.n2, if_neg h.n3]; ring)
    | (rw [if_neg (by first | exact hg | (rw [add_comm]; exact hg))]; ring)
    | (rw [if_neg (by rw [mul_comm (TetraPy.f ω v 1 3) (TetraPy.f ω v 2 1)]; exact hg)]; ring)
    | ring

theorem c_I_32_eps {e ω : K} {v : Fin 4 → K} (h : NoGuard e ω v) : TetraC.I_32 (some e) ω v = TetraPy.I_32 ω v := by
  have hg := h.gd
  unfold TetraPy.gden at hg
  simp only [TetraC.I_32, TetraPy.I_32, TetraPy.sq, TetraPy.gden, c_n_2_eps h, c_n_3_eps h]
  repeat rw [c_f_eps h _ _ (by decide)]
  try first
    | rfl
    | (simp only [if_neg h.n2, if_neg h.n3]; done)
    | (simp only [if_neg h.n2, if_neg h.n3]; ring)
    | (rw [if_neg (by first | exact hg | (rw [add_comm]; exact hg))]; ring)
    | (rw [if_neg (by rw [mul_comm (TetraPy.f ω v 1 3) (TetraPy.f ω v 2 1)]; exact hg)]; ring)
    | ring

theorem c_I_33_eps {e ω : K} {v : Fin 4 → K} (h : NoGuard e ω v) : TetraC.I_33 (some e) ω v = TetraPy.I_33 ω v := by
  have hg := h.gd
  unfold TetraPy.gden at hg
  simp only [TetraC.I_33, TetraPy.I_33, TetraPy.sq, TetraPy.gden, c_n_2_eps h, c_n_3_eps h]
  repeat rw [c_f_eps h _ _ (by decide)]
  try first
    | rfl
    | (simp only [if_neg h.n2, if_neg h.n3]; done)
    | (simp only [if_neg h.n2, if_neg h.n3]; ring)
    | (rw [if_neg (by first | exact hg | (rw [add_comm]; exact hg))]; ring)
    | (rw [if_neg (by rw [mul_comm (TetraPy.f ω v 1 3) (TetraPy.f ω v 2 1)]; exact hg)]; ring)
    | ring

theorem c_g_1_eps {e ω : K} {v : Fin 4 → K} (h : NoGuard e ω v) : TetraC.g_1 (some e) ω v = TetraPy.g_1 ω v := by
  have hg := h.gd
  unfold TetraPy.gden at hg
  simp only [TetraC.g_1, TetraPy.g_1, TetraPy.sq, TetraPy.gden, c_n_2_eps h, c_n_3_eps h]
  repeat rw [c_f_eps h _ _ (by decide)]
  try first
    | rfl
    | (simp only [if_neg h.n2, if_neg h.n3]; done)
    | (simp only [if_neg h.n2, if_neg h.n3]; ring)
    | (rw [if_neg (by first | exact hg | (rw [add_comm]; exact hg))]; ring)
    | (rw [if_neg (by rw [mul_comm (TetraPy.f ω v 1 3) (TetraPy.f ω v 2 1)]; exact hg)]; ring)
    | ring

theorem c_g_2_eps {e ω : K} {v : Fin 4 → K} (h : NoGuard e ω v) : TetraC.g_2 (some e) ω v = TetraPy.g_2 ω v := by
  have hg := h.gd
  unfold TetraPy.gden at hg
  simp only [TetraC.g_2, TetraPy.g_2, TetraPy.sq, TetraPy.gden, c_n_2_eps h, c_n_3_eps h]
  repeat rw [c_f_eps h _ _ (by decide)]
  try first
    | rfl
    | (simp only [if_neg h.n2, if_neg h.n3]; done)
    | (simp only [if_neg h.n2, if_neg h.n3]; ring)
    | (rw [if_neg (by first | exact hg | (rw [add_comm]; exact hg))]; ring)
    | (rw [if_neg (by rw [mul_comm (TetraPy.f ω v 1 3) (TetraPy.f ω v 2 1)]; exact hg)]; ring)
    | ring

theorem c_g_3_eps {e ω : K} {v : Fin 4 → K} (h : NoGuard e ω v) : TetraC.g_3 (some e) ω v = TetraPy.g_3 ω v := by
  have hg := h.gd
  unfold TetraPy.gden at hg
  simp only [TetraC.g_3, TetraPy.g_3, TetraPy.sq, TetraPy.gden, c_n_2_eps h, c_n_3_eps h]
  repeat rw [c_f_eps h _ _ (by decide)]
  try first
    | rfl
    | (simp only [if_neg h.n2, if_neg h.n3]; done)
    | (simp only [if_neg h.n2, if_neg h.n3]; ring)
    | (rw [if_neg (by first | exact hg | (rw [add_comm]; exact hg))]; ring)
    | (rw [if_neg (by rw [mul_comm (TetraPy.f ω v 1 3) (TetraPy.f ω v 2 1)]; exact hg)]; ring)
    | ring

end ceps

end PhononModel.TetraLemmas
