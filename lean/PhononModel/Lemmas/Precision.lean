import PhononModel.Model.Precision
import Mathlib.Data.Rat.Floor
import Mathlib.Tactic.Linarith
import Mathlib.Tactic.Ring
/-!
Helper lemmas for property C16 (decimal print/parse): the printed integer is within one half
of the scaled value.
-/
namespace PhononModel.C16
open PhononModel.Prec

theorem floor_bounds (r : ℚ) : ((Rat.floor r : ℤ) : ℚ) ≤ r ∧ r < (Rat.floor r : ℤ) + 1 := by
  have h : Rat.floor r = ⌊r⌋ := rfl
  rw [h]
  exact ⟨Int.floor_le r, Int.lt_floor_add_one r⟩

theorem printK_close (k : Nat) (x : ℚ) : |((printK k x : ℤ) : ℚ) - x * 10 ^ k| ≤ 1 / 2 := by
  obtain ⟨h1, h2⟩ := floor_bounds (x * 10 ^ k)
  unfold printK
  simp only
  split
  · next h => rw [abs_le]; constructor <;> linarith
  · split
    · next h h' => push_cast; rw [abs_le]; constructor <;> linarith
    · next h h' =>
      have hd : x * 10 ^ k - (Rat.floor (x * 10 ^ k) : ℤ) = 1 / 2 := le_antisymm (not_lt.mp h') (not_lt.mp h)
      split
      · rw [abs_le]; constructor <;> linarith
      · push_cast; rw [abs_le]; constructor <;> linarith

theorem digitsFuel_pos (f n : Nat) : 1 ≤ digitsFuel f n := by
  cases f with
  | zero => simp [digitsFuel]
  | succ f => unfold digitsFuel; split <;> omega

theorem digitsFuel_le (f : Nat) : ∀ (n d : Nat), n ≤ f → (digitsFuel f n ≤ d + 1 ↔ n < 10 ^ (d + 1))
  := by
  induction f with
  | zero =>
    intro n d hn
    have : n = 0 := Nat.le_zero.mp hn
    subst this
    simp [digitsFuel]
  | succ f ih =>
    intro n d hn
    unfold digitsFuel
    by_cases h10 : n < 10
    · simp only [h10, if_true]
      constructor
      · intro _; exact Nat.lt_of_lt_of_le h10 (by
          calc 10 = 10 ^ 1 := by norm_num
            _ ≤ 10 ^ (d + 1) := Nat.pow_le_pow_right (by norm_num) (by omega))
      · intro _; omega
    · simp only [h10, if_false]
      have hdiv : n / 10 ≤ f := by omega
      cases d with
      | zero =>
        have h1 := digitsFuel_pos f (n / 10)
        constructor
        · intro h; omega
        · intro h; simp at h; omega
      | succ d =>
        have := ih (n / 10) d hdiv
        constructor
        · intro h
          have h' : digitsFuel f (n / 10) ≤ d + 1 := by omega
          have := this.mp h'
          have e : 10 ^ (d + 1 + 1) = 10 ^ (d + 1) * 10 := by ring
          rw [e]; omega
        · intro h
          have e : 10 ^ (d + 1 + 1) = 10 ^ (d + 1) * 10 := by ring
          rw [e] at h
          have : n / 10 < 10 ^ (d + 1) := by omega
          have := (ih (n / 10) d hdiv).mpr this
          omega

theorem digits_le (n d : Nat) : digits n ≤ d + 1 ↔ n < 10 ^ (d + 1) :=
  digitsFuel_le n n d (Nat.le_refl _)

/-- the printed field leaves a blank in front (so that a neighbour written back to back stays
separated) iff the integer part has at most `W - k - 2 - sign` digits -/
theorem fits_iff (W k : Nat) (x : ℚ) (d : Nat)
    (hW : W = (if x < 0 then 1 else 0) + (d + 1) + 1 + k + 1) :
    fits W k x = true ↔ (printK k x).natAbs / 10 ^ k < 10 ^ (d + 1) := by
  unfold fits printedLen
  simp only [decide_eq_true_eq]
  rw [← digits_le, hW]
  constructor <;> intro h <;> omega

end PhononModel.C16
