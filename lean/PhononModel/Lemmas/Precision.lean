import PhononModel.Model.Precision
import Mathlib.Data.Rat.Floor
import Mathlib.Tactic.Linarith
/-!
Helper lemmas for property C16 (decimal print/parse): the printed integer is within one half
of the scaled value.
-/
namespace PhononModel.C16
open PhononModel.Prec

theorem floor_bounds (r : ℚ) : ((Rat.floor r : ℤ) : ℚ) ≤ r ∧ r < (Rat.floor r : ℤ) + 1 := by
  have h : Rat.floor r = ⌊r⌋ := rfl
  rw [h]
  exact ⟨Int.floor_le r, Int.lt_floor_add_one r⟩

theorem printK_close (k : Nat) (x : ℚ) : |((printK k x : ℤ) : ℚ) - x * 10 ^ k| ≤ 1 / 2 := by
  obtain ⟨h1, h2⟩ := floor_bounds (x * 10 ^ k)
  unfold printK
  simp only
  split
  · next h => rw [abs_le]; constructor <;> linarith
  · split
    · next h h' => push_cast; rw [abs_le]; constructor <;> linarith
    · next h h' =>
      have hd : x * 10 ^ k - (Rat.floor (x * 10 ^ k) : ℤ) = 1 / 2 := le_antisymm (not_lt.mp h') (not_lt.mp h)
      split
      · rw [abs_le]; constructor <;> linarith
      · push_cast; rw [abs_le]; constructor <;> linarith

end PhononModel.C16
