import PhononModel.Model.CrystalEquiv
import PhononModel.Lemmas.Basic
import Mathlib.LinearAlgebra.Matrix.NonsingularInverse
import Mathlib.LinearAlgebra.Matrix.Determinant.Basic
import Mathlib.Data.List.Perm.Basic
import Mathlib.Tactic.LinearCombination
import Mathlib.Tactic.Ring
/-!
Soundness of the crystal-equivalence checker and the laws of the stable grouping.
-/
namespace PhononModel.Crystal
open Matrix

/-! ### atoms -/

theorem frac_intDiff (x y : Rat) (h : frac x = frac y) : IntDiff x y := by
  refine ⟨x.floor - y.floor, ?_⟩
  unfold frac at h
  push_cast
  linear_combination h

theorem key_sameSite (a b : Atom) (h : a.key = b.key) : SameSite a b := by
  unfold Atom.key at h
  simp only [Atom.mk.injEq, Prod.mk.injEq] at h
  exact ⟨h.1, h.2.1, frac_intDiff _ _ h.2.2.1, frac_intDiff _ _ h.2.2.2.1, frac_intDiff _ _ h.2.2.2.2⟩

theorem allPairs_of_map_key : ∀ (l l₂ : List Atom), l.map Atom.key = l₂.map Atom.key →
    AllPairs SameSite l l₂
  | [], [], _ => .nil
  | [], _ :: _, h => by simp at h
  | _ :: _, [], h => by simp at h
  | a :: l, b :: l₂, h => by
    simp only [List.map_cons, List.cons.injEq] at h
    exact .cons (key_sameSite a b h.1) (allPairs_of_map_key l l₂ h.2)

/-- a permutation of the images lifts to a permutation of the originals -/
theorem perm_map_lift {α β : Type} (f : α → β) {m₁ m₂ : List β} (p : m₁.Perm m₂) :
    ∀ l₁ : List α, l₁.map f = m₁ → ∃ l : List α, l.Perm l₁ ∧ l.map f = m₂ := by
  induction p with
  | nil =>
    intro l₁ h
    exact ⟨[], by rw [List.map_eq_nil_iff.mp h], rfl⟩
  | cons x _ ih =>
    intro l₁ h
    obtain ⟨a, l₁', rfl, ha, hl⟩ := List.map_eq_cons_iff.mp h
    obtain ⟨l', hp, hm⟩ := ih l₁' hl
    exact ⟨a :: l', hp.cons a, by simp [ha, hm]⟩
  | swap x y m =>
    intro l₁ h
    obtain ⟨a, l₁', rfl, ha, hl⟩ := List.map_eq_cons_iff.mp h
    obtain ⟨b, l₁'', rfl, hb, hl'⟩ := List.map_eq_cons_iff.mp hl
    exact ⟨b :: a :: l₁'', List.Perm.swap a b l₁'', by simp [ha, hb, hl']⟩
  | trans _ _ ih₁ ih₂ =>
    intro l₁ h
    obtain ⟨l, hp, hm⟩ := ih₁ l₁ h
    obtain ⟨l', hp', hm'⟩ := ih₂ l hm
    exact ⟨l', hp'.trans hp, hm'⟩

theorem insertSorted_perm {α : Type} (le : α → α → Bool) (a : α) :
    ∀ l : List α, (insertSorted le a l).Perm (a :: l)
  | [] => List.Perm.refl _
  | b :: t => by
    unfold insertSorted
    split
    · exact List.Perm.refl _
    · exact ((insertSorted_perm le a t).cons b).trans (List.Perm.swap a b t)

theorem isort_perm {α : Type} (le : α → α → Bool) : ∀ l : List α, (isort le l).Perm l
  | [] => List.Perm.refl _
  | a :: t => (insertSorted_perm le a _).trans ((isort_perm le t).cons a)

theorem atoms_of_sortedKeys (l₁ l₂ : List Atom) (h : sortedKeys l₁ = sortedKeys l₂) :
    ∃ l : List Atom, l.Perm l₁ ∧ AllPairs SameSite l l₂ := by
  unfold sortedKeys at h
  have p : (l₁.map Atom.key).Perm (l₂.map Atom.key) := by
    have a := isort_perm Atom.le (l₁.map Atom.key)
    have b := isort_perm Atom.le (l₂.map Atom.key)
    rw [h] at a
    exact a.symm.trans b
  obtain ⟨l, hp, hm⟩ := perm_map_lift Atom.key p l₁ rfl
  exact ⟨l, hp, allPairs_of_map_key l l₂ hm⟩

/-! ### lattice -/

theorem mat3Eq_iff (A B : Mat3) : mat3Eq A B = true ↔ ∀ i j, A i j = B i j := by
  unfold mat3Eq
  simp [List.all_eq_true]

/-- view as a Mathlib matrix -/
def toM (L : Mat3) : Matrix (Fin 3) (Fin 3) ℚ := Matrix.of L

theorem gram_toM (L : Mat3) (i j : Fin 3) : gram L i j = (toM L * (toM L)ᵀ) i j := by
  unfold gram toM
  rw [sumFin_eq, Matrix.mul_apply]
  rfl

theorem mul3_toM (A B : Mat3) (i j : Fin 3) : mul3 A B i j = (toM A * toM B) i j := by
  unfold mul3 toM
  rw [sumFin_eq, Matrix.mul_apply]
  rfl

theorem det3_toM (L : Mat3) : det3 L = (toM L).det := by
  unfold det3 toM
  rw [Matrix.det_fin_three]
  simp only [Matrix.of_apply]

theorem lattice_of_gram (L₁ L₂ : Mat3) (hdet : det3 L₁ ≠ 0) (hg : ∀ i j, gram L₁ i j = gram L₂ i j) :
    ∃ Q : Mat3, Orthogonal Q ∧ ∀ i j, L₂ i j = mul3 L₁ Q i j := by
  set A := toM L₁ with hA
  set B := toM L₂ with hB
  have hAB : A * Aᵀ = B * Bᵀ := by
    ext i j
    rw [← gram_toM, ← gram_toM]; exact hg i j
  have hu : IsUnit A.det := by
    rw [← det3_toM] ; exact isUnit_iff_ne_zero.mpr hdet
  have hut : IsUnit (Aᵀ).det := by rw [Matrix.det_transpose]; exact hu
  let Q : Matrix (Fin 3) (Fin 3) ℚ := A⁻¹ * B
  have hmul : A * Q = B := by
    show A * (A⁻¹ * B) = B
    rw [← Matrix.mul_assoc, Matrix.mul_nonsing_inv A hu, Matrix.one_mul]
  have horth : Q * Qᵀ = 1 := by
    show A⁻¹ * B * (A⁻¹ * B)ᵀ = 1
    rw [Matrix.transpose_mul, Matrix.transpose_nonsing_inv]
    calc A⁻¹ * B * (Bᵀ * Aᵀ⁻¹) = A⁻¹ * (B * Bᵀ) * Aᵀ⁻¹ := by simp only [Matrix.mul_assoc]
      _ = A⁻¹ * (A * Aᵀ) * Aᵀ⁻¹ := by rw [hAB]
      _ = (A⁻¹ * A) * (Aᵀ * Aᵀ⁻¹) := by simp only [Matrix.mul_assoc]
      _ = 1 := by rw [Matrix.nonsing_inv_mul A hu, Matrix.mul_nonsing_inv Aᵀ hut, Matrix.one_mul]
  refine ⟨fun i j => Q i j, ?_, ?_⟩
  · intro i j
    have := congrFun (congrFun horth i) j
    rw [Matrix.mul_apply, Matrix.one_apply] at this
    rw [sumFin_eq]
    simpa [Matrix.transpose_apply] using this
  · intro i j
    have := congrFun (congrFun hmul i) j
    rw [mul3_toM]
    exact this.symm

/-! ### the checker is sound -/

theorem checkEquivWith_sound (G₂ : Mat3) (c₁ : Cell) (L₂ : Mat3) (atoms₂ : List Atom)
    (hG : ∀ i j, gram L₂ i j = G₂ i j) (h : checkEquivWith G₂ c₁ atoms₂ = true) :
    Equiv c₁ ⟨L₂, atoms₂⟩ := by
  unfold checkEquivWith at h
  simp only [Bool.and_eq_true, bne_iff_ne, ne_eq, beq_iff_eq] at h
  obtain ⟨⟨hdet, hg⟩, hs⟩ := h
  rw [mat3Eq_iff] at hg
  exact ⟨lattice_of_gram c₁.lattice L₂ hdet (fun i j => (hg i j).trans (hG i j).symm),
    atoms_of_sortedKeys c₁.atoms atoms₂ hs⟩

theorem checkEquiv_sound (c₁ c₂ : Cell) (h : checkEquiv c₁ c₂ = true) : Equiv c₁ c₂ :=
  checkEquivWith_sound (gram c₂.lattice) c₁ c₂.lattice c₂.atoms (fun _ _ => rfl) h

/-! ### stable grouping -/

theorem firstOccur_mem (l : List Nat) (s : Nat) : s ∈ firstOccur l ↔ s ∈ l := by
  induction l with
  | nil => simp [firstOccur]
  | cons a t ih =>
    simp only [firstOccur, List.mem_cons, List.mem_filter, bne_iff_ne, ne_eq, ih]
    constructor
    · rintro (h | ⟨h, _⟩)
      · exact Or.inl h
      · exact Or.inr h
    · rintro (h | h)
      · exact Or.inl h
      · by_cases hs : s = a
        · exact Or.inl hs
        · exact Or.inr ⟨h, hs⟩

theorem firstOccur_nodup (l : List Nat) : (firstOccur l).Nodup := by
  induction l with
  | nil => simp [firstOccur]
  | cons a t ih =>
    simp only [firstOccur, List.nodup_cons, List.mem_filter, bne_iff_ne, ne_eq, not_true_eq_false,
      and_false, not_false_eq_true, true_and]
    exact ih.filter _

/-- grouping a list by a duplicate-free key list that covers all its keys is a permutation -/
theorem group_perm {β : Type} (ks : List Nat) (hnd : ks.Nodup) (l : List (Nat × β))
    (hcov : ∀ a ∈ l, a.1 ∈ ks) :
    (ks.flatMap (fun s => l.filter (fun a => a.1 == s))).Perm l := by
  induction ks generalizing l with
  | nil =>
    have : l = [] := List.eq_nil_iff_forall_not_mem.mpr (fun a ha => by simpa using hcov a ha)
    subst this; simp
  | cons s ks ih =>
    rw [List.flatMap_cons]
    have hnd' := (List.nodup_cons.mp hnd)
    let l' := l.filter (fun a => !(a.1 == s))
    have hl' : ∀ a ∈ l', a.1 ∈ ks := by
      intro a ha
      have ha' := List.mem_filter.mp ha
      have hne : a.1 ≠ s := by simpa using ha'.2
      have := hcov a ha'.1
      rcases List.mem_cons.mp this with h | h
      · exact absurd h hne
      · exact h
    have hrest : (ks.flatMap (fun s' => l.filter (fun a => a.1 == s'))) =
        (ks.flatMap (fun s' => l'.filter (fun a => a.1 == s'))) := by
      apply List.flatMap_congr
      intro s' hs'
      have hne : s' ≠ s := fun h => hnd'.1 (h ▸ hs')
      show l.filter _ = (l.filter _).filter _
      rw [List.filter_filter]
      apply List.filter_congr
      intro a _
      by_cases h : a.1 = s'
      · simp [h, hne]
      · simp [h]
    rw [hrest]
    exact ((List.Perm.refl _).append (ih hnd'.2 l' hl')).trans (List.filter_append_perm _ l)

theorem stableGroup_perm {β : Type} (l : List (Nat × β)) : (stableGroup l).Perm l := by
  unfold stableGroup
  apply group_perm _ (firstOccur_nodup _)
  intro a ha
  rw [firstOccur_mem]
  exact List.mem_map_of_mem ha

theorem group_filter {β : Type} (ks : List Nat) (hnd : ks.Nodup) (l : List (Nat × β)) (s : Nat)
    (hcov : (∃ a ∈ l, a.1 = s) → s ∈ ks) :
    (ks.flatMap (fun s' => l.filter (fun a => a.1 == s'))).filter (fun a => a.1 == s) =
      l.filter (fun a => a.1 == s) := by
  induction ks with
  | nil =>
    simp only [List.flatMap_nil, List.filter_nil]
    symm
    rw [List.filter_eq_nil_iff]
    intro a ha h
    have : s ∈ ([] : List Nat) := hcov ⟨a, ha, by simpa using h⟩
    simp at this
  | cons k ks ih =>
    have hnd' := List.nodup_cons.mp hnd
    rw [List.flatMap_cons, List.filter_append, List.filter_filter]
    by_cases hk : k = s
    · subst hk
      have h1 : (l.filter fun a => (a.1 == k && a.1 == k)) = l.filter (fun a => a.1 == k) := by
        apply List.filter_congr; intro a _; simp
      have h2 : (ks.flatMap (fun s' => l.filter (fun a => a.1 == s'))).filter (fun a => a.1 == k) = [] := by
        rw [List.filter_eq_nil_iff]
        intro a ha
        obtain ⟨s', hs', ha'⟩ := List.mem_flatMap.mp ha
        have : a.1 = s' := by simpa using (List.mem_filter.mp ha').2
        intro h
        have : s' = k := by rw [← this]; simpa using h
        exact hnd'.1 (this ▸ hs')
      rw [h1, h2, List.append_nil]
    · have h1 : (l.filter fun a => (a.1 == s && a.1 == k)) = [] := by
        rw [List.filter_eq_nil_iff]
        intro a _ h
        simp only [Bool.and_eq_true, beq_iff_eq] at h
        exact hk (h.2.symm.trans h.1)
      rw [h1, List.nil_append]
      apply ih hnd'.2
      intro h
      rcases List.mem_cons.mp (hcov h) with h' | h'
      · exact absurd h'.symm hk
      · exact h'

/-- inside each species the original order is kept, and all atoms of the species are there -/
theorem stableGroup_stable {β : Type} (l : List (Nat × β)) (s : Nat) :
    (stableGroup l).filter (fun a => a.1 == s) = l.filter (fun a => a.1 == s) := by
  unfold stableGroup
  apply group_filter _ (firstOccur_nodup _)
  rintro ⟨a, ha, rfl⟩
  rw [firstOccur_mem]
  exact List.mem_map_of_mem ha

/-- species appear in first-occurrence order, each as one contiguous block -/
theorem stableGroup_species {β : Type} (l : List (Nat × β)) :
    (stableGroup l).map (·.1) =
      (firstOccur (l.map (·.1))).flatMap (fun s => List.replicate ((l.map (·.1)).count s) s) := by
  unfold stableGroup
  rw [List.map_flatMap]
  apply List.flatMap_congr
  intro s _
  rw [List.eq_replicate_iff]
  constructor
  · rw [List.length_map, List.count_eq_countP, List.countP_eq_length_filter, List.filter_map,
      List.length_map]
    rfl
  · intro b hb
    obtain ⟨a, ha, rfl⟩ := List.mem_map.mp hb
    simpa using (List.mem_filter.mp ha).2

end PhononModel.Crystal
