import PhononModel.Model.ShortestPairs

/-!
Dense ⇄ sparse conversion of shortest-vector tables for ARBITRARY tables (not only those the kernels
produce): a dense table is read through its address column, so tables whose blocks are stored in
another order, or whose multiplicity rows are sub-selected or permuted, describe the same sets after
conversion (`dense_to_sparse_svecs`), and back (`sparse_to_dense_svecs`).  Core Lean only.
-/
namespace PhononModel.ShortestPairs

/-- the vectors of pair `k` as a dense table stores them: `svecs[address : address + count]` -/
def Dense.read (d : Dense) (k : Nat) : Option (List (V3 Rat)) :=
  d.multi[k]?.map fun ma => (d.svecs.drop ma.2).take ma.1

/-- the vectors of pair `k` as a sparse table stores them: the first `count` of the 27 slots -/
def Sparse.read (s : Sparse) (k : Nat) : Option (List (V3 Rat)) :=
  s.cells[k]?.map fun sm => sm.1.take sm.2

/-- a dense table the sparse format can hold: at most 27 vectors per pair, address ranges inside the vector array -/
def Dense.wf (d : Dense) : Prop := ∀ p ∈ d.multi, p.1 ≤ 27 ∧ p.2 + p.1 ≤ d.svecs.length

/-- a sparse table: the count does not exceed the number of slots -/
def Sparse.wf (s : Sparse) : Prop := ∀ c ∈ s.cells, c.2 ≤ c.1.length

theorem pad27_take (l : List (V3 Rat)) : (pad27 l).take l.length = l := by
  unfold pad27
  simp

theorem pad27_length_ge (l : List (V3 Rat)) : l.length ≤ (pad27 l).length := by
  unfold pad27
  simp

theorem length_read_block (svecs : List (V3 Rat)) (m a : Nat) (h : a + m ≤ svecs.length) :
    ((svecs.drop a).take m).length = m := by
  simp only [List.length_take, List.length_drop]
  omega

/-- `dense_to_sparse_svecs` reads every pair through its address: any well-formed dense table and its
sparse conversion hold the same vectors, in the same order, for every pair. -/
theorem denseToSparse_read (d : Dense) (hd : d.wf) (k : Nat) : (denseToSparse d).read k = d.read k := by
  unfold Sparse.read Dense.read denseToSparse
  simp only [List.getElem?_map]
  cases hk : d.multi[k]? with
  | none => rfl
  | some ma =>
    have hmem : ma ∈ d.multi := List.mem_of_getElem? hk
    obtain ⟨_, h2⟩ := hd ma hmem
    simp only [Option.map_some]
    congr 1
    have hl := length_read_block d.svecs ma.1 ma.2 h2
    have := pad27_take ((d.svecs.drop ma.2).take ma.1)
    rw [hl] at this
    exact this

theorem denseToSparse_wf (d : Dense) (hd : d.wf) : (denseToSparse d).wf := by
  intro c hc
  unfold denseToSparse at hc
  simp only [List.mem_map] at hc
  obtain ⟨ma, hma, rfl⟩ := hc
  obtain ⟨_, h2⟩ := hd ma hma
  have hl := length_read_block d.svecs ma.1 ma.2 h2
  have := pad27_length_ge ((d.svecs.drop ma.2).take ma.1)
  simp only at this ⊢
  omega

/-- the running-address loop of `sparse_to_dense_svecs`, started behind any prefix `pre` of already
written vectors: reading pair `k` through the address it records gives the first `count` slots of cell `k`. -/
theorem sparseToDenseAux_read (cells : List (List (V3 Rat) × Nat)) (hw : ∀ c ∈ cells, c.2 ≤ c.1.length) :
    ∀ (pre : List (V3 Rat)) (k : Nat),
      ((sparseToDenseAux cells pre.length).2[k]?).map
          (fun ma => ((pre ++ (sparseToDenseAux cells pre.length).1).drop ma.2).take ma.1) =
        cells[k]?.map (fun sm => sm.1.take sm.2) := by
  induction cells with
  | nil => intro pre k; simp [sparseToDenseAux]
  | cons c rest ih =>
    intro pre k
    obtain ⟨slots, m⟩ := c
    have hm : m ≤ slots.length := hw (slots, m) (List.mem_cons_self ..)
    have hrest : ∀ c ∈ rest, c.2 ≤ c.1.length := fun c hc => hw c (List.mem_cons_of_mem _ hc)
    have hlen : (pre ++ slots.take m).length = pre.length + m := by
      simp only [List.length_append, List.length_take]; omega
    cases k with
    | zero =>
      simp only [sparseToDenseAux, List.getElem?_cons_zero, Option.map_some]
      congr 1
      rw [List.drop_append_of_le_length (Nat.le_refl _), List.drop_length, List.nil_append]
      have : (slots.take m).length = m := by simp only [List.length_take]; omega
      rw [List.take_append_of_le_length (by omega)]
      rw [List.take_of_length_le (by omega)]
    | succ k =>
      simp only [sparseToDenseAux, List.getElem?_cons_succ]
      have := ih hrest (pre ++ slots.take m) k
      rw [hlen] at this
      rw [← List.append_assoc]
      exact this

/-- `sparse_to_dense_svecs`: the dense table it builds holds, for every pair, the vectors of the sparse table. -/
theorem sparseToDense_read (s : Sparse) (hs : s.wf) (k : Nat) : (sparseToDense s).read k = s.read k := by
  have := sparseToDenseAux_read s.cells hs [] k
  simpa [Dense.read, Sparse.read, sparseToDense] using this

/-- round trip through the sparse format for an arbitrary well-formed dense table (any block order, any
selection or order of pairs): every pair reads the same vectors. -/
theorem sparseToDense_denseToSparse_read (d : Dense) (hd : d.wf) (k : Nat) :
    (sparseToDense (denseToSparse d)).read k = d.read k := by
  rw [sparseToDense_read _ (denseToSparse_wf d hd), denseToSparse_read d hd]

/-- a dense table whose two blocks are stored in reverse order (addresses 2 and 0): well-formed, and the
conversion reads pair 0 as `[v2]` and pair 1 as `[v0, v1]` -/
example :
    let v0 : V3 Rat := ⟨1, 0, 0⟩; let v1 : V3 Rat := ⟨0, 1, 0⟩; let v2 : V3 Rat := ⟨0, 0, 1⟩
    let d : Dense := { svecs := [v0, v1, v2], multi := [(1, 2), (2, 0)] }
    (denseToSparse d).read 0 = some [v2] ∧ (denseToSparse d).read 1 = some [v0, v1] ∧
      (sparseToDense (denseToSparse d)).multi = [(1, 0), (2, 1)] := by decide

end PhononModel.ShortestPairs
