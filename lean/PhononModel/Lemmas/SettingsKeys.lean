import PhononModel.Model.SettingsKeys
import Mathlib.Data.Nat.Digits.Defs
import Mathlib.Data.Rat.Defs
import Mathlib.Tactic.NormNum
import Mathlib.Tactic.IntervalCases
/-!
Helper lemmas for the per-key parsers of C18 (`Model/SettingsKeys.lean`): decimal representation round trip,
splitting lemmas, `chunk3`.
-/
namespace PhononModel.SettingsKeys

/-- the character of a decimal digit -/
def digitChar (d : Nat) : Char := Char.ofNat (48 + d)

/-- the decimal representation of a natural number (what `str(n)` prints) -/
def decimal (n : Nat) : List Char := if n = 0 then ['0'] else (Nat.digits 10 n).reverse.map digitChar

/-- tokens joined by single blanks -/
def joinSp : List (List Char) → List Char
  | [] => []
  | [t] => t
  | t :: r => t ++ ' ' :: joinSp r

theorem digit?_digitChar (d : Nat) (h : d < 10) : digit? (digitChar d) = some d := by
  interval_cases d <;> decide

theorem digitChar_plain (d : Nat) (h : d < 10) :
    digitChar d ≠ '.' ∧ digitChar d ≠ 'e' ∧ digitChar d ≠ 'E' ∧ digitChar d ≠ '/' ∧ digitChar d ≠ '-' ∧ digitChar d ≠ '+' ∧
    isSpace (digitChar d) = false := by
  interval_cases d <;> decide

theorem natAcc_append (acc : Nat) (cs : List Char) (c : Char) :
    natAcc acc (cs ++ [c]) = (natAcc acc cs).bind (fun v => (digit? c).map (fun d => 10 * v + d)) := by
  induction cs generalizing acc with
  | nil => simp only [List.nil_append, natAcc]; cases digit? c <;> rfl
  | cons x xs ih =>
    simp only [List.cons_append, natAcc]
    cases digit? x with
    | none => rfl
    | some d => exact ih _

theorem natAcc_digits (l : List Nat) (hl : ∀ d ∈ l, d < 10) :
    natAcc 0 (l.reverse.map digitChar) = some (Nat.ofDigits 10 l) := by
  induction l with
  | nil => rfl
  | cons d l ih =>
    have h1 := ih (fun x hx => hl x (by simp [hx]))
    simp only [List.reverse_cons, List.map_append, List.map_cons, List.map_nil]
    rw [natAcc_append, h1, digit?_digitChar d (hl d (by simp))]
    simp [Nat.ofDigits_cons, Nat.add_comm]

theorem decimal_ne_nil (n : Nat) : decimal n ≠ [] := by
  unfold decimal
  split
  · simp
  · next h =>
    intro hnil
    simp only [List.map_eq_nil_iff, List.reverse_eq_nil_iff] at hnil
    exact h (Nat.digits_eq_nil_iff_eq_zero.1 hnil)

theorem decimal_chars (n : Nat) : ∀ c ∈ decimal n, ∃ d, d < 10 ∧ c = digitChar d := by
  intro c hc
  unfold decimal at hc
  split at hc
  · simp only [List.mem_singleton] at hc; exact ⟨0, by omega, by rw [hc]; rfl⟩
  · simp only [List.mem_map, List.mem_reverse] at hc
    obtain ⟨d, hd, rfl⟩ := hc
    exact ⟨d, Nat.digits_lt_base (by omega) hd, rfl⟩

/-- **the digit parser reads the decimal representation of `n` back as `n`** -/
theorem natVal_decimal (n : Nat) : natVal (decimal n) = some n := by
  have hne := decimal_ne_nil n
  unfold natVal
  have : (decimal n).isEmpty = false := by cases h : decimal n <;> simp_all
  rw [this]
  simp only [Bool.false_eq_true, if_false]
  unfold decimal
  split
  · next h => subst h; rfl
  · rw [natAcc_digits _ (fun d hd => Nat.digits_lt_base (by omega) hd), Nat.ofDigits_digits]

theorem breakAt_none (p : Char → Bool) (l : List Char) (h : ∀ c ∈ l, p c = false) : breakAt p l = (l, none) := by
  induction l with
  | nil => rfl
  | cons c cs ih =>
    have hc := h c (by simp)
    have := ih (fun x hx => h x (by simp [hx]))
    simp [breakAt, hc, this]

theorem signed_decimal (n : Nat) : signed (decimal n) = (false, decimal n) := by
  cases h : decimal n with
  | nil => exact absurd h (decimal_ne_nil n)
  | cons c cs =>
    obtain ⟨d, hd, rfl⟩ := decimal_chars n c (by rw [h]; simp)
    have hp := digitChar_plain d hd
    unfold signed
    split
    · next heq => simp only [List.cons.injEq] at heq; exact absurd heq.1 hp.2.2.2.2.1
    · next heq => simp only [List.cons.injEq] at heq; exact absurd heq.1 hp.2.2.2.2.2.1
    · rfl

theorem splitOn_no_sep (sep : Char) (l : List Char) (h : ∀ c ∈ l, c ≠ sep) : splitOn sep l = [l] := by
  induction l with
  | nil => rfl
  | cons c cs ih =>
    have := ih (fun x hx => h x (by simp [hx]))
    have hc : (c == sep) = false := by simpa using h c (by simp)
    simp [splitOn, this, hc]

theorem splitOn_ne_nil (sep : Char) (l : List Char) : splitOn sep l ≠ [] := by
  induction l with
  | nil => simp [splitOn]
  | cons c cs ih =>
    unfold splitOn
    split
    · simp
    · split <;> simp

theorem splitOn_append_sep (sep : Char) (l1 l2 : List Char) (h : ∀ c ∈ l1, c ≠ sep) :
    splitOn sep (l1 ++ sep :: l2) = l1 :: splitOn sep l2 := by
  induction l1 with
  | nil =>
    cases hs : splitOn sep l2 with
    | nil => exact absurd hs (splitOn_ne_nil sep l2)
    | cons a b => simp [splitOn, hs]
  | cons c cs ih =>
    have := ih (fun x hx => h x (by simp [hx]))
    have hc : (c == sep) = false := by simpa using h c (by simp)
    simp [splitOn, this, hc]

theorem splitBy_ne_nil (p : Char → Bool) (l : List Char) : splitBy p l ≠ [] := by
  induction l with
  | nil => simp [splitBy]
  | cons c cs ih =>
    unfold splitBy
    split
    · simp
    · split <;> simp

theorem splitBy_no_sep (p : Char → Bool) (l : List Char) (h : ∀ c ∈ l, p c = false) : splitBy p l = [l] := by
  induction l with
  | nil => rfl
  | cons c cs ih =>
    have := ih (fun x hx => h x (by simp [hx]))
    simp [splitBy, this, h c (by simp)]

theorem splitBy_append_sep (p : Char → Bool) (l1 l2 : List Char) (s : Char) (hs : p s = true) (h : ∀ c ∈ l1, p c = false) :
    splitBy p (l1 ++ s :: l2) = l1 :: splitBy p l2 := by
  induction l1 with
  | nil =>
    cases hh : splitBy p l2 with
    | nil => exact absurd hh (splitBy_ne_nil p l2)
    | cons a b => simp [splitBy, hh, hs]
  | cons c cs ih =>
    have := ih (fun x hx => h x (by simp [hx]))
    simp [splitBy, this, h c (by simp)]

/-- **`split()` of blank-joined tokens gives the tokens back** -/
theorem splitWs_joinSp (toks : List (List Char)) (h : ∀ t ∈ toks, t ≠ [] ∧ ∀ c ∈ t, isSpace c = false) :
    splitWs (joinSp toks) = toks := by
  induction toks with
  | nil => rfl
  | cons t r ih =>
    have ht := h t (by simp)
    have hne : t.isEmpty = false := by cases t <;> simp_all
    cases r with
    | nil =>
      simp only [joinSp, splitWs, splitBy_no_sep isSpace t ht.2, List.filter_cons, hne, Bool.not_false, if_true, List.filter_nil]
    | cons t' r' =>
      have ih' := ih (fun x hx => h x (by simp [hx]))
      have hj : joinSp (t :: t' :: r') = t ++ ' ' :: joinSp (t' :: r') := rfl
      rw [hj]
      unfold splitWs at ih' ⊢
      rw [splitBy_append_sep isSpace t _ ' ' (by decide) ht.2]
      simp only [List.filter_cons, hne, Bool.not_false, if_true]
      rw [ih']

theorem chunk3_length {α : Type} : ∀ (l : List α), (chunk3 l).length = l.length / 3
  | [] => by simp [chunk3]
  | [_] => by simp [chunk3]
  | [_, _] => by simp [chunk3]
  | a :: b :: c :: r => by
    simp only [chunk3, List.length_cons, chunk3_length r]
    omega

theorem chunk3_flatten {α : Type} : ∀ (l : List α), l.length % 3 = 0 → (chunk3 l).flatten = l
  | [], _ => rfl
  | [_], h => by simp at h
  | [_, _], h => by simp at h
  | a :: b :: c :: r, h => by
    have : r.length % 3 = 0 := by simp only [List.length_cons] at h; omega
    simp [chunk3, chunk3_flatten r this]

theorem chunk3_all3 {α : Type} : ∀ (l : List α), ∀ p ∈ chunk3 l, p.length = 3
  | [], p, h => by simp [chunk3] at h
  | [_], p, h => by simp [chunk3] at h
  | [_, _], p, h => by simp [chunk3] at h
  | a :: b :: c :: r, p, h => by
    simp only [chunk3, List.mem_cons] at h
    rcases h with rfl | h
    · rfl
    · exact chunk3_all3 r p h

theorem mapM_ok_length {α β : Type} (f : α → R β) : ∀ (l : List α) (v : List β), l.mapM f = .ok v → v.length = l.length
  | [], v, h => by simp [List.mapM_nil] at h; cases h; rfl
  | a :: l, v, h => by
    rw [List.mapM_cons] at h
    cases hf : f a with
    | error e => rw [hf] at h; cases h
    | ok x =>
      rw [hf] at h
      cases hl : l.mapM f with
      | error e => rw [hl] at h; cases h
      | ok w =>
        rw [hl] at h
        cases h
        simp [mapM_ok_length f l w hl]

end PhononModel.SettingsKeys
