import PhononModel.Model.FDSolver
import PhononModel.Lemmas.Basic
import Mathlib.LinearAlgebra.Matrix.NonsingularInverse
import Mathlib.LinearAlgebra.Matrix.ToLinearEquiv
import Mathlib.Algebra.Order.BigOperators.Ring.Finset
import Mathlib.Algebra.Order.Field.Basic
import Mathlib.Algebra.BigOperators.Field
import Mathlib.Tactic.Ring
import Mathlib.Tactic.FieldSimp
import Mathlib.Tactic.FinCases
import Mathlib.Tactic.Linarith

/-! Linear-algebra lemmas for `Model/FDSolver.lean` (bridge from the fold-based model to `Matrix`). -/
set_option linter.unusedSectionVars false
namespace PhononModel.FD
open PhononModel Finset Matrix

variable {K : Type} [Field K]

/-- the model's `(k, s)`-indexed row family as a `Matrix` with rows `Fin nd × Fin m` -/
def toM {nd m : Nat} (U : Fin nd → Fin m → Vec3 K) : Matrix (Fin nd × Fin m) (Fin 3) K :=
  fun p c => U p.1 p.2 c

def ofMat (M : Mat3 K) : Matrix (Fin 3) (Fin 3) K := Matrix.of M

@[simp] theorem ofMat_apply (M : Mat3 K) (a b : Fin 3) : ofMat M a b = M a b := rfl
@[simp] theorem toM_apply {nd m : Nat} (U : Fin nd → Fin m → Vec3 K) (p : Fin nd × Fin m) (c : Fin 3) :
    toM U p c = U p.1 p.2 c := rfl

theorem det3_eq_det (M : Mat3 K) : det3 M = (ofMat M).det := by
  rw [Matrix.det_fin_three]; simp only [det3, ofMat_apply]; ring

theorem gram_eq {nd m : Nat} (U : Fin nd → Fin m → Vec3 K) : ofMat (gram U) = (toM U)ᵀ * toM U := by
  ext a b
  simp [gram, sumFin_eq, Matrix.mul_apply, Fintype.sum_prod_type]

theorem adj3_mul (M : Mat3 K) (a c : Fin 3) :
    ∑ b, adj3 M a b * M b c = if a = c then det3 M else 0 := by
  fin_cases a <;> fin_cases c <;> simp [Fin.sum_univ_three, adj3, det3] <;> ring

/-- the adjugate-over-determinant inverse is a left inverse -/
theorem inv3_mul (M : Mat3 K) (h : det3 M ≠ 0) : ofMat (inv3 M) * ofMat M = 1 := by
  ext a c
  simp only [Matrix.mul_apply, ofMat_apply, inv3, div_mul_eq_mul_div, ← Finset.sum_div, adj3_mul, Matrix.one_apply]
  split
  · exact div_self h
  · exact zero_div _

theorem pinvOf_eq {nd m : Nat} (Ginv : Mat3 K) (U : Fin nd → Fin m → Vec3 K) (a : Fin 3) (p : Fin nd × Fin m) :
    pinvOf Ginv U a p.1 p.2 = (ofMat Ginv * (toM U)ᵀ) a p := by
  simp [pinvOf, sumFin_eq, Matrix.mul_apply]

theorem applyPinv_eq {nd m : Nat} (P : Fin 3 → Fin nd → Fin m → K) (G : Fin nd → Fin m → Vec3 K) (a b : Fin 3) :
    applyPinv P G a b = -((Matrix.of fun a (p : Fin nd × Fin m) => P a p.1 p.2) * toM G) a b := by
  simp [applyPinv, sumFin_eq, Matrix.mul_apply, Fintype.sum_prod_type]

/-- `pinv_recovers`, `Matrix` form: for full column rank the normal-equation left inverse recovers `X`
from `U X` (any row index type, any number of columns). -/
theorem pinv_recovers_matrix {ι κ : Type} [Fintype ι] [Fintype κ] [DecidableEq ι]
    (U : Matrix ι (Fin 3) K) (X : Matrix (Fin 3) κ K) (h : IsUnit (Uᵀ * U).det) :
    (Uᵀ * U)⁻¹ * Uᵀ * (U * X) = X := by
  rw [Matrix.mul_assoc, ← Matrix.mul_assoc Uᵀ, ← Matrix.mul_assoc, Matrix.nonsing_inv_mul _ h, Matrix.one_mul]

/-- model form: with `det (UᵀU) ≠ 0`, `-applyPinv (pinv U) (U·X) = X` -/
theorem applyPinv_recovers {nd m : Nat} (U : Fin nd → Fin m → Vec3 K) (X : Mat3 K)
    (G : Fin nd → Fin m → Vec3 K) (hG : ∀ k s b, G k s b = -(∑ c, U k s c * X c b))
    (h : det3 (gram U) ≠ 0) :
    applyPinv (pinvOf (inv3 (gram U)) U) G = X := by
  funext a b
  rw [applyPinv_eq]
  have e1 : (Matrix.of fun a (p : Fin nd × Fin m) => pinvOf (inv3 (gram U)) U a p.1 p.2)
      = ofMat (inv3 (gram U)) * (toM U)ᵀ := by
    ext a p; exact pinvOf_eq _ _ a p
  have e2 : toM G = -(toM U * ofMat X) := by
    ext p b; simp [hG, Matrix.mul_apply]
  rw [e1, e2, Matrix.mul_neg, Matrix.neg_apply, neg_neg, Matrix.mul_assoc, ← Matrix.mul_assoc (toM U)ᵀ,
    ← gram_eq, ← Matrix.mul_assoc, inv3_mul _ h, Matrix.one_mul]
  rfl

section ordered
variable {F : Type} [Field F] [LinearOrder F] [IsStrictOrderedRing F]

/-- positive definiteness: if three rows of `U` are linearly independent then `det (UᵀU) ≠ 0`
(any linearly ordered field). -/
theorem det_gram_ne_zero {ι : Type} [Fintype ι] (U : Matrix ι (Fin 3) F)
    (p₁ p₂ p₃ : ι) (h : (Matrix.of ![U p₁, U p₂, U p₃]).det ≠ 0) : (Uᵀ * U).det ≠ 0 := by
  intro hdet
  obtain ⟨x, hx0, hx⟩ := Matrix.exists_mulVec_eq_zero_iff.mpr hdet
  -- xᵀ UᵀU x = Σ_p (U x)_p² = 0
  have hsq : ∑ p, (U *ᵥ x) p * (U *ᵥ x) p = 0 := by
    have : x ⬝ᵥ ((Uᵀ * U) *ᵥ x) = 0 := by rw [hx]; simp
    rw [← Matrix.mulVec_mulVec, Matrix.dotProduct_mulVec, ← Matrix.mulVec_transpose, Matrix.transpose_transpose] at this
    exact this
  have hall : ∀ p, (U *ᵥ x) p = 0 := by
    have := (Finset.sum_eq_zero_iff_of_nonneg (fun p _ => mul_self_nonneg ((U *ᵥ x) p))).mp hsq
    intro p
    exact mul_self_eq_zero.mp (this p (Finset.mem_univ p))
  have hV : (Matrix.of ![U p₁, U p₂, U p₃]) *ᵥ x = 0 := by
    funext i
    fin_cases i
    · exact hall p₁
    · exact hall p₂
    · exact hall p₃
  exact hx0 (Matrix.eq_zero_of_mulVec_eq_zero h hV)

end ordered

/-! ### one displaced atom: the rotated forces are the rotated displacements times the true block -/

theorem rotDisps_eq {nd m : Nat} (R : Fin m → Mat3 K) (u : Fin nd → Vec3 K) (k : Fin nd) (s : Fin m) :
    rotDisps R u k s = ofMat (R s) *ᵥ u k := by
  funext a; simp [rotDisps, sumFin_eq, Matrix.mulVec, dotProduct]

theorem rotForces_eq {n nd m : Nat} (R : Fin m → Mat3 K) (rho : Fin m → Fin n → Fin n)
    (F : Fin nd → Fin n → Vec3 K) (i : Fin n) (k : Fin nd) (s : Fin m) :
    rotForces R rho F i k s = F k (rho s i) ᵥ* (ofMat (R s))ᵀ := by
  funext b; simp [rotForces, sumFin_eq, Matrix.vecMul, dotProduct]

/-- harmonic forces + site invariance + orthogonality ⇒ `G_i = -(U · Φ(a,i))` row by row -/
theorem rotForces_harmonic {n nd m : Nat} (Φ : FC n K) (a : Fin n)
    (R : Fin m → Mat3 K) (rho : Fin m → Fin n → Fin n) (u : Fin nd → Vec3 K) (F : Fin nd → Fin n → Vec3 K)
    (hR : ∀ s, (ofMat (R s))ᵀ * ofMat (R s) = 1)
    (hsite : ∀ s i, ofMat (Φ a i) = ofMat (R s) * ofMat (Φ a (rho s i)) * (ofMat (R s))ᵀ)
    (hperm : ∀ i j k l, Φ i j k l = Φ j i l k)
    (hF : ∀ k j β, F k j β = -(∑ α, Φ j a β α * u k α))
    (i : Fin n) (k : Fin nd) (s : Fin m) (b : Fin 3) :
    rotForces R rho F i k s b = -(∑ c, rotDisps R u k s c * Φ a i c b) := by
  have hFv : ∀ j, F k j = -(u k ᵥ* ofMat (Φ a j)) := by
    intro j; funext β
    rw [hF]
    simp only [Pi.neg_apply, Matrix.vecMul, dotProduct, ofMat_apply, neg_inj]
    exact Finset.sum_congr rfl fun α _ => by rw [hperm j a β α, mul_comm]
  have e : (∑ c, rotDisps R u k s c * Φ a i c b) = ((ofMat (R s) *ᵥ u k) ᵥ* ofMat (Φ a i)) b := by
    rw [← rotDisps_eq]; simp [Matrix.vecMul, dotProduct]
  rw [e, rotForces_eq, hFv, Matrix.neg_vecMul, Matrix.vecMul_vecMul, Matrix.vecMul_mulVec, hsite s i,
    ← Matrix.mul_assoc, ← Matrix.mul_assoc, hR s, Matrix.one_mul]
  rfl

/-! ### distribution by symmetry -/

theorem rotBlock_eq (R B : Mat3 K) : ofMat (rotBlock R B) = (ofMat R)ᵀ * ofMat B * ofMat R := by
  ext j k
  simp only [ofMat_apply, rotBlock, sumFin_eq, Matrix.mul_apply, Matrix.transpose_apply, Fin.sum_univ_three]
  ring

theorem revIdx_some {M n : Nat} {targets : Fin M → Fin n} {mapAtoms : Fin n → Fin n} {d : Fin n} {ri : Fin M}
    (h : revIdx targets mapAtoms d = some ri) : targets ri = d ∧ mapAtoms (targets ri) = targets ri := by
  unfold revIdx at h
  have hm := List.mem_of_getLast? h
  simpa using (List.mem_filter.mp hm).2

theorem revIdx_isSome {M n : Nat} {targets : Fin M → Fin n} {mapAtoms : Fin n → Fin n} {d : Fin n}
    (h : ∃ i, targets i = d ∧ mapAtoms (targets i) = targets i) : (revIdx targets mapAtoms d).isSome = true := by
  obtain ⟨i, hi⟩ := h
  unfold revIdx
  rw [List.getLast?_isSome]
  intro hnil
  have : i ∈ (List.finRange M).filter fun i => targets i = d ∧ mapAtoms (targets i) = targets i :=
    List.mem_filter.mpr ⟨List.mem_finRange i, by simpa using hi⟩
  rw [hnil] at this
  exact absurd this List.not_mem_nil

/-- **distribution is exact**: Φ invariant under every listed operation, orthogonal Cartesian matrices,
rows exact on the positions whose atom maps to itself, zero on the others, every needed done atom present
among the targets ⇒ every target row is exact afterwards (any `mapSyms`). -/
theorem distribute_exact_core {M Mr n nrot : Nat} (Φ : FC n K) (targets : Fin M → Fin n) (fcIdx : Fin M → Fin Mr)
    (R : Fin nrot → Mat3 K) (perms : Fin nrot → Fin n → Fin n) (ms : Fin n → Fin nrot) (fc : Rows Mr n K)
    (hinj : Function.Injective fcIdx)
    (hR : ∀ g, (ofMat (R g))ᵀ * ofMat (R g) = 1)
    (hinv : ∀ g i j, ofMat (Φ (perms g i) (perms g j)) = ofMat (R g) * ofMat (Φ i j) * (ofMat (R g))ᵀ)
    (hdone : ∀ i, perms (ms (targets i)) (targets i) = targets i → fc (fcIdx i) = Φ (targets i))
    (htodo : ∀ i, perms (ms (targets i)) (targets i) ≠ targets i → fc (fcIdx i) = fun _ _ _ => 0)
    (hmem : ∀ i, perms (ms (targets i)) (targets i) ≠ targets i →
      ∃ i', targets i' = perms (ms (targets i)) (targets i) ∧ perms (ms (targets i')) (targets i') = targets i') :
    ∃ out, distribute targets fcIdx R perms ms fc = some out ∧ (∀ i, out (fcIdx i) = Φ (targets i)) ∧
      (∀ r, (∀ i, fcIdx i ≠ r) → out r = fc r) := by
  have hc : ((List.finRange M).all fun i =>
      decide (perms (ms (targets i)) (targets i) = targets i) ||
        (revIdx targets (fun a => perms (ms a) a) (perms (ms (targets i)) (targets i))).isSome) = true := by
    rw [List.all_eq_true]
    intro i _
    by_cases h : perms (ms (targets i)) (targets i) = targets i
    · simp [h]
    · have := revIdx_isSome (targets := targets) (mapAtoms := fun a => perms (ms a) a) (hmem i h)
      simp [this]
  unfold distribute
  simp only [hc, if_true]
  refine ⟨_, rfl, ?_, ?_⟩
  · intro i0
    funext j a b
    rw [sumFin_eq, Finset.sum_eq_single i0]
    · by_cases h : perms (ms (targets i0)) (targets i0) = targets i0
      · simp [h, hdone i0 h]
      · have hz : fc (fcIdx i0) j a b = 0 := by rw [htodo i0 h]
        obtain ⟨i', hi'⟩ := hmem i0 h
        have hs := revIdx_isSome (targets := targets) (mapAtoms := fun a => perms (ms a) a) ⟨i', hi'⟩
        obtain ⟨ri, hri⟩ := Option.isSome_iff_exists.mp hs
        obtain ⟨hri1, hri2⟩ := revIdx_some hri
        simp only [hri, hz, zero_add, true_and, ne_eq, h, not_false_eq_true, if_true]
        rw [hdone ri hri2, hri1]
        have e := rotBlock_eq (R (ms (targets i0))) (Φ (perms (ms (targets i0)) (targets i0)) (perms (ms (targets i0)) j))
        have e2 : ofMat (rotBlock (R (ms (targets i0))) (Φ (perms (ms (targets i0)) (targets i0)) (perms (ms (targets i0)) j)))
            = ofMat (Φ (targets i0) j) := by
          rw [e, hinv, ← Matrix.mul_assoc, ← Matrix.mul_assoc, hR, Matrix.one_mul, Matrix.mul_assoc, hR, Matrix.mul_one]
        exact congrFun (congrFun e2 a) b
    · intro i _ hne
      have : fcIdx i ≠ fcIdx i0 := fun h => hne (hinj h)
      simp [this]
    · intro h; exact absurd (Finset.mem_univ i0) h
  · intro r hr
    funext j a b
    rw [sumFin_eq, Finset.sum_eq_zero]
    · simp
    · intro i _
      simp [hr i]

end PhononModel.FD
