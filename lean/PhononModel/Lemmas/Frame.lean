import PhononModel.Lemmas.Supercell
/-!
The classic supercell route: the box of the surrounding frame (`Supercell._get_surrounding_frame`) meets
every residue class of `ℤ³ / Sℤ³`, for every integer matrix with positive determinant.

Every class has a representative `y = S·t`, `t ∈ [0,1)³`, in the half-open parallelepiped spanned by
the columns of `S`; coordinate `i` of such a point lies between the sum of the negative and the sum of
the positive entries of row `i`, which are the minimum and maximum over the eight corners; the
half-open-ness leaves exactly `max − min` integer values per coordinate after a shift that depends
only on the sign pattern of the row.
-/
set_option linter.unusedSectionVars false
namespace PhononModel.Supercell
open PhononModel PhononModel.SNF

theorem max8_subsets (a b c : Int) :
    max8 [0, a, b, c, b + c, c + a, a + b, a + b + c] = max a 0 + max b 0 + max c 0 := by
  simp [max8]; omega

theorem min8_subsets (a b c : Int) :
    min8 [0, a, b, c, b + c, c + a, a + b, a + b + c] = min a 0 + min b 0 + min c 0 := by
  simp [min8]; omega

def rowPos (a b c : Int) : Int := max a 0 + max b 0 + max c 0
def rowNeg (a b c : Int) : Int := min a 0 + min b 0 + min c 0
/-- shift of the half-open interval: rows with a positive entry never reach their maximum, the others
never reach their minimum -/
def rowShift (a b c : Int) : Int := if 0 < a ∨ 0 < b ∨ 0 < c then rowNeg a b c else rowNeg a b c + 1

theorem surroundingFrame_eq (S : M3 Int) :
    surroundingFrame S = ⟨rowPos S.a00 S.a01 S.a02 - rowNeg S.a00 S.a01 S.a02,
                          rowPos S.a10 S.a11 S.a12 - rowNeg S.a10 S.a11 S.a12,
                          rowPos S.a20 S.a21 S.a22 - rowNeg S.a20 S.a21 S.a22⟩ := by
  unfold surroundingFrame rowPos rowNeg
  simp only [M3.col, List.map, V3.add_def]
  rw [max8_subsets, min8_subsets, max8_subsets, min8_subsets, max8_subsets, min8_subsets]

theorem prod_bounds (s r D : Int) (h0 : 0 ≤ r) (h1 : r < D) :
    min s 0 * D ≤ s * r ∧ s * r ≤ max s 0 * D ∧ (0 < s → s * r ≤ max s 0 * D - 1) ∧ (s < 0 → min s 0 * D + 1 ≤ s * r) := by
  rcases le_total 0 s with hs | hs
  · have e1 : max s 0 = s := max_eq_left hs
    have e2 : min s 0 = 0 := min_eq_right hs
    rw [e1, e2]
    have m1 : 0 ≤ s * r := mul_nonneg hs h0
    have m2 : s * r ≤ s * (D - 1) := mul_le_mul_of_nonneg_left (by omega) hs
    refine ⟨by omega, ?_, ?_, ?_⟩
    · nlinarith
    · intro hp; nlinarith
    · intro hn; omega
  · have e1 : max s 0 = 0 := max_eq_right hs
    have e2 : min s 0 = s := min_eq_left hs
    rw [e1, e2]
    have m1 : s * r ≤ 0 := mul_nonpos_of_nonpos_of_nonneg hs h0
    have m2 : s * (D - 1) ≤ s * r := mul_le_mul_of_nonpos_left (by omega) hs
    refine ⟨by nlinarith, by omega, ?_, ?_⟩
    · intro hp; omega
    · intro hn; nlinarith

/-- one coordinate: `D·Y = a·r₀ + b·r₁ + c·r₂` with `0 ≤ r_j < D` and a non-zero row puts `Y − shift`
into `[0, pos − neg)` -/
theorem row_in_frame (a b c D Y : Int) (r : V3 Int) (hD : 0 < D)
    (hx : 0 ≤ r.x ∧ r.x < D) (hy : 0 ≤ r.y ∧ r.y < D) (hz : 0 ≤ r.z ∧ r.z < D)
    (hrow : ¬(a = 0 ∧ b = 0 ∧ c = 0)) (hY : D * Y = a * r.x + b * r.y + c * r.z) :
    0 ≤ Y - rowShift a b c ∧ Y - rowShift a b c < rowPos a b c - rowNeg a b c := by
  obtain ⟨a1, a2, a3, a4⟩ := prod_bounds a r.x D hx.1 hx.2
  obtain ⟨b1, b2, b3, b4⟩ := prod_bounds b r.y D hy.1 hy.2
  obtain ⟨c1, c2, c3, c4⟩ := prod_bounds c r.z D hz.1 hz.2
  have lo : rowNeg a b c * D ≤ D * Y := by unfold rowNeg; rw [hY]; nlinarith
  have hi : D * Y ≤ rowPos a b c * D := by unfold rowPos; rw [hY]; nlinarith
  have lo' : rowNeg a b c ≤ Y := by
    by_contra hlt
    have : Y + 1 ≤ rowNeg a b c := by omega
    nlinarith
  have hi' : Y ≤ rowPos a b c := by
    by_contra hlt
    have : rowPos a b c + 1 ≤ Y := by omega
    nlinarith
  unfold rowShift
  split
  · next hp =>
    -- some entry is positive: Y < pos
    have hstrict : D * Y ≤ rowPos a b c * D - 1 := by
      unfold rowPos; rw [hY]
      rcases hp with hp | hp | hp
      · have := a3 hp; nlinarith
      · have := b3 hp; nlinarith
      · have := c3 hp; nlinarith
    have : Y < rowPos a b c := by
      by_contra hge
      have : rowPos a b c ≤ Y := by omega
      nlinarith
    omega
  · next hp =>
    have hn : a < 0 ∨ b < 0 ∨ c < 0 := by
      by_contra hno
      apply hrow
      omega
    have hstrict : rowNeg a b c * D + 1 ≤ D * Y := by
      unfold rowNeg; rw [hY]
      rcases hn with hn | hn | hn
      · have := a4 hn; nlinarith
      · have := b4 hn; nlinarith
      · have := c4 hn; nlinarith
    have : rowNeg a b c < Y := by
      by_contra hge
      have : Y ≤ rowNeg a b c := by omega
      nlinarith
    omega

/-- **the surrounding frame is complete**: for every integer matrix with positive determinant, every
integer vector is congruent modulo `Sℤ³` to a lattice point of the frame box. -/
theorem frame_complete (S : M3 Int) (hS : 0 < S.det) (x : V3 Int) :
    ∃ p, p ∈ latticePoints (surroundingFrame S) ∧ CongS S x p := by
  set D := S.det with hD
  let o : V3 Int := ⟨rowShift S.a00 S.a01 S.a02, rowShift S.a10 S.a11 S.a12, rowShift S.a20 S.a21 S.a22⟩
  let x' : V3 Int := x + o
  let w : V3 Int := S.adj.mulVec x'
  let k : V3 Int := ⟨w.x / D, w.y / D, w.z / D⟩
  let r : V3 Int := ⟨w.x % D, w.y % D, w.z % D⟩
  have hw : w = V3.smul D k + r := by
    ext <;> simp only [V3.add_def, V3.smul, k, r] <;> exact (Int.mul_ediv_add_emod _ _).symm
  have hSw : S.mulVec w = V3.smul D x' := by
    show S.mulVec (S.adj.mulVec x') = _
    rw [← M3.mulVec_mul, M3.mul_adj, M3.smul_one_mulVec]
  -- y = x' − S k satisfies D·y = S·r
  let y : V3 Int := x' - S.mulVec k
  have hDy : V3.smul D y = S.mulVec r := by
    have h1 : S.mulVec w = V3.smul D (S.mulVec k) + S.mulVec r := by
      rw [hw, M3.mulVec_add]
      congr 1
      ext <;> simp only [M3.mulVec, V3.smul] <;> ring
    rw [hSw] at h1
    have h2 : V3.smul D y = V3.smul D x' - V3.smul D (S.mulVec k) := by
      ext <;> simp only [y, V3.sub_def, V3.smul] <;> ring
    rw [h2, h1]
    ext <;> simp [V3.add_def, V3.sub_def]
  have hr : ∀ t : Int, 0 ≤ t % D ∧ t % D < D := fun t => ⟨Int.emod_nonneg _ (ne_of_gt hS), Int.emod_lt_of_pos _ hS⟩
  have hx := congrArg V3.x hDy
  have hy := congrArg V3.y hDy
  have hz := congrArg V3.z hDy
  simp only [V3.smul, M3.mulVec] at hx hy hz
  have row0 : ¬(S.a00 = 0 ∧ S.a01 = 0 ∧ S.a02 = 0) := by
    rintro ⟨h1, h2, h3⟩; rw [hD] at hS; simp [M3.det, h1, h2, h3] at hS
  have row1 : ¬(S.a10 = 0 ∧ S.a11 = 0 ∧ S.a12 = 0) := by
    rintro ⟨h1, h2, h3⟩; rw [hD] at hS; simp [M3.det, h1, h2, h3] at hS
  have row2 : ¬(S.a20 = 0 ∧ S.a21 = 0 ∧ S.a22 = 0) := by
    rintro ⟨h1, h2, h3⟩; rw [hD] at hS; simp [M3.det, h1, h2, h3] at hS
  have bx := row_in_frame S.a00 S.a01 S.a02 D y.x r hS (hr _) (hr _) (hr _) row0 hx
  have by' := row_in_frame S.a10 S.a11 S.a12 D y.y r hS (hr _) (hr _) (hr _) row1 hy
  have bz := row_in_frame S.a20 S.a21 S.a22 D y.z r hS (hr _) (hr _) (hr _) row2 hz
  refine ⟨y - o, ?_, ⟨k, ?_⟩⟩
  · rw [surroundingFrame_eq, mem_latticePoints]
    exact ⟨bx, by', bz⟩
  · ext <;> simp only [y, x', V3.add_def, V3.sub_def] <;> ring

end PhononModel.Supercell
