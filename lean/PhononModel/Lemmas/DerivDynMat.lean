import PhononModel.Model.DerivDynMat
import PhononModel.Lemmas.CxPair
import Mathlib.Algebra.Field.Basic
import Mathlib.Tactic.FieldSimp
import Mathlib.Tactic.Ring
import Mathlib.Tactic.LinearCombination

/-! Helper lemmas for C12: the in-place Hermitisation loop computes its closed form. -/
namespace PhononModel.C12
open PhononModel PhononModel.CP

variable {K : Type} [Field K] {d : Nat}

theorem herm_swap (M0 : Mat d K) (r c : Fin d) : herm M0 c r = Cx.conj (herm M0 r c) := by
  apply Cx.ext'
  · simp only [herm, Cx.conj_re]; ring
  · simp only [herm, Cx.conj_im]; ring

/-- `M` agrees with `herm M0` on `done` and with `M0` elsewhere -/
def Desc (M0 : Mat d K) (done : Fin d → Fin d → Prop) (M : Mat d K) : Prop :=
  ∀ r c, (done r c → M r c = herm M0 r c) ∧ (¬ done r c → M r c = M0 r c)

def SymP (done : Fin d → Fin d → Prop) : Prop := ∀ r c, done r c → done c r

theorem Desc.congr {M0 M : Mat d K} {p p' : Fin d → Fin d → Prop} (h : ∀ r c, p r c ↔ p' r c)
    (hD : Desc M0 p M) : Desc M0 p' M := by
  intro r c
  have := hD r c
  rw [h r c] at this
  exact this

theorem step_value (h2 : (2 : K) ≠ 0) {M0 M : Mat d K} {done : Fin d → Fin d → Prop}
    (hD : Desc M0 done M) (hS : SymP done) (j k : Fin d) :
    (⟨((M j k).re + (M k j).re) / 2, ((M j k).im - (M k j).im) / 2⟩ : Cx K) = herm M0 j k := by
  by_cases h : done j k
  · have h1 := (hD j k).1 h
    have h2' := (hD k j).1 (hS _ _ h)
    rw [herm_swap] at h2'
    rw [h2', h1]
    apply Cx.ext'
    · simp only [Cx.conj_re]; field_simp; ring
    · simp only [Cx.conj_im]; field_simp; ring
  · have h1 := (hD j k).2 h
    have h2' := (hD k j).2 (fun hh => h (hS _ _ hh))
    rw [h1, h2']; rfl

theorem step_desc (h2 : (2 : K) ≠ 0) {M0 M : Mat d K} {done : Fin d → Fin d → Prop}
    (hD : Desc M0 done M) (hS : SymP done) (j k : Fin d) :
    Desc M0 (fun r c => done r c ∨ (r = j ∧ c = k) ∨ (r = k ∧ c = j)) (hermStep M j k) := by
  have hv := step_value h2 hD hS j k
  intro r c
  unfold hermStep
  simp only [hv, setM]
  by_cases hkj : r = k ∧ c = j
  · rw [if_pos hkj, hkj.1, hkj.2]
    exact ⟨fun _ => (herm_swap M0 j k).symm, fun hn => absurd (Or.inr (Or.inr ⟨rfl, rfl⟩)) hn⟩
  · rw [if_neg hkj]
    by_cases hjk : r = j ∧ c = k
    · rw [if_pos hjk, hjk.1, hjk.2]
      exact ⟨fun _ => rfl, fun hn => absurd (Or.inr (Or.inl ⟨rfl, rfl⟩)) hn⟩
    · rw [if_neg hjk]
      constructor
      · intro h
        rcases h with h | h | h
        · exact (hD r c).1 h
        · exact absurd h hjk
        · exact absurd h hkj
      · intro hn
        exact (hD r c).2 (fun h => hn (Or.inl h))

theorem step_sym {done : Fin d → Fin d → Prop} (hS : SymP done) (j k : Fin d) :
    SymP (fun r c => done r c ∨ (r = j ∧ c = k) ∨ (r = k ∧ c = j)) := by
  intro r c h
  rcases h with h | h | h
  · exact Or.inl (hS _ _ h)
  · exact Or.inr (Or.inr ⟨h.2, h.1⟩)
  · exact Or.inr (Or.inl ⟨h.2, h.1⟩)

/-- inner loop -/
theorem inner_desc (h2 : (2 : K) ≠ 0) (M0 : Mat d K) (j : Fin d) (ks : List (Fin d)) :
    ∀ (done : Fin d → Fin d → Prop) (M : Mat d K), Desc M0 done M → SymP done →
      Desc M0 (fun r c => done r c ∨ ∃ k ∈ ks, (r = j ∧ c = k) ∨ (r = k ∧ c = j))
        (ks.foldl (fun M k => hermStep M j k) M)
      ∧ SymP (fun r c => done r c ∨ ∃ k ∈ ks, (r = j ∧ c = k) ∨ (r = k ∧ c = j)) := by
  induction ks with
  | nil =>
    intro done M hD hS
    simp only [List.foldl_nil, List.not_mem_nil, false_and, exists_false, or_false]
    exact ⟨hD, hS⟩
  | cons k ks ih =>
    intro done M hD hS
    have h1 := step_desc h2 hD hS j k
    have h1s := step_sym hS j k
    obtain ⟨hA, hB⟩ := ih _ _ h1 h1s
    have hiff : ∀ r c, ((done r c ∨ (r = j ∧ c = k) ∨ (r = k ∧ c = j)) ∨ ∃ k' ∈ ks, (r = j ∧ c = k') ∨ (r = k' ∧ c = j)) ↔
        (done r c ∨ ∃ k' ∈ k :: ks, (r = j ∧ c = k') ∨ (r = k' ∧ c = j)) := by
      intro r c
      simp only [List.mem_cons, exists_eq_or_imp]
      exact or_assoc
    refine ⟨(hA.congr hiff), ?_⟩
    intro r c h
    exact (hiff c r).1 (hB r c ((hiff r c).2 h))

/-- outer loop -/
theorem outer_desc (h2 : (2 : K) ≠ 0) (M0 : Mat d K) (cols : Fin d → List (Fin d)) (js : List (Fin d)) :
    ∀ (done : Fin d → Fin d → Prop) (M : Mat d K), Desc M0 done M → SymP done →
      Desc M0 (fun r c => done r c ∨ ∃ j ∈ js, ∃ k ∈ cols j, (r = j ∧ c = k) ∨ (r = k ∧ c = j))
        (js.foldl (fun M j => (cols j).foldl (fun M k => hermStep M j k) M) M)
      ∧ SymP (fun r c => done r c ∨ ∃ j ∈ js, ∃ k ∈ cols j, (r = j ∧ c = k) ∨ (r = k ∧ c = j)) := by
  induction js with
  | nil =>
    intro done M hD hS
    simp only [List.foldl_nil, List.not_mem_nil, false_and, exists_false, or_false]
    exact ⟨hD, hS⟩
  | cons j js ih =>
    intro done M hD hS
    obtain ⟨h1, h1s⟩ := inner_desc h2 M0 j (cols j) done M hD hS
    obtain ⟨hA, hB⟩ := ih _ _ h1 h1s
    have hiff : ∀ r c, ((done r c ∨ ∃ k ∈ cols j, (r = j ∧ c = k) ∨ (r = k ∧ c = j)) ∨
          ∃ j' ∈ js, ∃ k ∈ cols j', (r = j' ∧ c = k) ∨ (r = k ∧ c = j')) ↔
        (done r c ∨ ∃ j' ∈ j :: js, ∃ k ∈ cols j', (r = j' ∧ c = k) ∨ (r = k ∧ c = j')) := by
      intro r c
      simp only [List.mem_cons, exists_eq_or_imp]
      exact or_assoc
    refine ⟨(hA.congr hiff), ?_⟩
    intro r c h
    exact (hiff c r).1 (hB r c ((hiff r c).2 h))

theorem mem_loopRows (js : Nat) (j : Fin d) : j ∈ loopRows d js ↔ js ≤ j.1 := by
  simp [loopRows, List.mem_filter, List.mem_finRange]

theorem mem_loopCols (kj : Bool) (j k : Fin d) : k ∈ loopCols d kj j ↔ (kj = true → j.1 ≤ k.1) := by
  cases kj <;> simp [loopCols, List.mem_filter, List.mem_finRange]

/-- **the in-place loop computes the closed form** (any start row, both inner-loop variants). -/
theorem hermLoop_eq_closed (h2 : (2 : K) ≠ 0) (js : Nat) (kj : Bool) (M0 : Mat d K) :
    hermLoop js kj M0 = hermClosed js kj M0 := by
  have hinit : Desc M0 (fun _ _ => False) M0 := fun r c => ⟨fun h => absurd h id, fun _ => rfl⟩
  have hsym : SymP (fun (_ _ : Fin d) => False) := fun _ _ h => h
  obtain ⟨hD, _⟩ := outer_desc h2 M0 (loopCols d kj) (loopRows d js) _ _ hinit hsym
  funext r c
  have key : (False ∨ ∃ j ∈ loopRows d js, ∃ k ∈ loopCols d kj j, (r = j ∧ c = k) ∨ (r = k ∧ c = j)) ↔
      touched js kj r c = true := by
    simp only [false_or, mem_loopRows, mem_loopCols, touched]
    cases kj
    · simp only [Bool.false_eq_true, false_implies, true_and, if_false, Bool.or_eq_true, decide_eq_true_eq]
      constructor
      · rintro ⟨j, hj, k, hk | hk⟩
        · left; rw [hk.1]; exact hj
        · right; rw [hk.2]; exact hj
      · rintro (h | h)
        · exact ⟨r, h, c, Or.inl ⟨rfl, rfl⟩⟩
        · exact ⟨c, h, r, Or.inr ⟨rfl, rfl⟩⟩
    · simp only [forall_const, if_true, Bool.or_eq_true, Bool.and_eq_true, decide_eq_true_eq]
      constructor
      · rintro ⟨j, hj, k, hjk, hk | hk⟩
        · left; rw [hk.1, hk.2]; exact ⟨hj, hjk⟩
        · right; rw [hk.1, hk.2]; exact ⟨hj, hjk⟩
      · rintro (h | h)
        · exact ⟨r, h.1, c, h.2, Or.inl ⟨rfl, rfl⟩⟩
        · exact ⟨c, h.1, r, h.2, Or.inr ⟨rfl, rfl⟩⟩
  unfold hermLoop hermClosed
  by_cases ht : touched js kj r c = true
  · rw [if_pos ht]; exact (hD r c).1 (key.2 ht)
  · rw [if_neg ht]; exact (hD r c).2 (fun h => ht (key.1 h))

/-! ### staged evaluation -/

theorem stageM_spec {α : Type} [OfNat α 0] (f : Mat d α → Mat d α) (A : FMat α) :
    thaw2 (stageM f A) 0 = f (thaw2 A 0) := by
  unfold stageM; rw [thaw2_freeze2]

theorem foldl_stage {γ β ι : Type} (th : γ → β) (f : β → ι → β) (g : γ → ι → γ)
    (h : ∀ A x, th (g A x) = f (th A) x) : ∀ (l : List ι) (A : γ), th (l.foldl g A) = l.foldl f (th A)
  | [], _ => rfl
  | x :: l, A => by simp only [List.foldl_cons]; rw [foldl_stage th f g h l, h]

theorem hermLoopF_spec {α : Type} [Add α] [Sub α] [Neg α] [Div α] [OfNat α 0] [OfNat α 2]
    (js : Nat) (kj : Bool) (A : FMat α) :
    thaw2 (hermLoopF d js kj A) 0 = hermLoop js kj (thaw2 A 0 : Mat d α) := by
  unfold hermLoopF hermLoop
  apply foldl_stage (fun A => (thaw2 A 0 : Mat d α))
  intro A j
  apply foldl_stage (fun A => (thaw2 A 0 : Mat d α))
  intro A k
  exact stageM_spec _ A

end PhononModel.C12
