import PhononModel.Lemmas.DynMatBatch
import Mathlib.Tactic.Linarith
import Mathlib.Tactic.Ring
namespace PhononModel
variable {K : Type} [Field K] [LinearOrder K] [IsStrictOrderedRing K]

theorem IsSqrt.strictMono {sqrt : K → K} (h : IsSqrt sqrt) {x y : K} (hx : 0 ≤ x) (hxy : x < y) :
    sqrt x < sqrt y := by
  by_contra hc
  have hle : sqrt y ≤ sqrt x := not_lt.mp hc
  have hy : 0 ≤ y := le_trans hx hxy.le
  have h1 := h.sq x hx
  have h2 := h.sq y hy
  have h3 : sqrt y * sqrt y ≤ sqrt x * sqrt x :=
    mul_le_mul hle hle (h.nonneg y hy) (h.nonneg x hx)
  linarith

/-- the frequency map `λ ↦ sign(λ) sqrt|λ| · factor` is strictly increasing -/
theorem frequency_strictMono {sqrt : K → K} (h : IsSqrt sqrt) (factor : K) (hf : 0 < factor)
    {a b : K} (hab : a < b) : frequency sqrt factor a < frequency sqrt factor b := by
  obtain ⟨a1, a2, a3⟩ := frequency_sign h factor a hf
  obtain ⟨b1, b2, b3⟩ := frequency_sign h factor b hf
  rcases lt_trichotomy a 0 with ha | ha | ha
  · rcases lt_trichotomy b 0 with hb | hb | hb
    · -- both negative
      unfold frequency
      rw [absR_eq, absR_eq, signR_eq, signR_eq, if_neg (not_lt.mpr ha.le), if_pos ha,
        if_neg (not_lt.mpr hb.le), if_pos hb, abs_of_neg ha, abs_of_neg hb]
      have hs : sqrt (-b) < sqrt (-a) := h.strictMono (by linarith) (by linarith)
      nlinarith
    · have := a1.mpr ha; have := b3.mpr hb; linarith
    · have := a1.mpr ha; have := b2.mpr hb; linarith
  · have hb : 0 < b := by linarith
    have := a3.mpr ha; have := b2.mpr hb; linarith
  · have hb : 0 < b := by linarith
    unfold frequency
    rw [absR_eq, absR_eq, signR_eq, signR_eq, if_pos ha, if_pos hb, abs_of_pos ha, abs_of_pos hb]
    have hs : sqrt a < sqrt b := h.strictMono ha.le hab
    nlinarith
end PhononModel
