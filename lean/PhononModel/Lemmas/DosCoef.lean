import PhononModel.Model.Dos
import PhononModel.Lemmas.Basic
import Mathlib.Algebra.BigOperators.Fin
import Mathlib.Algebra.BigOperators.Ring.Finset
import Mathlib.Algebra.Order.Field.Basic
import Mathlib.Data.Rat.Floor
import Mathlib.Tactic.Linarith
import Mathlib.Tactic.Ring
import Mathlib.Tactic.Positivity
import Mathlib.Tactic.LinearCombination
import Mathlib.LinearAlgebra.Matrix.NonsingularInverse

/-! Projection coefficients of the projected DOS and the frequency-point grid (C11). -/
set_option linter.unusedVariables false
namespace PhononModel.DosLemmas
open PhononModel Finset

section coef
variable {K : Type} [Field K] [LinearOrder K] [IsStrictOrderedRing K]

theorem coefAtom_eq_sum {n : Nat} (e : Fin n → Fin 3 → K × K) (a : Fin n) :
    Dos.coefAtom e a = ∑ x : Fin 3, Dos.coefXyz e a x := by
  rw [Fin.sum_univ_three]; rfl

theorem abs2_nonneg (z : K × K) : 0 ≤ Dos.abs2 z := by
  unfold Dos.abs2; exact add_nonneg (mul_self_nonneg _) (mul_self_nonneg _)

/-- Cauchy–Schwarz: the projection on a unit direction is at most the atom's full weight -/
theorem coefDir_le_coefAtom {n : Nat} (e : Fin n → Fin 3 → K × K) (d : Fin 3 → K)
    (hd : d 0 * d 0 + d 1 * d 1 + d 2 * d 2 = 1) (a : Fin n) : Dos.coefDir e d a ≤ Dos.coefAtom e a := by
  unfold Dos.coefDir Dos.coefAtom Dos.abs2
  simp only
  generalize (e a 0).1 = p0; generalize (e a 1).1 = p1; generalize (e a 2).1 = p2
  generalize (e a 0).2 = r0; generalize (e a 1).2 = r1; generalize (e a 2).2 = r2
  generalize d 0 = x at *; generalize d 1 = y at *; generalize d 2 = z at *
  have key : ∀ a0 a1 a2 : K, (a0 * x + a1 * y + a2 * z) * (a0 * x + a1 * y + a2 * z) ≤ a0 * a0 + a1 * a1 + a2 * a2 := by
    intro a0 a1 a2
    have : (a0 * a0 + a1 * a1 + a2 * a2) * (x * x + y * y + z * z) - (a0 * x + a1 * y + a2 * z) * (a0 * x + a1 * y + a2 * z)
        = (a0 * y - a1 * x) ^ 2 + (a0 * z - a2 * x) ^ 2 + (a1 * z - a2 * y) ^ 2 := by ring
    have h2 : 0 ≤ (a0 * y - a1 * x) ^ 2 + (a0 * z - a2 * x) ^ 2 + (a1 * z - a2 * y) ^ 2 := by positivity
    rw [hd, mul_one] at this
    linarith
  have h1 := key p0 p1 p2
  have h2 := key r0 r1 r2
  linarith

theorem cols_of_rows (d : Fin 3 → Fin 3 → K) (h : ∀ k l, ∑ x, d k x * d l x = if k = l then 1 else 0) :
    ∀ x y, ∑ k, d k x * d k y = if x = y then 1 else 0 := by
  have h1 : Matrix.of d * (Matrix.of d).transpose = 1 := by
    ext k l; simp [Matrix.mul_apply, Matrix.one_apply, h k l]
  have h2 := mul_eq_one_comm.mp h1
  intro x y
  have := congrFun (congrFun h2 x) y
  simpa [Matrix.mul_apply, Matrix.one_apply] using this

theorem sq_sum_orthonormal (d : Fin 3 → Fin 3 → K) (h : ∀ k l, ∑ x, d k x * d l x = if k = l then 1 else 0) (a : Fin 3 → K) :
    ∑ k, (∑ x, a x * d k x) * (∑ x, a x * d k x) = ∑ x, a x * a x := by
  have hc := cols_of_rows d h
  calc ∑ k, (∑ x, a x * d k x) * (∑ x, a x * d k x)
      = ∑ k, ∑ x, ∑ y, (a x * a y) * (d k x * d k y) := by
        apply Finset.sum_congr rfl; intro k _
        rw [Finset.sum_mul_sum]; apply Finset.sum_congr rfl; intro x _; apply Finset.sum_congr rfl; intro y _; ring
    _ = ∑ x, ∑ y, (a x * a y) * ∑ k, d k x * d k y := by
        rw [Finset.sum_comm]; apply Finset.sum_congr rfl; intro x _
        rw [Finset.sum_comm]; apply Finset.sum_congr rfl; intro y _
        rw [Finset.mul_sum]
    _ = ∑ x, a x * a x := by
        apply Finset.sum_congr rfl; intro x _
        simp [hc]

/-- projections on an orthonormal triple of directions add up to the atom's weight -/
theorem coefDir_triple {n : Nat} (e : Fin n → Fin 3 → K × K) (d : Fin 3 → Fin 3 → K)
    (h : ∀ k l, ∑ x, d k x * d l x = if k = l then 1 else 0) (a : Fin n) :
    ∑ k, Dos.coefDir e (d k) a = Dos.coefAtom e a := by
  have h1 := sq_sum_orthonormal d h (fun x => (e a x).1)
  have h2 := sq_sum_orthonormal d h (fun x => (e a x).2)
  simp only [Fin.sum_univ_three] at h1 h2 ⊢
  unfold Dos.coefDir Dos.coefAtom Dos.abs2
  simp only
  linear_combination h1 + h2

end coef

/-! ### `np.arange` and the frequency points -/

theorem arange_length (start stop step : ℚ) :
    (Dos.arange start stop step).length = (-((-((stop - start) / step)).floor)).toNat := by
  unfold Dos.arange; simp

theorem ceil_eq (x : ℚ) : -((-x).floor) = ⌈x⌉ := by
  have : (-x).floor = ⌊-x⌋ := rfl
  rw [this, Int.floor_neg, neg_neg]

/-- every point of `arange` is `start + i·step`, lies in `[start, stop)`, and one more step would reach `stop` -/
theorem arange_spec (start stop step : ℚ) (hs : 0 < step) :
    (∀ x ∈ Dos.arange start stop step, start ≤ x ∧ x < stop) ∧
    stop ≤ start + ((Dos.arange start stop step).length : ℚ) * step := by
  constructor
  · intro x hx
    unfold Dos.arange at hx
    simp only [List.mem_map, List.mem_range] at hx
    obtain ⟨i, hi, rfl⟩ := hx
    constructor
    · have : (0 : ℚ) ≤ (i : ℚ) * step := by positivity
      linarith
    · have hpos : 0 < (-((-((stop - start) / step)).floor)) := by
        by_contra hc
        have : (-((-((stop - start) / step)).floor)).toNat = 0 := Int.toNat_eq_zero.mpr (not_lt.mp hc)
        omega
      have h1 : ((i : ℤ) : ℚ) < (-((-((stop - start) / step)).floor)) := by
        have : (i : ℤ) < (-((-((stop - start) / step)).floor)) := by
          have := Int.toNat_of_nonneg (le_of_lt hpos)
          omega
        exact_mod_cast this
      have h2 : ((-((-((stop - start) / step)).floor)) : ℚ) < (stop - start) / step + 1 := by
        have := Int.ceil_lt_add_one ((stop - start) / step)
        rw [← ceil_eq] at this; push_cast at this; exact this
      have h3 : (i : ℚ) < (stop - start) / step := by
        have : ((i : ℤ) : ℚ) + 1 ≤ (-((-((stop - start) / step)).floor)) := by
          have : (i : ℤ) + 1 ≤ (-((-((stop - start) / step)).floor)) := by
            have := Int.toNat_of_nonneg (le_of_lt hpos)
            omega
          exact_mod_cast this
        push_cast at this
        linarith
      have := (lt_div_iff₀ hs).mp h3
      linarith
  · rw [arange_length]
    have h1 : (stop - start) / step ≤ ((-((-((stop - start) / step)).floor)) : ℚ) := by
      have := Int.le_ceil ((stop - start) / step)
      rw [← ceil_eq] at this; push_cast at this; exact this
    have h2 : ((-((-((stop - start) / step)).floor)) : ℚ) ≤ (((-((-((stop - start) / step)).floor)).toNat : ℕ) : ℚ) := by
      have : (-((-((stop - start) / step)).floor)) ≤ (((-((-((stop - start) / step)).floor)).toNat : ℕ) : ℤ) := Int.self_le_toNat _
      exact_mod_cast this
    have h3 := (div_le_iff₀ hs).mp (le_trans h1 h2)
    linarith

end PhononModel.DosLemmas
