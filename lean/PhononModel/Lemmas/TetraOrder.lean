import PhononModel.Lemmas.Tetra
import Mathlib.Tactic.NormNum

/-! Sign and range facts of the tetrahedron formulas on strictly ordered vertices (C11). -/
set_option linter.unusedSectionVars false
set_option linter.unusedVariables false
set_option linter.unusedSimpArgs false
namespace PhononModel.TetraLemmas
open PhononModel

variable {K : Type} [Field K] [LinearOrder K] [IsStrictOrderedRing K]

/-- strictly increasing vertex values -/
def Sorted (v : Fin 4 → K) : Prop := v 0 < v 1 ∧ v 1 < v 2 ∧ v 2 < v 3

theorem Sorted.distinct {v : Fin 4 → K} (h : Sorted v) : Distinct v := by
  obtain ⟨h1, h2, h3⟩ := h
  refine ⟨?_, ?_, ?_, ?_, ?_, ?_⟩ <;> apply ne_of_lt <;> linarith

/-- a ratio `f n m` whose two vertices lie on different sides of ω is strictly between 0 and 1 -/
theorem f_mem (ω : K) (v : Fin 4 → K) (n m : Fin 4)
    (h : (v m < ω ∧ ω < v n) ∨ (v n < ω ∧ ω < v m)) :
    0 < TetraPy.f ω v n m ∧ TetraPy.f ω v n m < 1 := by
  unfold TetraPy.f
  rcases h with ⟨h1, h2⟩ | ⟨h1, h2⟩
  · have hd : 0 < v n - v m := by linarith
    exact ⟨div_pos (by linarith) hd, (div_lt_one hd).mpr (by linarith)⟩
  · have hd : 0 < v m - v n := by linarith
    have e : (ω - v m) / (v n - v m) = (v m - ω) / (v m - v n) := by
      rw [← neg_sub (v m) ω, ← neg_sub (v m) (v n), neg_div_neg_eq]
    rw [e]
    exact ⟨div_pos (by linarith) hd, (div_lt_one hd).mpr (by linarith)⟩

/-! ### interval 1: v0 < ω < v1 -/

theorem n_1_range {ω : K} {v : Fin 4 → K} (hs : Sorted v) (h0 : v 0 < ω) (h1 : ω < v 1) :
    0 < TetraPy.n_1 ω v ∧ TetraPy.n_1 ω v < 1 := by
  obtain ⟨s1, s2, s3⟩ := hs
  obtain ⟨a0, a1⟩ := f_mem ω v 1 0 (Or.inl ⟨h0, h1⟩)
  obtain ⟨b0, b1⟩ := f_mem ω v 2 0 (Or.inl ⟨h0, by linarith⟩)
  obtain ⟨c0, c1⟩ := f_mem ω v 3 0 (Or.inl ⟨h0, by linarith⟩)
  unfold TetraPy.n_1
  constructor
  · positivity
  · calc TetraPy.f ω v 1 0 * TetraPy.f ω v 2 0 * TetraPy.f ω v 3 0
        < 1 * 1 * 1 := by
          apply mul_lt_mul'' _ c1 (by positivity) (le_of_lt c0)
          exact mul_lt_mul'' a1 b1 (le_of_lt a0) (le_of_lt b0)
      _ = 1 := by ring

theorem g_1_pos {ω : K} {v : Fin 4 → K} (hs : Sorted v) (h0 : v 0 < ω) (h1 : ω < v 1) : 0 < TetraPy.g_1 ω v := by
  obtain ⟨s1, s2, s3⟩ := hs
  obtain ⟨a0, a1⟩ := f_mem ω v 1 0 (Or.inl ⟨h0, h1⟩)
  obtain ⟨b0, b1⟩ := f_mem ω v 2 0 (Or.inl ⟨h0, by linarith⟩)
  have hd : 0 < v 3 - v 0 := by linarith
  unfold TetraPy.g_1
  push_cast
  positivity

theorem J_1_pos {ω : K} {v : Fin 4 → K} (hs : Sorted v) (h0 : v 0 < ω) (h1 : ω < v 1) :
    0 < TetraPy.J_10 ω v ∧ 0 < TetraPy.J_11 ω v ∧ 0 < TetraPy.J_12 ω v ∧ 0 < TetraPy.J_13 ω v := by
  obtain ⟨s1, s2, s3⟩ := hs
  obtain ⟨a0, _⟩ := f_mem ω v 1 0 (Or.inl ⟨h0, h1⟩)
  obtain ⟨b0, _⟩ := f_mem ω v 2 0 (Or.inl ⟨h0, by linarith⟩)
  obtain ⟨c0, _⟩ := f_mem ω v 3 0 (Or.inl ⟨h0, by linarith⟩)
  obtain ⟨d0, _⟩ := f_mem ω v 0 1 (Or.inr ⟨h0, h1⟩)
  obtain ⟨e0, _⟩ := f_mem ω v 0 2 (Or.inr ⟨h0, by linarith⟩)
  obtain ⟨f0, _⟩ := f_mem ω v 0 3 (Or.inr ⟨h0, by linarith⟩)
  unfold TetraPy.J_10 TetraPy.J_11 TetraPy.J_12 TetraPy.J_13
  push_cast
  refine ⟨?_, ?_, ?_, ?_⟩ <;> positivity

theorem I_1_pos {ω : K} {v : Fin 4 → K} (hs : Sorted v) (h0 : v 0 < ω) (h1 : ω < v 1) :
    0 < TetraPy.I_10 ω v ∧ 0 < TetraPy.I_11 ω v ∧ 0 < TetraPy.I_12 ω v ∧ 0 < TetraPy.I_13 ω v := by
  obtain ⟨s1, s2, s3⟩ := hs
  obtain ⟨a0, _⟩ := f_mem ω v 1 0 (Or.inl ⟨h0, h1⟩)
  obtain ⟨b0, _⟩ := f_mem ω v 2 0 (Or.inl ⟨h0, by linarith⟩)
  obtain ⟨c0, _⟩ := f_mem ω v 3 0 (Or.inl ⟨h0, by linarith⟩)
  obtain ⟨d0, _⟩ := f_mem ω v 0 1 (Or.inr ⟨h0, h1⟩)
  obtain ⟨e0, _⟩ := f_mem ω v 0 2 (Or.inr ⟨h0, by linarith⟩)
  obtain ⟨f0, _⟩ := f_mem ω v 0 3 (Or.inr ⟨h0, by linarith⟩)
  unfold TetraPy.I_10 TetraPy.I_11 TetraPy.I_12 TetraPy.I_13
  push_cast
  refine ⟨?_, ?_, ?_, ?_⟩ <;> positivity

/-! ### interval 2: v1 < ω < v2 -/

/-- the eight ratios used by the interval-2 formulas are positive -/
theorem facts2 {ω : K} {v : Fin 4 → K} (hs : Sorted v) (h1 : v 1 < ω) (h2 : ω < v 2) :
    0 < TetraPy.f ω v 3 1 ∧ 0 < TetraPy.f ω v 2 1 ∧ 0 < TetraPy.f ω v 3 0 ∧ 0 < TetraPy.f ω v 1 3 ∧
    0 < TetraPy.f ω v 2 0 ∧ 0 < TetraPy.f ω v 1 2 ∧ 0 < TetraPy.f ω v 0 3 ∧ 0 < TetraPy.f ω v 0 2 := by
  obtain ⟨s1, s2, s3⟩ := hs
  exact ⟨(f_mem ω v 3 1 (Or.inl ⟨h1, by linarith⟩)).1, (f_mem ω v 2 1 (Or.inl ⟨h1, h2⟩)).1,
    (f_mem ω v 3 0 (Or.inl ⟨by linarith, by linarith⟩)).1, (f_mem ω v 1 3 (Or.inr ⟨h1, by linarith⟩)).1,
    (f_mem ω v 2 0 (Or.inl ⟨by linarith, h2⟩)).1, (f_mem ω v 1 2 (Or.inr ⟨h1, h2⟩)).1,
    (f_mem ω v 0 3 (Or.inr ⟨by linarith, by linarith⟩)).1, (f_mem ω v 0 2 (Or.inr ⟨by linarith, h2⟩)).1⟩

/-- `1 - n₂` is again a sum of products of the positive ratios (the formula seen from the top vertex) -/
theorem n_2_compl (ω : K) (v : Fin 4 → K) (hd : Distinct v) :
    TetraPy.n_2 ω v + (TetraPy.f ω v 0 2 * TetraPy.f ω v 1 2 + TetraPy.f ω v 0 3 * TetraPy.f ω v 2 0 * TetraPy.f ω v 1 2
      + TetraPy.f ω v 0 3 * TetraPy.f ω v 1 3 * TetraPy.f ω v 2 1) = 1 := by
  obtain ⟨h01, h02, h03, h12, h13, h23⟩ := hd
  have s03 := f_swap ω v 0 3 h03
  have s02 := f_swap ω v 0 2 h02
  have s13 := f_swap ω v 1 3 h13
  have s12 := f_swap ω v 1 2 h12
  unfold TetraPy.n_2
  generalize TetraPy.f ω v 0 3 = f03 at *
  generalize TetraPy.f ω v 3 0 = f30 at *
  generalize TetraPy.f ω v 0 2 = f02 at *
  generalize TetraPy.f ω v 2 0 = f20 at *
  generalize TetraPy.f ω v 1 3 = f13 at *
  generalize TetraPy.f ω v 3 1 = f31 at *
  generalize TetraPy.f ω v 1 2 = f12 at *
  generalize TetraPy.f ω v 2 1 = f21 at *
  have e30 : f30 = 1 - f03 := by linear_combination s03
  have e20 : f20 = 1 - f02 := by linear_combination s02
  have e31 : f31 = 1 - f13 := by linear_combination s13
  have e21 : f21 = 1 - f12 := by linear_combination s12
  subst e30 e20 e31 e21
  ring

theorem n_2_range {ω : K} {v : Fin 4 → K} (hs : Sorted v) (h1 : v 1 < ω) (h2 : ω < v 2) :
    0 < TetraPy.n_2 ω v ∧ TetraPy.n_2 ω v < 1 := by
  obtain ⟨p31, p21, p30, p13, p20, p12, p03, p02⟩ := facts2 hs h1 h2
  have hc := n_2_compl ω v hs.distinct
  have hpos : 0 < TetraPy.n_2 ω v := by unfold TetraPy.n_2; positivity
  refine ⟨hpos, ?_⟩
  have : 0 < TetraPy.f ω v 0 2 * TetraPy.f ω v 1 2 + TetraPy.f ω v 0 3 * TetraPy.f ω v 2 0 * TetraPy.f ω v 1 2
      + TetraPy.f ω v 0 3 * TetraPy.f ω v 1 3 * TetraPy.f ω v 2 1 := by positivity
  linarith

theorem gden_pos {ω : K} {v : Fin 4 → K} (hs : Sorted v) (h1 : v 1 < ω) (h2 : ω < v 2) : 0 < TetraPy.gden ω v := by
  obtain ⟨p31, p21, p30, p13, p20, p12, p03, p02⟩ := facts2 hs h1 h2
  unfold TetraPy.gden; positivity

theorem g_2_pos {ω : K} {v : Fin 4 → K} (hs : Sorted v) (h1 : v 1 < ω) (h2 : ω < v 2) : 0 < TetraPy.g_2 ω v := by
  obtain ⟨p31, p21, p30, p13, p20, p12, p03, p02⟩ := facts2 hs h1 h2
  obtain ⟨s1, s2, s3⟩ := hs
  have hd : 0 < v 3 - v 0 := by linarith
  unfold TetraPy.g_2
  push_cast
  positivity

theorem J_2_pos {ω : K} {v : Fin 4 → K} (hs : Sorted v) (h1 : v 1 < ω) (h2 : ω < v 2) :
    0 < TetraPy.J_20 ω v ∧ 0 < TetraPy.J_21 ω v ∧ 0 < TetraPy.J_22 ω v ∧ 0 < TetraPy.J_23 ω v := by
  obtain ⟨p31, p21, p30, p13, p20, p12, p03, p02⟩ := facts2 hs h1 h2
  have hn := (n_2_range hs h1 h2).1
  unfold TetraPy.J_20 TetraPy.J_21 TetraPy.J_22 TetraPy.J_23
  push_cast
  refine ⟨?_, ?_, ?_, ?_⟩ <;> positivity

theorem I_2_pos {ω : K} {v : Fin 4 → K} (hs : Sorted v) (h1 : v 1 < ω) (h2 : ω < v 2) :
    0 < TetraPy.I_20 ω v ∧ 0 < TetraPy.I_21 ω v ∧ 0 < TetraPy.I_22 ω v ∧ 0 < TetraPy.I_23 ω v := by
  obtain ⟨p31, p21, p30, p13, p20, p12, p03, p02⟩ := facts2 hs h1 h2
  have hg := gden_pos hs h1 h2
  unfold TetraPy.I_20 TetraPy.I_21 TetraPy.I_22 TetraPy.I_23 TetraPy.sq
  push_cast
  refine ⟨?_, ?_, ?_, ?_⟩ <;> positivity

/-! ### interval 3: v2 < ω < v3 -/

theorem facts3 {ω : K} {v : Fin 4 → K} (hs : Sorted v) (h2 : v 2 < ω) (h3 : ω < v 3) :
    (0 < TetraPy.f ω v 0 3 ∧ TetraPy.f ω v 0 3 < 1) ∧ (0 < TetraPy.f ω v 1 3 ∧ TetraPy.f ω v 1 3 < 1) ∧
    (0 < TetraPy.f ω v 2 3 ∧ TetraPy.f ω v 2 3 < 1) ∧ 0 < TetraPy.f ω v 3 0 ∧ 0 < TetraPy.f ω v 3 1 ∧
    0 < TetraPy.f ω v 3 2 := by
  obtain ⟨s1, s2, s3⟩ := hs
  exact ⟨f_mem ω v 0 3 (Or.inr ⟨by linarith, h3⟩), f_mem ω v 1 3 (Or.inr ⟨by linarith, h3⟩),
    f_mem ω v 2 3 (Or.inr ⟨h2, h3⟩), (f_mem ω v 3 0 (Or.inl ⟨by linarith, h3⟩)).1,
    (f_mem ω v 3 1 (Or.inl ⟨by linarith, h3⟩)).1, (f_mem ω v 3 2 (Or.inl ⟨h2, h3⟩)).1⟩

theorem prod3_lt_one {a b c : K} (a0 : 0 < a) (a1 : a < 1) (b0 : 0 < b) (b1 : b < 1) (c0 : 0 < c) (c1 : c < 1) :
    a * b * c < 1 := by
  calc a * b * c < 1 * 1 * 1 := by
        apply mul_lt_mul'' _ c1 (by positivity) (le_of_lt c0)
        exact mul_lt_mul'' a1 b1 (le_of_lt a0) (le_of_lt b0)
    _ = 1 := by ring

theorem n_3_range {ω : K} {v : Fin 4 → K} (hs : Sorted v) (h2 : v 2 < ω) (h3 : ω < v 3) :
    0 < TetraPy.n_3 ω v ∧ TetraPy.n_3 ω v < 1 := by
  obtain ⟨⟨a0, a1⟩, ⟨b0, b1⟩, ⟨c0, c1⟩, _, _, _⟩ := facts3 hs h2 h3
  unfold TetraPy.n_3
  push_cast
  have := prod3_lt_one a0 a1 b0 b1 c0 c1
  have hp : 0 < TetraPy.f ω v 0 3 * TetraPy.f ω v 1 3 * TetraPy.f ω v 2 3 := by positivity
  constructor <;> linarith

theorem g_3_pos {ω : K} {v : Fin 4 → K} (hs : Sorted v) (h2 : v 2 < ω) (h3 : ω < v 3) : 0 < TetraPy.g_3 ω v := by
  obtain ⟨⟨a0, a1⟩, ⟨b0, b1⟩, ⟨c0, c1⟩, _, _, _⟩ := facts3 hs h2 h3
  obtain ⟨s1, s2, s3⟩ := hs
  have hd : 0 < v 3 - v 0 := by linarith
  unfold TetraPy.g_3
  push_cast
  positivity

theorem I_3_pos {ω : K} {v : Fin 4 → K} (hs : Sorted v) (h2 : v 2 < ω) (h3 : ω < v 3) :
    0 < TetraPy.I_30 ω v ∧ 0 < TetraPy.I_31 ω v ∧ 0 < TetraPy.I_32 ω v ∧ 0 < TetraPy.I_33 ω v := by
  obtain ⟨⟨a0, a1⟩, ⟨b0, b1⟩, ⟨c0, c1⟩, d0, e0, f0⟩ := facts3 hs h2 h3
  unfold TetraPy.I_30 TetraPy.I_31 TetraPy.I_32 TetraPy.I_33
  push_cast
  refine ⟨?_, ?_, ?_, ?_⟩ <;> positivity

/-- `a b c (4 - a - b - c) ≤ 1` on the unit cube -/
theorem j33_aux {a b c : K} (a0 : 0 < a) (a1 : a < 1) (b0 : 0 < b) (b1 : b < 1) (c0 : 0 < c) (c1 : c < 1) :
    a * b * c * (1 + (1 - a) + (1 - b) + (1 - c)) < 1 := by
  have hx : 0 < 1 - a := by linarith
  have hy : 0 < 1 - b := by linarith
  have hz : 0 < 1 - c := by linarith
  -- 1 + x + y + z ≤ (1+x)(1+y)(1+z), and (1-x)(1+x) < 1
  have h1 : 1 + (1 - a) + (1 - b) + (1 - c) ≤ (1 + (1 - a)) * (1 + (1 - b)) * (1 + (1 - c)) := by
    have := mul_pos hx hy
    have := mul_pos hy hz
    have := mul_pos hx hz
    have := mul_pos (mul_pos hx hy) hz
    nlinarith
  have habc : 0 < a * b * c := by positivity
  have h2 : a * b * c * (1 + (1 - a) + (1 - b) + (1 - c)) ≤
      a * b * c * ((1 + (1 - a)) * (1 + (1 - b)) * (1 + (1 - c))) := mul_le_mul_of_nonneg_left h1 (le_of_lt habc)
  have e : a * b * c * ((1 + (1 - a)) * (1 + (1 - b)) * (1 + (1 - c))) =
      (a * (2 - a)) * (b * (2 - b)) * (c * (2 - c)) := by ring
  have ha : a * (2 - a) < 1 := by nlinarith [mul_pos hx hx]
  have hb : b * (2 - b) < 1 := by nlinarith [mul_pos hy hy]
  have hc : c * (2 - c) < 1 := by nlinarith [mul_pos hz hz]
  have ha0 : 0 < a * (2 - a) := by apply mul_pos a0; linarith
  have hb0 : 0 < b * (2 - b) := by apply mul_pos b0; linarith
  have hc0 : 0 < c * (2 - c) := by apply mul_pos c0; linarith
  have := prod3_lt_one ha0 ha hb0 hb hc0 hc
  linarith

theorem J_3_pos {ω : K} {v : Fin 4 → K} (hs : Sorted v) (h2 : v 2 < ω) (h3 : ω < v 3) :
    0 < TetraPy.J_30 ω v ∧ 0 < TetraPy.J_31 ω v ∧ 0 < TetraPy.J_32 ω v ∧ 0 < TetraPy.J_33 ω v := by
  obtain ⟨⟨a0, a1⟩, ⟨b0, b1⟩, ⟨c0, c1⟩, d0, e0, f0⟩ := facts3 hs h2 h3
  have hn := (n_3_range hs h2 h3).1
  obtain ⟨h01, h02, h03, h12, h13, h23⟩ := hs.distinct
  have s03 := f_swap ω v 0 3 h03
  have s13 := f_swap ω v 1 3 h13
  have s23 := f_swap ω v 2 3 h23
  have hP := prod3_lt_one a0 a1 b0 b1 c0 c1
  unfold TetraPy.J_30 TetraPy.J_31 TetraPy.J_32 TetraPy.J_33 TetraPy.sq
  push_cast
  generalize TetraPy.n_3 ω v = N at *
  generalize TetraPy.f ω v 0 3 = a at *
  generalize TetraPy.f ω v 1 3 = b at *
  generalize TetraPy.f ω v 2 3 = c at *
  generalize TetraPy.f ω v 3 0 = x at *
  generalize TetraPy.f ω v 3 1 = y at *
  generalize TetraPy.f ω v 3 2 = z at *
  have hab : 0 < a * b := mul_pos a0 b0
  refine ⟨?_, ?_, ?_, ?_⟩
  · have : a * a * b * c < 1 := by nlinarith [mul_pos (mul_pos a0 b0) c0]
    have : 0 < 1 - a * a * b * c := by linarith
    positivity
  · have : a * (b * b) * c < 1 := by nlinarith [mul_pos (mul_pos a0 b0) c0]
    have : 0 < 1 - a * (b * b) * c := by linarith
    positivity
  · have : a * b * (c * c) < 1 := by nlinarith [mul_pos (mul_pos a0 b0) c0]
    have : 0 < 1 - a * b * (c * c) := by linarith
    positivity
  · have ex : x = 1 - a := by linear_combination s03
    have ey : y = 1 - b := by linear_combination s13
    have ez : z = 1 - c := by linear_combination s23
    subst ex ey ez
    have := j33_aux a0 a1 b0 b1 c0 c1
    have : 0 < 1 - a * b * c * (1 + (1 - a) + (1 - b) + (1 - c)) := by linarith
    positivity

end PhononModel.TetraLemmas
