import PhononModel.Lemmas.NAC

/-!
Hermiticity and time-reversal structure `D(−q) = conj D(q)` of the modelled dynamical matrices
(plain, Wang, Gonze–Lee reciprocal part).  For Gonze–Lee the statements need the list of
reciprocal vectors to be symmetric under `G ↦ −G` (certificate `gListWf`, evaluated by the check
on the implementation's `G_list`).
-/
set_option linter.unusedSectionVars false
namespace PhononModel.C08
open Finset PhononModel PhononModel.C06

variable {K : Type} [Field K] [LinearOrder K] [IsStrictOrderedRing K]
variable {np ns nr : Nat}

/-- phase table of `−q`: every factor conjugated -/
def conjPh (ph : Phases np ns K) : Phases np ns K := fun k i => (ph k i).map Cx.conj

/-- entrywise conjugate -/
def conjDM (D : DM np K) : DM np K := fun i a j b => (D i a j b).conj

theorem sumList_map_neg (l : List K) : sumList (l.map fun x => -x) = - sumList l := by
  induction l with
  | nil => simp [sumList]
  | cons x xs ih =>
    simp only [List.map_cons, sumList, List.foldr_cons] at ih ⊢
    rw [ih]; ring

theorem avgDivEach_conj (zs : List (Cx K)) : avgDivEach (zs.map Cx.conj) = (avgDivEach zs).conj := by
  ext
  · simp only [avgDivEach, List.length_map, List.map_map, Cx.conj_re]; rfl
  · simp only [avgDivEach, List.length_map, List.map_map, Cx.conj_im]
    rw [← sumList_map_neg, List.map_map]
    congr 1
    apply List.map_congr_left
    intro z _
    simp only [Function.comp, Cx.conj_im]; ring

theorem dynmatRawCS_conj (T : FTables np ns nr) (fc : Fin nr → Fin ns → Fin 3 → Fin 3 → K)
    (ms : Fin np → Fin np → K) (ph : Phases np ns K) (cs : Fin np → Fin np → T3 K) :
    dynmatRawCS T fc ms (conjPh ph) cs = conjDM (dynmatRawCS T fc ms ph cs) := by
  funext i a j b
  simp only [dynmatRawCS, conjPh, conjDM, avgDivEach_conj, Cx.conj_re, Cx.conj_im, sumFin_eq, Cx.conj]
  congr 1
  rw [← neg_div, ← Finset.sum_neg_distrib]
  congr 1
  apply Finset.sum_congr rfl; intro k _; split <;> ring

theorem dynmatRaw_conj (T : FTables np ns nr) (fc : Fin nr → Fin ns → Fin 3 → Fin 3 → K)
    (ms : Fin np → Fin np → K) (ph : Phases np ns K) :
    dynmatRaw T fc ms (conjPh ph) = conjDM (dynmatRaw T fc ms ph) := by
  rw [← dynmatRawCS_zero, ← dynmatRawCS_zero, dynmatRawCS_conj]

theorem hermitize_conj (D : DM np K) : hermitize (conjDM D) = conjDM (hermitize D) := by
  funext i a j b
  simp only [hermitize, conjDM, Cx.conj]
  congr 1; ring

theorem hermitize_isHermitian (D : DM np K) : IsHermitian (hermitize D) := by
  intro i a j b
  simp only [hermitize, Cx.conj]
  congr 1
  · ring
  · ring

/-- the plain dynamical matrix: Hermitian, and `D(−q) = conj D(q)` -/
theorem dynmat_isHermitian (T : FTables np ns nr) (fc : Fin nr → Fin ns → Fin 3 → Fin 3 → K)
    (ms : Fin np → Fin np → K) (ph : Phases np ns K) : IsHermitian (dynmat T fc ms ph) :=
  hermitize_isHermitian _

theorem dynmat_time_reversal (T : FTables np ns nr) (fc : Fin nr → Fin ns → Fin 3 → Fin 3 → K)
    (ms : Fin np → Fin np → K) (ph : Phases np ns K) :
    dynmat T fc ms (conjPh ph) = conjDM (dynmat T fc ms ph) := by
  unfold dynmat; rw [dynmatRaw_conj, hermitize_conj]

/-! ### time reversal up to the zone factor

For the representative `−q + G₀` of `−q` in another zone every phase factor of the pair
(atom of sublattice `j`, primitive atom `i`) is `g j i · conj` of the one at `q`, with the unit
factor `g j i = exp(2πi G₀·(x_j − x_i))`. -/

theorem sumList_map_lin (l : List (Cx K)) (a b n : K) :
    sumList (l.map fun z => (a * z.re + b * z.im) / n) =
      a * sumList (l.map fun z => z.re / n) + b * sumList (l.map fun z => z.im / n) := by
  induction l with
  | nil => simp [sumList]
  | cons x xs ih =>
    simp only [List.map_cons, sumList, List.foldr_cons] at ih ⊢
    rw [ih]; ring

theorem avgDivEach_map_mul_conj (c : Cx K) (zs : List (Cx K)) :
    avgDivEach (zs.map fun z => c * z.conj) = c * (avgDivEach zs).conj := by
  ext
  · simp only [avgDivEach, List.length_map, List.map_map, Cx.mul_re, Cx.conj_re, Cx.conj_im]
    have := sumList_map_lin zs c.re c.im (zs.length : K)
    rw [← sub_eq_zero]
    have e : (List.map ((fun z : Cx K => z.re / (zs.length : K)) ∘ fun z => c * z.conj) zs)
        = zs.map fun z => (c.re * z.re + c.im * z.im) / (zs.length : K) := by
      apply List.map_congr_left; intro z _; simp only [Function.comp, Cx.mul_re, Cx.conj_re, Cx.conj_im]; ring
    rw [e, this]; ring
  · simp only [avgDivEach, List.length_map, List.map_map, Cx.mul_im, Cx.conj_re, Cx.conj_im]
    have := sumList_map_lin zs c.im (-c.re) (zs.length : K)
    rw [← sub_eq_zero]
    have e : (List.map ((fun z : Cx K => z.im / (zs.length : K)) ∘ fun z => c * z.conj) zs)
        = zs.map fun z => (c.im * z.re + -c.re * z.im) / (zs.length : K) := by
      apply List.map_congr_left; intro z _; simp only [Function.comp, Cx.mul_im, Cx.conj_re, Cx.conj_im]; ring
    rw [e, this]; ring

theorem dynmatRaw_cx (T : FTables np ns nr) (fc : Fin nr → Fin ns → Fin 3 → Fin 3 → K)
    (ms : Fin np → Fin np → K) (ph : Phases np ns K) (i : Fin np) (a : Fin 3) (j : Fin np) (b : Fin 3) :
    dynmatRaw T fc ms ph i a j b =
      Cx.ofK (1 / ms i j) * ∑ k, if T.s2p k = (T.p2s j).1 then Cx.ofK (fc (T.p2s i) k a b) * avgDivEach (ph k i) else 0 := by
  ext
  · simp only [dynmatRaw, sumFin_eq, Cx.mul_re, Cx.ofK_re, Cx.ofK_im, Cx.re_sum, Cx.im_sum, zero_mul, sub_zero,
      apply_ite Cx.re, Cx.zero_re]
    rw [div_eq_mul_inv, mul_comm]; simp
  · simp only [dynmatRaw, sumFin_eq, Cx.mul_im, Cx.ofK_re, Cx.ofK_im, Cx.re_sum, Cx.im_sum, zero_mul, add_zero,
      apply_ite Cx.im, Cx.zero_im]
    rw [div_eq_mul_inv, mul_comm]; simp

/-- the plain dynamical matrix at the representative `−q + G₀`: `D'[i,j] = g j i · conj D[i,j]` -/
theorem dynmat_twist (T : FTables np ns nr) (fc : Fin nr → Fin ns → Fin 3 → Fin 3 → K)
    (ms : Fin np → Fin np → K) (hsym : ∀ i j, ms j i = ms i j) (ph ph' : Phases np ns K) (g : Fin np → Fin np → Cx K)
    (hg : ∀ i j, g i j = (g j i).conj)
    (hph : ∀ k i j, T.s2p k = (T.p2s j).1 → ph' k i = (ph k i).map fun z => g j i * z.conj) :
    dynmat T fc ms ph' = fun i a j b => g j i * (dynmat T fc ms ph i a j b).conj := by
  have hraw : ∀ i a j b, dynmatRaw T fc ms ph' i a j b = g j i * (dynmatRaw T fc ms ph i a j b).conj := by
    intro i a j b
    rw [dynmatRaw_cx, dynmatRaw_cx, Cx.conj_mul, Cx.conj_sum, Finset.mul_sum, Finset.mul_sum, Finset.mul_sum]
    apply Finset.sum_congr rfl
    intro k _
    by_cases hc : T.s2p k = (T.p2s j).1
    · simp only [if_pos hc, hph k i j hc, avgDivEach_map_mul_conj, Cx.conj_mul]
      have e1 : (Cx.ofK (1 / ms i j)).conj = Cx.ofK (1 / ms i j) := by ext <;> simp
      have e2 : (Cx.ofK (fc (T.p2s i) k a b)).conj = Cx.ofK (fc (T.p2s i) k a b) := by ext <;> simp
      rw [e1, e2]; ring
    · simp [if_neg hc]
  funext i a j b
  have h1 := hraw i a j b
  have h2 := hraw j b i a
  have hg' := hg i j
  have hm := hsym i j
  ext
  · simp only [dynmat, hermitize, h1, h2, hg', Cx.mul_re, Cx.mul_im, Cx.conj_re, Cx.conj_im]; ring
  · simp only [dynmat, hermitize, h1, h2, hg', Cx.mul_re, Cx.mul_im, Cx.conj_re, Cx.conj_im]; ring

/-! ### Gonze–Lee reciprocal part -/

theorem normSq_neg (v : V3 K) : normSq (fun i => -v i) = normSq v := by
  simp only [normSq, sumFin_eq, Fin.sum_univ_three]; ring

theorem dielectricPart_neg (v : V3 K) (eps : T3 K) : dielectricPart (fun i => -v i) eps = dielectricPart v eps := by
  simp only [dielectricPart, sumFin_eq, Fin.sum_univ_three]; ring

theorem kkTensor_symm (G qc : V3 K) (dir : Option (V3 K)) (eps : T3 K) (tolSq e : K) (a b : Fin 3) :
    kkTensor G qc dir eps tolSq e a b = kkTensor G qc dir eps tolSq e b a := by
  unfold kkTensor
  simp only []
  split
  · cases dir with
    | none => rfl
    | some d => simp only []; ring
  · ring

theorem kkTensor_neg (G G' qc : V3 K) (dir : Option (V3 K)) (eps : T3 K) (tolSq e : K)
    (hG : ∀ i, G' i = -G i) :
    kkTensor G' (fun i => -qc i) dir eps tolSq e = kkTensor G qc dir eps tolSq e := by
  have hK : (fun i => G' i + -qc i) = fun i => -(G i + qc i) := by funext i; rw [hG]; ring
  unfold kkTensor
  simp only [hK, normSq_neg, dielectricPart_neg]
  split
  · rfl
  · funext a b; simp only [hG]; ring

/-- certificate data for the reciprocal vectors: `ν` pairs every `G` with `−G` -/
structure GSym {nG : Nat} (G : Fin nG → V3 K) (ν : Fin nG ≃ Fin nG) : Prop where
  neg : ∀ g i, G (ν g) i = -G g i

theorem getDD_hermitian {nG : Nat} (G : Fin nG → V3 K) (qc : V3 K) (dir : Option (V3 K)) (eps : T3 K)
    (tolSq : K) (expv : Fin nG → K) (phG : Fin nG → Fin np → Fin np → Cx K)
    (hph : ∀ g i j, phG g j i = (phG g i j).conj) :
    IsHermitian (getDD G qc dir eps tolSq expv phG) := by
  intro i a j b
  simp only [getDD, getDDOf, sumFin_eq, Cx.conj, hph _ i j]
  congr 1
  · apply Finset.sum_congr rfl; intro g _; rw [kkTensor_symm]
  · rw [← Finset.sum_neg_distrib]
    apply Finset.sum_congr rfl; intro g _; rw [kkTensor_symm]; ring

theorem multiplyBorns_hermitian (born : Fin np → T3 K) (dd : DM np K) (h : IsHermitian dd) :
    IsHermitian (multiplyBorns born dd) := by
  intro i a j b
  simp only [multiplyBorns, sumFin_eq, Cx.conj]
  congr 1
  · rw [Finset.sum_comm]
    apply Finset.sum_congr rfl; intro a' _
    apply Finset.sum_congr rfl; intro b' _
    rw [h i a' j b']; simp only [Cx.conj_re]; ring
  · rw [Finset.sum_comm, ← Finset.sum_neg_distrib]
    apply Finset.sum_congr rfl; intro a' _
    rw [← Finset.sum_neg_distrib]
    apply Finset.sum_congr rfl; intro b' _
    rw [h i a' j b']; simp only [Cx.conj_im]; ring

theorem multiplyBorns_conj (born : Fin np → T3 K) (dd : DM np K) :
    multiplyBorns born (conjDM dd) = conjDM (multiplyBorns born dd) := by
  funext i a j b
  simp only [multiplyBorns, conjDM, sumFin_eq, Cx.conj]
  congr 1
  rw [← Finset.sum_neg_distrib]
  apply Finset.sum_congr rfl; intro a' _
  rw [← Finset.sum_neg_distrib]
  apply Finset.sum_congr rfl; intro b' _
  ring

/-- the reciprocal dipole–dipole term is Hermitian when the `dd_q0` blocks are -/
theorem recipDD_hermitian {nG : Nat} (G : Fin nG → V3 K) (qc : V3 K) (dir : Option (V3 K)) (eps : T3 K)
    (born : Fin np → T3 K) (tolSq : K) (expv : Fin nG → K) (phG : Fin nG → Fin np → Fin np → Cx K)
    (ddq0 : Fin np → Fin 3 → Fin 3 → Cx K) (factor : K)
    (hph : ∀ g i j, phG g j i = (phG g i j).conj) (hq0 : ∀ i a b, ddq0 i b a = (ddq0 i a b).conj) :
    IsHermitian (recipDD G qc dir eps born tolSq expv phG ddq0 factor) := by
  have hm := multiplyBorns_hermitian born _ (getDD_hermitian G qc dir eps tolSq expv phG hph)
  intro i a j b
  simp only [recipDD, recipDDOf]
  have := hm i a j b
  by_cases hij : i = j
  · subst hij
    simp only [if_true, this, hq0 i a b, Cx.conj]
    congr 1; ring
  · have hji : ¬ j = i := fun e => hij e.symm
    simp only [if_neg hij, if_neg hji, this, Cx.conj]
    congr 1; ring

/-- the `dd_q0` blocks produced by the model are Hermitian 3×3 matrices -/
theorem ddQ0Of_hermitian (dd : DM np K) (i : Fin np) (a b : Fin 3) :
    ddQ0Of dd i b a = (ddQ0Of dd i a b).conj := by
  simp only [ddQ0Of, Cx.conj]
  congr 1
  · ring
  · ring

theorem addDD_hermitian (D dd : DM np K) (ms : Fin np → Fin np → K) (hD : IsHermitian D) (hdd : IsHermitian dd)
    (hsym : ∀ i j, ms j i = ms i j) : IsHermitian (addDD D dd ms) := by
  intro i a j b
  simp only [addDD, hD i a j b, hdd i a j b, hsym i j, Cx.conj]
  congr 1; ring

/-- **Gonze–Lee matrix is Hermitian** -/
theorem glDynmat_isHermitian {nG : Nat} (T : FTables np ns nr) (fcSR : Fin nr → Fin ns → Fin 3 → Fin 3 → K)
    (ms : Fin np → Fin np → K) (ph : Phases np ns K) (G : Fin nG → V3 K) (qc : V3 K) (dir : Option (V3 K))
    (eps : T3 K) (born : Fin np → T3 K) (tolSq : K) (expv : Fin nG → K) (phG : Fin nG → Fin np → Fin np → Cx K)
    (ddq0 : Fin np → Fin 3 → Fin 3 → Cx K) (factor : K)
    (hph : ∀ g i j, phG g j i = (phG g i j).conj) (hq0 : ∀ i a b, ddq0 i b a = (ddq0 i a b).conj)
    (hsym : ∀ i j, ms j i = ms i j) :
    IsHermitian (glDynmat T fcSR ms ph G qc dir eps born tolSq expv phG ddq0 factor) :=
  addDD_hermitian _ _ ms (dynmat_isHermitian _ _ _ _) (recipDD_hermitian G qc dir eps born tolSq expv phG ddq0 factor hph hq0) hsym

/-- `getDD(−q) = conj getDD(q)` for a `G ↦ −G` symmetric list (`expv'`, `phG` are the values at
`−q`: the weight of `−K` equals the weight of `K`, the phase of `−G` is the conjugate) -/
theorem getDD_neg {nG : Nat} (G : Fin nG → V3 K) (ν : Fin nG ≃ Fin nG) (hν : GSym G ν) (qc : V3 K)
    (dir : Option (V3 K)) (eps : T3 K) (tolSq : K) (expv expv' : Fin nG → K)
    (phG : Fin nG → Fin np → Fin np → Cx K) (he : ∀ g, expv' (ν g) = expv g)
    (hp : ∀ g i j, phG (ν g) i j = (phG g i j).conj) :
    getDD G (fun i => -qc i) dir eps tolSq expv' phG = conjDM (getDD G qc dir eps tolSq expv phG) := by
  funext i a j b
  simp only [getDD, getDDOf, conjDM, sumFin_eq, Cx.conj]
  congr 1
  · rw [← Equiv.sum_comp ν]
    apply Finset.sum_congr rfl; intro g _
    rw [kkTensor_neg (G g) (G (ν g)) qc dir eps tolSq _ (hν.neg g), he, hp]; rfl
  · rw [← Equiv.sum_comp ν, ← Finset.sum_neg_distrib]
    apply Finset.sum_congr rfl; intro g _
    rw [kkTensor_neg (G g) (G (ν g)) qc dir eps tolSq _ (hν.neg g), he, hp]; simp only [Cx.conj_im]; ring

/-- **time reversal of the reciprocal dipole–dipole term** (real `dd_q0`) -/
theorem recipDD_neg {nG : Nat} (G : Fin nG → V3 K) (ν : Fin nG ≃ Fin nG) (hν : GSym G ν) (qc : V3 K)
    (dir : Option (V3 K)) (eps : T3 K) (born : Fin np → T3 K) (tolSq : K) (expv expv' : Fin nG → K)
    (phG : Fin nG → Fin np → Fin np → Cx K) (ddq0 : Fin np → Fin 3 → Fin 3 → Cx K) (factor : K)
    (he : ∀ g, expv' (ν g) = expv g) (hp : ∀ g i j, phG (ν g) i j = (phG g i j).conj)
    (hreal : ∀ i a b, (ddq0 i a b).im = 0) :
    recipDD G (fun i => -qc i) dir eps born tolSq expv' phG ddq0 factor =
      conjDM (recipDD G qc dir eps born tolSq expv phG ddq0 factor) := by
  funext i a j b
  simp only [recipDD, recipDDOf, getDD_neg G ν hν qc dir eps tolSq expv expv' phG he hp, multiplyBorns_conj, conjDM]
  split
  · simp only [Cx.conj, hreal]; congr 1; ring
  · simp only [Cx.conj]; congr 1; ring

theorem addDD_conj (D dd : DM np K) (ms : Fin np → Fin np → K) :
    addDD (conjDM D) (conjDM dd) ms = conjDM (addDD D dd ms) := by
  funext i a j b
  simp only [addDD, conjDM, Cx.conj]
  congr 1; ring

/-- **`D_GL(−q) = conj D_GL(q)`** for a `G ↦ −G` symmetric list and real `dd_q0`.  `−q` means the
Cartesian vector `−q_cart` itself: for another representative `−q + G₀` the truncated reciprocal sum
runs over a shifted set and the identity holds only up to the neglected tail. -/
theorem glDynmat_time_reversal {nG : Nat} (T : FTables np ns nr) (fcSR : Fin nr → Fin ns → Fin 3 → Fin 3 → K)
    (ms : Fin np → Fin np → K) (ph : Phases np ns K) (G : Fin nG → V3 K) (ν : Fin nG ≃ Fin nG) (hν : GSym G ν)
    (qc : V3 K) (dir : Option (V3 K)) (eps : T3 K) (born : Fin np → T3 K) (tolSq : K) (expv expv' : Fin nG → K)
    (phG : Fin nG → Fin np → Fin np → Cx K) (ddq0 : Fin np → Fin 3 → Fin 3 → Cx K) (factor : K)
    (he : ∀ g, expv' (ν g) = expv g) (hp : ∀ g i j, phG (ν g) i j = (phG g i j).conj)
    (hreal : ∀ i a b, (ddq0 i a b).im = 0) :
    glDynmat T fcSR ms (conjPh ph) G (fun i => -qc i) dir eps born tolSq expv' phG ddq0 factor =
      conjDM (glDynmat T fcSR ms ph G qc dir eps born tolSq expv phG ddq0 factor) := by
  unfold glDynmat
  rw [dynmat_time_reversal, recipDD_neg G ν hν qc dir eps born tolSq expv expv' phG ddq0 factor he hp hreal, addDD_conj]

/-- `dd_q0` is real for a `G ↦ −G` symmetric list -/
theorem ddQ0_real {nG : Nat} (G : Fin nG → V3 K) (ν : Fin nG ≃ Fin nG) (hν : GSym G ν) (eps : T3 K)
    (born : Fin np → T3 K) (tolSq : K) (expv : Fin nG → K) (phG : Fin nG → Fin np → Fin np → Cx K)
    (he : ∀ g, expv (ν g) = expv g) (hp : ∀ g i j, phG (ν g) i j = (phG g i j).conj) (i : Fin np) (a b : Fin 3) :
    (ddQ0 G eps born tolSq expv phG i a b).im = 0 := by
  have h0 : (fun (_ : Fin 3) => (0 : K)) = fun i => -((fun _ => 0 : V3 K) i) := by funext i; simp
  have hc : getDD G (fun _ => 0) none eps tolSq expv phG = conjDM (getDD G (fun _ => 0) none eps tolSq expv phG) := by
    conv_lhs => rw [h0]
    exact getDD_neg G ν hν (fun _ => 0) none eps tolSq expv expv phG he hp
  have hm : multiplyBorns born (getDD G (fun _ => 0) none eps tolSq expv phG)
      = conjDM (multiplyBorns born (getDD G (fun _ => 0) none eps tolSq expv phG)) := by
    conv_lhs => rw [hc]
    exact multiplyBorns_conj born _
  have him : ∀ i a j b, (multiplyBorns born (getDD G (fun _ => 0) none eps tolSq expv phG) i a j b).im = 0 := by
    intro i a j b
    have := congrArg (fun D : DM np K => (D i a j b).im) hm
    simp only [conjDM, Cx.conj_im] at this
    linarith
  simp only [ddQ0, ddQ0Of, sumFin_eq, him, Finset.sum_const_zero, sub_self, zero_div]

end PhononModel.C08
