import PhononModel.Lemmas.Symmetrize
import Mathlib.Logic.Equiv.Fintype
import Mathlib.Data.Fintype.EquivFin

set_option linter.unusedSectionVars false
namespace PhononModel
open Finset

variable {K : Type} [Field K] [CharZero K]
variable {np ns nt : Nat}

/-- Propositional reading of the executable certificate `CTables.wf`. -/
structure CTables.WF (T : CTables np ns nt) : Prop where
  rep : ∀ i, T.perms (T.nsym i) i = T.p2s (T.s2pp i)
  sp  : ∀ ip, T.s2pp (T.p2s ip) = ip
  idp : ∀ ip j, T.perms (T.nsym (T.p2s ip)) j = j
  sub : ∀ t i, T.s2pp (T.perms t i) = T.s2pp i
  inj : ∀ t, Function.Injective (T.perms t)
  reg : ∀ t j x, T.perms (T.nsym (T.perms t j)) (T.perms t x) = T.perms (T.nsym j) x

theorem CTables.wf_sound (T : CTables np ns nt) (h : T.wf = true) : T.WF := by
  simp only [CTables.wf, Bool.and_eq_true, List.all_eq_true, List.mem_finRange, forall_const,
    beq_iff_eq, Bool.or_eq_true, bne_iff_ne, ne_eq] at h
  obtain ⟨⟨⟨⟨h1, h2⟩, h3⟩, h4⟩, h5⟩ := h
  refine ⟨h1, fun ip => (h2 ip).1, fun ip j => (h2 ip).2 j, h3, ?_, h5⟩
  intro t i j hij
  rcases h4 t i j with h | h
  · exact absurd hij h
  · exact h

/-- every translation permutes the atoms -/
noncomputable def CTables.WF.equiv {T : CTables np ns nt} (h : T.WF) (t : Fin nt) : Fin ns ≃ Fin ns :=
  Equiv.ofBijective (T.perms t) (Finite.injective_iff_bijective.mp (h.inj t))

theorem CTables.WF.sum_perm {T : CTables np ns nt} (h : T.WF) (t : Fin nt) (f : Fin ns → K) :
    ∑ j, f (T.perms t j) = ∑ j, f j :=
  Equiv.sum_comp (h.equiv t) f

@[simp] theorem transposeC_apply (T : CTables np ns nt) (Φc : CFC np ns K) (ip j k l) :
    transposeC T Φc ip j k l = Φc (T.s2pp j) (T.perms (T.nsym j) (T.p2s ip)) l k := by
  simp [transposeC]

@[simp] theorem permSymC_apply (T : CTables np ns nt) (Φc : CFC np ns K) (ip j k l) :
    permSymC T Φc ip j k l = (Φc ip j k l + Φc (T.s2pp j) (T.perms (T.nsym j) (T.p2s ip)) l k) / 2 := by
  simp [permSymC]

theorem transDiagC_apply (T : CTables np ns nt) (Φc : CFC np ns K) (ip j k l) :
    transDiagC T Φc ip j k l =
      if T.p2s ip = j then
        -((∑ j', if T.p2s ip = j' then 0 else Φc ip j' k l)
          + (∑ j', if T.p2s ip = j' then 0 else Φc ip j' l k)) / 2
      else Φc ip j k l := by
  simp [transDiagC, sumFin_eq]

/-- the full array is periodic under the stored translations -/
def Periodic (T : CTables np ns nt) (Φ : FC ns K) : Prop :=
  ∀ t i j k l, Φ (T.perms t i) (T.perms t j) k l = Φ i j k l

/-- full-array transposition `Φ(i,j,k,l) ↦ Φ(j,i,l,k)` -/
def transposeF {n : Nat} (Φ : FC n K) : FC n K := fun i j k l => Φ j i l k

/-- **transpose mode acts on the expanded array as the transposition** (the statement the
unrepaired C routine violated for self-inverse translation pairs, finding F2). -/
theorem expand_transposeC {T : CTables np ns nt} (h : T.WF) (Φc : CFC np ns K) :
    expand T (transposeC T Φc) = transposeF (expand T Φc) := by
  funext i j k l
  simp only [expand, transposeC_apply, transposeF]
  rw [h.sub, ← h.rep i, h.reg]

theorem expand_rowDrift {T : CTables np ns nt} (h : T.WF) (Φc : CFC np ns K) :
    expand T (rowDrift Φc) = rowDrift (expand T Φc) := by
  funext i j k l
  simp only [expand, rowDrift_apply]
  rw [h.sum_perm (T.nsym i) (fun j' => Φc (T.s2pp i) j' k l)]

theorem expand_permSymC {T : CTables np ns nt} (h : T.WF) (Φc : CFC np ns K) :
    expand T (permSymC T Φc) = permSym (expand T Φc) := by
  funext i j k l
  simp only [expand, permSymC_apply, permSym_apply]
  rw [h.sub, ← h.rep i, h.reg]

theorem expand_transDiagC {T : CTables np ns nt} (h : T.WF) (Φc : CFC np ns K) :
    expand T (transDiagC T Φc) = transDiag (expand T Φc) := by
  funext i j k l
  simp only [expand, transDiagC_apply, transDiag_apply]
  have key : ∀ j', (T.p2s (T.s2pp i) = T.perms (T.nsym i) j') ↔ i = j' := by
    intro j'
    rw [← h.rep i]
    exact ⟨fun e => h.inj _ e, fun e => by rw [e]⟩
  have hs : ∀ (a b : Fin 3), (∑ j', if T.p2s (T.s2pp i) = j' then 0 else Φc (T.s2pp i) j' a b)
      = ∑ j', if i = j' then 0 else Φc (T.s2pp i) (T.perms (T.nsym i) j') a b := by
    intro a b
    rw [← h.sum_perm (T.nsym i) (fun j' => if T.p2s (T.s2pp i) = j' then 0 else Φc (T.s2pp i) j' a b)]
    exact Finset.sum_congr rfl (fun j' _ => by simp only [key j'])
  simp only [key j, hs]

theorem transposeF_rowDrift_transposeF {n : Nat} (Φ : FC n K) :
    transposeF (rowDrift (transposeF Φ)) = colDrift Φ := by
  funext i j k l; simp [transposeF]

theorem colDrift_rowDrift_comm {n : Nat} (Φ : FC n K) : colDrift (rowDrift Φ) = rowDrift (colDrift Φ) := by
  funext i j k l
  simp only [colDrift_apply, rowDrift_apply, Finset.sum_sub_distrib, ← Finset.sum_div]
  rw [Finset.sum_comm]
  ring

theorem expand_symStepC {T : CTables np ns nt} (h : T.WF) (Φc : CFC np ns K) :
    expand T (symStepC T Φc) = symStep (expand T Φc) := by
  unfold symStepC symStep
  rw [expand_permSymC h, expand_rowDrift h, expand_transposeC h, expand_rowDrift h, expand_transposeC h,
    transposeF_rowDrift_transposeF]

theorem expand_iter_symStepC {T : CTables np ns nt} (h : T.WF) :
    ∀ (L : Nat) (Φc : CFC np ns K), expand T (iter (symStepC T) L Φc) = iter symStep L (expand T Φc)
  | 0, _ => rfl
  | L+1, Φc => by
    simp only [iter]
    rw [expand_iter_symStepC h L, expand_symStepC h]

theorem compress_expand {T : CTables np ns nt} (h : T.WF) (Φc : CFC np ns K) :
    compress T (expand T Φc) = Φc := by
  funext ip j k l
  simp only [compress, expand, h.sp, h.idp]

theorem expand_compress {T : CTables np ns nt} (h : T.WF) (Φ : FC ns K) (hp : Periodic T Φ) :
    expand T (compress T Φ) = Φ := by
  funext i j k l
  simp only [compress, expand, ← h.rep i]
  exact hp _ _ _ _ _

theorem expand_periodic {T : CTables np ns nt} (h : T.WF) (Φc : CFC np ns K) :
    Periodic T (expand T Φc) := by
  intro t i j k l
  simp only [expand, h.sub, h.reg]

end PhononModel
