import PhononModel.Model.SymBook
import PhononModel.Lemmas.Displacement
import PhononModel.Lemmas.DesignRank
import PhononModel.Lemmas.FDPipeline

/-! Spec lemmas for `Model/SymBook.lean`. -/
set_option linter.unusedSectionVars false
namespace PhononModel.FD
open PhononModel PhononModel.Disp Finset Matrix

/-! ### independent atoms, orbit representatives -/

theorem mem_independentAtoms {n : Nat} {m : Fin n → Fin n} {a : Fin n} : a ∈ independentAtoms m ↔ m a = a := by
  simp [independentAtoms, eq_comm]

theorem independentAtoms_nodup {n : Nat} (m : Fin n → Fin n) : (independentAtoms m).Nodup :=
  (List.nodup_finRange n).filter _

theorem equivCert_spec {n nrot : Nat} {perms : Fin nrot → Fin n → Fin n} {m : Fin n → Fin n}
    (h : equivCert perms m = true) :
    (∀ i, m (m i) = m i) ∧ (∀ i, ∃ g, perms g i = m i) ∧ (∀ g i, m (perms g i) = m i) := by
  unfold equivCert at h
  rw [List.all_eq_true] at h
  have h' := fun i => h i (List.mem_finRange i)
  simp only [Bool.and_eq_true, beq_iff_eq, List.any_eq_true, List.all_eq_true, List.mem_finRange, true_and,
    true_implies] at h'
  exact ⟨fun i => (h' i).1.1, fun i => (h' i).1.2, fun g i => (h' i).2 g⟩

theorem rep_mem_independent {n nrot : Nat} {perms : Fin nrot → Fin n → Fin n} {m : Fin n → Fin n}
    (h : equivCert perms m = true) (i : Fin n) : m i ∈ independentAtoms m :=
  mem_independentAtoms.mpr ((equivCert_spec h).1 i)

theorem independent_cover {n nrot : Nat} {perms : Fin nrot → Fin n → Fin n} {m : Fin n → Fin n}
    (h : equivCert perms m = true) (a : Fin n) : ∃ g, perms g a ∈ independentAtoms m := by
  obtain ⟨g, hg⟩ := (equivCert_spec h).2.1 a
  exact ⟨g, hg ▸ rep_mem_independent h a⟩

theorem independent_inequivalent {n nrot : Nat} {perms : Fin nrot → Fin n → Fin n} {m : Fin n → Fin n}
    (h : equivCert perms m = true) (a : Fin n) (ha : a ∈ independentAtoms m) (g : Fin nrot)
    (hb : perms g a ∈ independentAtoms m) : perms g a = a := by
  have h1 := mem_independentAtoms.mp ha
  have h2 := mem_independentAtoms.mp hb
  rw [(equivCert_spec h).2.2 g a, h1] at h2
  exact h2.symm

theorem doneCert_independent {n nrot : Nat} {perms : Fin nrot → Fin n → Fin n} {m : Fin n → Fin n}
    (h : equivCert perms m = true) : doneCert perms (independentAtoms m) = true := by
  unfold doneCert
  rw [List.all_eq_true]
  intro d hd
  rw [List.all_eq_true]
  intro g _
  by_cases hc : perms g d ∈ independentAtoms m
  · simp [independent_inequivalent h d hd g hc]
  · simp [hc]

theorem mapOperation_spec {n nrot : Nat} {perms : Fin nrot → Fin n → Fin n} {m : Fin n → Fin n}
    (h : equivCert perms m = true) (i : Fin n) : ∃ g, mapOperation perms m i = some g ∧ perms g i = m i := by
  obtain ⟨g0, hg0⟩ := (equivCert_spec h).2.1 i
  have : (mapOperation perms m i).isSome = true := by
    unfold mapOperation
    rw [List.find?_isSome]
    exact ⟨g0, List.mem_finRange g0, by simpa using hg0⟩
  obtain ⟨g, hg⟩ := Option.isSome_iff_exists.mp this
  refine ⟨g, hg, ?_⟩
  unfold mapOperation at hg
  simpa using List.find?_some hg

/-! ### site symmetry = stabiliser -/

theorem mem_siteOps {n nrot : Nat} {perms : Fin nrot → Fin n → Fin n} {a : Fin n} {g : Fin nrot} :
    g ∈ siteOps perms a ↔ perms g a = a := by
  simp [siteOps]

theorem siteOps_nodup {n nrot : Nat} (perms : Fin nrot → Fin n → Fin n) (a : Fin n) : (siteOps perms a).Nodup :=
  (List.nodup_finRange nrot).filter _

theorem mem_siteSymmetry {n nrot : Nat} {rots : Fin nrot → M3} {perms : Fin nrot → Fin n → Fin n} {a : Fin n}
    {r : M3} : r ∈ siteSymmetry rots perms a ↔ ∃ g, perms g a = a ∧ rots g = r := by
  simp [siteSymmetry, List.mem_map, mem_siteOps]

theorem identity_mem_siteSymmetry {n nrot : Nat} {rots : Fin nrot → M3} {perms : Fin nrot → Fin n → Fin n}
    (h : identityCert rots perms = true) (a : Fin n) : M3.one ∈ siteSymmetry rots perms a := by
  unfold identityCert at h
  rw [List.any_eq_true] at h
  obtain ⟨g, _, hg⟩ := h
  simp only [Bool.and_eq_true, beq_iff_eq, List.all_eq_true, List.mem_finRange, true_implies] at hg
  exact mem_siteSymmetry.mpr ⟨g, hg.2 a, hg.1⟩

/-! ### assembly of the direction list -/

theorem go_spec {n nrot : Nat} (rots : Fin nrot → M3) (perms : Fin nrot → Fin n → Fin n) (o : Options)
    (Lof : Fin n → List V3) :
    ∀ (as : List (Fin n)), as.Nodup →
      (∀ a ∈ as, leastDisplacements (siteSymmetry rots perms a) o = some (Lof a)) →
      ∃ out, generateDirections.go rots perms o as = some out ∧ (∀ p ∈ out, p.1 ∈ as) ∧
        ∀ a ∈ as, (out.filter (fun p => p.1 = a)).map (·.2) = Lof a
  | [], _, _ => ⟨[], rfl, by simp, by simp⟩
  | a :: rest, hnd, hL => by
    obtain ⟨tail, htail, hmem, hfil⟩ := go_spec rots perms o Lof rest (List.nodup_cons.mp hnd).2
      (fun b hb => hL b (List.mem_cons_of_mem _ hb))
    have ha : a ∉ rest := (List.nodup_cons.mp hnd).1
    refine ⟨(Lof a).map (fun d => (a, d)) ++ tail, ?_, ?_, ?_⟩
    · simp only [generateDirections.go, hL a List.mem_cons_self, htail]
    · intro p hp
      rcases List.mem_append.mp hp with h | h
      · obtain ⟨d, _, rfl⟩ := List.mem_map.mp h
        exact List.mem_cons_self
      · exact List.mem_cons_of_mem _ (hmem p h)
    · intro b hb
      rw [List.filter_append, List.map_append]
      rcases List.mem_cons.mp hb with rfl | hb'
      · have h1 : ((Lof b).map fun d => (b, d)).filter (fun p => decide (p.1 = b)) = (Lof b).map fun d => (b, d) := by
          apply List.filter_eq_self.mpr
          intro p hp
          obtain ⟨d, _, rfl⟩ := List.mem_map.mp hp
          simp
        have h2 : tail.filter (fun p => decide (p.1 = b)) = [] := by
          apply List.filter_eq_nil_iff.mpr
          intro p hp
          have := hmem p hp
          simp only [decide_eq_true_eq]
          intro e; exact ha (e ▸ this)
        rw [h1, h2]
        simp [Function.comp_def]
      · have hne : a ≠ b := fun e => ha (e ▸ hb')
        have h1 : ((Lof a).map fun d => (a, d)).filter (fun p => decide (p.1 = b)) = [] := by
          apply List.filter_eq_nil_iff.mpr
          intro p hp
          obtain ⟨d, _, rfl⟩ := List.mem_map.mp hp
          simp [hne]
        rw [h1]
        simpa using hfil b hb'

/-! ### directions are never zero; Cartesian data-set vectors -/

theorem rot_mul (a b : M3) (d : V3) : (a.mul b).rot d = a.rot (b.rot d) := by
  cases a; cases b; cases d
  simp only [M3.mul, M3.rot, V3.dot, V3.add, V3.smul, V3.mk.injEq]
  refine ⟨?_, ?_, ?_⟩ <;> ring

theorem rot_zero (r : M3) : r.rot V3.zero = V3.zero := by
  cases r; simp [M3.rot, V3.dot, V3.zero]

theorem trigonal_rot_ne_zero {r : M3} (h : isTrigonalAxis r = true) {d : V3} (hd : d ≠ V3.zero) :
    r.rot d ≠ V3.zero ∧ r.rot (r.rot d) ≠ V3.zero := by
  have h3 : r.rot (r.rot (r.rot d)) = d := by
    have : (r.mul r).mul r = M3.one := by simpa [isTrigonalAxis] using h
    rw [← rot_mul, ← rot_mul, this, rot_one]
  constructor
  · intro e; rw [e, rot_zero, rot_zero] at h3; exact hd h3.symm
  · intro e; rw [e, rot_zero] at h3; exact hd h3.symm

theorem getDisplacement_ne_zero {S : List M3} {dirs : List V3} (hdirs : ∀ d ∈ dirs, d ≠ V3.zero) {t : Bool}
    {D : List V3} (h : getDisplacement S dirs t = some D) : ∀ d ∈ D, d ≠ V3.zero := by
  unfold getDisplacement at h
  split at h
  · next i d h1 =>
    cases h
    intro d' hd'
    simp only [List.mem_singleton] at hd'
    exact hd' ▸ hdirs d (displacementOne_some h1).1
  · split at h
    · next i r d d2 h2 =>
      obtain ⟨hd, hd2, _, _, _⟩ := displacementTwo_some h2
      split at h
      · cases h
        intro v hv
        simp only [List.cons_append, List.nil_append, List.mem_cons, List.mem_append, List.mem_ite_nil_right,
          List.not_mem_nil, or_false] at hv
        rcases hv with rfl | ⟨ht, rfl | rfl⟩ | rfl
        · exact hdirs _ hd
        · exact (trigonal_rot_ne_zero ht (hdirs _ hd)).1
        · exact (trigonal_rot_ne_zero ht (hdirs _ hd)).2
        · exact hdirs _ hd2
      · cases h
        intro v hv
        simp only [List.mem_cons, List.not_mem_nil, or_false] at hv
        rcases hv with rfl | rfl
        · exact hdirs _ hd
        · exact hdirs _ hd2
    · split at h
      · next a b c rest =>
        cases h
        intro v hv
        simp only [List.mem_cons, List.not_mem_nil, or_false] at hv
        rcases hv with rfl | rfl | rfl
        · exact hdirs _ (by simp)
        · exact hdirs _ (by simp)
        · exact hdirs _ (by simp)
      · cases h

theorem neg_ne_zero' {d : V3} (h : d ≠ V3.zero) : d.neg ≠ V3.zero := by
  cases d
  simp only [V3.neg, V3.zero, ne_eq, V3.mk.injEq, neg_eq_zero] at h ⊢
  exact h

theorem leastDisplacements_ne_zero {S : List M3} {o : Options} {L : List V3}
    (h : leastDisplacements S o = some L) : ∀ d ∈ L, d ≠ V3.zero := by
  unfold leastDisplacements at h
  have hdirs : ∀ d ∈ (if o.isDiagonal then directionsDiag else directionsAxis), d ≠ V3.zero := by
    split
    · decide
    · decide
  cases hD : getDisplacement S (if o.isDiagonal then directionsDiag else directionsAxis) o.isTrigonal with
  | none => rw [hD] at h; cases h
  | some D =>
    rw [hD] at h
    simp only [Option.map_some, Option.some.injEq] at h
    subst h
    have hne := getDisplacement_ne_zero hdirs hD
    intro v hv
    obtain ⟨d, hd, hv'⟩ := List.mem_flatMap.mp hv
    cases hp : o.plusminus <;> rw [hp] at hv' <;> dsimp only at hv'
    · split at hv'
      · simp only [List.mem_cons, List.not_mem_nil, or_false] at hv'
        rcases hv' with rfl | rfl
        · exact hne _ hd
        · exact neg_ne_zero' (hne _ hd)
      · simp only [List.mem_singleton] at hv'
        exact hv' ▸ hne _ hd
    · simp only [List.mem_cons, List.not_mem_nil, or_false] at hv'
      rcases hv' with rfl | rfl
      · exact hne _ hd
      · exact neg_ne_zero' (hne _ hd)
    · simp only [List.mem_singleton] at hv'
      exact hv' ▸ hne _ hd

section ordered
variable {F : Type} [Field F] [LinearOrder F] [IsStrictOrderedRing F]

theorem dispCartesian_eq (lattice : Mat3 F) (d : V3) :
    dispCartesian lattice d = (ofMat lattice)ᵀ *ᵥ castV d := by
  funext j
  simp [dispCartesian, Matrix.mulVec, dotProduct, Fin.sum_univ_three, castV, mul_comm]

theorem castV_ne_zero {d : V3} (h : d ≠ V3.zero) : (castV d : Fin 3 → F) ≠ 0 := by
  intro e
  apply h
  have h0 := congrFun e 0
  have h1 := congrFun e 1
  have h2 := congrFun e 2
  simp only [castV, Matrix.cons_val_zero, Matrix.cons_val_one, Matrix.cons_val_two, Pi.zero_apply, Int.cast_eq_zero,
    Matrix.head_cons, Matrix.tail_cons] at h0 h1 h2
  cases d
  simp_all [V3.zero]

/-- the norm the code divides by is not zero (non-singular lattice, non-zero direction) -/
theorem norm_ne_zero (lattice : Mat3 F) (hL : (ofMat lattice).det ≠ 0) {d : V3} (hd : d ≠ V3.zero) (nrm : F)
    (hn : nrm * nrm = ∑ j, dispCartesian lattice d j * dispCartesian lattice d j) : nrm ≠ 0 := by
  intro e
  rw [e, mul_zero] at hn
  have hall := (Finset.sum_eq_zero_iff_of_nonneg (fun j _ => mul_self_nonneg (dispCartesian lattice d j))).mp hn.symm
  have hz : (ofMat lattice)ᵀ *ᵥ castV d = 0 := by
    rw [← dispCartesian_eq]
    funext j
    exact mul_self_eq_zero.mp (hall j (Finset.mem_univ j))
  have hdet : ((ofMat lattice)ᵀ).det ≠ 0 := by rwa [Matrix.det_transpose]
  exact castV_ne_zero hd (Matrix.eq_zero_of_mulVec_eq_zero hdet hz)

end ordered

end PhononModel.FD
