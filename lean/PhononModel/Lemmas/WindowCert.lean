import PhononModel.Lemmas.ShortestPairs
/-!
Soundness of the per-lattice window certificate `windowCert` of `Model/ShortestPairs.lean`.
-/
set_option linter.unusedSectionVars false
namespace PhononModel.ShortestPairs
open PhononModel

theorem absR_eq_abs (q : ℚ) : absR q = |q| := by
  unfold absR
  split
  · next h => rw [abs_of_neg h]
  · next h => rw [abs_of_nonneg (not_lt.mp h)]

theorem term_le (g a b : ℚ) (ha : |a| ≤ 1/2) (hb : |b| ≤ 1/2) : g * (a * b) ≤ |g| / 4 := by
  have h1 : |a * b| ≤ 1/4 := by
    rw [abs_mul]
    calc |a| * |b| ≤ (1/2) * (1/2) := mul_le_mul ha hb (abs_nonneg _) (by norm_num)
      _ = 1/4 := by norm_num
  calc g * (a * b) ≤ |g * (a * b)| := le_abs_self _
    _ = |g| * |a * b| := abs_mul _ _
    _ ≤ |g| * (1/4) := mul_le_mul_of_nonneg_left h1 (abs_nonneg _)
    _ = |g| / 4 := by ring

theorem len2_le_cubeRho2 (G : M3 ℚ) (d : V3 ℚ) (hd : |d.x| ≤ 1/2 ∧ |d.y| ≤ 1/2 ∧ |d.z| ≤ 1/2) :
    len2 G d ≤ cubeRho2 G := by
  obtain ⟨hx, hy, hz⟩ := hd
  rw [len2_expand]
  unfold cubeRho2
  simp only [absR_eq_abs]
  have t00 := term_le G.a00 d.x d.x hx hx
  have t01 := term_le G.a01 d.x d.y hx hy
  have t02 := term_le G.a02 d.x d.z hx hz
  have t10 := term_le G.a10 d.y d.x hy hx
  have t11 := term_le G.a11 d.y d.y hy hy
  have t12 := term_le G.a12 d.y d.z hy hz
  have t20 := term_le G.a20 d.z d.x hz hx
  have t21 := term_le G.a21 d.z d.y hz hy
  have t22 := term_le G.a22 d.z d.z hz hz
  nlinarith [t00, t01, t02, t10, t11, t12, t20, t21, t22]

/-- coordinates of a vector of squared length at most `rho2` -/
theorem coord_le_radius (G : M3 ℚ) (h : PD G) (v : V3 ℚ) (rho2 : ℚ) (hv : len2 G v ≤ rho2) :
    (-(radius G rho2 G.adj.a00 : ℚ) ≤ v.x ∧ v.x ≤ (radius G rho2 G.adj.a00 : ℚ)) ∧
    (-(radius G rho2 G.adj.a11 : ℚ) ≤ v.y ∧ v.y ≤ (radius G rho2 G.adj.a11 : ℚ)) ∧
    (-(radius G rho2 G.adj.a22 : ℚ) ≤ v.z ∧ v.z ≤ (radius G rho2 G.adj.a22 : ℚ)) := by
  obtain ⟨a0, a1, a2⟩ := adj_diag_pos G h
  have bnd : ∀ (t aii : ℚ), 0 < aii → t * t * G.det ≤ len2 G v * aii → t * t ≤ rho2 * aii / G.det := by
    intro t aii ha ht
    rw [le_div_iff₀ h.det]
    exact le_trans ht (mul_le_mul_of_nonneg_right hv (le_of_lt ha))
  exact ⟨abs_le_radius G rho2 G.adj.a00 _ (bnd _ _ a0 (gram_bound_x G h v)),
         abs_le_radius G rho2 G.adj.a11 _ (bnd _ _ a1 (gram_bound_y G h v)),
         abs_le_radius G rho2 G.adj.a22 _ (bnd _ _ a2 (gram_bound_z G h v))⟩

theorem mem_symRange (R : ℕ) (n : ℤ) (h1 : -(R : ℤ) ≤ n) (h2 : n ≤ (R : ℤ)) : n ∈ symRange R := by
  unfold symRange
  simp only [List.mem_map, List.mem_range]
  exact ⟨(n + R).toNat, by omega, by omega⟩

theorem int_bound_of_half {R : ℕ} {t : ℚ} {n : ℤ} (ht : |t| ≤ 1/2) (h1 : -(R : ℚ) ≤ t + n) (h2 : t + n ≤ (R : ℚ)) :
    -(R : ℤ) ≤ n ∧ n ≤ (R : ℤ) := by
  have hb := abs_le.mp ht
  constructor
  · have : (-(R : ℤ) - 1 : ℚ) < (n : ℚ) := by push_cast; linarith
    have : -(R : ℤ) - 1 < n := by exact_mod_cast this
    omega
  · have : (n : ℚ) < ((R : ℤ) + 1 : ℚ) := by push_cast; linarith
    have : n < (R : ℤ) + 1 := by exact_mod_cast this
    omega

theorem mem_cubeBox (G : M3 ℚ) (h : PD G) (d : V3 ℚ) (hd : |d.x| ≤ 1/2 ∧ |d.y| ≤ 1/2 ∧ |d.z| ≤ 1/2) (n : V3 ℤ)
    (hn : len2 G (d + n.toRat) ≤ cubeRho2 G) : n ∈ cubeBox G := by
  obtain ⟨bx, by', bz⟩ := coord_le_radius G h _ _ hn
  unfold cubeBox
  simp only [List.mem_flatMap, List.mem_map]
  have ix := int_bound_of_half hd.1 bx.1 bx.2
  have iy := int_bound_of_half hd.2.1 by'.1 by'.2
  have iz := int_bound_of_half hd.2.2 bz.1 bz.2
  exact ⟨n.x, mem_symRange _ _ ix.1 ix.2, n.y, mem_symRange _ _ iy.1 iy.2, n.z, mem_symRange _ _ iz.1 iz.2, rfl⟩

/-- the gain of stepping from the image `d+n` to `d+(n−e)`, bounded below over the cube -/
theorem step_gain_le (G : M3 ℚ) (h : PD G) (d : V3 ℚ) (hd : |d.x| ≤ 1/2 ∧ |d.y| ≤ 1/2 ∧ |d.z| ≤ 1/2) (n e : V3 ℤ) :
    stepGain G n e ≤ len2 G (d + n.toRat) - len2 G (d + (⟨n.x - e.x, n.y - e.y, n.z - e.z⟩ : V3 ℤ).toRat) := by
  obtain ⟨hx, hy, hz⟩ := hd
  have bx := abs_le.mp hx
  have by' := abs_le.mp hy
  have bz := abs_le.mp hz
  unfold stepGain
  simp only [absR_eq_abs]
  rw [len2_expand, len2_expand]
  simp only [V3.add_def, V3.toRat, V3.map, V3.dot, M3.mulVec, h.s01, h.s02, h.s12, Int.cast_sub]
  set gx := G.a00 * (e.x : ℚ) + G.a01 * (e.y : ℚ) + G.a02 * (e.z : ℚ) with hgx
  set gy := G.a01 * (e.x : ℚ) + G.a11 * (e.y : ℚ) + G.a12 * (e.z : ℚ) with hgy
  set gz := G.a02 * (e.x : ℚ) + G.a12 * (e.y : ℚ) + G.a22 * (e.z : ℚ) with hgz
  have e1 : -|gx| ≤ 2 * gx * d.x := by
    rcases abs_cases gx with ⟨ha, _⟩ | ⟨ha, _⟩ <;> rw [ha] <;> nlinarith
  have e2 : -|gy| ≤ 2 * gy * d.y := by
    rcases abs_cases gy with ⟨ha, _⟩ | ⟨ha, _⟩ <;> rw [ha] <;> nlinarith
  have e3 : -|gz| ≤ 2 * gz * d.z := by
    rcases abs_cases gz with ⟨ha, _⟩ | ⟨ha, _⟩ <;> rw [ha] <;> nlinarith
  have key : (d.x + ↑n.x) * (G.a00 * (d.x + ↑n.x) + G.a01 * (d.y + ↑n.y) + G.a02 * (d.z + ↑n.z)) +
          (d.y + ↑n.y) * (G.a01 * (d.x + ↑n.x) + G.a11 * (d.y + ↑n.y) + G.a12 * (d.z + ↑n.z)) +
        (d.z + ↑n.z) * (G.a02 * (d.x + ↑n.x) + G.a12 * (d.y + ↑n.y) + G.a22 * (d.z + ↑n.z)) -
      ((d.x + (↑n.x - ↑e.x)) * (G.a00 * (d.x + (↑n.x - ↑e.x)) + G.a01 * (d.y + (↑n.y - ↑e.y)) + G.a02 * (d.z + (↑n.z - ↑e.z))) +
          (d.y + (↑n.y - ↑e.y)) * (G.a01 * (d.x + (↑n.x - ↑e.x)) + G.a11 * (d.y + (↑n.y - ↑e.y)) + G.a12 * (d.z + (↑n.z - ↑e.z))) +
        (d.z + (↑n.z - ↑e.z)) * (G.a02 * (d.x + (↑n.x - ↑e.x)) + G.a12 * (d.y + (↑n.y - ↑e.y)) + G.a22 * (d.z + (↑n.z - ↑e.z))))
      = 2 * (gx * ↑n.x + gy * ↑n.y + gz * ↑n.z) - (↑e.x * gx + ↑e.y * gy + ↑e.z * gz) + (2 * gx * d.x + 2 * gy * d.y + 2 * gz * d.z) := by
    rw [hgx, hgy, hgz]; ring
  rw [key]
  linarith

/-- **soundness of the certificate**: if it passes, the search points contain every minimum image of
every separation in the cube `[-1/2,1/2]³`. -/
theorem windowCert_sound (G : M3 ℚ) (h : PD G) (W : List (V3 ℤ)) (hc : windowCert G W = true)
    (d : V3 ℚ) (hd : |d.x| ≤ 1/2 ∧ |d.y| ≤ 1/2 ∧ |d.z| ≤ 1/2) (n : V3 ℤ) (hn : IsGlobalMin G d n) : n ∈ W := by
  have h0 := hn ⟨0, 0, 0⟩
  rw [toRat_zero] at h0
  have hbox := mem_cubeBox G h d hd n (le_trans h0 (len2_le_cubeRho2 G d hd))
  unfold windowCert at hc
  rw [List.all_eq_true] at hc
  have := hc n hbox
  simp only [Bool.or_eq_true, List.contains_iff_mem, List.any_eq_true, decide_eq_true_eq] at this
  rcases this with hw | ⟨e, _, hg⟩
  · exact hw
  · exfalso
    have hs := step_gain_le G h d hd n e
    have hm := hn ⟨n.x - e.x, n.y - e.y, n.z - e.z⟩
    linarith

end PhononModel.ShortestPairs
