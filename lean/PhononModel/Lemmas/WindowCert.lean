import PhononModel.Lemmas.ShortestPairs
/-!
Soundness of the per-lattice window certificate `windowCert` of `Model/ShortestPairs.lean`.
-/
set_option linter.unusedSectionVars false
namespace PhononModel.ShortestPairs
open PhononModel

theorem absR_eq_abs (q : ℚ) : absR q = |q| := by
  unfold absR
  split
  · next h => rw [abs_of_neg h]
  · next h => rw [abs_of_nonneg (not_lt.mp h)]

theorem minR_le (a b : ℚ) : minR a b ≤ a ∧ minR a b ≤ b := by
  unfold minR; split
  · next h => exact ⟨le_refl _, h⟩
  · next h => exact ⟨le_of_lt (not_le.mp h), le_refl _⟩

theorem term_le (g a b : ℚ) (ha : |a| ≤ 1) (hb : |b| ≤ 1) : g * (a * b) ≤ |g| := by
  have h1 : |a * b| ≤ 1 := by
    rw [abs_mul]
    calc |a| * |b| ≤ 1 * 1 := mul_le_mul ha hb (abs_nonneg _) (by norm_num)
      _ = 1 := by norm_num
  calc g * (a * b) ≤ |g * (a * b)| := le_abs_self _
    _ = |g| * |a * b| := abs_mul _ _
    _ ≤ |g| * 1 := mul_le_mul_of_nonneg_left h1 (abs_nonneg _)
    _ = |g| := by ring

/-- the cube the kernels' separations live in: both positions are reduced into `[-1/2,1/2]³` -/
def InCube (d : V3 ℚ) : Prop := |d.x| ≤ 1 ∧ |d.y| ≤ 1 ∧ |d.z| ≤ 1

theorem len2_le_cubeRho2 (G : M3 ℚ) (d : V3 ℚ) (hd : InCube d) : len2 G d ≤ cubeRho2 G := by
  obtain ⟨hx, hy, hz⟩ := hd
  rw [len2_expand]
  unfold cubeRho2
  simp only [absR_eq_abs]
  have t00 := term_le G.a00 d.x d.x hx hx
  have t01 := term_le G.a01 d.x d.y hx hy
  have t02 := term_le G.a02 d.x d.z hx hz
  have t10 := term_le G.a10 d.y d.x hy hx
  have t11 := term_le G.a11 d.y d.y hy hy
  have t12 := term_le G.a12 d.y d.z hy hz
  have t20 := term_le G.a20 d.z d.x hz hx
  have t21 := term_le G.a21 d.z d.y hz hy
  have t22 := term_le G.a22 d.z d.z hz hz
  nlinarith [t00, t01, t02, t10, t11, t12, t20, t21, t22]

/-- coordinates of a vector of squared length at most `rho2` -/
theorem coord_le_radius (G : M3 ℚ) (h : PD G) (v : V3 ℚ) (rho2 : ℚ) (hv : len2 G v ≤ rho2) :
    (-(radius G rho2 G.adj.a00 : ℚ) ≤ v.x ∧ v.x ≤ (radius G rho2 G.adj.a00 : ℚ)) ∧
    (-(radius G rho2 G.adj.a11 : ℚ) ≤ v.y ∧ v.y ≤ (radius G rho2 G.adj.a11 : ℚ)) ∧
    (-(radius G rho2 G.adj.a22 : ℚ) ≤ v.z ∧ v.z ≤ (radius G rho2 G.adj.a22 : ℚ)) := by
  obtain ⟨a0, a1, a2⟩ := adj_diag_pos G h
  have bnd : ∀ (t aii : ℚ), 0 < aii → t * t * G.det ≤ len2 G v * aii → t * t ≤ rho2 * aii / G.det := by
    intro t aii ha ht
    rw [le_div_iff₀ h.det]
    exact le_trans ht (mul_le_mul_of_nonneg_right hv (le_of_lt ha))
  exact ⟨abs_le_radius G rho2 G.adj.a00 _ (bnd _ _ a0 (gram_bound_x G h v)),
         abs_le_radius G rho2 G.adj.a11 _ (bnd _ _ a1 (gram_bound_y G h v)),
         abs_le_radius G rho2 G.adj.a22 _ (bnd _ _ a2 (gram_bound_z G h v))⟩

theorem mem_symRange (R : ℕ) (n : ℤ) (h1 : -(R : ℤ) ≤ n) (h2 : n ≤ (R : ℤ)) : n ∈ symRange R := by
  unfold symRange
  simp only [List.mem_map, List.mem_range]
  exact ⟨(n + R).toNat, by omega, by omega⟩

theorem int_bound_of_unit {R : ℕ} {t : ℚ} {n : ℤ} (ht : |t| ≤ 1) (h1 : -(R : ℚ) ≤ t + n) (h2 : t + n ≤ (R : ℚ)) :
    -((R + 1 : ℕ) : ℤ) ≤ n ∧ n ≤ ((R + 1 : ℕ) : ℤ) := by
  have hb := abs_le.mp ht
  constructor
  · have : ((-((R + 1 : ℕ) : ℤ) : ℤ) : ℚ) ≤ (n : ℚ) := by push_cast; linarith
    exact_mod_cast this
  · have : (n : ℚ) ≤ (((R + 1 : ℕ) : ℤ) : ℚ) := by push_cast; linarith
    exact_mod_cast this

theorem mem_cubeBox (G : M3 ℚ) (h : PD G) (d : V3 ℚ) (hd : InCube d) (n : V3 ℤ)
    (hn : len2 G (d + n.toRat) ≤ cubeRho2 G) : n ∈ cubeBox G := by
  obtain ⟨bx, by', bz⟩ := coord_le_radius G h _ _ hn
  unfold cubeBox
  simp only [List.mem_flatMap, List.mem_map]
  have ix := int_bound_of_unit hd.1 bx.1 bx.2
  have iy := int_bound_of_unit hd.2.1 by'.1 by'.2
  have iz := int_bound_of_unit hd.2.2 bz.1 bz.2
  exact ⟨n.x, mem_symRange _ _ ix.1 ix.2, n.y, mem_symRange _ _ iy.1 iy.2, n.z, mem_symRange _ _ iz.1 iz.2, rfl⟩

/-- `lo ≤ d ≤ hi` componentwise -/
def InBox (lo hi d : V3 ℚ) : Prop :=
  (lo.x ≤ d.x ∧ d.x ≤ hi.x) ∧ (lo.y ≤ d.y ∧ d.y ≤ hi.y) ∧ (lo.z ≤ d.z ∧ d.z ≤ hi.z)

theorem lin_ge_min (c lo hi t : ℚ) (h1 : lo ≤ t) (h2 : t ≤ hi) : minR (c * lo) (c * hi) ≤ c * t := by
  obtain ⟨m1, m2⟩ := minR_le (c * lo) (c * hi)
  rcases le_total 0 c with hc | hc
  · exact le_trans m1 (mul_le_mul_of_nonneg_left h1 hc)
  · exact le_trans m2 (mul_le_mul_of_nonpos_left h2 hc)

/-- the gain of stepping from the image `d+n` to `d+(n−e)`, bounded below over a box -/
theorem step_gain_le (G : M3 ℚ) (h : PD G) (lo hi d : V3 ℚ) (hd : InBox lo hi d) (n e : V3 ℤ) :
    stepGainBox G n e lo hi ≤
      len2 G (d + n.toRat) - len2 G (d + (⟨n.x - e.x, n.y - e.y, n.z - e.z⟩ : V3 ℤ).toRat) := by
  obtain ⟨hx, hy, hz⟩ := hd
  unfold stepGainBox
  rw [len2_expand, len2_expand]
  simp only [V3.add_def, V3.toRat, V3.map, V3.dot, M3.mulVec, h.s01, h.s02, h.s12, Int.cast_sub]
  set gx := G.a00 * (e.x : ℚ) + G.a01 * (e.y : ℚ) + G.a02 * (e.z : ℚ) with hgx
  set gy := G.a01 * (e.x : ℚ) + G.a11 * (e.y : ℚ) + G.a12 * (e.z : ℚ) with hgy
  set gz := G.a02 * (e.x : ℚ) + G.a12 * (e.y : ℚ) + G.a22 * (e.z : ℚ) with hgz
  have e1 := lin_ge_min (2 * gx) lo.x hi.x d.x hx.1 hx.2
  have e2 := lin_ge_min (2 * gy) lo.y hi.y d.y hy.1 hy.2
  have e3 := lin_ge_min (2 * gz) lo.z hi.z d.z hz.1 hz.2
  have key : (d.x + ↑n.x) * (G.a00 * (d.x + ↑n.x) + G.a01 * (d.y + ↑n.y) + G.a02 * (d.z + ↑n.z)) +
          (d.y + ↑n.y) * (G.a01 * (d.x + ↑n.x) + G.a11 * (d.y + ↑n.y) + G.a12 * (d.z + ↑n.z)) +
        (d.z + ↑n.z) * (G.a02 * (d.x + ↑n.x) + G.a12 * (d.y + ↑n.y) + G.a22 * (d.z + ↑n.z)) -
      ((d.x + (↑n.x - ↑e.x)) * (G.a00 * (d.x + (↑n.x - ↑e.x)) + G.a01 * (d.y + (↑n.y - ↑e.y)) + G.a02 * (d.z + (↑n.z - ↑e.z))) +
          (d.y + (↑n.y - ↑e.y)) * (G.a01 * (d.x + (↑n.x - ↑e.x)) + G.a11 * (d.y + (↑n.y - ↑e.y)) + G.a12 * (d.z + (↑n.z - ↑e.z))) +
        (d.z + (↑n.z - ↑e.z)) * (G.a02 * (d.x + (↑n.x - ↑e.x)) + G.a12 * (d.y + (↑n.y - ↑e.y)) + G.a22 * (d.z + (↑n.z - ↑e.z))))
      = 2 * (gx * ↑n.x + gy * ↑n.y + gz * ↑n.z) - (↑e.x * gx + ↑e.y * gy + ↑e.z * gz) + (2 * gx * d.x + 2 * gy * d.y + 2 * gz * d.z) := by
    rw [hgx, hgy, hgz]; ring
  rw [key]
  linarith

/-- a coordinate of the box lies in one of its two halves -/
theorem mem_halves (lo hi t : ℚ) (h1 : lo ≤ t) (h2 : t ≤ hi) : ∃ b ∈ halves lo hi, b.1 ≤ t ∧ t ≤ b.2 := by
  unfold halves
  rcases le_total t ((lo + hi) / 2) with h | h
  · exact ⟨(lo, (lo + hi) / 2), by simp, h1, h⟩
  · exact ⟨((lo + hi) / 2, hi), by simp, h, h2⟩

/-- if the bisection certificate holds on a box, then at every point of the box some neighbour of `n`
gives a strictly shorter image -/
theorem certPoint_sound (G : M3 ℚ) (h : PD G) (n : V3 ℤ) : ∀ (depth : ℕ) (lo hi d : V3 ℚ),
    certPoint G n depth lo hi = true → InBox lo hi d →
    ∃ e : V3 ℤ, len2 G (d + (⟨n.x - e.x, n.y - e.y, n.z - e.z⟩ : V3 ℤ).toRat) < len2 G (d + n.toRat)
  | depth, lo, hi, d, hc, hd => by
    unfold certPoint at hc
    rw [Bool.or_eq_true] at hc
    rcases hc with hc | hc
    · rw [List.any_eq_true] at hc
      obtain ⟨e, _, hg⟩ := hc
      have hg' := of_decide_eq_true hg
      have := step_gain_le G h lo hi d hd n e
      exact ⟨e, by linarith⟩
    · match depth, hc with
      | 0, hc => cases hc
      | k + 1, hc =>
        simp only [List.all_eq_true] at hc
        obtain ⟨bx, hbx, hx⟩ := mem_halves lo.x hi.x d.x hd.1.1 hd.1.2
        obtain ⟨by', hby, hy⟩ := mem_halves lo.y hi.y d.y hd.2.1.1 hd.2.1.2
        obtain ⟨bz, hbz, hz⟩ := mem_halves lo.z hi.z d.z hd.2.2.1 hd.2.2.2
        exact certPoint_sound G h n k _ _ d (hc bx hbx by' hby bz hbz) ⟨hx, hy, hz⟩

/-- **soundness of the certificate**: if it passes, the search points contain every minimum image of
every separation in the cube `[-1,1]³`. -/
theorem windowCert_sound (G : M3 ℚ) (h : PD G) (W : List (V3 ℤ)) (hc : windowCert G W = true)
    (d : V3 ℚ) (hd : InCube d) (n : V3 ℤ) (hn : IsGlobalMin G d n) : n ∈ W := by
  have h0 := hn ⟨0, 0, 0⟩
  rw [toRat_zero] at h0
  have hbox := mem_cubeBox G h d hd n (le_trans h0 (len2_le_cubeRho2 G d hd))
  unfold windowCert at hc
  rw [List.all_eq_true] at hc
  have := hc n hbox
  simp only [Bool.or_eq_true, List.contains_iff_mem] at this
  rcases this with hw | hcp
  · exact hw
  · exfalso
    obtain ⟨hx, hy, hz⟩ := hd
    have bx := abs_le.mp hx
    have by' := abs_le.mp hy
    have bz := abs_le.mp hz
    obtain ⟨e, he⟩ := certPoint_sound G h n certDepth ⟨-1, -1, -1⟩ ⟨1, 1, 1⟩ d hcp
      ⟨⟨bx.1, bx.2⟩, ⟨by'.1, by'.2⟩, ⟨bz.1, bz.2⟩⟩
    have hm := hn ⟨n.x - e.x, n.y - e.y, n.z - e.z⟩
    linarith

end PhononModel.ShortestPairs
