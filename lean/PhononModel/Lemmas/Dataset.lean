import PhononModel.Model.Dataset
/-!
Helper lemmas for property C16 (dataset conversion): the inverse `entries`/`entryOf`
recovers a type-1 entry from its spread-out snapshot.
-/
namespace PhononModel.C16
open PhononModel.DS

variable {n : Nat} {α : Type} [OfNat α 0] [DecidableEq α]

/-- the displacement vector is not the zero vector -/
def NonZero (v : Vec3 α) : Prop := v 0 ≠ 0 ∨ v 1 ≠ 0 ∨ v 2 ≠ 0

theorem rowIsZero_spread_self (e : Entry n α) (h : NonZero e.displacement) :
    rowIsZero (spread e) e.number = false := by
  unfold rowIsZero spread
  simp only [if_true]
  rcases h with h | h | h <;> simp [h]

theorem rowIsZero_spread_other (e : Entry n α) (i : Fin n) (h : i ≠ e.number) :
    rowIsZero (spread e) i = true := by
  unfold rowIsZero spread
  simp [h]

theorem find_unique {β : Type} [DecidableEq β] (p : β → Bool) (a : β) :
    ∀ (l : List β), a ∈ l → (∀ x ∈ l, p x = true → x = a) → p a = true → l.find? p = some a
  | [], h, _, _ => by cases h
  | x :: xs, h, hu, hp => by
    by_cases hx : p x = true
    · have := hu x (List.mem_cons_self) hx
      subst this
      simp [List.find?, hx]
    · have hxa : x ≠ a := fun e => hx (e ▸ hp)
      have ha : a ∈ xs := by
        cases h with
        | head => exact absurd rfl hxa
        | tail _ h => exact h
      simp only [List.find?, hx]
      exact find_unique p a xs ha (fun y hy => hu y (List.mem_cons_of_mem _ hy)) hp

theorem displacedAtom_spread (e : Entry n α) (h : NonZero e.displacement) :
    displacedAtom (spread e) = some e.number := by
  unfold displacedAtom
  apply find_unique
  · exact List.mem_finRange _
  · intro x _ hx
    by_cases hxe : x = e.number
    · exact hxe
    · rw [rowIsZero_spread_other e x hxe] at hx; cases hx
  · rw [rowIsZero_spread_self e h]; rfl

theorem entryOf_spread (e : Entry n α) (h : NonZero e.displacement) (f : Option (Field3 n α)) :
    entryOf (spread e) f = some { number := e.number, displacement := e.displacement, forces := f } := by
  unfold entryOf
  rw [displacedAtom_spread e h]
  simp only
  have hall : (List.finRange n).all (fun j => j = e.number || rowIsZero (spread e) j) = true := by
    rw [List.all_eq_true]
    intro j _
    by_cases hj : j = e.number
    · simp [hj]
    · simp [rowIsZero_spread_other e j hj]
  rw [if_pos hall]
  congr 2
  funext k
  simp [spread]
end PhononModel.C16
namespace PhononModel.C16
open PhononModel.DS
variable {n : Nat} {α : Type} [OfNat α 0] [DecidableEq α]

theorem entries_none (l : List (Entry n α))
    (h : ∀ e ∈ l, NonZero e.displacement ∧ e.forces = none) :
    entries (l.map spread) none = some l := by
  induction l with
  | nil => rfl
  | cons e es ih =>
    have he := h e List.mem_cons_self
    have ih' := ih (fun x hx => h x (List.mem_cons_of_mem _ hx))
    simp only [List.map_cons, entries, entryOf_spread e he.1, ih']
    congr 2
    cases e; simp_all

def getF (e : Entry n α) : Field3 n α := match e.forces with | some f => f | none => zeroField

theorem entries_some (l : List (Entry n α))
    (h : ∀ e ∈ l, NonZero e.displacement ∧ e.forces.isSome = true) :
    entries (l.map spread) (some (l.map getF)) = some l := by
  induction l with
  | nil => rfl
  | cons e es ih =>
    have he := h e List.mem_cons_self
    have ih' := ih (fun x hx => h x (List.mem_cons_of_mem _ hx))
    simp only [List.map_cons, entries, entryOf_spread e he.1, ih']
    congr 2
    obtain ⟨num, disp, f⟩ := e
    cases f with
    | none => simp at he
    | some f => simp [getF]

end PhononModel.C16
