import PhononModel.Model.EOS
import Mathlib.Analysis.SpecialFunctions.Pow.Deriv
import Mathlib.Analysis.SpecialFunctions.ExpDeriv
import Mathlib.Tactic.FieldSimp
import Mathlib.Tactic.Positivity
import Mathlib.Tactic.Linarith
import Mathlib.Tactic.NormNum
/-!
Calculus lemmas behind Props/C20.lean: first, second and third volume derivatives of the three
equations of state, written as explicit functions so that each step is a `HasDerivAt` statement.
-/
namespace PhononModel.C20
open PhononModel.EOS Real

/-- real instantiation: `**` is `Real.rpow`, `np.exp` is `Real.exp` -/
noncomputable def envR : EosEnv ℝ := { rpow := fun a b => a ^ b, exp := Real.exp }

variable {V0 v p : ℝ}

/-- `d/dv (V₀/v)^p = -(p/v)·(V₀/v)^p` -/
theorem hasDerivAt_ratio_rpow (hV0 : 0 < V0) (hv : 0 < v) (p : ℝ) :
    HasDerivAt (fun y : ℝ => (V0 / y) ^ p) (-(p / v) * (V0 / v) ^ p) v := by
  have hpos : 0 < V0 / v := div_pos hV0 hv
  have h1 : HasDerivAt (fun y : ℝ => V0 / y) ((0 * v - V0 * 1) / v ^ 2) v :=
    (hasDerivAt_const v V0).fun_div (hasDerivAt_id' v) (ne_of_gt hv)
  have h2 := h1.rpow_const (p := p) (Or.inl (ne_of_gt hpos))
  refine h2.congr_deriv ?_
  rw [Real.rpow_sub_one (ne_of_gt hpos)]
  field_simp
  ring

/-- `d/dv (v/V₀)^p = (p/v)·(v/V₀)^p` -/
theorem hasDerivAt_ratio_rpow' (hV0 : 0 < V0) (hv : 0 < v) (p : ℝ) :
    HasDerivAt (fun y : ℝ => (y / V0) ^ p) ((p / v) * (v / V0) ^ p) v := by
  have hpos : 0 < v / V0 := div_pos hv hV0
  have h1 : HasDerivAt (fun y : ℝ => y / V0) (1 / V0) v := (hasDerivAt_id' v).div_const V0
  have h2 := h1.rpow_const (p := p) (Or.inl (ne_of_gt hpos))
  refine h2.congr_deriv ?_
  rw [Real.rpow_sub_one (ne_of_gt hpos)]
  field_simp

theorem ratio_self (hV0 : 0 < V0) (p : ℝ) : (V0 / V0) ^ p = 1 := by
  rw [div_self (ne_of_gt hV0), Real.one_rpow]

/-! ### Murnaghan -/

section murnaghan
variable (P : EosParams ℝ)

/-- `E'(v) = (B₀/B₀')·(1 - (V₀/v)^{B₀'})` -/
noncomputable def murE1 (v : ℝ) : ℝ := P.B0 / P.Bp * (1 - (P.V0 / v) ^ P.Bp)
/-- `E''(v) = B₀·(V₀/v)^{B₀'}/v` -/
noncomputable def murE2 (v : ℝ) : ℝ := P.B0 * (P.V0 / v) ^ P.Bp / v

theorem mur_hasDerivAt (hV0 : 0 < P.V0) (hp0 : P.Bp ≠ 0) (hp1 : P.Bp ≠ 1) (hv : 0 < v) :
    HasDerivAt (murnaghan envR P) (murE1 P v) v := by
  have hy := hasDerivAt_ratio_rpow hV0 hv P.Bp
  have h1 : HasDerivAt (fun y : ℝ => P.B0 * y / P.Bp) (P.B0 / P.Bp) v := by
    have := ((hasDerivAt_id' v).const_mul P.B0).div_const P.Bp
    simpa using this
  have h2 := ((hy.div_const (P.Bp - 1)).add_const 1)
  have h3 := ((h1.fun_mul h2).const_add P.E0).sub_const (P.B0 * P.V0 / (P.Bp - 1))
  have hfun : murnaghan envR P = fun y => P.E0 + P.B0 * y / P.Bp * ((P.V0 / y) ^ P.Bp / (P.Bp - 1) + 1)
      - P.B0 * P.V0 / (P.Bp - 1) := rfl
  rw [hfun]
  refine h3.congr_deriv ?_
  have hp1' : P.Bp - 1 ≠ 0 := sub_ne_zero.2 hp1
  unfold murE1
  field_simp
  ring

theorem murE1_hasDerivAt (hV0 : 0 < P.V0) (hp0 : P.Bp ≠ 0) (hv : 0 < v) :
    HasDerivAt (murE1 P) (murE2 P v) v := by
  have hy := hasDerivAt_ratio_rpow hV0 hv P.Bp
  have h := (hy.const_sub 1).const_mul (P.B0 / P.Bp)
  refine h.congr_deriv ?_
  unfold murE2
  field_simp

/-- bulk modulus `B(v) = v E''(v) = B₀ (V₀/v)^{B₀'}`, `dB/dv = -B₀'·B(v)/v` -/
theorem mur_bulk_hasDerivAt (hV0 : 0 < P.V0) (hv : 0 < v) :
    HasDerivAt (fun y => y * murE2 P y) (-(P.Bp * (P.B0 * (P.V0 / v) ^ P.Bp) / v)) v := by
  have hy := (hasDerivAt_ratio_rpow hV0 hv P.Bp).const_mul P.B0
  have : HasDerivAt (fun y => y * murE2 P y) (P.B0 * (-(P.Bp / v) * (P.V0 / v) ^ P.Bp)) v := by
    refine hy.congr_of_eventuallyEq ?_
    filter_upwards [eventually_gt_nhds hv] with y hy0
    unfold murE2
    field_simp
  refine this.congr_deriv ?_
  ring

end murnaghan

/-! ### Birch–Murnaghan (third order) -/

section bm
variable (P : EosParams ℝ)

/-- `y(v) = (V₀/v)^{2/3}` -/
noncomputable def bmY (v : ℝ) : ℝ := (P.V0 / v) ^ ((2:ℝ) / 3)
/-- `w = y' = -(2/3)·y/v` -/
noncomputable def bmW (v : ℝ) : ℝ := -((2:ℝ) / 3 / v) * bmY P v

noncomputable def bmPhi (Bp t : ℝ) : ℝ := (t - 1) * (t - 1) * (t - 1) * Bp + (t - 1) * (t - 1) * (6 - 4 * t)
noncomputable def bmPhi1 (Bp t : ℝ) : ℝ := 3 * (t - 1) ^ 2 * Bp + 2 * (t - 1) * (6 - 4 * t) - 4 * (t - 1) ^ 2
noncomputable def bmPhi2 (Bp t : ℝ) : ℝ := 6 * (t - 1) * Bp + 2 * (6 - 4 * t) - 16 * (t - 1)
noncomputable def bmPhi3 (Bp : ℝ) : ℝ := 6 * Bp - 24

theorem bmPhi_hasDerivAt (Bp t : ℝ) : HasDerivAt (bmPhi Bp) (bmPhi1 Bp t) t := by
  have h1 : HasDerivAt (fun s : ℝ => s - 1) 1 t := (hasDerivAt_id' t).sub_const 1
  have h6 : HasDerivAt (fun s : ℝ => 6 - 4 * s) (-4) t := by
    simpa using ((hasDerivAt_id' t).const_mul (4:ℝ)).const_sub 6
  have := (((h1.fun_mul h1).fun_mul h1).mul_const Bp).fun_add ((h1.fun_mul h1).fun_mul h6)
  refine this.congr_deriv ?_
  unfold bmPhi1; ring

theorem bmPhi1_hasDerivAt (Bp t : ℝ) : HasDerivAt (bmPhi1 Bp) (bmPhi2 Bp t) t := by
  have h1 : HasDerivAt (fun s : ℝ => s - 1) 1 t := (hasDerivAt_id' t).sub_const 1
  have h6 : HasDerivAt (fun s : ℝ => 6 - 4 * s) (-4) t := by
    simpa using ((hasDerivAt_id' t).const_mul (4:ℝ)).const_sub 6
  have := ((((h1.fun_pow 2).const_mul 3).mul_const Bp).fun_add ((h1.const_mul 2).fun_mul h6)).fun_sub
    ((h1.fun_pow 2).const_mul 4)
  refine this.congr_deriv ?_
  unfold bmPhi2; simp; ring

theorem bmPhi2_hasDerivAt (Bp t : ℝ) : HasDerivAt (bmPhi2 Bp) (bmPhi3 Bp) t := by
  have h1 : HasDerivAt (fun s : ℝ => s - 1) 1 t := (hasDerivAt_id' t).sub_const 1
  have h6 : HasDerivAt (fun s : ℝ => 6 - 4 * s) (-4) t := by
    simpa using ((hasDerivAt_id' t).const_mul (4:ℝ)).const_sub 6
  have := (((h1.const_mul 6).mul_const Bp).fun_add (h6.const_mul 2)).fun_sub (h1.const_mul 16)
  refine this.congr_deriv ?_
  unfold bmPhi3; ring

theorem bmY_hasDerivAt (hV0 : 0 < P.V0) (hv : 0 < v) : HasDerivAt (bmY P) (bmW P v) v :=
  hasDerivAt_ratio_rpow hV0 hv _

/-- `w' = (10/9)·y/v²` -/
theorem bmW_hasDerivAt (hV0 : 0 < P.V0) (hv : 0 < v) :
    HasDerivAt (bmW P) ((10:ℝ) / 9 * bmY P v / v ^ 2) v := by
  have h1 : HasDerivAt (fun y : ℝ => -((2:ℝ) / 3 / y)) (-(((0:ℝ) * v - 2 / 3 * 1) / v ^ 2)) v :=
    ((hasDerivAt_const v ((2:ℝ) / 3)).fun_div (hasDerivAt_id' v) (ne_of_gt hv)).neg
  have := h1.fun_mul (bmY_hasDerivAt P hV0 hv)
  refine this.congr_deriv ?_
  unfold bmW
  field_simp
  ring

theorem bm_eq (v : ℝ) : birchMurnaghan envR P v = P.E0 + 9 / 16 * P.V0 * P.B0 * bmPhi P.Bp (bmY P v) := rfl

noncomputable def bmE1 (v : ℝ) : ℝ := 9 / 16 * P.V0 * P.B0 * (bmPhi1 P.Bp (bmY P v) * bmW P v)
noncomputable def bmE2 (v : ℝ) : ℝ :=
  9 / 16 * P.V0 * P.B0 * (bmPhi2 P.Bp (bmY P v) * bmW P v * bmW P v
    + bmPhi1 P.Bp (bmY P v) * ((10:ℝ) / 9 * bmY P v / v ^ 2))

theorem bm_hasDerivAt (hV0 : 0 < P.V0) (hv : 0 < v) : HasDerivAt (birchMurnaghan envR P) (bmE1 P v) v := by
  have h := (((bmPhi_hasDerivAt P.Bp (bmY P v)).comp v (bmY_hasDerivAt P hV0 hv)).const_mul
    (9 / 16 * P.V0 * P.B0)).const_add P.E0
  exact h

theorem bmE1_hasDerivAt (hV0 : 0 < P.V0) (hv : 0 < v) : HasDerivAt (bmE1 P) (bmE2 P v) v := by
  have h1 := (bmPhi1_hasDerivAt P.Bp (bmY P v)).comp v (bmY_hasDerivAt P hV0 hv)
  have h := (h1.fun_mul (bmW_hasDerivAt P hV0 hv)).const_mul (9 / 16 * P.V0 * P.B0)
  refine h.congr_deriv ?_
  unfold bmE2; simp only [Function.comp_apply]

theorem bmY_V0 (hV0 : 0 < P.V0) : bmY P P.V0 = 1 := ratio_self hV0 _

/-- `d/dv [v·E''(v)]` at `V₀` equals `-B₀'·B₀/V₀` -/
theorem bm_bulk_hasDerivAt (hV0 : 0 < P.V0) :
    HasDerivAt (fun y => y * bmE2 P y) (-(P.Bp * P.B0 / P.V0)) P.V0 := by
  have hv := hV0
  have hY := bmY_hasDerivAt P hV0 hv
  have hW := bmW_hasDerivAt P hV0 hv
  have h2 := (bmPhi2_hasDerivAt P.Bp (bmY P P.V0)).comp P.V0 hY
  have h1 := (bmPhi1_hasDerivAt P.Bp (bmY P P.V0)).comp P.V0 hY
  have hq : HasDerivAt (fun y : ℝ => (10:ℝ) / 9 * bmY P y / y ^ 2)
      (((10:ℝ) / 9 * bmW P P.V0 * P.V0 ^ 2 - (10:ℝ) / 9 * bmY P P.V0 * (2 * P.V0)) / (P.V0 ^ 2) ^ 2) P.V0 := by
    have hp : HasDerivAt (fun y : ℝ => y ^ 2) (2 * P.V0) P.V0 := by
      simpa using (hasDerivAt_id' P.V0).fun_pow 2
    exact (hY.const_mul ((10:ℝ) / 9)).fun_div hp (by positivity)
  have hE2 := ((((h2.fun_mul hW).fun_mul hW).fun_add (h1.fun_mul hq)).const_mul (9 / 16 * P.V0 * P.B0))
  have h := (hasDerivAt_id' P.V0).fun_mul hE2
  refine h.congr_deriv ?_
  simp only [Function.comp, bmW, bmY_V0 P hV0, bmPhi1, bmPhi2, bmPhi3]
  field_simp
  ring

end bm

/-! ### Vinet -/

section vinet
variable (P : EosParams ℝ)

noncomputable def vinXi : ℝ := 3 / 2 * (P.Bp - 1)
/-- `x(v) = (v/V₀)^{1/3}` -/
noncomputable def vinX (v : ℝ) : ℝ := (v / P.V0) ^ ((1:ℝ) / 3)
/-- `t(v) = ξ(1 - x)` -/
noncomputable def vinT (v : ℝ) : ℝ := vinXi P * (1 - vinX P v)
/-- `u = t' = -ξ·x/(3v)` -/
noncomputable def vinU (v : ℝ) : ℝ := -(vinXi P * ((1:ℝ) / 3 / v * vinX P v))

noncomputable def vinPsi (t : ℝ) : ℝ := 1 + (t - 1) * Real.exp t
noncomputable def vinPsi1 (t : ℝ) : ℝ := t * Real.exp t
noncomputable def vinPsi2 (t : ℝ) : ℝ := (1 + t) * Real.exp t
noncomputable def vinPsi3 (t : ℝ) : ℝ := (2 + t) * Real.exp t

theorem vinPsi_hasDerivAt (t : ℝ) : HasDerivAt vinPsi (vinPsi1 t) t := by
  have := (((hasDerivAt_id' t).sub_const 1).fun_mul (Real.hasDerivAt_exp t)).const_add 1
  refine this.congr_deriv ?_
  unfold vinPsi1; ring

theorem vinPsi1_hasDerivAt (t : ℝ) : HasDerivAt vinPsi1 (vinPsi2 t) t := by
  have := (hasDerivAt_id' t).fun_mul (Real.hasDerivAt_exp t)
  refine this.congr_deriv ?_
  unfold vinPsi2; ring

theorem vinPsi2_hasDerivAt (t : ℝ) : HasDerivAt vinPsi2 (vinPsi3 t) t := by
  have := ((hasDerivAt_id' t).const_add 1).fun_mul (Real.hasDerivAt_exp t)
  refine this.congr_deriv ?_
  unfold vinPsi3; ring

theorem vinX_hasDerivAt (hV0 : 0 < P.V0) (hv : 0 < v) :
    HasDerivAt (vinX P) ((1:ℝ) / 3 / v * vinX P v) v :=
  hasDerivAt_ratio_rpow' hV0 hv _

theorem vinT_hasDerivAt (hV0 : 0 < P.V0) (hv : 0 < v) : HasDerivAt (vinT P) (vinU P v) v := by
  have := ((vinX_hasDerivAt P hV0 hv).const_sub 1).const_mul (vinXi P)
  refine this.congr_deriv ?_
  unfold vinU; ring

/-- `u' = (2/9)·ξ·x/v²` -/
theorem vinU_hasDerivAt (hV0 : 0 < P.V0) (hv : 0 < v) :
    HasDerivAt (vinU P) ((2:ℝ) / 9 * vinXi P * vinX P v / v ^ 2) v := by
  have h1 : HasDerivAt (fun y : ℝ => (1:ℝ) / 3 / y) (((0:ℝ) * v - 1 / 3 * 1) / v ^ 2) v :=
    (hasDerivAt_const v ((1:ℝ) / 3)).fun_div (hasDerivAt_id' v) (ne_of_gt hv)
  have := ((h1.fun_mul (vinX_hasDerivAt P hV0 hv)).const_mul (vinXi P)).neg
  refine this.congr_deriv ?_
  field_simp
  ring

theorem vinet_eq (v : ℝ) :
    vinet envR P v = P.E0 + 9 * P.B0 * P.V0 / (vinXi P * vinXi P) * vinPsi (vinT P v) := rfl

noncomputable def vinK : ℝ := 9 * P.B0 * P.V0 / (vinXi P * vinXi P)
noncomputable def vinE1 (v : ℝ) : ℝ := vinK P * (vinPsi1 (vinT P v) * vinU P v)
noncomputable def vinE2 (v : ℝ) : ℝ :=
  vinK P * (vinPsi2 (vinT P v) * vinU P v * vinU P v
    + vinPsi1 (vinT P v) * ((2:ℝ) / 9 * vinXi P * vinX P v / v ^ 2))

theorem vinet_hasDerivAt (hV0 : 0 < P.V0) (hv : 0 < v) : HasDerivAt (vinet envR P) (vinE1 P v) v :=
  (((vinPsi_hasDerivAt (vinT P v)).comp v (vinT_hasDerivAt P hV0 hv)).const_mul (vinK P)).const_add P.E0

theorem vinE1_hasDerivAt (hV0 : 0 < P.V0) (hv : 0 < v) : HasDerivAt (vinE1 P) (vinE2 P v) v := by
  have h1 := (vinPsi1_hasDerivAt (vinT P v)).comp v (vinT_hasDerivAt P hV0 hv)
  have h := (h1.fun_mul (vinU_hasDerivAt P hV0 hv)).const_mul (vinK P)
  refine h.congr_deriv ?_
  unfold vinE2; simp only [Function.comp_apply]

theorem vinX_V0 (hV0 : 0 < P.V0) : vinX P P.V0 = 1 := by
  unfold vinX; rw [div_self (ne_of_gt hV0), Real.one_rpow]

theorem vinT_V0 (hV0 : 0 < P.V0) : vinT P P.V0 = 0 := by
  unfold vinT; rw [vinX_V0 P hV0]; ring

/-- `d/dv [v·E''(v)]` at `V₀` equals `-B₀'·B₀/V₀` (needs `B₀' ≠ 1`, i.e. `ξ ≠ 0`) -/
theorem vinet_bulk_hasDerivAt (hV0 : 0 < P.V0) (hp1 : P.Bp ≠ 1) :
    HasDerivAt (fun y => y * vinE2 P y) (-(P.Bp * P.B0 / P.V0)) P.V0 := by
  have hv := hV0
  have hT := vinT_hasDerivAt P hV0 hv
  have hU := vinU_hasDerivAt P hV0 hv
  have hX := vinX_hasDerivAt P hV0 hv
  have h2 := (vinPsi2_hasDerivAt (vinT P P.V0)).comp P.V0 hT
  have h1 := (vinPsi1_hasDerivAt (vinT P P.V0)).comp P.V0 hT
  have hq : HasDerivAt (fun y : ℝ => (2:ℝ) / 9 * vinXi P * vinX P y / y ^ 2)
      (((2:ℝ) / 9 * vinXi P * ((1:ℝ) / 3 / P.V0 * vinX P P.V0) * P.V0 ^ 2
        - (2:ℝ) / 9 * vinXi P * vinX P P.V0 * (2 * P.V0)) / (P.V0 ^ 2) ^ 2) P.V0 := by
    have hp : HasDerivAt (fun y : ℝ => y ^ 2) (2 * P.V0) P.V0 := by
      simpa using (hasDerivAt_id' P.V0).fun_pow 2
    exact (hX.const_mul ((2:ℝ) / 9 * vinXi P)).fun_div hp (by positivity)
  have hE2 := ((((h2.fun_mul hU).fun_mul hU).fun_add (h1.fun_mul hq)).const_mul (vinK P))
  have h := (hasDerivAt_id' P.V0).fun_mul hE2
  refine h.congr_deriv ?_
  have hxi : vinXi P ≠ 0 := by
    unfold vinXi; intro h0
    have : P.Bp - 1 = 0 := by linarith
    exact hp1 (by linarith)
  simp only [Function.comp_apply, vinU, vinT_V0 P hV0, vinX_V0 P hV0, vinPsi1, vinPsi2, vinPsi3, vinK,
    Real.exp_zero]
  have hxi' : P.Bp = 1 + 2 / 3 * vinXi P := by unfold vinXi; ring
  rw [hxi']
  field_simp
  ring

end vinet

end PhononModel.C20
