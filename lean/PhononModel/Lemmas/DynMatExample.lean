import PhononModel.Lemmas.DynMatRot
import Mathlib.Tactic.FinCases
import Mathlib.Tactic.NormNum
/-!
A concrete instance of every structure the C02/C03 theorems quantify over (non-vacuity):
the monatomic chain with a two-cell supercell.
-/
set_option linter.unusedSectionVars false
namespace PhononModel.Chain
open PhononModel Finset
open scoped Classical

/-!
Positions are integers, primitive lattice ℤ, supercell lattice 2ℤ, supercell atoms at 0 and 1.
Nearest-neighbour springs: `Ψ(±1) = −1`, `Ψ(0) = 2` (on the `xx` component).  The pair (atom 1, atom 0) has
the two equidistant images `+1` and `−1` — the multiplicity-2 situation. -/

def Tch : DTables 1 2 2 3 where
  p2s := fun _ => 0
  s2p := fun _ => 0
  mult := fun k _ => if k = 0 then 1 else 2
  adrs := fun k _ => if k = 0 then 0 else 1
  hpos := by intro k i; fin_cases k <;> simp
  hbnd := by intro k i; fin_cases k <;> simp

def twoZ : AddSubgroup ℤ where
  carrier := {n | n % 2 = 0}
  add_mem' := by intro a b ha hb; simp only [Set.mem_ofPred_eq] at *; omega
  zero_mem' := by simp
  neg_mem' := by intro a ha; simp only [Set.mem_ofPred_eq] at *; omega

theorem mem_twoZ (n : ℤ) : n ∈ twoZ ↔ n % 2 = 0 := Iff.rfl

def Lch : LatticeModel ℤ ℚ Tch where
  S := twoZ
  x := fun _ => 0
  xs := fun k => (k.1 : ℤ)
  sub := fun _ => 0
  hsub := by intro k j; simp [Tch, Fin.eq_zero j]
  supp := fun _ _ => {-1, 0, 1}
  Ψ := fun _ _ r a b => if a = 0 ∧ b = 0 then (if r = 0 then 2 else -1) else 0
  tiling := by
    intro i j r hr
    have hj : ∀ k : Fin 2, (0 : Fin 1) = j := fun _ => Subsingleton.elim _ _
    simp only [Finset.mem_insert, Finset.mem_singleton] at hr
    rcases hr with rfl | rfl | rfl
    · refine ⟨1, ⟨hj 1, by rw [mem_twoZ]; decide⟩, ?_⟩
      intro k hk; fin_cases k
      · exact absurd hk.2 (by rw [mem_twoZ]; decide)
      · rfl
    · refine ⟨0, ⟨hj 0, by rw [mem_twoZ]; decide⟩, ?_⟩
      intro k hk; fin_cases k
      · rfl
      · exact absurd hk.2 (by rw [mem_twoZ]; decide)
    · refine ⟨1, ⟨hj 1, by rw [mem_twoZ]; decide⟩, ?_⟩
      intro k hk; fin_cases k
      · exact absurd hk.2 (by rw [mem_twoZ]; decide)
      · rfl
  sv := fun l => if l = 0 then 0 else if l = 1 then 1 else -1
  hsv := by
    intro k i l
    rw [mem_twoZ]
    obtain ⟨lv, hl⟩ := l
    fin_cases i
    fin_cases k
    · have : lv = 0 := by change lv < 1 at hl; omega
      subst this; decide +revert
    · have : lv = 0 ∨ lv = 1 := by change lv < 2 at hl; omega
      rcases this with rfl | rfl <;> decide +revert

/-- the chain is index-permutation symmetric -/
theorem permSym : Lch.PermSym := by
  constructor
  · intro i j r hr
    simp only [Lch, Finset.mem_insert, Finset.mem_singleton] at hr ⊢
    omega
  · intro i j r a b
    simp only [Lch, neg_eq_zero]
    by_cases ha : a = 0 <;> by_cases hb : b = 0 <;> simp [ha, hb]

/-- the supercell force constant between the two atoms is the sum over both images: `Ψ(+1) + Ψ(−1) = −2` -/
theorem superFC_01 : Lch.superFC 0 1 0 0 = -2 := by
  simp only [LatticeModel.superFC, Lch, mem_twoZ]
  rw [Finset.sum_insert (by decide), Finset.sum_insert (by decide), Finset.sum_singleton]
  norm_num

/-- inversion of the chain is a symmetry in the sense of `LatticeModel.Symmetry` -/
def chainInversion : Lch.Symmetry where
  ρ := AddEquiv.neg ℤ
  π := Equiv.refl _
  Q := -1
  orth := by simp
  supp := by
    intro i j
    ext r
    simp only [Lch, Finset.mem_map, Finset.mem_insert, Finset.mem_singleton]
    constructor
    · rintro ⟨a, ha, rfl⟩
      rcases ha with rfl | rfl | rfl <;> simp
    · intro h
      refine ⟨-r, ?_, by simp⟩
      omega
  psi := by
    intro i j r a b
    simp only [Lch, AddEquiv.neg_apply, neg_eq_zero, Matrix.neg_apply, Matrix.one_apply]
    fin_cases a <;> fin_cases b <;> simp <;> split <;> norm_num

/-- `e n = (−1)^n`: the zone-boundary point of the chain -/
def eZB : ℤ → Cx ℚ := fun n => if n % 2 = 0 then 1 else -1

theorem eZB_spec : IsUnitaryChar eZB ∧ (∀ n ∈ Lch.S, eZB n = 1) ∧ eZB 1 ≠ 1 := by
  refine ⟨⟨⟨?_, by simp [eZB]⟩, ?_⟩, ?_, ?_⟩
  · intro a b
    unfold eZB
    rcases Int.emod_two_eq_zero_or_one a with ha | ha <;> rcases Int.emod_two_eq_zero_or_one b with hb | hb <;>
      simp [Int.add_emod, ha, hb]
  · intro a
    unfold eZB
    rcases Int.emod_two_eq_zero_or_one a with ha | ha <;> simp [Int.neg_emod_two, ha]
    ext <;> simp
  · intro n hn
    have : n % 2 = 0 := hn
    simp [eZB, this]
  · simp only [eZB]
    intro h
    have := congrArg Cx.re h
    norm_num at this

end PhononModel.Chain
