import PhononModel.Model.DynmatToFc
import PhononModel.Lemmas.Basic
import Mathlib.Algebra.BigOperators.Field
import Mathlib.Algebra.Field.Basic
import Mathlib.Algebra.Order.Field.Basic
import Mathlib.Algebra.Order.Ring.Defs
import Mathlib.Tactic.Ring
import Mathlib.Tactic.FieldSimp
import Mathlib.Tactic.LinearCombination
import Mathlib.Tactic.Positivity
import Mathlib.Tactic.Linarith
import Mathlib.Data.Fintype.BigOperators

/-!
`Cx K` (pairs, the model's complex numbers) is a commutative ring when `K` is a field; over an
ordered field it has no zero divisors.  Used to do the Fourier algebra of C06/C08 with ordinary
`Finset` sums.
-/
set_option linter.unusedSectionVars false
namespace PhononModel.C06
open Finset

variable {K : Type} [Field K]

@[ext] theorem Cx.ext' {z w : Cx K} (hr : z.re = w.re) (hi : z.im = w.im) : z = w := by
  cases z; cases w; simp_all

instance : Zero (Cx K) := ⟨⟨0, 0⟩⟩
instance : One (Cx K) := ⟨⟨1, 0⟩⟩
instance : Add (Cx K) := ⟨fun z w => ⟨z.re + w.re, z.im + w.im⟩⟩
instance : Neg (Cx K) := ⟨fun z => ⟨-z.re, -z.im⟩⟩
instance : Sub (Cx K) := ⟨fun z w => ⟨z.re - w.re, z.im - w.im⟩⟩
instance : Mul (Cx K) := ⟨fun z w => ⟨z.re * w.re - z.im * w.im, z.re * w.im + z.im * w.re⟩⟩
instance : SMul ℕ (Cx K) := ⟨fun n z => ⟨n • z.re, n • z.im⟩⟩
instance : SMul ℤ (Cx K) := ⟨fun n z => ⟨n • z.re, n • z.im⟩⟩

@[simp] theorem Cx.zero_re : (0 : Cx K).re = 0 := rfl
@[simp] theorem Cx.zero_im : (0 : Cx K).im = 0 := rfl
@[simp] theorem Cx.one_re : (1 : Cx K).re = 1 := rfl
@[simp] theorem Cx.one_im : (1 : Cx K).im = 0 := rfl
@[simp] theorem Cx.add_re (z w : Cx K) : (z + w).re = z.re + w.re := rfl
@[simp] theorem Cx.add_im (z w : Cx K) : (z + w).im = z.im + w.im := rfl
@[simp] theorem Cx.neg_re (z : Cx K) : (-z).re = -z.re := rfl
@[simp] theorem Cx.neg_im (z : Cx K) : (-z).im = -z.im := rfl
@[simp] theorem Cx.sub_re (z w : Cx K) : (z - w).re = z.re - w.re := rfl
@[simp] theorem Cx.sub_im (z w : Cx K) : (z - w).im = z.im - w.im := rfl
@[simp] theorem Cx.mul_re (z w : Cx K) : (z * w).re = z.re * w.re - z.im * w.im := rfl
@[simp] theorem Cx.mul_im (z w : Cx K) : (z * w).im = z.re * w.im + z.im * w.re := rfl
@[simp] theorem Cx.nsmul_re (n : ℕ) (z : Cx K) : (n • z).re = n • z.re := rfl
@[simp] theorem Cx.nsmul_im (n : ℕ) (z : Cx K) : (n • z).im = n • z.im := rfl
@[simp] theorem Cx.zsmul_re (n : ℤ) (z : Cx K) : (n • z).re = n • z.re := rfl
@[simp] theorem Cx.zsmul_im (n : ℤ) (z : Cx K) : (n • z).im = n • z.im := rfl
@[simp] theorem Cx.conj_re (z : Cx K) : z.conj.re = z.re := rfl
@[simp] theorem Cx.conj_im (z : Cx K) : z.conj.im = -z.im := rfl
@[simp] theorem Cx.mk_re (a b : K) : (Cx.mk a b).re = a := rfl
@[simp] theorem Cx.mk_im (a b : K) : (Cx.mk a b).im = b := rfl

instance : CommRing (Cx K) where
  add_assoc := by intros; ext <;> simp [add_assoc]
  zero_add := by intros; ext <;> simp
  add_zero := by intros; ext <;> simp
  add_comm := by intros; ext <;> simp [add_comm]
  neg_add_cancel := by intros; ext <;> simp
  sub_eq_add_neg := by intros; ext <;> simp [sub_eq_add_neg]
  nsmul := fun n z => n • z
  nsmul_zero := by intros; ext <;> simp
  nsmul_succ := by intros; ext <;> simp [add_smul]
  zsmul := fun n z => n • z
  zsmul_zero' := by intros; ext <;> simp
  zsmul_succ' := by intros; ext <;> simp [add_smul]
  zsmul_neg' := by intro n z; ext <;> simp [add_smul] <;> ring
  mul_assoc := by intros; ext <;> simp <;> ring
  one_mul := by intros; ext <;> simp
  mul_one := by intros; ext <;> simp
  left_distrib := by intros; ext <;> simp <;> ring
  right_distrib := by intros; ext <;> simp <;> ring
  zero_mul := by intros; ext <;> simp
  mul_zero := by intros; ext <;> simp
  mul_comm := by intros; ext <;> simp <;> ring

/-- real part as an additive map -/
def Cx.reHom : Cx K →+ K := { toFun := Cx.re, map_zero' := rfl, map_add' := fun _ _ => rfl }
def Cx.imHom : Cx K →+ K := { toFun := Cx.im, map_zero' := rfl, map_add' := fun _ _ => rfl }

theorem Cx.re_sum {ι : Type} (s : Finset ι) (f : ι → Cx K) : (∑ i ∈ s, f i).re = ∑ i ∈ s, (f i).re :=
  map_sum Cx.reHom f s
theorem Cx.im_sum {ι : Type} (s : Finset ι) (f : ι → Cx K) : (∑ i ∈ s, f i).im = ∑ i ∈ s, (f i).im :=
  map_sum Cx.imHom f s

theorem Cx.conj_mul (z w : Cx K) : (z * w).conj = z.conj * w.conj := by ext <;> simp <;> ring
theorem Cx.conj_add (z w : Cx K) : (z + w).conj = z.conj + w.conj := by ext <;> simp <;> ring
@[simp] theorem Cx.conj_conj (z : Cx K) : z.conj.conj = z := by ext <;> simp
@[simp] theorem Cx.conj_one : (1 : Cx K).conj = 1 := by ext <;> simp
@[simp] theorem Cx.conj_zero : (0 : Cx K).conj = 0 := by ext <;> simp

theorem Cx.conj_sum {ι : Type} (s : Finset ι) (f : ι → Cx K) : (∑ i ∈ s, f i).conj = ∑ i ∈ s, (f i).conj := by
  ext
  · simp [Cx.re_sum]
  · simp [Cx.im_sum]

/-- embedding of the scalars -/
def Cx.ofK (a : K) : Cx K := ⟨a, 0⟩
@[simp] theorem Cx.ofK_re (a : K) : (Cx.ofK a).re = a := rfl
@[simp] theorem Cx.ofK_im (a : K) : (Cx.ofK a).im = 0 := rfl

theorem Cx.natCast_re (n : ℕ) : ((n : Cx K)).re = n := by
  induction n with
  | zero => simp
  | succ n ih => simp [ih]
theorem Cx.natCast_im (n : ℕ) : ((n : Cx K)).im = 0 := by
  induction n with
  | zero => simp
  | succ n ih => simp [ih]

section ordered
variable [LinearOrder K] [IsStrictOrderedRing K]

theorem Cx.normSq_pos {w : Cx K} (hw : w ≠ 0) : 0 < w.re * w.re + w.im * w.im := by
  by_contra h
  have h1 : w.re * w.re + w.im * w.im ≤ 0 := not_lt.mp h
  have hr : w.re = 0 := by nlinarith [mul_self_nonneg w.re, mul_self_nonneg w.im]
  have hi : w.im = 0 := by nlinarith [mul_self_nonneg w.re, mul_self_nonneg w.im]
  exact hw (by ext <;> simp [hr, hi])

/-- no zero divisors over an ordered field -/
theorem Cx.eq_zero_of_mul_eq_zero {w z : Cx K} (hw : w ≠ 0) (h : w * z = 0) : z = 0 := by
  have hn := Cx.normSq_pos hw
  have hre := congrArg Cx.re h
  have him := congrArg Cx.im h
  simp at hre him
  have h1 : (w.re * w.re + w.im * w.im) * z.re = 0 := by linear_combination w.re * hre + w.im * him
  have h2 : (w.re * w.re + w.im * w.im) * z.im = 0 := by linear_combination w.re * him - w.im * hre
  have hzr : z.re = 0 := by
    rcases mul_eq_zero.mp h1 with h | h
    · exact absurd h (ne_of_gt hn)
    · exact h
  have hzi : z.im = 0 := by
    rcases mul_eq_zero.mp h2 with h | h
    · exact absurd h (ne_of_gt hn)
    · exact h
  ext <;> simp [hzr, hzi]

end ordered

end PhononModel.C06
