import PhononModel.Model.Grid
import Mathlib.Algebra.BigOperators.Group.Finset.Basic
import Mathlib.Algebra.BigOperators.Group.List.Basic
import Mathlib.Data.List.Dedup
import Mathlib.Data.List.Count
import Mathlib.Data.List.Perm.Lattice
import Mathlib.Algebra.Order.BigOperators.Group.List
import Mathlib.Tactic.Ring
import Mathlib.Tactic.Linarith

/-! List lemmas behind C09: `extractIr` (weights, fibres), the fibre sum, the serial table build. -/
namespace PhononModel.Grid
open List

/-! ### extractIr -/

theorem extractIr_some {tab ir w : List Nat} (h : extractIr tab = some (ir, w)) :
    (∀ g ∈ tab, g < tab.length) ∧ ir = (List.range tab.length).filter (fun u => tab.contains u) ∧
      w = ir.map (fun u => tab.count u) := by
  unfold extractIr at h
  split at h
  · next hall =>
    simp only [Option.some.injEq, Prod.mk.injEq] at h
    refine ⟨?_, h.1.symm, ?_⟩
    · intro g hg
      have := List.all_eq_true.mp hall g hg
      simpa using this
    · rw [← h.2, ← h.1]
  · exact absurd h (by simp)

theorem ir_perm_dedup {tab : List Nat} (hb : ∀ g ∈ tab, g < tab.length) :
    ((List.range tab.length).filter (fun u => tab.contains u)).Perm tab.dedup := by
  apply (List.perm_ext_iff_of_nodup ((List.nodup_range).filter _) (List.nodup_dedup tab)).2
  intro u
  simp only [List.mem_filter, List.mem_range, List.contains_iff_mem, List.mem_dedup]
  constructor
  · exact fun h => h.2
  · exact fun h => ⟨hb u h, h⟩

theorem zipWith_map_map {α β γ δ : Type} (f : β → γ → δ) (g : α → β) (h : α → γ) (l : List α) :
    List.zipWith f (l.map g) (l.map h) = l.map (fun x => f (g x) (h x)) := by
  induction l with
  | nil => rfl
  | cons a l ih => simp [ih]

theorem range_map_getD (tab : List Nat) (d : Nat) : (List.range tab.length).map (fun i => tab.getD i d) = tab := by
  apply List.ext_getElem
  · simp
  · intro i h1 h2
    simp at h1
    simp [List.getElem?_eq_getElem h1]


theorem weights_sum_list {tab ir w : List Nat} (h : extractIr tab = some (ir, w)) : w.sum = tab.length := by
  obtain ⟨hb, hir, hw⟩ := extractIr_some h
  rw [hw, hir, ((ir_perm_dedup hb).map _).sum_eq]
  exact List.sum_map_count_dedup_eq_length tab

/-- number of grid points mapped to `u` -/
def fibreCard (tab : List Nat) (u : Nat) : Nat :=
  ((List.finRange tab.length).filter (fun i => tab[i] = u)).length

theorem count_eq_fibreCard (tab : List Nat) (u : Nat) : tab.count u = fibreCard tab u := by
  unfold fibreCard
  conv_lhs => rw [← List.map_get_finRange tab]
  rw [List.count_eq_countP, List.countP_map, List.countP_eq_length_filter]
  congr 1

theorem foldr_add_eq_sum {K : Type} [AddCommMonoid K] (l : List K) : l.foldr (· + ·) 0 = l.sum := by
  rw [List.sum_eq_foldr]

theorem sum_reduced_eq_full_list {K : Type} [CommSemiring K] {tab ir w : List Nat}
    (h : extractIr tab = some (ir, w)) (F : Nat → K) (hF : ∀ i, i < tab.length → F i = F (tab.getD i i)) :
    fullSum tab.length F = weightedSum w (ir.map F) := by
  obtain ⟨hb, hir, hw⟩ := extractIr_some h
  unfold fullSum weightedSum
  rw [foldr_add_eq_sum, foldr_add_eq_sum, hw, zipWith_map_map]
  -- left: sum over grid points = sum over the table entries
  have hL : ((List.range tab.length).map F).sum = (tab.map F).sum := by
    conv_rhs => rw [← range_map_getD tab 0, List.map_map]
    congr 1
    apply List.map_congr_left
    intro i hi
    have hi' : i < tab.length := List.mem_range.mp hi
    rw [hF i hi']
    simp [List.getD_eq_getElem?_getD, List.getElem?_eq_getElem hi']
  rw [hL, hir, ((ir_perm_dedup hb).map _).sum_eq]
  -- right: grouped by value
  have hd : tab.dedup.toFinset = tab.toFinset := by ext x; simp
  rw [Finset.sum_list_map_count tab F, ← List.sum_toFinset _ (List.nodup_dedup tab), hd]
  apply Finset.sum_congr rfl
  intro u _
  simp [nsmul_eq_mul]

/-! ### the serial table build -/

theorem firstSmaller_spec {i g : Nat} {l : List (Option Nat)} (h : firstSmaller i l = some g) :
    g < i ∧ some g ∈ l := by
  induction l with
  | nil => simp [firstSmaller] at h
  | cons a l ih =>
    cases a with
    | none =>
      simp only [firstSmaller] at h
      exact ⟨(ih h).1, List.mem_cons_of_mem _ (ih h).2⟩
    | some b =>
      simp only [firstSmaller] at h
      split at h
      · next hb =>
        simp only [Option.some.injEq] at h
        subst h
        exact ⟨hb, List.mem_cons_self⟩
      · exact ⟨(ih h).1, List.mem_cons_of_mem _ (ih h).2⟩

theorem buildTable_length (img : Nat → List (Option Nat)) (n : Nat) : (buildTable img n).length = n := by
  induction n with
  | zero => rfl
  | succ n ih => simp [buildTable, ih]

theorem getD_irrel {l : List Nat} {i : Nat} (h : i < l.length) (d d' : Nat) : l.getD i d = l.getD i d' := by
  simp [List.getD_eq_getElem?_getD, List.getElem?_eq_getElem h]

theorem getD_append_left' {l : List Nat} {i : Nat} (h : i < l.length) (e d : Nat) :
    (l ++ [e]).getD i d = l.getD i d := by
  simp [List.getD_eq_getElem?_getD, List.getElem?_append_left h]

theorem getD_append_last {l : List Nat} (e d : Nat) : (l ++ [e]).getD l.length d = e := by
  simp [List.getD_eq_getElem?_getD]

def newEntry (img : Nat → List (Option Nat)) (t : List Nat) (n : Nat) : Nat :=
  match firstSmaller n (img n) with
  | some g => t.getD g n
  | none => n

theorem buildTable_succ (img : Nat → List (Option Nat)) (n : Nat) :
    buildTable img (n + 1) = buildTable img n ++ [newEntry img (buildTable img n) n] := rfl

/-- the invariant of the build: every entry is a smaller-or-equal fixed point reached through valid images -/
theorem buildTable_inv (img : Nat → List (Option Nat)) (n : Nat) :
    ∀ i, i < n → (buildTable img n).getD i i ≤ i ∧
      (buildTable img n).getD ((buildTable img n).getD i i) ((buildTable img n).getD i i) = (buildTable img n).getD i i ∧
      Reach img i ((buildTable img n).getD i i) := by
  induction n with
  | zero => intro i hi; omega
  | succ n ih =>
    intro i hi
    have hlen := buildTable_length img n
    rw [buildTable_succ]
    generalize hE' : newEntry img (buildTable img n) n = e
    generalize ht : buildTable img n = t at ih hlen hE'
    -- facts about the new entry
    have hE : e ≤ n ∧ (t ++ [e]).getD e e = e ∧ Reach img n e := by
      unfold newEntry at hE'
      rcases hfs : firstSmaller n (img n) with _ | g
      · rw [hfs] at hE'
        simp only at hE'
        rw [← hE']
        refine ⟨le_refl _, ?_, Reach.refl n⟩
        rw [← hlen]; exact getD_append_last _ _
      · obtain ⟨hg, hmem⟩ := firstSmaller_spec hfs
        rw [hfs] at hE'
        simp only at hE'
        have : e = t.getD g g := by
          rw [← hE']; exact getD_irrel (by omega) _ _
        obtain ⟨h1, h2, h3⟩ := ih g hg
        rw [this]
        refine ⟨by omega, ?_, Reach.step hmem h3⟩
        rw [getD_append_left' (by omega)]
        exact h2
    rcases Nat.lt_succ_iff_lt_or_eq.mp hi with hlt | heq
    · obtain ⟨h1, h2, h3⟩ := ih i hlt
      have e1 : (t ++ [e]).getD i i = t.getD i i := getD_append_left' (by omega) _ _
      rw [e1]
      refine ⟨h1, ?_, h3⟩
      rw [getD_append_left' (by omega)]
      exact h2
    · have e1 : (t ++ [e]).getD i i = e := by
        have := getD_append_last (l := t) e i
        rw [hlen, ← heq] at this; exact this
      rw [e1, heq]
      exact hE

end PhononModel.Grid
