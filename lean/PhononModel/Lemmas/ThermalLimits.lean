import PhononModel.Lemmas.Thermal
import Mathlib.Analysis.Calculus.Deriv.Slope
import Mathlib.Topology.Algebra.Order.Field
/-!
Limits of the reduced harmonic-oscillator functions: `sC → 1` at `0⁺`, `sC, sS, sF → 0` at `+∞`,
and the maps `T ↦ x = f/(kT)` at `T → ∞` and `T → 0⁺`.
-/
namespace PhononModel.C10
open Real Filter Topology

theorem tendsto_div_sinh : Tendsto (fun v : ℝ => v / Real.sinh v) (𝓝[≠] 0) (𝓝 1) := by
  have h := (hasDerivAt_iff_tendsto_slope.1 (Real.hasDerivAt_sinh 0))
  rw [Real.cosh_zero] at h
  have h2 := h.inv₀ one_ne_zero
  rw [inv_one] at h2
  refine h2.congr' ?_
  filter_upwards [self_mem_nhdsWithin] with v _
  simp [slope, Real.sinh_zero]
  ring

theorem tendsto_sC_zero : Tendsto sC (𝓝[>] 0) (𝓝 1) := by
  have h1 : Tendsto (fun x : ℝ => x / 2) (𝓝[>] 0) (𝓝[≠] 0) := by
    apply tendsto_nhdsWithin_of_tendsto_nhds_of_eventually_within
    · have : Tendsto (fun x : ℝ => x / 2) (𝓝 0) (𝓝 (0 / 2)) := (continuous_id.div_const 2).tendsto 0
      rw [zero_div] at this
      exact this.mono_left nhdsWithin_le_nhds
    · filter_upwards [self_mem_nhdsWithin] with x hx
      have : (0:ℝ) < x := hx
      simp only [Set.mem_compl_iff, Set.mem_singleton_iff]
      linarith
  have h2 := (tendsto_div_sinh.comp h1).pow 2
  rw [one_pow] at h2
  refine h2.congr' ?_
  filter_upwards [self_mem_nhdsWithin] with x hx
  exact (sC_eq_sq hx).symm

theorem exp_half_le {x : ℝ} (hx : 1 ≤ x) : Real.exp x / 2 ≤ Real.exp x - 1 := by
  have : x + 1 ≤ Real.exp x := Real.add_one_le_exp x
  linarith

theorem sC_le_bound {x : ℝ} (hx : 1 ≤ x) : sC x ≤ 4 * (x ^ 2 * Real.exp (-x)) := by
  have h1 := exp_half_le hx
  have hE := Real.exp_pos x
  have h2 : 0 < Real.exp x - 1 := by linarith
  unfold sC
  rw [Real.exp_neg, div_le_iff₀ (by positivity)]
  have h3 : (Real.exp x / 2) ^ 2 ≤ (Real.exp x - 1) ^ 2 := pow_le_pow_left₀ (by positivity) h1 2
  have h4 : 0 ≤ x ^ 2 * (Real.exp x)⁻¹ := by positivity
  calc x ^ 2 * Real.exp x = 4 * (x ^ 2 * (Real.exp x)⁻¹) * (Real.exp x / 2) ^ 2 := by
        field_simp; norm_num
    _ ≤ 4 * (x ^ 2 * (Real.exp x)⁻¹) * (Real.exp x - 1) ^ 2 :=
        mul_le_mul_of_nonneg_left h3 (by positivity)

theorem tendsto_sC_atTop : Tendsto sC atTop (𝓝 0) := by
  have h0 : Tendsto (fun x : ℝ => 4 * (x ^ 2 * Real.exp (-x))) atTop (𝓝 0) := by
    have := (Real.tendsto_pow_mul_exp_neg_atTop_nhds_zero 2).const_mul 4
    simpa using this
  refine tendsto_of_tendsto_of_tendsto_of_le_of_le' tendsto_const_nhds h0 ?_ ?_
  · filter_upwards [eventually_gt_atTop 0] with x hx using le_of_lt (sC_pos hx)
  · filter_upwards [eventually_ge_atTop 1] with x hx using sC_le_bound hx

theorem tendsto_sF_atTop : Tendsto sF atTop (𝓝 0) := by
  have h1 : Tendsto (fun x : ℝ => 1 - Real.exp (-x)) atTop (𝓝 (1 - 0)) :=
    tendsto_const_nhds.sub Real.tendsto_exp_neg_atTop_nhds_zero
  rw [sub_zero] at h1
  have := (Real.continuousAt_log one_ne_zero).tendsto.comp h1
  rw [Real.log_one] at this
  exact this

theorem tendsto_bose_atTop : Tendsto (fun x : ℝ => x / (Real.exp x - 1)) atTop (𝓝 0) := by
  have h0 : Tendsto (fun x : ℝ => 2 * (x ^ 1 * Real.exp (-x))) atTop (𝓝 0) := by
    have := (Real.tendsto_pow_mul_exp_neg_atTop_nhds_zero 1).const_mul 2
    simpa using this
  refine tendsto_of_tendsto_of_tendsto_of_le_of_le' tendsto_const_nhds h0 ?_ ?_
  · filter_upwards [eventually_gt_atTop 0] with x hx
    exact le_of_lt (div_pos hx (exp_sub_one_pos hx))
  · filter_upwards [eventually_ge_atTop 1] with x hx
    have h1 := exp_half_le hx
    have hE := Real.exp_pos x
    have h2 : 0 < Real.exp x - 1 := by linarith
    rw [div_le_iff₀ h2, Real.exp_neg, pow_one]
    have hx0 : 0 ≤ x := by linarith
    calc x = 2 * (x * (Real.exp x)⁻¹) * (Real.exp x / 2) := by field_simp
      _ ≤ 2 * (x * (Real.exp x)⁻¹) * (Real.exp x - 1) :=
        mul_le_mul_of_nonneg_left h1 (by positivity)

theorem tendsto_sS_atTop : Tendsto sS atTop (𝓝 0) := by
  have := tendsto_bose_atTop.sub tendsto_sF_atTop
  rw [sub_zero] at this
  exact this

/-- `x = f/(kT) → +∞` as `T → 0⁺` -/
theorem tendsto_x_zero {k f : ℝ} (hk : 0 < k) (hf : 0 < f) :
    Tendsto (fun t : ℝ => f / (k * t)) (𝓝[>] 0) atTop := by
  have h1 : Tendsto (fun t : ℝ => (f / k) * t⁻¹) (𝓝[>] 0) atTop :=
    tendsto_inv_nhdsGT_zero.const_mul_atTop (by positivity)
  refine h1.congr' ?_
  filter_upwards [self_mem_nhdsWithin] with t ht
  have : (0:ℝ) < t := ht
  field_simp

/-- `x = f/(kT) → 0⁺` as `T → +∞` -/
theorem tendsto_x_atTop {k f : ℝ} (hk : 0 < k) (hf : 0 < f) :
    Tendsto (fun t : ℝ => f / (k * t)) atTop (𝓝[>] 0) := by
  apply tendsto_nhdsWithin_of_tendsto_nhds_of_eventually_within
  · have h1 : Tendsto (fun t : ℝ => (f / k) * t⁻¹) atTop (𝓝 ((f / k) * 0)) :=
      tendsto_inv_atTop_zero.const_mul (f / k)
    rw [mul_zero] at h1
    refine h1.congr' ?_
    filter_upwards [eventually_gt_atTop 0] with t ht
    field_simp
  · filter_upwards [eventually_gt_atTop 0] with t ht
    exact Set.mem_Ioi.2 (by positivity)

end PhononModel.C10
