import PhononModel.Lemmas.CommPointsClassic
import PhononModel.Lemmas.Roundtrip
import Mathlib.Data.List.Nodup
import Mathlib.Data.Finset.Card
import Mathlib.Data.Finset.Range
import Mathlib.Tactic.Linarith

/-!
`categorize_commensurate_points`: on a duplicate-free list of reduced points that is closed under
negation modulo `N` the partner map is an involution of the indices, so the number of
self-paired points plus twice the number of pairs is the number of points (the code's `assert`).
-/
set_option linter.unusedSectionVars false
namespace PhononModel.C06

/-- hypotheses on the list of integer points -/
structure CatOK (pts : List P3) : Prop where
  nodup : pts.Nodup
  reduced : ∀ p ∈ pts, p.mod (pts.length : Int) = p
  closed : ∀ p ∈ pts, ∃ p' ∈ pts, (p.add p').mod (pts.length : Int) = (0, 0, 0)

/-- the predicate the Python loop tests -/
def isNeg (pts : List P3) (p p' : P3) : Bool := (p.add p').mod (pts.length : Int) == (0, 0, 0)

theorem partner_eq (pts : List P3) (p : P3) :
    partner pts p = if pts.findIdx (isNeg pts p) < pts.length then some (pts.findIdx (isNeg pts p)) else none := rfl

theorem isNeg_symm (pts : List P3) (p p' : P3) : isNeg pts p p' = isNeg pts p' p := by
  unfold isNeg; rw [P3.add_comm']

/-- two negatives of the same point coincide (reduced representatives) -/
theorem neg_unique {pts : List P3} (h : CatOK pts) {p q q' : P3} (hq : q ∈ pts) (hq' : q' ∈ pts)
    (h1 : isNeg pts p q = true) (h2 : isNeg pts p q' = true) : q = q' := by
  simp only [isNeg, beq_iff_eq] at h1 h2
  have e : (p.add q).mod (pts.length : Int) = (p.add q').mod (pts.length : Int) := by rw [h1, h2]
  have hd := P3.mod_eq_iff.mp e
  have e2 : (p.add q).sub (p.add q') = q.sub q' := by
    apply P3.ext3 <;> simp only [P3.add, P3.sub] <;> ring
  rw [e2] at hd
  have := P3.mod_eq_iff.mpr hd
  rw [h.reduced q hq, h.reduced q' hq'] at this
  exact this

variable {pts : List P3}

theorem getD_eq {i : Nat} (hi : i < pts.length) : pts.getD i (0, 0, 0) = pts[i] := by
  rw [List.getD_eq_getElem?_getD, List.getElem?_eq_getElem hi]; rfl

/-- the partner index of point `i` -/
def sig (pts : List P3) (i : Nat) : Nat := pts.findIdx (isNeg pts (pts.getD i (0, 0, 0)))

theorem sig_lt (h : CatOK pts) {i : Nat} (hi : i < pts.length) : sig pts i < pts.length := by
  unfold sig
  have hmem : pts.getD i (0, 0, 0) ∈ pts := by
    rw [getD_eq hi]; exact List.getElem_mem hi
  obtain ⟨p', hp', hp⟩ := h.closed _ hmem
  apply List.findIdx_lt_length_of_exists
  exact ⟨p', hp', by simp only [isNeg, hp, beq_self_eq_true]⟩

theorem sig_spec (h : CatOK pts) {i : Nat} (hi : i < pts.length) :
    isNeg pts (pts.getD i (0, 0, 0)) (pts.getD (sig pts i) (0, 0, 0)) = true := by
  have hlt := sig_lt h hi
  rw [getD_eq hlt]
  exact List.findIdx_getElem (w := hlt)

theorem partnerIdx_eq (h : CatOK pts) {i : Nat} (hi : i < pts.length) : partnerIdx pts i = some (sig pts i) := by
  unfold partnerIdx
  rw [partner_eq]
  exact if_pos (sig_lt h hi)

theorem sig_unique (h : CatOK pts) {i j : Nat} (hi : i < pts.length) (hj : j < pts.length)
    (hn : isNeg pts (pts.getD i (0, 0, 0)) (pts.getD j (0, 0, 0)) = true) : sig pts i = j := by
  have hs := sig_lt h hi
  have h1 := sig_spec h hi
  have e := neg_unique h (by rw [getD_eq hs]; exact List.getElem_mem hs)
    (by rw [getD_eq hj]; exact List.getElem_mem hj) h1 hn
  rw [getD_eq hs, getD_eq hj] at e
  exact (List.Nodup.getElem_inj_iff h.nodup).mp e

theorem sig_invol (h : CatOK pts) {i : Nat} (hi : i < pts.length) : sig pts (sig pts i) = i := by
  apply sig_unique h (sig_lt h hi) hi
  rw [isNeg_symm]
  exact sig_spec h hi

open Finset in
/-- the counting argument: fixed points + 2 · (pairs) = all -/
theorem invol_count (n : Nat) (σ : Nat → Nat) (h1 : ∀ i, i < n → σ i < n) (h2 : ∀ i, i < n → σ (σ i) = i) :
    ((range n).filter fun i => σ i = i).card + ((range n).filter fun i => i < σ i).card * 2 = n := by
  have hA := Finset.card_filter_add_card_filter_not (s := range n) (fun i => σ i = i)
  have hB := Finset.card_filter_add_card_filter_not (s := (range n).filter fun i => ¬ σ i = i) (fun i => i < σ i)
  have eJ : ((range n).filter fun i => ¬ σ i = i).filter (fun i => i < σ i) = (range n).filter fun i => i < σ i := by
    ext i; simp only [mem_filter, mem_range]; constructor
    · rintro ⟨⟨a, _⟩, c⟩; exact ⟨a, c⟩
    · rintro ⟨a, c⟩; exact ⟨⟨a, by omega⟩, c⟩
  have eJ' : ((range n).filter fun i => ¬ σ i = i).filter (fun i => ¬ i < σ i) = (range n).filter fun i => σ i < i := by
    ext i; simp only [mem_filter, mem_range]; constructor
    · rintro ⟨⟨a, b⟩, c⟩; exact ⟨a, by omega⟩
    · rintro ⟨a, c⟩; exact ⟨⟨a, by omega⟩, by omega⟩
  have bij : ((range n).filter fun i => i < σ i).card = ((range n).filter fun i => σ i < i).card := by
    apply Finset.card_bij (fun i _ => σ i)
    · intro i hi
      simp only [mem_filter, mem_range] at hi ⊢
      exact ⟨h1 i hi.1, by rw [h2 i hi.1]; exact hi.2⟩
    · intro i hi j hj e
      simp only [mem_filter, mem_range] at hi hj
      have := congrArg σ e
      rwa [h2 i hi.1, h2 j hj.1] at this
    · intro j hj
      simp only [mem_filter, mem_range] at hj
      exact ⟨σ j, by simp only [mem_filter, mem_range]; exact ⟨h1 j hj.1, by rw [h2 j hj.1]; exact hj.2⟩, h2 j hj.1⟩
  rw [eJ, eJ'] at hB
  rw [card_range] at hA
  omega

theorem catII_nodup (pts : List P3) : (catII pts).Nodup := by
  unfold catII
  apply List.Nodup.filterMap _ List.nodup_range
  intro a a' b hb hb'
  split at hb <;> split at hb' <;> simp_all

theorem catIJ_nodup (pts : List P3) : (catIJ pts).Nodup := by
  unfold catIJ
  apply List.Nodup.filterMap _ List.nodup_range
  intro a a' b hb hb'
  split at hb
  · split at hb
    · split at hb'
      · split at hb' <;> simp_all
      · simp_all
    · simp_all
  · simp_all

/-- **the assertion of `categorize_commensurate_points` holds** -/
theorem categorize_count (h : CatOK pts) : (catII pts).length + (catIJ pts).length * 2 = pts.length := by
  have hII : (catII pts).length = ((Finset.range pts.length).filter fun i => sig pts i = i).card := by
    rw [← List.toFinset_card_of_nodup (catII_nodup pts)]
    congr 1
    ext i
    simp only [List.mem_toFinset, mem_catII, Finset.mem_filter, Finset.mem_range]
    constructor
    · rintro ⟨hi, hp⟩
      rw [partnerIdx_eq h hi] at hp
      exact ⟨hi, by simpa using hp⟩
    · rintro ⟨hi, hs⟩
      exact ⟨hi, by rw [partnerIdx_eq h hi, hs]⟩
  have hIJ : (catIJ pts).length = ((Finset.range pts.length).filter fun i => i < sig pts i).card := by
    rw [← List.toFinset_card_of_nodup (catIJ_nodup pts)]
    congr 1
    ext i
    simp only [List.mem_toFinset, mem_catIJ, Finset.mem_filter, Finset.mem_range]
    constructor
    · rintro ⟨hi, j, hp, hlt⟩
      rw [partnerIdx_eq h hi] at hp
      simp only [Option.some.injEq] at hp
      exact ⟨hi, by omega⟩
    · rintro ⟨hi, hs⟩
      exact ⟨hi, sig pts i, partnerIdx_eq h hi, hs⟩
  rw [hII, hIJ]
  exact invol_count pts.length (sig pts) (fun i hi => sig_lt h hi) (fun i hi => sig_invol h hi)

theorem categorize_isSome (h : CatOK pts) : categorize pts = some (catII pts, catIJ pts) := by
  unfold categorize
  rw [if_pos]
  simpa using categorize_count h

/-- the Smith-normal-form points satisfy the hypotheses: the assertion never fails on the output of
`get_commensurate_points_in_integers` -/
theorem catOK_commPointsInt (S : Mat3) (d : P3) (P Q : Mat3) (h : snfWf S d P Q = true) :
    CatOK (commPointsInt d Q) := by
  have hs := snfWf_sound h
  have hp : 0 < d.1 * d.2.1 * d.2.2 := by have := hs.h0; have := hs.h1; have := hs.h2; positivity
  have hlen : ((commPointsInt d Q).length : Int) = d.1 * d.2.1 * d.2.2 := by
    rw [commPointsInt_length S d P Q h, hs.det_eq]
    exact Int.natAbs_of_nonneg hp.le
  refine ⟨commPointsInt_nodup S d P Q h, ?_, ?_⟩
  · intro p hpm
    rw [hlen]
    exact P3.mod_eq_self (commPointsInt_range S d P Q h p hpm)
  · intro p hpm
    rw [hlen]
    have hi := commPointsInt_integral S d P Q h p hpm
    set N := d.1 * d.2.1 * d.2.2 with hN
    let p' : P3 := (P3.smul (-1) p).mod N
    have hd : P3.Dvd N (p'.sub (P3.smul (-1) p)) := P3.mod_dvd _ _
    have hi' : P3.Dvd N (mulVec S.T p') := by
      have h1 := hd.mulVec S.T
      rw [mulVec_sub] at h1
      apply P3.Dvd.add_of_sub h1
      rw [mulVec_smul]
      exact hi.smul (-1)
    refine ⟨p', mem_commPointsInt_of_comm S d P Q h p' (P3.mod_range _ hp) hi', ?_⟩
    have : P3.Dvd N (p.add p') := by
      obtain ⟨h1, h2, h3⟩ := hd
      obtain ⟨x, y, z⟩ := p
      generalize p' = q at h1 h2 h3 ⊢
      obtain ⟨x', y', z'⟩ := q
      simp only [P3.sub, P3.smul, P3.add, P3.Dvd] at h1 h2 h3 ⊢
      refine ⟨?_, ?_, ?_⟩
      · convert h1 using 1; ring
      · convert h2 using 1; ring
      · convert h3 using 1; ring
    obtain ⟨g1, g2, g3⟩ := this
    simp only [P3.mod]
    rw [Int.emod_eq_zero_of_dvd g1, Int.emod_eq_zero_of_dvd g2, Int.emod_eq_zero_of_dvd g3]

end PhononModel.C06
