import PhononModel.Lemmas.DynMat
import Mathlib.Algebra.Order.Field.Basic
import Mathlib.Algebra.Order.Ring.Abs
import Mathlib.Tactic.Positivity
import Mathlib.Tactic.Linarith
/-!
The two loop forms of the kernel, the q-point batch, and the frequency formula (used by `Props/C02`, `Props/C03`).
-/
set_option linter.unusedSectionVars false
namespace PhononModel
open Finset

section batch
variable {R : Type} [Field R]
variable {np nf ns nsv : Nat}

/-- the OpenMP `ij` loop writes block `(i,j)` in iteration `ij = i·np + j` … -/
theorem rawByIJ_eq (T : DTables np nf ns nsv) (ph : Fin nsv → Cx R) (mm : Fin np → Fin np → R)
    (fc : Fin nf → Fin ns → Fin 3 → Fin 3 → R) (hnp : 0 < np) (i j : Fin np) (a b : Fin 3)
    (h : i.1 * np + j.1 < np * np) :
    rawByIJ T ph mm fc hnp ⟨i.1 * np + j.1, h⟩ a b = dynmatRawC T ph mm fc i a j b := by
  unfold rawByIJ
  have h1 : (i.1 * np + j.1) / np = i.1 := by
    rw [Nat.mul_comm, Nat.mul_add_div hnp, Nat.div_eq_of_lt j.2, Nat.add_zero]
  have h2 : (i.1 * np + j.1) % np = j.1 := by
    rw [Nat.mul_comm, Nat.mul_add_mod, Nat.mod_eq_of_lt j.2]
  congr 1 <;> apply Fin.ext <;> simp [h1, h2]

/-- … and every block is written by exactly one iteration -/
theorem ij_decode_bijective (hnp : 0 < np) :
    Function.Bijective (fun ij : Fin (np * np) =>
      ((⟨ij.1 / np, Nat.div_lt_of_lt_mul ij.2⟩ : Fin np), (⟨ij.1 % np, Nat.mod_lt _ hnp⟩ : Fin np))) := by
  constructor
  · intro x y hxy
    simp only [Prod.mk.injEq, Fin.mk.injEq] at hxy
    apply Fin.ext
    rw [← Nat.div_add_mod x.1 np, ← Nat.div_add_mod y.1 np, hxy.1, hxy.2]
  · intro ⟨i, j⟩
    have h : i.1 * np + j.1 < np * np := by
      have := i.2; have := j.2
      calc i.1 * np + j.1 < i.1 * np + np := by omega
        _ = (i.1 + 1) * np := by ring
        _ ≤ np * np := Nat.mul_le_mul_right _ (by omega)
    refine ⟨⟨i.1 * np + j.1, h⟩, ?_⟩
    have h1 : (i.1 * np + j.1) / np = i.1 := by
      rw [Nat.mul_comm, Nat.mul_add_div hnp, Nat.div_eq_of_lt j.2, Nat.add_zero]
    have h2 : (i.1 * np + j.1) % np = j.1 := by
      rw [Nat.mul_comm, Nat.mul_add_mod, Nat.mod_eq_of_lt j.2]
    simp [h1, h2]

theorem flatIdx_decode (np n : Nat) (i j : Fin np) (a b : Fin 3) :
    flatIdx np n i a j b / (np * np * 9) = n ∧
    (flatIdx np n i a j b % (np * np * 9)) / (np * 3) = i.1 * 3 + a.1 ∧
    (flatIdx np n i a j b % (np * np * 9)) % (np * 3) = j.1 * 3 + b.1 := by
  have hi := i.2; have hj := j.2; have ha := a.2; have hb := b.2
  have hnp : 0 < np := by omega
  have hcol : j.1 * 3 + b.1 < np * 3 := by omega
  have hrow : i.1 * 3 + a.1 < np * 3 := by omega
  have hr : (i.1 * 3 + a.1) * (np * 3) + (j.1 * 3 + b.1) < np * np * 9 := by
    calc (i.1 * 3 + a.1) * (np * 3) + (j.1 * 3 + b.1) < (i.1 * 3 + a.1) * (np * 3) + np * 3 := by omega
      _ = (i.1 * 3 + a.1 + 1) * (np * 3) := by ring
      _ ≤ (np * 3) * (np * 3) := Nat.mul_le_mul_right _ (by omega)
      _ = np * np * 9 := by ring
  have hpos : 0 < np * np * 9 := by positivity
  have hpos3 : 0 < np * 3 := by omega
  unfold flatIdx
  refine ⟨?_, ?_, ?_⟩
  · rw [Nat.mul_comm n, Nat.mul_add_div hpos, Nat.div_eq_of_lt hr, Nat.add_zero]
  · rw [Nat.mul_comm n, Nat.mul_add_mod, Nat.mod_eq_of_lt hr, Nat.mul_comm (i.1 * 3 + a.1),
      Nat.mul_add_div hpos3, Nat.div_eq_of_lt hcol, Nat.add_zero]
  · rw [Nat.mul_comm n, Nat.mul_add_mod, Nat.mod_eq_of_lt hr, Nat.mul_comm (i.1 * 3 + a.1),
      Nat.mul_add_mod, Nat.mod_eq_of_lt hcol]

/-- **the q-point batch is the map of the single-q kernel**: the buffer element at the flat address of
`(n, i, a, j, b)` is entry `(i,a),(j,b)` of the matrix of q-point `n` alone -/
theorem batch_eq_map (T : DTables np nf ns nsv) {nq : Nat} (phs : Fin nq → Fin nsv → Cx R)
    (mm : Fin np → Fin np → R) (fc : Fin nf → Fin ns → Fin 3 → Fin 3 → R)
    (n : Fin nq) (i j : Fin np) (a b : Fin 3) :
    dynmatBatchFlat T phs mm fc (flatIdx np n.1 i a j b) = dynmatC T (phs n) mm fc i a j b := by
  obtain ⟨h1, h2, h3⟩ := flatIdx_decode np n.1 i j a b
  have ha := a.2; have hb := b.2
  have e1 : (i.1 * 3 + a.1) / 3 = i.1 := by omega
  have e2 : (i.1 * 3 + a.1) % 3 = a.1 := by omega
  have e3 : (j.1 * 3 + b.1) / 3 = j.1 := by omega
  have e4 : (j.1 * 3 + b.1) % 3 = b.1 := by omega
  unfold dynmatBatchFlat
  simp only [h1, h2, h3, e1, e2, e3, e4, n.2, i.2, j.2, and_self, dite_true, Fin.eta]

/-- different (q-point, element) pairs are written to different addresses: the iterations of the q-loop
(and of the OpenMP loop over them) do not interfere -/
theorem flatIdx_injective (np : Nat) (n n' : Nat) (i i' j j' : Fin np) (a a' b b' : Fin 3)
    (h : flatIdx np n i a j b = flatIdx np n' i' a' j' b') : n = n' ∧ i = i' ∧ a = a' ∧ j = j' ∧ b = b' := by
  obtain ⟨h1, h2, h3⟩ := flatIdx_decode np n i j a b
  obtain ⟨h1', h2', h3'⟩ := flatIdx_decode np n' i' j' a' b'
  rw [h] at h1 h2 h3
  have hn : n = n' := by rw [← h1, h1']
  have hr : i.1 * 3 + a.1 = i'.1 * 3 + a'.1 := by rw [← h2, h2']
  have hc : j.1 * 3 + b.1 = j'.1 * 3 + b'.1 := by rw [← h3, h3']
  have := a.2; have := a'.2; have := b.2; have := b'.2
  refine ⟨hn, ?_, ?_, ?_, ?_⟩ <;> apply Fin.ext <;> omega

end batch

section freq
variable {K : Type} [Field K] [LinearOrder K] [IsStrictOrderedRing K]

theorem absR_eq (x : K) : absR x = |x| := by
  unfold absR
  split
  · next h => rw [abs_of_neg h]
  · next h => rw [abs_of_nonneg (le_of_not_gt h)]

theorem signR_eq (x : K) : signR x = if 0 < x then 1 else if x < 0 then -1 else 0 := rfl

/-- what is assumed of the square root: non-negative, squares back -/
structure IsSqrt (sqrt : K → K) : Prop where
  nonneg : ∀ x, 0 ≤ x → 0 ≤ sqrt x
  sq : ∀ x, 0 ≤ x → sqrt x * sqrt x = x

theorem IsSqrt.mul {sqrt : K → K} (h : IsSqrt sqrt) (x y : K) (hx : 0 ≤ x) (hy : 0 ≤ y) :
    sqrt (x * y) = sqrt x * sqrt y := by
  have h1 := h.sq (x * y) (mul_nonneg hx hy)
  have h2 : (sqrt x * sqrt y) * (sqrt x * sqrt y) = x * y := by
    rw [mul_mul_mul_comm, h.sq x hx, h.sq y hy]
  have n1 := h.nonneg (x * y) (mul_nonneg hx hy)
  have n2 : 0 ≤ sqrt x * sqrt y := mul_nonneg (h.nonneg x hx) (h.nonneg y hy)
  exact (mul_self_inj n1 n2).mp (h1.trans h2.symm)

theorem IsSqrt.pos {sqrt : K → K} (h : IsSqrt sqrt) (x : K) (hx : 0 < x) : 0 < sqrt x := by
  rcases (h.nonneg x hx.le).lt_or_eq with h1 | h1
  · exact h1
  · have := h.sq x hx.le; rw [← h1, zero_mul] at this; exact absurd this.symm hx.ne'

/-- `frequency² = |λ| · factor²` -/
theorem frequency_sq {sqrt : K → K} (h : IsSqrt sqrt) (factor ev : K) :
    frequency sqrt factor ev * frequency sqrt factor ev = |ev| * (factor * factor) * (signR ev * signR ev) := by
  unfold frequency
  rw [absR_eq]
  have := h.sq |ev| (abs_nonneg ev)
  calc sqrt |ev| * signR ev * factor * (sqrt |ev| * signR ev * factor)
      = (sqrt |ev| * sqrt |ev|) * (factor * factor) * (signR ev * signR ev) := by ring
    _ = |ev| * (factor * factor) * (signR ev * signR ev) := by rw [this]

/-- **imaginary modes are reported negative**, real modes positive, zero modes zero (`factor > 0`) -/
theorem frequency_sign {sqrt : K → K} (h : IsSqrt sqrt) (factor ev : K) (hf : 0 < factor) :
    (frequency sqrt factor ev < 0 ↔ ev < 0) ∧ (0 < frequency sqrt factor ev ↔ 0 < ev) ∧
      (frequency sqrt factor ev = 0 ↔ ev = 0) := by
  unfold frequency
  rw [absR_eq, signR_eq]
  rcases lt_trichotomy ev 0 with hneg | hzero | hpos
  · have hs : 0 < sqrt |ev| := h.pos _ (abs_pos.mpr hneg.ne)
    have : sqrt |ev| * (if 0 < ev then 1 else if ev < 0 then -1 else 0) * factor < 0 := by
      rw [if_neg (not_lt.mpr hneg.le), if_pos hneg]
      have : 0 < sqrt |ev| * factor := mul_pos hs hf
      linarith [this]
    refine ⟨⟨fun _ => hneg, fun _ => this⟩, ⟨fun h' => absurd h' (not_lt.mpr this.le), fun h' => absurd h' (not_lt.mpr hneg.le)⟩,
      ⟨fun h' => absurd h' this.ne, fun h' => absurd h' hneg.ne⟩⟩
  · subst hzero
    simp
  · have hs : 0 < sqrt |ev| := h.pos _ (abs_pos.mpr hpos.ne')
    have : 0 < sqrt |ev| * (if 0 < ev then 1 else if ev < 0 then -1 else 0) * factor := by
      rw [if_pos hpos, mul_one]; exact mul_pos hs hf
    refine ⟨⟨fun h' => absurd h' (not_lt.mpr this.le), fun h' => absurd h' (not_lt.mpr hpos.le)⟩, ⟨fun _ => hpos, fun _ => this⟩,
      ⟨fun h' => absurd h' this.ne', fun h' => absurd h' hpos.ne'⟩⟩

/-- **scaling the eigenvalue by `c > 0` scales the frequency by `sqrt c`** -/
theorem frequency_scaling {sqrt : K → K} (h : IsSqrt sqrt) (factor ev c : K) (hc : 0 < c) :
    frequency sqrt factor (c * ev) = sqrt c * frequency sqrt factor ev := by
  unfold frequency
  have hsign : signR (c * ev) = signR ev := by
    simp only [signR_eq]
    rcases lt_trichotomy ev 0 with h1 | h1 | h1
    · have h2 : c * ev < 0 := mul_neg_of_pos_of_neg hc h1
      rw [if_neg (not_lt.mpr h2.le), if_pos h2, if_neg (not_lt.mpr h1.le), if_pos h1]
    · subst h1; simp
    · have h2 : 0 < c * ev := mul_pos hc h1
      rw [if_pos h2, if_pos h1]
  rw [hsign, absR_eq, absR_eq, abs_mul, abs_of_pos hc, h.mul c |ev| hc.le (abs_nonneg ev)]
  ring

end freq
end PhononModel
