import PhononModel.Model.CxPair
import PhononModel.Lemmas.Basic
import Mathlib.Algebra.Ring.Basic
import Mathlib.Algebra.BigOperators.Ring.Finset
import Mathlib.Tactic.Ring
import Mathlib.Tactic.LinearCombination

/-! `CP.Cx K` over a commutative ring is a commutative ring with the model's own operations. -/
namespace PhononModel.CP
open Finset

namespace Cx
variable {K : Type} [CommRing K]

instance : NatCast (Cx K) := ⟨fun n => ⟨n, 0⟩⟩
instance : IntCast (Cx K) := ⟨fun n => ⟨n, 0⟩⟩
@[simp] theorem natCast_re (n : ℕ) : ((n : Cx K)).re = n := rfl
@[simp] theorem natCast_im (n : ℕ) : ((n : Cx K)).im = 0 := rfl
@[simp] theorem intCast_re (n : ℤ) : ((n : Cx K)).re = n := rfl
@[simp] theorem intCast_im (n : ℤ) : ((n : Cx K)).im = 0 := rfl

instance : CommRing (Cx K) where
  add := (· + ·)
  mul := (· * ·)
  neg := Neg.neg
  sub := (· - ·)
  zero := 0
  one := 1
  natCast := fun n => (n : Cx K)
  intCast := fun n => (n : Cx K)
  npow := npowRec
  nsmul := nsmulRec
  zsmul := zsmulRec
  add_assoc a b c := by apply ext' <;> simp [add_assoc]
  zero_add a := by apply ext' <;> simp
  add_zero a := by apply ext' <;> simp
  add_comm a b := by apply ext' <;> simp [add_comm]
  neg_add_cancel a := by apply ext' <;> simp
  sub_eq_add_neg a b := by apply ext' <;> simp [sub_eq_add_neg]
  mul_assoc a b c := by apply ext' <;> simp <;> ring
  one_mul a := by apply ext' <;> simp
  mul_one a := by apply ext' <;> simp
  zero_mul a := by apply ext' <;> simp
  mul_zero a := by apply ext' <;> simp
  left_distrib a b c := by apply ext' <;> simp <;> ring
  right_distrib a b c := by apply ext' <;> simp <;> ring
  mul_comm a b := by apply ext' <;> simp <;> ring
  natCast_zero := by apply ext' <;> simp
  natCast_succ n := by apply ext' <;> simp
  intCast_ofNat n := by apply ext' <;> simp
  intCast_negSucc n := by apply ext' <;> simp <;> ring

/-- `.re` as an additive homomorphism -/
def reHom : Cx K →+ K := { toFun := Cx.re, map_zero' := rfl, map_add' := fun _ _ => rfl }
def imHom : Cx K →+ K := { toFun := Cx.im, map_zero' := rfl, map_add' := fun _ _ => rfl }

theorem sum_re {ι : Type} (s : Finset ι) (f : ι → Cx K) : (∑ i ∈ s, f i).re = ∑ i ∈ s, (f i).re :=
  map_sum reHom f s
theorem sum_im {ι : Type} (s : Finset ι) (f : ι → Cx K) : (∑ i ∈ s, f i).im = ∑ i ∈ s, (f i).im :=
  map_sum imHom f s

theorem conj_mul (a b : Cx K) : conj (a * b) = conj a * conj b := by apply ext' <;> simp <;> ring
theorem conj_add (a b : Cx K) : conj (a + b) = conj a + conj b := by
  apply ext'
  · simp
  · simp; ring
theorem conj_conj (a : Cx K) : conj (conj a) = a := by apply ext' <;> simp
theorem conj_zero : conj (0 : Cx K) = 0 := by apply ext' <;> simp

theorem conj_sum {ι : Type} (s : Finset ι) (f : ι → Cx K) : conj (∑ i ∈ s, f i) = ∑ i ∈ s, conj (f i) := by
  apply ext'
  · simp [sum_re]
  · simp [sum_im]

end Cx

theorem sumList_eq {ι α : Type} [AddCommMonoid α] (l : List ι) (f : ι → α) :
    sumList l f = (l.map f).sum := by
  unfold sumList; rw [List.sum_eq_foldr]


theorem sumList_cons {ι α : Type} [Add α] [OfNat α 0] (a : ι) (l : List ι) (f : ι → α) :
    sumList (a :: l) f = f a + sumList l f := rfl

theorem sumList_re' {K ι : Type} [CommRing K] (l : List ι) (f : ι → Cx K) :
    (sumList l f).re = sumList l fun i => (f i).re := by
  induction l with
  | nil => rfl
  | cons a l ih => rw [sumList_cons, sumList_cons, Cx.add_re, ih]

theorem sumList_im' {K ι : Type} [CommRing K] (l : List ι) (f : ι → Cx K) :
    (sumList l f).im = sumList l fun i => (f i).im := by
  induction l with
  | nil => rfl
  | cons a l ih => rw [sumList_cons, sumList_cons, Cx.add_im, ih]

theorem sumFin_re' {K : Type} [CommRing K] (n : Nat) (f : Fin n → Cx K) : (sumFin n f).re = sumFin n fun i => (f i).re :=
  sumList_re' (List.finRange n) f
theorem sumFin_im' {K : Type} [CommRing K] (n : Nat) (f : Fin n → Cx K) : (sumFin n f).im = sumFin n fun i => (f i).im :=
  sumList_im' (List.finRange n) f

theorem Cx.smul_eq_mul {K : Type} [CommRing K] (s : K) (z : Cx K) : Cx.smul s z = (⟨s, 0⟩ : Cx K) * z := by
  apply Cx.ext' <;> simp

theorem Cx.ofRe_eq {K : Type} [CommRing K] (s : K) : (Cx.ofRe s : Cx K) = ⟨s, 0⟩ := rfl


theorem Cx.ofRe_add {K : Type} [CommRing K] (a b : K) : (Cx.ofRe (a + b) : Cx K) = Cx.ofRe a + Cx.ofRe b := by
  apply Cx.ext' <;> simp
theorem Cx.ofRe_mul {K : Type} [CommRing K] (a b : K) : (Cx.ofRe (a * b) : Cx K) = Cx.ofRe a * Cx.ofRe b := by
  apply Cx.ext' <;> simp
theorem Cx.ofRe_zero {K : Type} [CommRing K] : (Cx.ofRe (0 : K) : Cx K) = 0 := rfl
theorem Cx.ofRe_sum {K ι : Type} [CommRing K] (s : Finset ι) (f : ι → K) :
    (Cx.ofRe (∑ i ∈ s, f i) : Cx K) = ∑ i ∈ s, Cx.ofRe (f i) := by
  apply Cx.ext'
  · simp [Cx.sum_re]
  · simp [Cx.sum_im]
theorem Cx.ofRe_inj {K : Type} [CommRing K] {a b : K} (h : (Cx.ofRe a : Cx K) = Cx.ofRe b) : a = b :=
  congrArg Cx.re h

end PhononModel.CP
