import PhononModel.Lemmas.Fourier
import Mathlib.Algebra.Order.Ring.Defs
import Mathlib.Algebra.Order.Field.Basic
import Mathlib.Tactic.FieldSimp
import Mathlib.Tactic.Ring
import Mathlib.Tactic.NormNum

/-!
Round trips force constants ↔ dynamical matrices at commensurate points, for the structural
description of the phases (`Lat` + `Zeta` + unit offsets `ψ`).
-/
set_option linter.unusedSectionVars false
namespace PhononModel.C06
open Finset PhononModel

variable {K : Type} [Field K] [LinearOrder K] [IsStrictOrderedRing K]

theorem sumList_replicate (m : Nat) (x : K) : sumList (List.replicate m x) = (m : K) * x := by
  induction m with
  | zero => simp [sumList]
  | succ m ih =>
    simp only [List.replicate_succ, sumList, List.foldr_cons] at ih ⊢
    rw [ih]; push_cast; ring

theorem avgDivEach_replicate {m : Nat} (hm : 0 < m) (z : Cx K) : avgDivEach (List.replicate m z) = z := by
  have hm' : (m : K) ≠ 0 := Nat.cast_ne_zero.mpr (Nat.pos_iff_ne_zero.mp hm)
  ext
  · simp only [avgDivEach, List.length_replicate, List.map_replicate, sumList_replicate]; field_simp
  · simp only [avgDivEach, List.length_replicate, List.map_replicate, sumList_replicate]; field_simp

theorem avgDivSum_replicate {m : Nat} (hm : 0 < m) (z : Cx K) : avgDivSum (List.replicate m z) = z := by
  have hm' : (m : K) ≠ 0 := Nat.cast_ne_zero.mpr (Nat.pos_iff_ne_zero.mp hm)
  ext
  · simp only [avgDivSum, List.length_replicate, List.map_replicate, sumList_replicate]; field_simp
  · simp only [avgDivSum, List.length_replicate, List.map_replicate, sumList_replicate]; field_simp

/-- the two averaging orders agree (forward: each term divided; inverse: the sum divided) -/
theorem avgDivEach_eq_avgDivSum (zs : List (Cx K)) : avgDivEach zs = avgDivSum zs := by
  have aux : ∀ (l : List K) (c : K), sumList (l.map fun x => x / c) = sumList l / c := by
    intro l c
    induction l with
    | nil => simp [sumList]
    | cons x xs ih =>
      simp only [List.map_cons, sumList, List.foldr_cons] at ih ⊢
      rw [ih]; ring
  ext
  · simp only [avgDivEach, avgDivSum]
    rw [← aux (zs.map (·.re)) (zs.length : K), List.map_map]; rfl
  · simp only [avgDivEach, avgDivSum]
    rw [← aux (zs.map (·.im)) (zs.length : K), List.map_map]; rfl

variable {np ns N : Nat}

/-- the index maps of the compact layout: `p2s = arange`, `s2p = s2pp` -/
def cT (L : Lat np ns N) : FTables np ns np := { p2s := id, s2p := fun k => (L.s2pp k).1 }

/-- phase factor of every image of the pair (supercell atom `k`, primitive atom `i`) at the
commensurate point `q` -/
def phaseAt (L : Lat np ns N) (Z : Zeta K L.Nd) (ψ : Fin N → Fin np → Fin np → Cx K)
    (q : Fin N) (k : Fin ns) (i : Fin np) : Cx K := ψ q (L.s2pp k) i * Z.z (L.rel q k)

/-- forward phase table `exp(+2πi q·r)`: `mult k i` equal images -/
def phF (L : Lat np ns N) (Z : Zeta K L.Nd) (ψ : Fin N → Fin np → Fin np → Cx K)
    (mult : Fin ns → Fin np → Nat) (q : Fin N) : Phases np ns K :=
  fun k i => List.replicate (mult k i) (phaseAt L Z ψ q k i)

/-- inverse phase table `exp(−2πi q·r)` -/
def phI (L : Lat np ns N) (Z : Zeta K L.Nd) (ψ : Fin N → Fin np → Fin np → Cx K)
    (mult : Fin ns → Fin np → Nat) (q : Fin N) : Phases np ns K :=
  fun k i => List.replicate (mult k i) (phaseAt L Z ψ q k i).conj

variable {L : Lat np ns N}

theorem phase_mul_conj (Z : Zeta K L.Nd) (ψ : Fin N → Fin np → Fin np → Cx K)
    (hψ : ∀ q j i, (ψ q j i).conj * ψ q j i = 1) (q : Fin N) (k k' : Fin ns) (i : Fin np)
    (hs : L.s2pp k' = L.s2pp k) :
    phaseAt L Z ψ q k' i * (phaseAt L Z ψ q k i).conj = Z.z (L.ex q k' - L.ex q k) := by
  unfold phaseAt
  rw [Cx.conj_mul, hs, ← L.rel_sub_same q hs, Z.z_sub]
  have := hψ q (L.s2pp k) i
  linear_combination (Z.z (L.rel q k') * (Z.z (L.rel q k)).conj) * this

theorem dynmatRaw_struct (Z : Zeta K L.Nd) (ψ : Fin N → Fin np → Fin np → Cx K)
    (mult : Fin ns → Fin np → Nat) (hm : ∀ k i, 0 < mult k i) (ms : Fin np → Fin np → K)
    (Φ : CFC np ns K) (q : Fin N) (i : Fin np) (a : Fin 3) (j : Fin np) (b : Fin 3) :
    dynmatRaw (cT L) Φ ms (phF L Z ψ mult q) i a j b =
      ⟨(∑ k, if L.s2pp k = j then Φ i k a b * (phaseAt L Z ψ q k i).re else 0) / ms i j,
       (∑ k, if L.s2pp k = j then Φ i k a b * (phaseAt L Z ψ q k i).im else 0) / ms i j⟩ := by
  simp only [dynmatRaw, cT, phF, sumFin_eq, avgDivEach_replicate (hm _ _), id, Fin.val_inj]

/-- **round trip fc → D(q) → fc** on the compact rows, raw (un-Hermitised) forward transform -/
theorem roundtrip_fc_raw (h : L.WF) (hN : 0 < N) (Z : Zeta K L.Nd) (ψ : Fin N → Fin np → Fin np → Cx K)
    (hψ : ∀ q j i, (ψ q j i).conj * ψ q j i = 1)
    (mult : Fin ns → Fin np → Nat) (hm : ∀ k i, 0 < mult k i)
    (ms : Fin np → Fin np → K) (hms : ∀ i j, ms i j ≠ 0) (Φ : CFC np ns K) :
    dynmatToFc L.s2pp (fun q => dynmatRaw (cT L) Φ ms (phF L Z ψ mult q)) ms (phI L Z ψ mult) = Φ := by
  funext i k a b
  have hN' : (N : K) ≠ 0 := Nat.cast_ne_zero.mpr (Nat.pos_iff_ne_zero.mp hN)
  -- orthogonality in real form
  have key : ∀ k', L.s2pp k' = L.s2pp k →
      ∑ q, ((phaseAt L Z ψ q k' i).re * (phaseAt L Z ψ q k i).re + (phaseAt L Z ψ q k' i).im * (phaseAt L Z ψ q k i).im)
        = if k' = k then (N : K) else 0 := by
    intro k' hs
    have e : ∀ q, (phaseAt L Z ψ q k' i).re * (phaseAt L Z ψ q k i).re + (phaseAt L Z ψ q k' i).im * (phaseAt L Z ψ q k i).im
        = (Z.z (L.ex q k' - L.ex q k)).re := by
      intro q
      rw [← phase_mul_conj Z ψ hψ q k k' i hs]
      simp only [Cx.mul_re, Cx.conj_re, Cx.conj_im]; ring
    simp only [e]
    rw [← Cx.re_sum, h.col_orth Z k' k hs]
    split <;> simp [Cx.natCast_re]
  simp only [dynmatToFc, sumFin_eq, phI, avgDivSum_replicate (hm _ _), dynmatRaw_struct Z ψ mult hm,
    Cx.conj_re, Cx.conj_im]
  have step : ∀ q,
      ((∑ k', if L.s2pp k' = L.s2pp k then Φ i k' a b * (phaseAt L Z ψ q k' i).re else 0) / ms i (L.s2pp k)
          * (phaseAt L Z ψ q k i).re
        - (∑ k', if L.s2pp k' = L.s2pp k then Φ i k' a b * (phaseAt L Z ψ q k' i).im else 0) / ms i (L.s2pp k)
          * -(phaseAt L Z ψ q k i).im) * (ms i (L.s2pp k) / (N : K))
      = ∑ k', if L.s2pp k' = L.s2pp k then
          Φ i k' a b * ((phaseAt L Z ψ q k' i).re * (phaseAt L Z ψ q k i).re
            + (phaseAt L Z ψ q k' i).im * (phaseAt L Z ψ q k i).im) / (N : K) else 0 := by
    intro q
    have hms' := hms i (L.s2pp k)
    have e1 : ∀ (A B x y : K), (A / ms i (L.s2pp k) * x - B / ms i (L.s2pp k) * -y) * (ms i (L.s2pp k) / (N : K))
        = (A * x + B * y) / (N : K) := by
      intro A B x y; field_simp; ring
    rw [e1, Finset.sum_mul, Finset.sum_mul, ← Finset.sum_add_distrib, Finset.sum_div]
    apply Finset.sum_congr rfl
    intro k' _
    split <;> ring
  simp only [step]
  rw [Finset.sum_comm]
  have step2 : ∀ k', (∑ q, if L.s2pp k' = L.s2pp k then
          Φ i k' a b * ((phaseAt L Z ψ q k' i).re * (phaseAt L Z ψ q k i).re
            + (phaseAt L Z ψ q k' i).im * (phaseAt L Z ψ q k i).im) / (N : K) else 0)
      = if k' = k then Φ i k a b else 0 := by
    intro k'
    by_cases hs : L.s2pp k' = L.s2pp k
    · simp only [hs, if_true]
      rw [← Finset.sum_div, ← Finset.mul_sum, key k' hs]
      by_cases hk : k' = k
      · subst hk; simp only [if_true]; field_simp
      · simp [hk]
    · have hk : k' ≠ k := fun e => hs (by rw [e])
      simp [hs, hk]
  simp only [step2]
  simp

/-! ### a concrete instance (non-vacuity of the hypotheses) -/

/-- a faithful character of `ℤ/2` over ℚ: `ζ = −1` -/
def zeta2 : Zeta ℚ 2 where
  z := fun t => if t % 2 = 0 then 1 else -1
  z_add := by
    intro a b
    rcases Int.emod_two_eq_zero_or_one a with ha | ha <;> rcases Int.emod_two_eq_zero_or_one b with hb | hb <;>
      simp [Int.add_emod, ha, hb]
  z_zero := by simp
  z_period := by simp
  z_unit := by
    intro a
    rcases Int.emod_two_eq_zero_or_one a with ha | ha <;> simp [ha] <;> ext <;> simp
  faithful := by
    intro t h
    rcases Int.emod_two_eq_zero_or_one t with ht | ht
    · exact Int.dvd_of_emod_eq_zero ht
    · simp [ht] at h
      have := congrArg Cx.re h
      simp at this
      norm_num at this

/-- one atom per cell, two cells along `a`: q ∈ {0, 1/2}, lattice vectors 0 and `a`. -/
def Lex : Lat 1 2 2 where
  s2pp := fun _ => 0
  base := fun _ => 0
  kq := fun q => ((q.1 : Int), 0, 0)
  R := fun k => ((k.1 : Int), 0, 0)
  Nd := 2

theorem Lex_wf : Lex.wf = true := by decide

/-- Hermitian matrix -/
def IsHermitian {np : Nat} (D : DM np K) : Prop := ∀ i a j b, D j b i a = (D i a j b).conj

theorem hermitize_of_hermitian {np : Nat} (D : DM np K) (h : IsHermitian D) : hermitize D = D := by
  funext i a j b
  have := h i a j b
  ext
  · simp only [hermitize, this, Cx.conj_re]; ring
  · simp only [hermitize, this, Cx.conj_im]; ring

/-! ### D(q) → fc → D(q) -/

theorem sum_ite_subtype {ι M : Type} [Fintype ι] [AddCommMonoid M] (p : ι → Prop) [DecidablePred p] (f : ι → M) :
    (∑ k, if p k then f k else 0) = ∑ k : {k // p k}, f k.1 := by
  rw [← Finset.sum_filter]
  exact Finset.sum_subtype _ (by simp) f

theorem P3.add_comm' (a b : P3) : a.add b = b.add a := by
  apply P3.ext3 <;> simp only [P3.add] <;> ring

theorem Cx.ofK_mul (a b : K) : Cx.ofK (a * b) = Cx.ofK a * Cx.ofK b := by ext <;> simp
theorem Cx.ofK_sum {ι : Type} (s : Finset ι) (f : ι → K) : Cx.ofK (∑ i ∈ s, f i) = ∑ i ∈ s, Cx.ofK (f i) := by
  ext
  · simp [Cx.re_sum]
  · simp [Cx.im_sum]
theorem Cx.ofK_re_eq (w : Cx K) : Cx.ofK w.re = Cx.ofK (1 / 2) * (w + w.conj) := by
  ext
  · simp; ring
  · simp

theorem dynmatRaw_struct_cx (Z : Zeta K L.Nd) (ψ : Fin N → Fin np → Fin np → Cx K)
    (mult : Fin ns → Fin np → Nat) (hm : ∀ k i, 0 < mult k i) (ms : Fin np → Fin np → K)
    (Φ : CFC np ns K) (q : Fin N) (i : Fin np) (a : Fin 3) (j : Fin np) (b : Fin 3) :
    dynmatRaw (cT L) Φ ms (phF L Z ψ mult q) i a j b =
      Cx.ofK (1 / ms i j) * ∑ k, if L.s2pp k = j then Cx.ofK (Φ i k a b) * phaseAt L Z ψ q k i else 0 := by
  rw [dynmatRaw_struct Z ψ mult hm]
  ext
  · simp only [Cx.mul_re, Cx.ofK_re, Cx.ofK_im, Cx.re_sum, Cx.im_sum, zero_mul, sub_zero, apply_ite Cx.re,
      Cx.zero_re]
    rw [div_eq_mul_inv, mul_comm]; simp
  · simp only [Cx.mul_im, Cx.ofK_re, Cx.ofK_im, Cx.re_sum, Cx.im_sum, zero_mul, add_zero, apply_ite Cx.im,
      Cx.zero_im]
    rw [div_eq_mul_inv, mul_comm]; simp

theorem dynmatToFc_struct (Z : Zeta K L.Nd) (ψ : Fin N → Fin np → Fin np → Cx K)
    (mult : Fin ns → Fin np → Nat) (hm : ∀ k i, 0 < mult k i) (ms : Fin np → Fin np → K)
    (D : Fin N → DM np K) (i : Fin np) (k : Fin ns) (a b : Fin 3) :
    dynmatToFc L.s2pp D ms (phI L Z ψ mult) i k a b =
      ∑ q, (D q i a (L.s2pp k) b * (phaseAt L Z ψ q k i).conj).re * (ms i (L.s2pp k) / (N : K)) := by
  simp only [dynmatToFc, sumFin_eq, phI, avgDivSum_replicate (hm _ _), Cx.mul_re]

theorem Lat.WF.sum_S1 (h : L.WF) (Z : Zeta K L.Nd) (ψ : Fin N → Fin np → Fin np → Cx K)
    (hψ : ∀ q j i, (ψ q j i).conj * ψ q j i = 1) (q' q : Fin N) (i j : Fin np) :
    ∑ k : {k : Fin ns // L.s2pp k = j}, phaseAt L Z ψ q' k.1 i * (phaseAt L Z ψ q k.1 i).conj
      = if q' = q then (N : Cx K) else 0 := by
  have e : ∀ k : {k : Fin ns // L.s2pp k = j}, phaseAt L Z ψ q' k.1 i * (phaseAt L Z ψ q k.1 i).conj
      = (ψ q' j i * (ψ q j i).conj) * Z.z (L.rel q' k.1 - L.rel q k.1) := by
    intro k
    unfold phaseAt
    rw [Cx.conj_mul, k.2, Z.z_sub]; ring
  simp only [e]
  rw [← Finset.mul_sum, h.row_orth Z q' q j]
  by_cases hq : q' = q
  · subst hq
    simp only [if_true]
    have := hψ q' j i
    linear_combination (N : Cx K) * this
  · simp [hq]

theorem Lat.WF.neg_unique (h : L.WF) {q q1 q2 : Fin N} (h1 : P3.Dvd L.Nd ((L.kq q).add (L.kq q1)))
    (h2 : P3.Dvd L.Nd ((L.kq q).add (L.kq q2))) : q1 = q2 := by
  by_contra hne
  apply h.q_distinct q1 q2 hne
  have := P3.Dvd.sub' h1 h2
  have e : ((L.kq q).add (L.kq q1)).sub ((L.kq q).add (L.kq q2)) = (L.kq q1).sub (L.kq q2) := by
    apply P3.ext3 <;> simp only [P3.sub, P3.add] <;> ring
  rw [e] at this; exact this

theorem Lat.rel_add_dvd (L : Lat np ns N) {q q1 : Fin N} (hd : P3.Dvd L.Nd ((L.kq q).add (L.kq q1))) (k : Fin ns) :
    L.Nd ∣ L.rel q k + L.rel q1 k := by
  have e : L.rel q k + L.rel q1 k = ((L.kq q).add (L.kq q1)).dot (L.R k) - ((L.kq q).add (L.kq q1)).dot (L.R (L.base (L.s2pp k))) := by
    simp only [Lat.rel, Lat.ex, P3.dot_add]; ring
  rw [e]
  exact Int.dvd_sub (hd.dot _) (hd.dot _)

theorem Lat.WF.sum_S2 (h : L.WF) (Z : Zeta K L.Nd) (ψ : Fin N → Fin np → Fin np → Cx K)
    (q' q : Fin N) (i j : Fin np) :
    ∑ k : {k : Fin ns // L.s2pp k = j}, phaseAt L Z ψ q' k.1 i * phaseAt L Z ψ q k.1 i
      = if P3.Dvd L.Nd ((L.kq q).add (L.kq q')) then (ψ q' j i * ψ q j i) * (N : Cx K) else 0 := by
  classical
  obtain ⟨qn, hqn⟩ := h.q_neg q
  have e : ∀ k : {k : Fin ns // L.s2pp k = j}, phaseAt L Z ψ q' k.1 i * phaseAt L Z ψ q k.1 i
      = (ψ q' j i * ψ q j i) * Z.z (L.rel q' k.1 - L.rel qn k.1) := by
    intro k
    unfold phaseAt
    rw [k.2]
    have hc : Z.z (L.rel q' k.1 - L.rel qn k.1) = Z.z (L.rel q' k.1 + L.rel q k.1) := by
      apply Z.congr
      have := L.rel_add_dvd hqn k.1
      have e2 : L.rel q' k.1 - L.rel qn k.1 - (L.rel q' k.1 + L.rel q k.1) = -(L.rel q k.1 + L.rel qn k.1) := by ring
      rw [e2]; exact (Int.dvd_neg).mpr this
    rw [hc, Z.z_add]; ring
  simp only [e]
  rw [← Finset.mul_sum, h.row_orth Z q' qn j]
  by_cases hq : q' = qn
  · subst hq
    rw [if_pos rfl, if_pos hqn]
  · rw [if_neg hq, if_neg]
    · simp
    · intro hd
      exact hq (h.neg_unique hd hqn)

/-- **round trip D(q) → fc → D(q)** at the commensurate points (raw forward transform).
The matrix at `q'` and the one at the list's representative `q` of `−q'` must have the
time-reversal structure of real force constants: `D(q')[i,j] = ψ(q',j,i) ψ(q,j,i) · conj D(q)[i,j]`
(only this pair matters for the value at `q'`).  The unit factor `ψ(q')ψ(q) = exp(2πi G₀·(x_j − x_i))`
accounts for the representative `q = −q' + G₀` lying in another zone (phonopy's matrices are
periodic only up to this factor); it is 1 when `q = −q'` exactly or for one atom per cell. -/
theorem roundtrip_dm_raw (h : L.WF) (hN : 0 < N) (Z : Zeta K L.Nd) (ψ : Fin N → Fin np → Fin np → Cx K)
    (hψ : ∀ q j i, (ψ q j i).conj * ψ q j i = 1)
    (mult : Fin ns → Fin np → Nat) (hm : ∀ k i, 0 < mult k i)
    (ms : Fin np → Fin np → K) (hms : ∀ i j, ms i j ≠ 0) (D : Fin N → DM np K)
    (q' : Fin N)
    (hTR : ∀ q, P3.Dvd L.Nd ((L.kq q).add (L.kq q')) → ∀ i a j b,
      D q' i a j b = (ψ q' j i * ψ q j i) * (D q i a j b).conj) :
    dynmatRaw (cT L) (dynmatToFc L.s2pp D ms (phI L Z ψ mult)) ms (phF L Z ψ mult q') = D q' := by
  classical
  funext i a j b
  have hN' : (N : K) ≠ 0 := Nat.cast_ne_zero.mpr (Nat.pos_iff_ne_zero.mp hN)
  rw [dynmatRaw_struct_cx Z ψ mult hm, sum_ite_subtype]
  have hfc : ∀ k : {k : Fin ns // L.s2pp k = j},
      Cx.ofK (dynmatToFc L.s2pp D ms (phI L Z ψ mult) i k.1 a b) * phaseAt L Z ψ q' k.1 i
      = (Cx.ofK (ms i j / (N : K)) * Cx.ofK (1 / 2)) *
          ∑ q, (D q i a j b * (phaseAt L Z ψ q' k.1 i * (phaseAt L Z ψ q k.1 i).conj)
                + (D q i a j b).conj * (phaseAt L Z ψ q' k.1 i * phaseAt L Z ψ q k.1 i)) := by
    intro k
    rw [dynmatToFc_struct Z ψ mult hm, k.2, Cx.ofK_sum, Finset.sum_mul, Finset.mul_sum]
    apply Finset.sum_congr rfl
    intro q _
    rw [Cx.ofK_mul, Cx.ofK_re_eq, Cx.conj_mul, Cx.conj_conj]
    ring
  simp only [hfc]
  rw [← Finset.mul_sum, Finset.sum_comm]
  simp only [Finset.sum_add_distrib, ← Finset.mul_sum, h.sum_S1 Z ψ hψ, h.sum_S2 Z ψ]
  obtain ⟨qn, hqn⟩ := h.q_neg q'
  have e2 : ∀ q, (D q i a j b).conj * (if P3.Dvd L.Nd ((L.kq q).add (L.kq q')) then (ψ q' j i * ψ q j i) * (N : Cx K) else 0)
      = if q = qn then D q' i a j b * (N : Cx K) else 0 := by
    intro q
    by_cases hd : P3.Dvd L.Nd ((L.kq q).add (L.kq q'))
    · have hq : q = qn := h.neg_unique (by rw [P3.add_comm']; exact hd) hqn
      rw [if_pos hd, if_pos hq, hTR q hd]; ring
    · have hq : q ≠ qn := by
        intro e; apply hd; rw [e, P3.add_comm']; exact hqn
      rw [if_neg hd, if_neg hq, mul_zero]
  simp only [e2, mul_ite, mul_zero, Finset.sum_ite_eq, Finset.sum_ite_eq', Finset.mem_univ, if_true]
  have hms' := hms i j
  ext
  · simp only [Cx.mul_re, Cx.mul_im, Cx.ofK_re, Cx.ofK_im, Cx.add_re, Cx.add_im, Cx.natCast_re, Cx.natCast_im]
    field_simp; ring
  · simp only [Cx.mul_re, Cx.mul_im, Cx.ofK_re, Cx.ofK_im, Cx.add_re, Cx.add_im, Cx.natCast_re, Cx.natCast_im]
    field_simp; ring

end PhononModel.C06
