import PhononModel.Lemmas.TetraOrder
import Mathlib.Analysis.Calculus.Deriv.Mul
import Mathlib.Analysis.Calculus.Deriv.Add
import Mathlib.Analysis.Calculus.Deriv.Inv
import Mathlib.Analysis.Calculus.Deriv.MeanValue
import Mathlib.Order.Monotone.Union

/-! Continuity at the breakpoints and derivatives of the cumulative tetrahedron functions (C11). -/
set_option linter.unusedSectionVars false
set_option linter.unusedVariables false
set_option linter.unusedSimpArgs false
namespace PhononModel.TetraLemmas
open PhononModel

section breakpoints
variable {K : Type} [Field K] [LinearOrder K] [IsStrictOrderedRing K]

theorem f_at_m (v : Fin 4 → K) (n m : Fin 4) : TetraPy.f (v m) v n m = 0 := by
  unfold TetraPy.f; rw [sub_self, zero_div]

theorem f_at_n (v : Fin 4 → K) (n m : Fin 4) (h : v n ≠ v m) : TetraPy.f (v n) v n m = 1 := by
  unfold TetraPy.f; exact div_self (sub_ne_zero.mpr h)

/-- the cumulative function is continuous across the four vertex values -/
theorem n_breakpoints (v : Fin 4 → K) (hd : Distinct v) :
    TetraPy.n_1 (v 0) v = TetraPy.n_0 ∧ TetraPy.n_1 (v 1) v = TetraPy.n_2 (v 1) v ∧
    TetraPy.n_2 (v 2) v = TetraPy.n_3 (v 2) v ∧ TetraPy.n_3 (v 3) v = TetraPy.n_4 := by
  obtain ⟨h01, h02, h03, h12, h13, h23⟩ := hd
  unfold TetraPy.n_0 TetraPy.n_1 TetraPy.n_2 TetraPy.n_3 TetraPy.n_4
  refine ⟨?_, ?_, ?_, ?_⟩
  · rw [f_at_m]; simp
  · rw [f_at_n v 1 0 h01.symm, f_at_m v 3 1, f_at_m v 2 1, f_at_n v 1 2 h12]; ring
  · rw [f_at_n v 2 1 h12.symm, f_at_m v 1 2, f_at_n v 2 3 h23]
    have s03 := f_swap (v 2) v 0 3 h03
    have s13 := f_swap (v 2) v 1 3 h13
    push_cast
    linear_combination s13 + (TetraPy.f (v 2) v 1 3) * s03
  · rw [f_at_m v 0 3]; push_cast; ring

/-- the density is continuous across the vertex values (and vanishes at both ends) -/
theorem g_breakpoints (v : Fin 4 → K) (hd : Distinct v) :
    TetraPy.g_1 (v 0) v = TetraPy.g_0 ∧ TetraPy.g_1 (v 1) v = TetraPy.g_2 (v 1) v ∧
    TetraPy.g_2 (v 2) v = TetraPy.g_3 (v 2) v ∧ TetraPy.g_3 (v 3) v = TetraPy.g_4 := by
  obtain ⟨h01, h02, h03, h12, h13, h23⟩ := hd
  unfold TetraPy.g_0 TetraPy.g_1 TetraPy.g_2 TetraPy.g_3 TetraPy.g_4
  refine ⟨?_, ?_, ?_, ?_⟩
  · rw [f_at_m]; simp
  · rw [f_at_n v 1 0 h01.symm, f_at_m v 2 1, f_at_n v 1 2 h12]; ring
  · rw [f_at_n v 2 1 h12.symm, f_at_m v 1 2, f_at_n v 2 3 h23]; ring
  · rw [f_at_m v 1 3]; simp

end breakpoints

/-! ### derivatives over ℝ -/

theorem hasDerivAt_f (v : Fin 4 → ℝ) (n m : Fin 4) (ω : ℝ) :
    HasDerivAt (fun x => TetraPy.f x v n m) (1 / (v n - v m)) ω := by
  unfold TetraPy.f
  exact ((hasDerivAt_id ω).sub_const (v m)).div_const (v n - v m)

theorem hasDerivAt_n_1 (v : Fin 4 → ℝ) (hd : Distinct v) (ω : ℝ) :
    HasDerivAt (fun x => TetraPy.n_1 x v) (TetraPy.g_1 ω v) ω := by
  obtain ⟨h01, h02, h03, h12, h13, h23⟩ := hd
  have h := ((hasDerivAt_f v 1 0 ω).mul (hasDerivAt_f v 2 0 ω)).mul (hasDerivAt_f v 3 0 ω)
  unfold TetraPy.n_1
  refine h.congr_deriv ?_
  simp only [Pi.mul_apply, Pi.add_apply]
  unfold TetraPy.g_1 TetraPy.f
  have d1 : v 1 - v 0 ≠ 0 := sub_ne_zero.mpr h01.symm
  have d2 : v 2 - v 0 ≠ 0 := sub_ne_zero.mpr h02.symm
  have d3 : v 3 - v 0 ≠ 0 := sub_ne_zero.mpr h03.symm
  push_cast
  field_simp
  ring

theorem hasDerivAt_n_2 (v : Fin 4 → ℝ) (hd : Distinct v) (ω : ℝ) :
    HasDerivAt (fun x => TetraPy.n_2 x v) (TetraPy.g_2 ω v) ω := by
  obtain ⟨h01, h02, h03, h12, h13, h23⟩ := hd
  have h := (((hasDerivAt_f v 3 1 ω).mul (hasDerivAt_f v 2 1 ω)).add
    (((hasDerivAt_f v 3 0 ω).mul (hasDerivAt_f v 1 3 ω)).mul (hasDerivAt_f v 2 1 ω))).add
    (((hasDerivAt_f v 3 0 ω).mul (hasDerivAt_f v 2 0 ω)).mul (hasDerivAt_f v 1 2 ω))
  unfold TetraPy.n_2
  refine h.congr_deriv ?_
  simp only [Pi.mul_apply, Pi.add_apply]
  unfold TetraPy.g_2 TetraPy.f
  have d31 : v 3 - v 1 ≠ 0 := sub_ne_zero.mpr h13.symm
  have d21 : v 2 - v 1 ≠ 0 := sub_ne_zero.mpr h12.symm
  have d30 : v 3 - v 0 ≠ 0 := sub_ne_zero.mpr h03.symm
  have d13 : v 1 - v 3 ≠ 0 := sub_ne_zero.mpr h13
  have d20 : v 2 - v 0 ≠ 0 := sub_ne_zero.mpr h02.symm
  have d12 : v 1 - v 2 ≠ 0 := sub_ne_zero.mpr h12
  push_cast
  field_simp
  ring

theorem hasDerivAt_n_3 (v : Fin 4 → ℝ) (hd : Distinct v) (ω : ℝ) :
    HasDerivAt (fun x => TetraPy.n_3 x v) (TetraPy.g_3 ω v) ω := by
  obtain ⟨h01, h02, h03, h12, h13, h23⟩ := hd
  have h := (((hasDerivAt_f v 0 3 ω).mul (hasDerivAt_f v 1 3 ω)).mul (hasDerivAt_f v 2 3 ω)).const_sub (((1 : Nat) : ℝ))
  unfold TetraPy.n_3
  refine h.congr_deriv ?_
  simp only [Pi.mul_apply, Pi.add_apply]
  unfold TetraPy.g_3 TetraPy.f
  have d03 : v 0 - v 3 ≠ 0 := sub_ne_zero.mpr h03
  have d13 : v 1 - v 3 ≠ 0 := sub_ne_zero.mpr h13
  have d23 : v 2 - v 3 ≠ 0 := sub_ne_zero.mpr h23
  have d30 : v 3 - v 0 ≠ 0 := sub_ne_zero.mpr h03.symm
  push_cast
  field_simp
  ring


/-! ### monotonicity of the cumulative function (closed-below interval selection) -/

/-- the cumulative fraction selected by the repaired interval test (`TetraPy.interval true`) -/
noncomputable def nTot (v : Fin 4 → ℝ) (ω : ℝ) : ℝ :=
  match TetraPy.interval true ω v with
  | some i => TetraPy.n ω v i
  | none => 0

theorem nTot_below {v : Fin 4 → ℝ} {ω : ℝ} (h : ω ≤ v 0) : nTot v ω = 0 := by
  unfold nTot TetraPy.interval
  simp only [if_true, not_lt.mpr h, not_false_eq_true]
  simp [TetraPy.n, TetraPy.n_0]

theorem nTot_1 {v : Fin 4 → ℝ} {ω : ℝ} (h0 : v 0 < ω) (h1 : ω < v 1) : nTot v ω = TetraPy.n_1 ω v := by
  unfold nTot TetraPy.interval
  simp only [if_true, h0, h1, not_true_eq_false, if_false, and_self]
  rfl

theorem nTot_2 {v : Fin 4 → ℝ} {ω : ℝ} (hs : Sorted v) (h1 : v 1 ≤ ω) (h2 : ω < v 2) : nTot v ω = TetraPy.n_2 ω v := by
  have h0 : v 0 < ω := lt_of_lt_of_le hs.1 h1
  unfold nTot TetraPy.interval
  simp only [if_true, h0, not_true_eq_false, if_false, not_lt.mpr h1, and_false, not_false_eq_true, h2, and_self]
  rfl

theorem nTot_3 {v : Fin 4 → ℝ} {ω : ℝ} (hs : Sorted v) (h2 : v 2 ≤ ω) (h3 : ω < v 3) : nTot v ω = TetraPy.n_3 ω v := by
  have h1 : v 1 < ω := lt_of_lt_of_le hs.2.1 h2
  have h0 : v 0 < ω := lt_trans hs.1 h1
  unfold nTot TetraPy.interval
  simp only [if_true, h0, not_true_eq_false, if_false, not_lt.mpr (le_of_lt h1), and_false, not_false_eq_true,
    not_lt.mpr h2, true_and, h3, and_self]
  rfl

theorem nTot_above {v : Fin 4 → ℝ} {ω : ℝ} (hs : Sorted v) (h3 : v 3 ≤ ω) : nTot v ω = 1 := by
  have h2 : v 2 < ω := lt_of_lt_of_le hs.2.2 h3
  have h1 : v 1 < ω := lt_trans hs.2.1 h2
  have h0 : v 0 < ω := lt_trans hs.1 h1
  unfold nTot TetraPy.interval
  simp only [if_true, h0, not_true_eq_false, if_false, not_lt.mpr (le_of_lt h1), and_false, not_false_eq_true,
    not_lt.mpr (le_of_lt h2), not_lt.mpr h3, true_and]
  simp [TetraPy.n, TetraPy.n_4]

theorem monoOn_piece {F G : ℝ → ℝ} {a b : ℝ} (hF : ∀ x, HasDerivAt F (G x) x)
    (hG : ∀ x, a < x → x < b → 0 ≤ G x) : MonotoneOn F (Set.Icc a b) := by
  apply monotoneOn_of_deriv_nonneg (convex_Icc a b)
  · exact fun x _ => (hF x).continuousAt.continuousWithinAt
  · exact fun x _ => (hF x).differentiableAt.differentiableWithinAt
  · intro x hx
    rw [interior_Icc] at hx
    rw [(hF x).deriv]
    exact hG x hx.1 hx.2

theorem nTot_monotone {v : Fin 4 → ℝ} (hs : Sorted v) : Monotone (nTot v) := by
  have hd := hs.distinct
  obtain ⟨b0, b1, b2, b3⟩ := n_breakpoints v hd
  -- the function coincides with one formula on each closed piece
  have e1 : Set.EqOn (nTot v) (fun x => TetraPy.n_1 x v) (Set.Icc (v 0) (v 1)) := by
    intro x hx
    rcases eq_or_lt_of_le hx.1 with h | h
    · rw [← h, nTot_below (le_refl _)]; simp only; rw [b0]; simp [TetraPy.n_0]
    rcases eq_or_lt_of_le hx.2 with h' | h'
    · rw [h', nTot_2 hs (le_refl _) hs.2.1]; exact b1.symm
    · exact nTot_1 h h'
  have e2 : Set.EqOn (nTot v) (fun x => TetraPy.n_2 x v) (Set.Icc (v 1) (v 2)) := by
    intro x hx
    rcases eq_or_lt_of_le hx.2 with h' | h'
    · rw [h', nTot_3 hs (le_refl _) hs.2.2]; exact b2.symm
    · exact nTot_2 hs hx.1 h'
  have e3 : Set.EqOn (nTot v) (fun x => TetraPy.n_3 x v) (Set.Icc (v 2) (v 3)) := by
    intro x hx
    rcases eq_or_lt_of_le hx.2 with h' | h'
    · rw [h', nTot_above hs (le_refl _)]; simp only; rw [b3]; simp [TetraPy.n_4]
    · exact nTot_3 hs hx.1 h'
  have m0 : MonotoneOn (nTot v) (Set.Iic (v 0)) := by
    intro x hx y hy _
    rw [nTot_below hx, nTot_below hy]
  have m1 : MonotoneOn (nTot v) (Set.Icc (v 0) (v 1)) :=
    (monoOn_piece (hasDerivAt_n_1 v hd) (fun x h0 h1 => le_of_lt (g_1_pos hs h0 h1))).congr e1.symm
  have m2 : MonotoneOn (nTot v) (Set.Icc (v 1) (v 2)) :=
    (monoOn_piece (hasDerivAt_n_2 v hd) (fun x h0 h1 => le_of_lt (g_2_pos hs h0 h1))).congr e2.symm
  have m3 : MonotoneOn (nTot v) (Set.Icc (v 2) (v 3)) :=
    (monoOn_piece (hasDerivAt_n_3 v hd) (fun x h0 h1 => le_of_lt (g_3_pos hs h0 h1))).congr e3.symm
  have m4 : MonotoneOn (nTot v) (Set.Ici (v 3)) := by
    intro x hx y hy _
    rw [nTot_above hs hx, nTot_above hs hy]
  have u1 := m0.union_right m1 isGreatest_Iic (isLeast_Icc (le_of_lt hs.1))
  rw [Set.Iic_union_Icc_eq_Iic (le_of_lt hs.1)] at u1
  have u2 := u1.union_right m2 isGreatest_Iic (isLeast_Icc (le_of_lt hs.2.1))
  rw [Set.Iic_union_Icc_eq_Iic (le_of_lt hs.2.1)] at u2
  have u3 := u2.union_right m3 isGreatest_Iic (isLeast_Icc (le_of_lt hs.2.2))
  rw [Set.Iic_union_Icc_eq_Iic (le_of_lt hs.2.2)] at u3
  have u4 := u3.union_right m4 isGreatest_Iic isLeast_Ici
  rw [Set.Iic_union_Ici] at u4
  exact monotoneOn_univ.mp u4

end PhononModel.TetraLemmas
