import PhononModel.Model.Settings
import Mathlib.Data.List.Perm.Basic
import Mathlib.Data.List.Nodup
/-!
Helper lemmas for C18 (`Props/C18.lean`): frame lemmas of the statement interpreter, the
"simple binding" lemma, dictionary lemmas for `read_file` / `read_options`, order-independence of
`parse_conf` on non-conflicting conf keys.
-/
namespace PhononModel.Settings

/-! ### small specification-level helpers -/

/-- first component wins: `x or y` on options -/
def owr {β : Type} (x y : Option β) : Option β := match x with | some v => some v | none => y

/-- the last value written to `k` in a list of assignments -/
def lastOf {β : Type} (k : Nat) : List (Nat × β) → Option β
  | [] => none
  | (k', v) :: r => owr (lastOf k r) (if k' = k then some v else none)

@[simp] theorem owr_none_left {β : Type} (y : Option β) : owr none y = y := rfl
@[simp] theorem owr_some_left {β : Type} (v : β) (y : Option β) : owr (some v) y = some v := rfl
@[simp] theorem owr_none_right {β : Type} (x : Option β) : owr x none = x := by cases x <;> rfl
theorem owr_assoc {β : Type} (x y z : Option β) : owr (owr x y) z = owr x (owr y z) := by cases x <;> rfl

theorem upd_same {β : Type} (f : Nat → β) (a : Nat) (v : β) : upd f a v a = v := by simp [upd]
theorem upd_other {β : Type} (f : Nat → β) (a x : Nat) (v : β) (h : x ≠ a) : upd f a v x = f x := by simp [upd, h]

theorem lastOf_none_of_not_mem {β : Type} (k : Nat) (o : List (Nat × β)) (h : ∀ kv ∈ o, kv.1 ≠ k) :
    lastOf k o = none := by
  induction o with
  | nil => rfl
  | cons kv r ih =>
    obtain ⟨k', v⟩ := kv
    have h1 : k' ≠ k := h (k', v) (by simp)
    have h2 := ih (fun kv hkv => h kv (by simp [hkv]))
    simp [lastOf, h1, h2]

theorem lastOf_append {β : Type} (k : Nat) (o o' : List (Nat × β)) :
    lastOf k (o ++ o') = owr (lastOf k o') (lastOf k o) := by
  induction o with
  | nil => simp [lastOf]
  | cons kv r ih =>
    obtain ⟨k', v⟩ := kv
    simp only [List.cons_append, lastOf, ih, owr_assoc]

/-! ### frame lemmas of the interpreter -/

theorem exec_frame_attr (a : Nat) : ∀ (s : Stmt) (σ σ' : State), s.writesAttr a = false →
    s.exec σ = some σ' → σ'.settings a = σ.settings a := by
  intro s
  induction s with
  | skip => intro σ σ' _ h; simp [Stmt.exec] at h; subst h; rfl
  | set b e =>
    intro σ σ' hw h
    simp only [Stmt.writesAttr, beq_eq_false_iff_ne, ne_eq] at hw
    simp only [Stmt.exec, Option.map_eq_some_iff] at h
    obtain ⟨v, _, rfl⟩ := h
    exact upd_other _ _ _ _ (fun h => hw h.symm)
  | setParam k e =>
    intro σ σ' _ h
    simp only [Stmt.exec, Option.map_eq_some_iff] at h
    obtain ⟨v, _, rfl⟩ := h
    rfl
  | ite c t e iht ihe =>
    intro σ σ' hw h
    simp only [Stmt.writesAttr, Bool.or_eq_false_iff] at hw
    simp only [Stmt.exec, Option.bind_eq_some_iff] at h
    obtain ⟨b, _, hb⟩ := h
    cases b
    · exact ihe σ σ' hw.2 (by simpa using hb)
    · exact iht σ σ' hw.1 (by simpa using hb)
  | seq s t ihs iht =>
    intro σ σ' hw h
    simp only [Stmt.writesAttr, Bool.or_eq_false_iff] at hw
    simp only [Stmt.exec, Option.bind_eq_some_iff] at h
    obtain ⟨σ1, h1, h2⟩ := h
    rw [iht σ1 σ' hw.2 h2, ihs σ σ1 hw.1 h1]

theorem exec_frame_param (k : Nat) : ∀ (s : Stmt) (σ σ' : State), s.writesParam k = false →
    s.exec σ = some σ' → σ'.params k = σ.params k := by
  intro s
  induction s with
  | skip => intro σ σ' _ h; simp [Stmt.exec] at h; subst h; rfl
  | set b e =>
    intro σ σ' _ h
    simp only [Stmt.exec, Option.map_eq_some_iff] at h
    obtain ⟨v, _, rfl⟩ := h
    rfl
  | setParam k' e =>
    intro σ σ' hw h
    simp only [Stmt.writesParam, beq_eq_false_iff_ne, ne_eq] at hw
    simp only [Stmt.exec, Option.map_eq_some_iff] at h
    obtain ⟨v, _, rfl⟩ := h
    exact upd_other _ _ _ _ (fun h => hw h.symm)
  | ite c t e iht ihe =>
    intro σ σ' hw h
    simp only [Stmt.writesParam, Bool.or_eq_false_iff] at hw
    simp only [Stmt.exec, Option.bind_eq_some_iff] at h
    obtain ⟨b, _, hb⟩ := h
    cases b
    · exact ihe σ σ' hw.2 (by simpa using hb)
    · exact iht σ σ' hw.1 (by simpa using hb)
  | seq s t ihs iht =>
    intro σ σ' hw h
    simp only [Stmt.writesParam, Bool.or_eq_false_iff] at hw
    simp only [Stmt.exec, Option.bind_eq_some_iff] at h
    obtain ⟨σ1, h1, h2⟩ := h
    rw [iht σ1 σ' hw.2 h2, ihs σ σ1 hw.1 h1]

theorem execList_frame_attr (a : Nat) : ∀ (l : List Stmt) (σ σ' : State),
    l.all (fun s => !s.writesAttr a) = true → execList l σ = some σ' → σ'.settings a = σ.settings a := by
  intro l
  induction l with
  | nil => intro σ σ' _ h; simp [execList] at h; subst h; rfl
  | cons s r ih =>
    intro σ σ' hw h
    simp only [List.all_cons, Bool.and_eq_true, Bool.not_eq_true'] at hw
    simp only [execList, Option.bind_eq_some_iff] at h
    obtain ⟨σ1, h1, h2⟩ := h
    rw [ih σ1 σ' hw.2 h2, exec_frame_attr a s σ σ1 hw.1 h1]

/-! ### guarded programs do nothing on empty parameters -/

theorem Expr.eval_attrOnly : ∀ (e : Expr) (σ : State), e.attrOnly = true → ∃ v, e.eval σ = some v := by
  intro e
  induction e with
  | param k => intro σ h; simp [Expr.attrOnly] at h
  | attr a => intro σ _; exact ⟨_, rfl⟩
  | const v => intro σ _; exact ⟨_, rfl⟩
  | app f e ih =>
    intro σ h
    obtain ⟨v, hv⟩ := ih σ (by simpa [Expr.attrOnly] using h)
    exact ⟨Val.app f v, by simp [Expr.eval, hv]⟩

theorem Cond.eval_attrOnly : ∀ (c : Cond) (σ : State), c.attrOnly = true → ∃ b, c.eval σ = some b := by
  intro c
  induction c with
  | hasParam k => intro σ h; simp [Cond.attrOnly] at h
  | truthy e => intro σ h; obtain ⟨v, hv⟩ := e.eval_attrOnly σ (by simpa [Cond.attrOnly] using h); simp [Cond.eval, hv]
  | eqStr e s => intro σ h; obtain ⟨v, hv⟩ := e.eval_attrOnly σ (by simpa [Cond.attrOnly] using h); simp [Cond.eval, hv]
  | isNone e => intro σ h; obtain ⟨v, hv⟩ := e.eval_attrOnly σ (by simpa [Cond.attrOnly] using h); simp [Cond.eval, hv]
  | lenEq e n => intro σ h; simp [Cond.attrOnly] at h
  | lenGt e n => intro σ h; simp [Cond.attrOnly] at h
  | not c ih => intro σ h; obtain ⟨b, hb⟩ := ih σ (by simpa [Cond.attrOnly] using h); simp [Cond.eval, hb]
  | and c d ihc ihd =>
    intro σ h
    simp only [Cond.attrOnly, Bool.and_eq_true] at h
    obtain ⟨b, hb⟩ := ihc σ h.1
    obtain ⟨b', hb'⟩ := ihd σ h.2
    cases b <;> simp [Cond.eval, hb, hb']
  | or c d ihc ihd =>
    intro σ h
    simp only [Cond.attrOnly, Bool.and_eq_true] at h
    obtain ⟨b, hb⟩ := ihc σ h.1
    obtain ⟨b', hb'⟩ := ihd σ h.2
    cases b <;> simp [Cond.eval, hb, hb']

theorem Cond.eval_needsParam : ∀ (c : Cond) (S : SMap), c.needsParam = true →
    c.eval ⟨fun _ => none, S⟩ = some false := by
  intro c
  induction c with
  | hasParam k => intro S _; simp [Cond.eval]
  | and c d ihc _ => intro S h; simp [Cond.eval, ihc S (by simpa [Cond.needsParam] using h)]
  | or c d ihc ihd =>
    intro S h
    simp only [Cond.needsParam, Bool.and_eq_true] at h
    simp [Cond.eval, ihc S h.1, ihd S h.2]
  | truthy e => intro S h; simp [Cond.needsParam] at h
  | eqStr e s => intro S h; simp [Cond.needsParam] at h
  | isNone e => intro S h; simp [Cond.needsParam] at h
  | lenEq e n => intro S h; simp [Cond.needsParam] at h
  | lenGt e n => intro S h; simp [Cond.needsParam] at h
  | not c _ => intro S h; simp [Cond.needsParam] at h

theorem exec_guarded : ∀ (s : Stmt) (S : SMap), s.guarded = true →
    s.exec ⟨fun _ => none, S⟩ = some ⟨fun _ => none, S⟩ := by
  intro s
  induction s with
  | skip => intro S _; rfl
  | set a e => intro S h; simp [Stmt.guarded] at h
  | setParam k e => intro S h; simp [Stmt.guarded] at h
  | ite c t e iht ihe =>
    intro S h
    simp only [Stmt.guarded, Bool.or_eq_true, Bool.and_eq_true] at h
    rcases h with ⟨hc, he⟩ | ⟨⟨hc, ht⟩, he⟩
    · simp [Stmt.exec, Cond.eval_needsParam c S hc, ihe S he]
    · obtain ⟨b, hb⟩ := c.eval_attrOnly ⟨fun _ => none, S⟩ hc
      cases b <;> simp [Stmt.exec, hb, iht S ht, ihe S he]
  | seq s t ihs iht =>
    intro S h
    simp only [Stmt.guarded, Bool.and_eq_true] at h
    simp [Stmt.exec, ihs S h.1, iht S h.2]

theorem execList_guarded : ∀ (l : List Stmt) (S : SMap), l.all Stmt.guarded = true →
    execList l ⟨fun _ => none, S⟩ = some ⟨fun _ => none, S⟩ := by
  intro l
  induction l with
  | nil => intro S _; rfl
  | cons s r ih =>
    intro S h
    simp only [List.all_cons, Bool.and_eq_true] at h
    simp [execList, exec_guarded s S h.1, ih S h.2]

/-! ### the simple-binding lemma -/

theorem simpleBinding?_eq {s : Stmt} {a k : Nat} (h : s.simpleBinding? = some (a, k)) :
    s = .ite (.hasParam k) (.set a (.param k)) .skip := by
  unfold Stmt.simpleBinding? at h
  split at h
  · next k0 a0 k1 =>
    split at h
    · next hk => simp only [Option.some.injEq, Prod.mk.injEq] at h; obtain ⟨rfl, rfl⟩ := h; subst hk; rfl
    · simp at h
  · simp at h

theorem execList_simple (a k : Nat) : ∀ (l : List Stmt) (σ σ' : State), simpleIn a k l = true →
    execList l σ = some σ' → σ'.settings a = (σ.params k).getD (σ.settings a) := by
  intro l
  induction l with
  | nil => intro σ σ' h; simp [simpleIn] at h
  | cons s r ih =>
    intro σ σ' hs h
    simp only [execList, Option.bind_eq_some_iff] at h
    obtain ⟨σ1, h1, h2⟩ := h
    unfold simpleIn at hs
    split at hs
    · next hb =>
      have hs' := simpleBinding?_eq hb
      subst hs'
      rw [execList_frame_attr a r σ1 σ' hs h2]
      cases hp : σ.params k with
      | none =>
        simp [Stmt.exec, Cond.eval, hp] at h1
        subst h1; simp
      | some v =>
        simp [Stmt.exec, Cond.eval, Expr.eval, hp] at h1
        subst h1; simp [upd_same]
    · simp only [Bool.and_eq_true, Bool.not_eq_true'] at hs
      rw [ih σ1 σ' hs.2 h2, exec_frame_attr a s σ σ1 hs.1.1 h1, exec_frame_param k s σ σ1 hs.1.2 h1]

/-! ### dictionaries -/

theorem dictLookup_dictInsert (c : Confs) (t t' : Nat) (r : Raw) :
    dictLookup (dictInsert c t r) t' = if t' = t then some r else dictLookup c t' := by
  induction c with
  | nil =>
    by_cases h : t' = t
    · simp [dictInsert, dictLookup, h]
    · simp [dictInsert, dictLookup, h, Ne.symm h]
  | cons e rest ih =>
    obtain ⟨t0, r0⟩ := e
    by_cases h0 : t0 = t
    · subst h0
      by_cases h : t' = t0
      · simp [dictInsert, dictLookup, h]
      · simp [dictInsert, dictLookup, h, Ne.symm h]
    · by_cases h : t' = t
      · subst h
        simp [dictInsert, dictLookup, h0, ih]
      · by_cases h1 : t0 = t' <;> simp [dictInsert, dictLookup, h0, h1, ih, h]

theorem keys_dictInsert (c : Confs) (t : Nat) (r : Raw) :
    (dictInsert c t r).map Prod.fst = if t ∈ c.map Prod.fst then c.map Prod.fst else c.map Prod.fst ++ [t] := by
  induction c with
  | nil => simp [dictInsert]
  | cons e rest ih =>
    obtain ⟨t0, r0⟩ := e
    by_cases h0 : t0 = t
    · subst h0; simp [dictInsert]
    · have h0' : ¬ t = t0 := fun h => h0 h.symm
      simp only [dictInsert, h0, if_false, List.map_cons, ih, List.mem_cons, h0', false_or]
      split <;> simp

theorem nodup_dictInsert (c : Confs) (t : Nat) (r : Raw) (h : (c.map Prod.fst).Nodup) :
    ((dictInsert c t r).map Prod.fst).Nodup := by
  rw [keys_dictInsert]
  split
  · exact h
  · next hn => exact List.Nodup.append h (by simp) (by simpa using hn)

theorem dictLookup_none_iff (c : Confs) (t : Nat) : dictLookup c t = none ↔ t ∉ c.map Prod.fst := by
  induction c with
  | nil => simp [dictLookup]
  | cons e rest ih =>
    obtain ⟨t0, r0⟩ := e
    by_cases h : t0 = t
    · simp [dictLookup, h]
    · simp [dictLookup, h, ih, Ne.symm h]

/-- `read_file`: a tag given several times keeps its last value -/
theorem dictLookup_foldl_insert (L : List (Nat × Raw)) (c : Confs) (t : Nat) :
    dictLookup (L.foldl (fun c e => dictInsert c e.1 e.2) c) t = owr (lastOf t L) (dictLookup c t) := by
  induction L generalizing c with
  | nil => simp [lastOf]
  | cons e rest ih =>
    obtain ⟨t0, r0⟩ := e
    simp only [List.foldl_cons, ih, dictLookup_dictInsert, lastOf, owr_assoc]
    by_cases h : t0 = t
    · simp [h]
    · simp [h, Ne.symm h]

theorem nodup_foldl_insert (L : List (Nat × Raw)) (c : Confs) (h : (c.map Prod.fst).Nodup) :
    ((L.foldl (fun c e => dictInsert c e.1 e.2) c).map Prod.fst).Nodup := by
  induction L generalizing c with
  | nil => simpa using h
  | cons e rest ih => exact ih _ (nodup_dictInsert c e.1 e.2 h)

theorem nodup_readFile (L : List (Nat × Raw)) : ((readFile L).map Prod.fst).Nodup :=
  nodup_foldl_insert L [] (by simp)

/-- on distinct tags `read_file` is the identity -/
theorem foldl_insert_nodup (L : List (Nat × Raw)) (c : Confs)
    (h : ((c ++ L).map Prod.fst).Nodup) : L.foldl (fun c e => dictInsert c e.1 e.2) c = c ++ L := by
  induction L generalizing c with
  | nil => simp
  | cons e rest ih =>
    have hne : e.1 ∉ c.map Prod.fst := by
      intro hm
      rw [List.map_append, List.nodup_append] at h
      exact h.2.2 _ hm _ (by simp) rfl
    have hins : dictInsert c e.1 e.2 = c ++ [e] := by
      clear ih h
      induction c with
      | nil => rfl
      | cons e0 r0 ih0 =>
        obtain ⟨t0, x0⟩ := e0
        have h0 : t0 ≠ e.1 := fun hh => hne (by simp [hh])
        have : e.1 ∉ r0.map Prod.fst := fun hm => hne (by simp [hm])
        simp [dictInsert, h0, ih0 this]
    simp only [List.foldl_cons, hins]
    rw [ih (c ++ [e]) (by simpa using h)]
    simp

theorem readFile_nodup (L : List (Nat × Raw)) (h : (L.map Prod.fst).Nodup) : readFile L = L := by
  have := foldl_insert_nodup L [] (by simpa using h)
  simpa [readFile] using this

/-! ### `parse_conf` -/

theorem applyOutcome_apply (P : PMap) (o : List (Nat × Val)) (k : Nat) :
    applyOutcome P o k = owr (lastOf k o) (P k) := by
  induction o generalizing P with
  | nil => rfl
  | cons kv r ih =>
    obtain ⟨k', v⟩ := kv
    have : applyOutcome P ((k', v) :: r) = applyOutcome (upd P k' (some v)) r := rfl
    rw [this, ih, lastOf, owr_assoc]
    by_cases h : k' = k
    · subst h; simp [upd_same]
    · simp [h, upd_other _ _ _ _ (Ne.symm h)]

theorem ParseRule.outcome_keys (ρ : ParseRule) (r : Raw) : ∀ kv ∈ ρ.outcome r, kv.1 ∈ ρ.targets := by
  intro kv h
  simp only [ParseRule.outcome, List.mem_filter, List.contains_iff_mem] at h
  simpa using h.2

theorem Table.outcome_keys (T : Table) (p t : Nat) (r : Raw) :
    ∀ kv ∈ T.outcome p t r, kv.1 ∈ T.targetsOf t := by
  intro kv h
  simp only [Table.outcome, List.mem_flatMap, List.mem_filter, Bool.and_eq_true] at h
  obtain ⟨ρ, ⟨hρ, _, hk⟩, hkv⟩ := h
  simp only [Table.targetsOf, List.mem_flatMap, List.mem_filter]
  exact ⟨ρ, ⟨hρ, hk⟩, ρ.outcome_keys r kv hkv⟩

/-- conf keys other than the owner never write the owned parameter key -/
theorem Table.outcome_not_owned (T : Table) (k t : Nat) (h : T.keyOwnedBy k t = true) (p t' : Nat) (r : Raw)
    (ht : t' ≠ t) : ∀ kv ∈ T.outcome p t' r, kv.1 ≠ k := by
  intro kv hkv hk
  simp only [Table.outcome, List.mem_flatMap, List.mem_filter, Bool.and_eq_true] at hkv
  obtain ⟨ρ, ⟨hρ, _, hkeys⟩, hm⟩ := hkv
  have hin := ρ.outcome_keys r kv hm
  rw [hk] at hin
  simp only [Table.keyOwnedBy, List.all_eq_true, Bool.or_eq_true, Bool.not_eq_true'] at h
  rcases h ρ hρ with h1 | h1
  · have : ρ.targets.contains k = true := by simpa using hin
    rw [this] at h1; cases h1
  · have : ρ.keys = [t] := by simpa using h1
    rw [this] at hkeys
    simp at hkeys
    exact ht hkeys

/-- what the branch of conf key `t` writes to parameter key `k` for the value `r` (both loops) -/
def Table.written (T : Table) (k t : Nat) (r : Raw) : Option Val :=
  owr (lastOf k (T.outcome 1 t r)) (lastOf k (T.outcome 0 t r))

theorem Table.parsePhase_owned (T : Table) (k t : Nat) (h : T.keyOwnedBy k t = true) (p : Nat) :
    ∀ (c : Confs) (P : PMap), (c.map Prod.fst).Nodup →
      T.parsePhase p c P k = owr ((dictLookup c t).bind (fun r => lastOf k (T.outcome p t r))) (P k) := by
  intro c
  induction c with
  | nil => intro P _; simp [Table.parsePhase, dictLookup]
  | cons e rest ih =>
    intro P hnd
    obtain ⟨t0, r0⟩ := e
    simp only [List.map_cons, List.nodup_cons] at hnd
    have hstep : T.parsePhase p ((t0, r0) :: rest) P = T.parsePhase p rest (applyOutcome P (T.outcome p t0 r0)) := rfl
    rw [hstep, ih _ hnd.2, applyOutcome_apply]
    by_cases h0 : t0 = t
    · subst h0
      have : dictLookup rest t0 = none := (dictLookup_none_iff rest t0).2 hnd.1
      simp [dictLookup, this]
    · have hno := lastOf_none_of_not_mem k _ (T.outcome_not_owned k t h p t0 r0 h0)
      simp [dictLookup, h0, hno]

theorem Table.parseConf_owned (T : Table) (k t : Nat) (h : T.keyOwnedBy k t = true) (c : Confs)
    (hnd : (c.map Prod.fst).Nodup) :
    T.parseConf c k = (dictLookup c t).bind (T.written k t) := by
  unfold Table.parseConf
  rw [T.parsePhase_owned k t h 1 c _ hnd, T.parsePhase_owned k t h 0 c _ hnd]
  cases dictLookup c t <;> simp [Table.written]

/-! ### one pass on a simply bound attribute -/

theorem Table.pass_simple (T : Table) (a k t : Nat) (hs : T.isSimple a k t = true) (c : Confs)
    (hnd : (c.map Prod.fst).Nodup) (S S' : SMap) (h : T.pass c S = some S') :
    S' a = ((dictLookup c t).bind (T.written k t)).getD (S a) := by
  simp only [Table.isSimple, Bool.and_eq_true] at hs
  simp only [Table.pass, Option.map_eq_some_iff] at h
  obtain ⟨σ', hσ, rfl⟩ := h
  have h1 := execList_simple a k T.prog _ σ' hs.1 hσ
  simp only at h1
  rw [h1, T.parseConf_owned k t hs.2 c hnd]

/-! ### `read_options` -/

theorem OptRule.fire_tag (r : OptRule) (D : SMap) (κ : Nat → Raw) (a : ArgVal) (c : Confs) (t : Nat) (x : Raw)
    (h : r.fire D κ a c = some (t, x)) : t = r.tag := by
  unfold OptRule.fire at h
  cases a <;> cases hact : r.act <;> simp only [hact] at h <;>
    (try split at h) <;> (try split at h) <;> simp_all

/-- `fire` looks at the confs only through the presence of its own conf key -/
theorem OptRule.fire_congr (r : OptRule) (D : SMap) (κ : Nat → Raw) (a : ArgVal) (c c' : Confs)
    (h : dictLookup c r.tag = dictLookup c' r.tag) : r.fire D κ a c = r.fire D κ a c' := by
  unfold OptRule.fire
  cases a <;> cases r.act <;> simp [h]

theorem optStep_lookup_other (D : SMap) (κ : Nat → Raw) (args : Nat → ArgVal) (c : Confs) (r : OptRule) (t : Nat)
    (h : r.tag ≠ t) : dictLookup (optStep D κ args c r) t = dictLookup c t := by
  unfold optStep
  split
  · next t' raw hf =>
    have := r.fire_tag D κ _ c t' raw hf
    subst this
    rw [dictLookup_dictInsert]; simp [Ne.symm h]
  · rfl

theorem optStep_lookup_self (D : SMap) (κ : Nat → Raw) (args : Nat → ArgVal) (c : Confs) (r : OptRule) :
    dictLookup (optStep D κ args c r) r.tag =
      owr ((r.fire D κ (args r.dest) c).map Prod.snd) (dictLookup c r.tag) := by
  unfold optStep
  split
  · next t' raw hf =>
    have := r.fire_tag D κ _ c t' raw hf
    subst this
    rw [dictLookup_dictInsert, hf]; simp
  · next hf => rw [hf]; rfl

theorem foldl_optStep_lookup_other (D : SMap) (κ : Nat → Raw) (args : Nat → ArgVal) (l : List OptRule) (c : Confs) (t : Nat)
    (h : ∀ r ∈ l, r.tag ≠ t) : dictLookup (l.foldl (optStep D κ args) c) t = dictLookup c t := by
  induction l generalizing c with
  | nil => rfl
  | cons r rest ih =>
    simp only [List.foldl_cons]
    rw [ih _ (fun r' hr' => h r' (by simp [hr'])), optStep_lookup_other D κ args c r t (h r (by simp))]

theorem nodup_foldl_optStep (D : SMap) (κ : Nat → Raw) (args : Nat → ArgVal) (l : List OptRule) (c : Confs)
    (h : (c.map Prod.fst).Nodup) : ((l.foldl (optStep D κ args) c).map Prod.fst).Nodup := by
  induction l generalizing c with
  | nil => simpa using h
  | cons r rest ih =>
    simp only [List.foldl_cons]
    apply ih
    unfold optStep
    split
    · exact nodup_dictInsert _ _ _ h
    · exact h

theorem Table.nodup_readOptions (T : Table) (D : SMap) (κ : Nat → Raw) (args : Nat → ArgVal) :
    ((T.readOptions D κ args).map Prod.fst).Nodup :=
  nodup_foldl_optStep D κ args T.optRules [] (by simp)

/-- an option whose conf key is written by no other block: the conf key holds exactly what the
block assigns -/
theorem Table.readOptions_lookup (T : Table) (D : SMap) (κ : Nat → Raw) (args : Nat → ArgVal) (r : OptRule)
    (hr : r ∈ T.optRules) (hu : T.uniqueOptTag r = true) :
    dictLookup (T.readOptions D κ args) r.tag = (r.fire D κ (args r.dest) []).map Prod.snd := by
  obtain ⟨pre, post, hsplit⟩ := List.append_of_mem hr
  have hlen : ((pre ++ r :: post).filter (fun r' => r'.tag == r.tag)).length = 1 := by
    have := hu
    simp only [Table.uniqueOptTag, hsplit, beq_iff_eq] at this
    exact this
  simp only [List.filter_append, List.filter_cons, beq_self_eq_true, if_true, List.length_append, List.length_cons] at hlen
  have hpre : pre.filter (fun r' => r'.tag == r.tag) = [] := List.length_eq_zero_iff.1 (by omega)
  have hpost : post.filter (fun r' => r'.tag == r.tag) = [] := List.length_eq_zero_iff.1 (by omega)
  have hpre' : ∀ r' ∈ pre, r'.tag ≠ r.tag := by
    intro r' hr' heq
    have : r' ∈ pre.filter (fun r' => r'.tag == r.tag) := by simp [List.mem_filter, hr', heq]
    rw [hpre] at this; cases this
  have hpost' : ∀ r' ∈ post, r'.tag ≠ r.tag := by
    intro r' hr' heq
    have : r' ∈ post.filter (fun r' => r'.tag == r.tag) := by simp [List.mem_filter, hr', heq]
    rw [hpost] at this; cases this
  unfold Table.readOptions
  rw [hsplit, List.foldl_append, List.foldl_cons]
  rw [foldl_optStep_lookup_other D κ args post _ r.tag hpost']
  have h1 : dictLookup (pre.foldl (optStep D κ args) []) r.tag = none := by
    rw [foldl_optStep_lookup_other D κ args pre [] r.tag hpre']; rfl
  have hc := r.fire_congr D κ (args r.dest) (pre.foldl (optStep D κ args) []) [] (by rw [h1]; rfl)
  rw [optStep_lookup_self, hc, h1]
  simp

theorem Table.readOptions_nil (T : Table) (D : SMap) (κ : Nat → Raw) (args : Nat → ArgVal)
    (h : ∀ r ∈ T.optRules, r.fire D κ (args r.dest) [] = none) : T.readOptions D κ args = [] := by
  unfold Table.readOptions
  generalize T.optRules = l at h
  induction l with
  | nil => rfl
  | cons r rest ih =>
    simp only [List.foldl_cons]
    have : optStep D κ args [] r = [] := by
      unfold optStep; rw [h r (by simp)]
    rw [this]
    exact ih (fun r' hr' => h r' (by simp [hr']))

/-! ### order independence of `parse_conf` -/

theorem applyOutcome_comm (P : PMap) (o o' : List (Nat × Val))
    (h : ∀ kv ∈ o, ∀ kv' ∈ o', kv.1 ≠ kv'.1) :
    applyOutcome (applyOutcome P o) o' = applyOutcome (applyOutcome P o') o := by
  funext k
  simp only [applyOutcome_apply]
  by_cases hk : ∃ kv ∈ o, kv.1 = k
  · obtain ⟨kv, hkv, rfl⟩ := hk
    have : lastOf kv.1 o' = none := lastOf_none_of_not_mem _ _ (fun kv' hkv' heq => h kv hkv kv' hkv' heq.symm)
    simp [this]
  · have : lastOf k o = none := lastOf_none_of_not_mem _ _ (fun kv hkv heq => hk ⟨kv, hkv, heq⟩)
    simp [this]

theorem Table.conflict_false (T : Table) (t t' : Nat) (h : T.conflict t t' = false) :
    ∀ k ∈ T.targetsOf t, k ∉ T.targetsOf t' := by
  intro k hk hk'
  have : T.conflict t t' = true := by
    simp only [Table.conflict, List.any_eq_true]
    exact ⟨k, hk, by simpa using hk'⟩
  rw [h] at this; cases this

theorem Table.parsePhase_perm (T : Table) (p : Nat) (L L' : Confs) (hp : L.Perm L')
    (hnd : (L.map Prod.fst).Nodup)
    (hnc : ∀ e ∈ L, ∀ e' ∈ L, e.1 ≠ e'.1 → T.conflict e.1 e'.1 = false) (P : PMap) :
    T.parsePhase p L P = T.parsePhase p L' P := by
  unfold Table.parsePhase
  apply List.Perm.foldl_eq' hp
  intro x hx y hy z
  by_cases hxy : x.1 = y.1
  · have : x = y := by
      have hinj := List.inj_on_of_nodup_map hnd hx hy hxy
      exact hinj
    subst this; rfl
  · apply applyOutcome_comm
    intro kv hkv kv' hkv' heq
    have h1 := T.outcome_keys p x.1 x.2 kv hkv
    have h2 := T.outcome_keys p y.1 y.2 kv' hkv'
    rw [heq] at h1
    exact T.conflict_false x.1 y.1 (hnc x hx y hy hxy) _ h1 h2

theorem Table.parseConf_perm (T : Table) (L L' : Confs) (hp : L.Perm L')
    (hnd : (L.map Prod.fst).Nodup)
    (hnc : ∀ e ∈ L, ∀ e' ∈ L, e.1 ≠ e'.1 → T.conflict e.1 e'.1 = false) :
    T.parseConf L = T.parseConf L' := by
  unfold Table.parseConf
  rw [T.parsePhase_perm 0 L L' hp hnd hnc, T.parsePhase_perm 1 L L' hp hnd hnc]

/-! ### non-interference: a program that is clean for `(K, A)` apart from bindings `A ← K` -/

/-- the two states agree outside the parameter keys `K` and the attributes `A` -/
def Agree (K A : List Nat) (σ σ' : State) : Prop :=
  (∀ k, k ∉ K → σ.params k = σ'.params k) ∧ (∀ a, a ∉ A → σ.settings a = σ'.settings a)

def AgreeO (K A : List Nat) : Option State → Option State → Prop
  | some σ, some σ' => Agree K A σ σ'
  | none, none => True
  | _, _ => False

theorem Expr.eval_agree (K A : List Nat) (σ σ' : State) (h : Agree K A σ σ') : ∀ (e : Expr),
    (∀ k ∈ K, e.mentions k = false) → (∀ a ∈ A, e.readsAttr a = false) → e.eval σ = e.eval σ' := by
  intro e
  induction e with
  | param k =>
    intro hk _
    have : k ∉ K := fun hin => by have := hk k hin; simp [Expr.mentions] at this
    exact h.1 k this
  | attr a =>
    intro _ ha
    have : a ∉ A := fun hin => by have := ha a hin; simp [Expr.readsAttr] at this
    simp [Expr.eval, h.2 a this]
  | const v => intro _ _; rfl
  | app f e ih =>
    intro hk ha
    simp only [Expr.eval]
    rw [ih (fun k hin => by simpa [Expr.mentions] using hk k hin) (fun a hin => by simpa [Expr.readsAttr] using ha a hin)]

theorem Cond.eval_agree (K A : List Nat) (σ σ' : State) (h : Agree K A σ σ') : ∀ (c : Cond),
    (∀ k ∈ K, c.mentions k = false) → (∀ a ∈ A, c.readsAttr a = false) → c.eval σ = c.eval σ' := by
  intro c
  induction c with
  | hasParam k =>
    intro hk _
    have : k ∉ K := fun hin => by have := hk k hin; simp [Cond.mentions] at this
    simp [Cond.eval, h.1 k this]
  | truthy e => intro hk ha; simp only [Cond.eval]; rw [Expr.eval_agree K A σ σ' h e (by simpa [Cond.mentions] using hk) (by simpa [Cond.readsAttr] using ha)]
  | eqStr e s => intro hk ha; simp only [Cond.eval]; rw [Expr.eval_agree K A σ σ' h e (by simpa [Cond.mentions] using hk) (by simpa [Cond.readsAttr] using ha)]
  | isNone e => intro hk ha; simp only [Cond.eval]; rw [Expr.eval_agree K A σ σ' h e (by simpa [Cond.mentions] using hk) (by simpa [Cond.readsAttr] using ha)]
  | lenEq e n => intro hk ha; simp only [Cond.eval]; rw [Expr.eval_agree K A σ σ' h e (by simpa [Cond.mentions] using hk) (by simpa [Cond.readsAttr] using ha)]
  | lenGt e n => intro hk ha; simp only [Cond.eval]; rw [Expr.eval_agree K A σ σ' h e (by simpa [Cond.mentions] using hk) (by simpa [Cond.readsAttr] using ha)]
  | not c ih => intro hk ha; simp only [Cond.eval]; rw [ih (by simpa [Cond.mentions] using hk) (by simpa [Cond.readsAttr] using ha)]
  | and c d ihc ihd =>
    intro hk ha
    simp only [Cond.mentions, Bool.or_eq_false_iff] at hk
    simp only [Cond.readsAttr, Bool.or_eq_false_iff] at ha
    simp only [Cond.eval]
    rw [ihc (fun k hin => (hk k hin).1) (fun a hin => (ha a hin).1), ihd (fun k hin => (hk k hin).2) (fun a hin => (ha a hin).2)]
  | or c d ihc ihd =>
    intro hk ha
    simp only [Cond.mentions, Bool.or_eq_false_iff] at hk
    simp only [Cond.readsAttr, Bool.or_eq_false_iff] at ha
    simp only [Cond.eval]
    rw [ihc (fun k hin => (hk k hin).1) (fun a hin => (ha a hin).1), ihd (fun k hin => (hk k hin).2) (fun a hin => (ha a hin).2)]

theorem AgreeO_bind (K A : List Nat) (x x' : Option State) (f : State → Option State)
    (hx : AgreeO K A x x') (hf : ∀ σ σ', Agree K A σ σ' → AgreeO K A (f σ) (f σ')) :
    AgreeO K A (x.bind f) (x'.bind f) := by
  cases x <;> cases x' <;> simp_all [AgreeO]

/-- a statement that touches neither `K` nor `A` preserves agreement (and raises on one side iff on the other) -/
theorem exec_agree_clean (K A : List Nat) : ∀ (s : Stmt),
    (∀ k ∈ K, s.mentions k = false) → (∀ a ∈ A, s.readsAttr a = false ∧ s.writesAttr a = false) →
    ∀ σ σ', Agree K A σ σ' → AgreeO K A (s.exec σ) (s.exec σ') := by
  intro s
  induction s with
  | skip => intro _ _ σ σ' h; exact h
  | set a e =>
    intro hk ha σ σ' h
    have he := Expr.eval_agree K A σ σ' h e (by simpa [Stmt.mentions] using hk) (fun a' hin => by simpa [Stmt.readsAttr] using (ha a' hin).1)
    have hna : a ∉ A := fun hin => by have := (ha a hin).2; simp [Stmt.writesAttr] at this
    simp only [Stmt.exec, he]
    cases e.eval σ' with
    | none => trivial
    | some v =>
      refine ⟨h.1, fun a' ha' => ?_⟩
      by_cases hx : a' = a
      · subst hx; simp [upd_same]
      · simp [upd_other _ _ _ _ hx, h.2 a' ha']
  | setParam k e =>
    intro hk ha σ σ' h
    simp only [Stmt.mentions, Bool.or_eq_false_iff, beq_eq_false_iff_ne, ne_eq] at hk
    have he := Expr.eval_agree K A σ σ' h e (fun k' hin => (hk k' hin).2) (fun a' hin => by simpa [Stmt.readsAttr] using (ha a' hin).1)
    simp only [Stmt.exec, he]
    cases e.eval σ' with
    | none => trivial
    | some v =>
      refine ⟨fun k' hk' => ?_, h.2⟩
      by_cases hx : k' = k
      · subst hx; simp [upd_same]
      · simp [upd_other _ _ _ _ hx, h.1 k' hk']
  | ite c t e iht ihe =>
    intro hk ha σ σ' h
    simp only [Stmt.mentions, Bool.or_eq_false_iff] at hk
    simp only [Stmt.readsAttr, Stmt.writesAttr, Bool.or_eq_false_iff] at ha
    have hc := Cond.eval_agree K A σ σ' h c (fun k hin => (hk k hin).1.1) (fun a hin => (ha a hin).1.1.1)
    simp only [Stmt.exec, hc]
    cases c.eval σ' with
    | none => trivial
    | some b =>
      cases b
      · exact ihe (fun k hin => (hk k hin).2) (fun a hin => ⟨(ha a hin).1.2, (ha a hin).2.2⟩) σ σ' h
      · exact iht (fun k hin => (hk k hin).1.2) (fun a hin => ⟨(ha a hin).1.1.2, (ha a hin).2.1⟩) σ σ' h
  | seq s t ihs iht =>
    intro hk ha σ σ' h
    simp only [Stmt.mentions, Bool.or_eq_false_iff] at hk
    simp only [Stmt.readsAttr, Stmt.writesAttr, Bool.or_eq_false_iff] at ha
    simp only [Stmt.exec]
    exact AgreeO_bind K A _ _ _ (ihs (fun k hin => (hk k hin).1) (fun a hin => ⟨(ha a hin).1.1, (ha a hin).2.1⟩) σ σ' h)
      (fun τ τ' hτ => iht (fun k hin => (hk k hin).2) (fun a hin => ⟨(ha a hin).1.2, (ha a hin).2.2⟩) τ τ' hτ)

/-- a simple binding `A ← K` preserves agreement outside `(K, A)` -/
theorem exec_agree_binding (K A : List Nat) (s : Stmt) (hb : s.bindingIn K A = true) (σ σ' : State)
    (h : Agree K A σ σ') : AgreeO K A (s.exec σ) (s.exec σ') := by
  unfold Stmt.bindingIn at hb
  split at hb
  · next a k hs =>
    simp only [Bool.and_eq_true, List.contains_iff_mem] at hb
    have := simpleBinding?_eq hs
    subst this
    have hset : ∀ (τ : State), ∃ τ', (Stmt.ite (.hasParam k) (.set a (.param k)) .skip).exec τ = some τ' ∧
        τ'.params = τ.params ∧ ∀ a', a' ≠ a → τ'.settings a' = τ.settings a' := by
      intro τ
      cases hp : τ.params k with
      | none => exact ⟨τ, by simp [Stmt.exec, Cond.eval, hp], rfl, fun _ _ => rfl⟩
      | some v =>
        exact ⟨{ τ with settings := upd τ.settings a v }, by simp [Stmt.exec, Cond.eval, Expr.eval, hp], rfl,
          fun a' ha' => upd_other _ _ _ _ ha'⟩
    obtain ⟨τ, h1, hp1, hs1⟩ := hset σ
    obtain ⟨τ', h2, hp2, hs2⟩ := hset σ'
    rw [h1, h2]
    refine ⟨fun k' hk' => by rw [hp1, hp2]; exact h.1 k' hk', fun a' ha' => ?_⟩
    have hne : a' ≠ a := fun heq => ha' (by simpa [heq] using hb.2)
    rw [hs1 a' hne, hs2 a' hne]
    exact h.2 a' ha'
  · simp at hb

theorem execList_agree (K A : List Nat) : ∀ (l : List Stmt), cleanOrBinding l K A = true →
    ∀ σ σ', Agree K A σ σ' → AgreeO K A (execList l σ) (execList l σ') := by
  intro l
  induction l with
  | nil => intro _ σ σ' h; exact h
  | cons s r ih =>
    intro hl σ σ' h
    simp only [cleanOrBinding, List.all_cons, Bool.and_eq_true, Bool.or_eq_true] at hl
    simp only [execList]
    refine AgreeO_bind K A _ _ _ ?_ (fun τ τ' hτ => ih (by simpa [cleanOrBinding] using hl.2) τ τ' hτ)
    rcases hl.1 with hc | hb
    · simp only [Stmt.clean, Bool.and_eq_true, List.all_eq_true, Bool.not_eq_true'] at hc
      exact exec_agree_clean K A s hc.1 (fun a hin => by simpa using hc.2 a hin) σ σ' h
    · exact exec_agree_binding K A s hb σ σ' h

/-- entries of `parse_conf` whose branch cannot write `k` do not matter for `k` -/
theorem Table.parsePhase_skip (T : Table) (p k : Nat) (pre post : Confs) (e : Nat × Raw)
    (he : ∀ kv ∈ T.outcome p e.1 e.2, kv.1 ≠ k) (P : PMap) :
    T.parsePhase p (pre ++ e :: post) P k = T.parsePhase p (pre ++ post) P k := by
  unfold Table.parsePhase
  simp only [List.foldl_append, List.foldl_cons]
  generalize List.foldl (fun P e => applyOutcome P (T.outcome p e.1 e.2)) P pre = Q
  have h1 : applyOutcome Q (T.outcome p e.1 e.2) k = Q k := by
    rw [applyOutcome_apply, lastOf_none_of_not_mem k _ he]; rfl
  -- the remaining fold only looks at key `k` through the current value
  have hgen : ∀ (l : Confs) (Q1 Q2 : PMap), Q1 k = Q2 k →
      List.foldl (fun P e => applyOutcome P (T.outcome p e.1 e.2)) Q1 l k =
      List.foldl (fun P e => applyOutcome P (T.outcome p e.1 e.2)) Q2 l k := by
    intro l
    induction l with
    | nil => intro Q1 Q2 h; exact h
    | cons x xs ih =>
      intro Q1 Q2 h
      simp only [List.foldl_cons]
      apply ih
      rw [applyOutcome_apply, applyOutcome_apply, h]
  exact hgen post _ _ h1

theorem Table.parsePhase_congr_key (T : Table) (p k : Nat) : ∀ (l : Confs) (Q1 Q2 : PMap), Q1 k = Q2 k →
    T.parsePhase p l Q1 k = T.parsePhase p l Q2 k := by
  intro l
  induction l with
  | nil => intro Q1 Q2 h; exact h
  | cons x xs ih =>
    intro Q1 Q2 h
    have h1 : T.parsePhase p (x :: xs) Q1 = T.parsePhase p xs (applyOutcome Q1 (T.outcome p x.1 x.2)) := rfl
    have h2 : T.parsePhase p (x :: xs) Q2 = T.parsePhase p xs (applyOutcome Q2 (T.outcome p x.1 x.2)) := rfl
    rw [h1, h2]
    apply ih
    rw [applyOutcome_apply, applyOutcome_apply, h]

/-- a conf key whose branches cannot write `k` does not matter for parameter key `k` -/
theorem Table.parseConf_skip (T : Table) (k t : Nat) (hk : k ∉ T.targetsOf t) (pre post : Confs) (r : Raw) :
    T.parseConf (pre ++ (t, r) :: post) k = T.parseConf (pre ++ post) k := by
  have hno : ∀ p, ∀ kv ∈ T.outcome p t r, kv.1 ≠ k := fun p kv hkv heq => hk (heq ▸ T.outcome_keys p t r kv hkv)
  unfold Table.parseConf
  rw [T.parsePhase_skip 1 k pre post (t, r) (hno 1)]
  exact T.parsePhase_congr_key 1 k _ _ _ (T.parsePhase_skip 0 k pre post (t, r) (hno 0) _)

end PhononModel.Settings
