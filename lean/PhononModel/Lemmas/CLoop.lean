import PhononModel.Model.CLoop
import Mathlib.Algebra.BigOperators.Group.Finset.Basic
import Mathlib.Algebra.BigOperators.Intervals
import Mathlib.Tactic.Ring
/-!
Loop lemmas for `CLoop.forN`: invariants, frame, "clear" loops (`a[i] = c`) and scatter-add loops
(`a[h] += v` with `v` independent of `a`): the result is the initial array plus the sum of all additions.
-/
namespace PhononModel.CLoop
open Finset

variable {σ : Type}

@[simp] theorem forN_zero (f : Nat → σ → σ) (s : σ) : forN 0 f s = s := rfl
theorem forN_succ (n : Nat) (f : Nat → σ → σ) (s : σ) : forN (n + 1) f s = f n (forN n f s) := rfl

theorem forN_invariant (P : σ → Prop) (f : Nat → σ → σ) (h : ∀ t s, P s → P (f t s)) (n : Nat) (s : σ)
    (hs : P s) : P (forN n f s) := by
  induction n with
  | zero => exact hs
  | succ n ih => exact h n _ ih

/-- frame: a component no iteration changes is unchanged -/
theorem forN_frame {β : Type} (proj : σ → β) (f : Nat → σ → σ) (h : ∀ t s, proj (f t s) = proj s) (n : Nat) (s : σ) :
    proj (forN n f s) = proj s := by
  induction n with
  | zero => rfl
  | succ n ih => rw [forN_succ, h, ih]

/-- `for (t = 0; t < n; t++) a[t] = c` -/
theorem forN_proj_set {β : Type} (proj : σ → Nat → β) (f : Nat → σ → σ) (c : β)
    (h : ∀ t s m, proj (f t s) m = if m = t then c else proj s m) (n : Nat) (s : σ) (m : Nat) :
    proj (forN n f s) m = if m < n then c else proj s m := by
  induction n with
  | zero => simp
  | succ n ih =>
    rw [forN_succ, h, ih]
    by_cases h1 : m = n
    · simp [h1]
    · by_cases h2 : m < n
      · simp [h1, h2, Nat.lt_succ_of_lt h2]
      · have : ¬ m < n + 1 := by omega
        simp [h1, h2, this]

/-- scatter-add: if, under an invariant, iteration `t` adds `D t m` to cell `m`, the loop adds `Σ_t D t m` -/
theorem forN_proj_add {M : Type} [AddCommMonoid M] (proj : σ → Nat → M) (Inv : σ → Prop) (f : Nat → σ → σ)
    (D : Nat → Nat → M) (hInv : ∀ t s, Inv s → Inv (f t s))
    (h : ∀ t s, Inv s → ∀ m, proj (f t s) m = proj s m + D t m) (n : Nat) (s : σ) (hs : Inv s) (m : Nat) :
    proj (forN n f s) m = proj s m + ∑ t ∈ range n, D t m := by
  induction n with
  | zero => simp
  | succ n ih =>
    rw [forN_succ, h n _ (forN_invariant Inv f hInv n s hs), ih, sum_range_succ, add_assoc]

@[simp] theorem upd_same {α : Type} (a : Nat → α) (i : Nat) (v : α) : upd a i v i = v := by simp [upd]
theorem upd_ne {α : Type} (a : Nat → α) {i k : Nat} (v : α) (h : k ≠ i) : upd a i v k = a k := by simp [upd, h]

end PhononModel.CLoop
