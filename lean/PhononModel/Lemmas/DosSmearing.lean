import PhononModel.Model.Dos
import PhononModel.Lemmas.Basic
import Mathlib.Analysis.SpecialFunctions.Gaussian.GaussianIntegral
import Mathlib.Analysis.SpecialFunctions.ImproperIntegrals
import Mathlib.MeasureTheory.Measure.Haar.NormedSpace
import Mathlib.MeasureTheory.Group.Integral

/-! The smearing functions of dos.py have unit integral; the smearing DOS integrates to the number of bands (C11). -/
set_option linter.unusedVariables false
namespace PhononModel.DosLemmas
open PhononModel MeasureTheory Real

/-- the normal distribution of dos.py with Mathlib's `exp` and `√(2π)` -/
noncomputable def normalR (σ x : ℝ) : ℝ := Dos.normalDist Real.exp (√(2 * π)) σ x

/-- the Cauchy distribution of dos.py with Mathlib's `π` -/
noncomputable def cauchyR (γ x : ℝ) : ℝ := Dos.cauchyDist π γ x

theorem normalR_eq (σ x : ℝ) : normalR σ x = (1 / √(2 * π) / σ) * Real.exp (-(1 / (2 * σ ^ 2)) * x ^ 2) := by
  unfold normalR Dos.normalDist
  congr 2
  ring

theorem normal_integrable {σ : ℝ} (hσ : 0 < σ) : Integrable (normalR σ) := by
  have hb : 0 < 1 / (2 * σ ^ 2) := by positivity
  have := (integrable_exp_neg_mul_sq hb).const_mul (1 / √(2 * π) / σ)
  refine this.congr (Filter.Eventually.of_forall fun x => ?_)
  simp only [normalR_eq]

theorem normal_integral {σ : ℝ} (hσ : 0 < σ) : ∫ x, normalR σ x = 1 := by
  simp only [normalR_eq]
  rw [integral_const_mul, integral_gaussian]
  have h2 : π / (1 / (2 * σ ^ 2)) = 2 * π * σ ^ 2 := by field_simp
  have h3 : √(2 * π * σ ^ 2) = √(2 * π) * σ := by
    rw [Real.sqrt_mul (show (0 : ℝ) ≤ 2 * π by positivity) (σ ^ 2), Real.sqrt_sq (le_of_lt hσ)]
  rw [h2, h3]
  have hs : √(2 * π) ≠ 0 := by positivity
  field_simp

theorem normal_nonneg {σ : ℝ} (hσ : 0 < σ) (x : ℝ) : 0 ≤ normalR σ x := by
  rw [normalR_eq]; positivity

theorem cauchyR_eq {γ : ℝ} (hγ : γ ≠ 0) (x : ℝ) : cauchyR γ x = (1 / (π * γ)) * (1 + (x / γ) ^ 2)⁻¹ := by
  unfold cauchyR Dos.cauchyDist
  have hπ : π ≠ 0 := Real.pi_ne_zero
  have h1 : x * x + γ * γ ≠ 0 := by
    have := mul_self_nonneg x
    have := mul_self_pos.mpr hγ
    linarith
  have h2 : 1 + (x / γ) ^ 2 ≠ 0 := by positivity
  field_simp
  ring

theorem cauchy_integrable {γ : ℝ} (hγ : 0 < γ) : Integrable (cauchyR γ) := by
  have h := (integrable_inv_one_add_sq.comp_div (ne_of_gt hγ)).const_mul (1 / (π * γ))
  refine h.congr (Filter.Eventually.of_forall fun x => ?_)
  simp only [cauchyR_eq (ne_of_gt hγ)]

theorem cauchy_integral {γ : ℝ} (hγ : 0 < γ) : ∫ x, cauchyR γ x = 1 := by
  simp only [cauchyR_eq (ne_of_gt hγ)]
  rw [integral_const_mul, Measure.integral_comp_div (fun y : ℝ => (1 + y ^ 2)⁻¹) γ, integral_univ_inv_one_add_sq,
    abs_of_pos hγ, smul_eq_mul]
  have hπ : π ≠ 0 := Real.pi_ne_zero
  field_simp

theorem cauchy_nonneg {γ : ℝ} (hγ : 0 < γ) (x : ℝ) : 0 ≤ cauchyR γ x := by
  rw [cauchyR_eq (ne_of_gt hγ)]; positivity

/-- **normalisation of the smearing DOS**: for any integrable smearing function of unit integral the total DOS
`Σ_q w_q Σ_band δ(ν - ω) / Σ_q w_q` integrates over the whole frequency axis to the number of bands. -/
theorem smearingDos_integral (nq nb : Nat) (w : Fin nq → ℝ) (hw : ∑ q, w q ≠ 0) (ν : Fin nq → Fin nb → ℝ) (δ : ℝ → ℝ)
    (hδ : Integrable δ) (h1 : ∫ x, δ x = 1) : ∫ ω, Dos.smearingDos nq nb w ν δ ω = nb := by
  unfold Dos.smearingDos
  simp only [sumFin_eq]
  have hterm : ∀ q b, Integrable (fun ω => δ (ν q b - ω)) := fun q b => hδ.comp_sub_left (ν q b)
  have hint : ∀ q b, ∫ ω, δ (ν q b - ω) = 1 := fun q b => by rw [integral_sub_left_eq_self δ volume (ν q b), h1]
  rw [integral_div, integral_finsetSum _ (fun q _ => (integrable_finsetSum _ (fun b _ => hterm q b)).const_mul (w q))]
  simp only [integral_const_mul]
  have : ∀ q, ∫ ω, ∑ b, δ (ν q b - ω) = nb := by
    intro q
    rw [integral_finsetSum _ (fun b _ => hterm q b)]
    simp [hint]
  simp only [this]
  rw [← Finset.sum_mul]
  field_simp

end PhononModel.DosLemmas
