import PhononModel.Lemmas.TimeReversal
import Mathlib.Tactic.Linarith
import Mathlib.Tactic.Positivity
import Mathlib.Algebra.Order.Ring.Abs

/-!
The list of reciprocal vectors of the Gonze–Lee sum (`_get_G_list`): membership, symmetry under
`G ↦ −G`, completeness criterion, and a sufficient index radius (Cauchy–Schwarz with the real
lattice vectors).
-/
set_option linter.unusedSectionVars false
namespace PhononModel.C08
open Finset PhononModel PhononModel.C06

variable {K : Type} [Field K] [LinearOrder K] [IsStrictOrderedRing K]

abbrev I3 := Int × Int × Int

theorem mem_gIndices {r : Nat} {n : I3} :
    n ∈ gIndices r ↔ (-(r : Int) ≤ n.1 ∧ n.1 ≤ r) ∧ (-(r : Int) ≤ n.2.1 ∧ n.2.1 ≤ r) ∧ (-(r : Int) ≤ n.2.2 ∧ n.2.2 ≤ r) := by
  obtain ⟨x, y, z⟩ := n
  simp only [gIndices, List.mem_flatMap, List.mem_map, List.mem_range, Prod.mk.injEq, Int.ofNat_eq_natCast]
  constructor
  · rintro ⟨a, ha, b, hb, c, hc, rfl, rfl, rfl⟩
    refine ⟨⟨?_, ?_⟩, ⟨?_, ?_⟩, ⟨?_, ?_⟩⟩ <;> omega
  · rintro ⟨⟨h1, h2⟩, ⟨h3, h4⟩, ⟨h5, h6⟩⟩
    refine ⟨(x + r).toNat, by omega, (y + r).toNat, by omega, (z + r).toNat, by omega, ?_, ?_, ?_⟩ <;> omega

def I3.neg (n : I3) : I3 := (-n.1, -n.2.1, -n.2.2)

theorem gVec_neg (rec : T3 K) (n : I3) : gVec rec n.neg = fun i => -gVec rec n i := by
  funext i; simp only [gVec, I3.neg, Int.cast_neg]; ring

theorem mem_gList {rec : T3 K} {c : K} {r : Nat} {n : I3} :
    n ∈ gList rec c r ↔ n ∈ gIndices r ∧ normSq (gVec rec n) < c := by
  simp [gList, List.mem_filter]

/-- the modelled list is symmetric under `G ↦ −G` -/
theorem gList_neg_closed (rec : T3 K) (c : K) (r : Nat) (n : I3) (h : n ∈ gList rec c r) : n.neg ∈ gList rec c r := by
  rw [mem_gList] at h ⊢
  refine ⟨?_, ?_⟩
  · have := mem_gIndices.mp h.1
    apply mem_gIndices.mpr
    simp only [I3.neg]
    omega
  · rw [gVec_neg, normSq_neg]; exact h.2

/-- the list is the full set `{G : |G|² < G_cutoff²}` iff the index radius covers it -/
theorem gList_complete (rec : T3 K) (c : K) (r : Nat)
    (hr : ∀ n : I3, normSq (gVec rec n) < c → n ∈ gIndices r) (n : I3) :
    n ∈ gList rec c r ↔ normSq (gVec rec n) < c := by
  rw [mem_gList]
  exact ⟨fun h => h.2, fun h => ⟨hr n h, h⟩⟩

theorem cauchy3 (a0 a1 a2 g0 g1 g2 : K) :
    (a0 * g0 + a1 * g1 + a2 * g2) ^ 2 ≤ (a0 * a0 + a1 * a1 + a2 * a2) * (g0 * g0 + g1 * g1 + g2 * g2) := by
  nlinarith [sq_nonneg (a0 * g1 - a1 * g0), sq_nonneg (a0 * g2 - a2 * g0), sq_nonneg (a1 * g2 - a2 * g1)]

theorem int_abs_le_of_sq_lt (x : Int) (r : Nat) (h : ((x : K)) ^ 2 < ((r : K) + 1) ^ 2) : -(r : Int) ≤ x ∧ x ≤ r := by
  have h1 : |(x : K)| < (r : K) + 1 := by
    have := abs_lt_of_sq_lt_sq h (by positivity)
    exact this
  rw [abs_lt] at h1
  have h2 : ((x : Int) : K) < ((r + 1 : Int) : K) := by push_cast; exact h1.2
  have h3 : ((-(r + 1 : Int) : Int) : K) < (x : K) := by push_cast; linarith [h1.1]
  have := Int.cast_lt.mp h2
  have := Int.cast_lt.mp h3
  constructor <;> omega

/-- **a sufficient index radius**: with `cell` the real lattice vectors in rows (`cell · rec = 1`),
`n_i = a_i · G`, so `n_i² ≤ |a_i|² |G|²`; any `r` with `|a_i|² G_cutoff² ≤ (r+1)²` gives the complete
list.  (`r = ⌊G_cutoff · max|a_i|⌋ + 1` satisfies this — the bound of the proposed fix; the code's
`_get_minimum_g_rad` uses the 26 shortest combinations of reciprocal vectors instead, which is not
sufficient for skewed bases, see `minGRad_insufficient`.) -/
theorem gList_radius_sufficient (rec cell : T3 K) (c : K) (r : Nat)
    (hinv : ∀ i j, cell i 0 * rec 0 j + cell i 1 * rec 1 j + cell i 2 * rec 2 j = if i = j then 1 else 0)
    (hr : ∀ i, (cell i 0 * cell i 0 + cell i 1 * cell i 1 + cell i 2 * cell i 2) * c ≤ ((r : K) + 1) ^ 2)
    (n : I3) (hn : normSq (gVec rec n) < c) : n ∈ gIndices r := by
  obtain ⟨x, y, z⟩ := n
  have hns : normSq (gVec rec (x, y, z)) = gVec rec (x, y, z) 0 * gVec rec (x, y, z) 0
      + gVec rec (x, y, z) 1 * gVec rec (x, y, z) 1 + gVec rec (x, y, z) 2 * gVec rec (x, y, z) 2 := by
    simp only [normSq, sumFin_eq, Fin.sum_univ_three]
  have comp : ∀ i : Fin 3, cell i 0 * gVec rec (x, y, z) 0 + cell i 1 * gVec rec (x, y, z) 1 + cell i 2 * gVec rec (x, y, z) 2
      = (if i = 0 then (x : K) else 0) + (if i = 1 then (y : K) else 0) + (if i = 2 then (z : K) else 0) := by
    intro i
    have h0 := hinv i 0; have h1 := hinv i 1; have h2 := hinv i 2
    simp only [gVec]
    have : cell i 0 * (rec 0 0 * (x : K) + rec 0 1 * (y : K) + rec 0 2 * (z : K))
        + cell i 1 * (rec 1 0 * (x : K) + rec 1 1 * (y : K) + rec 1 2 * (z : K))
        + cell i 2 * (rec 2 0 * (x : K) + rec 2 1 * (y : K) + rec 2 2 * (z : K))
        = (cell i 0 * rec 0 0 + cell i 1 * rec 1 0 + cell i 2 * rec 2 0) * x
          + (cell i 0 * rec 0 1 + cell i 1 * rec 1 1 + cell i 2 * rec 2 1) * y
          + (cell i 0 * rec 0 2 + cell i 1 * rec 1 2 + cell i 2 * rec 2 2) * z := by ring
    rw [this, h0, h1, h2]
    fin_cases i <;> simp
  have bound : ∀ i : Fin 3, (cell i 0 * gVec rec (x, y, z) 0 + cell i 1 * gVec rec (x, y, z) 1 + cell i 2 * gVec rec (x, y, z) 2) ^ 2
      < ((r : K) + 1) ^ 2 := by
    intro i
    have cs := cauchy3 (cell i 0) (cell i 1) (cell i 2) (gVec rec (x, y, z) 0) (gVec rec (x, y, z) 1) (gVec rec (x, y, z) 2)
    rw [← hns] at cs
    have hA : 0 ≤ cell i 0 * cell i 0 + cell i 1 * cell i 1 + cell i 2 * cell i 2 := by
      nlinarith [mul_self_nonneg (cell i 0), mul_self_nonneg (cell i 1), mul_self_nonneg (cell i 2)]
    by_cases hz : cell i 0 * cell i 0 + cell i 1 * cell i 1 + cell i 2 * cell i 2 = 0
    · rw [hz, zero_mul] at cs
      have : (0 : K) < ((r : K) + 1) ^ 2 := by positivity
      linarith
    · have hpos : 0 < cell i 0 * cell i 0 + cell i 1 * cell i 1 + cell i 2 * cell i 2 := lt_of_le_of_ne hA (Ne.symm hz)
      have := mul_lt_mul_of_pos_left hn hpos
      linarith [hr i]
  apply mem_gIndices.mpr
  have b0 := bound 0; have b1 := bound 1; have b2 := bound 2
  rw [comp 0] at b0; rw [comp 1] at b1; rw [comp 2] at b2
  simp at b0 b1 b2
  exact ⟨int_abs_le_of_sq_lt x r b0, int_abs_le_of_sq_lt y r b1, int_abs_le_of_sq_lt z r b2⟩

end PhononModel.C08
