import PhononModel.Lemmas.DynMat
import PhononModel.Lemmas.SymmetrizeCompact
set_option linter.unusedSectionVars false
namespace PhononModel
open Finset
variable {R : Type} [Field R] [CharZero R]
variable {np ns nt nsv : Nat}

/-- image of primitive atom `i` under the stored translation that sends `k` to its primitive representative -/
def CTables.sigma (C : CTables np ns nt) (i : Fin np) (k : Fin ns) : Fin ns :=
  C.perms (C.nsym k) (C.p2s i)

theorem CTables.WF.s2pp_sigma {C : CTables np ns nt} (h : C.WF) (i : Fin np) (k : Fin ns) :
    C.s2pp (C.sigma i k) = i := by
  unfold CTables.sigma; rw [h.sub, h.sp]

theorem CTables.WF.sigma_sigma {C : CTables np ns nt} (h : C.WF) (i : Fin np) (k : Fin ns) :
    C.sigma (C.s2pp k) (C.sigma i k) = k := by
  unfold CTables.sigma
  rw [← h.rep k, h.reg, h.idp]

/-- the two sublattices `{k | s2pp k = j}` and `{k' | s2pp k' = i}` are exchanged by `sigma` -/
theorem CTables.WF.sum_sigma {C : CTables np ns nt} (h : C.WF) {M : Type} [AddCommMonoid M]
    (i j : Fin np) (f : Fin ns → M) :
    (∑ k, if C.s2pp k = j then f (C.sigma i k) else 0) = ∑ k', if C.s2pp k' = i then f k' else 0 := by
  rw [← Finset.sum_filter, ← Finset.sum_filter]
  refine Finset.sum_nbij' (fun k => C.sigma i k) (fun k' => C.sigma j k') ?_ ?_ ?_ ?_ ?_
  · intro k hk; simp only [Finset.mem_filter, Finset.mem_univ, true_and] at hk ⊢; exact h.s2pp_sigma i k
  · intro k hk; simp only [Finset.mem_filter, Finset.mem_univ, true_and] at hk ⊢; exact h.s2pp_sigma j k
  · intro k hk; simp only [Finset.mem_filter, Finset.mem_univ, true_and] at hk
    have := h.sigma_sigma i k; rw [hk] at this; exact this
  · intro k hk; simp only [Finset.mem_filter, Finset.mem_univ, true_and] at hk
    have := h.sigma_sigma j k; rw [hk] at this; exact this
  · intro k _; rfl

/-- translation + index-permutation symmetry moves a block to the row of the other primitive atom -/
theorem fc_sigma {C : CTables np ns nt} (h : C.WF) (Φ : FC ns R) (hper : Periodic C Φ) (hsym : PermSymmetric Φ)
    (i : Fin np) (k : Fin ns) (a b : Fin 3) :
    Φ (C.p2s (C.s2pp k)) (C.sigma i k) b a = Φ (C.p2s i) k a b := by
  unfold CTables.sigma
  rw [← h.rep k, hper, hsym]


/-- A full-fc `DTables` uses the index maps of the translation tables `C`. -/
structure Linked (T : DTables np ns ns nsv) (C : CTables np ns nt) : Prop where
  p2s : ∀ i, T.p2s i = C.p2s i
  s2p : ∀ k, T.s2p k = C.p2s (C.s2pp k)

theorem linkedOk_sound (T : DTables np ns ns nsv) (C : CTables np ns nt) (h : linkedOk T C = true) : Linked T C := by
  simp only [linkedOk, Bool.and_eq_true, List.all_eq_true, List.mem_finRange, forall_const, beq_iff_eq] at h
  exact ⟨h.1, h.2⟩

theorem Linked.sel {T : DTables np ns ns nsv} {C : CTables np ns nt} (hl : Linked T C) (h : C.WF)
    (k : Fin ns) (j : Fin np) : (T.s2p k = T.p2s j) ↔ (C.s2pp k = j) := by
  rw [hl.s2p, hl.p2s]
  constructor
  · intro e; have := congrArg C.s2pp e; rwa [h.sp, h.sp] at this
  · intro e; rw [e]

/-- **the un-Hermitised block is already Hermitian** when the force constants are periodic and
index-permutation symmetric, `sqrt(m_i m_j)` is symmetric and the stored images of the reversed
pair carry the conjugate averaged phase (they are the negated vectors). -/
theorem dynmatRawC_hermitian {T : DTables np ns ns nsv} {C : CTables np ns nt} (hl : Linked T C) (h : C.WF)
    (ph : Fin nsv → Cx R) (mm : Fin np → Fin np → R) (Φ : FC ns R)
    (hper : Periodic C Φ) (hsym : PermSymmetric Φ) (hmm : ∀ i j, mm i j = mm j i)
    (hsv : ∀ i k, phaseAvgC T ph (C.sigma i k) (C.s2pp k) = Cx.conj (phaseAvgC T ph k i))
    (i a j b) :
    Cx.conj (dynmatRawC T ph mm Φ j b i a) = dynmatRawC T ph mm Φ i a j b := by
  simp only [dynmatRawC_eq, Cx.conj_mul, Cx.conj_sum, Cx.conj_ofR, hl.sel h, hmm j i, Cx.apply_ite_conj]
  congr 1
  rw [← h.sum_sigma i j]
  apply Finset.sum_congr rfl
  intro k _
  by_cases hk : C.s2pp k = j
  · subst hk
    simp only [if_true, hsv, Cx.conj_conj, hl.p2s]
    rw [fc_sigma h Φ hper hsym]
  · simp [hk]

theorem hermC_fixed (D : DM np (Cx R)) (hD : ∀ i a j b, Cx.conj (D j b i a) = D i a j b) :
    hermC D = D := by
  funext i a j b
  have h2 : (2 : R) ≠ 0 := two_ne_zero
  rw [hermC_eq D h2, hD]
  ext <;> simp <;> field_simp <;> ring

/-! ### zone centre -/

theorem phaseAvgC_one (T : DTables np ns ns nsv) (k i) :
    phaseAvgC T (fun _ => (1 : Cx R)) k i = 1 := by
  rw [phaseAvgC_eq]
  have hm : ((T.mult k i : Nat) : R) ≠ 0 := by
    have := T.hpos k i
    exact_mod_cast (by omega : T.mult k i ≠ 0)
  ext <;> simp [hm]


theorem dynmatRawC_gamma (T : DTables np ns ns nsv) (mm : Fin np → Fin np → R) (Φ : FC ns R) (i a j b) :
    dynmatRawC T (fun _ => (1 : Cx R)) mm Φ i a j b
      = Cx.ofR (mm i j)⁻¹ * ∑ k, if T.s2p k = T.p2s j then Cx.ofR (Φ (T.p2s i) k a b) else 0 := by
  simp only [dynmatRawC_eq, phaseAvgC_one, mul_one]

/-- at the zone centre the Hermitiser does nothing (periodic, index-permutation symmetric Φ) -/
theorem dynmatC_gamma_eq_raw {T : DTables np ns ns nsv} {C : CTables np ns nt} (hl : Linked T C) (h : C.WF)
    (mm : Fin np → Fin np → R) (Φ : FC ns R)
    (hper : Periodic C Φ) (hsym : PermSymmetric Φ) (hmm : ∀ i j, mm i j = mm j i) :
    dynmatC T (fun _ => (1 : Cx R)) mm Φ = dynmatRawC T (fun _ => (1 : Cx R)) mm Φ := by
  unfold dynmatC
  apply hermC_fixed
  intro i a j b
  apply dynmatRawC_hermitian hl h _ mm Φ hper hsym hmm
  intro i k; simp [phaseAvgC_one]

/-- **acoustic sum rule ⇒ the three rigid translations are in the kernel at Γ**:
`Σ_{j,b} D(Γ)[(i,a),(j,b)] · s_j δ_{bc} = 0`. -/
theorem acoustic_kernel_lemma {T : DTables np ns ns nsv} {C : CTables np ns nt} (hl : Linked T C) (h : C.WF)
    (s : Fin np → R) (hs : ∀ i, s i ≠ 0) (Φ : FC ns R)
    (hper : Periodic C Φ) (hsym : PermSymmetric Φ) (hsum : RowSumZero Φ) (i : Fin np) (a c : Fin 3) :
    ∑ j, ∑ b, dynmatC T (fun _ => (1 : Cx R)) (fun i j => s i * s j) Φ i a j b
        * (if b = c then Cx.ofR (s j) else 0) = 0 := by
  rw [dynmatC_gamma_eq_raw hl h _ Φ hper hsym (fun i j => mul_comm _ _)]
  simp only [mul_ite, mul_zero, Finset.sum_ite_eq', Finset.mem_univ, if_true, dynmatRawC_gamma, hl.sel h]
  have key : ∀ j, Cx.ofR (s i * s j)⁻¹ * (∑ k, if C.s2pp k = j then Cx.ofR (Φ (T.p2s i) k a c) else 0) * Cx.ofR (s j)
      = Cx.ofR (s i)⁻¹ * ∑ k, if C.s2pp k = j then Cx.ofR (Φ (T.p2s i) k a c) else 0 := by
    intro j
    have : Cx.ofR (s i * s j)⁻¹ * Cx.ofR (s j) = Cx.ofR (s i)⁻¹ := by
      rw [← Cx.ofR_mul]; congr 1; have := hs i; have := hs j; field_simp
    rw [mul_right_comm, this]
  simp only [key, ← Finset.mul_sum]
  rw [Finset.sum_comm]
  simp only [Finset.sum_ite_eq, Finset.mem_univ, if_true]
  have : ∑ k, Cx.ofR (Φ (T.p2s i) k a c) = Cx.ofR (∑ k, Φ (T.p2s i) k a c) := by
    ext <;> simp
  rw [this, hsum, Cx.ofR_zero, mul_zero]

/-- the three rigid-translation vectors `(s_j δ_{bc})` are linearly independent (for at least one atom) -/
theorem acoustic_vectors_independent (s : Fin np → R) (hs : ∀ i, s i ≠ 0) (i0 : Fin np)
    (lam : Fin 3 → Cx R)
    (h0 : ∀ j b, ∑ c, lam c * (if b = c then Cx.ofR (s j) else 0) = 0) : ∀ c, lam c = 0 := by
  intro c
  have := h0 i0 c
  simp only [mul_ite, mul_zero, Finset.sum_ite_eq, Finset.mem_univ, if_true] at this
  have h1 : lam c * Cx.ofR (s i0) * Cx.ofR (s i0)⁻¹ = 0 := by rw [this, zero_mul]
  rw [mul_assoc, ← Cx.ofR_mul, mul_inv_cancel₀ (hs i0), Cx.ofR_one, mul_one] at h1
  exact h1

end PhononModel
