import PhononModel.Model.GridBZ
import Mathlib.Data.Rat.Defs
import Mathlib.Algebra.Order.Field.Rat
import Mathlib.Tactic.LinearCombination
import Mathlib.Tactic.Ring
import Mathlib.Tactic.Linarith
import Mathlib.Tactic.Push

/-! Relocation into the Brillouin zone: lattice translation, shortest in the searched window (C09). -/
set_option linter.unusedVariables false
namespace PhononModel.Grid

theorem det_sq {T : M3} (h : T.det = 1 ∨ T.det = -1) : ((T.det : Int) : ℚ) * ((T.det : Int) : ℚ) = 1 := by
  rcases h with h | h <;> rw [h] <;> norm_num

/-- `T · (T⁻¹ q) = q` for a unimodular integer matrix -/
theorem act_invUni (T : M3) (h : T.det = 1 ∨ T.det = -1) (q : V3 Rat) : T.act (T.invUni.act q) = q := by
  have hd := det_sq h
  obtain ⟨⟨a, b, c⟩, ⟨d, e, f⟩, ⟨g, k, l⟩⟩ := T
  obtain ⟨x, y, z⟩ := q
  simp only [M3.det] at hd
  simp only [M3.act, M3.invUni, M3.scale, IV.scale, M3.adj, M3.det, V3.mk.injEq]
  push_cast at hd ⊢
  refine ⟨?_, ?_, ?_⟩
  · linear_combination x * hd
  · linear_combination y * hd
  · linear_combination z * hd

theorem listMin_le (d : Rat) (l : List Rat) : listMin d l ≤ d ∧ ∀ a ∈ l, listMin d l ≤ a := by
  induction l generalizing d with
  | nil => exact ⟨le_refl _, fun a ha => by simp at ha⟩
  | cons b l ih =>
    obtain ⟨h1, h2⟩ := ih (min d b)
    simp only [listMin]
    refine ⟨le_trans h1 (min_le_left _ _), ?_⟩
    intro a ha
    rcases List.mem_cons.mp ha with rfl | ha
    · exact le_trans h1 (min_le_right _ _)
    · exact h2 a ha

theorem bzRelocate_ok {L : Q33} {T : M3} {tolf : Rat} {q : V3 Rat} {r : BZResult} (h : bzRelocate L T tolf q = .ok r) :
    (T.det = 1 ∨ T.det = -1) ∧ r.shift ∈ searchSpace ∧
    r.point = T.act ((reduceQ T q).addInt r.shift) ∧ r.tol = tolOf L tolf ∧
    r.dmin = listMin (bzDist L T (reduceQ T q) ⟨0, 0, 0⟩) (searchSpace.map (bzDist L T (reduceQ T q))) ∧
    bzDist L T (reduceQ T q) r.shift < r.dmin + r.tol := by
  unfold bzRelocate at h
  split at h
  · next hdet =>
    simp only at h
    split at h
    · next g hg =>
      have hm := List.mem_of_find?_eq_some hg
      have hp := List.find?_some hg
      simp only [decide_eq_true_eq] at hp
      simp only [Except.ok.injEq] at h
      subst h
      exact ⟨hdet, hm, rfl, rfl, rfl, hp⟩
    · exact absurd h (by simp)
  · exact absurd h (by simp)

/-- the relocated point differs from the original by a reciprocal lattice vector -/
theorem bz_translate {L : Q33} {T : M3} {tolf : Rat} {q : V3 Rat} {r : BZResult} (h : bzRelocate L T tolf q = .ok r) :
    ∃ n : IV, r.point = q.addInt n := by
  obtain ⟨hdet, _, hp, _, _, _⟩ := bzRelocate_ok h
  have hinv := act_invUni T hdet q
  rw [hp]
  generalize hy : T.invUni.act q = y at hinv
  refine ⟨T.mulVec ⟨r.shift.x - rint y.x, r.shift.y - rint y.y, r.shift.z - rint y.z⟩, ?_⟩
  unfold reduceQ
  rw [hy]
  obtain ⟨⟨a, b, c⟩, ⟨d, e, f⟩, ⟨g, k, l⟩⟩ := T
  obtain ⟨x, y', z⟩ := q
  simp only [M3.act, V3.mk.injEq] at hinv
  obtain ⟨h1, h2, h3⟩ := hinv
  simp only [M3.act, V3.addInt, M3.mulVec, dot, V3.mk.injEq]
  push_cast
  refine ⟨?_, ?_, ?_⟩
  · linear_combination h1
  · linear_combination h2
  · linear_combination h3

/-- the relocated point is a shortest one (up to the tolerance) among the 27 window points — in particular
not longer than the reduced point itself -/
theorem bz_shortest {L : Q33} {T : M3} {tolf : Rat} {q : V3 Rat} {r : BZResult} (h : bzRelocate L T tolf q = .ok r) :
    ∀ g ∈ searchSpace, norm2 (L.mulVec r.point) < norm2 (L.mulVec (T.act ((reduceQ T q).addInt g))) + r.tol := by
  obtain ⟨_, _, hp, _, hd, hlt⟩ := bzRelocate_ok h
  intro g hg
  have hmin := (listMin_le (bzDist L T (reduceQ T q) ⟨0, 0, 0⟩) (searchSpace.map (bzDist L T (reduceQ T q)))).2
    (bzDist L T (reduceQ T q) g) (List.mem_map_of_mem hg)
  rw [← hd] at hmin
  rw [hp]
  unfold bzDist at hlt hmin
  linarith

end PhononModel.Grid
