import PhononModel.Model.RandomDisp
import PhononModel.Lemmas.CxPair
import Mathlib.Algebra.BigOperators.Fin
import Mathlib.Algebra.BigOperators.Field
import Mathlib.Algebra.BigOperators.Group.Finset.Sigma
import Mathlib.Algebra.Field.Basic
import Mathlib.Data.Fintype.Sum
import Mathlib.Data.Fintype.Prod
import Mathlib.Logic.Equiv.Fin.Basic
import Mathlib.Tactic.FieldSimp
import Mathlib.Tactic.Ring

/-! Helper lemmas for C19: spectral calculus for a family of mutually orthogonal vectors of squared norm `N`
(the displacement patterns of all commensurate points of a supercell), and the row-index bijection. -/
namespace PhononModel.C19
open PhononModel PhononModel.CP Finset

variable {K : Type} [Field K]

/-- `(1/N) Σ_c w_c ψ_c ψ_c†` -/
def specM {ι C : Type} [Fintype C] (ψ : C → ι → Cx K) (N : K) (w : C → K) (r r' : ι) : Cx K :=
  ∑ c, (⟨w c / N, 0⟩ : Cx K) * ψ c r * Cx.conj (ψ c r')

/-- for vectors with `⟨ψ_c, ψ_c'⟩ = N δ_cc'`: `M(w)·M(w') = M(w·w')` -/
theorem specM_mul {ι C : Type} [Fintype ι] [Fintype C] [DecidableEq C] (ψ : C → ι → Cx K) (N : K) (hN : N ≠ 0)
    (horth : ∀ c c', (∑ r, Cx.conj (ψ c r) * ψ c' r) = if c = c' then (⟨N, 0⟩ : Cx K) else 0)
    (w w' : C → K) (r r'' : ι) :
    (∑ r', specM ψ N w r r' * specM ψ N w' r' r'') = specM ψ N (fun c => w c * w' c) r r'' := by
  simp only [specM, Finset.sum_mul_sum]
  rw [Finset.sum_comm]
  apply Finset.sum_congr rfl; intro c _
  rw [Finset.sum_comm]
  have h2 : ∀ c', (∑ r', (⟨w c / N, 0⟩ : Cx K) * ψ c r * Cx.conj (ψ c r') * ((⟨w' c' / N, 0⟩ : Cx K) * ψ c' r' * Cx.conj (ψ c' r'')))
      = (⟨w c / N, 0⟩ : Cx K) * ψ c r * (⟨w' c' / N, 0⟩ : Cx K) * Cx.conj (ψ c' r'') * (if c = c' then (⟨N, 0⟩ : Cx K) else 0) := by
    intro c'
    rw [← horth c c', Finset.mul_sum]
    apply Finset.sum_congr rfl; intro m _; ring
  simp only [h2, mul_ite, mul_zero, Finset.sum_ite_eq, Finset.mem_univ, if_true]
  have : (⟨w c * w' c / N, 0⟩ : Cx K) = ⟨w c / N, 0⟩ * ⟨w' c / N, 0⟩ * ⟨N, 0⟩ := by
    apply Cx.ext'
    · simp only [Cx.mul_re, Cx.mul_im, mul_zero, sub_zero, zero_mul, add_zero]; field_simp
    · simp
  rw [this]; ring

/-- `Σ_p Σ_a g(3p + a) = Σ_r g(r)` -/
theorem sum_row {np : Nat} {M : Type} [AddCommMonoid M] (g : Fin (np * 3) → M) :
    (∑ p : Fin np, ∑ a : Fin 3, g (row p a)) = ∑ r, g r := by
  rw [← Fintype.sum_prod_type']
  refine Fintype.sum_equiv finProdFinEquiv _ _ ?_
  intro x
  congr 1
  apply Fin.ext
  simp [row, finProdFinEquiv, mul_comm, add_comm]

/-- a sum over supercell atoms, sorted by sublattice -/
theorem sum_by_sublattice {np ns : Nat} {M : Type} [AddCommMonoid M] (s2pp : Fin ns → Fin np) (f : Fin np → Fin ns → M) :
    (∑ κ, f (s2pp κ) κ) = ∑ p, ∑ κ, if s2pp κ = p then f p κ else 0 := by
  rw [Finset.sum_comm]
  apply Finset.sum_congr rfl; intro κ _
  rw [Finset.sum_eq_single (s2pp κ)]
  · simp
  · intro p _ hp; rw [if_neg (fun h => hp h.symm)]
  · intro h; exact absurd (Finset.mem_univ _) h

end PhononModel.C19
