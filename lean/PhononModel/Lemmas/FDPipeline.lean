import PhononModel.Lemmas.FDSolver

/-! Spec lemmas for the data-set loop, the symmetry mappings and the two `_run` paths. -/
set_option linter.unusedSectionVars false
namespace PhononModel.FD
open PhononModel Finset Matrix

variable {K : Type} [Field K] [DecidableEq K]

/-- exactness of one solved block row (`_solve_force_constants_svd`) -/
theorem solveRows_exact {n nd m : Nat} (Φ : FC n K) (a : Fin n)
    (R : Fin m → Mat3 K) (rho : Fin m → Fin n → Fin n) (u : Fin nd → Vec3 K) (F : Fin nd → Fin n → Vec3 K)
    (hR : ∀ s, (ofMat (R s))ᵀ * ofMat (R s) = 1)
    (hsite : ∀ s i, ofMat (Φ a i) = ofMat (R s) * ofMat (Φ a (rho s i)) * (ofMat (R s))ᵀ)
    (hperm : ∀ i j k l, Φ i j k l = Φ j i l k)
    (hF : ∀ k j β, F k j β = -(∑ α, Φ j a β α * u k α))
    (hdet : det3 (gram (rotDisps R u)) ≠ 0) :
    solveRows R rho u F = some (fun i => Φ a i) := by
  unfold solveRows
  rw [if_neg hdet]
  congr 1
  funext i
  exact applyPinv_recovers (rotDisps R u) (Φ a i) (rotForces R rho F i)
    (fun k s b => rotForces_harmonic Φ a R rho u F hR hsite hperm hF i k s b) hdet

theorem rowIndex_some {M n : Nat} {atomList : Fin M → Fin n} {a : Fin n} {r : Fin M}
    (h : rowIndex atomList a = some r) : atomList r = a := by
  unfold rowIndex at h
  simpa using List.find?_some h

theorem rowIndex_isSome {M n : Nat} {atomList : Fin M → Fin n} {a : Fin n} (h : ∃ r, atomList r = a) :
    ∃ r, rowIndex atomList a = some r := by
  obtain ⟨r, hr⟩ := h
  have : (rowIndex atomList a).isSome = true := by
    unfold rowIndex
    rw [List.find?_isSome]
    exact ⟨r, List.mem_finRange r, by simpa using hr⟩
  exact Option.isSome_iff_exists.mp this

/-- the data-set loop writes exactly the rows of the displaced atoms -/
theorem fcDisps_exact {M n : Nat} (Φ : FC n K) (atomList : Fin M → Fin n) (hinjA : Function.Injective atomList) :
    ∀ (data : List (AtomData n K)) (fc : Rows M n K),
    (∀ D ∈ data, solveRows D.R D.rho D.u D.F = some (fun i => Φ D.atom i)) →
    (∀ D ∈ data, ∃ r, atomList r = D.atom) →
    ∃ out, fcDisps atomList data fc = some out ∧
      ∀ r, out r = if (∃ D ∈ data, D.atom = atomList r) then Φ (atomList r) else fc r
  | [], fc, _, _ => ⟨fc, rfl, fun r => by simp⟩
  | D :: rest, fc, hs, hr => by
    obtain ⟨r0, hr0⟩ := rowIndex_isSome (hr D List.mem_cons_self)
    have ha0 := rowIndex_some hr0
    obtain ⟨out, hout, hspec⟩ := fcDisps_exact Φ atomList hinjA rest
      (fun r' => if r' = r0 then (fun i => Φ D.atom i) else fc r')
      (fun D' h => hs D' (List.mem_cons_of_mem _ h)) (fun D' h => hr D' (List.mem_cons_of_mem _ h))
    refine ⟨out, ?_, ?_⟩
    · simp only [fcDisps, hr0, hs D List.mem_cons_self]
      exact hout
    · intro r
      rw [hspec r]
      by_cases h1 : ∃ D' ∈ rest, D'.atom = atomList r
      · have : ∃ D' ∈ D :: rest, D'.atom = atomList r := by
          obtain ⟨D', h, e⟩ := h1; exact ⟨D', List.mem_cons_of_mem _ h, e⟩
        rw [if_pos h1, if_pos this]
      · rw [if_neg h1]
        by_cases h2 : r = r0
        · subst h2
          have : ∃ D' ∈ D :: rest, D'.atom = atomList r := ⟨D, List.mem_cons_self, ha0.symm⟩
          rw [if_pos rfl, if_pos this, ha0]
        · have : ¬ ∃ D' ∈ D :: rest, D'.atom = atomList r := by
            rintro ⟨D', hm, e⟩
            rcases List.mem_cons.mp hm with rfl | hm
            · exact h2 (hinjA (by rw [ha0, e]))
            · exact h1 ⟨D', hm, e⟩
          rw [if_neg h2, if_neg this]

theorem symMapOf_some {n nrot : Nat} {perms : Fin nrot → Fin n → Fin n} {done : List (Fin n)} {a : Fin n}
    {g : Fin nrot} (h : symMapOf perms done a = some g) : perms g a ∈ done := by
  unfold symMapOf at h
  simpa using List.find?_some h

theorem symMappings_some {n nrot : Nat} {perms : Fin nrot → Fin n → Fin n} {done : List (Fin n)}
    {ms : Fin n → Fin nrot} (h : symMappings perms done = some ms) : ∀ a, perms (ms a) a ∈ done := by
  unfold symMappings at h
  split at h
  · next hall =>
    cases h
    intro a
    exact symMapOf_some (Option.some_get (hall a)).symm
  · cases h

theorem symMappings_isSome {n nrot : Nat} {perms : Fin nrot → Fin n → Fin n} {done : List (Fin n)}
    (hcover : ∀ a, ∃ g, perms g a ∈ done) : ∃ ms, symMappings perms done = some ms := by
  have hall : ∀ a : Fin n, (symMapOf perms done a).isSome = true := by
    intro a
    obtain ⟨g, hg⟩ := hcover a
    unfold symMapOf
    rw [List.find?_isSome]
    exact ⟨g, List.mem_finRange g, by simpa using hg⟩
  exact ⟨_, by unfold symMappings; rw [dif_pos hall]⟩

theorem doneCert_spec {n nrot : Nat} {perms : Fin nrot → Fin n → Fin n} {done : List (Fin n)}
    (h : doneCert perms done = true) : ∀ d ∈ done, ∀ g, perms g d ∈ done → perms g d = d := by
  intro d hd g hg
  unfold doneCert at h
  rw [List.all_eq_true] at h
  have h1 := h d hd
  rw [List.all_eq_true] at h1
  have h2 := h1 g (List.mem_finRange g)
  simpa [hg] using h2

theorem siteCert_spec {n nrot : Nat} {R : Fin nrot → Mat3 K} {perms : Fin nrot → Fin n → Fin n}
    {D : AtomData n K} {ops : Fin D.m → Fin nrot} (h : siteCert R perms D ops = true) (s : Fin D.m) :
    perms (ops s) D.atom = D.atom ∧ (∀ i, perms (ops s) (D.rho s i) = i) ∧ D.R s = R (ops s) := by
  unfold siteCert at h
  rw [List.all_eq_true] at h
  have hs := h s (List.mem_finRange s)
  simp only [Bool.and_eq_true, beq_iff_eq, List.all_eq_true, List.mem_finRange, true_implies,
    decide_eq_true_eq] at hs
  exact ⟨hs.1.1, hs.1.2, by funext a b; exact hs.2 a b⟩

/-- the direct path (`full`: `atomList = id`; `compact`: `atomList = p2s_map`) is exact -/
theorem runDirect_exact {M n nrot : Nat} (Φ : FC n K) (atomList : Fin M → Fin n)
    (hinjA : Function.Injective atomList) (R : Fin nrot → Mat3 K) (perms : Fin nrot → Fin n → Fin n)
    (data : List (AtomData n K))
    (hR : ∀ g, (ofMat (R g))ᵀ * ofMat (R g) = 1)
    (hinv : ∀ g i j, ofMat (Φ (perms g i) (perms g j)) = ofMat (R g) * ofMat (Φ i j) * (ofMat (R g))ᵀ)
    (hsolve : ∀ D ∈ data, solveRows D.R D.rho D.u D.F = some (fun i => Φ D.atom i))
    (hrow : ∀ D ∈ data, ∃ r, atomList r = D.atom)
    (hineq : ∀ d ∈ data.map (·.atom), ∀ g, perms g d ∈ data.map (·.atom) → perms g d = d)
    (hcover : ∀ a, ∃ g, perms g a ∈ data.map (·.atom)) :
    runDirect atomList R perms data = some (fun r => Φ (atomList r)) := by
  obtain ⟨fc0, hfc0, hspec⟩ := fcDisps_exact Φ atomList hinjA data (fun _ _ _ _ => 0) hsolve hrow
  obtain ⟨ms, hms⟩ := symMappings_isSome hcover
  have hmsd := symMappings_some hms
  have hmemdone : ∀ a, a ∈ data.map (·.atom) ↔ ∃ D ∈ data, D.atom = a := fun a => List.mem_map
  obtain ⟨out, hout, hexact, _⟩ := distribute_exact_core Φ atomList id R perms ms fc0
    (fun _ _ h => h) hR hinv
    (by
      intro i h
      have : atomList i ∈ data.map (·.atom) := h ▸ hmsd (atomList i)
      show fc0 i = _
      rw [hspec i, if_pos ((hmemdone _).mp this)])
    (by
      intro i h
      have : ¬ ∃ D ∈ data, D.atom = atomList i := by
        intro hex
        exact h (hineq _ ((hmemdone _).mpr hex) _ (hmsd _))
      show fc0 i = _
      rw [hspec i, if_neg this])
    (by
      intro i _
      have hd := hmsd (atomList i)
      obtain ⟨D, hD, hDa⟩ := (hmemdone _).mp hd
      obtain ⟨r, hr⟩ := hrow D hD
      refine ⟨r, by rw [hr, hDa], ?_⟩
      rw [hr, hDa]
      exact hineq _ hd _ (hmsd _))
  unfold runDirect
  simp only [hfc0, hms, hout]
  congr 1
  funext r
  exact hexact r

/-- the two-stage path (space group onto the primitive-cell atoms, then pure translations) is exact -/
theorem runTwoStage_exact {np n nrot nt : Nat} (Φ : FC n K) (p2s : Fin np → Fin n)
    (hinjP : Function.Injective p2s) (R : Fin nrot → Mat3 K) (perms : Fin nrot → Fin n → Fin n)
    (RT : Fin nt → Mat3 K) (permsT : Fin nt → Fin n → Fin n) (data : List (AtomData n K))
    (hR : ∀ g, (ofMat (R g))ᵀ * ofMat (R g) = 1)
    (hinv : ∀ g i j, ofMat (Φ (perms g i) (perms g j)) = ofMat (R g) * ofMat (Φ i j) * (ofMat (R g))ᵀ)
    (hRT : ∀ t, (ofMat (RT t))ᵀ * ofMat (RT t) = 1)
    (hinvT : ∀ t i j, ofMat (Φ (permsT t i) (permsT t j)) = ofMat (RT t) * ofMat (Φ i j) * (ofMat (RT t))ᵀ)
    (hsolve : ∀ D ∈ data, solveRows D.R D.rho D.u D.F = some (fun i => Φ D.atom i))
    (hrow : ∀ D ∈ data, ∃ r, p2s r = D.atom)
    (hineq : ∀ d ∈ data.map (·.atom), ∀ g, perms g d ∈ data.map (·.atom) → perms g d = d)
    (hcover : ∀ a, ∃ g, perms g a ∈ data.map (·.atom))
    (hineqT : ∀ d ∈ (List.finRange np).map p2s, ∀ t, permsT t d ∈ (List.finRange np).map p2s → permsT t d = d)
    (hcoverT : ∀ a, ∃ t, permsT t a ∈ (List.finRange np).map p2s) :
    runTwoStage p2s R perms RT permsT data = some Φ := by
  obtain ⟨fc0, hfc0, hspec⟩ := fcDisps_exact Φ (id : Fin n → Fin n) (fun _ _ h => h) data (fun _ _ _ _ => 0) hsolve
    (fun D _ => ⟨D.atom, rfl⟩)
  obtain ⟨ms, hms⟩ := symMappings_isSome hcover
  have hmsd := symMappings_some hms
  have hmemdone : ∀ a, a ∈ data.map (·.atom) ↔ ∃ D ∈ data, D.atom = a := fun a => List.mem_map
  have hmemP : ∀ a, a ∈ (List.finRange np).map p2s ↔ ∃ i, p2s i = a := by
    intro a; simp [List.mem_map]
  obtain ⟨fc1, hfc1, hex1, hrest1⟩ := distribute_exact_core Φ p2s p2s R perms ms fc0 hinjP hR hinv
    (by
      intro i h
      have : p2s i ∈ data.map (·.atom) := h ▸ hmsd (p2s i)
      have h' : ∃ D ∈ data, D.atom = id (p2s i) := (hmemdone _).mp this
      rw [hspec (p2s i), if_pos h']; rfl)
    (by
      intro i h
      have : ¬ ∃ D ∈ data, D.atom = id (p2s i) := by
        intro hex
        exact h (hineq _ ((hmemdone _).mpr hex) _ (hmsd _))
      rw [hspec (p2s i), if_neg this])
    (by
      intro i _
      have hd := hmsd (p2s i)
      obtain ⟨D, hD, hDa⟩ := (hmemdone _).mp hd
      obtain ⟨r, hr⟩ := hrow D hD
      refine ⟨r, by rw [hr, hDa], ?_⟩
      rw [hr, hDa]
      exact hineq _ hd _ (hmsd _))
  obtain ⟨mt, hmt⟩ := symMappings_isSome hcoverT
  have hmtd := symMappings_some hmt
  have hzero : ∀ r, (∀ i, p2s i ≠ r) → fc1 r = fun _ _ _ => 0 := by
    intro r hr
    rw [hrest1 r hr, hspec r, if_neg]
    rintro ⟨D, hD, hDa⟩
    obtain ⟨i, hi⟩ := hrow D hD
    exact hr i (by rw [hi, hDa]; rfl)
  obtain ⟨fc2, hfc2, hex2, _⟩ := distribute_exact_core Φ (id : Fin n → Fin n) (id : Fin n → Fin n) RT permsT mt fc1
    (fun _ _ h => h) hRT hinvT
    (by
      intro r h
      obtain ⟨i, hi⟩ := (hmemP _).mp (hmtd r)
      have : p2s i = r := by rw [hi]; exact h
      show fc1 r = Φ r
      rw [← this]; exact hex1 i)
    (by
      intro r h
      show fc1 r = _
      apply hzero
      intro i hi
      have hrP : r ∈ (List.finRange np).map p2s := (hmemP _).mpr ⟨i, hi⟩
      exact h (hineqT r hrP _ (hmtd r)))
    (by
      intro r _
      exact ⟨permsT (mt r) r, rfl, hineqT _ (hmtd r) _ (hmtd _)⟩)
  unfold runTwoStage
  simp only [hfc0, hms, hfc1, hmt, hfc2]
  congr 1
  funext r
  exact hex2 r

end PhononModel.FD
